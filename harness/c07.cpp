// C07 harness: tlx::(stable_)parallel_multiway_merge(_sentinels) behind the line protocol.
//
//   pm <variant> <cmp> <split> <threads> <osf> <algo> <force> <mink> <minn> <size> <run> <run> ...
//        variant u|s|us|ss   (unstable / stable / ..._sentinels)
//        cmp     lt|gt|half
//        split   exact|sampling
//        threads >= 1        osf = parallel_multiway_merge_oversampling >= 1
//        algo    lt|ltc|lts|bubble      (MWMA_LOSER_TREE, _COMBINED, _SENTINEL, MWMA_BUBBLE)
//        force   par|seq|auto           (the two force flags)
//        mink minn            parallel_multiway_merge_minimal_k / _minimal_n
//        size    0..total ; runs as csv of keys, `-` = empty run
//   es <n> <p>                          multiway_merge_detail::equally_split
// answers
//   out <key:seq:pos,...> ret <n> begins <b0,b1,..> win <start+len,...> spec <0|1>
//        win: maximal windows of output positions written by one thread, sorted by start,
//        prefixed `m` when written by the calling thread (sequential fall-back)
//   es <s0,s1,...>
// Elements are (key, seq, pos) compared by key only.  For the unstable variants the order
// inside a run of equivalent keys is canonicalised (sorted by (seq,pos)) before printing.
//
// Direct oracle: brute-force stable merge (std::stable_sort of the tagged elements).
//   stable   : output == first `size` elements of the stable merge, begins == their counts
//   unstable : keys == keys of the first `size`; the output holds exactly the prefixes
//              [0, begins_i) of the inputs, each element once
//   both     : returned iterator == target + size; every output position written exactly
//              once, nothing else written; inputs unchanged; ASan/UBSan (TSan build: races)
#include <algorithm>
#include <atomic>
#include <climits>
#include <cstring>
#include <functional>
#include <thread>
#include <utility>
#include <vector>

#include "common.hpp"

#include <tlx/algorithm/parallel_multiway_merge.hpp>

using ll = long long;

// short stack traces (file:line only): the template names of the merge routines are several kB per
// frame and would push the sanitizer's error line out of the stderr tail kept by the check
extern "C" const char* __asan_default_options() { return "stack_trace_format='#%n %L'"; }
extern "C" const char* __ubsan_default_options() { return "stack_trace_format='#%n %L'"; }

// serial number of the running thread instance (std::thread::id values are reused after a join)
static std::atomic<int> g_next_serial{1};
struct Serial { int v; Serial() : v(g_next_serial++) {} };
static thread_local Serial t_serial;

// set when an element in moved-from state is read (copied / moved / assigned from)
static std::atomic<bool> g_moved_observed{false};

// The element type is *move-sensitive*: moving from an element marks the source (`moved`, key poisoned).
// The merge must never move from the caller's sequences, and must never read a moved-from element.
struct E {
    ll key = 0;
    int seq = -1, pos = -1;
    int writes = 0;
    int writer = 0;
    bool moved = false;
    E() {}
    E(ll k, int s, int p) : key(k), seq(s), pos(p) {}
    E(const E& o) : key(o.key), seq(o.seq), pos(o.pos) { if (o.moved) g_moved_observed = true; }
    E(E&& o) noexcept : key(o.key), seq(o.seq), pos(o.pos) {
        if (o.moved) g_moved_observed = true;
        o.moved = true; o.key = -987654321;
    }
    E& operator=(const E& o) {
        if (o.moved) g_moved_observed = true;
        key = o.key; seq = o.seq; pos = o.pos; moved = false;
        ++writes; writer = t_serial.v;
        return *this;
    }
    E& operator=(E&& o) noexcept {
        if (o.moved) g_moved_observed = true;
        key = o.key; seq = o.seq; pos = o.pos; moved = false;
        ++writes; writer = t_serial.v;
        if (this != &o) { o.moved = true; o.key = -987654321; }
        return *this;
    }
    // *poisoned* default order: a scrambled function of (pos, seq), inconsistent with every comparator the
    // harness passes.  tlx code that forgets to pass `comp` on still compiles, and its wrong result is
    // reported by the oracle with a concrete input.
    static unsigned poison(const E& e) { return static_cast<unsigned>(e.pos * 31 + e.seq + 1) * 2654435761u; }
    friend bool operator<(const E& a, const E& b) { return poison(a) < poison(b); }
    friend bool operator>(const E& a, const E& b) { return poison(a) > poison(b); }
    friend bool operator==(const E& a, const E& b) { return a.seq == b.seq && a.pos == b.pos; }
};

enum Cmp { LT, GT, HALF };
struct Comp {
    Cmp c;
    bool operator()(const E& a, const E& b) const {
        switch (c) {
        case LT: return a.key < b.key;
        case GT: return a.key > b.key;
        default: return (a.key >> 1) < (b.key >> 1);
        }
    }
};
static bool parse_cmp(const std::string& s, Cmp& c) {
    if (s == "lt") c = LT; else if (s == "gt") c = GT; else if (s == "half") c = HALF; else return false;
    return true;
}

static std::string show_elems(const std::vector<E>& v) {
    if (v.empty()) return "-";
    std::string s;
    for (size_t i = 0; i < v.size(); ++i) {
        if (i) s += ',';
        s += std::to_string(v[i].key) + ":" + std::to_string(v[i].seq) + ":" + std::to_string(v[i].pos);
    }
    return s;
}

static void do_es(const std::vector<std::string>& t) {
    if (t.size() != 3) { vh::answer("bad-op"); return; }
    long n = std::stol(t[1]); long p = std::stol(t[2]);
    if (n < 0 || p < 1 || p > 100000) { vh::answer("bad-op"); return; }
    std::vector<long> s(static_cast<size_t>(p) + 1, -777);
    auto e = tlx::multiway_merge_detail::equally_split(n, static_cast<size_t>(p), s.begin());
    vh::answer("es " + vh::show_csv(s));
    if (e != s.end()) vh::viol("equally_split returned iterator is not s+p+1 in " + t[0] + " " + t[1] + " " + t[2]);
    if (n >= 1) {
        // documented: first entry 0, last n, parts of almost equal size
        bool ok = s.front() == 0 && s.back() == n;
        for (size_t i = 0; i + 1 < s.size(); ++i) ok = ok && s[i] <= s[i + 1] && s[i] >= 0;
        if (!ok) vh::viol("equally_split result not a non-decreasing 0..n splitter sequence in es " + t[1] + " " + t[2]);
    }
}

static void do_pm(const std::vector<std::string>& t, const std::string& line) {
    if (t.size() < 11) { vh::answer("bad-op"); return; }
    const std::string& variant = t[1];
    Cmp c;
    if (!parse_cmp(t[2], c)) { vh::answer("bad-op"); return; }
    Comp comp{c};
    tlx::MultiwayMergeSplittingAlgorithm mwmsa;
    if (t[3] == "exact") mwmsa = tlx::MWMSA_EXACT; else if (t[3] == "sampling") mwmsa = tlx::MWMSA_SAMPLING; else { vh::answer("bad-op"); return; }
    long threads, osf, mink, minn, size;
    std::vector<std::vector<ll>> keys;
    try {
        threads = std::stol(t[4]); osf = std::stol(t[5]);
        mink = std::stol(t[8]); minn = std::stol(t[9]); size = std::stol(t[10]);
        for (size_t i = 11; i < t.size(); ++i) keys.push_back(vh::csv(t[i]));
    } catch (...) { vh::answer("bad-op"); return; }
    tlx::MultiwayMergeAlgorithm mwma;
    if (t[6] == "lt") mwma = tlx::MWMA_LOSER_TREE; else if (t[6] == "ltc") mwma = tlx::MWMA_LOSER_TREE_COMBINED;
    else if (t[6] == "lts") mwma = tlx::MWMA_LOSER_TREE_SENTINEL; else if (t[6] == "bubble") mwma = tlx::MWMA_BUBBLE;
    else { vh::answer("bad-op"); return; }
    bool fpar = t[7] == "par", fseq = t[7] == "seq";
    if (!fpar && !fseq && t[7] != "auto") { vh::answer("bad-op"); return; }
    bool stable = (variant == "s" || variant == "ss"), sent = (variant == "us" || variant == "ss");
    if (!stable && !sent && variant != "u") { vh::answer("bad-op"); return; }
    // documented preconditions
    long total = 0;
    for (auto& r : keys) total += (long)r.size();
    bool ok = threads >= 1 && threads <= 64 && osf >= 1 && osf <= 64 && mink >= 0 && minn >= 0 && size >= 0 && size <= total;
    size_t k = keys.size();
    std::vector<std::vector<E>> runs(k);
    for (size_t s = 0; s < k && ok; ++s) {
        for (size_t p = 0; p < keys[s].size(); ++p) runs[s].push_back(E(keys[s][p], (int)s, (int)p));
        for (size_t p = 1; p < runs[s].size(); ++p) if (comp(runs[s][p], runs[s][p - 1])) ok = false;
    }
    if (!ok) { vh::answer("bad-op"); return; }
    // sentinel behind every run (only the *_sentinels entry points may read it)
    ll sentinel_key = (c == GT) ? LLONG_MIN / 4 : LLONG_MAX / 4;
    std::vector<std::vector<E>> store(k);
    std::vector<std::pair<E*, E*>> seqs(k);
    for (size_t s = 0; s < k; ++s) {
        store[s] = runs[s];
        if (sent) store[s].push_back(E(sentinel_key, (int)s, -2));
        store[s].shrink_to_fit();
        seqs[s] = std::make_pair(store[s].data(), store[s].data() + runs[s].size());
    }
    std::vector<E> out(static_cast<size_t>(size));
    for (auto& e : out) { e.writes = 0; e.seq = -9; }
    for (auto& st : store) for (auto& e : st) e.writes = 0;
    g_moved_observed = false;

    tlx::parallel_multiway_merge_force_sequential = fseq;
    tlx::parallel_multiway_merge_force_parallel = fpar;
    tlx::parallel_multiway_merge_minimal_k = static_cast<size_t>(mink);
    tlx::parallel_multiway_merge_minimal_n = static_cast<size_t>(minn);
    tlx::parallel_multiway_merge_oversampling = static_cast<size_t>(osf);

    E* ret;
    E* target = out.data();
    size_t nt = static_cast<size_t>(threads);
    if (variant == "u")
        ret = tlx::parallel_multiway_merge(seqs.begin(), seqs.end(), target, size, comp, mwma, mwmsa, nt);
    else if (variant == "s")
        ret = tlx::stable_parallel_multiway_merge(seqs.begin(), seqs.end(), target, size, comp, mwma, mwmsa, nt);
    else if (variant == "us")
        ret = tlx::parallel_multiway_merge_sentinels(seqs.begin(), seqs.end(), target, size, comp, mwma, mwmsa, nt);
    else
        ret = tlx::stable_parallel_multiway_merge_sentinels(seqs.begin(), seqs.end(), target, size, comp, mwma, mwmsa, nt);

    // ---- observe
    std::vector<long> begins(k);
    for (size_t s = 0; s < k; ++s) begins[s] = seqs[s].first - store[s].data();
    std::vector<E> shown = out;
    if (!stable) {
        // canonicalise inside runs of equivalent keys
        size_t i = 0;
        while (i < shown.size()) {
            size_t j = i + 1;
            while (j < shown.size() && !comp(shown[i], shown[j]) && !comp(shown[j], shown[i])) ++j;
            std::sort(shown.begin() + i, shown.begin() + j, [](const E& a, const E& b) {
                return a.seq != b.seq ? a.seq < b.seq : a.pos < b.pos; });
            i = j;
        }
    }
    std::string win;
    {
        int me = t_serial.v;
        size_t i = 0;
        while (i < out.size()) {
            if (out[i].writes == 0) { ++i; continue; }
            size_t j = i + 1;
            while (j < out.size() && out[j].writes > 0 && out[j].writer == out[i].writer) ++j;
            if (!win.empty()) win += ',';
            win += (out[i].writer == me ? "m" : "") + std::to_string(i) + "+" + std::to_string(j - i);
            i = j;
        }
        if (win.empty()) win = "-";
    }
    // ---- direct oracle
    std::vector<std::string> bad;
    std::vector<E> all;
    for (size_t s = 0; s < k; ++s) for (auto& e : runs[s]) all.push_back(e);
    std::stable_sort(all.begin(), all.end(), comp);
    if (ret - target != size) bad.push_back("returned iterator is target+" + std::to_string(ret - target) + ", expected target+" + std::to_string(size));
    for (size_t i = 0; i < out.size(); ++i) {
        if (out[i].writes != 1) {
            bad.push_back("output position " + std::to_string(i) + " written " + std::to_string(out[i].writes) + " times");
            break;
        }
    }
    bool in_ok = true;
    for (size_t s = 0; s < k; ++s) {
        for (size_t p = 0; p < runs[s].size(); ++p)
            if (store[s][p].writes != 0 || store[s][p].moved || store[s][p].key != runs[s][p].key || store[s][p].pos != (int)p) in_ok = false;
        if (sent && (store[s].back().writes != 0 || store[s].back().key != sentinel_key)) in_ok = false;
    }
    if (!in_ok) bad.push_back("an input sequence was modified");
    if (g_moved_observed.exchange(false)) bad.push_back("an element in moved-from state was read");
    bool keys_ok = true, exact_ok = true;
    for (long i = 0; i < size; ++i) {
        if (comp(out[i], all[i]) || comp(all[i], out[i])) keys_ok = false;
        if (out[i].seq != all[i].seq || out[i].pos != all[i].pos) exact_ok = false;
    }
    if (!keys_ok) bad.push_back("output is not the sequence of the `size` smallest elements in merged order");
    else if (stable && !exact_ok) bad.push_back("output differs from the stable merge (order of equivalent elements)");
    std::vector<long> want(k, 0);
    for (long i = 0; i < size; ++i) want[all[i].seq]++;
    bool b_in = true; long bsum = 0;
    for (size_t s = 0; s < k; ++s) { if (begins[s] < 0 || begins[s] > (long)runs[s].size()) b_in = false; bsum += begins[s]; }
    if (!b_in) bad.push_back("an input begin was moved outside its sequence");
    else if (stable) {
        if (begins != want) bad.push_back("inputs not advanced past exactly the elements they contributed (stable merge counts)");
    }
    else {
        // the output must hold exactly the prefixes [0, begins_i)
        bool pref = (bsum == size);
        std::vector<std::vector<int>> seen(k);
        for (size_t s = 0; s < k; ++s) seen[s].assign(runs[s].size(), 0);
        for (long i = 0; i < size && pref; ++i) {
            int s = out[i].seq, p = out[i].pos;
            if (s < 0 || (size_t)s >= k || p < 0 || (size_t)p >= runs[s].size()) { pref = false; break; }
            seen[s][p]++;
        }
        for (size_t s = 0; s < k && pref; ++s)
            for (size_t p = 0; p < runs[s].size(); ++p)
                if (seen[s][p] != ((long)p < begins[s] ? 1 : 0)) pref = false;
        if (!pref) bad.push_back("inputs not advanced past exactly the elements they contributed");
    }
    // `spec`: verdict of the oracle; the driver prints whether the model's answer equals the specification
    vh::answer("out " + show_elems(shown) + " ret " + std::to_string(ret - target) + " begins " + vh::show_csv(begins) +
               " win " + win + " spec " + (bad.empty() ? "1" : "0"));
    for (auto& b : bad) vh::viol(b + " in " + line);
}

// ------------------------------------------------------------------ std::string keys (move-sensitive by nature)
//   pmstr <variant u|s> <cmp lt|gt> <split> <threads> <osf> <algo> <force> <mink> <minn> <size> <run> ...
// keys >= 0, stored as zero-padded decimal strings (lexicographic order = numeric order); a moved-from
// std::string is empty.  answer: out <k,k,..> ret <n> begins <..>
struct StrComp {
    bool gt;
    bool operator()(const std::string& a, const std::string& b) const { return gt ? (a > b) : (a < b); }
};
static std::string skey(ll k) { char buf[32]; snprintf(buf, sizeof buf, "%012lld", k); return std::string(buf); }

static void do_pmstr(const std::vector<std::string>& t, const std::string& line) {
    if (t.size() < 11) { vh::answer("bad-op"); return; }
    bool stable;
    if (t[1] == "s") stable = true; else if (t[1] == "u") stable = false; else { vh::answer("bad-op"); return; }
    bool gt;
    if (t[2] == "lt") gt = false; else if (t[2] == "gt") gt = true; else { vh::answer("bad-op"); return; }
    tlx::MultiwayMergeSplittingAlgorithm mwmsa;
    if (t[3] == "exact") mwmsa = tlx::MWMSA_EXACT; else if (t[3] == "sampling") mwmsa = tlx::MWMSA_SAMPLING; else { vh::answer("bad-op"); return; }
    long threads, osf, mink, minn, size;
    std::vector<std::vector<ll>> keys;
    try {
        threads = std::stol(t[4]); osf = std::stol(t[5]);
        mink = std::stol(t[8]); minn = std::stol(t[9]); size = std::stol(t[10]);
        for (size_t i = 11; i < t.size(); ++i) keys.push_back(vh::csv(t[i]));
    } catch (...) { vh::answer("bad-op"); return; }
    tlx::MultiwayMergeAlgorithm mwma;
    if (t[6] == "lt") mwma = tlx::MWMA_LOSER_TREE; else if (t[6] == "ltc") mwma = tlx::MWMA_LOSER_TREE_COMBINED;
    else if (t[6] == "lts") mwma = tlx::MWMA_LOSER_TREE_SENTINEL; else if (t[6] == "bubble") mwma = tlx::MWMA_BUBBLE;
    else { vh::answer("bad-op"); return; }
    bool fpar = t[7] == "par", fseq = t[7] == "seq";
    if (!fpar && !fseq && t[7] != "auto") { vh::answer("bad-op"); return; }
    long total = 0;
    for (auto& r : keys) total += (long)r.size();
    bool ok = threads >= 1 && threads <= 64 && osf >= 1 && osf <= 64 && mink >= 0 && minn >= 0 && size >= 0 && size <= total;
    StrComp comp{gt};
    size_t k = keys.size();
    std::vector<std::vector<std::string>> runs(k);
    for (size_t s = 0; s < k && ok; ++s) {
        for (ll x : keys[s]) { if (x < 0) ok = false; runs[s].push_back(skey(x)); }
        for (size_t p = 1; p < runs[s].size(); ++p) if (comp(runs[s][p], runs[s][p - 1])) ok = false;
    }
    if (!ok) { vh::answer("bad-op"); return; }
    std::vector<std::vector<std::string>> store = runs;
    for (auto& st : store) st.shrink_to_fit();
    std::vector<std::pair<std::string*, std::string*>> seqs(k);
    for (size_t s = 0; s < k; ++s) seqs[s] = std::make_pair(store[s].data(), store[s].data() + store[s].size());
    std::vector<std::string> out(static_cast<size_t>(size), std::string("unwritten"));
    tlx::parallel_multiway_merge_force_sequential = fseq;
    tlx::parallel_multiway_merge_force_parallel = fpar;
    tlx::parallel_multiway_merge_minimal_k = static_cast<size_t>(mink);
    tlx::parallel_multiway_merge_minimal_n = static_cast<size_t>(minn);
    tlx::parallel_multiway_merge_oversampling = static_cast<size_t>(osf);
    std::string* target = out.data();
    std::string* ret;
    size_t nt = static_cast<size_t>(threads);
    if (stable) ret = tlx::stable_parallel_multiway_merge(seqs.begin(), seqs.end(), target, size, comp, mwma, mwmsa, nt);
    else ret = tlx::parallel_multiway_merge(seqs.begin(), seqs.end(), target, size, comp, mwma, mwmsa, nt);
    std::vector<long> begins(k);
    for (size_t s = 0; s < k; ++s) begins[s] = seqs[s].first - store[s].data();
    std::vector<std::string> shown;
    for (auto& o : out) {
        size_t nz = o.find_first_not_of('0');
        shown.push_back(o.empty() ? std::string("EMPTY") : (nz == std::string::npos ? std::string("0") : o.substr(nz)));
    }
    vh::answer("out " + vh::show_csv(shown) + " ret " + std::to_string(ret - target) + " begins " + vh::show_csv(begins));
    // oracle
    std::vector<std::string> bad;
    struct T { std::string k; size_t s; };
    std::vector<T> all;
    for (size_t s = 0; s < k; ++s) for (auto& x : runs[s]) all.push_back(T{x, s});
    std::stable_sort(all.begin(), all.end(), [&](const T& a, const T& b) { return comp(a.k, b.k); });
    if (ret - target != size) bad.push_back("returned iterator is target+" + std::to_string(ret - target) + ", expected target+" + std::to_string(size));
    bool keys_ok = true;
    for (long i = 0; i < size; ++i) if (out[i] != all[i].k) keys_ok = false;
    if (!keys_ok) bad.push_back("output is not the sequence of the `size` smallest elements in merged order");
    if (store != runs) bad.push_back("an input sequence was modified (std::string keys)");
    std::vector<long> want(k, 0);
    for (long i = 0; i < size; ++i) want[all[i].s]++;
    long bsum = 0; bool b_in = true;
    for (size_t s = 0; s < k; ++s) { if (begins[s] < 0 || begins[s] > (long)runs[s].size()) b_in = false; bsum += begins[s]; }
    if (!b_in) bad.push_back("an input begin was moved outside its sequence");
    else if (stable && begins != want) bad.push_back("inputs not advanced past exactly the elements they contributed (stable merge counts)");
    else if (!stable && bsum != size) bad.push_back("inputs not advanced past exactly the elements they contributed");
    for (auto& b : bad) vh::viol(b + " in " + line);
}

// ------------------------------------------------------------------ front ends called WITHOUT a comparator
//   pmd <front> <types> <force par|seq> <size> <run> ...
//      front  pm|spm|pms|spms   (stable_)parallel_multiway_merge(_sentinels)
//             mm|smm|mms|smms   (stable_)multiway_merge(_sentinels)            (sequential reference)
//      types  iu  int keys merged into an unsigned array      (conversion does not preserve the order of negatives)
//             il  int keys merged into a long array
//             st  struct S {int k} (operator< by k) merged into struct T {long k} whose operator< is reversed
// The default comparator must be std::less of the INPUT value type.  answer: out <k,..> ret <n> begins <..>
struct SIn {
    int k = 0; int seq = -1, pos = -1;
    friend bool operator<(const SIn& a, const SIn& b) { return a.k < b.k; }          // the order of the inputs
};
struct TOut {
    long k = 0; int seq = -1, pos = -1;
    TOut() {}
    TOut(const SIn& s) : k(s.k), seq(s.seq), pos(s.pos) {}
    friend bool operator<(const TOut& a, const TOut& b) { return a.k > b.k; }        // poisoned: reversed
};

template <typename InT, typename OutT, typename MakeIn, typename KeyOut, typename TagOut>
static void run_pmd(const std::vector<std::string>& t, const std::string& line, MakeIn make_in, InT sentinel,
                    KeyOut key_out, TagOut tag_out, bool has_tags) {
    const std::string& front = t[1];
    bool fpar = t[3] == "par", fseq = t[3] == "seq";
    long size;
    std::vector<std::vector<ll>> keys;
    try { size = std::stol(t[4]); for (size_t i = 5; i < t.size(); ++i) keys.push_back(vh::csv(t[i])); }
    catch (...) { vh::answer("bad-op"); return; }
    size_t k = keys.size();
    long total = 0;
    bool ok = (fpar || fseq) && size >= 0;
    for (auto& r : keys) {
        total += (long)r.size();
        for (size_t p = 0; p < r.size(); ++p) {
            if (r[p] < -1000000 || r[p] > 1000000) ok = false;
            if (p && r[p] < r[p - 1]) ok = false;
        }
    }
    if (!ok || size > total) { vh::answer("bad-op"); return; }
    bool stable = front[0] == 's';
    bool sent = front == "pms" || front == "spms" || front == "mms" || front == "smms";
    std::vector<std::vector<InT>> store(k);
    for (size_t s = 0; s < k; ++s) {
        for (size_t p = 0; p < keys[s].size(); ++p) store[s].push_back(make_in((int)keys[s][p], (int)s, (int)p));
        if (sent) store[s].push_back(sentinel);
        store[s].shrink_to_fit();
    }
    std::vector<std::vector<InT>> orig = store;
    std::vector<std::pair<InT*, InT*>> seqs(k);
    for (size_t s = 0; s < k; ++s) seqs[s] = std::make_pair(store[s].data(), store[s].data() + keys[s].size());
    std::vector<OutT> out(static_cast<size_t>(size));
    tlx::parallel_multiway_merge_force_sequential = fseq;
    tlx::parallel_multiway_merge_force_parallel = fpar;
    tlx::parallel_multiway_merge_minimal_k = 2;
    tlx::parallel_multiway_merge_minimal_n = 1000;
    tlx::parallel_multiway_merge_oversampling = 10;
    OutT* target = out.data();
    OutT* ret;
    // NO comparator argument (and hence default algorithm, splitting and thread count)
    if (front == "pm") ret = tlx::parallel_multiway_merge(seqs.begin(), seqs.end(), target, size);
    else if (front == "spm") ret = tlx::stable_parallel_multiway_merge(seqs.begin(), seqs.end(), target, size);
    else if (front == "pms") ret = tlx::parallel_multiway_merge_sentinels(seqs.begin(), seqs.end(), target, size);
    else if (front == "spms") ret = tlx::stable_parallel_multiway_merge_sentinels(seqs.begin(), seqs.end(), target, size);
    else if (front == "mm") ret = tlx::multiway_merge(seqs.begin(), seqs.end(), target, size);
    else if (front == "smm") ret = tlx::stable_multiway_merge(seqs.begin(), seqs.end(), target, size);
    else if (front == "mms") ret = tlx::multiway_merge_sentinels(seqs.begin(), seqs.end(), target, size);
    else if (front == "smms") ret = tlx::stable_multiway_merge_sentinels(seqs.begin(), seqs.end(), target, size);
    else { vh::answer("bad-op"); return; }
    std::vector<long> begins(k);
    for (size_t s = 0; s < k; ++s) begins[s] = seqs[s].first - store[s].data();
    std::vector<ll> shown;
    for (auto& o : out) shown.push_back(key_out(o));
    vh::answer("out " + vh::show_csv(shown) + " ret " + std::to_string(ret - target) + " begins " + vh::show_csv(begins));
    // oracle: the stable merge by the order of the INPUT value type
    struct Tg { ll key; int s, p; };
    std::vector<Tg> all;
    for (size_t s = 0; s < k; ++s) for (size_t p = 0; p < keys[s].size(); ++p) all.push_back(Tg{keys[s][p], (int)s, (int)p});
    std::stable_sort(all.begin(), all.end(), [](const Tg& a, const Tg& b) { return a.key < b.key; });
    std::vector<std::string> bad;
    if (ret - target != size) bad.push_back("returned iterator is target+" + std::to_string(ret - target) + ", expected target+" + std::to_string(size));
    bool keys_ok = true, tags_ok = true;
    for (long i = 0; i < size; ++i) {
        if (shown[i] != all[i].key) keys_ok = false;
        if (has_tags) { auto tg = tag_out(out[i]); if (tg.first != all[i].s || tg.second != all[i].p) tags_ok = false; }
    }
    if (!keys_ok) bad.push_back("output (no comparator given) is not the merge by the input type's operator<");
    else if (stable && has_tags && !tags_ok) bad.push_back("output differs from the stable merge (order of equivalent elements)");
    bool in_ok = true;
    for (size_t s = 0; s < k; ++s)
        for (size_t p = 0; p < store[s].size(); ++p)
            if (memcmp(&store[s][p], &orig[s][p], sizeof(InT)) != 0) in_ok = false;
    if (!in_ok) bad.push_back("an input sequence was modified");
    std::vector<long> want(k, 0);
    for (long i = 0; i < size; ++i) want[all[i].s]++;
    long bsum = 0; bool b_in = true;
    for (size_t s = 0; s < k; ++s) { if (begins[s] < 0 || begins[s] > (long)keys[s].size()) b_in = false; bsum += begins[s]; }
    if (!b_in) bad.push_back("an input begin was moved outside its sequence");
    else if (stable && begins != want) bad.push_back("inputs not advanced past exactly the elements they contributed (stable merge counts)");
    else if (!stable && bsum != size) bad.push_back("inputs not advanced past exactly the elements they contributed");
    for (auto& b : bad) vh::viol(b + " in " + line);
}

static void do_pmd(const std::vector<std::string>& t, const std::string& line) {
    if (t.size() < 5) { vh::answer("bad-op"); return; }
    static const char* fronts[] = {"pm", "spm", "pms", "spms", "mm", "smm", "mms", "smms"};
    bool fok = false;
    for (auto* f : fronts) if (t[1] == f) fok = true;
    if (!fok) { vh::answer("bad-op"); return; }
    auto notag = [](const auto&) { return std::make_pair(-1, -1); };
    if (t[2] == "iu")
        run_pmd<int, unsigned>(t, line, [](int k, int, int) { return k; }, INT_MAX,
                               [](unsigned o) { return (ll)(int)o; }, notag, false);
    else if (t[2] == "il")
        run_pmd<int, long>(t, line, [](int k, int, int) { return k; }, INT_MAX,
                           [](long o) { return (ll)o; }, notag, false);
    else if (t[2] == "st") {
        SIn sen; sen.k = INT_MAX; sen.seq = -1; sen.pos = -2;
        run_pmd<SIn, TOut>(t, line, [](int k, int s, int p) { SIn x; x.k = k; x.seq = s; x.pos = p; return x; }, sen,
                           [](const TOut& o) { return (ll)o.k; },
                           [](const TOut& o) { return std::make_pair(o.seq, o.pos); }, true);
    }
    else vh::answer("bad-op");
}

int main(int, char**) {
    std::string line;
    while (std::getline(std::cin, line)) {
        auto t = vh::tokens(line);
        if (t.empty()) { vh::answer(""); continue; }
        if (t[0][0] == '#') { vh::answer(line); continue; }
        if (t[0] == "case") { vh::answer("case"); continue; }
        if (t[0] == "pm") do_pm(t, line);
        else if (t[0] == "pmstr") do_pmstr(t, line);
        else if (t[0] == "pmd") do_pmd(t, line);
        else if (t[0] == "es") do_es(t);
        else vh::answer("bad-op");
    }
    return 0;
}
