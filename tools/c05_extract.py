#!/usr/bin/env python3
"""Translator for C05: extracts the 3- and 4-way merge machines of tlx/algorithm/multiway_merge.hpp
(macro bodies TLX_MERGE3CASE / TLX_MERGE4CASE / TLX_DECISION, their invocation rows and the entry
decision trees) into lean/TlxVerif/Gen/C05MergeTables.lean.

usage: c05_extract.py <repo> <out.lean>     exit 0 = written, 1 = the source no longer has the
expected shape (message on stderr; nothing is written)."""
import re
import sys


class Shape(Exception):
    pass


def strip_comments(s):
    s = re.sub(r"/\*.*?\*/", " ", s, flags=re.S)
    s = re.sub(r"//[^\n]*", " ", s)
    return s


def function_body(src, name):
    """text of the body of the function template `name` (first definition)"""
    m = re.search(r"\b" + name + r"\s*\(", src)
    if not m:
        raise Shape(f"function {name} not found")
    i = src.index("{", m.end())
    # the parameter list contains no braces; find the matching brace
    depth, j = 0, i
    while j < len(src):
        if src[j] == "{":
            depth += 1
        elif src[j] == "}":
            depth -= 1
            if depth == 0:
                return src[i + 1:j]
        j += 1
    raise Shape(f"unbalanced braces in {name}")


def macro_def(body, name):
    """(params, replacement text) of `#define name(params) …` with line continuations"""
    m = re.search(r"#\s*define\s+" + name + r"\s*\(([^)]*)\)((?:[^\n]*\\\n)*[^\n]*)\n", body)
    if not m:
        raise Shape(f"macro {name} not found")
    params = [p.strip() for p in m.group(1).split(",")]
    text = m.group(2).replace("\\\n", "\n")
    return params, text, m.start(), m.end()


TOK = re.compile(r"\s*(##|<=|==|[A-Za-z_][A-Za-z_0-9]*|[0-9]+|.)", re.S)


def tokens(text):
    out = []
    pos = 0
    text = text.strip()
    while pos < len(text):
        m = TOK.match(text, pos)
        if not m:
            break
        out.append(m.group(1))
        pos = m.end()
    return [t for t in out if t.strip()]


def paste(toks, i):
    """reads an identifier built with ## from toks[i:], returns (list of parts, next index)"""
    parts = [toks[i]]
    i += 1
    while i < len(toks) and toks[i] == "##":
        parts.append(toks[i + 1])
        i += 2
    return parts, i


EMIT = "s L : * target = * seq A ; ++ target ; -- size ; ++ seq A ; if ( size == 0 ) goto finish ;"


def parse_case_macro(params, text, nseq):
    """TLX_MERGEnCASE body -> (emit_ok, tests, default).  params = a,b,c[,d],c0,c1[,c2]"""
    seqp = params[:nseq]
    opp = params[nseq:]
    toks = tokens(text)
    # --- emit prefix
    i = 0
    norm = []
    parts, i = paste(toks, i)
    label_ok = parts == ["s"] + seqp
    norm += ["s", "L"]

    def seqref(i):
        parts, j = paste(toks, i)
        if len(parts) == 2 and parts[0] == "seq" and parts[1] in seqp:
            return seqp.index(parts[1]), j
        raise Shape("expected seq##<param> at token %d: %s" % (i, toks[i:i + 4]))

    want = EMIT.split()[2:]
    emit_ok = label_ok
    k = 0
    while k < len(want):
        w = want[k]
        if w == "seq":
            try:
                idx, i = seqref(i)
            except Shape:
                emit_ok = False
                break
            if idx != 0:
                emit_ok = False
            k += 2
            continue
        if w in ("++", "--"):
            if i + 1 < len(toks) and toks[i] == w[0] and toks[i + 1] == w[0]:
                i += 2
            else:
                emit_ok = False
                break
            k += 1
            continue
        if i < len(toks) and toks[i] == w:
            i += 1
        else:
            emit_ok = False
            break
        k += 1
    if not emit_ok:
        raise Shape("case macro does not start with the expected emit-and-advance statements")
    # --- tests
    tests = []
    dflt = None
    while i < len(toks):
        if toks[i] == "if":
            if toks[i + 1] != "(":
                raise Shape("if without (")
            l, j = seqref(i + 2)
            op = toks[j]
            if op in opp:
                opref = ("param", opp.index(op))
            elif op in ("<", "<="):
                opref = ("lit", op)
            else:
                raise Shape(f"unexpected operator token {op}")
            r, j = seqref(j + 1)
            if toks[j] != ")" or toks[j + 1] != "goto":
                raise Shape("expected `) goto`")
            parts, j = paste(toks, j + 2)
            if parts[0] != "s" or any(p not in seqp for p in parts[1:]):
                raise Shape("goto target is not s##<params>")
            if toks[j] != ";":
                raise Shape("missing ; after goto")
            tests.append((l, opref, r, [seqp.index(p) for p in parts[1:]]))
            i = j + 1
        elif toks[i] == "goto":
            parts, j = paste(toks, i + 1)
            if parts[0] != "s" or any(p not in seqp for p in parts[1:]):
                raise Shape("default goto target is not s##<params>")
            dflt = [seqp.index(p) for p in parts[1:]]
            i = j
            if i < len(toks) and toks[i] == ";":
                i += 1
            if i != len(toks):
                raise Shape("statements after the final goto of the case macro")
        else:
            raise Shape(f"unexpected token {toks[i]} in case macro")
    if dflt is None:
        raise Shape("case macro has no final goto")
    return tests, dflt


def parse_decision_macro(params, text):
    """TLX_DECISION(a,b,c,d): do { if (seq##d < seq##a) goto s##…; … goto s##…; } while (0)"""
    toks = tokens(text)
    if toks[:2] != ["do", "{"] or toks[-5:] != ["}", "while", "(", "0", ")"]:
        raise Shape("TLX_DECISION is not a do { … } while (0)")
    inner = toks[2:-5]
    fake = " ".join(inner)
    # reuse the test parser by prefixing a dummy emit part
    tests = []
    dflt = None
    i = 0
    seqp = params

    def seqref(i):
        parts, j = paste(inner, i)
        if len(parts) == 2 and parts[0] == "seq" and parts[1] in seqp:
            return seqp.index(parts[1]), j
        raise Shape("TLX_DECISION: expected seq##<param>")

    while i < len(inner):
        if inner[i] == "if":
            l, j = seqref(i + 2)
            op = inner[j]
            if op not in ("<", "<="):
                raise Shape("TLX_DECISION: operator")
            r, j = seqref(j + 1)
            if inner[j] != ")" or inner[j + 1] != "goto":
                raise Shape("TLX_DECISION: expected `) goto`")
            parts, j = paste(inner, j + 2)
            tests.append((l, ("lit", op), r, [seqp.index(p) for p in parts[1:]]))
            if inner[j] != ";":
                raise Shape("TLX_DECISION: ;")
            i = j + 1
        elif inner[i] == "goto":
            parts, j = paste(inner, i + 1)
            dflt = [seqp.index(p) for p in parts[1:]]
            i = j + 1
        else:
            raise Shape(f"TLX_DECISION: unexpected token {inner[i]}")
    if dflt is None:
        raise Shape("TLX_DECISION: no default goto")
    return tests, dflt


def parse_tree(text, nseq):
    """entry decision tree (nested if/else with goto sXYZ; or TLX_DECISION(a,b,c,d);)"""
    toks = tokens(text)
    pos = [0]

    def peek():
        return toks[pos[0]] if pos[0] < len(toks) else None

    def eat(t):
        if peek() != t:
            raise Shape(f"entry tree: expected {t}, got {peek()} at {pos[0]}")
        pos[0] += 1

    def seq():
        t = peek()
        m = re.fullmatch(r"seq([0-9])", t or "")
        if not m:
            raise Shape(f"entry tree: expected seqN, got {t}")
        pos[0] += 1
        return int(m.group(1))

    def stmt():
        t = peek()
        if t == "{":
            eat("{")
            s = stmt()
            eat("}")
            return s
        if t == "if":
            eat("if"); eat("(")
            l = seq()
            op = peek()
            if op not in ("<", "<="):
                raise Shape("entry tree: operator")
            pos[0] += 1
            r = seq()
            eat(")")
            a = stmt()
            eat("else")
            b = stmt()
            return ("ite", l, op, r, a, b)
        if t == "goto":
            eat("goto")
            lab = peek()
            m = re.fullmatch(r"s([0-9]+)", lab or "")
            if not m or len(m.group(1)) != nseq:
                raise Shape(f"entry tree: bad label {lab}")
            pos[0] += 1
            eat(";")
            return ("goto", [int(c) for c in m.group(1)])
        if t == "TLX_DECISION":
            eat("TLX_DECISION"); eat("(")
            args = []
            while True:
                args.append(int(peek())); pos[0] += 1
                if peek() == ",":
                    pos[0] += 1
                    continue
                break
            eat(")"); eat(";")
            return ("decision", args)
        raise Shape(f"entry tree: unexpected token {t}")

    tree = stmt()
    if pos[0] != len(toks):
        raise Shape("entry tree: trailing tokens " + " ".join(toks[pos[0]:pos[0] + 6]))
    return tree


def rows_of(body, name, nseq):
    rows = []
    for m in re.finditer(r"\b" + name + r"\s*\(([^)]*)\)\s*;", body):
        args = [a.strip() for a in m.group(1).split(",")]
        if len(args) != 2 * nseq - 1:
            raise Shape(f"{name} invocation with {len(args)} arguments")
        perm = [int(a) for a in args[:nseq]]
        ops = args[nseq:]
        if any(o not in ("<", "<=") for o in ops):
            raise Shape(f"{name}: operator argument {ops}")
        rows.append((perm, ops))
    return rows


def extract_machine(src, fname, casemacro, nseq, with_decision):
    body = function_body(src, fname)
    params, text, ms, me = macro_def(body, casemacro)
    if len(params) != 2 * nseq - 1:
        raise Shape(f"{casemacro} has {len(params)} parameters")
    tests, dflt = parse_case_macro(params, text, nseq)
    after = body[me:]
    undef = after.find("#undef")
    rows = rows_of(after[:undef] if undef >= 0 else after, casemacro, nseq)
    # entry tree: from the end of the iterator declarations / TLX_DECISION definition to the case macro
    pre = body[:ms]
    decision = ([], list(range(nseq)))
    if with_decision:
        dparams, dtext, ds, de = macro_def(pre, "TLX_DECISION")
        decision = parse_decision_macro(dparams, dtext)
        tree_text = pre[de:]
    else:
        m = None
        for m in re.finditer(r"seq%d\s*\([^;]*;" % (nseq - 1), pre):
            pass
        if m is None:
            raise Shape("iterator declarations not found")
        tree_text = pre[m.end():]
    tree = parse_tree(tree_text, nseq)
    fin = re.search(r"finish\s*:(.*?)return\s+target\s*;", after, re.S)
    finish_ok = bool(fin) and all(
        re.search(r"seqs_begin\s*\[\s*%d\s*\]\s*\.\s*first\s*=\s*seq%d\s*\.\s*iterator\s*\(\s*\)\s*;" % (i, i), fin.group(1))
        for i in range(nseq))
    early = re.search(r"if\s*\(\s*size\s*==\s*0\s*\)\s*return\s+target\s*;", pre)
    if not early:
        raise Shape(f"{fname}: early return for size == 0 not found")
    return dict(n=nseq, tests=tests, dflt=dflt, rows=rows, tree=tree, decision=decision, finish_ok=finish_ok)


# ------------------------------------------------------------------ Lean output

def lop(o):
    return ".le" if o == "<=" else ".lt"


def lnats(l):
    return "[" + ", ".join(str(x) for x in l) + "]"


def ltest(t):
    l, opref, r, target = t
    o = f"(.opParam {opref[1]})" if opref[0] == "param" else f"(.opLit {lop(opref[1])})"
    return f"{{ lhs := {l}, op := {o}, rhs := {r}, target := {lnats(target)} }}"


def lbody(tests, dflt, ind):
    return ("\n" + ind + "  { tests := [" + (",".join("\n" + ind + "      " + ltest(t) for t in tests)) + "],\n" + ind + "    dflt := " + lnats(dflt) + " }")


def ltree(t, ind):
    if t[0] == "goto":
        return f"(.goto {lnats(t[1])})"
    if t[0] == "decision":
        return f"(.decision {lnats(t[1])})"
    _, l, op, r, a, b = t
    return (f"(.ite {l} {lop(op)} {r}\n{ind}  " + ltree(a, ind + "  ") + f"\n{ind}  " + ltree(b, ind + "  ") + ")")


def lmachine(name, m):
    rows = ",\n".join("    { perm := %s, ops := [%s] }" % (lnats(p), ", ".join(lop(o) for o in ops)) for p, ops in m["rows"])
    return f"""def {name} : Machine :=
  {{ n := {m['n']},
    emitOK := true,
    finishOK := {'true' if m['finish_ok'] else 'false'},
    body :={lbody(m['tests'], m['dflt'], '    ')},
    rows := [
{rows}],
    entry :=
      {ltree(m['tree'], '      ')},
    decision :={lbody(m['decision'][0], m['decision'][1], '    ')} }}
"""


def main():
    repo, out = sys.argv[1], sys.argv[2]
    try:
        src = strip_comments(open(repo + "/tlx/algorithm/multiway_merge.hpp").read())
        m3 = extract_machine(src, "multiway_merge_3_variant", "TLX_MERGE3CASE", 3, False)
        m4 = extract_machine(src, "multiway_merge_4_variant", "TLX_MERGE4CASE", 4, True)
    except Shape as e:
        sys.stderr.write("c05_extract: " + str(e) + "\n")
        return 1
    text = ("""/- GENERATED by tools/c05_extract.py from tlx/algorithm/multiway_merge.hpp — do not edit.
The 3- and 4-way merge machines: macro bodies, invocation rows, entry decision trees. -/
import TlxVerif.Model.C05Tables
namespace TlxVerif.C05.Gen
open TlxVerif.C05

""" + lmachine("merge3", m3) + "\n" + lmachine("merge4", m4) + "\nend TlxVerif.C05.Gen\n")
    try:
        old = open(out).read()
    except OSError:
        old = None
    if old != text:
        with open(out, "w") as f:
            f.write(text)
    return 0


if __name__ == "__main__":
    sys.exit(main())
