#!/usr/bin/env python3
"""(Re)generate the 'Seeded changes' table of DESIGN.md §9 from seeded/*/meta.json."""
import glob, json, os, re
V = os.path.dirname(os.path.dirname(os.path.abspath(__file__)))
rows = []
for p in sorted(glob.glob(os.path.join(V, "seeded", "*", "meta.json"))):
    m = json.load(open(p))
    what = " ".join(m.get("summary", m.get("needs_to_manifest", "")).split())
    what = re.sub(r"^Patch [AB]\s*[-—:]+\s*", "", what)[:230]
    chk = m["check"]
    if chk.get("detected"):
        vl = chk.get("violation_lines", [""])
        kind = "no-failing-input-found" if all("no-failing-input-found" in v for v in vl) else "failing input replayed"
        res = f"caught ({kind})"
    else:
        res = "MISSED at first run"
    if m.get("after_strengthening"):
        res += " → " + m["after_strengthening"]
    if m.get("outside_property"):
        res = "quiet, correctly: " + m["outside_property"]
    if m.get("open_note"):
        res += " — " + m["open_note"]
    rows.append(f"| {m['id']} | {m['property']} | {what} | {res} |")
n_first = sum(1 for r in rows if "| caught (" in r)
n_after = sum(1 for r in rows if "MISSED at first run →" in r)
n_out = sum(1 for r in rows if "| quiet, correctly:" in r)
n_miss = len(rows) - n_first - n_after - n_out
summary = (f"Totals: {len(rows)} seeded changes in eight waves; {n_first} caught by the quick tier as the checks stood when the change "
           f"was written, {n_after} missed at first and caught after the named strengthening, {n_miss} still missed, {n_out} outside the property as stated (check rightly quiet).\n\n")
table = ("### Seeded changes (independent sub-agents, given only the property text) and which check catches them\n\n"
         "Each change compiles, passes the tlx tests named in its `meta.json`, and its demonstration fails with the\n"
         "change and passes without it (all re-confirmed in a scratch worktree). Result of `check.py <property> --tier quick`\n"
         "on the changed tree:\n\n" + summary + "| id | property | change (abridged from the author's note) | result |\n|---|---|---|---|\n"
         + "\n".join(rows) + "\n")
d = open(os.path.join(V, "DESIGN.md")).read()
start = d.find("### Seeded changes (independent sub-agents")
if start >= 0:
    end = d.find("\n### ", start + 10)
    d = d[:start] + table + (d[end:] if end >= 0 else "")
else:
    d += "\n" + table
open(os.path.join(V, "DESIGN.md"), "w").write(d)
print(len(rows), "rows")
