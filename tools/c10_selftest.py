#!/usr/bin/env python3
"""Self-validation of the C10/C11 checks (DESIGN §7): realistic breaking edits of the tlx sources, each applied
to a scratch copy of the repo worktree (never to the worktree itself); the check is pointed at the copy and must
report `VIOLATION … replay=…`.  Usage: tools/c10_selftest.py <repo worktree> <scratch dir> [name…]"""
import os
import shutil
import subprocess
import sys

VERIF = os.path.dirname(os.path.dirname(os.path.abspath(__file__)))

MUTANTS = [
    # (name, property, file, old, new, what)
    ("c10_m1_revert_d6", "C10", "tlx/thread_pool.cpp",
     "            lock.lock();\n            cv_finished_.notify_all();",
     "            lock.lock();\n            cv_finished_.notify_one();",
     "worker wakes only one cv_finished_ waiter (the D6 defect)"),
    ("c10_m2_notify_before_relock", "C10", "tlx/thread_pool.cpp",
     "            lock.lock();\n            cv_finished_.notify_all();",
     "            cv_finished_.notify_all();\n            lock.lock();",
     "completion is signalled before the mutex is re-acquired: a waiter between its predicate check and its "
     "wait misses the notification (lost wake-up window of a few instructions)"),
    ("c10_m3_busy_after_unlock", "C10", "tlx/thread_pool.cpp",
     "            ++busy_;\n\n            {\n                // pull job.\n                Job job = std::move(jobs_.front());\n"
     "                jobs_.pop_front();\n\n                // release lock.\n                lock.unlock();",
     "            {\n                // pull job.\n                Job job = std::move(jobs_.front());\n"
     "                jobs_.pop_front();\n\n                // release lock.\n                lock.unlock();\n                ++busy_;",
     "busy_ is raised only after the mutex was released: queue empty and busy_ == 0 while a job is about to run"),
    ("c10_m4_lue_ignores_queue", "C10", "tlx/thread_pool.cpp",
     "return jobs_.empty() && (busy_ == 0); });",
     "return busy_ == 0; });",
     "loop_until_empty does not look at the queue"),
    ("c10_m5_bookkeeping_inside_try", "C10", "tlx/thread_pool.cpp",
     [("                    job();\n                }",
       "                    job();\n                    std::atomic_thread_fence(std::memory_order_seq_cst);\n"
       "                    ++done_;\n                    --busy_;\n                }"),
      ("            std::atomic_thread_fence(std::memory_order_seq_cst);\n\n            ++done_;\n            --busy_;\n", "")],
     None, "seeded c10a-A: fence/++done_/--busy_ moved into the try block (skipped when a job throws)"),
    ("c10_m6_terminate_notifies_only_if_all_idle", "C10", "tlx/thread_pool.cpp",
     "    cv_finished_.notify_all();\n}",
     "    if (idle_ == threads_.size())\n        cv_finished_.notify_all();\n}",
     "seeded c10a-B: terminate() skips the cv_finished_ notification unless every worker is idle"),
    ("c10_m7_enqueue_stale_has_idle", "C10", "tlx/thread_pool.cpp",
     [("    std::unique_lock<std::mutex> lock(mutex_);\n    jobs_.emplace_back(std::move(job));\n    cv_jobs_.notify_one();",
       "    const bool wake_worker = has_idle();\n    std::unique_lock<std::mutex> lock(mutex_);\n"
       "    jobs_.emplace_back(std::move(job));\n    if (wake_worker)\n        cv_jobs_.notify_one();")],
     None, "seeded c10b-A: enqueue() notifies only if a stale has_idle() read (before the lock) was true"),
    ("c10_m8_job_scope_removed", "C10", "tlx/thread_pool.cpp",
     [("            {\n                // pull job.", "                // pull job."),
      ("                // destroy job by closing scope\n            }\n", "")],
     None, "seeded c10b-B: the scope around the local Job removed: the job object is destroyed after the bookkeeping, "
           "with mutex_ held"),
    ("c10_m9_no_terminate_recheck_after_wait", "C10", "tlx/thread_pool.cpp",
     [("    while (true)\n    {", "    while (!terminate_)\n    {"),
      ("        if (!terminate_ && jobs_.empty())\n", "        if (jobs_.empty())\n"),
      ("        if (terminate_)\n            break;\n\n", "")],
     None, "seeded c10e-A: a worker woken from the idle wait does not re-check terminate_ before it picks a job"),
    ("c10_m10_drain_queue_inner_loop", "C10", "tlx/thread_pool.cpp",
     "        if (!jobs_.empty())\n        {\n            // got work. set busy.",
     "        while (!jobs_.empty())\n        {\n            // got work. set busy.",
     "seeded c10e-B: the worker drains the queue without passing the terminate check between jobs"),
    ("c11_m1_signal_n_notify_one", "C11", "tlx/semaphore.hpp",
     "        size_t res = (value_ += delta);\n        cv_.notify_all();",
     "        size_t res = (value_ += delta);\n        cv_.notify_one();",
     "signal(delta) wakes a single waiter"),
    ("c11_m2_wait_if", "C11", "tlx/semaphore.hpp",
     "        while (value_ < delta + slack)\n            cv_.wait(lock);",
     "        if (value_ < delta + slack)\n            cv_.wait(lock);",
     "Semaphore::wait does not re-check its condition after a wake-up"),
    ("c11_m3_barrier_mutex_no_reset", "C11", "tlx/thread_barrier_mutex.hpp",
     "            counts_[step_] = 0;\n", "",
     "the counter of the next generation is not reset: the barrier is not reusable"),
    ("c11_m4_barrier_spin_late_reset", "C11", "tlx/thread_barrier_spin.hpp",
     "            waiting_.store(0, std::memory_order_release);\n            // step other generation counters.\n"
     "            lambda();\n            // the following statement releases all threads from busy waiting.\n"
     "            step_.fetch_add(1, std::memory_order_acq_rel);",
     "            lambda();\n            step_.fetch_add(1, std::memory_order_acq_rel);\n"
     "            waiting_.store(0, std::memory_order_release);",
     "the arrival counter is reset after the generation was released (both wait() and wait_yield())"),
    ("c11_m5_spin_wait_action_after_publish", "C11", "tlx/thread_barrier_spin.hpp",
     '            // step other generation counters.\n            lambda();\n            // the following statement releases all threads from busy waiting.\n            step_.fetch_add(1, std::memory_order_acq_rel);\n        }\n        else\n        {\n            // spin lock awaiting the last thread to increment the step counter.\n            while (step_.load(std::memory_order_acquire) == this_step)\n            {\n                // busy spinning loop\n',
     '            step_.fetch_add(1, std::memory_order_acq_rel);\n            lambda();\n        }\n        else\n        {\n            // spin lock awaiting the last thread to increment the step counter.\n            while (step_.load(std::memory_order_acquire) == this_step)\n            {\n                // busy spinning loop\n',
     "seeded c11c-B: wait() only: step_.fetch_add(1) before lambda(): a spinner can leave the generation before the "
     "action has ended"),
    ("c11_m6_spin_wait_yield_action_after_publish", "C11", "tlx/thread_barrier_spin.hpp",
     '            // step other generation counters.\n            lambda();\n            // the following statement releases all threads from busy waiting.\n            step_.fetch_add(1, std::memory_order_acq_rel);\n        }\n        else\n        {\n            // spin lock awaiting the last thread to increment the step counter.\n            while (step_.load(std::memory_order_acquire) == this_step)\n            {\n                std::this_thread::yield();\n',
     '            step_.fetch_add(1, std::memory_order_acq_rel);\n            lambda();\n        }\n        else\n        {\n            // spin lock awaiting the last thread to increment the step counter.\n            while (step_.load(std::memory_order_acquire) == this_step)\n            {\n                std::this_thread::yield();\n',
     "the same in wait_yield() only"),
    ("c11_m7_mutex_barrier_action_outside_lock", "C11", "tlx/thread_barrier_mutex.hpp",
     "            lambda();\n            cv_.notify_all();\n",
     "            cv_.notify_all();\n            lock.unlock();\n            lambda();\n",
     "the mutex barrier notifies and unlocks before it runs the action"),
    ("c11_m8_signal_n_notify_only_from_zero", "C11", "tlx/semaphore.hpp",
     "        size_t res = (value_ += delta);\n        cv_.notify_all();",
     "        const bool was_exhausted = (value_ == 0);\n        size_t res = (value_ += delta);\n"
     "        if (was_exhausted)\n            cv_.notify_all();",
     "seeded c11c-A: signal(n) notifies only if value_ was 0: a waiter that blocked at a non-zero value is stranded"),
]


def main():
    repo, scratch = sys.argv[1], sys.argv[2]
    only = set(sys.argv[3:])
    results = []
    for name, pid, rel, old, new, what in MUTANTS:
        if only and name not in only:
            continue
        dst = os.path.join(scratch, "mutrepo")
        shutil.rmtree(dst, ignore_errors=True)
        os.makedirs(dst)
        shutil.copytree(os.path.join(repo, "tlx"), os.path.join(dst, "tlx"))
        p = os.path.join(dst, rel)
        src = open(p).read()
        pairs = old if isinstance(old, list) else [(old, new)]
        if any(src.count(o) == 0 for o, _ in pairs):
            results.append((name, "PATTERN-NOT-FOUND", ""))
            continue
        for o, n_ in pairs:
            src = src.replace(o, n_)
        open(p, "w").write(src)
        env = dict(os.environ, TLX_REPO=dst)
        r = subprocess.run([sys.executable, os.path.join(VERIF, "check.py"), pid, "--tier", "quick"],
                           capture_output=True, text=True, env=env, cwd=VERIF)
        viol = [l for l in r.stdout.splitlines() if l.startswith("VIOLATION")]
        msg = [l for l in r.stdout.splitlines() if "property fails" in l or "no longer shown" in l]
        results.append((name, f"rc={r.returncode} " + ("DETECTED" if viol and r.returncode == 1 else "MISSED"),
                        " | ".join(viol[:2] + msg[:2])[:400]))
        print(results[-1], flush=True)
        shutil.rmtree(dst, ignore_errors=True)
    # leave the evidence of the real tree behind, not of the last mutant
    print("\nsummary:")
    for r in results:
        print("  %-34s %-22s %s" % r)


if __name__ == "__main__":
    main()
