#!/usr/bin/env python3
"""Fold notes/Cnn.md of a merged builder branch into the shared files.
usage: tools/integrate.py <branch> Cnn [Cnn...]     (after `git merge <branch>` and cherry-picking its fix commits)"""
import json, os, re, subprocess, sys
V = os.path.dirname(os.path.dirname(os.path.abspath(__file__)))
branch, pids = sys.argv[1], sys.argv[2:]

def sh(*a):
    return subprocess.run(a, capture_output=True, text=True).stdout

# map builder commit -> /repo main commit by subject
bsub = dict(l.split(" ", 1) for l in sh("git", "-C", "/repo", "log", "--format=%h %s", f"704fd0b..{branch}").splitlines() if " " in l)
msub = {s: h for h, s in (l.split(" ", 1) for l in sh("git", "-C", "/repo", "log", "--format=%h %s", "704fd0b..HEAD").splitlines() if " " in l)}
remap = {h: msub[s] for h, s in bsub.items() if s in msub}
try:
    remap.update(json.load(open(os.path.join(V, "tools", "commit_map.json"))))
except (OSError, ValueError):
    pass
remap = {h: nh for h, nh in remap.items() if h != nh}

man = json.load(open(os.path.join(V, "MANIFEST.json")))
design = open(os.path.join(V, "DESIGN.md")).read()
kf = open(os.path.join(V, "known_findings.txt")).read()
for pid in pids:
    notes = open(os.path.join(V, "notes", pid + ".md")).read()
    def section(name):
        m = re.search(rf"(?ms)^##\s*{name}\s*$(.*?)(?=^##\s|\Z)", notes)
        return m.group(1).strip() if m else ""
    mf = section("MANIFEST")
    def field(key, default):
        m = re.search(rf"(?is)\*\s*{key}[^\n]*?[\"“](.*?)[\"”]\s*$", mf, re.M)
        return m.group(1).strip() if m else default
    level = field("level", f"Lean theorems about the executable model of {pid}; model tied to the code by correspondence (see DESIGN §9 {pid}).")
    note = field("note", "Lean kernel; model/code tie is differential; see DESIGN §4 and §9")
    tech = field("technique", "Lean 4 proof + model/implementation correspondence")
    entry = {"property_id": pid, "quick_cmd": f"python3 check.py {pid} --tier quick",
             "thorough_cmd": f"python3 check.py {pid} --tier thorough", "evidence_file": f"evidence/{pid}.json",
             "replay_cmd_template": f"python3 check.py {pid} --replay {{path}}", "engine": "lean-proof+correspondence",
             "level_claimed": {"category": "proof", "text": level, "design_ref": f"DESIGN.md §6 {pid}, §9 {pid}"},
             "level_note": note, "technique": tech}
    man["checks"] = [c for c in man["checks"] if c["property_id"] != pid] + [entry]
    man["checks"].sort(key=lambda c: c["property_id"])
    man["not_applicable"] = [n for n in man.get("not_applicable", []) if n["property_id"] != pid]
    for e in man.get("engines", []):
        if pid not in e["serves_properties"]:
            e["serves_properties"] = sorted(e["serves_properties"] + [pid])
    for l in re.findall(r"(?m)^\s*((?:fixed|known):.*)$", section("KNOWN_FINDINGS")):
        for h, nh in remap.items():
            l = re.sub(rf"\b{h}\b", nh, l)
        mm = re.match(r"fixed:\s+property=(\S+)\s+(\S+)\s+(.{0,40})", l)
        if l not in kf and not (mm and re.search(rf"(?m)^fixed:\s+property={mm.group(1)}\s+{mm.group(2)}\s+{re.escape(mm.group(3))}", kf)):
            kf += l + "\n"
    d = section("DESIGN")
    if d:
        for h, nh in remap.items():
            d = re.sub(rf"\b{h}\b", nh, d)
        block = f"### {pid} (built)\n{d}\n\n"
        m0 = re.search(rf"(?m)^### {pid} \(built\)\n", design)
        if m0:
            m1 = re.search(r"(?m)^### (C\d\d \(built\)|Seeded changes)", design[m0.end():])
            end = m0.end() + m1.start() if m1 else len(design)
            design = design[:m0.start()] + block + design[end:]
        else:
            m1 = re.search(r"(?m)^### Seeded changes", design)
            if m1:
                design = design[:m1.start()] + block + design[m1.start():]
            else:
                design += "\n" + block
json.dump(man, open(os.path.join(V, "MANIFEST.json"), "w"), indent=1)
open(os.path.join(V, "DESIGN.md"), "w").write(design)
open(os.path.join(V, "known_findings.txt"), "w").write(kf)
print("remapped commits:", remap)
