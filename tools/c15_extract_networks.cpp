// C15 translator: records the comparator sequence every sorting-network entry point of
// the tlx working tree executes and writes lean/TlxVerif/Gen/C15Networks.lean.
//
//   c15_extract_networks <out.lean>      (plain-text copy of the tables on stdout)
//
// Each of  {best, bose_nelson, bose_nelson_parameter} x {sortN direct, sort(begin,end) dispatch}
// x N = 0..16  is run with tlx's own CS_IfSwap around a *recording* comparator.  The
// comparator sees references into the array, so `cmp_(right, left)` yields the pair
// (index of left, index of right) = the (i, j) of `cswap(a[i], a[j])`.  The run is repeated on
// several inputs and through four iterator kinds (pointer, std::reverse_iterator over a slice in
// the middle of a buffer, std::deque across a block boundary, a user-defined strided iterator);
// a network must be oblivious and iterator independent (identical traces in logical positions,
// no access outside the sequence), otherwise this tool fails.
#include "../harness/c15_entry.hpp"

#include <cinttypes>
#include <cstdint>
#include <cstdio>
#include <cstdlib>
#include <fstream>
#include <functional>
#include <iostream>
#include <sstream>
#include <utility>
#include <vector>

struct Elem {
    long key;
    int tag;
    static Elem guard(long id) { Elem e = {-777000 - id, int(-1000 - id)}; return e; }
    bool same(const Elem& o) const { return key == o.key && tag == o.tag; }
    bool operator<(const Elem& o) const { return key < o.key; }
};

typedef std::vector<std::pair<int, int> > Trace;

struct RecCmp {
    c15::Seq<Elem>* seq;
    Trace* trace;
    bool* bad;
    // called as cmp_(right, left) by CS_IfSwap; both must be elements of the sequence
    bool operator()(const Elem& r, const Elem& l) const {
        int i = seq->index_of(&l), j = seq->index_of(&r);
        if (i < 0 || j < 0) *bad = true;   // not an element of the sequence (copy, or a foreign memory cell)
        trace->push_back(std::make_pair(i, j));
        return r.key < l.key;
    }
};

static uint64_t rng_state = 0x243F6A8885A308D3ULL;
static uint64_t rnd() {
    uint64_t z = (rng_state += 0x9e3779b97f4a7c15ULL);
    z = (z ^ (z >> 30)) * 0xbf58476d1ce4e5b9ULL;
    z = (z ^ (z >> 27)) * 0x94d049bb133111ebULL;
    return z ^ (z >> 31);
}

// comparator *carriers* (pointer runs): the same recording comparator inside a std::function, and inside an object
// that owns heap memory and whose move constructor / assignment empties and marks the source; a call of a
// moved-from carrier is an error (std::function throws bad_function_call, RecOwn sets `used_moved_from`)
static RecCmp g_rec;                 // context of RecOwn (so that it is default-constructible)
static bool g_used_moved_from = false;
struct RecOwn {
    std::vector<int> owned;
    bool moved;
    RecOwn() : owned(8, 1), moved(false) {}
    RecOwn(const RecOwn&) = default;
    RecOwn& operator=(const RecOwn&) = default;
    ~RecOwn() { moved = true; }   // a destroyed carrier counts as moved-from
    RecOwn(RecOwn&& o) noexcept : owned(std::move(o.owned)), moved(o.moved) { o.owned.clear(); o.moved = true; }
    RecOwn& operator=(RecOwn&& o) noexcept {
        if (this != &o) { owned = std::move(o.owned); moved = o.moved; o.owned.clear(); o.moved = true; }
        return *this;
    }
    bool operator()(const Elem& r, const Elem& l) const {
        if (moved || owned.size() != 8) g_used_moved_from = true;
        return g_rec(r, l);
    }
};
typedef std::function<bool(const Elem&, const Elem&)> RecFn;

enum Carrier { C_PLAIN = 0, C_FN, C_FN_TMP, C_OWN, C_OWN_TMP, C_OWN_DEFAULT, C_NAMED_FROM_TMP, C_FACTORY, NUM_CARRIERS };
static const char* const carrier_name[NUM_CARRIERS] = {
    "a plain functor", "a std::function (lvalue)", "a std::function (temporary)", "a heap-owning move-sensitive comparator (lvalue)",
    "a heap-owning move-sensitive comparator (temporary)", "a default-constructed heap-owning move-sensitive comparator",
    "a named CS_IfSwap built from a temporary comparator", "a CS_IfSwap returned by value from a factory"};

// overwrite dead stack storage between the construction of a named CS_IfSwap and its use
__attribute__((noinline)) static unsigned scribble() {
    volatile unsigned char junk[2048];
    for (size_t i = 0; i < sizeof(junk); ++i) junk[i] = 0x5A;
    unsigned s = 0;
    for (size_t i = 0; i < sizeof(junk); i += 97) s += junk[i];
    return s;
}
__attribute__((noinline)) static tlx::sort_networks::CS_IfSwap<RecOwn> make_rec_cswap() {
    return tlx::sort_networks::CS_IfSwap<RecOwn>(RecOwn());
}
static volatile unsigned g_sink;

struct Caller {
    int fam, entry, n, carrier;
    RecCmp cmp;
    template <typename It>
    bool operator()(It first) const {
        switch (carrier) {
        case C_FN: { RecFn f = cmp; return c15::call(fam, entry, n, first, f); }
        case C_FN_TMP: { RecFn f = cmp; return c15::call<true>(fam, entry, n, first, f); }
        case C_OWN: { RecOwn c; return c15::call(fam, entry, n, first, c); }
        case C_OWN_TMP: { RecOwn c; return c15::call<true>(fam, entry, n, first, c); }
        case C_OWN_DEFAULT: return c15::call_default_as<RecOwn>(fam, entry, n, first);
        case C_NAMED_FROM_TMP: {   // direct entry points only (dispatch: as C_OWN_TMP)
            if (entry != 0) { RecOwn c; return c15::call<true>(fam, entry, n, first, c); }
            tlx::sort_networks::CS_IfSwap<RecOwn> cs{RecOwn()};
            g_sink = scribble();
            return c15::call_direct(fam, n, first, cs);
        }
        case C_FACTORY: {
            if (entry != 0) { RecOwn c; return c15::call(fam, entry, n, first, c); }
            tlx::sort_networks::CS_IfSwap<RecOwn> cs = make_rec_cswap();
            g_sink = scribble();
            return c15::call_direct(fam, n, first, cs);
        }
        default: return c15::call(fam, entry, n, first, cmp);
        }
    }
};

// one run through iterator kind `kind`; the trace is in logical positions of the sequence
static bool run_once(int kind, int variant, int carrier, int fam, int entry, int n, const std::vector<long>& keys, Trace& tr,
                     std::string& err) {
    c15::Seq<Elem> seq(kind, n, variant);
    for (int i = 0; i < n; ++i) { seq.at(i).key = keys[i]; seq.at(i).tag = i; }
    bool bad = false;
    tr.clear();
    Caller call = {fam, entry, n, carrier, {&seq, &tr, &bad}};
    g_rec = call.cmp;
    g_used_moved_from = false;
    try {
        if (!seq.apply(call)) { err = "entry point does not exist"; return false; }
    }
    catch (const std::exception& e) { err = std::string("exception ") + e.what() + " escaped the sort"; return false; }
    if (g_used_moved_from) { err = "a comparator object was called after it had been moved from"; return false; }
    if (bad) { err = "comparator called on an object that is not an element of the sequence"; return false; }
    if (!seq.guards_ok()) { err = "wrote outside the sequence"; return false; }
    if (kind == c15::K_DEQUE && n >= 2 && !seq.straddles()) { err = "harness: deque layout does not straddle a block boundary"; return false; }
    // the elements must still be exactly the input elements (permutation by tag, key attached to its tag)
    std::vector<int> seen(size_t(n), 0);
    for (int i = 0; i < n; ++i) {
        int t = seq.at(i).tag;
        if (t < 0 || t >= n || seen[size_t(t)]++ || seq.at(i).key != keys[size_t(t)]) { err = "output is not a permutation of the input elements"; return false; }
    }
    return true;
}

int main(int argc, char** argv) {
    if (argc < 2) { std::fprintf(stderr, "usage: %s out.lean\n", argv[0]); return 2; }
    std::ostringstream lean;
    lean << "-- GENERATED by tools/c15_extract_networks.cpp from tlx/sort/networks/*.hpp -- do not edit.\n"
         << "-- Entry N of each table = the (i, j) of every `cswap(a[i], a[j])` executed for N elements.\n"
         << "-- *Direct N=0,1: tlx has no sort0/sort1, the entries are empty placeholders.\n"
         << "import TlxVerif.Model.C15\n"
         << "namespace TlxVerif.C15.Gen\n\n";
    const char* lean_name[3][2] = {{"bestDirect", "bestDispatch"},
                                   {"boseNelsonDirect", "boseNelsonDispatch"},
                                   {"boseNelsonParameterDirect", "boseNelsonParameterDispatch"}};
    int problems = 0, ptr_problems = 0;
    for (int fam = 0; fam < 3; ++fam)
        for (int entry = 0; entry < 2; ++entry) {
            lean << "def " << lean_name[fam][entry] << " : List Net := [\n";
            for (int n = 0; n <= 16; ++n) {
                Trace ref;
                if (c15::exists(fam, entry, n)) {
                    // inputs: identity, reversed, all equal, 0-1 patterns, random permutations / duplicates
                    std::vector<std::vector<long> > inputs;
                    std::vector<long> k(n);
                    for (int i = 0; i < n; ++i) k[i] = i;
                    inputs.push_back(k);
                    for (int i = 0; i < n; ++i) k[i] = n - i;
                    inputs.push_back(k);
                    for (int i = 0; i < n; ++i) k[i] = 5;
                    inputs.push_back(k);
                    for (int r = 0; r < 12; ++r) {
                        for (int i = 0; i < n; ++i) k[i] = long(rnd() % (r < 4 ? 2 : (r < 8 ? 4 : 1000)));
                        inputs.push_back(k);
                    }
                    bool failed = false;
                    for (size_t q = 0; q < inputs.size() && !failed; ++q) {
                        // pointer first (defines the table), then the same input through every other iterator kind
                        // … and (pointer, inputs 0 and 5) with the comparator inside every carrier
                        int nvar = c15::NUM_KINDS + ((q == 0 || q == 5) ? NUM_CARRIERS - 1 : 0);
                        for (int var = 0; var < nvar && !failed; ++var) {
                            int kind = var < c15::NUM_KINDS ? var : 0;
                            int carrier = var < c15::NUM_KINDS ? 0 : var - c15::NUM_KINDS + 1;
                            Trace tr;
                            std::string err;
                            if (!run_once(kind, int(q), carrier, fam, entry, n, inputs[q], tr, err)) {
                                std::fprintf(stderr, "c15_extract: %s %s %d through %s iterators with %s: %s\n", c15::family_name[fam],
                                             c15::entry_name[entry], n, c15::kind_name[kind], carrier_name[carrier], err.c_str());
                                ++problems;
                                if (var == 0) ++ptr_problems;
                                failed = true;
                                break;
                            }
                            if (q == 0 && var == 0) ref = tr;
                            else if (tr != ref) {
                                std::fprintf(stderr, "c15_extract: %s %s %d: comparator trace through %s iterators with %s on input %zu differs "
                                             "from the pointer trace on input 0 (input, iterator type or comparator type dependent)\n",
                                             c15::family_name[fam], c15::entry_name[entry], n, c15::kind_name[kind], carrier_name[carrier], q);
                                ++problems;
                                if (var == 0) ++ptr_problems;
                                failed = true;
                            }
                        }
                    }
                }
                std::cout << c15::family_name[fam] << ' ' << c15::entry_name[entry] << ' ' << n;
                lean << "  [";
                for (size_t c = 0; c < ref.size(); ++c) {
                    lean << (c ? "," : "") << '(' << ref[c].first << ',' << ref[c].second << ')';
                    std::cout << ' ' << ref[c].first << ':' << ref[c].second;
                }
                lean << (n < 16 ? "],\n" : "]\n");
                std::cout << '\n';
            }
            lean << "]\n\n";
        }
    lean << "end TlxVerif.C15.Gen\n";
    // the tables are the pointer traces; they are written whenever those could be recorded, so that the
    // model stays the code that exists even if another iterator kind misbehaves (reported, exit 1)
    if (ptr_problems) return 1;
    std::ofstream f(argv[1]);
    f << lean.str();
    f.close();
    return (f && !problems) ? 0 : 1;
}
