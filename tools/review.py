#!/usr/bin/env python3
"""Print what a reviewer needs for one property: theorem statements of Props/Cnn.lean
(without proofs), OPEN markers, sizes of model/proofs/harness.  usage: tools/review.py Cnn [verif_dir]"""
import os, re, sys
pid = sys.argv[1]
V = sys.argv[2] if len(sys.argv) > 2 else os.path.dirname(os.path.dirname(os.path.abspath(__file__)))
L = os.path.join(V, "lean", "TlxVerif")
def wc(p):
    try: return sum(1 for _ in open(p))
    except OSError: return 0
for sub in ("Model", "Gen", "Proofs", "Props", "Audit"):
    d = os.path.join(L, sub)
    for fn in sorted(os.listdir(d)) if os.path.isdir(d) else []:
        if fn.startswith(pid): print(f"{sub}/{fn}: {wc(os.path.join(d, fn))} lines")
for fn in sorted(os.listdir(os.path.join(V, "harness"))):
    if fn.lower().startswith(pid.lower()): print(f"harness/{fn}: {wc(os.path.join(V,'harness',fn))} lines")
print(f"checks/{pid.lower()}.py: {wc(os.path.join(V,'checks',pid.lower()+'.py'))} lines")
src = open(os.path.join(L, "Props", pid + ".lean")).read()
audit = open(os.path.join(L, "Audit", pid + ".lean")).read()
names = re.findall(r"#print axioms\s+(\S+)", audit)
print(f"\naudited theorems: {len(names)}")
# statements: from 'theorem name' up to ':= by' or ':='
for m in re.finditer(r"(?ms)^(?:/--.*?-/\s*)?(theorem|def)\s+(\S+)(.*?)(:=|\n\s*\|)", src):
    kind, name, sig = m.group(1), m.group(2), m.group(3)
    if kind == "def" and ": Prop" not in sig: continue
    short = name.split(".")[-1]
    aud = any(n.endswith("." + short) or n == short for n in names)
    print(f"\n[{kind}{'' if aud or kind=='def' else ' NOT-AUDITED'}] {name}{sig.rstrip()}")
print("\nOPEN markers:")
for l in re.findall(r"(?m)^\s*--\s*OPEN:.*$", src): print("  " + l.strip())
