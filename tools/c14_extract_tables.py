#!/usr/bin/env python3
"""C14 translator: regenerates lean/TlxVerif/Gen/C14Tables.lean from the tlx sources.

Everything that is *data* in tlx/digest/{md5,sha1,sha256,sha512}.{cpp,hpp} and tlx/siphash.hpp
is read from the source text: constant tables, initial states, rotation / shift amounts, the
round-loop bounds and inline constants of SHA-1, the argument rotation of SHA-512's unrolled
RND calls, buffer sizes and the padding positions of finalize(), the SipHash constants and
rotation amounts (portable macro) and the SSE2 constants / immediates.

Besides the tables, the *shape* of the hand-modelled code is checked: process() and finalize()
of the four classes are normalised (names, block constants) and compared with the canonical
text the Lean model `Model/C14Class.lean` transliterates; the compress functions and the two
SipHash variants are compared with recorded normal forms.  A mismatch is a translator problem
(the model would no longer be the code that exists).

usage: c14_extract_tables.py <repo> <out.lean>     (exit 1 and messages on stderr on problems)
"""
import hashlib
import os
import re
import sys


def strip_comments(s):
    s = re.sub(r"/\*.*?\*/", " ", s, flags=re.S)
    s = re.sub(r"//[^\n]*", " ", s)
    return s


def norm(s):
    return re.sub(r"\s+", " ", strip_comments(s)).strip()


def ints(body):
    return [int(x.rstrip("UL"), 0) for x in re.findall(r"0x[0-9a-fA-F]+U?L{0,2}|\b\d+\b", body)]


def array(src, name, what):
    m = re.search(r"\b" + name + r"\s*\[\s*(\d+)\s*\]\s*=\s*\{(.*?)\}\s*;", src, re.S)
    if not m:
        raise ValueError(f"{what}: array {name} not found")
    vals = ints(strip_comments(m.group(2)))
    if len(vals) != int(m.group(1)):
        raise ValueError(f"{what}: array {name} declares {m.group(1)} entries, found {len(vals)}")
    return vals


def func_body(src, header_re, what):
    """text between the braces of the first function whose header matches"""
    m = re.search(header_re, src)
    if not m:
        raise ValueError(f"{what}: function not found ({header_re})")
    i = src.index("{", m.end() - 1) if src[m.end() - 1] != "{" else m.end() - 1
    depth, j = 0, i
    while True:
        if src[j] == "{":
            depth += 1
        elif src[j] == "}":
            depth -= 1
            if depth == 0:
                break
        j += 1
    return src[i + 1:j]


def init_state(src, cls, n, what):
    body = func_body(src, cls + r"::" + cls + r"\(\)\s*\{", what)
    vals = {}
    for m in re.finditer(r"state_\[(\d+)\]\s*=\s*(0x[0-9a-fA-F]+)U?L*\s*;", body):
        vals[int(m.group(1))] = int(m.group(2), 16)
    if sorted(vals) != list(range(n)) or len(re.findall(r";", strip_comments(body))) != n:
        raise ValueError(f"{what}: constructor does not consist of exactly {n} state_[i] = const assignments")
    return [vals[i] for i in range(n)]


def rot_amounts(src, fname, rot, what):
    """`return ror32(x, 2) ^ ror32(x, 13) ^ ror32(x, 22);` -> [2, 13, 22]  (last may be Sh)"""
    body = norm(func_body(src, r"\b" + fname + r"\(std::uint(?:32|64)_t x\)\s*\{|\b" + fname + r"\(u32 x\)\s*\{", what))
    m = re.fullmatch(r"return (\w+)\(x, (\d+)\) \^ (\w+)\(x, (\d+)\) \^ (\w+)\(x, (\d+)\);", body)
    if not m:
        raise ValueError(f"{what}: {fname} has unexpected shape: {body}")
    names = [m.group(1), m.group(3), m.group(5)]
    return names, [int(m.group(2)), int(m.group(4)), int(m.group(6))]


# canonical, normalised text of process() / finalize() after substituting the class-specific
# names and numbers by placeholders; this is what Model/C14Class.lean transliterates
PROCESS_CANON = hashlib.sha256(
    b"const U32 block_size = sizeof(CLS::buf_); auto in = static_cast<const std::uint8_t*>(data); "
    b"while (size > 0) { if (curlen_ == 0 && size >= block_size) { COMPRESS(state_, in); "
    b"length_ += block_size * 8; in += block_size; size -= block_size; } else { "
    b"U32 n = MIN(size, (block_size - curlen_)); COPY curlen_ += n; in += n; size -= n; "
    b"if (curlen_ == block_size) { COMPRESS(state_, buf_); length_ += 8 * block_size; curlen_ = 0; } } }").hexdigest()

# process(tlx::string_view): pieces of 2^30 bytes while more than 2^30 remain (Model/C14Class.lean `svPieces`)
PROCESS_SV_CANON = ("const char* data = str.data(); size_t size = str.size(); const size_t piece = size_t(1) << 30; "
                    "while (size > piece) { process(data, static_cast<std::uint32_t>(piece)); data += piece; size -= piece; } "
                    "return process(data, static_cast<std::uint32_t>(size));")

COPY_FORMS = [
    "std::copy(in, in + n, buf_ + curlen_);",
    "std::uint8_t* b = buf_ + curlen_; for (const std::uint8_t* a = in; a != in + n; ++a, ++b) { *b = *a; }",
]


def check_process(src, cls, compress, what, problems):
    body = norm(func_body(src, r"void " + cls + r"::process\(const void\* data,\s*(?:std::uint32_t|u32) size\)\s*\{", what))
    t = body.replace("std::uint32_t", "U32").replace("u32", "U32")
    t = t.replace(cls + "::buf_", "CLS::buf_")
    t = t.replace("digest_detail::" + compress, "COMPRESS").replace(compress, "COMPRESS")
    t = t.replace("digest_detail::min", "MIN").replace("min(", "MIN(")
    for cf in COPY_FORMS:
        t = t.replace(cf, "COPY")
    if hashlib.sha256(t.encode()).hexdigest() != PROCESS_CANON:
        problems.append(f"{what}: process() differs from the buffering state machine modelled in Model/C14Class.lean: {t[:300]}")
    sv = norm(func_body(src, r"void " + cls + r"::process\(tlx::string_view str\)\s*\{", what))
    if sv != PROCESS_SV_CANON:
        problems.append(f"{what}: process(string_view) differs from the piece loop modelled as `svPieces` in "
                        f"Model/C14Class.lean: {sv}")


def check_finalize(src, cls, compress, store_len, store_out, nstate, wbytes, what, problems):
    """returns (padLimit, blockSize, lenPos) read from finalize()"""
    body = norm(func_body(src, r"void " + cls + r"::finalize\(void\* digest\)\s*\{", what))
    t = body.replace("digest_detail::", "")
    pat = (r"length_ \+= curlen_ \* 8(?:ULL)?; buf_\[curlen_\+\+\] = static_cast<std::uint8_t>\(0x80\); "
           r"if \(curlen_ > (\d+)\) \{ while \(curlen_ < (\d+)\) buf_\[curlen_\+\+\] = 0; " + compress +
           r"\(state_, buf_\); curlen_ = 0; \} while \(curlen_ < (\d+)\) buf_\[curlen_\+\+\] = 0; " + store_len +
           r"\(length_, buf_ \+ (\d+)\); " + compress + r"\(state_, buf_\); "
           r"for \((?:size_t|int) i = 0; i < (\d+); i\+\+\) \{? ?" + store_out +
           r"\(state_\[i\], static_cast<std::uint8_t\*>\(digest\) \+ \((\d+) \* i\)\); ?\}?")
    m = re.fullmatch(pat, t)
    if not m:
        problems.append(f"{what}: finalize() differs from the padding code modelled in Model/C14Class.lean: {t[:400]}")
        return None
    lim, bs, lenpos, lenpos2, n, wb = (int(x) for x in m.groups())
    if lenpos != lenpos2 or n != nstate or wb != wbytes:
        problems.append(f"{what}: finalize() constants inconsistent: pad to {lenpos} but length stored at {lenpos2}; "
                        f"{n} words of {wb} bytes output (expected {nstate} x {wbytes})")
    return lim, bs, lenpos


def check_forms(src, cls, low, dlen, what, problems):
    """digest()/digest_hex()/digest_hex_uc() and the helper functions have the modelled shape"""
    want = {
        r"std::string " + cls + r"::digest\(\)\s*\{": "std::string out(kDigestLength, '0'); finalize(const_cast<char*>(out.data())); return out;",
        r"std::string " + cls + r"::digest_hex\(\)\s*\{": "std::uint8_t digest[kDigestLength]; finalize(digest); return hexdump_lc(digest, kDigestLength);",
        r"std::string " + cls + r"::digest_hex_uc\(\)\s*\{": "std::uint8_t digest[kDigestLength]; finalize(digest); return hexdump(digest, kDigestLength);",
        r"std::string " + low + r"_hex\(const void\* data, std::uint32_t size\)\s*\{": f"return {cls}(data, size).digest_hex();",
        r"std::string " + low + r"_hex\(tlx::string_view str\)\s*\{": f"return {cls}(str).digest_hex();",
        r"std::string " + low + r"_hex_uc\(const void\* data, std::uint32_t size\)\s*\{": f"return {cls}(data, size).digest_hex_uc();",
        r"std::string " + low + r"_hex_uc\(tlx::string_view str\)\s*\{": f"return {cls}(str).digest_hex_uc();",
        cls + r"::" + cls + r"\(const void\* data, (?:std::uint32_t|u32) size\) : " + cls + r"\(\)\s*\{": "process(data, size);",
        cls + r"::" + cls + r"\(tlx::string_view str\) : " + cls + r"\(\)\s*\{": "process(str);",
    }
    for hdr, body in want.items():
        try:
            got = norm(func_body(src, hdr, what))
        except ValueError as ex:
            problems.append(str(ex))
            continue
        if got != body:
            problems.append(f"{what}: `{hdr}` body is `{got}`, modelled as `{body}`")


def check_hpp(hpp, cls, what, problems):
    m = re.search(r"std::uint8_t buf_\[(\d+)\];", hpp)
    d = re.search(r"kDigestLength = (\d+);", hpp)
    if not m or not d:
        raise ValueError(f"{what}: buf_ / kDigestLength not found in header")
    if not re.search(r"std::uint64_t length_ = 0;", hpp) or not re.search(r"std::uint32_t curlen_ = 0;", hpp):
        problems.append(f"{what}: length_/curlen_ are not `std::uint64_t length_ = 0; std::uint32_t curlen_ = 0;`")
    return int(m.group(1)), int(d.group(1))


def shape_hash(text):
    return hashlib.sha256(norm(text).encode()).hexdigest()[:16]


# normal forms (hash of the whitespace/comment-normalised text) of the hand-transliterated
# straight-line code; recorded from the tree the model was written against
SHAPES = {}


def lean_list(vals, fmt):
    return "[" + ", ".join(fmt(v) for v in vals) + "]"


def w32(v):
    return f"0x{v:08x}#32"


def w64(v):
    return f"0x{v:016x}#64"


def nat(v):
    return str(v)


def extract(repo):
    """returns (lean_text, problems, shapes)"""
    P = []
    rd = lambda rel: open(os.path.join(repo, rel), errors="replace").read()
    out = ["-- GENERATED by tools/c14_extract_tables.py from tlx/digest/*.{cpp,hpp} and tlx/siphash.hpp -- do not edit.",
           "namespace TlxVerif.C14.Gen", ""]
    shapes = {}

    def emit(name, ty, val, doc):
        out.append(f"/-- {doc} -/")
        out.append(f"def {name} : {ty} := {val}")
        out.append("")

    # ------------------------------------------------------------------ MD5
    src = rd("tlx/digest/md5.cpp"); hpp = rd("tlx/digest/md5.hpp")
    emit("md5Worder", "List Nat", lean_list(array(src, "Worder", "md5"), nat), "md5.cpp `Worder[64]`: message word used in step i")
    emit("md5Rorder", "List Nat", lean_list(array(src, "Rorder", "md5"), nat), "md5.cpp `Rorder[64]`: rotation amount of step i")
    emit("md5Korder", "List (BitVec 32)", lean_list(array(src, "Korder", "md5"), w32), "md5.cpp `Korder[64]`: additive constant of step i")
    emit("md5Init", "List (BitVec 32)", lean_list(init_state(src, "MD5", 4, "md5"), w32), "MD5::MD5() initial state")
    body = norm(func_body(src, r"static void md5_compress\(std::uint32_t state\[4\], const std::uint8_t\* buf\)\s*\{", "md5"))
    loops = re.findall(r"for \((?:i = 0)?; i < (\d+); \+\+i\) \{ (\w\w)\(a, b, c, d, W\[Worder\[i\]\], Rorder\[i\], Korder\[i\]\); "
                       r"t = d, d = c, c = b, b = a, a = t; \}", body)
    emit("md5Loops", "List (Nat × String)", "[" + ", ".join(f'({b}, "{f}")' for b, f in loops) + "]",
         "md5_compress: upper bound and step function of each of the round loops")
    bs, dl = check_hpp(hpp, "MD5", "md5", P)
    check_process(src, "MD5", "md5_compress", "md5", P)
    fin = check_finalize(src, "MD5", "md5_compress", "store64l", "store32l", 4, 4, "md5", P)
    check_forms(src, "MD5", "md5", dl, "md5", P)
    emit("md5Class", "Nat × Nat × Nat × Nat × Nat", f"({bs}, {fin[0] if fin else 0}, {fin[1] if fin else 0}, {fin[2] if fin else 0}, {dl})",
         "(sizeof buf_, `curlen_ >` limit, fill-to of the early block, position of the length, kDigestLength)")
    shapes["md5_compress"] = shape_hash(body)
    for fn in ("F", "G", "H", "I", "FF", "GG", "HH", "II", "load32l", "store32l", "store64l"):
        shapes["md5_" + fn] = shape_hash(func_body(src, r"\b" + fn + r"\((?:const )?std::uint(?:32|64|8)_t[^)]*\)\s*\{", "md5 " + fn))

    # ------------------------------------------------------------------ SHA-1
    src = rd("tlx/digest/sha1.cpp"); hpp = rd("tlx/digest/sha1.hpp")
    emit("sha1Init", "List (BitVec 32)", lean_list(init_state(src, "SHA1", 5, "sha1"), w32), "SHA1::SHA1() initial state")
    body = norm(func_body(src, r"static void sha1_compress\(std::uint32_t state\[4\], const std::uint8_t\* buf\)\s*\{", "sha1"))
    loops = re.findall(r"for \((?:i = 0)?; i < (\d+); \+\+i\) \{ e = \(rol32\(a, (\d+)\) \+ (F\d)\(b, c, d\) \+ e \+ W\[i\] \+ (0x[0-9a-f]+)UL\); "
                       r"b = rol32\(b, (\d+)\); t = e, e = d, d = c, c = b, b = a, a = t; \}", body)
    emit("sha1Loops", "List (Nat × String × BitVec 32 × Nat × Nat)",
         "[" + ", ".join(f'({b}, "{f}", {w32(int(k, 16))}, {ra}, {rb})' for b, ra, f, k, rb in loops) + "]",
         "sha1_compress round loops: (upper bound, round function, constant, rol of a, rol of b)")
    m = re.search(r"for \(i = 16; i < (\d+); i\+\+\) \{ W\[i\] = rol32\(W\[i - (\d+)\] \^ W\[i - (\d+)\] \^ W\[i - (\d+)\] \^ W\[i - (\d+)\], (\d+)\); \}", body)
    if not m:
        raise ValueError("sha1: message expansion loop has unexpected shape")
    emit("sha1Expand", "List Nat", lean_list([int(x) for x in m.groups()], nat), "W expansion: (bound, the four back-offsets, rotation)")
    bs, dl = check_hpp(hpp, "SHA1", "sha1", P)
    check_process(src, "SHA1", "sha1_compress", "sha1", P)
    fin = check_finalize(src, "SHA1", "sha1_compress", "store64h", "store32h", 5, 4, "sha1", P)
    check_forms(src, "SHA1", "sha1", dl, "sha1", P)
    emit("sha1Class", "Nat × Nat × Nat × Nat × Nat", f"({bs}, {fin[0] if fin else 0}, {fin[1] if fin else 0}, {fin[2] if fin else 0}, {dl})", "see md5Class")
    shapes["sha1_compress"] = shape_hash(body)
    for fn in ("F0", "F1", "F2", "F3", "load32h", "store32h", "store64h"):
        shapes["sha1_" + fn] = shape_hash(func_body(src, r"\b" + fn + r"\((?:const )?std::uint(?:32|64|8)_t[^)]*\)\s*\{", "sha1 " + fn))

    # ------------------------------------------------------------------ SHA-256
    src = rd("tlx/digest/sha256.cpp"); hpp = rd("tlx/digest/sha256.hpp")
    emit("sha256K", "List (BitVec 32)", lean_list(array(src, "K", "sha256"), w32), "sha256.cpp `K[64]`")
    emit("sha256Init", "List (BitVec 32)", lean_list(init_state(src, "SHA256", 8, "sha256"), w32), "SHA256::SHA256() initial state")
    rots = []
    for fn in ("Sigma0", "Sigma1", "Gamma0", "Gamma1"):
        names, r = rot_amounts(src, fn, "ror32", "sha256")
        expect = ["ror32", "ror32", "ror32" if fn.startswith("Sigma") else "Sh"]
        if names != expect:
            P.append(f"sha256: {fn} uses {names}, modelled as {expect}")
        rots.append(r)
    emit("sha256Rot", "List (List Nat)", "[" + ", ".join(lean_list(r, nat) for r in rots) + "]",
         "amounts in Sigma0, Sigma1 (three rotations), Gamma0, Gamma1 (two rotations and a shift)")
    body = norm(func_body(src, r"void sha256_compress\(std::uint32_t state\[8\], const std::uint8_t\* buf\)\s*\{", "sha256"))
    bs, dl = check_hpp(hpp, "SHA256", "sha256", P)
    check_process(src, "SHA256", "sha256_compress", "sha256", P)
    fin = check_finalize(src, "SHA256", "sha256_compress", "store64", "store32", 8, 4, "sha256", P)
    check_forms(src, "SHA256", "sha256", dl, "sha256", P)
    emit("sha256Class", "Nat × Nat × Nat × Nat × Nat", f"({bs}, {fin[0] if fin else 0}, {fin[1] if fin else 0}, {fin[2] if fin else 0}, {dl})", "see md5Class")
    shapes["sha256_compress"] = shape_hash(body)
    for fn in ("Ch", "Maj", "Sh", "load32", "store32", "store64"):
        shapes["sha256_" + fn] = shape_hash(func_body(src, r"\b" + fn + r"\((?:const )?(?:u32|u64|std::uint8_t\*)[^)]*\)\s*\{", "sha256 " + fn))

    # ------------------------------------------------------------------ SHA-512
    src = rd("tlx/digest/sha512.cpp"); hpp = rd("tlx/digest/sha512.hpp")
    emit("sha512K", "List (BitVec 64)", lean_list(array(src, "K", "sha512"), w64), "sha512.cpp `K[80]`")
    emit("sha512Init", "List (BitVec 64)", lean_list(init_state(src, "SHA512", 8, "sha512"), w64), "SHA512::SHA512() initial state")
    rots = []
    for fn in ("Sigma0", "Sigma1", "Gamma0", "Gamma1"):
        names, r = rot_amounts(src, fn, "ror64", "sha512")
        expect = ["ror64", "ror64", "ror64" if fn.startswith("Sigma") else "Sh"]
        if names != expect:
            P.append(f"sha512: {fn} uses {names}, modelled as {expect}")
        rots.append(r)
    emit("sha512Rot", "List (List Nat)", "[" + ", ".join(lean_list(r, nat) for r in rots) + "]", "see sha256Rot")
    body = norm(func_body(src, r"static void sha512_compress\(std::uint64_t state\[8\], const std::uint8_t\* buf\)\s*\{", "sha512"))
    rnd = re.findall(r"RND\(S\[(\d)\], S\[(\d)\], S\[(\d)\], S\[(\d)\], S\[(\d)\], S\[(\d)\], S\[(\d)\], S\[(\d)\], i \+ (\d)\);", body)
    if [int(r[8]) for r in rnd] != list(range(len(rnd))):
        P.append("sha512: RND calls are not numbered i + 0 .. i + n-1")
    emit("sha512RndOrder", "List (List Nat)", "[" + ", ".join(lean_list([int(x) for x in r[:8]], nat) for r in rnd) + "]",
         "the S[] index arguments (a,b,c,d,e,f,g,h) of the unrolled RND calls of one loop iteration")
    m = re.search(r"for \(int i = 0; i < (\d+); i \+= (\d+)\)", body)
    emit("sha512RoundLoop", "Nat × Nat", f"({m.group(1)}, {m.group(2)})" if m else "(0, 0)", "bound and stride of the round loop")
    bs, dl = check_hpp(hpp, "SHA512", "sha512", P)
    check_process(src, "SHA512", "sha512_compress", "sha512", P)
    fin = check_finalize(src, "SHA512", "sha512_compress", "store64", "store64", 8, 8, "sha512", P)
    check_forms(src, "SHA512", "sha512", dl, "sha512", P)
    emit("sha512Class", "Nat × Nat × Nat × Nat × Nat", f"({bs}, {fin[0] if fin else 0}, {fin[1] if fin else 0}, {fin[2] if fin else 0}, {dl})", "see md5Class")
    shapes["sha512_compress"] = shape_hash(body)
    for fn in ("Ch", "Maj", "Sh", "load64", "store64"):
        shapes["sha512_" + fn] = shape_hash(func_body(src, r"\b" + fn + r"\((?:const )?(?:std::uint64_t|unsigned char\*)[^)]*\)\s*\{", "sha512 " + fn))

    # ------------------------------------------------------------------ SipHash
    src = rd("tlx/siphash.hpp")
    plain = func_body(src, r"siphash_plain\(const std::uint8_t key\[16\],\s*const std::uint8_t\* m, size_t len\)\s*\{", "siphash_plain")
    pn = norm(plain)
    iv = re.findall(r"v(\d) = k(\d) \^ (0x[0-9a-f]+)ULL;", pn)
    if [(a, b) for a, b, _ in iv] != [("0", "0"), ("1", "1"), ("2", "0"), ("3", "1")]:
        P.append("siphash_plain: initialisation is not v0=k0^c0, v1=k1^c1, v2=k0^c2, v3=k1^c3")
    emit("sipInit", "List (BitVec 64)", lean_list([int(c, 16) for _, _, c in iv], w64), "siphash_plain: the constants xored into v0..v3")
    mac = re.search(r"#define TLX_SIPCOMPRESS\(\)(.*?)\n\s*\n", plain, re.S)
    macro = re.sub(r"\\\n", " ", mac.group(1)) if mac else ""
    macro = norm(macro)
    emit("sipRound", "List String", "[" + ", ".join('"' + s.strip() + '"' for s in macro.split(";") if s.strip()) + "]",
         "the statements of the portable TLX_SIPCOMPRESS() macro, in order")
    fx = re.search(r"v2 \^= (0x[0-9a-f]+);", pn)
    emit("sipFinalXor", "BitVec 64", w64(int(fx.group(1), 16)) if fx else "0#64", "constant xored into v2 before the finalisation rounds")
    shapes["siphash_plain"] = shape_hash(re.sub(r"#define TLX_SIPCOMPRESS\(\).*?\n\s*\n", "", plain, flags=re.S))
    sse = func_body(src, r"siphash_sse2\(const std::uint8_t key\[16\],\s*const std::uint8_t\* m, size_t len\)\s*\{", "siphash_sse2")
    mac = re.search(r"#define TLX_SIPCOMPRESS\(\)(.*?)\n\s*\n", sse, re.S)
    macro = norm(re.sub(r"\\\n", " ", mac.group(1))) if mac else ""
    emit("sipRoundSSE2", "List String", "[" + ", ".join('"' + s.strip() + '"' for s in macro.split(";") if s.strip()) + "]",
         "the statements of the SSE2 TLX_SIPCOMPRESS() macro, in order")
    m = re.search(r"siphash_init\[2\] = \{\s*\{\{(0x[0-9a-f]+)ULL, (0x[0-9a-f]+)ULL\}\},\s*\{\{(0x[0-9a-f]+)ULL, (0x[0-9a-f]+)ULL\}\}\};", src)
    emit("sipInitSSE2", "List (BitVec 64)", lean_list([int(x, 16) for x in m.groups()], w64) if m else "[]",
         "siphash_init[0].u[0], .u[1] (lanes v0, v2) and siphash_init[1].u[0], .u[1] (lanes v1, v3)")
    m = re.search(r"siphash_final = \{\s*\{(0x[0-9a-f]+)ULL, (0x[0-9a-f]+)ULL\}\};", src)
    emit("sipFinalSSE2", "List (BitVec 64)", lean_list([int(x, 16) for x in m.groups()], w64) if m else "[]", "siphash_final lanes (v0, v2)")
    shapes["siphash_sse2"] = shape_hash(re.sub(r"#define TLX_SIPCOMPRESS\(\).*?\n\s*\n", "", sse, flags=re.S))
    disp = norm(func_body(src, r"std::uint64_t siphash\(const std::uint8_t key\[16\],\s*const std::uint8_t\* msg, size_t size\)\s*\{", "siphash"))
    shapes["siphash_dispatch"] = shape_hash(disp)
    dk = re.search(r"const unsigned char key\[16\] = \{([^}]*)\};", src)
    emit("sipDefaultKey", "List (BitVec 8)", lean_list(ints(dk.group(1)), lambda v: f"{v}#8") if dk else "[]",
         "key of the siphash(msg, size) convenience overloads")

    # hexdump tables used by digest_hex / digest_hex_uc
    src = rd("tlx/string/hexdump.cpp")
    for fn, nm in (("hexdump", "hexUpper"), ("hexdump_lc", "hexLower")):
        b = func_body(src, r"std::string " + fn + r"\(const void\* const data, size_t size\)\s*\{", fn)
        m = re.search(r"xdigits\[16\] = \{(.*?)\};", b, re.S)
        digs = re.findall(r"'(.)'", m.group(1)) if m else []
        emit(nm, "List Char", "[" + ", ".join(f"'{c}'" for c in digs) + "]", f"{fn}(): xdigits[16]")
        shapes[fn] = shape_hash(re.sub(r"static const char xdigits\[16\] = \{.*?\};", "", b, flags=re.S))

    out.append("end TlxVerif.C14.Gen")
    return "\n".join(out) + "\n", P, shapes


def main():
    repo, dst = sys.argv[1], sys.argv[2]
    try:
        text, problems, shapes = extract(repo)
    except (ValueError, AttributeError) as ex:
        print("c14_extract: " + str(ex), file=sys.stderr)
        return 1
    with open(dst, "w") as f:
        f.write(text)
    for k in sorted(shapes):
        print(k, shapes[k])
    for p in problems:
        print("c14_extract: " + p, file=sys.stderr)
    return 1 if problems else 0


if __name__ == "__main__":
    sys.exit(main())
