#!/usr/bin/env python3
"""Translator for C01/C02: extracts the *data* of tlx/container/btree.hpp the model depends on into
lean/TlxVerif/Gen/C01Consts.lean:

  * the formulas `leaf_slotmin = (leaf_slotmax / 2)` / `inner_slotmin = (inner_slotmax / 2)`
    (used by the model: `Params.leafMin` / `Params.innerMin`),
  * the bodies of `is_full` / `is_few` / `is_underflow` of InnerNode and LeafNode
    (the model's hand-written conditions are checked against them by `rfl`, Model/C01Erase.lean),
  * the bits of `enum result_flags_t` (the model represents the flags as independent fields; that they
    are independent bits is checked in Model/C01Erase.lean),
  * `btree_default_traits` (self_verify, debug, leaf_slots, inner_slots, binsearch_threshold) and the
    macro TLX_BTREE_MAX they use.

usage: c01_extract.py <repo> <out.lean>   exit 0 = written (only if the content changed),
1 = the source no longer has the expected shape (message on stderr; nothing is written)."""
import os
import re
import sys


class Shape(Exception):
    pass


def strip_comments(s):
    s = re.sub(r"/\*.*?\*/", " ", s, flags=re.S)
    s = re.sub(r"//[^\n]*", " ", s)
    return s


TOK = re.compile(r"\s*(::|==|<=|>=|!=|[A-Za-z_][A-Za-z_0-9]*|[0-9]+|.)", re.S)


def tokens(text):
    out, pos, text = [], 0, text.strip()
    while pos < len(text):
        m = TOK.match(text, pos)
        out.append(m.group(1))
        pos = m.end()
    return [t for t in out if t.strip()]


class Parser:
    """integer expressions and one comparison over identifiers, numbers, sizeof(T), TLX_BTREE_MAX(a, b)"""

    def __init__(self, toks):
        self.t, self.i, self.vars = toks, 0, []

    def peek(self):
        return self.t[self.i] if self.i < len(self.t) else None

    def eat(self, tok=None):
        if self.i >= len(self.t) or (tok is not None and self.t[self.i] != tok):
            raise Shape(f"expected {tok!r} at token {self.i} of {' '.join(self.t)}")
        self.i += 1
        return self.t[self.i - 1]

    def var(self, name):
        if name not in self.vars:
            self.vars.append(name)
        return name

    def factor(self):
        t = self.eat()
        if t == "(":
            e = self.expr()
            self.eat(")")
            return f"({e})"
        if t.isdigit():
            return t
        if t == "sizeof":
            self.eat("(")
            ty = []
            while self.peek() != ")":
                ty.append(self.eat())
            self.eat(")")
            name = {"Value": "sizeofValue", "Key": "sizeofKey", "void*": "sizeofPtr"}.get("".join(ty))
            if name is None:
                raise Shape("sizeof of an unexpected type: " + "".join(ty))
            return self.var(name)
        if t == "TLX_BTREE_MAX":
            self.eat("(")
            a = self.expr()
            self.eat(",")
            b = self.expr()
            self.eat(")")
            return f"(max ({a}) ({b}))"
        if re.match(r"[A-Za-z_]", t):
            while self.peek() == "::":          # node::slotuse -> slotuse
                self.eat("::")
                t = self.eat()
            return self.var(t)
        raise Shape(f"unexpected token {t!r}")

    def term(self):
        e = self.factor()
        while self.peek() in ("*", "/"):
            op = self.eat()
            e = f"{e} {op} {self.factor()}"
        return e

    def expr(self):
        e = self.term()
        while self.peek() in ("+", "-"):
            op = self.eat()
            e = f"{e} {op} {self.term()}"
        return e

    def comparison(self):
        a = self.expr()
        op = self.eat()
        rel = {"==": "=", "<=": "≤", "<": "<", ">=": "≥", ">": ">", "!=": "≠"}.get(op)
        if rel is None:
            raise Shape(f"unexpected comparison {op!r}")
        b = self.expr()
        return f"decide ({a} {rel} {b})"

    def done(self):
        if self.i != len(self.t):
            raise Shape("trailing tokens: " + " ".join(self.t[self.i:]))


def parse_expr(text):
    p = Parser(tokens(text))
    e = p.expr()
    p.done()
    return e, p.vars


def parse_cmp(text):
    toks = tokens(text)
    if toks and toks[0] == "(" and toks[-1] == ")":
        toks = toks[1:-1]
    p = Parser(toks)
    e = p.comparison()
    p.done()
    return e, p.vars


def struct_body(src, header_re):
    m = re.search(header_re, src)
    if not m:
        raise Shape(f"{header_re} not found")
    i = src.index("{", m.end())
    depth, j = 0, i
    while j < len(src):
        if src[j] == "{":
            depth += 1
        elif src[j] == "}":
            depth -= 1
            if depth == 0:
                return src[i + 1:j]
        j += 1
    raise Shape("unbalanced braces")


def const_init(body, name):
    m = re.search(r"static\s+const\s+[A-Za-z_ ]+?\b" + name + r"\s*=\s*([^;]+);", body)
    if not m:
        raise Shape(f"static const {name} not found")
    return " ".join(m.group(1).split())


def predicate(body, name):
    m = re.search(r"bool\s+" + name + r"\s*\(\s*\)\s*const\s*\{\s*return\s+([^;]+);\s*\}", body)
    if not m:
        raise Shape(f"{name}() not found or not a single return")
    return " ".join(m.group(1).split())


def lean_def(name, vars_, ty, body, doc):
    args = "".join(f" ({v} : Nat)" for v in vars_)
    return f"/-- `{doc}` -/\ndef {name}{args} : {ty} := {body}\n"


def extract(repo):
    src = strip_comments(open(os.path.join(repo, "tlx", "container", "btree.hpp")).read())
    out = []
    m = re.search(r"#\s*define\s+TLX_BTREE_MAX\s*\(\s*a\s*,\s*b\s*\)\s*(.*)\n", src)
    if not m or "".join(m.group(1).split()) != "((a)<(b)?(b):(a))":
        raise Shape("TLX_BTREE_MAX is not ((a) < (b) ? (b) : (a))")
    traits = struct_body(src, r"struct\s+btree_default_traits\b")
    for cname, lname in (("self_verify", "defaultSelfVerify"), ("debug", "defaultDebug")):
        v = const_init(traits, cname)
        if v not in ("true", "false"):
            raise Shape(f"btree_default_traits::{cname} = {v}")
        out.append(lean_def(lname, [], "Bool", v, f"btree_default_traits::{cname} = {v}"))
    for cname, lname in (("leaf_slots", "defaultLeafSlots"), ("inner_slots", "defaultInnerSlots"),
                         ("binsearch_threshold", "defaultBinsearchThreshold")):
        v = const_init(traits, cname)
        e, vs = parse_expr(v)
        out.append(lean_def(lname, vs, "Nat", e, f"btree_default_traits::{cname} = {v}"))
    cls = src[src.index("class BTree"):]
    for cname, lname in (("leaf_slotmin", "leafSlotmin"), ("inner_slotmin", "innerSlotmin")):
        v = const_init(cls, cname)
        e, vs = parse_expr(v)
        out.append(lean_def(lname, vs, "Nat", e, f"{cname} = {v}"))
    for struct, pre in (("InnerNode", "inner"), ("LeafNode", "leaf")):
        body = struct_body(cls, r"struct\s+" + struct + r"\b")
        for pname, suffix in (("is_full", "IsFull"), ("is_few", "IsFew"), ("is_underflow", "IsUnderflow")):
            v = predicate(body, pname)
            e, vs = parse_cmp(v)
            out.append(lean_def(pre + suffix, vs, "Bool", e, f"{struct}::{pname}: return {v};"))
    enum = struct_body(cls, r"enum\s+result_flags_t\b")
    flags = []
    for item in enum.split(","):
        item = item.strip()
        if not item:
            continue
        m = re.fullmatch(r"([A-Za-z_][A-Za-z_0-9]*)\s*=\s*([0-9]+)", item)
        if not m:
            raise Shape(f"result_flags_t enumerator {item!r}")
        flags.append((m.group(1), int(m.group(2))))
    if [f for f, _ in flags] != ["btree_ok", "btree_not_found", "btree_update_lastkey", "btree_fixmerge"]:
        raise Shape("result_flags_t enumerators: " + ", ".join(f for f, _ in flags))
    for f, v in flags:
        out.append(lean_def(f, [], "Nat", str(v), f"result_flags_t::{f} = {v}"))
    return ("/- GENERATED by tools/c01_extract.py from tlx/container/btree.hpp of the tree under test\n"
            "   (regenerated by checks/c01.py and checks/c02.py on every run).  Do not edit. -/\n"
            "namespace TlxVerif.C01.Gen\n\n" + "\n".join(out) + "\nend TlxVerif.C01.Gen\n")


def main():
    if len(sys.argv) != 3:
        sys.stderr.write(__doc__)
        return 2
    try:
        text = extract(sys.argv[1])
    except (Shape, OSError, ValueError) as e:
        sys.stderr.write(f"c01_extract: {e}\n")
        return 1
    out = sys.argv[2]
    old = open(out).read() if os.path.exists(out) else None
    if old != text:
        tmp = out + ".tmp%d" % os.getpid()
        with open(tmp, "w") as f:
            f.write(text)
        os.replace(tmp, out)
    return 0


if __name__ == "__main__":
    sys.exit(main())
