#!/usr/bin/env python3
"""Run every registered check (MANIFEST.json) and print a summary table.
usage: tools/run_all.py [quick|thorough] [-j N] [ids...]"""
import concurrent.futures as cf
import json
import os
import subprocess
import sys
import time

V = os.path.dirname(os.path.dirname(os.path.abspath(__file__)))
args = sys.argv[1:]
tier = "quick"
jobs = 4
ids = []
i = 0
while i < len(args):
    if args[i] in ("quick", "thorough"):
        tier = args[i]
    elif args[i] == "-j":
        i += 1
        jobs = int(args[i])
    else:
        ids.append(args[i])
    i += 1
m = json.load(open(os.path.join(V, "MANIFEST.json")))
checks = [c for c in m["checks"] if not ids or c["property_id"] in ids]


def run(c):
    cmd = c["quick_cmd"] if tier == "quick" else c.get("thorough_cmd", c["quick_cmd"])
    t = time.time()
    p = subprocess.run(cmd, shell=True, cwd=V, capture_output=True, text=True)
    out = p.stdout + p.stderr
    os.makedirs(os.path.join(V, "build", "logs"), exist_ok=True)
    open(os.path.join(V, "build", "logs", f"{c['property_id']}_{tier}.log"), "w").write(out)
    viol = [l for l in out.splitlines() if l.startswith("VIOLATION")]
    known = [l for l in out.splitlines() if l.startswith("KNOWN-FINDING")]
    return c["property_id"], p.returncode, time.time() - t, viol, known


with cf.ThreadPoolExecutor(jobs) as ex:
    res = list(ex.map(run, checks))
bad = 0
for pid, rc, dt, viol, known in sorted(res):
    print(f"{pid}  rc={rc}  {dt:6.1f}s  violations={len(viol)} known={len(known)}")
    for v in viol[:3]:
        print("    " + v)
    bad += rc != 0 or bool(viol)
sys.exit(1 if bad else 0)
