/-
C01 — the iterator returned by `insert` refers to an entry (it can be dereferenced: `operator[]`),
and the fold of `insert` over a range.
-/
import TlxVerif.Proofs.C01InsPos
import TlxVerif.Proofs.C01Iter
namespace TlxVerif.C01

variable {K V : Type}

theorem validPos_embed (A X B : List (List (K × V))) (j s : Nat) (hv : ValidPos X (j, s)) :
    ValidPos (A ++ (X ++ B)) (A.length + j, s) := by
  obtain ⟨leaf, hl, hs⟩ := hv
  simp only at hl hs
  have hj := (List.getElem?_eq_some_iff.mp hl).1
  refine ⟨leaf, ?_, hs⟩
  simp only
  rw [List.getElem?_append_right (by omega), Nat.add_sub_cancel_left, List.getElem?_append_left hj]
  exact hl

theorem leafInsert_valid (p : Params K) (es : List (K × V)) (k : K) (v : V) (h : Nat) (r : InsOut K V)
    (hlen : findLower p (keysOf es) k ≤ es.length)
    (hr : leafInsert p es k v = some r) :
    ValidPos (chain h r.node ++ optChain h r.split) (r.leafIdx, r.slot) := by
  unfold leafInsert at hr
  simp only at hr
  split at hr
  · rename_i hp
    cases hr
    have hpa : presentAt p es (findLower p (keysOf es) k) k = true := by
      simp only [Bool.and_eq_true] at hp; exact hp.2
    unfold presentAt at hpa
    cases hg : es[findLower p (keysOf es) k]? with
    | none => rw [hg] at hpa; cases hpa
    | some e =>
      have := (List.getElem?_eq_some_iff.mp hg).1
      exact ⟨es, by simp [chain, optChain], this⟩
  · split at hr
    · unfold splitLeafInsert at hr
      simp only at hr
      split at hr
      · cases hr
      · split at hr
        · rename_i hge
          cases hr
          refine ⟨insertAt (es.drop (es.length / 2)) (findLower p (keysOf es) k - es.length / 2) (k, v), by simp [chain, optChain], ?_⟩
          simp only [length_insertAt, List.length_drop]; omega
        · rename_i hlt
          cases hr
          refine ⟨insertAt (es.take (es.length / 2)) (findLower p (keysOf es) k) (k, v), by simp [chain, optChain], ?_⟩
          simp only [length_insertAt, List.length_take]; omega
    · cases hr
      exact ⟨insertAt es (findLower p (keysOf es) k) (k, v), by simp [chain, optChain], by simp only [length_insertAt]; omega⟩

/-- the iterator returned by `insert_descend` refers to an entry -/
theorem insertDescend_valid (p : Params K) (k : K) (v : V) :
    ∀ (h : Nat) (n : BNode K V) (ml mi : Nat), ShapeTop p ml mi h n →
      ∀ r, insertDescend p k v h n = some r →
        ValidPos (chain h r.node ++ optChain h r.split) (r.leafIdx, r.slot) := by
  intro h
  induction h with
  | zero =>
    intro n ml mi hs r hr
    cases n with
    | inner l keys kids => simp [ShapeTop] at hs
    | leaf es =>
      unfold insertDescend at hr
      exact leafInsert_valid p es k v 0 r (by simpa [keysOf] using findLower_le p (keysOf es) k) hr
  | succ h ih =>
    intro n ml mi hs r hr
    cases n with
    | leaf es => simp [ShapeTop] at hs
    | inner l keys kids =>
      simp only [ShapeTop] at hs
      obtain ⟨hl, hk, hmin, hmax, hkids⟩ := hs
      unfold insertDescend at hr
      simp only at hr
      have hslot := findLower_le p keys k
      generalize findLower p keys k = slot at hr hslot
      have hlt : slot < kids.length := by omega
      rw [List.getElem?_eq_getElem hlt] at hr
      simp only at hr
      cases hrec : insertDescend p k v h kids[slot] with
      | none => rw [hrec] at hr; cases hr
      | some r' =>
        rw [hrec] at hr
        simp only at hr
        have ih1 := ih kids[slot] _ _ (hkids _ (List.getElem_mem hlt)).top r' hrec
        have hpre : ((kids.take slot).map (leafCount h)).sum = ((kids.take slot).flatMap (chain h)).length := by
          rw [List.length_flatMap]
          congr 1
          apply List.map_congr_left
          intro c _
          exact leafCount_eq_chain_length h c
        have key : chain (h + 1) r.node ++ optChain (h + 1) r.split =
            (kids.take slot).flatMap (chain h) ++
              ((chain h r'.node ++ optChain h r'.split) ++ (kids.drop (slot + 1)).flatMap (chain h)) ∧
            r.leafIdx = ((kids.take slot).flatMap (chain h)).length + r'.leafIdx ∧ r.slot = r'.slot := by
          cases hsp : r'.split with
          | none =>
            rw [hsp] at hr
            cases hr
            simp only [optChain, List.append_nil, chain]
            exact ⟨flatMap_set (chain h) kids slot r'.node hlt, by rw [hpre], trivial⟩
          | some kv =>
            obtain ⟨nk, nc⟩ := kv
            rw [hsp] at hr
            simp only at hr
            cases hab : innerAbsorb p l keys (kids.set slot r'.node) slot nk nc with
            | none => rw [hab] at hr; cases hr
            | some res =>
              obtain ⟨node, split, ni⟩ := res
              rw [hab] at hr
              cases hr
              simp only
              obtain ⟨hin, hsn⟩ := innerAbsorb_isInner p l keys _ slot nk nc node split ni hab
              have hkk := innerAbsorb_kids p l keys (kids.set slot r'.node) slot nk nc
                (by rw [List.length_set]; exact hk) hslot node split ni hab
              rw [chain_inner_of h node hin, optChain_inner_of h split hsn, ← List.flatMap_append, hkk,
                flatMap_insertAt_set (chain h) kids slot r'.node nc hlt]
              simp only [optChain]
              exact ⟨trivial, by rw [hpre], trivial⟩
        obtain ⟨k1, k2, k3⟩ := key
        rw [k1, k2, k3]
        exact validPos_embed _ _ _ _ _ ih1

/-- **the iterator returned by `insert`** refers to an entry of the new tree -/
theorem insert_valid (p : Params K) (pv : p.Valid) (t : Tree K V) (ht : TreeInv p t)
    (k : K) (v : V) (res : InsResult K V) (hres : insert p t k v = some res) :
    ValidPos res.tree.leafChain res.pos := by
  obtain ⟨hshape, hsort, hsep⟩ := ht
  unfold insert at hres
  cases hroot : t.root with
  | none =>
    rw [hroot] at hres
    simp only [BNode.level] at hres
    unfold insertDescend at hres
    rw [leafInsert_nil p pv] at hres
    simp only at hres
    cases hres
    exact ⟨[(k, v)], by simp [Tree.leafChain, chain, BNode.level], by simp⟩
  | some r0 =>
    rw [hroot] at hres
    simp only at hres
    unfold TreeShape at hshape
    rw [hroot] at hshape
    obtain ⟨hs, _, _, _⟩ := hshape
    generalize r0.level = h0 at *
    cases hr : insertDescend p k v h0 r0 with
    | none => rw [hr] at hres; cases hres
    | some r =>
      rw [hr] at hres
      simp only at hres
      have hpos := insertDescend_valid p k v h0 r0 1 1 hs r hr
      have hshp := insertDescend_shape p pv k v h0 r0 1 1 (by have := pv.leaf4; simp [Params.leafMin, Gen.leafSlotmin]; omega)
        (by have := pv.inner4; simp [Params.innerMin, Gen.innerSlotmin]; omega) hs r hr
      cases hsp : r.split with
      | none =>
        rw [hsp] at hres hpos
        cases hres
        have hlev : r.node.level = h0 := (hshp.1 hsp).level
        simp only [optChain, List.append_nil] at hpos
        simp only [Tree.leafChain, hlev]
        exact hpos
      | some kv =>
        obtain ⟨nk, nc⟩ := kv
        rw [hsp] at hres hpos
        cases hres
        simp only [optChain] at hpos
        simp only [Tree.leafChain, BNode.level, chain, List.flatMap_cons, List.flatMap_nil, List.append_nil]
        exact hpos

end TlxVerif.C01
