/-
C03 — the partition of multikey quicksort (multikey_quicksort.hpp:93-141), transliterated on an
array with four cursors, really produces `<pivot | =pivot | >pivot` (`PartitionOk`).
-/
import TlxVerif.Proofs.C03Mkqs
namespace TlxVerif.C03

variable {α : Type} (str : α → Str)

/-! ### swaps -/

theorem swapIB_getElem? (arr : Array α) (i j k : Nat) (hi : i < arr.size) (hj : j < arr.size) :
    (arr.swapIfInBounds i j)[k]? = if j = k then arr[i]? else if i = k then arr[j]? else arr[k]? := by
  simp only [Array.swapIfInBounds, hi, hj, dite_true, Array.getElem?_swap]
  split
  · simp [hi]
  · split
    · simp [hj]
    · rfl

theorem swapIB_perm (arr : Array α) (i j : Nat) : (arr.swapIfInBounds i j).toList.Perm arr.toList := by
  unfold Array.swapIfInBounds
  split
  · split
    · exact Array.perm_iff_toList_perm.mp (Array.swap_perm _ _)
    · exact List.Perm.refl _
  · exact List.Perm.refl _

theorem chAt_swap (d : Nat) (arr : Array α) (i j k : Nat) (hi : i < arr.size) (hj : j < arr.size) :
    chAt str d (arr.swapIfInBounds i j) k
      = if j = k then chAt str d arr i else if i = k then chAt str d arr j else chAt str d arr k := by
  unfold chAt
  rw [swapIB_getElem? arr i j k hi hj]
  by_cases h1 : j = k
  · simp [h1]
  · by_cases h2 : i = k
    · simp [h1, h2]
    · simp [h1, h2]

theorem chAt_of_getElem? (d : Nat) (arr : Array α) (i : Nat) (x : α) (h : arr[i]? = some x) :
    chAt str d arr i = charAt (str x) d := by
  simp [chAt, h]

/-! ### the loop invariant -/

structure PInv (d : Nat) (ss : List α) (pivot : UInt8) (arr : Array α) (pa pb pc pd : Nat) : Prop where
  size : arr.size = ss.length
  perm : arr.toList.Perm ss
  h1 : 1 ≤ pa
  h2 : pa ≤ pb
  h3 : pb ≤ pc + 1
  h4 : pc ≤ pd
  h5 : pd < ss.length
  eqL : ∀ k, k < pa → chAt str d arr k = pivot
  lt : ∀ k, pa ≤ k → k < pb → chAt str d arr k < pivot
  gt : ∀ k, pc < k → k ≤ pd → pivot < chAt str d arr k
  eqR : ∀ k, pd < k → k < ss.length → chAt str d arr k = pivot

theorem partUp_spec (d : Nat) (ss : List α) (pivot : UInt8) (pc pd : Nat) :
    ∀ fuel arr pa pb, PInv str d ss pivot arr pa pb pc pd → pc + 1 - pb < fuel →
      PInv str d ss pivot (partUp str d pivot pc fuel arr pa pb).1 (partUp str d pivot pc fuel arr pa pb).2.1
        (partUp str d pivot pc fuel arr pa pb).2.2 pc pd ∧
      pb ≤ (partUp str d pivot pc fuel arr pa pb).2.2 ∧
      ((partUp str d pivot pc fuel arr pa pb).2.2 ≤ pc →
        pivot < chAt str d (partUp str d pivot pc fuel arr pa pb).1 (partUp str d pivot pc fuel arr pa pb).2.2) := by
  intro fuel
  induction fuel with
  | zero => intro arr pa pb _ hf; omega
  | succ fuel ih =>
    intro arr pa pb hI hf
    simp only [partUp]
    split
    · rename_i hc
      obtain ⟨hc1, hc2⟩ := hc
      have hpbn : pb < arr.size := by have := hI.size; have := hI.h4; have := hI.h5; omega
      have hpan : pa < arr.size := by have := hI.h2; omega
      split
      · rename_i heq
        have hI' : PInv str d ss pivot (arr.swapIfInBounds pa pb) (pa + 1) (pb + 1) pc pd := by
          refine ⟨by rw [Array.size_swapIfInBounds]; exact hI.size, (swapIB_perm arr pa pb).trans hI.perm,
            by omega, by have := hI.h2; omega, by omega, hI.h4, hI.h5, ?_, ?_, ?_, ?_⟩
          · intro k hk
            rw [chAt_swap str d arr pa pb k hpan hpbn]
            by_cases e1 : pb = k
            · simp only [e1, if_true]
              have := hI.h2
              by_cases e2 : pa = pb
              · rw [e2]; exact heq
              · exact hI.eqL pa (by omega)
            · simp only [e1, if_false]
              by_cases e2 : pa = k
              · simp only [e2, if_true]; rw [← e2] at *; exact heq
              · simp only [e2, if_false]; exact hI.eqL k (by omega)
          · intro k hk1 hk2
            rw [chAt_swap str d arr pa pb k hpan hpbn]
            by_cases e1 : pb = k
            · simp only [e1, if_true]
              exact hI.lt pa (by omega) (by omega)
            · simp only [e1, if_false]
              have e2 : ¬ pa = k := by omega
              simp only [e2, if_false]
              exact hI.lt k (by omega) (by omega)
          · intro k hk1 hk2
            rw [chAt_swap str d arr pa pb k hpan hpbn]
            have := hI.h2
            have e1 : ¬ pb = k := by omega
            have e2 : ¬ pa = k := by omega
            simp only [e1, e2, if_false]
            exact hI.gt k hk1 hk2
          · intro k hk1 hk2
            rw [chAt_swap str d arr pa pb k hpan hpbn]
            have := hI.h2; have := hI.h4
            have e1 : ¬ pb = k := by omega
            have e2 : ¬ pa = k := by omega
            simp only [e1, e2, if_false]
            exact hI.eqR k hk1 hk2
        obtain ⟨r1, r2, r3⟩ := ih (arr.swapIfInBounds pa pb) (pa + 1) (pb + 1) hI' (by omega)
        exact ⟨r1, by omega, r3⟩
      · rename_i hne
        have hlt : chAt str d arr pb < pivot := UInt8.lt_of_le_of_ne hc2 hne
        have hI' : PInv str d ss pivot arr pa (pb + 1) pc pd := by
          refine ⟨hI.size, hI.perm, hI.h1, by have := hI.h2; omega, by omega, hI.h4, hI.h5, hI.eqL, ?_, hI.gt, hI.eqR⟩
          intro k hk1 hk2
          by_cases e : k = pb
          · rw [e]; exact hlt
          · exact hI.lt k hk1 (by omega)
        obtain ⟨r1, r2, r3⟩ := ih arr pa (pb + 1) hI' (by omega)
        exact ⟨r1, by omega, r3⟩
    · rename_i hc
      refine ⟨hI, Nat.le_refl _, ?_⟩
      intro hle
      apply Classical.byContradiction
      intro hn
      exact hc ⟨hle, UInt8.not_lt.mp hn⟩

theorem partDown_spec (d : Nat) (ss : List α) (pivot : UInt8) (pa pb : Nat) :
    ∀ fuel arr pc pd, PInv str d ss pivot arr pa pb pc pd → pc + 1 - pb < fuel →
      PInv str d ss pivot (partDown str d pivot pb fuel arr pc pd).1 pa pb
        (partDown str d pivot pb fuel arr pc pd).2.1 (partDown str d pivot pb fuel arr pc pd).2.2 ∧
      (partDown str d pivot pb fuel arr pc pd).2.1 ≤ pc ∧
      (pb ≤ (partDown str d pivot pb fuel arr pc pd).2.1 →
        chAt str d (partDown str d pivot pb fuel arr pc pd).1 (partDown str d pivot pb fuel arr pc pd).2.1 < pivot) ∧
      (∀ k, k ≤ (partDown str d pivot pb fuel arr pc pd).2.1 →
        (partDown str d pivot pb fuel arr pc pd).1[k]? = arr[k]?) := by
  intro fuel
  induction fuel with
  | zero => intro arr pc pd _ hf; omega
  | succ fuel ih =>
    intro arr pc pd hI hf
    simp only [partDown]
    split
    · rename_i hc
      obtain ⟨hc1, hc2⟩ := hc
      have hpb1 : 1 ≤ pb := by have := hI.h1; have := hI.h2; omega
      have hpdn : pd < arr.size := by have := hI.size; have := hI.h5; omega
      have hpcn : pc < arr.size := by have := hI.h4; omega
      split
      · rename_i heq
        have hI' : PInv str d ss pivot (arr.swapIfInBounds pc pd) pa pb (pc - 1) (pd - 1) := by
          refine ⟨by rw [Array.size_swapIfInBounds]; exact hI.size, (swapIB_perm arr pc pd).trans hI.perm,
            hI.h1, hI.h2, by omega, by have := hI.h4; omega, by have := hI.h5; omega, ?_, ?_, ?_, ?_⟩
          · intro k hk
            rw [chAt_swap str d arr pc pd k hpcn hpdn]
            have := hI.h2; have := hI.h4
            have e1 : ¬ pd = k := by omega
            have e2 : ¬ pc = k := by omega
            simp only [e1, e2, if_false]
            exact hI.eqL k hk
          · intro k hk1 hk2
            rw [chAt_swap str d arr pc pd k hpcn hpdn]
            have := hI.h4
            have e1 : ¬ pd = k := by omega
            have e2 : ¬ pc = k := by omega
            simp only [e1, e2, if_false]
            exact hI.lt k hk1 hk2
          · intro k hk1 hk2
            rw [chAt_swap str d arr pc pd k hpcn hpdn]
            have := hI.h4
            have e1 : ¬ pd = k := by omega
            simp only [e1, if_false]
            by_cases e2 : pc = k
            · simp only [e2, if_true]
              exact hI.gt pd (by omega) (Nat.le_refl _)
            · simp only [e2, if_false]
              exact hI.gt k (by omega) (by omega)
          · intro k hk1 hk2
            rw [chAt_swap str d arr pc pd k hpcn hpdn]
            have := hI.h4
            by_cases e1 : pd = k
            · simp only [e1, if_true]; exact heq
            · simp only [e1, if_false]
              have e2 : ¬ pc = k := by omega
              simp only [e2, if_false]
              exact hI.eqR k (by omega) hk2
        obtain ⟨r1, r2, r3, r4⟩ := ih (arr.swapIfInBounds pc pd) (pc - 1) (pd - 1) hI' (by omega)
        refine ⟨r1, by omega, r3, ?_⟩
        intro k hk
        rw [r4 k hk, swapIB_getElem? arr pc pd k hpcn hpdn]
        have := hI.h4
        have e1 : ¬ pd = k := by omega
        have e2 : ¬ pc = k := by omega
        simp only [e1, e2, if_false]
      · rename_i hne
        have hgt : pivot < chAt str d arr pc := by
          apply UInt8.lt_of_le_of_ne hc2
          intro e; exact hne e.symm
        have hI' : PInv str d ss pivot arr pa pb (pc - 1) pd := by
          refine ⟨hI.size, hI.perm, hI.h1, hI.h2, by omega, by have := hI.h4; omega, hI.h5, hI.eqL, hI.lt, ?_, hI.eqR⟩
          intro k hk1 hk2
          by_cases e : k = pc
          · rw [e]; exact hgt
          · exact hI.gt k (by omega) hk2
        obtain ⟨r1, r2, r3, r4⟩ := ih arr (pc - 1) pd hI' (by omega)
        exact ⟨r1, by omega, r3, r4⟩
    · rename_i hc
      refine ⟨hI, Nat.le_refl _, ?_, fun _ _ => rfl⟩
      intro hle
      apply Classical.byContradiction
      intro hn
      exact hc ⟨hle, UInt8.not_lt.mp hn⟩

theorem partLoop_spec (d : Nat) (ss : List α) (pivot : UInt8) :
    ∀ fuel arr pa pb pc pd, PInv str d ss pivot arr pa pb pc pd → pc + 1 - pb < fuel →
      PInv str d ss pivot (partLoop str d pivot ss.length fuel arr pa pb pc pd).1
        (partLoop str d pivot ss.length fuel arr pa pb pc pd).2.1
        (partLoop str d pivot ss.length fuel arr pa pb pc pd).2.2.1
        (partLoop str d pivot ss.length fuel arr pa pb pc pd).2.2.2.1
        (partLoop str d pivot ss.length fuel arr pa pb pc pd).2.2.2.2 ∧
      (partLoop str d pivot ss.length fuel arr pa pb pc pd).2.2.1
        = (partLoop str d pivot ss.length fuel arr pa pb pc pd).2.2.2.1 + 1 := by
  intro fuel
  induction fuel with
  | zero => intro arr pa pb pc pd _ hf; omega
  | succ fuel ih =>
    intro arr pa pb pc pd hI hf
    simp only [partLoop]
    have hn1 : pc + 1 - pb < ss.length + 1 := by have := hI.h4; have := hI.h5; omega
    obtain ⟨u1, u2, u3⟩ := partUp_spec str d ss pivot pc pd (ss.length + 1) arr pa pb hI hn1
    generalize partUp str d pivot pc (ss.length + 1) arr pa pb = ru at u1 u2 u3
    obtain ⟨arr1, pa1, pb1⟩ := ru
    simp only at u1 u2 u3 ⊢
    have hn2 : pc + 1 - pb1 < ss.length + 1 := by omega
    obtain ⟨v1, v2, v3, v4⟩ := partDown_spec str d ss pivot pa1 pb1 (ss.length + 1) arr1 pc pd u1 hn2
    generalize partDown str d pivot pb1 (ss.length + 1) arr1 pc pd = rd at v1 v2 v3 v4
    obtain ⟨arr2, pc2, pd2⟩ := rd
    simp only at v1 v2 v3 v4 ⊢
    split
    · rename_i hgt
      refine ⟨v1, ?_⟩
      show pb1 = pc2 + 1
      have := v1.h3
      omega
    · rename_i hle
      have hle' : pb1 ≤ pc2 := by omega
      have hc2 : chAt str d arr2 pc2 < pivot := v3 hle'
      have hc1 : pivot < chAt str d arr2 pb1 := by
        have := u3 (by omega)
        simp only [chAt] at this ⊢
        rw [v4 pb1 hle']
        exact this
      have hne : pb1 ≠ pc2 := by
        intro e
        rw [e] at hc1
        exact absurd (UInt8.lt_trans hc1 hc2) (UInt8.lt_irrefl _)
      have hpc2n : pc2 < arr2.size := by have := v1.size; have := v1.h4; have := v1.h5; omega
      have hpb1n : pb1 < arr2.size := by omega
      have hI' : PInv str d ss pivot (arr2.swapIfInBounds pb1 pc2) pa1 (pb1 + 1) (pc2 - 1) pd2 := by
        refine ⟨by rw [Array.size_swapIfInBounds]; exact v1.size, (swapIB_perm arr2 pb1 pc2).trans v1.perm,
          v1.h1, by have := v1.h2; omega, by omega, by have := v1.h4; omega, v1.h5, ?_, ?_, ?_, ?_⟩
        · intro k hk
          rw [chAt_swap str d arr2 pb1 pc2 k hpb1n hpc2n]
          have := v1.h2
          have e1 : ¬ pc2 = k := by omega
          have e2 : ¬ pb1 = k := by omega
          simp only [e1, e2, if_false]
          exact v1.eqL k hk
        · intro k hk1 hk2
          rw [chAt_swap str d arr2 pb1 pc2 k hpb1n hpc2n]
          have e1 : ¬ pc2 = k := by omega
          simp only [e1, if_false]
          by_cases e2 : pb1 = k
          · simp only [e2, if_true]; exact hc2
          · simp only [e2, if_false]; exact v1.lt k hk1 (by omega)
        · intro k hk1 hk2
          rw [chAt_swap str d arr2 pb1 pc2 k hpb1n hpc2n]
          by_cases e1 : pc2 = k
          · simp only [e1, if_true]; exact hc1
          · simp only [e1, if_false]
            have e2 : ¬ pb1 = k := by omega
            simp only [e2, if_false]
            exact v1.gt k (by omega) hk2
        · intro k hk1 hk2
          rw [chAt_swap str d arr2 pb1 pc2 k hpb1n hpc2n]
          have := v1.h4
          have e1 : ¬ pc2 = k := by omega
          have e2 : ¬ pb1 = k := by omega
          simp only [e1, e2, if_false]
          exact v1.eqR k hk1 hk2
      exact ih (arr2.swapIfInBounds pb1 pc2) pa1 (pb1 + 1) (pc2 - 1) pd2 hI' (by omega)

/-! ### vec_swap of two disjoint ranges -/

theorem vecSwap_size (arr : Array α) (a b k : Nat) : (vecSwap arr a b k).size = arr.size := by
  induction k generalizing arr a b with
  | zero => simp [vecSwap]
  | succ k ih => simp [vecSwap, ih, Array.size_swapIfInBounds]

theorem vecSwap_perm (arr : Array α) (a b k : Nat) : (vecSwap arr a b k).toList.Perm arr.toList := by
  induction k generalizing arr a b with
  | zero => simp [vecSwap]
  | succ k ih => simp only [vecSwap]; exact (ih _ _ _).trans (swapIB_perm arr a b)

theorem vecSwap_chAt (d : Nat) (arr : Array α) (a b k : Nat) (h1 : a + k ≤ b) (h2 : b + k ≤ arr.size) (i : Nat) :
    chAt str d (vecSwap arr a b k) i
      = if a ≤ i ∧ i < a + k then chAt str d arr (b + (i - a))
        else if b ≤ i ∧ i < b + k then chAt str d arr (a + (i - b))
        else chAt str d arr i := by
  induction k generalizing arr a b with
  | zero =>
    have e1 : ¬ (a ≤ i ∧ i < a) := by omega
    have e2 : ¬ (b ≤ i ∧ i < b) := by omega
    simp [vecSwap, e1, e2]
  | succ k ih =>
    simp only [vecSwap]
    have han : a < arr.size := by omega
    have hbn : b < arr.size := by omega
    rw [ih (arr.swapIfInBounds a b) (a + 1) (b + 1) (by omega) (by rw [Array.size_swapIfInBounds]; omega)]
    by_cases c1 : a ≤ i ∧ i < a + (k + 1)
    · simp only [c1, and_self, if_true]
      by_cases c2 : a + 1 ≤ i ∧ i < a + 1 + k
      · simp only [c2, and_self, if_true]
        rw [chAt_swap str d arr a b _ han hbn]
        have e1 : ¬ b = b + 1 + (i - (a + 1)) := by omega
        have e2 : ¬ a = b + 1 + (i - (a + 1)) := by omega
        simp only [e1, e2, if_false]
        congr 1; omega
      · simp only [c2, if_false]
        have hia : i = a := by omega
        subst hia
        have c3 : ¬ (b + 1 ≤ i ∧ i < b + 1 + k) := by omega
        simp only [c3, if_false]
        rw [chAt_swap str d arr i b _ han hbn]
        have e1 : ¬ b = i := by omega
        simp only [e1, if_false, if_true, Nat.sub_self, Nat.add_zero]
    · simp only [c1, if_false]
      have c2 : ¬ (a + 1 ≤ i ∧ i < a + 1 + k) := by omega
      simp only [c2, if_false]
      by_cases c3 : b ≤ i ∧ i < b + (k + 1)
      · simp only [c3, and_self, if_true]
        by_cases c4 : b + 1 ≤ i ∧ i < b + 1 + k
        · simp only [c4, and_self, if_true]
          rw [chAt_swap str d arr a b _ han hbn]
          have e1 : ¬ b = a + 1 + (i - (b + 1)) := by omega
          have e2 : ¬ a = a + 1 + (i - (b + 1)) := by omega
          simp only [e1, e2, if_false]
          congr 1; omega
        · simp only [c4, if_false]
          have hib : i = b := by omega
          subst hib
          rw [chAt_swap str d arr a i _ han hbn]
          simp only [if_true, Nat.sub_self, Nat.add_zero]
      · simp only [c3, if_false]
        have c4 : ¬ (b + 1 ≤ i ∧ i < b + 1 + k) := by omega
        simp only [c4, if_false]
        rw [chAt_swap str d arr a b _ han hbn]
        have e1 : ¬ b = i := by omega
        have e2 : ¬ a = i := by omega
        simp only [e1, e2, if_false]

/-! ### the whole partition -/

theorem mem_take_chAt (d : Nat) (arr : Array α) (m : Nat) (P : UInt8 → Prop)
    (h : ∀ i, i < m → i < arr.size → P (chAt str d arr i)) :
    ∀ x ∈ arr.toList.take m, P (charAt (str x) d) := by
  intro x hx
  rw [List.mem_iff_getElem?] at hx
  obtain ⟨i, hi⟩ := hx
  rw [List.getElem?_take] at hi
  split at hi
  · rename_i him
    rw [Array.getElem?_toList] at hi
    have hlt : i < arr.size := by
      apply Classical.byContradiction
      intro hn
      rw [Array.getElem?_eq_none (by omega)] at hi
      simp at hi
    rw [← chAt_of_getElem? str d arr i x hi]
    exact h i him hlt
  · simp at hi

theorem mem_drop_chAt (d : Nat) (arr : Array α) (m : Nat) (P : UInt8 → Prop)
    (h : ∀ i, m ≤ i → i < arr.size → P (chAt str d arr i)) :
    ∀ x ∈ arr.toList.drop m, P (charAt (str x) d) := by
  intro x hx
  rw [List.mem_iff_getElem?] at hx
  obtain ⟨i, hi⟩ := hx
  rw [List.getElem?_drop, Array.getElem?_toList] at hi
  have hlt : m + i < arr.size := by
    apply Classical.byContradiction
    intro hn
    rw [Array.getElem?_eq_none (by omega)] at hi
    simp at hi
  rw [← chAt_of_getElem? str d arr (m + i) x hi]
  exact h (m + i) (by omega) hlt

theorem mem_drop_take_chAt (d : Nat) (arr : Array α) (m k : Nat) (P : UInt8 → Prop)
    (h : ∀ i, m ≤ i → i < m + k → i < arr.size → P (chAt str d arr i)) :
    ∀ x ∈ (arr.toList.drop m).take k, P (charAt (str x) d) := by
  intro x hx
  rw [List.mem_iff_getElem?] at hx
  obtain ⟨i, hi⟩ := hx
  rw [List.getElem?_take] at hi
  split at hi
  · rename_i hik
    rw [List.getElem?_drop, Array.getElem?_toList] at hi
    have hlt : m + i < arr.size := by
      apply Classical.byContradiction
      intro hn
      rw [Array.getElem?_eq_none (by omega)] at hi
      simp at hi
    rw [← chAt_of_getElem? str d arr (m + i) x hi]
    exact h (m + i) (by omega) (by omega) hlt
  · simp at hi

/-- the partition property, for every input of at least one string -/
theorem partition_ok (d : Nat) (ss : List α) (hn : 32 ≤ ss.length) : PartOk str d ss (partition str d ss) := by
  unfold partition
  simp only [List.size_toArray]
  -- pivot selection: whatever index is chosen, the swap keeps a permutation
  generalize (if ss.length > 30 then
      (med3 str d ss.toArray 0 (0 + ss.length / 8) (0 + 2 * (ss.length / 8)),
        med3 str d ss.toArray (ss.length / 2 - ss.length / 8) (ss.length / 2) (ss.length / 2 + ss.length / 8),
        med3 str d ss.toArray (ss.length - 1 - 2 * (ss.length / 8)) (ss.length - 1 - ss.length / 8) (ss.length - 1))
      else (0, ss.length / 2, ss.length - 1)) = sel
  obtain ⟨pl, pm, pn⟩ := sel
  simp only
  generalize med3 str d ss.toArray pl pm pn = pm'
  generalize harr0 : ss.toArray.swapIfInBounds 0 pm' = arr0
  have hsz0 : arr0.size = ss.length := by rw [← harr0, Array.size_swapIfInBounds]; simp
  have hperm0 : arr0.toList.Perm ss := by
    rw [← harr0]; exact (swapIB_perm _ _ _).trans (by simp)
  have hI0 : PInv str d ss (chAt str d arr0 0) arr0 1 1 (ss.length - 1) (ss.length - 1) := by
    refine ⟨hsz0, hperm0, Nat.le_refl _, Nat.le_refl _, by omega, Nat.le_refl _, by omega, ?_, ?_, ?_, ?_⟩
    · intro k hk
      have : k = 0 := by omega
      rw [this]
    · intro k h1 h2; omega
    · intro k h1 h2; omega
    · intro k h1 h2; omega
  obtain ⟨w1, w2⟩ := partLoop_spec str d ss (chAt str d arr0 0) (ss.length + 1) arr0 1 1 (ss.length - 1) (ss.length - 1)
    hI0 (by omega)
  generalize partLoop str d (chAt str d arr0 0) ss.length (ss.length + 1) arr0 1 1 (ss.length - 1) (ss.length - 1) = rl
    at w1 w2
  obtain ⟨arr, pa, pb, pc, pd⟩ := rl
  simp only at w1 w2 ⊢
  generalize hpiv : chAt str d arr0 0 = pivot at w1
  obtain ⟨isz, iperm, i1, i2, i3, i4, i5, ieqL, ilt, igt, ieqR⟩ := w1
  subst w2
  -- first vec_swap
  have hv1a : 0 + min pa (pc + 1 - pa) ≤ pc + 1 - min pa (pc + 1 - pa) := by omega
  have hv1b : pc + 1 - min pa (pc + 1 - pa) + min pa (pc + 1 - pa) ≤ arr.size := by omega
  have hch1 := vecSwap_chAt str d arr 0 (pc + 1 - min pa (pc + 1 - pa)) (min pa (pc + 1 - pa)) hv1a hv1b
  generalize harr1 : vecSwap arr 0 (pc + 1 - min pa (pc + 1 - pa)) (min pa (pc + 1 - pa)) = arr1 at hch1
  have hsz1 : arr1.size = ss.length := by rw [← harr1, vecSwap_size]; exact isz
  have hperm1 : arr1.toList.Perm ss := by rw [← harr1]; exact (vecSwap_perm _ _ _ _).trans iperm
  -- classification after the first vec_swap
  have c1lt : ∀ i, i < pc + 1 - pa → chAt str d arr1 i < pivot := by
    intro i hi
    rw [hch1 i]
    split
    · rename_i h; exact ilt _ (by omega) (by omega)
    · split
      · rename_i h1 h2; omega
      · rename_i h1 h2; exact ilt i (by omega) (by omega)
  have c1eq : ∀ i, pc + 1 - pa ≤ i → i < pc + 1 → chAt str d arr1 i = pivot := by
    intro i hi1 hi2
    rw [hch1 i]
    split
    · rename_i h; omega
    · split
      · rename_i h1 h2; exact ieqL _ (by omega)
      · rename_i h1 h2; exact ieqL i (by omega)
  have c1rest : ∀ i, pc + 1 ≤ i → chAt str d arr1 i = chAt str d arr i := by
    intro i hi
    rw [hch1 i]
    have e1 : ¬ (0 ≤ i ∧ i < 0 + min pa (pc + 1 - pa)) := by omega
    have e2 : ¬ (pc + 1 - min pa (pc + 1 - pa) ≤ i ∧ i < pc + 1 - min pa (pc + 1 - pa) + min pa (pc + 1 - pa)) := by omega
    simp only [e1, e2, if_false]
  -- second vec_swap
  have hv2a : pc + 1 + min (pd - pc) (ss.length - pd - 1) ≤ ss.length - min (pd - pc) (ss.length - pd - 1) := by omega
  have hv2b : ss.length - min (pd - pc) (ss.length - pd - 1) + min (pd - pc) (ss.length - pd - 1) ≤ arr1.size := by omega
  have hch2 := vecSwap_chAt str d arr1 (pc + 1) (ss.length - min (pd - pc) (ss.length - pd - 1))
    (min (pd - pc) (ss.length - pd - 1)) hv2a hv2b
  generalize harr2 : vecSwap arr1 (pc + 1) (ss.length - min (pd - pc) (ss.length - pd - 1))
    (min (pd - pc) (ss.length - pd - 1)) = arr2 at hch2
  have hsz2 : arr2.size = ss.length := by rw [← harr2, vecSwap_size]; exact hsz1
  have hperm2 : arr2.toList.Perm ss := by rw [← harr2]; exact (vecSwap_perm _ _ _ _).trans hperm1
  refine ⟨hperm2, i1, by show pa ≤ pc + 1; omega, rfl, i4, i5, ?_, ?_, ?_⟩
  · -- less
    show ∀ x ∈ arr2.toList.take (pc + 1 - pa), charAt (str x) d < pivot
    apply mem_take_chAt str d arr2 _ (fun c => c < pivot)
    intro i hi _
    rw [hch2 i]
    have e1 : ¬ (pc + 1 ≤ i ∧ i < pc + 1 + min (pd - pc) (ss.length - pd - 1)) := by omega
    have e2 : ¬ (ss.length - min (pd - pc) (ss.length - pd - 1) ≤ i ∧
        i < ss.length - min (pd - pc) (ss.length - pd - 1) + min (pd - pc) (ss.length - pd - 1)) := by omega
    simp only [e1, e2, if_false]
    exact c1lt i hi
  · -- equal
    show ∀ x ∈ (arr2.toList.drop (pc + 1 - pa)).take (pa + (ss.length - pd - 1)), charAt (str x) d = pivot
    apply mem_drop_take_chAt str d arr2 _ _ (fun c => c = pivot)
    intro i hi1 hi2 hi3
    rw [hch2 i]
    split
    · rename_i h
      rw [c1rest _ (by omega)]
      exact ieqR _ (by omega) (by omega)
    · split
      · rename_i h1 h2; omega
      · rename_i h1 h2
        by_cases hle : i < pc + 1
        · exact c1eq i hi1 hle
        · rw [c1rest i (by omega)]
          exact ieqR i (by omega) (by omega)
  · -- greater
    show ∀ x ∈ arr2.toList.drop (ss.length - (pd - pc)), pivot < charAt (str x) d
    apply mem_drop_chAt str d arr2 _ (fun c => pivot < c)
    intro i hi1 hi2
    rw [hch2 i]
    split
    · rename_i h; omega
    · split
      · rename_i h1 h2
        rw [c1rest _ (by omega)]
        exact igt _ (by omega) (by omega)
      · rename_i h1 h2
        rw [c1rest i (by omega)]
        exact igt i (by omega) (by omega)

theorem partitionOk : PartitionOk str := fun d ss hn => partition_ok str d ss hn

end TlxVerif.C03
