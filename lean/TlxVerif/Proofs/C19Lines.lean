/-
C19 — line structure of base64_encode with line breaks: for a width that is a positive
multiple of 4 every newline-terminated line has exactly `line_break` characters and the
rest at most that many.
-/
import TlxVerif.Model.C19Codec
import TlxVerif.Proofs.C19Codec
namespace TlxVerif.C19
open TlxVerif.C18 (Bytes)

/-- lengths of the lines of a text (runs between newline bytes; the last run may be empty) -/
def lineLengths : Bytes → List Nat
  | [] => [0]
  | c :: t =>
    if c == 10 then 0 :: lineLengths t
    else match lineLengths t with
      | n :: ns => (n + 1) :: ns
      | [] => [1]

theorem lineLengths_ne_nil : ∀ t : Bytes, lineLengths t ≠ []
  | [] => by simp [lineLengths]
  | c :: t => by
    simp only [lineLengths]
    split
    · simp
    · split <;> simp

/-- first line is `col` short of … : `col` characters are already on the current line -/
def GoodLines (lb col : Nat) : List Nat → Prop
  | [] => False
  | [n] => col + n ≤ lb
  | n :: m :: ms => col + n = lb ∧ GoodLines lb 0 (m :: ms)

theorem lineLengths_cons_ne (c : UInt8) (t : Bytes) (hc : (c == 10) = false) :
    lineLengths (c :: t) = match lineLengths t with | n :: ns => (n + 1) :: ns | [] => [1] := by
  simp [lineLengths, hc]

/-- prepending `k` non-newline characters to a text whose lines are good at column `col + k` -/
theorem good_prepend (lb : Nat) : ∀ (q : Bytes) (t : Bytes) (col : Nat), (∀ c ∈ q, (c == 10) = false) →
    GoodLines lb (col + q.length) (lineLengths t) → GoodLines lb col (lineLengths (q ++ t))
  | [], t, col, _, h => by simpa using h
  | c :: q, t, col, hq, h => by
    have hc : (c == 10) = false := hq c (by simp)
    have ih := good_prepend lb q t (col + 1) (fun x hx => hq x (by simp [hx]))
      (by simpa [Nat.add_assoc, Nat.add_comm 1] using h)
    rw [List.cons_append, lineLengths_cons_ne c _ hc]
    cases hl : lineLengths (q ++ t) with
    | nil => exact absurd hl (lineLengths_ne_nil _)
    | cons n ns =>
      rw [hl] at ih
      cases ns with
      | nil => simp only [GoodLines] at ih ⊢; omega
      | cons m ms => simp only [GoodLines] at ih ⊢; exact ⟨by omega, ih.2⟩

theorem enc_ne_nl' (v : UInt8) : (enc64 v == 10) = false := by
  have := enc_ne_nl v
  simpa [bne] using this

/-- the encoder keeps every line at exactly `lb` characters (for `4 ∣ lb`, `4 ∣ col`, `col < lb`) -/
theorem encodeLoop_lines (lb : Nat) (hlb : 0 < lb) (h4 : lb % 4 = 0) : ∀ (s : Bytes) (col : Nat),
    col % 4 = 0 → col < lb → GoodLines lb col (lineLengths (encodeLoop lb s col))
  | [], col, _, hlt => by simp [encodeLoop, lineLengths, GoodLines]; omega
  | [a], col, hc4, hlt => by
    simp only [encodeLoop]
    have := good_prepend lb [enc64 ((a &&& 0xFC) >>> 2), enc64 ((a &&& 0x03) <<< 4), 61, 61] [] col
      (by intro c hc; simp only [List.mem_cons, List.not_mem_nil, or_false] at hc
          rcases hc with h | h | h | h <;> subst h <;> first | exact enc_ne_nl' _ | decide)
      (by simp [lineLengths, GoodLines]; omega)
    simpa using this
  | [a, b], col, hc4, hlt => by
    simp only [encodeLoop]
    have := good_prepend lb [enc64 ((a &&& 0xFC) >>> 2), enc64 (((a &&& 0x03) <<< 4) ||| ((b &&& 0xF0) >>> 4)),
        enc64 ((b &&& 0x0F) <<< 2), 61] [] col
      (by intro c hc; simp only [List.mem_cons, List.not_mem_nil, or_false] at hc
          rcases hc with h | h | h | h <;> subst h <;> first | exact enc_ne_nl' _ | decide)
      (by simp [lineLengths, GoodLines]; omega)
    simpa using this
  | a :: b :: c :: rest, col, hc4, hlt => by
    simp only [encodeLoop]
    have hq : ∀ x ∈ [enc64 ((a &&& 0xFC) >>> 2), enc64 (((a &&& 0x03) <<< 4) ||| ((b &&& 0xF0) >>> 4)),
        enc64 (((b &&& 0x0F) <<< 2) ||| ((c &&& 0xC0) >>> 6)), enc64 ((c &&& 0x3F) >>> 0)], (x == 10) = false := by
      intro x hx; simp only [List.mem_cons, List.not_mem_nil, or_false] at hx
      rcases hx with h | h | h | h <;> subst h <;> exact enc_ne_nl' _
    split
    · -- the line is full: newline, continue at column 0
      rename_i hfull
      have hcol : col + 4 = lb := by omega
      apply good_prepend lb _ _ col hq
      have ih := encodeLoop_lines lb hlb h4 rest 0 (by omega) hlb
      simp only [lineLengths, beq_self_eq_true, if_true, List.length_cons, List.length_nil]
      cases hl : lineLengths (encodeLoop lb rest 0) with
      | nil => exact absurd hl (lineLengths_ne_nil _)
      | cons n ns =>
        rw [hl] at ih
        simp only [GoodLines]
        exact ⟨by omega, ih⟩
    · rename_i hnot
      have hcol : col + 4 < lb := by omega
      apply good_prepend lb _ _ col hq
      have ih := encodeLoop_lines lb hlb h4 rest (col + 4) (by omega) hcol
      simpa using ih

end TlxVerif.C19
