/-
C03 — the bucket step for steps whose borders all carry the same LCP (`depth`): the 8-bit radix
steps and the three ranges of multikey quicksort.  A step is a list of blocks
(input bucket, LCP view handed to the sub-sorter, result of the sub-sorter).
-/
import TlxVerif.Proofs.C03Border
namespace TlxVerif.C03

variable {α : Type} (str : α → Str)

structure Blk (α : Type) where
  b : List α              -- the strings of the bucket
  v : List Nat            -- its part of the LCP array, after the stores of the step
  r : List α × List Nat   -- what the sub-sorter returned

/-- the sub-sorter met its specification on this block -/
def BlkOk (wl : Bool) (t : Blk α) : Prop :=
  SortSpec str wl t.b t.v t.r ∧ (wl = true → t.v.length = t.b.length)

theorem blocks_perm (tl : List (Blk α)) (h : ∀ t ∈ tl, t.r.1.Perm t.b) :
    (tl.flatMap fun t => t.r.1).Perm (tl.flatMap fun t => t.b) := by
  induction tl with
  | nil => simp
  | cons t rest ih =>
    simp only [List.flatMap_cons]
    exact List.Perm.append (h t (by simp)) (ih fun t ht => h t (by simp [ht]))

theorem blocks_sorted (tl : List (Blk α)) (h : ∀ t ∈ tl, t.r.1.Perm t.b ∧ Sorted str t.r.1)
    (hcross : tl.Pairwise fun t1 t2 => ∀ x ∈ t1.b, ∀ y ∈ t2.b, str x ≤ str y) :
    Sorted str (tl.flatMap fun t => t.r.1) := by
  induction tl with
  | nil => simp [Sorted]
  | cons t rest ih =>
    rw [List.pairwise_cons] at hcross
    simp only [List.flatMap_cons]
    unfold Sorted
    rw [List.pairwise_append]
    refine ⟨(h t (by simp)).2, ih (fun t ht => h t (by simp [ht])) hcross.2, ?_⟩
    intro x hx y hy
    rw [List.mem_flatMap] at hy
    obtain ⟨t2, ht2, hy⟩ := hy
    exact hcross.1 t2 ht2 x ((h t (by simp)).1.mem_iff.mp hx) y ((h t2 (by simp [ht2])).1.mem_iff.mp hy)

theorem borders_const (d : Nat) (prev : Option Str) (seen : Bool) (tl : List (Blk α))
    (hseen : prev.isSome = true → seen = true)
    (hprev : ∀ p, prev = some p → ∀ t ∈ tl, ∀ a ∈ t.r.1, lcp p (str a) = d)
    (hcross : tl.Pairwise fun t1 t2 => ∀ x ∈ t1.r.1, ∀ y ∈ t2.r.1, lcp (str x) (str y) = d)
    (hm : HeadsMarked d seen (tl.map fun t => t.b.length) (tl.map fun t => t.v))
    (hlen : ∀ t ∈ tl, t.r.1.length = t.b.length) :
    Borders prev (tl.map fun t => (t.r.1.map str, t.v)) := by
  induction tl generalizing prev seen with
  | nil => simp [Borders]
  | cons t rest ih =>
    rw [List.pairwise_cons] at hcross
    simp only [List.map_cons, HeadsMarked] at hm
    simp only [List.map_cons, Borders]
    constructor
    · intro p a hp ha
      have hne : t.b.length ≠ 0 := by
        have := hlen t (by simp)
        intro e
        rw [e] at this
        have : t.r.1 = [] := List.eq_nil_of_length_eq_zero this
        simp [this] at ha
      have hs : seen = true := hseen (by simp [hp])
      rw [hm.1 hne hs]
      have hmem : ∃ x ∈ t.r.1, str x = a := by
        cases hr : t.r.1 with
        | nil => simp [hr] at ha
        | cons x xs =>
          simp [hr] at ha
          exact ⟨x, by simp, ha⟩
      obtain ⟨x, hx, hxa⟩ := hmem
      rw [← hxa, hprev p hp t (by simp) x hx]
    · apply ih _ (seen || decide (t.b.length ≠ 0))
      · intro hsome
        cases hgl : (t.r.1.map str).getLast? with
        | none =>
          rw [hgl] at hsome
          simp only [Option.none_or] at hsome
          simp [hseen hsome]
        | some q =>
          have : t.r.1 ≠ [] := by
            intro e; simp [e] at hgl
          have : t.b.length ≠ 0 := by
            rw [← hlen t (by simp)]
            intro e; exact this (List.eq_nil_of_length_eq_zero e)
          simp [this]
      · intro p hp t2 ht2 a ha
        cases hgl : (t.r.1.map str).getLast? with
        | none =>
          rw [hgl] at hp
          simp only [Option.none_or] at hp
          exact hprev p hp t2 (by simp [ht2]) a ha
        | some q =>
          rw [hgl] at hp
          simp only [Option.some_or, Option.some.injEq] at hp
          subst hp
          have := List.mem_of_getLast? hgl
          rw [List.mem_map] at this
          obtain ⟨x, hx, hxq⟩ := this
          rw [← hxq]
          exact hcross.1 t2 ht2 x hx a ha
      · exact hcross.2
      · exact hm.2
      · exact fun t ht => hlen t (by simp [ht])

/-- **bucket step, constant border LCP**: if every block was sorted correctly, blocks are in
ascending order with LCP exactly `d` across blocks, and the views carry `d` at the head of every
non-empty block behind a non-empty one, then the concatenation meets the specification for the
concatenated input and the concatenated views. -/
theorem blocks_spec (wl : Bool) (d : Nat) (tl : List (Blk α))
    (hok : ∀ t ∈ tl, BlkOk str wl t)
    (hcross : tl.Pairwise fun t1 t2 => ∀ x ∈ t1.b, ∀ y ∈ t2.b, str x ≤ str y ∧ lcp (str x) (str y) = d)
    (hm : wl = true → HeadsMarked d false (tl.map fun t => t.b.length) (tl.map fun t => t.v)) :
    SortSpec str wl (tl.flatMap fun t => t.b) (tl.flatMap fun t => t.v)
      (tl.flatMap (fun t => t.r.1), tl.flatMap (fun t => t.r.2)) := by
  have hperm : ∀ t ∈ tl, t.r.1.Perm t.b := fun t ht => (hok t ht).1.1
  refine ⟨blocks_perm tl hperm, ?_, ?_⟩
  · apply blocks_sorted str tl (fun t ht => ⟨hperm t ht, (hok t ht).1.2.1⟩)
    exact hcross.imp fun h x hx y hy => (h x hx y hy).1
  · intro hwl
    subst hwl
    · 
      have hr2 : ∀ t ∈ tl, t.r.2 = t.v.take 1 ++ adjLcps (t.r.1.map str) := fun t ht =>
        (hok t ht).1.2.2 rfl
      have hlen : ∀ t ∈ tl, t.r.1.length = t.b.length := fun t ht => (hperm t ht).length_eq
      have hcross' : tl.Pairwise fun t1 t2 => ∀ x ∈ t1.r.1, ∀ y ∈ t2.r.1, lcp (str x) (str y) = d := by
        have : ∀ t1 ∈ tl, ∀ t2 ∈ tl,
            (∀ x ∈ t1.b, ∀ y ∈ t2.b, str x ≤ str y ∧ lcp (str x) (str y) = d) →
            (∀ x ∈ t1.r.1, ∀ y ∈ t2.r.1, lcp (str x) (str y) = d) :=
          fun t1 h1 t2 h2 h x hx y hy =>
            (h x ((hperm t1 h1).mem_iff.mp hx) y ((hperm t2 h2).mem_iff.mp hy)).2
        exact hcross.imp_of_mem fun {a b} ha hb h => this a ha b hb h
      have hb := borders_const str d none false tl (by simp) (by simp) hcross' (hm rfl) hlen
      have hlen2 : ∀ b ∈ (tl.map fun t => (t.r.1.map str, t.v)), b.2.length = b.1.length := by
        intro b hb
        rw [List.mem_map] at hb
        obtain ⟨t, ht, e⟩ := hb
        subst e
        simp only [List.length_map]
        rw [hlen t ht, (hok t ht).2 rfl]
      have has := assemble none _ hlen2 hb
      simp only [assembled] at has
      have e1 : (tl.flatMap fun t => t.r.2)
          = (tl.map fun t => (t.r.1.map str, t.v)).flatMap (fun b => b.2.take 1 ++ adjLcps b.1) := by
        clear has hlen2 hb hcross' hlen hok hcross hm hperm
        induction tl with
        | nil => simp
        | cons t rest ih =>
          simp only [List.flatMap_cons, List.map_cons]
          rw [hr2 t (by simp), ih (fun t ht => hr2 t (by simp [ht]))]
      rw [e1, has]
      simp [List.flatMap_map, List.map_flatMap]

end TlxVerif.C03
