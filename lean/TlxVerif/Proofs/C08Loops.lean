/-
C08 — the loops of one refinement round: rank bookkeeping (`leftsizeOf`), the priority queues
(`pickMin`/`pickMax` on lists with distinct sequence numbers) and the Hoare specifications of
`scanLmax`, `classify`, `pqRight`/`moveLeftLoop`, `pqLeft`/`moveRightLoop`, `round`.
-/
import TlxVerif.Proofs.C08InvSteps
namespace TlxVerif.C08

/-! ### leftsize -/

theorem leftsize_congr (a a' : Array Int) (n : Nat) : ∀ (is : List Nat), (∀ i ∈ is, aget a' i = aget a i) →
    leftsizeOf a' n is = leftsizeOf a n is
  | [], _ => rfl
  | i :: is, h => by
    simp only [leftsizeOf, h i List.mem_cons_self,
      leftsize_congr a a' n is (fun j hj => h j (List.mem_cons_of_mem _ hj))]

theorem leftsize_change (a a' : Array Int) (n src : Nat) : ∀ (is : List Nat), is.Nodup →
    (∀ i ∈ is, i ≠ src → aget a' i = aget a i) →
    leftsizeOf a' n is = leftsizeOf a n is +
      (if src ∈ is then (aget a' src).tdiv (n + 1) - (aget a src).tdiv (n + 1) else 0)
  | [], _, _ => by simp [leftsizeOf]
  | i :: is, hnd, h => by
    have hnd' := List.nodup_cons.mp hnd
    have ih := leftsize_change a a' n src is hnd'.2 (fun j hj hne => h j (List.mem_cons_of_mem _ hj) hne)
    by_cases his : i = src
    · subst his
      have hni : i ∉ is := hnd'.1
      simp only [leftsizeOf, List.mem_cons, true_or, if_true]
      rw [ih, if_neg hni]; omega
    · have hai := h i List.mem_cons_self his
      simp only [leftsizeOf, hai, List.mem_cons]
      rw [ih]
      have : (src = i ∨ src ∈ is) ↔ src ∈ is := by
        constructor
        · intro h'; rcases h' with h' | h'
          · exact (his h'.symm).elim
          · exact h'
        · exact Or.inr
      simp only [this]; omega

theorem tdiv_of_dvd {d x : Int} (hd : 0 < d) (h : d ∣ x) (y : Int) (hy : y = x + d) : y.tdiv d = x.tdiv d + 1 := by
  obtain ⟨k, rfl⟩ := h
  subst hy
  have : d * k + d = d * (k + 1) := by rw [Int.mul_add, Int.mul_one]
  rw [this, Int.mul_tdiv_cancel_left _ (by omega), Int.mul_tdiv_cancel_left _ (by omega)]

theorem leftsize_nonneg (a : Array Int) (n : Nat) : ∀ (is : List Nat), (∀ i ∈ is, 0 ≤ aget a i) → 0 ≤ leftsizeOf a n is
  | [], _ => by simp [leftsizeOf]
  | i :: is, h => by
    have h1 := Int.tdiv_nonneg (h i List.mem_cons_self) (by omega : (0 : Int) ≤ (n : Int) + 1)
    have h2 := leftsize_nonneg a n is (fun j hj => h j (List.mem_cons_of_mem _ hj))
    simp only [leftsizeOf]
    omega

/-- if the left parts hold at least one sample, some sequence has a left edge -/
theorem exists_pos_of_leftsize_pos (a : Array Int) (n : Nat) : ∀ (is : List Nat), (∀ i ∈ is, 0 ≤ aget a i) →
    0 < leftsizeOf a n is → ∃ i ∈ is, 0 < aget a i
  | [], _, h => by simp [leftsizeOf] at h
  | i :: is, h0, h => by
    by_cases hi : 0 < aget a i
    · exact ⟨i, List.mem_cons_self, hi⟩
    · have hz : aget a i = 0 := by have := h0 i List.mem_cons_self; omega
      simp only [leftsizeOf, hz, Int.zero_tdiv, Int.zero_add] at h
      obtain ⟨j, hj, hp⟩ := exists_pos_of_leftsize_pos a n is (fun j hj => h0 j (List.mem_cons_of_mem _ hj)) h
      exact ⟨j, List.mem_cons_of_mem _ hj, hp⟩

/-! ### priority queues: lists of samples with distinct sequence numbers -/

theorem eq_of_snd_eq : ∀ {l : List Sample}, (l.map (·.2)).Nodup → ∀ {p q : Sample}, p ∈ l → q ∈ l → p.2 = q.2 → p = q
  | [], _, _, _, hp, _, _ => by cases hp
  | x :: l, hnd, p, q, hp, hq, he => by
    have hnd' : x.2 ∉ l.map (·.2) ∧ (l.map (·.2)).Nodup := by
      rw [List.map_cons] at hnd; exact List.nodup_cons.mp hnd
    rcases List.mem_cons.mp hp with hp' | hp' <;> rcases List.mem_cons.mp hq with hq' | hq'
    · rw [hp', hq']
    · rw [hp'] at he; exact (hnd'.1 (List.mem_map.mpr ⟨q, hq', he.symm⟩)).elim
    · rw [hq'] at he; exact (hnd'.1 (List.mem_map.mpr ⟨p, hp', he⟩)).elim
    · exact eq_of_snd_eq hnd'.2 hp' hq' he

theorem lcomp_trans {lt : Int → Int → Bool} (hlt : StrictWeak lt) {p q r : Sample}
    (h1 : lcomp lt p q = true) (h2 : lcomp lt q r = true) : lcomp lt p r = true :=
  (lcomp_iff_before' lt _ _ _ _).mpr
    (Before.trans hlt ((lcomp_iff_before' lt _ _ _ _).mp h1) ((lcomp_iff_before' lt _ _ _ _).mp h2))

theorem lcomp_total (lt : Int → Int → Bool) {p q : Sample} (h : p.2 ≠ q.2) :
    lcomp lt p q = true ∨ lcomp lt q p = true := by
  rcases Before.total lt p.1 q.1 h with h1 | h1
  · exact Or.inl ((lcomp_iff_before' lt _ _ _ _).mpr h1)
  · exact Or.inr ((lcomp_iff_before' lt _ _ _ _).mpr h1)

theorem foldl_min_spec {lt : Int → Int → Bool} (hlt : StrictWeak lt) :
    ∀ (xs : List Sample) (m : Sample) (seen : List Sample), ((seen ++ xs).map (·.2)).Nodup → m ∈ seen →
      (∀ p ∈ seen, p.2 ≠ m.2 → lcomp lt m p = true) →
      xs.foldl (fun m y => if lcomp lt y m then y else m) m ∈ seen ++ xs ∧
      ∀ p ∈ seen ++ xs, p.2 ≠ (xs.foldl (fun m y => if lcomp lt y m then y else m) m).2 →
        lcomp lt (xs.foldl (fun m y => if lcomp lt y m then y else m) m) p = true
  | [], m, seen, _, hm, h => by
    simp only [List.foldl_nil, List.append_nil]
    exact ⟨hm, h⟩
  | y :: xs, m, seen, hnd, hm, h => by
    have hassoc : seen ++ y :: xs = (seen ++ [y]) ++ xs := by simp
    have hnd1 : ((seen ++ [y]).map (·.2)).Nodup := by
      rw [hassoc, List.map_append] at hnd
      exact (List.nodup_append.mp hnd).1
    simp only [List.foldl_cons]
    rw [hassoc] at hnd ⊢
    by_cases hym : lcomp lt y m = true
    · rw [if_pos hym]
      refine foldl_min_spec hlt xs y (seen ++ [y]) hnd (by simp) ?_
      intro p hp hne
      rcases List.mem_append.mp hp with hp | hp
      · by_cases hpm : p.2 = m.2
        · have := eq_of_snd_eq hnd1 (List.mem_append_left _ hp) (List.mem_append_left _ hm) hpm
          rw [this]; exact hym
        · exact lcomp_trans hlt hym (h p hp hpm)
      · simp at hp; subst hp; exact (hne rfl).elim
    · rw [if_neg hym]
      refine foldl_min_spec hlt xs m (seen ++ [y]) hnd (List.mem_append_left _ hm) ?_
      intro p hp hne
      rcases List.mem_append.mp hp with hp | hp
      · exact h p hp hne
      · simp at hp; subst hp
        rcases lcomp_total lt hne with h1 | h1
        · exact (hym h1).elim
        · exact h1

theorem foldl_max_spec {lt : Int → Int → Bool} (hlt : StrictWeak lt) :
    ∀ (xs : List Sample) (m : Sample) (seen : List Sample), ((seen ++ xs).map (·.2)).Nodup → m ∈ seen →
      (∀ p ∈ seen, p.2 ≠ m.2 → lcomp lt p m = true) →
      xs.foldl (fun m y => if lcomp lt m y then y else m) m ∈ seen ++ xs ∧
      ∀ p ∈ seen ++ xs, p.2 ≠ (xs.foldl (fun m y => if lcomp lt m y then y else m) m).2 →
        lcomp lt p (xs.foldl (fun m y => if lcomp lt m y then y else m) m) = true
  | [], m, seen, _, hm, h => by
    simp only [List.foldl_nil, List.append_nil]
    exact ⟨hm, h⟩
  | y :: xs, m, seen, hnd, hm, h => by
    have hassoc : seen ++ y :: xs = (seen ++ [y]) ++ xs := by simp
    have hnd1 : ((seen ++ [y]).map (·.2)).Nodup := by
      rw [hassoc, List.map_append] at hnd
      exact (List.nodup_append.mp hnd).1
    simp only [List.foldl_cons]
    rw [hassoc] at hnd ⊢
    by_cases hmy : lcomp lt m y = true
    · rw [if_pos hmy]
      refine foldl_max_spec hlt xs y (seen ++ [y]) hnd (by simp) ?_
      intro p hp hne
      rcases List.mem_append.mp hp with hp | hp
      · by_cases hpm : p.2 = m.2
        · have := eq_of_snd_eq hnd1 (List.mem_append_left _ hp) (List.mem_append_left _ hm) hpm
          rw [this]; exact hmy
        · exact lcomp_trans hlt (h p hp hpm) hmy
      · simp at hp; subst hp; exact (hne rfl).elim
    · rw [if_neg hmy]
      refine foldl_max_spec hlt xs m (seen ++ [y]) hnd (List.mem_append_left _ hm) ?_
      intro p hp hne
      rcases List.mem_append.mp hp with hp | hp
      · exact h p hp hne
      · simp at hp; subst hp
        rcases lcomp_total lt hne with h1 | h1
        · exact h1
        · exact (hmy h1).elim

/-- `pq.top()` of the min-queue: a member that is before every member of another sequence -/
theorem pickMin_spec {lt : Int → Int → Bool} (hlt : StrictWeak lt) {pq : List Sample} (hnd : (pq.map (·.2)).Nodup) :
    (pq = [] ∧ pickMin lt pq = none) ∨
    ∃ m, pickMin lt pq = some m ∧ m ∈ pq ∧ ∀ p ∈ pq, p.2 ≠ m.2 → lcomp lt m p = true := by
  cases pq with
  | nil => exact Or.inl ⟨rfl, rfl⟩
  | cons x xs =>
    right
    have := foldl_min_spec hlt xs x [x] (by simpa using hnd) (by simp) (by intro p hp hne; simp at hp; subst hp; exact (hne rfl).elim)
    exact ⟨_, rfl, by simpa using this.1, fun p hp hne => this.2 p (by simpa using hp) hne⟩

theorem pickMax_spec {lt : Int → Int → Bool} (hlt : StrictWeak lt) {pq : List Sample} (hnd : (pq.map (·.2)).Nodup) :
    (pq = [] ∧ pickMax lt pq = none) ∨
    ∃ m, pickMax lt pq = some m ∧ m ∈ pq ∧ ∀ p ∈ pq, p.2 ≠ m.2 → lcomp lt p m = true := by
  cases pq with
  | nil => exact Or.inl ⟨rfl, rfl⟩
  | cons x xs =>
    right
    have := foldl_max_spec hlt xs x [x] (by simpa using hnd) (by simp) (by intro p hp hne; simp at hp; subst hp; exact (hne rfl).elim)
    exact ⟨_, rfl, by simpa using this.1, fun p hp hne => this.2 p (by simpa using hp) hne⟩

end TlxVerif.C08
