/-
C03 — the in-place cycle-leader permutation of RadixStep_CI2 / RadixStep_CI3
(radix_sort.hpp:573-604, 743-797), transliterated on arrays, delivers the buckets (`PermuteOk`).
-/
import TlxVerif.Proofs.C03Adapters
namespace TlxVerif.C03

variable {α : Type}

/-! ### counting -/

/-- if the positions `[a, b)` of a list all satisfy `P` and one more position outside does, the
count is at least `b - a + 1` -/
theorem countP_segment_plus {β : Type} (P : β → Bool) (L : List β) (a b q : Nat) (hab : a ≤ b) (hb : b ≤ L.length)
    (hseg : ∀ p, a ≤ p → p < b → ∃ x, L[p]? = some x ∧ P x = true)
    (hq : q < a ∨ b ≤ q) (x : β) (hx : L[q]? = some x) (hPx : P x = true) :
    b - a + 1 ≤ L.countP P := by
  have hsplit := three_split L a (b - a)
  have e : a + (b - a) = b := by omega
  rw [e] at hsplit
  have hmid : ((L.drop a).take (b - a)).countP P = b - a := by
    have hlen : ((L.drop a).take (b - a)).length = b - a := by
      rw [List.length_take, List.length_drop]; omega
    generalize hM : (L.drop a).take (b - a) = M at hlen
    rw [← hlen, List.countP_eq_length]
    intro y hy
    rw [← hM] at hy
    rw [List.mem_iff_getElem?] at hy
    obtain ⟨p, hp⟩ := hy
    rw [List.getElem?_take] at hp
    split at hp
    · rename_i hpb
      rw [List.getElem?_drop] at hp
      obtain ⟨x', hx', hP'⟩ := hseg (a + p) (by omega) (by omega)
      rw [hx'] at hp
      simp at hp
      rw [← hp]; exact hP'
    · simp at hp
  have hcount : L.countP P = (L.take a).countP P + (b - a) + (L.drop b).countP P := by
    conv => lhs; rw [hsplit]
    rw [List.countP_append, List.countP_append, hmid]
  rcases hq with hq | hq
  · have : 0 < (L.take a).countP P := by
      rw [List.countP_pos_iff]
      refine ⟨x, ?_, hPx⟩
      rw [List.mem_iff_getElem?]
      exact ⟨q, by rw [List.getElem?_take]; simp [hq, hx]⟩
    omega
  · have : 0 < (L.drop b).countP P := by
      rw [List.countP_pos_iff]
      refine ⟨x, ?_, hPx⟩
      rw [List.mem_iff_getElem?]
      exact ⟨q - b, by rw [List.getElem?_drop]; rw [show b + (q - b) = q by omega]; exact hx⟩
    omega

/-! ### static facts about one step -/

/-- `sizes` are the key counts of the `(element, cached key)` pairs `orig` -/
structure Static (sizes : List Nat) (orig : List (α × Nat)) : Prop where
  hcnt : ∀ c, orig.countP (fun p => p.2 == c) = sizes.getD c 0
  hkeys : ∀ x ∈ orig, x.2 < sizes.length
  hsum : sizes.sum = orig.length

/-- the first non-empty bucket at or behind `c0` starts where `c0` starts -/
theorem first_nonempty (sizes : List Nat) (c0 : Nat) (h : pfx sizes c0 < sizes.sum) :
    ∃ cs, c0 ≤ cs ∧ cs < sizes.length ∧ pfx sizes cs = pfx sizes c0 ∧ sizes.getD cs 0 ≠ 0 := by
  have hc0 : c0 < sizes.length := by
    apply Classical.byContradiction
    intro hn
    rw [pfx_all sizes c0 (by omega)] at h
    omega
  -- induction on the distance to the end
  generalize hk : sizes.length - c0 = k
  induction k generalizing c0 with
  | zero => omega
  | succ k ih =>
    by_cases hz : sizes.getD c0 0 = 0
    · have h1 : pfx sizes (c0 + 1) = pfx sizes c0 := by rw [pfx_succ, hz]; rfl
      have hc1 : c0 + 1 < sizes.length := by
        apply Classical.byContradiction
        intro hn
        rw [← h1, pfx_all sizes (c0 + 1) (by omega)] at h
        omega
      obtain ⟨cs, a1, a2, a3, a4⟩ := ih (c0 + 1) (by rw [h1]; exact h) hc1 (by omega)
      exact ⟨cs, by omega, a2, by rw [a3, h1], a4⟩
    · exact ⟨c0, Nat.le_refl _, hc0, rfl, hz⟩

/-- swapping the contents of two positions of a list is a permutation -/
theorem set_set_perm {β : Type} (l : List β) (i j : Nat) (a y : β) (hij : i ≠ j) (hi : i < l.length)
    (hj : l[j]? = some y) :
    ((l.set j a).set i y).Perm (l.set i a) := by
  have hjl : j < l.length := by
    apply Classical.byContradiction
    intro hn
    rw [List.getElem?_eq_none (by omega)] at hj
    simp at hj
  -- view `l.set i a` as an array and swap i, j
  let A : Array β := (l.set i a).toArray
  have hiA : i < A.size := by simp [A]; exact hi
  have hjA : j < A.size := by simp [A]; exact hjl
  have hsw := Array.swap_perm (xs := A) hiA hjA
  rw [Array.perm_iff_toList_perm, Array.toList_swap] at hsw
  have e1 : A[j] = y := by
    have h1 : A[j]? = some y := by
      simp only [A, List.getElem?_toArray, List.getElem?_set, hij, if_false]
      exact hj
    rw [Array.getElem?_eq_getElem hjA] at h1
    exact Option.some.inj h1
  have e2 : A[i] = a := by
    simp [A]
  rw [e1, e2] at hsw
  have e3 : ((l.set i a).set i y).set j a = (l.set j a).set i y := by
    rw [List.set_set, List.set_comm _ _ (by omega)]
  simp only [A] at hsw
  rw [e3] at hsw
  exact hsw

/-! ### the potential that bounds the inner loop -/

def phi (sizes : List Nat) : List Nat → Nat → Nat
  | [], _ => 0
  | b :: rest, k => (b - pfx sizes k) + phi sizes rest (k + 1)

theorem phi_le (sizes : List Nat) (bs : List Nat) (k : Nat)
    (h : ∀ c, c < bs.length → bs.getD c 0 ≤ pfx sizes (k + c + 1)) :
    phi sizes bs k + pfx sizes k ≤ pfx sizes (k + bs.length) := by
  induction bs generalizing k with
  | nil => simp [phi]
  | cons b rest ih =>
    simp only [phi, List.length_cons]
    have h0 := h 0 (by simp)
    simp only [List.getD_cons_zero, Nat.add_zero] at h0
    have := ih (k + 1) (by
      intro c hc
      have := h (c + 1) (by simp; omega)
      simp only [List.getD_cons_succ] at this
      have e : k + 1 + c + 1 = k + (c + 1) + 1 := by omega
      rw [e]; exact this)
    have hm := pfx_mono sizes k (k + 1) (by omega)
    have e : k + 1 + rest.length = k + (rest.length + 1) := by omega
    rw [e] at this
    omega

theorem phi_set (sizes : List Nat) (bs : List Nat) (k c v : Nat) (hc : c < bs.length)
    (hv : pfx sizes (k + c) ≤ v) (hlt : v < bs.getD c 0) :
    phi sizes (bs.set c v) k + (bs.getD c 0 - v) = phi sizes bs k := by
  induction bs generalizing k c with
  | nil => simp at hc
  | cons b rest ih =>
    cases c with
    | zero =>
      simp only [List.set_cons_zero, phi, List.getD_cons_zero, Nat.add_zero] at hv hlt ⊢
      omega
    | succ c =>
      simp only [List.set_cons_succ, phi, List.getD_cons_succ] at hlt ⊢
      have := ih (k + 1) c (by simpa using hc) (by
        have e : k + 1 + c = k + (c + 1) := by omega
        rw [e]; exact hv) hlt
      omega


/-! ### counting arguments -/

theorem keys_not_passed {sizes : List Nat} {orig : List (α × Nat)} (st : Static sizes orig)
    (L : List (α × Nat)) (hp : L.Perm orig) (c0 : Nat)
    (hpassed : ∀ c, c < c0 → ∀ p, pfx sizes c ≤ p → p < pfx sizes (c + 1) → ∃ x, L[p]? = some x ∧ x.2 = c)
    (q : Nat) (x : α × Nat) (hq : L[q]? = some x) (hqi : pfx sizes c0 ≤ q) : c0 ≤ x.2 := by
  apply Classical.byContradiction
  intro hn
  have hc : x.2 < c0 := by omega
  have hlen : L.length = orig.length := hp.length_eq
  have := countP_segment_plus (fun p : α × Nat => p.2 == x.2) L (pfx sizes x.2) (pfx sizes (x.2 + 1)) q
    (pfx_mono _ _ _ (by omega)) (by rw [hlen, ← st.hsum]; exact pfx_le_sum _ _)
    (by
      intro p h1 h2
      obtain ⟨y, hy1, hy2⟩ := hpassed x.2 hc p h1 h2
      exact ⟨y, hy1, by simp [hy2]⟩)
    (Or.inr (Nat.le_trans (pfx_mono _ _ _ (by omega)) hqi)) x hq (by simp)
  rw [hp.countP_eq, st.hcnt, pfx_succ] at this
  omega

theorem free_slot {sizes : List Nat} {orig : List (α × Nat)} (st : Static sizes orig)
    (L : List (α × Nat)) (hp : L.Perm orig) (c b : Nat) (hb1 : b ≤ pfx sizes (c + 1))
    (htail : ∀ p, b ≤ p → p < pfx sizes (c + 1) → ∃ x, L[p]? = some x ∧ x.2 = c)
    (q : Nat) (x : α × Nat) (hq : L[q]? = some x) (hx : x.2 = c) (hout : q < b ∨ pfx sizes (c + 1) ≤ q) :
    pfx sizes c + 1 ≤ b := by
  have hlen : L.length = orig.length := hp.length_eq
  have := countP_segment_plus (fun p : α × Nat => p.2 == c) L b (pfx sizes (c + 1)) q hb1
    (by rw [hlen, ← st.hsum]; exact pfx_le_sum _ _)
    (by
      intro p h1 h2
      obtain ⟨y, hy1, hy2⟩ := htail p h1 h2
      exact ⟨y, hy1, by simp [hy2]⟩)
    hout x hq (by simp [hx])
  rw [hp.countP_eq, st.hcnt, pfx_succ] at this
  rw [pfx_succ] at hb1
  omega

/-! ### the loops -/

structure IInv (sizes : List Nat) (orig : List (α × Nat)) (i c0 cs : Nat)
    (arr : Array (α × Nat)) (bkt : Array Nat) (perm : α × Nat) : Prop where
  hperm : (arr.toList.set i perm).Perm orig
  bsize : bkt.size = sizes.length
  bub : ∀ c, c < sizes.length → bkt.getD c 0 ≤ pfx sizes (c + 1)
  passed : ∀ c, c < c0 → ∀ p, pfx sizes c ≤ p → p < pfx sizes (c + 1) → ∃ x, arr[p]? = some x ∧ x.2 = c
  tails : ∀ c, c0 ≤ c → c < sizes.length → pfx sizes c ≤ bkt.getD c 0 ∧
    ∀ p, bkt.getD c 0 ≤ p → p < pfx sizes (c + 1) → ∃ x, arr[p]? = some x ∧ x.2 = c
  free_i : i < bkt.getD cs 0

structure IPost (sizes : List Nat) (orig : List (α × Nat)) (i c0 cs : Nat)
    (arr : Array (α × Nat)) (bkt : Array Nat) (perm : α × Nat) : Prop where
  hperm : (arr.toList.set i perm).Perm orig
  bsize : bkt.size = sizes.length
  bub : ∀ c, c < sizes.length → bkt.getD c 0 ≤ pfx sizes (c + 1)
  passed : ∀ c, c < c0 → ∀ p, pfx sizes c ≤ p → p < pfx sizes (c + 1) → ∃ x, arr[p]? = some x ∧ x.2 = c
  key : perm.2 = cs
  tails : ∀ c, c0 ≤ c → c < sizes.length → c ≠ cs → pfx sizes c ≤ bkt.getD c 0 ∧
    ∀ p, bkt.getD c 0 ≤ p → p < pfx sizes (c + 1) → ∃ x, arr[p]? = some x ∧ x.2 = c
  tailcs : ∀ p, i < p → p < pfx sizes (cs + 1) → ∃ x, arr[p]? = some x ∧ x.2 = cs

theorem permInner_spec {sizes : List Nat} {orig : List (α × Nat)} (st : Static sizes orig)
    (i c0 cs : Nat) (hi : i = pfx sizes c0) (hcs : pfx sizes cs = i) (hcsne : sizes.getD cs 0 ≠ 0)
    (_hc0cs : c0 ≤ cs) (hiN : i < orig.length) :
    ∀ fuel arr bkt perm, IInv sizes orig i c0 cs arr bkt perm → phi sizes bkt.toList 0 < fuel →
      IPost sizes orig i c0 cs (permInner i fuel arr bkt perm).1 (permInner i fuel arr bkt perm).2.1
        (permInner i fuel arr bkt perm).2.2 := by
  intro fuel
  induction fuel with
  | zero => intro arr bkt perm _ h; omega
  | succ fuel ih =>
    intro arr bkt perm hI hphi
    have hlenL : (arr.toList.set i perm).length = orig.length := hI.hperm.length_eq
    have hsz : arr.size = orig.length := by simpa using hlenL
    -- the element in hand sits (logically) at position i
    have hLi : (arr.toList.set i perm)[i]? = some perm := by
      rw [List.getElem?_set]; simp [hsz, hiN]
    have hLp : ∀ p, p ≠ i → (arr.toList.set i perm)[p]? = arr[p]? := by
      intro p hp
      rw [List.getElem?_set]
      have : ¬ i = p := fun e => hp e.symm
      simp [this]
    have hpassedL : ∀ c, c < c0 → ∀ p, pfx sizes c ≤ p → p < pfx sizes (c + 1) →
        ∃ x, (arr.toList.set i perm)[p]? = some x ∧ x.2 = c := by
      intro c hc p h1 h2
      have hpi : p ≠ i := by
        have := pfx_mono sizes (c + 1) c0 (by omega)
        omega
      rw [hLp p hpi]
      exact hI.passed c hc p h1 h2
    -- its key is a bucket that is not passed and has a free slot
    have hkR : perm.2 < sizes.length := st.hkeys perm (hI.hperm.mem_iff.mp (List.mem_of_getElem? hLi))
    have hk0 : c0 ≤ perm.2 :=
      keys_not_passed st _ hI.hperm c0 hpassedL i perm hLi (by omega)
    obtain ⟨ht1, ht2⟩ := hI.tails perm.2 hk0 hkR
    have hub := hI.bub perm.2 hkR
    have hpc : i ≤ pfx sizes perm.2 := by rw [hi]; exact pfx_mono _ _ _ hk0
    have hout : i < bkt.getD perm.2 0 ∨ pfx sizes (perm.2 + 1) ≤ i := by
      by_cases e : perm.2 = cs
      · left; rw [e]; exact hI.free_i
      · by_cases hlt : perm.2 < cs
        · right
          have := pfx_mono sizes (perm.2 + 1) cs (by omega)
          omega
        · left
          have := pfx_mono sizes (cs + 1) perm.2 (by omega)
          rw [pfx_succ] at this
          omega
    have hfree : pfx sizes perm.2 + 1 ≤ bkt.getD perm.2 0 := by
      apply free_slot st _ hI.hperm perm.2 (bkt.getD perm.2 0) hub _ i perm hLi rfl hout
      intro p h1 h2
      have hpi : p ≠ i := by
        rcases hout with h | h <;> omega
      rw [hLp p hpi]
      exact ht2 p h1 h2
    simp only [permInner]
    generalize hj : bkt.getD perm.2 0 - 1 = j
    have hjlo : pfx sizes perm.2 ≤ j := by omega
    have hjhi : j < pfx sizes (perm.2 + 1) := by omega
    have hjn : j < arr.size := by
      have := pfx_le_sum sizes (perm.2 + 1)
      rw [st.hsum] at this
      omega
    have hkb : perm.2 < bkt.size := by rw [hI.bsize]; exact hkR
    split
    · -- continue: place `perm` at j, pick up what was there
      rename_i hji
      rw [Array.getElem?_eq_getElem hjn]
      simp only
      have hy : arr[j]? = some arr[j] := Array.getElem?_eq_getElem hjn
      apply ih
      · refine ⟨?_, ?_, ?_, ?_, ?_, ?_⟩
        · -- permutation
          rw [Array.toList_setIfInBounds]
          have := set_set_perm arr.toList i j perm arr[j] (by omega) (by simp; omega)
            (by rw [Array.getElem?_toList]; exact hy)
          exact this.trans hI.hperm
        · rw [Array.size_setIfInBounds]; exact hI.bsize
        · intro c hc
          rw [getD_setIfInBounds bkt perm.2 j c hkb]
          split
          · rename_i e; subst e; omega
          · exact hI.bub c hc
        · intro c hc p h1 h2
          rw [Array.getElem?_setIfInBounds]
          have hne : ¬ j = p := by
            have := pfx_mono sizes (c + 1) c0 (by omega)
            omega
          simp only [hne, if_false]
          exact hI.passed c hc p h1 h2
        · intro c hc hcR
          rw [getD_setIfInBounds bkt perm.2 j c hkb]
          by_cases e : perm.2 = c
          · subst e
            simp only [if_true]
            refine ⟨hjlo, ?_⟩
            intro p h1 h2
            rw [Array.getElem?_setIfInBounds]
            by_cases e2 : j = p
            · subst e2; simp [hjn]
            · simp only [e2, if_false]
              exact ht2 p (by omega) h2
          · simp only [e, if_false]
            obtain ⟨u1, u2⟩ := hI.tails c hc hcR
            refine ⟨u1, ?_⟩
            intro p h1 h2
            rw [Array.getElem?_setIfInBounds]
            have hne : ¬ j = p := by
              intro e2
              subst e2
              rcases Nat.lt_or_gt_of_ne e with hlt | hlt
              · have := pfx_mono sizes (perm.2 + 1) c (by omega)
                omega
              · have := pfx_mono sizes (c + 1) perm.2 (by omega)
                omega
            simp only [hne, if_false]
            exact u2 p h1 h2
        · rw [getD_setIfInBounds bkt perm.2 j cs hkb]
          split
          · exact hji
          · exact hI.free_i
      · -- the potential went down
        rw [Array.toList_setIfInBounds]
        have := phi_set sizes bkt.toList 0 perm.2 j (by simpa using hkb) (by simpa using hjlo)
          (by rw [toList_getD]; omega)
        rw [toList_getD] at this
        omega
    · -- exit: j = i, the bucket of `perm` starts at i
      rename_i hji
      have hji' : j = i := by omega
      have hpk : pfx sizes perm.2 = i := by omega
      have hne : sizes.getD perm.2 0 ≠ 0 := by
        rw [pfx_succ] at hjhi
        omega
      have hkcs : perm.2 = cs := pfx_inj sizes perm.2 cs hne hcsne (by rw [hpk, hcs])
      refine ⟨hI.hperm, by rw [Array.size_setIfInBounds]; exact hI.bsize, ?_, hI.passed, hkcs, ?_, ?_⟩
      · intro c hc
        rw [getD_setIfInBounds bkt perm.2 j c hkb]
        split
        · rename_i e; subst e; omega
        · exact hI.bub c hc
      · intro c hc hcR hne2
        rw [getD_setIfInBounds bkt perm.2 j c hkb]
        have e : ¬ perm.2 = c := by rw [hkcs]; exact fun e => hne2 e.symm
        simp only [e, if_false]
        exact hI.tails c hc hcR
      · intro p h1 h2
        rw [← hkcs] at h2 ⊢
        exact ht2 p (by omega) h2


/-- invariant of the outer loop at `i = pfx sizes c0` -/
structure OInv (sizes : List Nat) (orig : List (α × Nat)) (arr : Array (α × Nat)) (bkt : Array Nat)
    (c0 : Nat) : Prop where
  hperm : arr.toList.Perm orig
  bsize : bkt.size = sizes.length
  bub : ∀ c, c < sizes.length → bkt.getD c 0 ≤ pfx sizes (c + 1)
  passed : ∀ c, c < c0 → ∀ p, pfx sizes c ≤ p → p < pfx sizes (c + 1) → ∃ x, arr[p]? = some x ∧ x.2 = c
  tails : ∀ c, c0 ≤ c → c < sizes.length → pfx sizes c ≤ bkt.getD c 0 ∧
    ∀ p, bkt.getD c 0 ≤ p → p < pfx sizes (c + 1) → ∃ x, arr[p]? = some x ∧ x.2 = c

/-- every bucket range holds exactly its keys -/
def Done (sizes : List Nat) (orig : List (α × Nat)) (arr : Array (α × Nat)) : Prop :=
  arr.toList.Perm orig ∧
  ∀ c, c < sizes.length → ∀ p, pfx sizes c ≤ p → p < pfx sizes (c + 1) → ∃ x, arr[p]? = some x ∧ x.2 = c

/-- what `last_bkt_size` gives: beyond the start of the last non-empty bucket nothing is left to do -/
def LastInfo (sizes : List Nat) (limit : Nat) : Prop :=
  (∀ c, sizes.getD c 0 = 0) ∨
  ∃ cl, cl < sizes.length ∧ sizes.getD cl 0 ≠ 0 ∧ (∀ c, cl < c → sizes.getD c 0 = 0) ∧ limit = pfx sizes cl

theorem pfx_const_of_zero (sizes : List Nat) (a : Nat) (h : ∀ c, a ≤ c → sizes.getD c 0 = 0) (k : Nat) :
    pfx sizes (a + k) = pfx sizes a := by
  induction k with
  | zero => rfl
  | succ k ih =>
    have e : a + (k + 1) = (a + k) + 1 := by omega
    rw [e, pfx_succ, ih, h (a + k) (by omega)]
    rfl

theorem done_of_limit {sizes : List Nat} {orig : List (α × Nat)} (st : Static sizes orig)
    (limit : Nat) (linfo : LastInfo sizes limit) (arr : Array (α × Nat)) (bkt : Array Nat) (c0 : Nat)
    (hO : OInv sizes orig arr bkt c0) (hlim : limit ≤ pfx sizes c0) : Done sizes orig arr := by
  refine ⟨hO.hperm, ?_⟩
  intro c hcR p h1 h2
  by_cases hc : c < c0
  · exact hO.passed c hc p h1 h2
  · have hcne : sizes.getD c 0 ≠ 0 := by
      rw [pfx_succ] at h2; omega
    have hsz : arr.size = orig.length := by
      have := hO.hperm.length_eq; simpa using this
    have hpn : p < arr.size := by
      have := pfx_le_sum sizes (c + 1)
      rw [st.hsum] at this
      omega
    refine ⟨arr[p], Array.getElem?_eq_getElem hpn, ?_⟩
    rcases linfo with hall | ⟨cl, hclR, hclne, hclz, hcllim⟩
    · exact absurd (hall c) hcne
    · -- the only non-empty bucket that is not passed is the last one
      have uniq : ∀ k, c0 ≤ k → sizes.getD k 0 ≠ 0 → k = cl := by
        intro k hk0 hkne
        apply Classical.byContradiction
        intro hne
        rcases Nat.lt_or_gt_of_ne hne with hlt | hgt
        · have m1 := pfx_mono sizes (k + 1) cl (by omega)
          have m2 := pfx_mono sizes c0 k hk0
          rw [pfx_succ] at m1
          omega
        · exact hkne (hclz k hgt)
      have hccl : c = cl := uniq c (by omega) hcne
      have hx : arr.toList[p]? = some arr[p] := by
        rw [Array.getElem?_toList]; exact Array.getElem?_eq_getElem hpn
      have hk0 : c0 ≤ (arr[p]).2 :=
        keys_not_passed st arr.toList hO.hperm c0
          (by intro c' hc' p' a b; rw [Array.getElem?_toList]; exact hO.passed c' hc' p' a b)
          p arr[p] hx (Nat.le_trans (pfx_mono _ _ _ (by omega)) h1)
      have hkne : sizes.getD (arr[p]).2 0 ≠ 0 := by
        rw [← st.hcnt, ← hO.hperm.countP_eq]
        have : 0 < arr.toList.countP (fun q => q.2 == (arr[p]).2) := by
          rw [List.countP_pos_iff]
          exact ⟨arr[p], List.mem_of_getElem? hx, by simp⟩
        omega
      rw [uniq _ hk0 hkne, hccl]

theorem permOuter_spec {sizes : List Nat} {orig : List (α × Nat)} (st : Static sizes orig)
    (sizesA : Array Nat) (hsA : sizesA.toList = sizes)
    (limit : Nat) (linfo : LastInfo sizes limit) (hlimn : limit ≤ orig.length) :
    ∀ fuel i arr bkt c0, OInv sizes orig arr bkt c0 → i = pfx sizes c0 → orig.length - i < fuel →
      Done sizes orig (permOuter sizesA limit fuel i arr bkt) := by
  have hgA : ∀ c, sizesA.getD c 0 = sizes.getD c 0 := by
    intro c; rw [← hsA, toList_getD]
  intro fuel
  induction fuel with
  | zero => intro i arr bkt c0 _ _ h; omega
  | succ fuel ih =>
    intro i arr bkt c0 hO hi hf
    have hsz : arr.size = orig.length := by
      have := hO.hperm.length_eq; simpa using this
    simp only [permOuter]
    split
    · rename_i hil
      have hin : i < arr.size := by omega
      rw [Array.getElem?_eq_getElem hin]
      simp only
      -- the bucket that starts at i
      obtain ⟨cs, hc0cs, hcsR, hpcs, hcsne⟩ := first_nonempty sizes c0 (by rw [st.hsum, ← hi]; omega)
      rw [← hi] at hpcs
      have hgap : ∀ c, c0 ≤ c → c < cs → pfx sizes c = i ∧ pfx sizes (c + 1) = i := by
        intro c h1 h2
        have m1 := pfx_mono sizes c0 c h1
        have m2 := pfx_mono sizes c (c + 1) (by omega)
        have m3 := pfx_mono sizes (c + 1) cs (by omega)
        omega
      obtain ⟨tcs1, tcs2⟩ := hO.tails cs hc0cs hcsR
      -- common final step: from a post-state of the inner loop to the next outer invariant
      have finish : ∀ (arr' : Array (α × Nat)) (bkt' : Array Nat) (perm' : α × Nat),
          IPost sizes orig i c0 cs arr' bkt' perm' →
          Done sizes orig
            (if sizesA.getD perm'.2 0 = 0 then arr'.setIfInBounds i perm'
             else permOuter sizesA limit fuel (i + sizesA.getD perm'.2 0) (arr'.setIfInBounds i perm') bkt') := by
        intro arr' bkt' perm' hP
        have hsz' : arr'.size = orig.length := by
          have := hP.hperm.length_eq; simpa using this
        rw [hgA, hP.key]
        simp only [hcsne, if_false]
        apply ih _ _ _ (cs + 1)
        · refine ⟨?_, hP.bsize, hP.bub, ?_, ?_⟩
          · rw [Array.toList_setIfInBounds]; exact hP.hperm
          · intro c hc p h1 h2
            rw [Array.getElem?_setIfInBounds]
            by_cases e : i = p
            · subst e
              have hccs : c = cs := by
                apply Classical.byContradiction
                intro hne
                by_cases hlt : c < c0
                · have := pfx_mono sizes (c + 1) c0 (by omega)
                  omega
                · have := hgap c (by omega) (by omega)
                  omega
              have hil' : i < arr'.size := by omega
              refine ⟨perm', by simp [hil'], ?_⟩
              rw [hP.key, hccs]
            · simp only [e, if_false]
              by_cases hlt : c < c0
              · exact hP.passed c hlt p h1 h2
              · by_cases hccs : c = cs
                · subst hccs
                  exact hP.tailcs p (by omega) h2
                · have := hgap c (by omega) (by omega)
                  omega
          · intro c hc hcR
            obtain ⟨u1, u2⟩ := hP.tails c (by omega) hcR (by omega)
            refine ⟨u1, ?_⟩
            intro p h1 h2
            rw [Array.getElem?_setIfInBounds]
            have hne : ¬ i = p := by
              have := pfx_mono sizes (cs + 1) c (by omega)
              rw [pfx_succ] at this
              omega
            simp only [hne, if_false]
            exact u2 p h1 h2
        · rw [pfx_succ, hpcs]
        · omega
      by_cases hA : bkt.getD cs 0 ≤ i
      · -- the bucket at i is already complete
        have hbi : bkt.getD cs 0 = i := by omega
        obtain ⟨x, hx1, hx2⟩ := tcs2 i (by omega) (by rw [pfx_succ]; omega)
        rw [Array.getElem?_eq_getElem hin] at hx1
        have hxe : arr[i] = x := Option.some.inj hx1
        have hkey : (arr[i]).2 = cs := by rw [hxe]; exact hx2
        have hcsb : cs < bkt.size := by rw [hO.bsize]; exact hcsR
        have hinner : permInner i (arr.size + 1) arr bkt arr[i]
            = (arr, bkt.setIfInBounds cs (i - 1), arr[i]) := by
          simp only [permInner, hkey, hbi]
          have : ¬ (i - 1 > i) := by omega
          simp [this]
        rw [hinner]
        apply finish
        refine ⟨?_, by rw [Array.size_setIfInBounds]; exact hO.bsize, ?_, hO.passed, hkey, ?_, ?_⟩
        · have : arr.toList.set i arr[i] = arr.toList := by
            apply List.ext_getElem?
            intro p
            rw [List.getElem?_set]
            by_cases e : i = p
            · subst e; simp [hin]
            · simp [e]
          rw [this]; exact hO.hperm
        · intro c hc
          rw [getD_setIfInBounds bkt cs (i - 1) c hcsb]
          split
          · rename_i e
            have := pfx_mono sizes cs (cs + 1) (by omega)
            rw [← e]; omega
          · exact hO.bub c hc
        · intro c hc hcR hne
          rw [getD_setIfInBounds bkt cs (i - 1) c hcsb]
          have e : ¬ cs = c := fun e => hne e.symm
          simp only [e, if_false]
          exact hO.tails c hc hcR
        · intro p h1 h2
          exact tcs2 p (by omega) h2
      · -- position i is a free slot: run the cycle
        have hI : IInv sizes orig i c0 cs arr bkt arr[i] := by
          refine ⟨?_, hO.bsize, hO.bub, hO.passed, hO.tails, by omega⟩
          have : arr.toList.set i arr[i] = arr.toList := by
            apply List.ext_getElem?
            intro p
            rw [List.getElem?_set]
            by_cases e : i = p
            · subst e; simp [hin]
            · simp [e]
          rw [this]; exact hO.hperm
        have hphi : phi sizes bkt.toList 0 < arr.size + 1 := by
          have := phi_le sizes bkt.toList 0 (by
            intro c hc
            rw [toList_getD]
            have := hO.bub c (by rw [← hO.bsize]; simpa using hc)
            simpa using this)
          rw [pfx_zero] at this
          have h2 := pfx_le_sum sizes (0 + bkt.toList.length)
          rw [st.hsum] at h2
          omega
        have hP := permInner_spec st i c0 cs hi hpcs hcsne hc0cs (by omega) (arr.size + 1) arr bkt arr[i] hI hphi
        generalize permInner i (arr.size + 1) arr bkt arr[i] = r at hP
        obtain ⟨arr', bkt', perm'⟩ := r
        exact finish arr' bkt' perm' hP
    · rename_i hil
      exact done_of_limit st limit linfo arr bkt c0 hO (by omega)


/-! ### set-up of `permuteInPlace` -/

def pstep (st : List Nat × Nat × Nat) (s : Nat) : List Nat × Nat × Nat :=
  ((st.2.1 + s) :: st.1, st.2.1 + s, if s ≠ 0 then s else st.2.2)

def lastNZ (l : List Nat) (d : Nat) : Nat := l.foldl (fun a s => if s ≠ 0 then s else a) d

theorem pfold_spec (l rev : List Nat) (run last : Nat) :
    (l.foldl pstep (rev, run, last)).1.reverse
      = rev.reverse ++ (List.range l.length).map (fun j => run + (l.take (j + 1)).sum) ∧
    (l.foldl pstep (rev, run, last)).2.2 = lastNZ l last := by
  induction l generalizing rev run last with
  | nil => simp [lastNZ]
  | cons s rest ih =>
    obtain ⟨h1, h2⟩ := ih ((run + s) :: rev) (run + s) (if s ≠ 0 then s else last)
    have e0 : List.foldl pstep (rev, run, last) (s :: rest)
        = List.foldl pstep ((run + s) :: rev, run + s, if s ≠ 0 then s else last) rest := by
      simp [List.foldl_cons, pstep]
    have e1 : lastNZ (s :: rest) last = lastNZ rest (if s ≠ 0 then s else last) := by
      simp [lastNZ, List.foldl_cons]
    rw [e0, e1]
    refine ⟨?_, h2⟩
    rw [h1, List.length_cons, List.range_succ_eq_map]
    simp only [List.reverse_cons, List.append_assoc, List.map_cons, List.map_map, List.take_succ_cons,
      List.take_zero, List.sum_cons, List.sum_nil, Nat.add_zero, List.singleton_append]
    congr 2
    apply List.map_congr_left
    intro j _
    simp only [Function.comp, Nat.succ_eq_add_one]
    omega

theorem lastNZ_spec (l : List Nat) (d : Nat) :
    ((∀ c, l.getD c 0 = 0) ∧ lastNZ l d = d) ∨
    ∃ cl, cl < l.length ∧ l.getD cl 0 ≠ 0 ∧ (∀ c, cl < c → l.getD c 0 = 0) ∧ lastNZ l d = l.getD cl 0 := by
  induction l generalizing d with
  | nil => left; simp [lastNZ]
  | cons s rest ih =>
    simp only [lastNZ, List.foldl_cons]
    rcases ih (if s ≠ 0 then s else d) with ⟨hz, hl⟩ | ⟨cl, h1, h2, h3, h4⟩
    · simp only [lastNZ] at hl
      by_cases hs : s = 0
      · left
        refine ⟨?_, by rw [hl]; simp [hs]⟩
        intro c
        cases c with
        | zero => simp [hs]
        | succ c => simpa using hz c
      · right
        refine ⟨0, by simp, by simpa using hs, ?_, by rw [hl]; simp [hs]⟩
        intro c hc
        cases c with
        | zero => omega
        | succ c => simpa using hz c
    · right
      simp only [lastNZ] at h4
      refine ⟨cl + 1, by simp; omega, by simpa using h2, ?_, by rw [h4]; simp⟩
      intro c hc
      cases c with
      | zero => omega
      | succ c => simpa using h3 c (by omega)

/-- **the in-place permutation is correct** -/
theorem permuteInPlace_ok (R : Nat) (key : α → Nat) (ss : List α) (hR : 0 < R) (hkey : ∀ x ∈ ss, key x < R) :
    PermuteOk R key ss := by
  -- names for the pieces of the definition
  generalize horig : ss.map (fun x => (x, key x)) = orig
  generalize hsizesA : (orig.toArray.foldl (fun acc p => acc.modify p.2 (· + 1)) (Array.replicate R 0)) = sizesA
  generalize hsizes : sizesA.toList = sizes
  have hfold : orig.foldl (fun acc p => acc.modify p.2 (· + 1)) (Array.replicate R 0) = sizesA := by
    rw [← hsizesA]; simp
  have hk2 : ∀ p ∈ orig, p.2 < R := by
    intro p hp
    rw [← horig, List.mem_map] at hp
    obtain ⟨x, hx, e⟩ := hp
    rw [← e]; exact hkey x hx
  have hpair : ∀ p ∈ orig, p.2 = key p.1 := by
    intro p hp
    rw [← horig, List.mem_map] at hp
    obtain ⟨x, hx, e⟩ := hp
    rw [← e]
  have hsizeA : sizesA.size = R := by
    rw [← hfold]
    have := (count_pass (fun p : α × Nat => p.2) orig (Array.replicate R 0) 0 (by simpa using hR)).2
    simpa using this
  have hlenS : sizes.length = R := by rw [← hsizes]; simpa using hsizeA
  have st : Static sizes orig := by
    refine ⟨?_, ?_, ?_⟩
    · intro c
      rw [← hsizes, toList_getD]
      by_cases hc : c < R
      · rw [← hfold, (count_pass (fun p : α × Nat => p.2) orig (Array.replicate R 0) c (by simpa using hc)).1]
        simp [Array.getD_eq_getD_getElem?, hc]
      · have h0 : sizesA.getD c 0 = 0 := by
          simp [Array.getD_eq_getD_getElem?, Array.getElem?_eq_none (by omega : sizesA.size ≤ c)]
        rw [h0]
        apply Nat.eq_zero_of_not_pos
        intro hpos
        rw [List.countP_pos_iff] at hpos
        obtain ⟨p, hp, hpc⟩ := hpos
        have := hk2 p hp
        simp at hpc
        omega
    · intro x hx; rw [hlenS]; exact hk2 x hx
    · rw [← hsizes, ← hfold, count_pass_sum (fun p : α × Nat => p.2) orig _ (by simpa using hk2)]
      simp
  -- the prefix-sum pass
  obtain ⟨hb1, hb2⟩ := pfold_spec sizes [] 0 0
  have hpstep : (fun (st : List Nat × Nat × Nat) s => ((st.2.1 + s) :: st.1, st.2.1 + s, if s ≠ 0 then s else st.2.2)) = pstep := rfl
  unfold PermuteOk permuteInPlace
  simp only [horig, hsizesA, hsizes, hpstep]
  generalize hr : sizes.foldl pstep ([], 0, 0) = r at hb1 hb2
  obtain ⟨bktRev, run, last⟩ := r
  simp only at hb1 hb2 ⊢
  simp only [List.reverse_nil, List.nil_append, Nat.zero_add] at hb1
  -- initial invariant
  have hbget : ∀ c, c < R → (bktRev.reverse.toArray).getD c 0 = pfx sizes (c + 1) := by
    intro c hc
    rw [hb1]
    simp [Array.getD_eq_getD_getElem?, hlenS, hc, pfx]
  have hO0 : OInv sizes orig orig.toArray bktRev.reverse.toArray 0 := by
    refine ⟨by simp, ?_, ?_, ?_, ?_⟩
    · rw [hb1]; simp
    · intro c hc
      rw [hbget c (by omega)]
      exact Nat.le_refl _
    · intro c hc; omega
    · intro c _ hc
      rw [hbget c (by omega)]
      exact ⟨pfx_mono _ _ _ (by omega), fun p h1 h2 => by omega⟩
  have hlast : LastInfo sizes (orig.length - last) := by
    rw [hb2]
    rcases lastNZ_spec sizes 0 with ⟨hz, _⟩ | ⟨cl, h1, h2, h3, h4⟩
    · left; exact hz
    · right
      refine ⟨cl, h1, h2, h3, ?_⟩
      rw [h4]
      have hk := pfx_const_of_zero sizes (cl + 1) (fun c hc => h3 c (by omega)) sizes.length
      rw [pfx_all sizes _ (by omega), st.hsum, pfx_succ] at hk
      omega
  have hdone := permOuter_spec st sizesA hsizes (orig.length - last) hlast (by omega)
    (orig.length + 1) 0 orig.toArray bktRev.reverse.toArray 0 hO0 (by rw [pfx_zero]) (by omega)
  have hszo : orig.toArray.size = orig.length := by simp
  rw [hszo]
  generalize permOuter sizesA (orig.length - last) (orig.length + 1) 0 orig.toArray bktRev.reverse.toArray = out
    at hdone
  obtain ⟨hd1, hd2⟩ := hdone
  have hmapfst : orig.map Prod.fst = ss := by
    rw [← horig]; simp [List.map_map, Function.comp_def]
  refine ⟨?_, hlenS, ?_, ?_⟩
  · rw [← hmapfst]; exact hd1.map _
  · rw [st.hsum, ← horig]; simp
  · intro j b hb y hy
    by_cases hj : j < sizes.length
    · rw [splitBy_getElem? sizes _ j hj] at hb
      have hb' := Option.some.inj hb
      rw [← hb'] at hy
      rw [List.mem_iff_getElem?] at hy
      obtain ⟨t, ht⟩ := hy
      rw [List.getElem?_take] at ht
      split at ht
      · rename_i htl
        rw [List.getElem?_drop, List.getElem?_map, Array.getElem?_toList] at ht
        obtain ⟨x, hx1, hx2⟩ := hd2 j hj (pfx sizes j + t) (by omega) (by rw [pfx_succ]; omega)
        rw [hx1] at ht
        simp only [Option.map_some, Option.some.injEq] at ht
        have hxo : x ∈ orig := hd1.mem_iff.mp (by
          rw [List.mem_iff_getElem?]
          exact ⟨pfx sizes j + t, by rw [Array.getElem?_toList]; exact hx1⟩)
        rw [← ht, ← hpair x hxo, hx2]
      · simp at ht
    · rw [List.getElem?_eq_none (by rw [splitBy_length]; omega)] at hb
      simp at hb

theorem permuteAllOk : PermuteAllOk α := fun R key ss hR hk => permuteInPlace_ok R key ss hR hk

end TlxVerif.C03
