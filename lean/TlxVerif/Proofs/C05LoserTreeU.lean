/-
L2 for the unguarded loser tree merge `multiway_merge_loser_tree_unguarded`, relative to an
invariant `Pinv L n` on the remaining sequences `L` and the number `n` of elements still to be
merged, maintained by minimal-head emissions, which guarantees that no sequence is empty while
`n ≥ 1` and that some head is below the tree's sentinel (so that, by C09, the winner is a real
player).  Instances: the unguarded phase of `multiway_merge_loser_tree_combined` and
`multiway_merge_loser_tree_sentinel`.
-/
import TlxVerif.Proofs.C05LoserTree
namespace TlxVerif.C05
open TlxVerif.C09 (SWO Tree Variant TInv rd invalid ceilLog2)

variable {α : Type}

/-- what `winner_unguarded` means for the sequences themselves -/
theorem unguarded_isMinS {lt : α → α → Bool} (hlt : SWO lt) {sentinel dflt : α} {t : Tree α} {L : List (List α)}
    (inv : TInv lt sentinel dflt t (L.map List.head?)) (hg : t.v.guarded = false)
    (hne : ∀ l ∈ L, l ≠ [])
    (hsen : L.length = 2 ^ ceilLog2 L.length ∨
      (t.v.stable = true ∧ ∃ (j : Nat) (y : α) (q : List α), L[j]? = some (y :: q) ∧ lt sentinel y = false) ∨
      (t.v.stable = false ∧ ∃ (j : Nat) (y : α) (q : List α), L[j]? = some (y :: q) ∧ lt y sentinel = true)) :
    ∃ w x q, t.minSource = some w ∧ L[w]? = some (x :: q) ∧ IsMinS t.v.stable lt L w x q := by
  have hall : ∀ (j : Nat), j < (L.map List.head?).length → ∃ kj : α, (L.map List.head?)[j]? = some (some kj) := by
    intro j hj
    simp only [List.length_map] at hj
    have := hne L[j] (List.getElem_mem hj)
    cases hq : L[j] with
    | nil => exact absurd hq this
    | cons a b => exact ⟨a, by rw [List.getElem?_map, List.getElem?_eq_getElem hj, hq]; rfl⟩
  have hsen' : (L.map List.head?).length = 2 ^ ceilLog2 (L.map List.head?).length ∨
      (t.v.stable = true ∧ ∃ (j : Nat) (kj : α), (L.map List.head?)[j]? = some (some kj) ∧ lt sentinel kj = false) ∨
      (t.v.stable = false ∧ ∃ (j : Nat) (kj : α), (L.map List.head?)[j]? = some (some kj) ∧ lt kj sentinel = true) := by
    rcases hsen with h | ⟨hs, j, y, q, hj, hy⟩ | ⟨hs, j, y, q, hj, hy⟩
    · left; simpa using h
    · right; left; exact ⟨hs, j, y, by rw [List.getElem?_map, hj]; rfl, hy⟩
    · right; right; exact ⟨hs, j, y, by rw [List.getElem?_map, hj]; rfl, hy⟩
  obtain ⟨w, kw, W, hm, _, _, hw, hmin⟩ := C09.winner_unguarded hlt inv hg hall hsen'
  obtain ⟨q, hq⟩ := C09.head_lookup hw
  refine ⟨w, kw, q, hm, hq, ⟨hq, fun j y q' hj => ?_⟩, fun hst j y q' hji hj => ?_⟩
  · exact (hmin j y (by rw [List.getElem?_map, hj]; rfl)).1
  · have := (hmin j y (by rw [List.getElem?_map, hj]; rfl)).2 hst
    cases c : lt kw y with
    | true => rfl
    | false => exact absurd (this c) (by omega)

/-- the hypotheses on the invariant -/
structure UInv (stable : Bool) (lt : α → α → Bool) (sentinel : α) (Pinv : List (List α) → Nat → Prop) : Prop where
  nonempty : ∀ L n, Pinv L (n + 1) → ∀ l ∈ L, l ≠ []
  step : ∀ L n i x q, Pinv L (n + 1) → IsMinS stable lt L i x q → Pinv (L.set i q) n
  below : ∀ L n, Pinv L (n + 1) → L.length = 2 ^ ceilLog2 L.length ∨
      (stable = true ∧ ∃ (j : Nat) (y : α) (q : List α), L[j]? = some (y :: q) ∧ lt sentinel y = false) ∨
      (stable = false ∧ ∃ (j : Nat) (y : α) (q : List α), L[j]? = some (y :: q) ∧ lt y sentinel = true)

theorem ltuLoop_run {lt : α → α → Bool} (hlt : SWO lt) (sentinel dflt : α) (stable : Bool)
    {Pinv : List (List α) → Nat → Prop} (hU : UInv stable lt sentinel Pinv) :
    ∀ (n : Nat) (t : Tree α) (source : Nat) (seqs : List (Seq α)) (prev : List (List α)) (x0 : α) (q0 : List α),
      t.v.guarded = false → t.v.stable = stable →
      TInv lt sentinel dflt t (prev.map List.head?) →
      t.minSource = some source → prev[source]? = some (x0 :: q0) → xsOf seqs = prev.set source q0 →
      prev.length ≤ 2 ^ 31 → Pinv (xsOf seqs) n →
      ∃ fin out, ltuLoop lt dflt n t source seqs = some (fin, out) ∧
        Run stable lt (xsOf seqs) n out (xsOf fin) ∧ guardsOf fin = guardsOf seqs ∧ Pinv (xsOf fin) 0
  | 0, t, source, seqs, prev, x0, q0, _, _, _, _, _, _, _, hP =>
    ⟨seqs, [], rfl, Run.done stable lt _, rfl, hP⟩
  | n + 1, t, source, seqs, prev, x0, q0, hg, hst, inv, hms, hprev, hxs, hk, hP => by
    have hsl : source < prev.length := by
      by_cases c : source < prev.length
      · exact c
      · rw [List.getElem?_eq_none (by omega)] at hprev; cases hprev
    have hq0 : (xsOf seqs)[source]? = some q0 := by rw [hxs]; simp [hsl]
    have hq0ne : q0 ≠ [] := hU.nonempty _ _ hP q0 (List.mem_of_getElem? hq0)
    obtain ⟨nx, q1, hq01⟩ : ∃ nx q1, q0 = nx :: q1 := by
      cases q0 with
      | nil => exact absurd rfl hq0ne
      | cons a b => exact ⟨a, b, rfl⟩
    simp only [xsOf, List.getElem?_map] at hq0
    cases hs : seqs[source]? with
    | none => rw [hs] at hq0; cases hq0
    | some s =>
      rw [hs] at hq0
      simp only [Option.map_some, Option.some.injEq] at hq0
      obtain ⟨_, hinvI⟩ := inv.2
      obtain ⟨W, hW, _⟩ := hinvI.valid
      have hsrc := C09.minSource_real hW hms hsl (by unfold invalid; omega)
      obtain ⟨t', hd, hv', inv'⟩ := C09.replace_TInv hlt inv hW (by rw [hsrc]; simpa using hsl) (some nx)
      have hhead : q0.head? = some nx := by rw [hq01]; rfl
      rw [hsrc, ← hhead, ← List.map_set, ← hxs] at inv'
      have hlenL : (xsOf seqs).length = prev.length := by rw [hxs, List.length_set]
      obtain ⟨w, x, q, hmw, hLw, hmin⟩ := unguarded_isMinS hlt inv' (by rw [hv']; exact hg)
        (hU.nonempty _ _ hP) (by rw [hv', hst]; exact hU.below _ _ hP)
      obtain ⟨seqs', htk, hxs', hgd'⟩ := takeFrom_spec hLw
      rw [hv', hst] at hmin
      have hP' := hU.step _ _ _ _ _ hP hmin
      rw [← hxs'] at hP'
      obtain ⟨fin, out, hrec, hrun, hgd, hPf⟩ := ltuLoop_run hlt sentinel dflt stable hU n t' w seqs' (xsOf seqs) x q
        (by rw [hv']; exact hg) (by rw [hv']; exact hst) inv' hmw hLw hxs' (by omega) hP'
      refine ⟨fin, x :: out, ?_, ?_, by rw [hgd, hgd'], hPf⟩
      · have hsx : s.xs.head? = some nx := by rw [hq0, hq01]; rfl
        simp only [ltuLoop, hs, hsx, hd, hmw, htk, hrec, Option.bind_eq_bind, Option.bind_some]
        rfl
      · rw [hxs'] at hrun
        exact Run.emit hmin hrun

/-- **multiway_merge_loser_tree_unguarded** under an invariant `Pinv` (see `UInv`) that holds for
the input with `min(total, size)` elements to go, where the sentinel handed to the tree is the
last element of the first sequence -/
theorem multiwayMergeLoserTreeUnguarded_run {lt : α → α → Bool} (hlt : SWO lt) (copy stable : Bool) (dflt : α)
    (seqs : List (Seq α)) (size : Nat) (hk : seqs.length ≤ 2 ^ 31)
    (sentinel : α) (hs0 : ∃ s0, seqs[0]? = some s0 ∧ s0.xs.getLast? = some sentinel)
    {Pinv : List (List α) → Nat → Prop} (hU : UInv stable lt sentinel Pinv)
    (hne : ∀ l ∈ xsOf seqs, l ≠ [])
    (hP : Pinv (xsOf seqs) (min (totalSize seqs) size)) :
    ∃ fin out, multiwayMergeLoserTreeUnguarded copy stable lt dflt seqs size = some (fin, out) ∧
      Run stable lt (xsOf seqs) (min (totalSize seqs) size) out (xsOf fin) ∧ guardsOf fin = guardsOf seqs ∧
      Pinv (xsOf fin) 0 := by
  obtain ⟨s0, hs0, hlast⟩ := hs0
  have hk1 : 1 ≤ seqs.length := by
    by_cases c : 1 ≤ seqs.length
    · exact c
    · rw [List.getElem?_eq_none (by omega)] at hs0; cases hs0
  -- all heads exist
  have hheads : ∃ heads, seqs.mapM (fun s => s.xs.head?) = some heads ∧
      heads.map some = (xsOf seqs).map List.head? := by
    clear hs0 hP hk hk1
    induction seqs with
    | nil => exact ⟨[], rfl, rfl⟩
    | cons s rest ih =>
      obtain ⟨hd, h1, h2⟩ := ih (fun l hl => hne l (by simp [xsOf] at hl ⊢; exact Or.inr hl))
      have : s.xs ≠ [] := hne s.xs (by simp [xsOf])
      cases hx : s.xs with
      | nil => exact absurd hx this
      | cons a b =>
        refine ⟨a :: hd, by simp [List.mapM_cons, hx, h1], ?_⟩
        simp [xsOf, hx] at h2 ⊢
        exact h2
  obtain ⟨heads, hmap, hheq⟩ := hheads
  obtain ⟨t, hstart, hv, inv⟩ := C09.start_TInv hlt { copy := copy, guarded := false, stable := stable } sentinel dflt
    ((xsOf seqs).map List.head?) (by simpa [xsOf] using hk1) (by simpa [xsOf] using hk)
  unfold multiwayMergeLoserTreeUnguarded
  simp only [hs0, hlast, hmap, hheq, hstart, Option.bind_eq_bind, Option.bind_some]
  by_cases h0 : min (totalSize seqs) size = 0
  · rw [h0] at hP ⊢
    exact ⟨seqs, [], by simp, Run.done stable lt _, rfl, hP⟩
  · simp only [h0, if_false]
    obtain ⟨m, hm⟩ : ∃ m, min (totalSize seqs) size = m + 1 := ⟨min (totalSize seqs) size - 1, by omega⟩
    rw [hm] at hP
    obtain ⟨w, x, q, hmw, hLw, hmin⟩ := unguarded_isMinS hlt inv (by rw [hv])
      (hU.nonempty _ _ hP) (by rw [hv]; exact hU.below _ _ hP)
    obtain ⟨seqs', htk, hxs', hgd'⟩ := takeFrom_spec hLw
    rw [hv] at hmin
    have hP' := hU.step _ _ _ _ _ hP hmin
    rw [← hxs'] at hP'
    obtain ⟨fin, out, hrec, hrun, hgd, hPf⟩ := ltuLoop_run hlt sentinel dflt stable hU m t w seqs' (xsOf seqs) x q
      (by rw [hv]) (by rw [hv]) inv hmw hLw hxs' (by simpa [xsOf] using hk) hP'
    have hm' : min (totalSize seqs) size - 1 = m := by omega
    refine ⟨fin, x :: out, by simp only [hmw, htk, hm', hrec, Option.bind_some]; rfl, ?_, by rw [hgd, hgd'], hPf⟩
    rw [hxs'] at hrun
    rw [hm]
    exact Run.emit hmin hrun

end TlxVerif.C05
