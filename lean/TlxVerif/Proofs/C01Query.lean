/-
C01 — the query descents (`lower_bound`, `upper_bound`, `find`, `exists`) and the `inserted` flag of
`insert`: positions are given as (leaf index in the chain, slot); their rank in the entry sequence
is the lower / upper bound index of the abstract container.
-/
import TlxVerif.Model.C01Tree
import TlxVerif.Proofs.C01Main
namespace TlxVerif.C01

variable {K V : Type}

/-! ### chain and flatten -/

theorem leafCount_eq_chain_length : ∀ (h : Nat) (n : BNode K V), leafCount h n = (chain h n).length := by
  intro h
  induction h with
  | zero => intro n; cases n <;> simp [leafCount, chain]
  | succ h ih =>
    intro n
    cases n with
    | leaf es => simp [leafCount, chain]
    | inner l ks kids =>
      simp only [leafCount, chain, List.length_flatMap]
      congr 1
      apply List.map_congr_left
      intro c _
      exact ih c

theorem chain_flatten : ∀ (h : Nat) (n : BNode K V), (chain h n).flatten = flatten h n := by
  intro h
  induction h with
  | zero => intro n; cases n <;> simp [flatten, chain]
  | succ h ih =>
    intro n
    cases n with
    | leaf es => simp [flatten, chain]
    | inner l ks kids =>
      simp only [flatten, chain]
      induction kids with
      | nil => simp
      | cons c cs ihc => simp [List.flatMap_cons, ih c, ihc]

theorem flatMap_chain_flatten (h : Nat) (l : List (BNode K V)) :
    (l.flatMap (chain h)).flatten = l.flatMap (flatten h) := by
  induction l with
  | nil => simp
  | cons c cs ih => simp [List.flatMap_cons, chain_flatten, ih]

theorem rankOf_eq (ch : List (List (K × V))) (li s : Nat) :
    rankOf ch (some (li, s)) = ((ch.take li).flatten).length + s := by
  simp [rankOf, List.length_flatten]

/-! ### the rank reached by a descent with an arbitrary slot selector -/

def rankSel (sel : List K → Nat) : Nat → BNode K V → Nat
  | _, .leaf es => sel (keysOf es)
  | 0, .inner .. => 0
  | h + 1, .inner _ keys kids =>
    ((kids.take (sel keys)).flatMap (flatten h)).length +
      match kids[sel keys]? with
      | some c => rankSel sel h c
      | none => 0

theorem insRank_eq_rankSel (p : Params K) (k : K) :
    ∀ (h : Nat) (n : BNode K V), insRank p k h n = rankSel (fun ks => findLower p ks k) h n := by
  intro h
  induction h with
  | zero => intro n; cases n <;> simp [insRank, rankSel]
  | succ h ih =>
    intro n
    cases n with
    | leaf es => simp [insRank, rankSel]
    | inner l ks kids =>
      simp only [insRank, rankSel]
      cases kids[findLower p ks k]? with
      | none => rfl
      | some c => simp only [ih c]

theorem rankBy_eq_rankSel (stop : K → Bool) :
    ∀ (h : Nat) (n : BNode K V), rankBy stop h n = rankSel (linIdx stop) h n := by
  intro h
  induction h with
  | zero => intro n; cases n <;> simp [rankBy, rankSel]
  | succ h ih =>
    intro n
    cases n with
    | leaf es => simp [rankBy, rankSel]
    | inner l ks kids =>
      simp only [rankBy, rankSel]
      cases kids[linIdx stop ks]? with
      | none => rfl
      | some c => simp only [ih c]

/-- two selectors that agree on ordered key lists reach the same rank on an ordered tree -/
theorem rankSel_congr (p : Params K) (sw : StrictWeak p.lt) (sel sel' : List K → Nat)
    (hagree : ∀ ks, SortedK p.lt ks → sel ks = sel' ks) :
    ∀ (h : Nat) (n : BNode K V) (ml mi : Nat), ShapeTop p ml mi h n → SortedE p.lt (flatten h n) → SepOk p h n →
      rankSel sel h n = rankSel sel' h n := by
  intro h
  induction h with
  | zero =>
    intro n ml mi hs hsort _
    cases n with
    | inner l ks kids => simp [ShapeTop] at hs
    | leaf es => simp only [rankSel]; exact hagree _ (sortedE_keys hsort)
  | succ h ih =>
    intro n ml mi hs hsort hsep
    cases n with
    | leaf es => simp [ShapeTop] at hs
    | inner l keys kids =>
      simp only [ShapeTop] at hs
      obtain ⟨hl, hk, hmin, hmax, hkids⟩ := hs
      simp only [SepOk] at hsep
      obtain ⟨hseq, hsepk⟩ := hsep
      simp only [flatten] at hsort
      simp only [rankSel]
      rw [hagree keys (keys_sorted_of_sep p sw h keys kids hk hsort hseq)]
      cases hc : kids[sel' keys]? with
      | none => rfl
      | some c =>
        have hcm : c ∈ kids := List.mem_of_getElem? hc
        simp only
        rw [ih c _ _ (hkids c hcm).top (sortedE_flatMap_child hsort c hcm) (hsepk c hcm)]

/-! ### `descend` -/

/-- the leaf reached by `descend` is the `li`-th leaf of the chain and the position
`(li, sel keys-of-leaf)` has rank `rankSel` -/
theorem descend_spec (sel : List K → Nat) :
    ∀ (h : Nat) (n : BNode K V) (li : Nat) (es : List (K × V)), descend sel h n = some (li, es) →
      (chain h n)[li]? = some es ∧
      rankOf (chain h n) (some (li, sel (keysOf es))) = rankSel sel h n := by
  intro h
  induction h with
  | zero =>
    intro n li es hd
    cases n with
    | leaf es' => simp only [descend] at hd; cases hd; simp [chain, rankOf, rankSel]
    | inner l ks kids => simp [descend] at hd
  | succ h ih =>
    intro n li es hd
    cases n with
    | leaf es' => simp only [descend] at hd; cases hd; simp [chain, rankOf, rankSel]
    | inner l ks kids =>
      simp only [descend] at hd
      simp only [rankSel]
      generalize sel ks = slot at hd ⊢
      cases hc : kids[slot]? with
      | none => rw [hc] at hd; cases hd
      | some c =>
        rw [hc] at hd
        simp only at hd
        cases hrec : descend sel h c with
        | none => rw [hrec] at hd; cases hd
        | some res =>
          obtain ⟨li', es'⟩ := res
          rw [hrec] at hd
          simp only at hd
          cases hd
          obtain ⟨ih1, ih2⟩ := ih c li' es hrec
          obtain ⟨hlt, hget⟩ := List.getElem?_eq_some_iff.mp hc
          have hpre : ((kids.take slot).map (leafCount h)).sum = ((kids.take slot).flatMap (chain h)).length := by
            rw [List.length_flatMap]
            congr 1
            apply List.map_congr_left
            intro c _
            exact leafCount_eq_chain_length h c
          have hli' : li' < (chain h c).length := (List.getElem?_eq_some_iff.mp ih1).1
          simp only [chain]
          rw [flatMap_split (chain h) kids slot hlt, hget, hpre]
          refine ⟨?_, ?_⟩
          · rw [List.getElem?_append_right (by omega), Nat.add_sub_cancel_left,
              List.getElem?_append_left hli']
            exact ih1
          · rw [rankOf_eq, List.take_length_add_append, List.take_append_of_le_length (by omega)]
            simp only [List.flatten_append, List.length_append, flatMap_chain_flatten]
            rw [← ih2, rankOf_eq]
            omega

theorem descend_total (p : Params K) (sel : List K → Nat) (hsel : ∀ ks, sel ks ≤ ks.length) :
    ∀ (h : Nat) (n : BNode K V) (ml mi : Nat), ShapeTop p ml mi h n → ∃ li es, descend sel h n = some (li, es) := by
  intro h
  induction h with
  | zero =>
    intro n ml mi hs
    cases n with
    | leaf es => exact ⟨0, es, rfl⟩
    | inner l ks kids => simp [ShapeTop] at hs
  | succ h ih =>
    intro n ml mi hs
    cases n with
    | leaf es => simp [ShapeTop] at hs
    | inner l keys kids =>
      simp only [ShapeTop] at hs
      obtain ⟨hl, hk, hmin, hmax, hkids⟩ := hs
      have hlt : sel keys < kids.length := by have := hsel keys; omega
      obtain ⟨li, es, hd⟩ := ih kids[sel keys] _ _ (hkids _ (List.getElem_mem hlt)).top
      simp only [descend, List.getElem?_eq_getElem hlt, hd]
      exact ⟨_, _, rfl⟩

/-! ### lower_bound / upper_bound -/

theorem lowerBound_spec (p : Params K) (sw : StrictWeak p.lt) (t : Tree K V) (ht : TreeInv p t) (k : K) :
    ∃ pos, lowerBound p t k = some pos ∧ rankOf t.leafChain pos = lbIdx p.lt k t.toList := by
  obtain ⟨hshape, hsort, hsep⟩ := ht
  unfold lowerBound
  cases hroot : t.root with
  | none => exact ⟨none, rfl, by simp [rankOf, Tree.toList, hroot, lbIdx]⟩
  | some r =>
    simp only
    unfold TreeShape at hshape
    rw [hroot] at hshape hsep
    simp only at hsep
    have htl : t.toList = flatten r.level r := by simp [Tree.toList, hroot]
    have hch : t.leafChain = chain r.level r := by simp [Tree.leafChain, hroot]
    rw [htl] at hsort ⊢
    rw [hch]
    obtain ⟨li, es, hd⟩ := descend_total p (V := V) (fun ks => findLower p ks k) (fun ks => findLower_le p ks k)
      r.level r 1 1 hshape.1
    rw [hd]
    refine ⟨_, rfl, ?_⟩
    have h2 := (descend_spec (fun ks => findLower p ks k) r.level r li es hd).2
    rw [h2, ← insRank_eq_rankSel, insRank_eq_lbIdx p sw k r.level r 1 1 hshape.1 hsort hsep]

theorem upperBound_spec (p : Params K) (sw : StrictWeak p.lt) (t : Tree K V) (ht : TreeInv p t) (k : K) :
    ∃ pos, upperBound p t k = some pos ∧ rankOf t.leafChain pos = ubIdx p.lt k t.toList := by
  obtain ⟨hshape, hsort, hsep⟩ := ht
  unfold upperBound
  cases hroot : t.root with
  | none => exact ⟨none, rfl, by simp [rankOf, Tree.toList, hroot, ubIdx]⟩
  | some r =>
    simp only
    unfold TreeShape at hshape
    rw [hroot] at hshape hsep
    simp only at hsep
    have htl : t.toList = flatten r.level r := by simp [Tree.toList, hroot]
    have hch : t.leafChain = chain r.level r := by simp [Tree.leafChain, hroot]
    rw [htl] at hsort ⊢
    rw [hch]
    obtain ⟨li, es, hd⟩ := descend_total p (V := V) (fun ks => findUpper p ks k) (fun ks => findUpper_le p ks k)
      r.level r 1 1 hshape.1
    rw [hd]
    refine ⟨_, rfl, ?_⟩
    have h2 := (descend_spec (fun ks => findUpper p ks k) r.level r li es hd).2
    rw [h2, rankSel_congr p sw _ (linIdx (fun x => p.lt k x)) (fun ks hks => findUpper_eq_lin p sw ks hks k)
      r.level r 1 1 hshape.1 hsort hsep, ← rankBy_eq_rankSel,
      rankBy_eq_findIdx p sw _ (upClosed_upper sw k) r.level r 1 1 hshape.1 hsort hsep]
    rfl

/-! ### the entry tested in the leaf is the entry at the global lower bound -/

/-- the entry that the `find_lower` descent looks at in the leaf (`none`: slot = slotuse) -/
def probe (p : Params K) (k : K) : Nat → BNode K V → Option (K × V)
  | _, .leaf es => es[findLower p (keysOf es) k]?
  | 0, .inner .. => none
  | h + 1, .inner _ keys kids =>
    match kids[findLower p keys k]? with
    | some c => probe p k h c
    | none => none

def presentOpt (p : Params K) (k : K) : Option (K × V) → Bool
  | some e => p.eqv k e.1
  | none => false

/-- inside a child that has a separator the lower bound is a real position (not one past the end) -/
theorem child_rank_lt (p : Params K) (sw : StrictWeak p.lt) (k : K) (h : Nat) (keys : List K)
    (kids : List (BNode K V)) (hk : kids.length = keys.length + 1)
    (hkids : ∀ c ∈ kids, Shape p h c) (hsort : SortedE p.lt (kids.flatMap (flatten h))) (hseq : SepSeq p h keys kids)
    (hsepk : ∀ c ∈ kids, SepOk p h c) (hsk : findLower p keys k < keys.length)
    (hlt : findLower p keys k < kids.length) :
    insRank p k h kids[findLower p keys k] < (flatten h kids[findLower p keys k]).length := by
  have hks := keys_sorted_of_sep p sw h keys kids hk hsort hseq
  have hfl := findLower_eq_lin p sw keys hks k
  generalize findLower p keys k = slot at hsk hlt hfl
  have hcm : kids[slot] ∈ kids := List.getElem_mem hlt
  obtain ⟨last, hlast, heq⟩ := hseq slot keys[slot] kids[slot] (List.getElem?_eq_getElem hsk)
    (List.getElem?_eq_getElem hlt)
  have hidx : keys.findIdx (fun x => !p.lt x k) = slot := by rw [hfl]; rfl
  have hstop : (!p.lt keys[slot] k) = true := ((List.findIdx_eq hsk).mp hidx).1
  have hsl' : (!p.lt last.1 k) = true := upClosed_lower sw k _ _ (eqv_le_left heq) hstop
  rw [insRank_eq_lbIdx p sw k h kids[slot] _ _ (hkids _ hcm).top (sortedE_flatMap_child hsort _ hcm) (hsepk _ hcm)]
  unfold lbIdx
  rw [List.findIdx_lt_length]
  exact ⟨last, List.mem_of_getLast? hlast, hsl'⟩

theorem flatten_at_insRank (p : Params K) (sw : StrictWeak p.lt) (k : K) :
    ∀ (h : Nat) (n : BNode K V) (ml mi : Nat), ShapeTop p ml mi h n → SortedE p.lt (flatten h n) → SepOk p h n →
      (flatten h n)[insRank p k h n]? = probe p k h n := by
  intro h
  induction h with
  | zero =>
    intro n ml mi hs _ _
    cases n with
    | inner l ks kids => simp [ShapeTop] at hs
    | leaf es => simp [flatten, insRank, probe]
  | succ h ih =>
    intro n ml mi hs hsort hsep
    cases n with
    | leaf es => simp [ShapeTop] at hs
    | inner l keys kids =>
      simp only [ShapeTop] at hs
      obtain ⟨hl, hk, hmin, hmax, hkids⟩ := hs
      simp only [SepOk] at hsep
      obtain ⟨hseq, hsepk⟩ := hsep
      simp only [flatten] at hsort
      have hslot := findLower_le p keys k
      have hlt : findLower p keys k < kids.length := by omega
      have hcr := child_rank_lt p sw k h keys kids hk hkids hsort hseq hsepk
      simp only [flatten, insRank, probe]
      generalize findLower p keys k = slot at hslot hlt hcr
      rw [List.getElem?_eq_getElem hlt]
      simp only
      have hcm : kids[slot] ∈ kids := List.getElem_mem hlt
      rw [flatMap_split (flatten h) kids slot hlt, List.getElem?_append_right (by omega), Nat.add_sub_cancel_left]
      rw [← ih kids[slot] _ _ (hkids _ hcm).top (sortedE_flatMap_child hsort _ hcm) (hsepk _ hcm)]
      by_cases hsk : slot < keys.length
      · rw [List.getElem?_append_left (hcr hsk hlt)]
      · have : List.drop (slot + 1) kids = [] := List.drop_eq_nil_of_le (by omega)
        rw [this]; simp

theorem leafInsert_inserted (p : Params K) (es : List (K × V)) (k : K) (v : V) (r : InsOut K V)
    (hr : leafInsert p es k v = some r) :
    r.inserted = !(!p.dup && presentOpt p k (es[findLower p (keysOf es) k]?)) := by
  have hp : presentAt p es (findLower p (keysOf es) k) k = presentOpt p k (es[findLower p (keysOf es) k]?) := by
    unfold presentAt presentOpt; rfl
  unfold leafInsert at hr
  simp only at hr
  rw [hp] at hr
  split at hr
  · rename_i hc; cases hr; simp [hc]
  · rename_i hc
    have hc' : (!p.dup && presentOpt p k (es[findLower p (keysOf es) k]?)) = false := by
      cases hx : (!p.dup && presentOpt p k (es[findLower p (keysOf es) k]?)) with
      | true => exact absurd hx hc
      | false => rfl
    split at hr
    · unfold splitLeafInsert at hr
      simp only at hr
      split at hr
      · cases hr
      · split at hr <;> (cases hr; simp [hc'])
    · cases hr; simp [hc']

theorem insertDescend_inserted (p : Params K) (k : K) (v : V) :
    ∀ (h : Nat) (n : BNode K V) (r : InsOut K V), insertDescend p k v h n = some r →
      r.inserted = !(!p.dup && presentOpt p k (probe p k h n)) := by
  intro h
  induction h with
  | zero =>
    intro n r hr
    cases n with
    | leaf es => unfold insertDescend at hr; simpa [probe] using leafInsert_inserted p es k v r hr
    | inner l ks kids => unfold insertDescend at hr; cases hr
  | succ h ih =>
    intro n r hr
    cases n with
    | leaf es => unfold insertDescend at hr; simpa [probe] using leafInsert_inserted p es k v r hr
    | inner l keys kids =>
      unfold insertDescend at hr
      simp only at hr
      simp only [probe]
      generalize findLower p keys k = slot at hr
      cases hc : kids[slot]? with
      | none => rw [hc] at hr; cases hr
      | some c =>
        rw [hc] at hr
        simp only at hr ⊢
        cases hrec : insertDescend p k v h c with
        | none => rw [hrec] at hr; cases hr
        | some r' =>
          rw [hrec] at hr
          simp only at hr
          have := ih c r' hrec
          cases hsp : r'.split with
          | none => rw [hsp] at hr; cases hr; exact this
          | some kv =>
            obtain ⟨nk, nc⟩ := kv
            rw [hsp] at hr
            simp only at hr
            cases hab : innerAbsorb p l keys (kids.set slot r'.node) slot nk nc with
            | none => rw [hab] at hr; cases hr
            | some res => obtain ⟨a, b, c'⟩ := res; rw [hab] at hr; cases hr; exact this

/-- whether `insert` inserts: always for duplicate-key containers, otherwise iff the entry at the
lower bound of the key is not equivalent to it -/
theorem insert_inserted (p : Params K) (pv : p.Valid) (sw : StrictWeak p.lt) (t : Tree K V) (ht : TreeInv p t)
    (k : K) (v : V) (res : InsResult K V) (hres : insert p t k v = some res) :
    res.inserted = !(!p.dup && presentOpt p k (t.toList[lbIdx p.lt k t.toList]?)) := by
  obtain ⟨hshape, hsort, hsep⟩ := ht
  unfold insert at hres
  cases hroot : t.root with
  | none =>
    rw [hroot] at hres
    simp only [BNode.level] at hres
    unfold insertDescend at hres
    rw [leafInsert_nil p pv] at hres
    simp only at hres
    cases hres
    simp [Tree.toList, hroot, presentOpt]
  | some r0 =>
    rw [hroot] at hres hsep
    simp only at hres hsep
    unfold TreeShape at hshape
    rw [hroot] at hshape
    have htl : t.toList = flatten r0.level r0 := by simp [Tree.toList, hroot]
    rw [htl] at hsort ⊢
    cases hr : insertDescend p k v r0.level r0 with
    | none => rw [hr] at hres; cases hres
    | some r =>
      rw [hr] at hres
      simp only at hres
      have h1 := insertDescend_inserted p k v r0.level r0 r hr
      rw [← flatten_at_insRank p sw k r0.level r0 1 1 hshape.1 hsort hsep,
        insRank_eq_lbIdx p sw k r0.level r0 1 1 hshape.1 hsort hsep] at h1
      cases hres
      exact h1

/-! ### find / exists -/

theorem descend_probe (p : Params K) (k : K) :
    ∀ (h : Nat) (n : BNode K V) (li : Nat) (es : List (K × V)),
      descend (fun ks => findLower p ks k) h n = some (li, es) → probe p k h n = es[findLower p (keysOf es) k]? := by
  intro h
  induction h with
  | zero =>
    intro n li es hd
    cases n with
    | leaf es' => simp only [descend] at hd; cases hd; rfl
    | inner l ks kids => simp [descend] at hd
  | succ h ih =>
    intro n li es hd
    cases n with
    | leaf es' => simp only [descend] at hd; cases hd; rfl
    | inner l ks kids =>
      simp only [descend] at hd
      simp only [probe]
      cases hc : kids[findLower p ks k]? with
      | none => rw [hc] at hd; cases hd
      | some c =>
        rw [hc] at hd
        simp only at hd ⊢
        cases hrec : descend (fun ks => findLower p ks k) h c with
        | none => rw [hrec] at hd; cases hd
        | some res =>
          obtain ⟨li', es'⟩ := res
          rw [hrec] at hd
          simp only at hd
          cases hd
          exact ih c li' es hrec

theorem rankOf_endPos (ch : List (List (K × V))) : rankOf ch (endPos ch) = ch.flatten.length := by
  unfold endPos
  cases hl : ch.getLast? with
  | none =>
    have : ch = [] := List.getLast?_eq_none_iff.mp hl
    subst this; simp [rankOf]
  | some l =>
    obtain ⟨ys, rfl⟩ := List.getLast?_eq_some_iff.mp hl
    simp only
    rw [rankOf_eq]
    simp

/-- `exists(key)` answers whether the entry at the lower bound is equivalent to the key -/
theorem existsKey_spec (p : Params K) (sw : StrictWeak p.lt) (t : Tree K V) (ht : TreeInv p t) (k : K) :
    existsKey p t k = some (presentOpt p k (t.toList[lbIdx p.lt k t.toList]?)) := by
  obtain ⟨hshape, hsort, hsep⟩ := ht
  unfold existsKey
  cases hroot : t.root with
  | none => simp [Tree.toList, hroot, presentOpt]
  | some r =>
    simp only
    unfold TreeShape at hshape
    rw [hroot] at hshape hsep
    simp only at hsep
    have htl : t.toList = flatten r.level r := by simp [Tree.toList, hroot]
    rw [htl] at hsort ⊢
    obtain ⟨li, es, hd⟩ := descend_total p (V := V) (fun ks => findLower p ks k) (fun ks => findLower_le p ks k)
      r.level r 1 1 hshape.1
    rw [hd]
    simp only
    rw [← insRank_eq_lbIdx p sw k r.level r 1 1 hshape.1 hsort hsep,
      flatten_at_insRank p sw k r.level r 1 1 hshape.1 hsort hsep, descend_probe p k r.level r li es hd]
    cases es[findLower p (keysOf es) k]? <;> rfl

/-- `find(key)`: the lower bound if the entry there is equivalent to the key, otherwise `end()` -/
theorem find_spec (p : Params K) (sw : StrictWeak p.lt) (t : Tree K V) (ht : TreeInv p t) (k : K) :
    ∃ pos, find p t k = some pos ∧
      rankOf t.leafChain pos =
        if presentOpt p k (t.toList[lbIdx p.lt k t.toList]?) then lbIdx p.lt k t.toList else t.toList.length := by
  have ht0 := ht
  obtain ⟨hshape, hsort, hsep⟩ := ht
  unfold find
  cases hroot : t.root with
  | none => exact ⟨none, rfl, by simp [rankOf, Tree.toList, hroot, presentOpt]⟩
  | some r =>
    simp only
    unfold TreeShape at hshape
    rw [hroot] at hshape hsep
    simp only at hsep
    have htl : t.toList = flatten r.level r := by simp [Tree.toList, hroot]
    have hch : t.leafChain = chain r.level r := by simp [Tree.leafChain, hroot]
    have hend : rankOf t.leafChain (endPos t.leafChain) = t.toList.length := by
      rw [rankOf_endPos, hch, chain_flatten, htl]
    obtain ⟨li, es, hd⟩ := descend_total p (V := V) (fun ks => findLower p ks k) (fun ks => findLower_le p ks k)
      r.level r 1 1 hshape.1
    rw [hd]
    simp only
    have hpr : t.toList[lbIdx p.lt k t.toList]? = es[findLower p (keysOf es) k]? := by
      rw [htl] at hsort ⊢
      rw [← insRank_eq_lbIdx p sw k r.level r 1 1 hshape.1 hsort hsep,
        flatten_at_insRank p sw k r.level r 1 1 hshape.1 hsort hsep, descend_probe p k r.level r li es hd]
    have hrk : rankOf t.leafChain (some (li, findLower p (keysOf es) k)) = lbIdx p.lt k t.toList := by
      rw [htl] at hsort ⊢
      rw [hch, (descend_spec (fun ks => findLower p ks k) r.level r li es hd).2, ← insRank_eq_rankSel,
        insRank_eq_lbIdx p sw k r.level r 1 1 hshape.1 hsort hsep]
    rw [hpr]
    cases he : es[findLower p (keysOf es) k]? with
    | none => exact ⟨_, rfl, by simpa [presentOpt] using hend⟩
    | some e =>
      by_cases hq : p.eqv k e.1 = true
      · refine ⟨some (li, findLower p (keysOf es) k), by simp [hq], ?_⟩
        have : presentOpt p k (some e) = true := hq
        rw [if_pos this]; exact hrk
      · refine ⟨endPos t.leafChain, by simp [hq], ?_⟩
        have : ¬ presentOpt p k (some e) = true := hq
        rw [if_neg this]; exact hend

end TlxVerif.C01
