/-
C01 — erase, part H: completeness of the search in `erase_iter_descend`: for an iterator that refers to
an entry of the tree, the depth-first search that starts at `find_lower(iter.key())` and walks to the
right reaches the iterator's leaf, so `erase(iterator)` always erases.
-/
import TlxVerif.Model.C01Erase
import TlxVerif.Proofs.C01EraseG
namespace TlxVerif.C01

variable {K V : Type}

theorem childCtx_off (h : Nat) (keys : List K) (kids : List (BNode K V)) (ctx cctx : Ctx K V) (slot : Nat)
    (hc : childCtx h keys kids ctx slot = some cctx) :
    cctx.off = ctx.off + ((kids.take slot).map (leafCount h)).sum := by
  unfold childCtx at hc
  split at hc
  · cases hc; rfl
  · cases hc

theorem sum_take_le {α : Type} (f : α → Nat) (l : List α) (s : Nat) (hs : s < l.length) :
    ((l.take s).map f).sum + f l[s] ≤ (l.map f).sum := by
  have h1 := sumMap_take_drop f l s
  rw [List.drop_eq_getElem_cons hs] at h1
  simp only [sumMap, List.map_cons, List.sum_cons] at h1
  omega

/-- a subtree that does not contain the iterator's leaf reports `btree_not_found` -/
theorem eraseDescend_iter_miss (p : Params K) (li sl : Nat) (kk : K) :
    ∀ (h : Nat) (n : BNode K V) (ctx : Ctx K V), (li < ctx.off ∨ ctx.off + leafCount h n ≤ li) →
      ∀ res, eraseDescend p (.iter li sl kk) h n ctx = some res → res = none := by
  intro h
  induction h with
  | zero =>
    intro n ctx hr res hd
    cases n with
    | inner l ks kids => unfold eraseDescend at hd; cases hd
    | leaf es =>
      unfold eraseDescend at hd
      simp only [leafCount] at hr
      simp only at hd
      rw [if_pos (by omega)] at hd
      cases hd; rfl
  | succ h ih =>
    intro n ctx hr res hd
    cases n with
    | leaf es =>
      unfold eraseDescend at hd
      simp only [leafCount] at hr
      simp only at hd
      rw [if_pos (by omega)] at hd
      cases hd; rfl
    | inner l keys kids =>
      unfold eraseDescend at hd
      simp only at hd
      generalize findLower p keys (Target.iter li sl kk).tkey = slot0 at hd
      generalize hn : scanTries (Target.iter li sl kk) keys.length slot0 = tries at hd
      cases hsc : scanLoop (visitChild (eraseDescend p (.iter li sl kk) h) h keys kids ctx)
          (scanStop p (.iter li sl kk) keys) tries slot0 with
      | none => rw [hsc] at hd; cases hd
      | some r =>
        rw [hsc] at hd
        cases r with
        | none => cases hd; rfl
        | some sr =>
          exfalso
          obtain ⟨s, r⟩ := sr
          -- the loop only stops with a hit where a visit hit
          have hhit : ∀ (n s0 : Nat) s r, scanLoop (visitChild (eraseDescend p (.iter li sl kk) h) h keys kids ctx)
              (scanStop p (.iter li sl kk) keys) n s0 = some (some (s, r)) →
              visitChild (eraseDescend p (.iter li sl kk) h) h keys kids ctx s = some (some r) := by
            intro n
            induction n with
            | zero => intro s0 s r hh; simp [scanLoop] at hh
            | succ n ihn =>
              intro s0 s r hh
              unfold scanLoop at hh
              cases hv : visitChild (eraseDescend p (.iter li sl kk) h) h keys kids ctx s0 with
              | none => rw [hv] at hh; cases hh
              | some a =>
                rw [hv] at hh
                cases a with
                | some a' => simp only [Option.some.injEq, Prod.mk.injEq] at hh; obtain ⟨h1, h2⟩ := hh; subst h1; subst h2; exact hv
                | none =>
                  simp only at hh
                  split at hh
                  · cases hh
                  · exact ihn (s0 + 1) s r hh
          have hv := hhit tries slot0 s r hsc
          simp only [visitChild] at hv
          cases hc : kids[s]? with
          | none => rw [hc] at hv; cases hv
          | some c =>
            rw [hc] at hv
            cases hcc : childCtx h keys kids ctx s with
            | none => rw [hcc] at hv; cases hv
            | some cctx =>
              rw [hcc] at hv
              simp only at hv
              obtain ⟨hlt, hget⟩ := List.getElem?_eq_some_iff.mp hc
              have hoff := childCtx_off h keys kids ctx cctx s hcc
              have hle := sum_take_le (leafCount h) kids s hlt
              rw [hget] at hle
              simp only [leafCount] at hr
              have := ih c cctx (by omega) (some r) hv
              cases this

/-- the search loop reaches slot `j` when everything before it misses and does not stop -/
theorem scanLoop_reach {α : Type} (visit : Nat → Option (Option α)) (stop : Nat → Bool) (j : Nat) (a : α)
    (hj : visit j = some (some a)) :
    ∀ (n s0 : Nat), s0 ≤ j → j < s0 + n → (∀ s, s0 ≤ s → s < j → visit s = some none ∧ stop s = false) →
      scanLoop visit stop n s0 = some (some (j, a)) := by
  intro n
  induction n with
  | zero => intro s0 h1 h2; omega
  | succ n ih =>
    intro s0 h1 h2 hmiss
    unfold scanLoop
    by_cases he : s0 = j
    · subst he; rw [hj]
    · obtain ⟨hv, hs⟩ := hmiss s0 (Nat.le_refl _) (by omega)
      rw [hv]
      simp only [hs, Bool.false_eq_true, if_false]
      exact ih (s0 + 1) (by omega) (by omega) (fun s h3 h4 => hmiss s (by omega) h4)

/-- every entry of a child is below-or-equivalent the child's separator -/
theorem entry_le_sep (p : Params K) (sw : StrictWeak p.lt) (h : Nat) (keys : List K) (kids : List (BNode K V))
    (hsort : SortedE p.lt (kids.flatMap (flatten h))) (hseq : SepSeq p h keys kids) (j : Nat) (k : K) (c : BNode K V)
    (hk : keys[j]? = some k) (hc : kids[j]? = some c) (e : K × V) (he : e ∈ flatten h c) :
    p.lt k e.1 = false := by
  obtain ⟨last, hlast, heq⟩ := hseq j k c hk hc
  have hcs := sortedE_flatMap_child hsort c (List.mem_of_getElem? hc)
  have h1 : p.lt last.1 e.1 = false := le_last_of_sorted sw hcs hlast he
  have h2 : p.lt k last.1 = false := eqv_le_right heq
  exact sw.le_trans _ _ _ h1 h2

/-- locating an element of a `flatMap` in one of the pieces -/
theorem flatMap_getElem? {α β : Type} (f : α → List β) :
    ∀ (l : List α) (i : Nat) (x : β), (l.flatMap f)[i]? = some x →
      ∃ j c, l[j]? = some c ∧ ((l.take j).flatMap f).length ≤ i ∧ (f c)[i - ((l.take j).flatMap f).length]? = some x := by
  intro l
  induction l with
  | nil => intro i x h; simp at h
  | cons a l ih =>
    intro i x h
    rw [List.flatMap_cons, List.getElem?_append] at h
    by_cases hi : i < (f a).length
    · rw [if_pos hi] at h
      exact ⟨0, a, rfl, by simp, by simpa using h⟩
    · rw [if_neg hi] at h
      obtain ⟨j, c, h1, h2, h3⟩ := ih (i - (f a).length) x h
      refine ⟨j + 1, c, by simpa using h1, ?_, ?_⟩
      · simp only [List.take_succ_cons, List.flatMap_cons, List.length_append]; omega
      · simp only [List.take_succ_cons, List.flatMap_cons, List.length_append]
        have : i - ((f a).length + ((l.take j).flatMap f).length) = i - (f a).length - ((l.take j).flatMap f).length := by omega
        rw [this]; exact h3

theorem take_flatMap_length_mono {α β : Type} (f : α → List β) (l : List α) (a b : Nat) (hab : a ≤ b) :
    ((l.take a).flatMap f).length ≤ ((l.take b).flatMap f).length := by
  have : l.take b = (l.take b).take a ++ (l.take b).drop a := (List.take_append_drop a _).symm
  rw [this, List.flatMap_append, List.length_append, List.take_take]
  have hm : min a b = a := by omega
  rw [hm]; omega

/-- the search loop of an inner node finds the child that holds the iterator's leaf -/
theorem scan_finds (p : Params K) (pv : p.Valid) (sw : StrictWeak p.lt) (li sl : Nat) (kk : K) (h : Nat)
    (keys : List K) (kids : List (BNode K V)) (ctx : Ctx K V)
    (hk : kids.length = keys.length + 1) (hkeys : 1 ≤ keys.length) (hkids : ∀ c ∈ kids, Shape p h c)
    (hb : CtxBase p (h + 1) ctx)
    (hsort : SortedE p.lt (kids.flatMap (flatten h))) (hseq : SepSeq p h keys kids)
    (hoff : ctx.off ≤ li) (leaf : List (K × V)) (hleaf : (kids.flatMap (chain h))[li - ctx.off]? = some leaf)
    (e : K × V) (he : leaf[sl]? = some e) (hek : e.1 = kk)
    (hrec : ∀ (j : Nat) (c : BNode K V) (cctx : Ctx K V), kids[j]? = some c → CtxOk p h cctx →
      cctx.off = ctx.off + ((kids.take j).map (leafCount h)).sum → cctx.off ≤ li →
      (chain h c)[li - cctx.off]? = some leaf →
      ∃ out, eraseDescend p (.iter li sl kk) h c cctx = some (some out)) :
    ∃ j r, j ≤ keys.length ∧
      scanLoop (visitChild (eraseDescend p (.iter li sl kk) h) h keys kids ctx) (scanStop p (.iter li sl kk) keys)
        (scanTries (.iter li sl kk) keys.length (findLower p keys kk)) (findLower p keys kk) = some (some (j, r)) := by
  obtain ⟨j, c, hcj, hle, hin⟩ := flatMap_getElem? (chain h) kids (li - ctx.off) leaf hleaf
  obtain ⟨hjlt, hjget⟩ := List.getElem?_eq_some_iff.mp hcj
  have hpre : ∀ s, ((kids.take s).map (leafCount h)).sum = ((kids.take s).flatMap (chain h)).length := by
    intro s
    rw [List.length_flatMap]
    congr 1
    apply List.map_congr_left
    intro c _
    exact leafCount_eq_chain_length h c
  have hjk : j ≤ keys.length := by omega
  -- the entry lies in child j
  have hemem : e ∈ flatten h c := by
    rw [← chain_flatten]
    exact List.mem_flatten.mpr ⟨leaf, List.mem_of_getElem? hin, List.mem_of_getElem? he⟩
  have hks := keys_sorted_of_sep p sw h keys kids hk hsort hseq
  have hfl := findLower_eq_lin p sw keys hks kk
  have hs0le := findLower_le p keys kk
  generalize hs0 : findLower p keys kk = slot0 at hfl hs0le
  have hidx : keys.findIdx (fun x => !p.lt x kk) = slot0 := by rw [hfl]; rfl
  -- the search starts at or before child j
  have hs0j : slot0 ≤ j := by
    rcases Nat.lt_or_ge j slot0 with hlt | hge
    · exfalso
      have hjk' : j < keys.length := by omega
      have h1 : (!p.lt keys[j] kk) = false := List.not_of_lt_findIdx (by rw [hidx]; exact hlt)
      have h2 := entry_le_sep p sw h keys kids hsort hseq j keys[j] c (List.getElem?_eq_getElem hjk') hcj e hemem
      rw [hek] at h2
      simp [h2] at h1
    · exact hge
  -- visits before j miss and do not stop the loop
  have hmiss : ∀ s, slot0 ≤ s → s < j →
      visitChild (eraseDescend p (.iter li sl kk) h) h keys kids ctx s = some none ∧
      scanStop p (.iter li sl kk) keys s = false := by
    intro s h1 h2
    have hsk : s < keys.length := by omega
    have hslt : s < kids.length := by omega
    obtain ⟨cctx, hcc, hcok, _, _, _, _, hcoff⟩ := childCtx_ok p pv h keys kids ctx hk hkeys hkids hb s (by omega)
    obtain ⟨res, hres, _⟩ := eraseDescend_ok p pv (.iter li sl kk) h kids[s] cctx (hkids _ (List.getElem_mem hslt)) hcok
    have hnone := eraseDescend_iter_miss p li sl kk h kids[s] cctx (by
      right
      rw [hcoff]
      have h3 := sum_take_le (leafCount h) kids s hslt
      have h4 : ((kids.take (s + 1)).map (leafCount h)).sum = ((kids.take s).map (leafCount h)).sum + leafCount h kids[s] := by
        rw [List.take_add_one, List.getElem?_eq_getElem hslt, List.map_append, List.sum_append]
        simp
      have h5 := take_flatMap_length_mono (chain h) kids (s + 1) j (by omega)
      rw [← hpre, ← hpre, h4] at h5
      rw [← hpre] at hle
      omega) res hres
    subst hnone
    refine ⟨by simp only [visitChild, List.getElem?_eq_getElem hslt, hcc, hres], ?_⟩
    simp only [scanStop, List.getElem?_eq_getElem hsk]
    -- keys[s] with s ≥ slot0 is not less than kk
    have hstop0 : (!p.lt keys[slot0] kk) = true := ((List.findIdx_eq (by omega)).mp hidx).1
    have := mono_lower sw hks kk slot0 s (by omega) hsk h1 hstop0
    simpa using this
  -- the visit of child j hits
  obtain ⟨cctx, hcc, hcok, _, _, _, _, hcoff⟩ := childCtx_ok p pv h keys kids ctx hk hkeys hkids hb j hjk
  have hoffle : cctx.off ≤ li := by rw [hcoff, hpre]; omega
  have hidx2 : li - cctx.off = li - ctx.off - ((kids.take j).flatMap (chain h)).length := by rw [hcoff, hpre]; omega
  obtain ⟨out, hout⟩ := hrec j c cctx hcj hcok hcoff hoffle (by rw [hidx2]; exact hin)
  have hvj : visitChild (eraseDescend p (.iter li sl kk) h) h keys kids ctx j = some (some out) := by
    simp only [visitChild, hcj, hcc, hout]
  refine ⟨j, out, hjk, ?_⟩
  exact scanLoop_reach _ _ j out hvj _ slot0 hs0j (by simp only [scanTries]; omega) hmiss

/-- **completeness of the iterator search** in non-root frames -/
theorem eraseDescend_iter_hit (p : Params K) (pv : p.Valid) (sw : StrictWeak p.lt) (li sl : Nat) (kk : K) :
    ∀ (h : Nat) (n : BNode K V) (ctx : Ctx K V), Shape p h n → CtxOk p h ctx → SortedE p.lt (flatten h n) →
      SepOk p h n → ctx.off ≤ li → ∀ leaf, (chain h n)[li - ctx.off]? = some leaf → ∀ e, leaf[sl]? = some e →
      e.1 = kk → ∃ out, eraseDescend p (.iter li sl kk) h n ctx = some (some out) := by
  intro h
  induction h with
  | zero =>
    intro n ctx hs hc _ _ hoff leaf hleaf e he _
    cases n with
    | inner l ks kids => simp [Shape] at hs
    | leaf es =>
      simp only [chain] at hleaf
      have hz : li - ctx.off = 0 := by
        rcases Nat.eq_zero_or_pos (li - ctx.off) with h0 | h0
        · exact h0
        · rw [List.getElem?_eq_none (by simp; omega)] at hleaf; cases hleaf
      rw [hz] at hleaf
      simp only [List.getElem?_cons_zero, Option.some.injEq] at hleaf
      subst hleaf
      have hsl : sl < es.length := (List.getElem?_eq_some_iff.mp he).1
      obtain ⟨out, ho, _⟩ := eraseInLeaf_ok p pv (.iter li sl kk) es sl ctx hs hc hsl
        (by simp only [HitAt, chain]; exact ⟨hoff, es, by simp [hz], hsl, by simp [hz, rankOf]⟩)
      unfold eraseDescend
      simp only
      rw [if_neg (by omega), if_neg (by omega), ho]
      exact ⟨out, rfl⟩
  | succ h ih =>
    intro n ctx hs hc hsort hso hoff leaf hleaf e he hek
    cases n with
    | leaf es => simp [Shape] at hs
    | inner l keys kids =>
      have hs0 := hs
      simp only [Shape] at hs
      obtain ⟨hl, hk, hmin, hmax, hkids⟩ := hs
      simp only [SepOk] at hso
      obtain ⟨hseq, hsepk⟩ := hso
      simp only [flatten] at hsort
      simp only [chain] at hleaf
      have hi4 := pv.inner4
      have hkeys : 1 ≤ keys.length := by simp [Params.innerMin, Gen.innerSlotmin] at hmin; omega
      obtain ⟨j, r, hjk, hscan⟩ := scan_finds p pv sw li sl kk h keys kids ctx hk hkeys hkids hc.toCtxBase hsort hseq
        hoff leaf hleaf e he hek (by
          intro j c cctx hcj hcok _ hle hin
          have hcm : c ∈ kids := List.mem_of_getElem? hcj
          exact ih c cctx (hkids c hcm) hcok (sortedE_flatMap_child hsort c hcm) (hsepk c hcm) hle leaf hin e he hek)
      unfold eraseDescend
      simp only [Target.tkey]
      rw [hscan]
      simp only
      -- the frame after the hit is defined (part D)
      have hjlt : j < kids.length := by omega
      obtain ⟨cctx, hcc, hcok, hc1, hc2, hc3, hc4, hcoff⟩ :=
        childCtx_ok p pv h keys kids ctx hk hkeys hkids hc.toCtxBase j hjk
      obtain ⟨res', hres', hok'⟩ := eraseDescend_ok p pv (.iter li sl kk) h kids[j] cctx (hkids _ (List.getElem_mem hjlt)) hcok
      -- the hit the loop reports is the visit's result
      have hspec := scanLoop_spec (visitChild (eraseDescend p (.iter li sl kk) h) h keys kids ctx)
        (scanStop p (.iter li sl kk) keys) (scanTries (.iter li sl kk) keys.length (findLower p keys kk)) (findLower p keys kk)
      have hv : visitChild (eraseDescend p (.iter li sl kk) h) h keys kids ctx j = some (some r) := by
        have hvis : ∀ s, findLower p keys kk ≤ s → s < findLower p keys kk + scanTries (.iter li sl kk) keys.length (findLower p keys kk) →
            ∃ r', visitChild (eraseDescend p (.iter li sl kk) h) h keys kids ctx s = some r' := by
          intro s h1 h2
          have hs0le := findLower_le p keys kk
          obtain ⟨hsl, _⟩ := scan_range (.iter li sl kk) keys.length _ s hs0le h1 h2
          have hlt : s < kids.length := by omega
          obtain ⟨cctx', hcc', hcok', _⟩ := childCtx_ok p pv h keys kids ctx hk hkeys hkids hc.toCtxBase s hsl
          obtain ⟨res'', hres'', _⟩ := eraseDescend_ok p pv (.iter li sl kk) h kids[s] cctx' (hkids _ (List.getElem_mem hlt)) hcok'
          exact ⟨res'', by simp only [visitChild, List.getElem?_eq_getElem hlt, hcc', hres'']⟩
        obtain ⟨res2, hres2, hsp⟩ := hspec hvis
        rw [hscan] at hres2
        cases hres2
        exact (hsp j r rfl).2.2
      simp only [visitChild, List.getElem?_eq_getElem hjlt, hcc] at hv
      rw [hres'] at hv
      cases hv
      obtain ⟨out, ho, _⟩ := afterChild_ok p pv (.iter li sl kk) h l keys kids ctx cctx j r hs0 hc hjk kids[j]
        (List.getElem?_eq_getElem hjlt) (by intro k hk'; cases hk') hc1 hc2 hc3 hc4 hcoff (hok' r rfl)
      rw [ho]
      exact ⟨out, rfl⟩

/-- **`erase(iterator)` always erases** for an iterator that refers to an entry of the tree -/
theorem eraseIter_erases (p : Params K) (pv : p.Valid) (sw : StrictWeak p.lt) (t : Tree K V) (ht : TreeInv p t)
    (li sl : Nat) (e : K × V) (he : deref t.leafChain (li, sl) = some e) :
    ∃ res, eraseIter p t li sl = some res ∧ res.erased = true := by
  have hi4 := pv.inner4
  obtain ⟨res, hres, hno, _⟩ := eraseTop_ok p pv (.iter li sl e.1) t ht.1
  refine ⟨res, by simp only [eraseIter, he, hres], ?_⟩
  obtain ⟨hshape, hsort, hsep⟩ := ht
  -- the descent from the root hits
  cases hroot : t.root with
  | none => simp [deref, Tree.leafChain, hroot] at he
  | some r0 =>
    unfold TreeShape at hshape
    rw [hroot] at hshape hsep
    simp only at hsep
    obtain ⟨hs, _, _, _⟩ := hshape
    have hch : t.leafChain = chain r0.level r0 := by simp [Tree.leafChain, hroot]
    have htl : t.toList = flatten r0.level r0 := by simp [Tree.toList, hroot]
    rw [htl] at hsort
    rw [hch] at he
    simp only [deref] at he
    cases hlf : (chain r0.level r0)[li]? with
    | none => rw [hlf] at he; cases he
    | some leaf =>
      rw [hlf] at he
      simp only [Option.bind_some] at he
      have hhit : ∃ out, eraseDescend p (.iter li sl e.1) r0.level r0 {} = some (some out) := by
        generalize hh0 : r0.level = h0 at *
        cases h0 with
        | zero =>
          obtain ⟨es, rfl, hes1, hes2⟩ := shapeTop0_leaf hs
          simp only [chain] at hlf
          have hz : li = 0 := by
            rcases Nat.eq_zero_or_pos li with h0 | h0
            · exact h0
            · rw [List.getElem?_eq_none (by simp; omega)] at hlf; cases hlf
          subst hz
          simp only [List.getElem?_cons_zero, Option.some.injEq] at hlf
          subst hlf
          have hsl : sl < es.length := (List.getElem?_eq_some_iff.mp he).1
          -- the root leaf frame is defined (it is part of `eraseTop_ok`)
          unfold eraseTop at hres
          rw [hroot] at hres
          simp only at hres
          rw [hh0] at hres
          cases hd : eraseDescend p (.iter 0 sl e.1) 0 (.leaf es) {} with
          | none => rw [hd] at hres; cases hres
          | some o =>
            cases o with
            | some out => exact ⟨out, rfl⟩
            | none =>
              exfalso
              unfold eraseDescend at hd
              simp only at hd
              rw [if_neg (by simp), if_neg (by omega)] at hd
              cases hx : eraseInLeaf p es sl {} with
              | none => rw [hx] at hd; cases hd
              | some o' => rw [hx] at hd; cases hd
        | succ h =>
          obtain ⟨l, keys, kids, rfl, hl, hk, hkeys, hmax, hkids⟩ := shapeTopS_inner hs
          simp only [SepOk] at hsep
          obtain ⟨hseq, hsepk⟩ := hsep
          simp only [flatten] at hsort
          simp only [chain] at hlf
          have hbase := ctxBase_root p (h + 1) (K := K) (V := V)
          obtain ⟨j, r, hjk, hscan⟩ := scan_finds p pv sw li sl e.1 h keys kids {} hk hkeys hkids hbase hsort hseq
            (Nat.zero_le _) leaf (by simpa using hlf) e he rfl (by
              intro j c cctx hcj hcok _ hle hin
              have hcm : c ∈ kids := List.mem_of_getElem? hcj
              exact eraseDescend_iter_hit p pv sw li sl e.1 h c cctx (hkids c hcm) hcok
                (sortedE_flatMap_child hsort c hcm) (hsepk c hcm) hle leaf hin e he rfl)
          unfold eraseTop at hres
          rw [hroot] at hres
          simp only at hres
          rw [hh0] at hres
          cases hd : eraseDescend p (.iter li sl e.1) (h + 1) (.inner l keys kids) {} with
          | none => rw [hd] at hres; cases hres
          | some o =>
            cases o with
            | some out => exact ⟨out, rfl⟩
            | none =>
              exfalso
              unfold eraseDescend at hd
              simp only [Target.tkey] at hd
              rw [hscan] at hd
              simp only at hd
              cases hx : afterChild p l keys kids {} j r with
              | none => rw [hx] at hd; cases hd
              | some o' => rw [hx] at hd; cases hd
      obtain ⟨out, hout⟩ := hhit
      unfold eraseTop at hres
      rw [hroot] at hres
      simp only at hres
      rw [hout] at hres
      simp only at hres
      split at hres
      · cases hres
      · cases hres; rfl

end TlxVerif.C01
