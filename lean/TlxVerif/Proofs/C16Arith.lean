import TlxVerif.Model.C16RingBuffer
/-! Cursor arithmetic of the ring buffer: the C++ expressions (64-bit wrap-around,
then `& mask_`) equal arithmetic modulo the capacity `2^k`. -/
namespace TlxVerif.C16

theorem mod_wrap {x c : Nat} (h : x < 2 * c) : x % c = if x < c then x else x - c := by
  split
  · exact Nat.mod_eq_of_lt ‹_›
  · rw [Nat.mod_eq_sub_mod (by omega)]
    exact Nat.mod_eq_of_lt (by omega)

theorem W_eq (k : Nat) (hk : k ≤ 63) : W = 2 ^ k * 2 ^ (64 - k) := by
  unfold W
  rw [← Nat.pow_add]
  congr 1
  omega

theorem pow_le_half (k : Nat) (hk : k ≤ 63) : 2 ^ k ≤ 2 ^ 63 :=
  Nat.pow_le_pow_right (by decide) hk

theorem and_mask (x k : Nat) : x &&& (2 ^ k - 1) = x % 2 ^ k :=
  Nat.and_two_pow_sub_one_eq_mod x k

theorem incr_eq {x k : Nat} (hk : k ≤ 63) (hx : x < 2 ^ k) :
    incr x (2 ^ k - 1) = (x + 1) % 2 ^ k := by
  unfold incr
  rw [and_mask]
  have := pow_le_half k hk
  have hW : W = 2 ^ 64 := rfl
  rw [Nat.mod_eq_of_lt (by omega : x + 1 < W)]

theorem modW_mod {k : Nat} (hk : k ≤ 63) (y : Nat) : y % W % 2 ^ k = y % 2 ^ k :=
  Nat.mod_mod_of_dvd y ⟨2 ^ (64 - k), W_eq k hk⟩

theorem addW_mod {k : Nat} (hk : k ≤ 63) (y : Nat) : (y + W) % 2 ^ k = y % 2 ^ k := by
  rw [W_eq k hk, Nat.add_mul_mod_self_left]

theorem decr_eq {x k : Nat} (hk : k ≤ 63) (hx : x < 2 ^ k) :
    decr x (2 ^ k - 1) = (x + 2 ^ k - 1) % 2 ^ k := by
  unfold decr
  rw [and_mask, modW_mod hk]
  have hp : 0 < 2 ^ k := Nat.pow_pos (by decide)
  by_cases h0 : x = 0
  · subst h0
    have : 0 + W - 1 = (2 ^ k - 1) + 2 ^ k * (2 ^ (64 - k) - 1) := by
      have hq : 0 < 2 ^ (64 - k) := Nat.pow_pos (by decide)
      rw [W_eq k hk, Nat.mul_sub, Nat.mul_one]
      have : 2 ^ k ≤ 2 ^ k * 2 ^ (64 - k) := Nat.le_mul_of_pos_right _ hq
      omega
    rw [this, Nat.add_mul_mod_self_left]
    simp
  · have : x + W - 1 = (x - 1) + W := by omega
    rw [this, addW_mod hk]
    have : x + 2 ^ k - 1 = (x - 1) + 2 ^ k := by omega
    rw [this, Nat.add_mod_right]

theorem size_eq' {b e k : Nat} (hk : k ≤ 63) (hb : b < 2 ^ k) (he : e < 2 ^ k) :
    ((e + W - b) % W) &&& (2 ^ k - 1) = (e + 2 ^ k - b) % 2 ^ k := by
  rw [and_mask, modW_mod hk]
  have hW : W = 2 ^ 64 := rfl
  have := pow_le_half k hk
  have : e + W - b = (e + 2 ^ k - b) + (W - 2 ^ k) := by omega
  rw [this]
  have : W - 2 ^ k = 2 ^ k * (2 ^ (64 - k) - 1) := by
    rw [W_eq k hk, Nat.mul_sub, Nat.mul_one]
  rw [this, Nat.add_mul_mod_self_left]

end TlxVerif.C16
