/-
C01/C02 — erase, part B: executing the child's rebalancing request in the parent
(`applyFix` = merge_* / shift_left_* / shift_right_*, then `fixMerge`) restores the fill bounds of
all children, keeps the child count = key count + 1, does not change the entry sequence, and frees
exactly the node that disappears.
-/
import TlxVerif.Model.C01Erase
import TlxVerif.Proofs.C01Main
import TlxVerif.Proofs.C01EraseA
import TlxVerif.Proofs.C01EraseF
namespace TlxVerif.C01

variable {K V : Type}

/-- what the parent needs to know to execute fix `f` for child `slot` (minimal fill `m`) -/
def FixOk (m : Nat) (kids : List (BNode K V)) (slot : Nat) : Fix → Prop
  | .none => False
  | .mergeL => 0 < slot ∧ ∃ L, kids[slot - 1]? = some L ∧ L.slotuse ≤ m
  | .mergeR => ∃ R, kids[slot + 1]? = some R ∧ R.slotuse ≤ m
  | .shiftL => ∃ R, kids[slot + 1]? = some R ∧ m < R.slotuse
  | .shiftR => 0 < slot ∧ ∃ L, kids[slot - 1]? = some L ∧ m < L.slotuse

/-- what `applyFix` + `fixMerge` must deliver (shape / bookkeeping layer) -/
structure RebalanceOut (p : Params K) (h : Nat) (keys1 : List K) (kids1 : List (BNode K V))
    (keys3 : List K) (kids3 : List (BNode K V)) (lf inf : Nat) : Prop where
  arity : kids3.length = keys3.length + 1
  shape : ∀ c ∈ kids3, Shape p h c
  flat : kids3.flatMap (flatten h) = kids1.flatMap (flatten h)
  klen : keys3.length + (lf + inf) = keys1.length
  free_le : lf + inf ≤ 1
  lcnt : sumMap (leafCount h) kids3 + lf = sumMap (leafCount h) kids1
  icnt : sumMap (innerCount h) kids3 + inf = sumMap (innerCount h) kids1

/-- the separator layer of `applyFix` + `fixMerge` -/
def SepPart (p : Params K) (h : Nat) (keys1 : List K) (kids1 : List (BNode K V)) (keys3 : List K)
    (kids3 : List (BNode K V)) : Prop :=
  StrictWeak p.lt → SepSeq p h keys1 kids1 → (∀ c ∈ kids1, SepOk p h c) →
    SepSeq p h keys3 kids3 ∧ ∀ c ∈ kids3, SepOk p h c

/-- two adjacent children `X` (index `a`) and `Y` (index `a+1`) with their separator `keys[a]` -/
theorem pair_decomp {α β : Type} (kids : List α) (keys : List β) (a : Nat) (X Y : α)
    (hX : kids[a]? = some X) (hY : kids[a + 1]? = some Y) (ha : a < keys.length) :
    ∃ A B KA KB sep, kids = A ++ X :: Y :: B ∧ keys = KA ++ sep :: KB ∧ A.length = a ∧ KA.length = a := by
  obtain ⟨hx1, hx2⟩ := List.getElem?_eq_some_iff.mp hX
  obtain ⟨hy1, hy2⟩ := List.getElem?_eq_some_iff.mp hY
  refine ⟨kids.take a, kids.drop (a + 2), keys.take a, keys.drop (a + 1), keys[a], ?_, ?_, ?_, ?_⟩
  · conv => lhs; rw [← List.take_append_drop a kids]
    rw [List.drop_eq_getElem_cons hx1, List.drop_eq_getElem_cons hy1, hx2, hy2]
  · conv => lhs; rw [← List.take_append_drop a keys]
    rw [List.drop_eq_getElem_cons ha]
  · simp; omega
  · simp; omega

theorem shape0_leaf {p : Params K} {c : BNode K V} (h : Shape p 0 c) :
    ∃ es, c = .leaf es ∧ p.leafMin ≤ es.length ∧ es.length ≤ p.leafMax := by
  cases c with
  | leaf es => exact ⟨es, rfl, by simpa [Shape] using h⟩
  | inner l ks kids => simp [Shape] at h

theorem shapeTop0_leaf {p : Params K} {ml mi : Nat} {c : BNode K V} (h : ShapeTop p ml mi 0 c) :
    ∃ es, c = .leaf es ∧ ml ≤ es.length ∧ es.length ≤ p.leafMax := by
  cases c with
  | leaf es => exact ⟨es, rfl, by simpa [ShapeTop] using h⟩
  | inner l ks kids => simp [ShapeTop] at h

theorem getLast?_isSome_of_length_pos {α : Type} (l : List α) (h : 0 < l.length) : ∃ e, l.getLast? = some e := by
  cases hl : l.getLast? with
  | none => rw [List.getLast?_eq_none_iff] at hl; subst hl; simp at h
  | some e => exact ⟨e, rfl⟩

/-- the children around an adjacent pair keep their shape -/
theorem shape_around {p : Params K} {h : Nat} {A B : List (BNode K V)} {X Y : BNode K V} {slot : Nat}
    (hsh : ∀ i c, (A ++ X :: Y :: B)[i]? = some c → i ≠ slot → Shape p h c)
    (hs : slot = A.length ∨ slot = A.length + 1) :
    (∀ x ∈ A, Shape p h x) ∧ (∀ x ∈ B, Shape p h x) := by
  refine ⟨?_, ?_⟩
  · intro x hx
    obtain ⟨i, hi, rfl⟩ := List.getElem_of_mem hx
    exact hsh i _ (by simp [List.getElem?_append_left hi]) (by omega)
  · intro x hx
    obtain ⟨i, hi, rfl⟩ := List.getElem_of_mem hx
    exact hsh (A.length + 2 + i) _ (by
      rw [List.getElem?_append_right (by omega)]
      have : A.length + 2 + i - A.length = i + 2 := by omega
      rw [this]; simp [List.getElem?_eq_getElem hi]) (by omega)

/-- `fixMerge` on two adjacent children `M` (the merged node) and `E` (the emptied one) -/
theorem fixMerge_pair (l : Nat) (A B : List (BNode K V)) (KA KB : List K) (sep : K) (M E : BNode K V) (slot : Nat)
    (hslot : slot = A.length ∨ slot = A.length + 1) (hM : M.slotuse ≠ 0) (hE : E.slotuse = 0)
    (hKA : KA.length = A.length) :
    fixMerge l { keys := KA ++ sep :: KB, kids := A ++ M :: E :: B, fixmerge := true } slot =
      if l = 1 then
        match M.lastKey? with
        | none => none
        | some k => some ((KA ++ KB).set A.length k, A ++ M :: B, if E.isLeaf then 1 else 0, if E.isLeaf then 0 else 1)
      else some (KA ++ KB, A ++ M :: B, if E.isLeaf then 1 else 0, if E.isLeaf then 0 else 1) := by
  have g0 : (A ++ M :: E :: B)[A.length]? = some M := by simp
  have g1 : (A ++ M :: E :: B)[A.length + 1]? = some E := by simp
  have hk3 : (KA ++ sep :: KB).eraseIdx (A.length + 1 - 1) = KA ++ KB := by
    rw [Nat.add_sub_cancel, ← hKA]; simp [List.eraseIdx_append_of_length_le]
  have hc3 : (A ++ M :: E :: B).eraseIdx (A.length + 1) = A ++ M :: B := by
    simp [List.eraseIdx_append_of_length_le]
  have g3 : (A ++ M :: B)[A.length + 1 - 1]? = some M := by simp
  unfold fixMerge
  simp only [if_true]
  rcases hslot with h | h <;> subst h
  · rw [g0]
    simp only [hM, ne_eq, not_false_eq_true, if_true, g1, Nat.add_one_ne_zero, if_false, hk3, hc3, g3]
    cases hE' : E.isLeaf <;> cases hl : decide (l = 1) <;> simp_all <;> cases M.lastKey? <;> rfl
  · rw [g1]
    simp only [hE, ne_eq, not_true_eq_false, if_false, g1, Nat.add_one_ne_zero, hk3, hc3, g3]
    cases hE' : E.isLeaf <;> cases hl : decide (l = 1) <;> simp_all <;> cases M.lastKey? <;> rfl

/-- all four rebalancing operations on two adjacent leaves -/
theorem rebalance_leaf (p : Params K) (pv : p.Valid) (keys1 : List K) (kids1 : List (BNode K V)) (slot : Nat) (f : Fix)
    (hk : kids1.length = keys1.length + 1) (hslot : slot ≤ keys1.length)
    (hsh : ∀ i c, kids1[i]? = some c → i ≠ slot → Shape p 0 c)
    (C : BNode K V) (hC : kids1[slot]? = some C) (hCs : ShapeTop p (p.leafMin - 1) 0 0 C)
    (hfull : p.leafMin ≤ C.slotuse → f = .none)
    (hunder : C.slotuse < p.leafMin → FixOk p.leafMin kids1 slot f) :
    ∃ fx keys3 kids3 lf inf, applyFix f keys1 kids1 slot = some fx ∧ fx.lastUp = none ∧
      fixMerge 1 fx slot = some (keys3, kids3, lf, inf) ∧ RebalanceOut p 0 keys1 kids1 keys3 kids3 lf inf ∧
      SepPart p 0 keys1 kids1 keys3 kids3 := by
  have hl4 := pv.leaf4
  have hmin : 2 ≤ p.leafMin := by simp [Params.leafMin, Gen.leafSlotmin]; omega
  have hmin2 : 2 * p.leafMin ≤ p.leafMax := by simp [Params.leafMin, Gen.leafSlotmin]; omega
  obtain ⟨c, rfl, hc1, hc2⟩ := shapeTop0_leaf hCs
  simp only [BNode.slotuse] at hfull hunder
  by_cases hu : p.leafMin ≤ c.length
  · -- no underflow: nothing to do
    have := hfull hu
    subst this
    refine ⟨_, keys1, kids1, 0, 0, rfl, rfl, rfl, ⟨hk, ?_, rfl, rfl, by omega, rfl, rfl⟩, fun _ a b => ⟨a, b⟩⟩
    intro x hx
    obtain ⟨i, hi, rfl⟩ := List.getElem_of_mem hx
    by_cases his : i = slot
    · subst his
      rw [List.getElem?_eq_getElem hi] at hC
      have hci : kids1[i] = .leaf c := by simpa using hC
      rw [hci]
      simp only [Shape]; omega
    · exact hsh i _ (List.getElem?_eq_getElem hi) his
  · have hfo := hunder (by omega)
    have hclen : c.length = p.leafMin - 1 := by omega
    cases f with
    | none => exact absurd hfo (by simp [FixOk])
    | mergeL =>
      obtain ⟨hs0, L, hL, hLu⟩ := hfo
      obtain ⟨lx, rfl, hl1, hl2⟩ := shape0_leaf (hsh (slot - 1) L hL (by omega))
      simp only [BNode.slotuse] at hLu
      have hC' : kids1[slot - 1 + 1]? = some (.leaf c) := by rw [Nat.sub_add_cancel hs0]; exact hC
      obtain ⟨A, B, KA, KB, sep, rfl, rfl, hA, hKA⟩ := pair_decomp kids1 keys1 (slot - 1) _ _ hL hC' (by omega)
      have hsl : slot = A.length + 1 := by omega
      subst hsl
      have hKA' : KA.length = A.length := by omega
      have hk' : A.length + 2 + B.length = KA.length + 1 + KB.length + 1 := by
        simp only [List.length_append, List.length_cons] at hk; omega
      have e1 : (A ++ BNode.leaf lx :: BNode.leaf c :: B)[A.length + 1 - 1]? = some (.leaf lx) := by simp
      have e2 : (A ++ BNode.leaf lx :: BNode.leaf c :: B)[A.length + 1]? = some (.leaf c) := by simp
      obtain ⟨e, he⟩ := getLast?_isSome_of_length_pos (lx ++ c) (by simp; omega)
      refine ⟨{ keys := KA ++ sep :: KB, kids := A ++ .leaf (lx ++ c) :: .leaf [] :: B, fixmerge := true },
        (KA ++ KB).set A.length e.1, A ++ .leaf (lx ++ c) :: B, 1, 0, ?_, rfl, ?_, ?_, ?_⟩
      · simp only [applyFix, Nat.add_one_ne_zero, if_false, e1, e2]
        simp
      · rw [fixMerge_pair 1 A B KA KB sep _ _ (A.length + 1) (Or.inr rfl)
          (by simp only [BNode.slotuse, List.length_append]; omega) (by simp [BNode.slotuse]) hKA']
        simp [BNode.lastKey?, he, BNode.isLeaf]
      · obtain ⟨hA', hB'⟩ := shape_around hsh (Or.inr rfl)
        refine ⟨?_, ?_, by simp [flatten], ?_, by omega, ?_, by simp [sumMap, innerCount]⟩
        · simp only [List.length_append, List.length_cons, List.length_set]; omega
        · intro x hx
          simp only [List.mem_append, List.mem_cons] at hx
          rcases hx with hx | hx | hx
          · exact hA' x hx
          · subst hx; simp only [Shape, List.length_append]; omega
          · exact hB' x hx
        · simp only [List.length_append, List.length_cons, List.length_set]; omega
        · simp [sumMap, leafCount]; omega
      · intro sw hss hso
        have hYne : c ≠ [] := by intro hh; subst hh; simp at hclen; omega
        have h1 := sep_after_merge p 0 A B KA KB sep (.leaf lx) (.leaf c) (.leaf (lx ++ c)) hKA'
          (by simp only [flatten]; exact getLast?_append_of_ne_nil lx c hYne) hss
        refine ⟨sep_after_merge_refresh p sw 0 A B KA KB (.leaf (lx ++ c)) e hKA' (by simpa [flatten] using he) h1, ?_⟩
        intro x hx
        simp only [List.mem_append, List.mem_cons] at hx
        rcases hx with hx | hx | hx
        · exact hso x (by simp [hx])
        · subst hx; simp [SepOk]
        · exact hso x (by simp [hx])
    | mergeR =>
      obtain ⟨R, hR, hRu⟩ := hfo
      obtain ⟨rx, rfl, hr1, hr2⟩ := shape0_leaf (hsh (slot + 1) R hR (by omega))
      simp only [BNode.slotuse] at hRu
      have hsk : slot < keys1.length := by
        have := (List.getElem?_eq_some_iff.mp hR).1; omega
      obtain ⟨A, B, KA, KB, sep, rfl, rfl, hA, hKA⟩ := pair_decomp kids1 keys1 slot _ _ hC hR hsk
      subst hA
      have hk' : A.length + 2 + B.length = KA.length + 1 + KB.length + 1 := by
        simp only [List.length_append, List.length_cons] at hk; omega
      have e1 : (A ++ BNode.leaf c :: BNode.leaf rx :: B)[A.length]? = some (.leaf c) := by simp
      have e2 : (A ++ BNode.leaf c :: BNode.leaf rx :: B)[A.length + 1]? = some (.leaf rx) := by simp
      obtain ⟨e, he⟩ := getLast?_isSome_of_length_pos (c ++ rx) (by simp; omega)
      refine ⟨{ keys := KA ++ sep :: KB, kids := A ++ .leaf (c ++ rx) :: .leaf [] :: B, fixmerge := true },
        (KA ++ KB).set A.length e.1, A ++ .leaf (c ++ rx) :: B, 1, 0, ?_, rfl, ?_, ?_, ?_⟩
      · simp only [applyFix, e1, e2]
        simp
      · rw [fixMerge_pair 1 A B KA KB sep _ _ A.length (Or.inl rfl)
          (by simp only [BNode.slotuse, List.length_append]; omega) (by simp [BNode.slotuse]) hKA]
        simp [BNode.lastKey?, he, BNode.isLeaf]
      · obtain ⟨hA', hB'⟩ := shape_around hsh (Or.inl rfl)
        refine ⟨?_, ?_, by simp [flatten], ?_, by omega, ?_, by simp [sumMap, innerCount]⟩
        · simp only [List.length_append, List.length_cons, List.length_set]; omega
        · intro x hx
          simp only [List.mem_append, List.mem_cons] at hx
          rcases hx with hx | hx | hx
          · exact hA' x hx
          · subst hx; simp only [Shape, List.length_append]; omega
          · exact hB' x hx
        · simp only [List.length_append, List.length_cons, List.length_set]; omega
        · simp [sumMap, leafCount]; omega
      · intro sw hss hso
        have hYne : rx ≠ [] := by intro hh; subst hh; simp at hr1; omega
        have h1 := sep_after_merge p 0 A B KA KB sep (.leaf c) (.leaf rx) (.leaf (c ++ rx)) hKA
          (by simp only [flatten]; exact getLast?_append_of_ne_nil c rx hYne) hss
        refine ⟨sep_after_merge_refresh p sw 0 A B KA KB (.leaf (c ++ rx)) e hKA (by simpa [flatten] using he) h1, ?_⟩
        intro x hx
        simp only [List.mem_append, List.mem_cons] at hx
        rcases hx with hx | hx | hx
        · exact hso x (by simp [hx])
        · subst hx; simp [SepOk]
        · exact hso x (by simp [hx])
    | shiftL =>
      obtain ⟨R, hR, hRu⟩ := hfo
      obtain ⟨rx, rfl, hr1, hr2⟩ := shape0_leaf (hsh (slot + 1) R hR (by omega))
      simp only [BNode.slotuse] at hRu
      have hsk : slot < keys1.length := by
        have := (List.getElem?_eq_some_iff.mp hR).1; omega
      obtain ⟨A, B, KA, KB, sep, rfl, rfl, hA, hKA⟩ := pair_decomp kids1 keys1 slot _ _ hC hR hsk
      subst hA
      have hk' : A.length + 2 + B.length = KA.length + 1 + KB.length + 1 := by
        simp only [List.length_append, List.length_cons] at hk; omega
      have e1 : (A ++ BNode.leaf c :: BNode.leaf rx :: B)[A.length]? = some (.leaf c) := by simp
      have e2 : (A ++ BNode.leaf c :: BNode.leaf rx :: B)[A.length + 1]? = some (.leaf rx) := by simp
      obtain ⟨e, he⟩ := getLast?_isSome_of_length_pos (c ++ rx.take ((rx.length - c.length) / 2)) (by simp; omega)
      have hlt : A.length < (KA ++ sep :: KB).length := by
        simp only [List.length_append, List.length_cons]; omega
      refine ⟨{ keys := (KA ++ sep :: KB).set A.length e.1,
                kids := A ++ .leaf (c ++ rx.take ((rx.length - c.length) / 2)) :: .leaf (rx.drop ((rx.length - c.length) / 2)) :: B },
        _, _, 0, 0, ?_, rfl, rfl, ?_, ?_⟩
      · simp only [applyFix, e1, e2, he, hlt, if_true]
        simp
      · obtain ⟨hA', hB'⟩ := shape_around hsh (Or.inl rfl)
        refine ⟨?_, ?_, ?_, ?_, by omega, by simp [sumMap, leafCount], by simp [sumMap, innerCount]⟩
        · simp only [List.length_append, List.length_cons, List.length_set]; omega
        · intro x hx
          simp only [List.mem_append, List.mem_cons] at hx
          rcases hx with hx | hx | hx | hx
          · exact hA' x hx
          · subst hx; simp only [Shape, List.length_append, List.length_take]; omega
          · subst hx; simp only [Shape, List.length_drop]; omega
          · exact hB' x hx
        · simp only [List.flatMap_append, List.flatMap_cons, flatten, List.append_assoc]
          rw [← List.append_assoc (List.take _ rx), List.take_append_drop]
        · simp only [List.length_set]; omega
      · intro sw hss hso
        refine ⟨sep_after_shift p 0 A B KA KB sep e.1 (.leaf c) (.leaf rx) _ _ hKA
          (sepFits_refl_last p sw 0 _ e (by simpa [flatten] using he))
          (by simp only [flatten]; rw [List.getLast?_drop, if_neg (by omega)]) hss, ?_⟩
        intro x hx
        simp only [List.mem_append, List.mem_cons] at hx
        rcases hx with hx | hx | hx | hx
        · exact hso x (by simp [hx])
        · subst hx; simp [SepOk]
        · subst hx; simp [SepOk]
        · exact hso x (by simp [hx])
    | shiftR =>
      obtain ⟨hs0, L, hL, hLu⟩ := hfo
      obtain ⟨lx, rfl, hl1, hl2⟩ := shape0_leaf (hsh (slot - 1) L hL (by omega))
      simp only [BNode.slotuse] at hLu
      have hC' : kids1[slot - 1 + 1]? = some (.leaf c) := by rw [Nat.sub_add_cancel hs0]; exact hC
      obtain ⟨A, B, KA, KB, sep, rfl, rfl, hA, hKA⟩ := pair_decomp kids1 keys1 (slot - 1) _ _ hL hC' (by omega)
      have hsl : slot = A.length + 1 := by omega
      subst hsl
      have hk' : A.length + 2 + B.length = KA.length + 1 + KB.length + 1 := by
        simp only [List.length_append, List.length_cons] at hk; omega
      have e1 : (A ++ BNode.leaf lx :: BNode.leaf c :: B)[A.length + 1 - 1]? = some (.leaf lx) := by simp
      have e2 : (A ++ BNode.leaf lx :: BNode.leaf c :: B)[A.length + 1]? = some (.leaf c) := by simp
      obtain ⟨e, he⟩ := getLast?_isSome_of_length_pos (lx.take (lx.length - (lx.length - c.length) / 2)) (by simp; omega)
      refine ⟨{ keys := (KA ++ sep :: KB).set (A.length + 1 - 1) e.1,
                kids := A ++ .leaf (lx.take (lx.length - (lx.length - c.length) / 2)) ::
                  .leaf (lx.drop (lx.length - (lx.length - c.length) / 2) ++ c) :: B },
        _, _, 0, 0, ?_, rfl, rfl, ?_, ?_⟩
      · simp only [applyFix, Nat.add_one_ne_zero, if_false, e1, e2, he]
        simp
      · obtain ⟨hA', hB'⟩ := shape_around hsh (Or.inr rfl)
        refine ⟨?_, ?_, ?_, ?_, by omega, by simp [sumMap, leafCount], by simp [sumMap, innerCount]⟩
        · simp only [List.length_append, List.length_cons, List.length_set]; omega
        · intro x hx
          simp only [List.mem_append, List.mem_cons] at hx
          rcases hx with hx | hx | hx | hx
          · exact hA' x hx
          · subst hx; simp only [Shape, List.length_take]; omega
          · subst hx; simp only [Shape, List.length_append, List.length_drop]; omega
          · exact hB' x hx
        · simp only [List.flatMap_append, List.flatMap_cons, flatten, List.append_assoc]
          rw [← List.append_assoc (List.take _ lx), List.take_append_drop]
        · simp only [List.length_set]; omega


      · intro sw hss hso
        have hYne : c ≠ [] := by intro hh; subst hh; simp at hclen; omega
        have hKA' : KA.length = A.length := by omega
        have := sep_after_shift p 0 A B KA KB sep e.1 (.leaf lx) (.leaf c) (.leaf (lx.take (lx.length - (lx.length - c.length) / 2)))
          (.leaf (lx.drop (lx.length - (lx.length - c.length) / 2) ++ c)) hKA'
          (sepFits_refl_last p sw 0 _ e (by simpa [flatten] using he))
          (by simp only [flatten]; exact getLast?_append_of_ne_nil _ c hYne) hss
        refine ⟨by simpa using this, ?_⟩
        intro x hx
        simp only [List.mem_append, List.mem_cons] at hx
        rcases hx with hx | hx | hx | hx
        · exact hso x (by simp [hx])
        · subst hx; simp [SepOk]
        · subst hx; simp [SepOk]
        · exact hso x (by simp [hx])

theorem shapeS_inner {p : Params K} {h : Nat} {c : BNode K V} (hs : Shape p (h + 1) c) :
    ∃ l ks kids, c = .inner l ks kids ∧ l = h + 1 ∧ kids.length = ks.length + 1 ∧ p.innerMin ≤ ks.length ∧
      ks.length ≤ p.innerMax ∧ ∀ x ∈ kids, Shape p h x := by
  cases c with
  | leaf es => simp [Shape] at hs
  | inner l ks kids => exact ⟨l, ks, kids, rfl, by simpa [Shape] using hs⟩

theorem shapeTopS_inner {p : Params K} {ml mi h : Nat} {c : BNode K V} (hs : ShapeTop p ml mi (h + 1) c) :
    ∃ l ks kids, c = .inner l ks kids ∧ l = h + 1 ∧ kids.length = ks.length + 1 ∧ mi ≤ ks.length ∧
      ks.length ≤ p.innerMax ∧ ∀ x ∈ kids, Shape p h x := by
  cases c with
  | leaf es => simp [ShapeTop] at hs
  | inner l ks kids => exact ⟨l, ks, kids, rfl, by simpa [ShapeTop] using hs⟩

theorem sumMap_take_add_drop {α : Type} (f : α → Nat) (l : List α) (n : Nat) :
    sumMap f (l.take n) + sumMap f (l.drop n) = sumMap f l := sumMap_take_drop f l n

/-- all four rebalancing operations on two adjacent inner nodes -/
theorem rebalance_inner (p : Params K) (pv : p.Valid) (h l : Nat) (hl : l ≠ 1) (keys1 : List K)
    (kids1 : List (BNode K V)) (slot : Nat) (f : Fix)
    (hk : kids1.length = keys1.length + 1) (hslot : slot ≤ keys1.length)
    (hsh : ∀ i c, kids1[i]? = some c → i ≠ slot → Shape p (h + 1) c)
    (C : BNode K V) (hC : kids1[slot]? = some C) (hCs : ShapeTop p 0 (p.innerMin - 1) (h + 1) C)
    (hfull : p.innerMin ≤ C.slotuse → f = .none)
    (hunder : C.slotuse < p.innerMin → FixOk p.innerMin kids1 slot f) :
    ∃ fx keys3 kids3 lf inf, applyFix f keys1 kids1 slot = some fx ∧ fx.lastUp = none ∧
      fixMerge l fx slot = some (keys3, kids3, lf, inf) ∧ RebalanceOut p (h + 1) keys1 kids1 keys3 kids3 lf inf ∧
      SepPart p (h + 1) keys1 kids1 keys3 kids3 := by
  have hi4 := pv.inner4
  have hmin : 2 ≤ p.innerMin := by simp [Params.innerMin, Gen.innerSlotmin]; omega
  have hmin2 : 2 * p.innerMin ≤ p.innerMax := by simp [Params.innerMin, Gen.innerSlotmin]; omega
  obtain ⟨cv, ck, cc, rfl, hcv, hca, hc1, hc2, hcc⟩ := shapeTopS_inner hCs
  simp only [BNode.slotuse] at hfull hunder
  by_cases hu : p.innerMin ≤ ck.length
  · have := hfull hu
    subst this
    refine ⟨_, keys1, kids1, 0, 0, rfl, rfl, by simp [fixMerge], ⟨hk, ?_, rfl, rfl, by omega, rfl, rfl⟩, fun _ a b => ⟨a, b⟩⟩
    intro x hx
    obtain ⟨i, hi, rfl⟩ := List.getElem_of_mem hx
    by_cases his : i = slot
    · subst his
      rw [List.getElem?_eq_getElem hi] at hC
      have hci : kids1[i] = .inner cv ck cc := by simpa using hC
      rw [hci]
      simp only [Shape]
      exact ⟨hcv, hca, hu, hc2, hcc⟩
    · exact hsh i _ (List.getElem?_eq_getElem hi) his
  · have hfo := hunder (by omega)
    have hclen : ck.length = p.innerMin - 1 := by omega
    cases f with
    | none => exact absurd hfo (by simp [FixOk])
    | mergeL =>
      obtain ⟨hs0, L, hL, hLu⟩ := hfo
      obtain ⟨lv, lk, lc, rfl, hlv, hla, hl1, hl2, hlc⟩ := shapeS_inner (hsh (slot - 1) L hL (by omega))
      simp only [BNode.slotuse] at hLu
      have hC' : kids1[slot - 1 + 1]? = some (.inner cv ck cc) := by rw [Nat.sub_add_cancel hs0]; exact hC
      obtain ⟨A, B, KA, KB, sep, rfl, rfl, hA, hKA⟩ := pair_decomp kids1 keys1 (slot - 1) _ _ hL hC' (by omega)
      have hsl : slot = A.length + 1 := by omega
      subst hsl
      have hKA' : KA.length = A.length := by omega
      have hk' : A.length + 2 + B.length = KA.length + 1 + KB.length + 1 := by
        simp only [List.length_append, List.length_cons] at hk; omega
      have e1 : (A ++ BNode.inner lv lk lc :: BNode.inner cv ck cc :: B)[A.length + 1 - 1]? = some (.inner lv lk lc) := by simp
      have e2 : (A ++ BNode.inner lv lk lc :: BNode.inner cv ck cc :: B)[A.length + 1]? = some (.inner cv ck cc) := by simp
      have e3 : (KA ++ sep :: KB)[A.length + 1 - 1]? = some sep := by simp [← hKA']
      refine ⟨{ keys := KA ++ sep :: KB, kids := A ++ .inner lv (lk ++ sep :: ck) (lc ++ cc) :: .inner lv [] [] :: B, fixmerge := true },
        KA ++ KB, A ++ .inner lv (lk ++ sep :: ck) (lc ++ cc) :: B, 0, 1, ?_, rfl, ?_, ?_, ?_⟩
      · simp only [applyFix, Nat.add_one_ne_zero, if_false, e1, e2, e3]
        simp
      · rw [fixMerge_pair l A B KA KB sep _ _ (A.length + 1) (Or.inr rfl)
          (by simp [BNode.slotuse]) (by simp [BNode.slotuse]) hKA']
        simp [hl, BNode.isLeaf]
      · obtain ⟨hA', hB'⟩ := shape_around hsh (Or.inr rfl)
        refine ⟨?_, ?_, by simp [flatten], ?_, by omega, ?_, ?_⟩
        · simp only [List.length_append, List.length_cons]; omega
        · intro x hx
          simp only [List.mem_append, List.mem_cons] at hx
          rcases hx with hx | hx | hx
          · exact hA' x hx
          · subst hx
            simp only [Shape, List.length_append, List.length_cons]
            refine ⟨hlv, by omega, by omega, by omega, ?_⟩
            intro y hy
            rcases List.mem_append.mp hy with hy | hy
            · exact hlc y hy
            · exact hcc y hy
          · exact hB' x hx
        · simp only [List.length_append, List.length_cons]; omega
        · simp [sumMap, leafCount, List.sum_append]; omega
        · simp [sumMap, innerCount, List.sum_append]; omega
      · intro sw hss hso
        have hXso : SepOk p (h + 1) (.inner lv lk lc) := hso _ (by simp)
        have hYso : SepOk p (h + 1) (.inner cv ck cc) := hso _ (by simp)
        simp only [SepOk] at hXso hYso
        obtain ⟨_, hfitX, _⟩ := (sepSeq_pair p (h + 1) A B KA KB sep _ _ hKA').mp hss
        have hYne : cc.flatMap (flatten h) ≠ [] := flatMap_flatten_ne_nil p pv h cc hcc (by
          intro hh; subst hh; simp at hca)
        have h1 := sep_after_merge p (h + 1) A B KA KB sep (.inner lv lk lc) (.inner cv ck cc)
          (.inner lv (lk ++ sep :: ck) (lc ++ cc)) hKA'
          (by simp only [flatten, List.flatMap_append]; exact getLast?_append_of_ne_nil _ _ hYne) hss
        refine ⟨h1, ?_⟩
        intro x hx
        simp only [List.mem_append, List.mem_cons] at hx
        rcases hx with hx | hx | hx
        · exact hso x (by simp [hx])
        · subst hx
          simp only [SepOk]
          refine ⟨sepSeq_glue p h lk ck lc cc sep lv _ rfl hla
            (fun c hc => flatten_ne_nil p pv h c (hlc c hc)) hXso.1 hfitX hYso.1, ?_⟩
          intro y hy
          rcases List.mem_append.mp hy with hy | hy
          · exact hXso.2 y hy
          · exact hYso.2 y hy
        · exact hso x (by simp [hx])

    | mergeR =>
      obtain ⟨R, hR, hRu⟩ := hfo
      obtain ⟨rv, rk, rc, rfl, hrv, hra, hr1, hr2, hrc⟩ := shapeS_inner (hsh (slot + 1) R hR (by omega))
      simp only [BNode.slotuse] at hRu
      have hsk : slot < keys1.length := by
        have := (List.getElem?_eq_some_iff.mp hR).1; omega
      obtain ⟨A, B, KA, KB, sep, rfl, rfl, hA, hKA⟩ := pair_decomp kids1 keys1 slot _ _ hC hR hsk
      subst hA
      have hk' : A.length + 2 + B.length = KA.length + 1 + KB.length + 1 := by
        simp only [List.length_append, List.length_cons] at hk; omega
      have e1 : (A ++ BNode.inner cv ck cc :: BNode.inner rv rk rc :: B)[A.length]? = some (.inner cv ck cc) := by simp
      have e2 : (A ++ BNode.inner cv ck cc :: BNode.inner rv rk rc :: B)[A.length + 1]? = some (.inner rv rk rc) := by simp
      have e3 : (KA ++ sep :: KB)[A.length]? = some sep := by simp [← hKA]
      refine ⟨{ keys := KA ++ sep :: KB, kids := A ++ .inner cv (ck ++ sep :: rk) (cc ++ rc) :: .inner cv [] [] :: B, fixmerge := true },
        KA ++ KB, A ++ .inner cv (ck ++ sep :: rk) (cc ++ rc) :: B, 0, 1, ?_, rfl, ?_, ?_, ?_⟩
      · simp only [applyFix, e1, e2, e3]
        simp
      · rw [fixMerge_pair l A B KA KB sep _ _ A.length (Or.inl rfl)
          (by simp [BNode.slotuse]) (by simp [BNode.slotuse]) hKA]
        simp [hl, BNode.isLeaf]
      · obtain ⟨hA', hB'⟩ := shape_around hsh (Or.inl rfl)
        refine ⟨?_, ?_, by simp [flatten], ?_, by omega, ?_, ?_⟩
        · simp only [List.length_append, List.length_cons]; omega
        · intro x hx
          simp only [List.mem_append, List.mem_cons] at hx
          rcases hx with hx | hx | hx
          · exact hA' x hx
          · subst hx
            simp only [Shape, List.length_append, List.length_cons]
            refine ⟨hcv, by omega, by omega, by omega, ?_⟩
            intro y hy
            rcases List.mem_append.mp hy with hy | hy
            · exact hcc y hy
            · exact hrc y hy
          · exact hB' x hx
        · simp only [List.length_append, List.length_cons]; omega
        · simp [sumMap, leafCount, List.sum_append]; omega
        · simp [sumMap, innerCount, List.sum_append]; omega
      · intro sw hss hso
        have hXso : SepOk p (h + 1) (.inner cv ck cc) := hso _ (by simp)
        have hYso : SepOk p (h + 1) (.inner rv rk rc) := hso _ (by simp)
        simp only [SepOk] at hXso hYso
        obtain ⟨_, hfitX, _⟩ := (sepSeq_pair p (h + 1) A B KA KB sep _ _ hKA).mp hss
        have hYne : rc.flatMap (flatten h) ≠ [] := flatMap_flatten_ne_nil p pv h rc hrc (by
          intro hh; subst hh; simp at hra)
        have h1 := sep_after_merge p (h + 1) A B KA KB sep (.inner cv ck cc) (.inner rv rk rc)
          (.inner cv (ck ++ sep :: rk) (cc ++ rc)) hKA
          (by simp only [flatten, List.flatMap_append]; exact getLast?_append_of_ne_nil _ _ hYne) hss
        refine ⟨h1, ?_⟩
        intro x hx
        simp only [List.mem_append, List.mem_cons] at hx
        rcases hx with hx | hx | hx
        · exact hso x (by simp [hx])
        · subst hx
          simp only [SepOk]
          refine ⟨sepSeq_glue p h ck rk cc rc sep cv _ rfl hca
            (fun c hc => flatten_ne_nil p pv h c (hcc c hc)) hXso.1 hfitX hYso.1, ?_⟩
          intro y hy
          rcases List.mem_append.mp hy with hy | hy
          · exact hXso.2 y hy
          · exact hYso.2 y hy
        · exact hso x (by simp [hx])

    | shiftL =>
      obtain ⟨R, hR, hRu⟩ := hfo
      obtain ⟨rv, rk, rc, rfl, hrv, hra, hr1, hr2, hrc⟩ := shapeS_inner (hsh (slot + 1) R hR (by omega))
      simp only [BNode.slotuse] at hRu
      have hsk : slot < keys1.length := by
        have := (List.getElem?_eq_some_iff.mp hR).1; omega
      obtain ⟨A, B, KA, KB, sep, rfl, rfl, hA, hKA⟩ := pair_decomp kids1 keys1 slot _ _ hC hR hsk
      subst hA
      have hk' : A.length + 2 + B.length = KA.length + 1 + KB.length + 1 := by
        simp only [List.length_append, List.length_cons] at hk; omega
      have e1 : (A ++ BNode.inner cv ck cc :: BNode.inner rv rk rc :: B)[A.length]? = some (.inner cv ck cc) := by simp
      have e2 : (A ++ BNode.inner cv ck cc :: BNode.inner rv rk rc :: B)[A.length + 1]? = some (.inner rv rk rc) := by simp
      have e3 : (KA ++ sep :: KB)[A.length]? = some sep := by simp [← hKA]
      generalize hn : (rk.length - ck.length) / 2 = n
      have hn1 : 1 ≤ n := by omega
      have hn2 : n ≤ rk.length := by omega
      have hup : n - 1 < rk.length := by omega
      refine ⟨{ keys := (KA ++ sep :: KB).set A.length rk[n - 1],
                kids := A ++ .inner cv (ck ++ sep :: rk.take (n - 1)) (cc ++ rc.take n) :: .inner rv (rk.drop n) (rc.drop n) :: B },
        (KA ++ sep :: KB).set A.length rk[n - 1],
        A ++ .inner cv (ck ++ sep :: rk.take (n - 1)) (cc ++ rc.take n) :: .inner rv (rk.drop n) (rc.drop n) :: B,
        0, 0, ?_, rfl, by simp [fixMerge], ?_, ?_⟩
      · simp only [applyFix, e1, e2, e3, hn]
        rw [if_neg (by omega), List.getElem?_eq_getElem hup]
        simp
      · obtain ⟨hA', hB'⟩ := shape_around hsh (Or.inl rfl)
        refine ⟨?_, ?_, ?_, ?_, by omega, ?_, ?_⟩
        · simp only [List.length_append, List.length_cons, List.length_set]; omega
        · intro x hx
          simp only [List.mem_append, List.mem_cons] at hx
          rcases hx with hx | hx | hx | hx
          · exact hA' x hx
          · subst hx
            simp only [Shape, List.length_append, List.length_cons, List.length_take]
            refine ⟨hcv, by omega, by omega, by omega, ?_⟩
            intro y hy
            rcases List.mem_append.mp hy with hy | hy
            · exact hcc y hy
            · exact hrc y (List.mem_of_mem_take hy)
          · subst hx
            simp only [Shape, List.length_drop]
            refine ⟨hrv, by omega, by omega, by omega, ?_⟩
            intro y hy
            exact hrc y (List.mem_of_mem_drop hy)
          · exact hB' x hx
        · simp only [List.flatMap_append, List.flatMap_cons, flatten, List.append_assoc]
          rw [← List.append_assoc (List.flatMap _ (List.take n rc)), ← List.flatMap_append, List.take_append_drop]
        · simp only [List.length_set]; omega
        · simp only [sumMap, List.map_append, List.map_cons, List.sum_append, List.sum_cons, leafCount]
          have := sumMap_take_add_drop (leafCount h) rc n
          simp only [sumMap] at this
          omega
        · simp only [sumMap, List.map_append, List.map_cons, List.sum_append, List.sum_cons, innerCount]
          have := sumMap_take_add_drop (innerCount h) rc n
          simp only [sumMap] at this
          omega
      · intro sw hss hso
        have hXso : SepOk p (h + 1) (.inner cv ck cc) := hso _ (by simp)
        have hYso : SepOk p (h + 1) (.inner rv rk rc) := hso _ (by simp)
        simp only [SepOk] at hXso hYso
        obtain ⟨_, hfitX, _⟩ := (sepSeq_pair p (h + 1) A B KA KB sep _ _ hKA).mp hss
        have hn3 : n - 1 + 1 = n := by omega
        have hupfit : SepFits p (h + 1) rk[n - 1] (.inner cv (ck ++ sep :: rk.take (n - 1)) (cc ++ rc.take n)) := by
          have := last_flatMap_take_fits p h rk rc (n - 1) rk[n - 1] hYso.1 (List.getElem?_eq_getElem hup) (by omega)
            (cc.flatMap (flatten h))
          rw [hn3] at this
          simpa [SepFits, flatten, List.flatMap_append] using this
        have hl' : (flatten (h + 1) (BNode.inner rv (rk.drop n) (rc.drop n))).getLast? =
            (flatten (h + 1) (BNode.inner rv rk rc)).getLast? := by
          simp only [flatten]
          exact last_flatMap_drop p pv h rc n hrc (by omega)
        refine ⟨sep_after_shift p (h + 1) A B KA KB sep rk[n - 1] _ _ _ _ hKA hupfit hl' hss, ?_⟩
        intro x hx
        simp only [List.mem_append, List.mem_cons] at hx
        rcases hx with hx | hx | hx | hx
        · exact hso x (by simp [hx])
        · subst hx
          simp only [SepOk]
          refine ⟨sepSeq_glue p h ck (rk.take (n - 1)) cc (rc.take n) sep cv _ rfl hca
            (fun c hc => flatten_ne_nil p pv h c (hcc c hc)) hXso.1 hfitX (sepSeq_take p h rk rc _ _ hYso.1), ?_⟩
          intro y hy
          rcases List.mem_append.mp hy with hy | hy
          · exact hXso.2 y hy
          · exact hYso.2 y (List.mem_of_mem_take hy)
        · subst hx
          simp only [SepOk]
          exact ⟨sepSeq_drop p h rk rc n hYso.1, fun y hy => hYso.2 y (List.mem_of_mem_drop hy)⟩
        · exact hso x (by simp [hx])

    | shiftR =>
      obtain ⟨hs0, L, hL, hLu⟩ := hfo
      obtain ⟨lv, lk, lc, rfl, hlv, hla, hl1, hl2, hlc⟩ := shapeS_inner (hsh (slot - 1) L hL (by omega))
      simp only [BNode.slotuse] at hLu
      have hC' : kids1[slot - 1 + 1]? = some (.inner cv ck cc) := by rw [Nat.sub_add_cancel hs0]; exact hC
      obtain ⟨A, B, KA, KB, sep, rfl, rfl, hA, hKA⟩ := pair_decomp kids1 keys1 (slot - 1) _ _ hL hC' (by omega)
      have hsl : slot = A.length + 1 := by omega
      subst hsl
      have hKA' : KA.length = A.length := by omega
      have hk' : A.length + 2 + B.length = KA.length + 1 + KB.length + 1 := by
        simp only [List.length_append, List.length_cons] at hk; omega
      have e1 : (A ++ BNode.inner lv lk lc :: BNode.inner cv ck cc :: B)[A.length + 1 - 1]? = some (.inner lv lk lc) := by simp
      have e2 : (A ++ BNode.inner lv lk lc :: BNode.inner cv ck cc :: B)[A.length + 1]? = some (.inner cv ck cc) := by simp
      have e3 : (KA ++ sep :: KB)[A.length + 1 - 1]? = some sep := by simp [← hKA']
      generalize hn : (lk.length - ck.length) / 2 = n
      have hn1 : 1 ≤ n := by omega
      have hn2 : n ≤ lk.length := by omega
      have hup : lk.length - n < lk.length := by omega
      refine ⟨{ keys := (KA ++ sep :: KB).set (A.length + 1 - 1) lk[lk.length - n],
                kids := A ++ .inner lv (lk.take (lk.length - n)) (lc.take (lk.length - n + 1)) ::
                  .inner cv (lk.drop (lk.length - n + 1) ++ sep :: ck) (lc.drop (lk.length - n + 1) ++ cc) :: B },
        (KA ++ sep :: KB).set (A.length + 1 - 1) lk[lk.length - n],
        A ++ .inner lv (lk.take (lk.length - n)) (lc.take (lk.length - n + 1)) ::
                  .inner cv (lk.drop (lk.length - n + 1) ++ sep :: ck) (lc.drop (lk.length - n + 1) ++ cc) :: B,
        0, 0, ?_, rfl, by simp [fixMerge], ?_, ?_⟩
      · simp only [applyFix, Nat.add_one_ne_zero, if_false, e1, e2, e3, hn]
        rw [if_neg (by omega), List.getElem?_eq_getElem hup]
        simp
      · obtain ⟨hA', hB'⟩ := shape_around hsh (Or.inr rfl)
        refine ⟨?_, ?_, ?_, ?_, by omega, ?_, ?_⟩
        · simp only [List.length_append, List.length_cons, List.length_set]; omega
        · intro x hx
          simp only [List.mem_append, List.mem_cons] at hx
          rcases hx with hx | hx | hx | hx
          · exact hA' x hx
          · subst hx
            simp only [Shape, List.length_take]
            refine ⟨hlv, by omega, by omega, by omega, ?_⟩
            intro y hy
            exact hlc y (List.mem_of_mem_take hy)
          · subst hx
            simp only [Shape, List.length_append, List.length_cons, List.length_drop]
            refine ⟨hcv, by omega, by omega, by omega, ?_⟩
            intro y hy
            rcases List.mem_append.mp hy with hy | hy
            · exact hlc y (List.mem_of_mem_drop hy)
            · exact hcc y hy
          · exact hB' x hx
        · simp only [List.flatMap_append, List.flatMap_cons, flatten, List.append_assoc]
          rw [← List.append_assoc (List.flatMap _ (List.take _ lc)), ← List.flatMap_append, List.take_append_drop]
        · simp only [List.length_set]; omega
        · simp only [sumMap, List.map_append, List.map_cons, List.sum_append, List.sum_cons, leafCount]
          have := sumMap_take_add_drop (leafCount h) lc (lk.length - n + 1)
          simp only [sumMap] at this
          omega
        · simp only [sumMap, List.map_append, List.map_cons, List.sum_append, List.sum_cons, innerCount]
          have := sumMap_take_add_drop (innerCount h) lc (lk.length - n + 1)
          simp only [sumMap] at this
          omega
      · intro sw hss hso
        have hXso : SepOk p (h + 1) (.inner lv lk lc) := hso _ (by simp)
        have hYso : SepOk p (h + 1) (.inner cv ck cc) := hso _ (by simp)
        simp only [SepOk] at hXso hYso
        obtain ⟨_, hfitX, _⟩ := (sepSeq_pair p (h + 1) A B KA KB sep _ _ hKA').mp hss
        have hupfit : SepFits p (h + 1) lk[lk.length - n]
            (.inner lv (lk.take (lk.length - n)) (lc.take (lk.length - n + 1))) := by
          have := last_flatMap_take_fits p h lk lc (lk.length - n) lk[lk.length - n] hXso.1
            (List.getElem?_eq_getElem hup) (by omega) []
          simpa [SepFits, flatten] using this
        have hYne : cc.flatMap (flatten h) ≠ [] := flatMap_flatten_ne_nil p pv h cc hcc (by
          intro hh; subst hh; simp at hca)
        have hl' : (flatten (h + 1) (BNode.inner cv (lk.drop (lk.length - n + 1) ++ sep :: ck)
            (lc.drop (lk.length - n + 1) ++ cc))).getLast? = (flatten (h + 1) (BNode.inner cv ck cc)).getLast? := by
          simp only [flatten, List.flatMap_append]
          exact getLast?_append_of_ne_nil _ _ hYne
        have := sep_after_shift p (h + 1) A B KA KB sep lk[lk.length - n] _ _ _ _ hKA' hupfit hl' hss
        refine ⟨by simpa using this, ?_⟩
        intro x hx
        simp only [List.mem_append, List.mem_cons] at hx
        rcases hx with hx | hx | hx | hx
        · exact hso x (by simp [hx])
        · subst hx
          simp only [SepOk]
          exact ⟨sepSeq_take p h lk lc _ _ hXso.1, fun y hy => hXso.2 y (List.mem_of_mem_take hy)⟩
        · subst hx
          simp only [SepOk]
          have hfitD : SepFits p (h + 1) sep (.inner lv (lk.drop (lk.length - n + 1)) (lc.drop (lk.length - n + 1))) := by
            obtain ⟨e, he, hq⟩ := hfitX
            refine ⟨e, ?_, hq⟩
            simp only [flatten] at he ⊢
            rw [last_flatMap_drop p pv h lc (lk.length - n + 1) hlc (by omega)]
            exact he
          refine ⟨sepSeq_glue p h (lk.drop (lk.length - n + 1)) ck (lc.drop (lk.length - n + 1)) cc sep lv _ rfl
            (by simp only [List.length_drop]; omega)
            (fun c hc => flatten_ne_nil p pv h c (hlc c (List.mem_of_mem_drop hc)))
            (sepSeq_drop p h lk lc _ hXso.1) hfitD hYso.1, ?_⟩
          intro y hy
          rcases List.mem_append.mp hy with hy | hy
          · exact hXso.2 y (List.mem_of_mem_drop hy)
          · exact hYso.2 y hy
        · exact hso x (by simp [hx])

end TlxVerif.C01
