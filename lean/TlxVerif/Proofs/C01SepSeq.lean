/-
C01/C02 — algebra of the separator relation `SepSeq` (keys[i] ≡ largest key of kids[i]) under the list
surgery done by merge_*/shift_* and of "last entry of a node".
-/
import TlxVerif.Model.C01Tree
import TlxVerif.Proofs.C01Order
import TlxVerif.Proofs.C01Sep
namespace TlxVerif.C01

variable {K V : Type}

/-- a separator key `k` fits child `c`: it is equivalent to the largest key of `c` -/
def SepFits (p : Params K) (h : Nat) (k : K) (c : BNode K V) : Prop :=
  ∃ e, (flatten h c).getLast? = some e ∧ p.eqv k e.1 = true

theorem sepSeq_iff (p : Params K) (h : Nat) (keys : List K) (kids : List (BNode K V)) :
    SepSeq p h keys kids ↔ ∀ (i : Nat) (k : K) (c : BNode K V), keys[i]? = some k → kids[i]? = some c → SepFits p h k c := Iff.rfl

theorem sepSeq_nil (p : Params K) (h : Nat) (kids : List (BNode K V)) : SepSeq p h [] kids := by
  intro i k c hk; simp at hk

theorem sepSeq_nil_right (p : Params K) (h : Nat) (keys : List K) : SepSeq p h keys ([] : List (BNode K V)) := by
  intro i k c _ hc; simp at hc

theorem sepSeq_cons (p : Params K) (h : Nat) (k : K) (c : BNode K V) (keys : List K) (kids : List (BNode K V)) :
    SepSeq p h (k :: keys) (c :: kids) ↔ SepFits p h k c ∧ SepSeq p h keys kids := by
  constructor
  · intro hs
    refine ⟨hs 0 k c rfl rfl, ?_⟩
    intro i k' c' hk hc
    exact hs (i + 1) k' c' (by simpa using hk) (by simpa using hc)
  · intro ⟨h0, hs⟩ i k' c' hk hc
    cases i with
    | zero => simp at hk hc; subst hk; subst hc; exact h0
    | succ i => exact hs i k' c' (by simpa using hk) (by simpa using hc)

theorem sepSeq_append (p : Params K) (h : Nat) (k1 k2 : List K) (c1 c2 : List (BNode K V))
    (hlen : k1.length = c1.length) :
    SepSeq p h (k1 ++ k2) (c1 ++ c2) ↔ SepSeq p h k1 c1 ∧ SepSeq p h k2 c2 := by
  constructor
  · intro hs
    refine ⟨?_, ?_⟩
    · intro i k c hk hc
      have hi : i < k1.length := (List.getElem?_eq_some_iff.mp hk).1
      exact hs i k c (by rw [List.getElem?_append_left hi]; exact hk)
        (by rw [List.getElem?_append_left (by omega)]; exact hc)
    · intro i k c hk hc
      exact hs (k1.length + i) k c (by rw [List.getElem?_append_right (by omega)]; simpa using hk)
        (by rw [List.getElem?_append_right (by omega)]; rw [hlen]; simpa using hc)
  · intro ⟨h1, h2⟩ i k c hk hc
    by_cases hi : i < k1.length
    · rw [List.getElem?_append_left hi] at hk
      rw [List.getElem?_append_left (by omega)] at hc
      exact h1 i k c hk hc
    · rw [List.getElem?_append_right (by omega)] at hk
      rw [List.getElem?_append_right (by omega)] at hc
      rw [← hlen] at hc
      exact h2 (i - k1.length) k c hk hc

theorem sepSeq_take (p : Params K) (h : Nat) (keys : List K) (kids : List (BNode K V)) (m n : Nat)
    (hs : SepSeq p h keys kids) : SepSeq p h (keys.take m) (kids.take n) := by
  intro i k c hk hc
  rw [List.getElem?_take] at hk hc
  split at hk
  · split at hc
    · exact hs i k c hk hc
    · cases hc
  · cases hk

theorem sepSeq_drop (p : Params K) (h : Nat) (keys : List K) (kids : List (BNode K V)) (m : Nat)
    (hs : SepSeq p h keys kids) : SepSeq p h (keys.drop m) (kids.drop m) := by
  intro i k c hk hc
  rw [List.getElem?_drop] at hk hc
  exact hs (m + i) k c hk hc

/-- only the keys that have a child matter -/
theorem sepSeq_set_beyond (p : Params K) (h : Nat) (keys : List K) (kids : List (BNode K V)) (i : Nat) (k : K)
    (hs : SepSeq p h keys kids) (hi : keys.length ≤ i) : SepSeq p h (keys.set i k) kids := by
  rw [List.set_eq_of_length_le hi]; exact hs

theorem sepFits_refl_last (p : Params K) (sw : StrictWeak p.lt) (h : Nat) (c : BNode K V) (e : K × V)
    (he : (flatten h c).getLast? = some e) : SepFits p h e.1 c :=
  ⟨e, he, eqv_refl sw _⟩

/-! ### last entries of inner nodes -/

theorem getLast?_flatMap_concat {α β : Type} (f : α → List β) (l : List α) (c : α) (hc : f c ≠ []) :
    ((l ++ [c]).flatMap f).getLast? = (f c).getLast? := by
  rw [List.flatMap_append, List.flatMap_cons, List.flatMap_nil, List.append_nil, List.getLast?_append]
  cases hl : (f c).getLast? with
  | none => exact absurd (List.getLast?_eq_none_iff.mp hl) hc
  | some e => rfl

theorem getLast?_append_of_ne_nil {α : Type} (l₁ l₂ : List α) (h : l₂ ≠ []) :
    (l₁ ++ l₂).getLast? = l₂.getLast? := by
  rw [List.getLast?_append]
  cases hl : l₂.getLast? with
  | none => exact absurd (List.getLast?_eq_none_iff.mp hl) h
  | some e => rfl

end TlxVerif.C01
