/-
Specification of a k-way merge and the run lemmas (DESIGN §6 C05, layer L1).

`kMerge lt seqs` = `merge seq₀ (merge seq₁ (… ))` with the *stable* binary
merge `List.merge` (ties go to the left argument), i.e. the merge ordered by
(key, sequence index, position).  A `StableRun` emits, `n` times, the head of the
lowest-index sequence whose head is minimal; a `MinRun` the head of *some*
sequence whose head is minimal.  Every algorithm of multiway_merge.hpp is shown
(in `Props/C05.lean`) to be such a run; here: what a run produces.
-/
import TlxVerif.Proofs.C09Orders
namespace TlxVerif.C05
open TlxVerif.C09 (SWO)

variable {α : Type}

/-- "not greater" -/
def leOf (lt : α → α → Bool) : α → α → Bool := fun a b => !lt b a

/-- sorted by the comparator: no later element is less than an earlier one -/
def Sorted (lt : α → α → Bool) (l : List α) : Prop := l.Pairwise (fun a b => lt b a = false)

/-- the stable k-way merge -/
def kMerge (lt : α → α → Bool) : List (List α) → List α
  | [] => []
  | s :: rest => List.merge s (kMerge lt rest) (leOf lt)

/-- sequence `i` has head `x` (rest `q`) and no head is less than `x` -/
def IsMin (lt : α → α → Bool) (seqs : List (List α)) (i : Nat) (x : α) (q : List α) : Prop :=
  seqs[i]? = some (x :: q) ∧ ∀ (j : Nat) (y : α) (q' : List α), seqs[j]? = some (y :: q') → lt y x = false

/-- … and `i` is the lowest index among the sequences whose head is equivalent to `x` -/
def IsStableMin (lt : α → α → Bool) (seqs : List (List α)) (i : Nat) (x : α) (q : List α) : Prop :=
  IsMin lt seqs i x q ∧
    ∀ (j : Nat) (y : α) (q' : List α), j < i → seqs[j]? = some (y :: q') → lt x y = true

inductive MinRun (lt : α → α → Bool) : List (List α) → Nat → List α → List (List α) → Prop
  | done (seqs : List (List α)) : MinRun lt seqs 0 [] seqs
  | emit {seqs fin : List (List α)} {i n : Nat} {x : α} {q out : List α} :
      IsMin lt seqs i x q → MinRun lt (seqs.set i q) n out fin → MinRun lt seqs (n + 1) (x :: out) fin

inductive StableRun (lt : α → α → Bool) : List (List α) → Nat → List α → List (List α) → Prop
  | done (seqs : List (List α)) : StableRun lt seqs 0 [] seqs
  | emit {seqs fin : List (List α)} {i n : Nat} {x : α} {q out : List α} :
      IsStableMin lt seqs i x q → StableRun lt (seqs.set i q) n out fin →
      StableRun lt seqs (n + 1) (x :: out) fin

theorem StableRun.minRun {lt : α → α → Bool} {seqs fin : List (List α)} {n : Nat} {out : List α}
    (h : StableRun lt seqs n out fin) : MinRun lt seqs n out fin := by
  induction h with
  | done s => exact MinRun.done s
  | emit hm _ ih => exact MinRun.emit hm.1 ih

theorem MinRun.length {lt : α → α → Bool} {seqs fin : List (List α)} {n : Nat} {out : List α}
    (h : MinRun lt seqs n out fin) : out.length = n ∧ fin.length = seqs.length := by
  induction h with
  | done s => exact ⟨rfl, rfl⟩
  | emit _ _ ih => exact ⟨by simp [ih.1], by rw [ih.2, List.length_set]⟩

/-- runs compose -/
theorem StableRun.append {lt : α → α → Bool} {s1 s2 s3 : List (List α)} {n m : Nat} {o1 o2 : List α}
    (h1 : StableRun lt s1 n o1 s2) (h2 : StableRun lt s2 m o2 s3) : StableRun lt s1 (n + m) (o1 ++ o2) s3 := by
  induction h1 with
  | done s => simpa using h2
  | emit hm _ ih =>
    have := StableRun.emit hm (ih h2)
    rw [show ∀ a b : Nat, a + 1 + b = a + b + 1 by omega]
    exact this

theorem MinRun.append {lt : α → α → Bool} {s1 s2 s3 : List (List α)} {n m : Nat} {o1 o2 : List α}
    (h1 : MinRun lt s1 n o1 s2) (h2 : MinRun lt s2 m o2 s3) : MinRun lt s1 (n + m) (o1 ++ o2) s3 := by
  induction h1 with
  | done s => simpa using h2
  | emit hm _ ih =>
    have := MinRun.emit hm (ih h2)
    rw [show ∀ a b : Nat, a + 1 + b = a + b + 1 by omega]
    exact this

/-! ### a stable run computes the stable merge -/

theorem head_kMerge {lt : α → α → Bool} : ∀ {seqs : List (List α)} {y : α} {m : List α},
    kMerge lt seqs = y :: m → ∃ (j : Nat) (q : List α), seqs[j]? = some (y :: q)
  | [], y, m, h => by simp [kMerge] at h
  | s :: rest, y, m, h => by
    simp only [kMerge] at h
    cases s with
    | nil =>
      rw [List.nil_merge] at h
      obtain ⟨j, q, hj⟩ := head_kMerge h
      exact ⟨j + 1, q, by simpa using hj⟩
    | cons a s' =>
      cases hm : kMerge lt rest with
      | nil =>
        rw [hm, List.merge_right] at h
        injection h with h1 h2
        subst h1
        exact ⟨0, _, rfl⟩
      | cons b m' =>
        rw [hm, List.cons_merge_cons] at h
        split at h
        · injection h with h1 h2
          subst h1
          exact ⟨0, _, rfl⟩
        · injection h with h1 h2
          subst h1
          obtain ⟨j, q, hj⟩ := head_kMerge hm
          exact ⟨j + 1, q, by simpa using hj⟩

theorem kMerge_step {lt : α → α → Bool} : ∀ {seqs : List (List α)} {i : Nat} {x : α} {q : List α},
    IsStableMin lt seqs i x q → kMerge lt seqs = x :: kMerge lt (seqs.set i q)
  | [], i, x, q, h => absurd h.1.1 (by simp)
  | s :: rest, 0, x, q, h => by
    obtain ⟨⟨hs, hmin⟩, _⟩ := h
    simp only [List.getElem?_cons_zero, Option.some.injEq] at hs
    subst hs
    simp only [kMerge, List.set_cons_zero]
    cases hm : kMerge lt rest with
    | nil => simp
    | cons b m' =>
      obtain ⟨j, q', hj⟩ := head_kMerge hm
      have := hmin (j + 1) b q' (by simpa using hj)
      rw [List.cons_merge_cons]
      simp [leOf, this]
  | s :: rest, i + 1, x, q, h => by
    obtain ⟨⟨hs, hmin⟩, hst⟩ := h
    have ih := kMerge_step (lt := lt) (seqs := rest) (i := i) (x := x) (q := q)
      ⟨⟨by simpa using hs, fun j y q' hj => hmin (j + 1) y q' (by simpa using hj)⟩,
       fun j y q' hji hj => hst (j + 1) y q' (by omega) (by simpa using hj)⟩
    simp only [kMerge, List.set_cons_succ]
    rw [ih]
    cases s with
    | nil => simp [List.nil_merge]
    | cons y s' =>
      have := hst 0 y s' (by omega) rfl
      rw [List.cons_merge_cons]
      simp [leOf, this]

/-- **L1 (stable).**  A stable run of `n` steps writes the first `n` elements of the stable
merge; what it leaves merges to the rest. -/
theorem StableRun.kMerge_eq {lt : α → α → Bool} {seqs fin : List (List α)} {n : Nat} {out : List α}
    (h : StableRun lt seqs n out fin) : kMerge lt seqs = out ++ kMerge lt fin := by
  induction h with
  | done s => simp
  | emit hm _ ih => rw [kMerge_step hm, ih]; simp

theorem StableRun.out_eq_take {lt : α → α → Bool} {seqs fin : List (List α)} {n : Nat} {out : List α}
    (h : StableRun lt seqs n out fin) : out = (kMerge lt seqs).take n := by
  rw [h.kMerge_eq, ← h.minRun.length.1]; simp

theorem isStableMin_unique {lt : α → α → Bool} {seqs : List (List α)} {i i' : Nat} {x x' : α} {q q' : List α}
    (h : IsStableMin lt seqs i x q) (h' : IsStableMin lt seqs i' x' q') : i = i' ∧ x = x' ∧ q = q' := by
  have hi : i = i' := by
    rcases Nat.lt_trichotomy i i' with c | c | c
    · have a := h'.2 i x q c h.1.1
      have b := h.1.2 i' x' q' h'.1.1
      rw [a] at b; cases b
    · exact c
    · have a := h.2 i' x' q' c h'.1.1
      have b := h'.1.2 i x q h.1.1
      rw [a] at b; cases b
  subst hi
  have := h.1.1.symm.trans h'.1.1
  simp at this
  exact ⟨rfl, this.1, this.2⟩

/-- the stable run is unique: output and advanced inputs are determined by the inputs -/
theorem StableRun.unique {lt : α → α → Bool} {seqs fin fin' : List (List α)} {n : Nat} {out out' : List α}
    (h : StableRun lt seqs n out fin) (h' : StableRun lt seqs n out' fin') : out = out' ∧ fin = fin' := by
  induction h generalizing out' fin' with
  | done s => cases h'; exact ⟨rfl, rfl⟩
  | emit hm _ ih =>
    cases h' with
    | emit hm' hr' =>
      obtain ⟨rfl, rfl, rfl⟩ := isStableMin_unique hm hm'
      obtain ⟨rfl, rfl⟩ := ih hr'
      exact ⟨rfl, rfl⟩

/-! ### what any minimal-head run produces -/

theorem flatten_set_perm : ∀ {seqs : List (List α)} {i : Nat} {x : α} {q : List α},
    seqs[i]? = some (x :: q) → seqs.flatten.Perm (x :: (seqs.set i q).flatten)
  | [], i, x, q, h => by simp at h
  | s :: rest, 0, x, q, h => by
    simp only [List.getElem?_cons_zero, Option.some.injEq] at h
    subst h
    simp
  | s :: rest, i + 1, x, q, h => by
    have ih := flatten_set_perm (seqs := rest) (i := i) (x := x) (q := q) (by simpa using h)
    simp only [List.flatten_cons, List.set_cons_succ]
    exact (List.Perm.append_left s ih).trans List.perm_middle

/-- output and leftovers are a rearrangement of the input -/
theorem MinRun.perm {lt : α → α → Bool} {seqs fin : List (List α)} {n : Nat} {out : List α}
    (h : MinRun lt seqs n out fin) : (out ++ fin.flatten).Perm seqs.flatten := by
  induction h with
  | done s => simp
  | emit hm _ ih =>
    exact ((List.Perm.cons _ ih).trans (flatten_set_perm hm.1).symm)

/-- every input is advanced exactly past the elements taken from it, which appear in the output
in their original order -/
theorem MinRun.taken {lt : α → α → Bool} {seqs fin : List (List α)} {n : Nat} {out : List α}
    (h : MinRun lt seqs n out fin) :
    ∀ (i : Nat) (s : List α), seqs[i]? = some s →
      ∃ taken f, fin[i]? = some f ∧ s = taken ++ f ∧ taken.Sublist out := by
  induction h with
  | done s0 => exact fun i s hs => ⟨[], s, hs, rfl, List.Sublist.refl _⟩
  | @emit seqs fin i0 n x q out hm _ ih =>
    intro i s hs
    by_cases hi : i = i0
    · subst hi
      have : s = x :: q := by rw [hm.1] at hs; cases hs; rfl
      subst this
      have hlt : i < seqs.length := by
        by_cases c : i < seqs.length
        · exact c
        · rw [List.getElem?_eq_none (by omega)] at hs; cases hs
      obtain ⟨taken, f, hf, hq, hsub⟩ := ih i q (by simp [hlt])
      exact ⟨x :: taken, f, hf, by rw [hq]; rfl, hsub.cons_cons x⟩
    · obtain ⟨taken, f, hf, hq, hsub⟩ := ih i s (by rw [List.getElem?_set_ne (fun h => hi h.symm)]; exact hs)
      exact ⟨taken, f, hf, hq, hsub.cons x⟩

theorem sorted_tail {lt : α → α → Bool} {x : α} {q : List α} (h : Sorted lt (x :: q)) : Sorted lt q :=
  (List.pairwise_cons.1 h).2

/-- **L1 (unstable).**  With sorted inputs, any minimal-head run writes a sorted output none of
whose elements is greater than any element left behind. -/
theorem MinRun.sorted {lt : α → α → Bool} (hlt : SWO lt) {seqs fin : List (List α)} {n : Nat} {out : List α}
    (h : MinRun lt seqs n out fin) (hs : ∀ s ∈ seqs, Sorted lt s) :
    Sorted lt out ∧ (∀ x ∈ out, ∀ y ∈ fin.flatten, lt y x = false) ∧ (∀ s ∈ fin, Sorted lt s) := by
  induction h with
  | done s0 => exact ⟨List.Pairwise.nil, fun x hx => (by cases hx), hs⟩
  | @emit seqs fin i0 n x q out hm hr ih =>
    have hs' : ∀ s ∈ seqs.set i0 q, Sorted lt s := by
      intro s hmem
      rcases List.mem_or_eq_of_mem_set hmem with h | h
      · exact hs s h
      · subst h; exact sorted_tail (hs _ (List.mem_of_getElem? hm.1))
    obtain ⟨ih1, ih2, ih3⟩ := ih hs'
    -- `x` is not greater than anything that is still in the sequences
    have hx : ∀ y ∈ (seqs.set i0 q).flatten, lt y x = false := by
      intro y hy
      have hy' : y ∈ seqs.flatten := ((flatten_set_perm hm.1).mem_iff).2 (List.mem_cons_of_mem _ hy)
      obtain ⟨s, hsm, hys⟩ := List.mem_flatten.1 hy'
      obtain ⟨j, hjl, hj⟩ := List.getElem_of_mem hsm
      cases s with
      | nil => cases hys
      | cons a s' =>
        have ha : lt a x = false := hm.2 j a s' (by rw [List.getElem?_eq_getElem hjl, hj])
        rcases List.mem_cons.1 hys with h | h
        · rw [h]; exact ha
        · have := (List.pairwise_cons.1 (hs _ hsm)).1 y h
          exact hlt.ntrans y a x this ha
    have hperm := hr.perm
    refine ⟨List.pairwise_cons.2 ⟨fun y hy => hx y ((hperm.mem_iff).1 (List.mem_append_left _ hy)), ih1⟩, ?_, ih3⟩
    intro x' hx' y hy
    rcases List.mem_cons.1 hx' with h | h
    · rw [h]; exact hx y ((hperm.mem_iff).1 (List.mem_append_right _ hy))
    · exact ih2 x' h y hy

/-! ### the stable merge itself -/

theorem kMerge_perm (lt : α → α → Bool) : ∀ (seqs : List (List α)), (kMerge lt seqs).Perm seqs.flatten
  | [] => by simp [kMerge]
  | s :: rest => by
    simp only [kMerge, List.flatten_cons]
    exact (List.merge_perm_append (leOf lt)).trans (List.Perm.append_left s (kMerge_perm lt rest))

theorem kMerge_sorted {lt : α → α → Bool} (hlt : SWO lt) : ∀ (seqs : List (List α)),
    (∀ s ∈ seqs, Sorted lt s) → Sorted lt (kMerge lt seqs)
  | [], _ => List.Pairwise.nil
  | s :: rest, hs => by
    have ih := kMerge_sorted hlt rest (fun s' h => hs s' (List.mem_cons_of_mem _ h))
    have h0 := hs s List.mem_cons_self
    simp only [kMerge]
    have key := List.pairwise_merge (le := leOf lt)
      (fun a b c hab hbc => by
        simp only [leOf, Bool.not_eq_true'] at hab hbc ⊢
        exact hlt.ntrans c b a hbc hab)
      (fun a b => by
        simp only [leOf, Bool.or_eq_true, Bool.not_eq_true']
        cases h : lt b a with
        | false => exact Or.inl rfl
        | true => exact Or.inr (hlt.asymm b a h))
      s (kMerge lt rest)
      (by simpa [Sorted, leOf] using h0) (by simpa [Sorted, leOf] using ih)
    simpa [Sorted, leOf] using key

/-- a stable run exists for every `n` up to the total size (the specification is total) -/
theorem exists_stableMin {lt : α → α → Bool} (hlt : SWO lt) : ∀ (seqs : List (List α)),
    (∃ s ∈ seqs, s ≠ []) → ∃ i x q, IsStableMin lt seqs i x q
  | [], h => by obtain ⟨s, hs, _⟩ := h; cases hs
  | s :: rest, h => by
    by_cases hr : ∃ s' ∈ rest, s' ≠ []
    · obtain ⟨i, x, q, ⟨hi, hmin⟩, hst⟩ := exists_stableMin hlt rest hr
      cases s with
      | nil =>
        refine ⟨i + 1, x, q, ⟨by simpa using hi, fun j y q' hj => ?_⟩, fun j y q' hji hj => ?_⟩
        · cases j with
          | zero => simp at hj
          | succ j => exact hmin j y q' (by simpa using hj)
        · cases j with
          | zero => simp at hj
          | succ j => exact hst j y q' (by omega) (by simpa using hj)
      | cons a s' =>
        by_cases c : lt x a = true
        · refine ⟨i + 1, x, q, ⟨by simpa using hi, fun j y q' hj => ?_⟩, fun j y q' hji hj => ?_⟩
          · cases j with
            | zero => simp at hj; rw [← hj.1]; exact hlt.asymm x a c
            | succ j => exact hmin j y q' (by simpa using hj)
          · cases j with
            | zero => simp at hj; rw [← hj.1]; exact c
            | succ j => exact hst j y q' (by omega) (by simpa using hj)
        · have c' : lt x a = false := by simpa using c
          refine ⟨0, a, s', ⟨rfl, fun j y q' hj => ?_⟩, fun j y q' hji _ => by omega⟩
          cases j with
          | zero => simp at hj; rw [← hj.1]; exact hlt.irrefl a
          | succ j =>
            have := hmin j y q' (by simpa using hj)
            exact hlt.ntrans y x a this c'
    · cases s with
      | nil =>
        obtain ⟨s0, hs0, hne⟩ := h
        rcases List.mem_cons.1 hs0 with e | e
        · exact absurd e hne
        · exact absurd ⟨s0, e, hne⟩ hr
      | cons a s' =>
        refine ⟨0, a, s', ⟨rfl, fun j y q' hj => ?_⟩, fun j y q' hji _ => by omega⟩
        cases j with
        | zero => simp at hj; rw [← hj.1]; exact hlt.irrefl a
        | succ j =>
          exfalso
          exact hr ⟨y :: q', List.mem_of_getElem? (by simpa using hj), by simp⟩

theorem length_flatten_set {seqs : List (List α)} {i : Nat} {x : α} {q : List α}
    (h : seqs[i]? = some (x :: q)) : seqs.flatten.length = (seqs.set i q).flatten.length + 1 := by
  have := (flatten_set_perm h).length_eq
  simpa using this

theorem exists_stableRun {lt : α → α → Bool} (hlt : SWO lt) : ∀ (n : Nat) (seqs : List (List α)),
    n ≤ seqs.flatten.length → ∃ out fin, StableRun lt seqs n out fin
  | 0, seqs, _ => ⟨[], seqs, StableRun.done seqs⟩
  | n + 1, seqs, h => by
    have hne : ∃ s ∈ seqs, s ≠ [] := by
      by_cases c : ∃ s ∈ seqs, s ≠ []
      · exact c
      · exfalso
        have : seqs.flatten = [] := by
          rw [List.flatten_eq_nil_iff]
          intro l hl
          by_cases e : l = []
          · exact e
          · exact absurd ⟨l, hl, e⟩ c
        rw [this] at h; simp at h
    obtain ⟨i, x, q, hm⟩ := exists_stableMin hlt seqs hne
    have hl := length_flatten_set hm.1.1
    obtain ⟨out, fin, hr⟩ := exists_stableRun hlt n (seqs.set i q) (by omega)
    exact ⟨x :: out, fin, StableRun.emit hm hr⟩

end TlxVerif.C05
