/-
C06 — the executable model `pmsort` refines its specification: for every input, thread count ≥ 1 and both
splitting strategies the model of `parallel_mergesort_base` returns the stable sort of the input, with
adjacent per-thread merge windows and a balanced temporaries ledger.
-/
import TlxVerif.Proofs.C06Sampling
import TlxVerif.Proofs.C07Refine
namespace TlxVerif.C06
open TlxVerif.C08 (StrictWeak IsPartition)
open TlxVerif.C07 (Elem kMerge kMergeTake sortStable keyRuns chunkRows chunkTable lastRank lens takes drops LeAll
  Chain lastOffs Bounded blocksFrom Consec TileFrom PartSpec mapM_ok ok_bind)

/-! ### starts in closed form -/

def startAt (n p i : Nat) : Nat := i * (n / p) + min i (n % p)

theorem startsOf_go_eq (chunk split : Nat) :
    ∀ (fuel i start : Nat) (acc : List Nat), start = i * chunk + min i split →
      startsOf.go chunk split fuel i start acc =
        acc ++ (List.range (fuel + 1)).map (fun j => (i + j) * chunk + min (i + j) split)
  | 0, i, start, acc, h => by simp [startsOf.go, h]
  | fuel + 1, i, start, acc, h => by
    have hnext : start + (if i < split then chunk + 1 else chunk) = (i + 1) * chunk + min (i + 1) split := by
      rw [Nat.succ_mul, h]
      split <;> omega
    have : startsOf.go chunk split (fuel + 1) i start acc =
        startsOf.go chunk split fuel (i + 1) (start + (if i < split then chunk + 1 else chunk)) (acc ++ [start]) := rfl
    rw [this, startsOf_go_eq chunk split fuel (i + 1) _ _ hnext, List.range_succ_eq_map (n := fuel + 1)]
    simp only [List.map_cons, List.map_map, List.append_assoc, List.singleton_append, Nat.add_zero, ← h]
    congr 2
    apply List.map_congr_left
    intro j _
    simp only [Function.comp]
    have : i + 1 + j = i + (j + 1) := by omega
    rw [this]

theorem startsOf_eq (n p : Nat) : startsOf n p = (List.range (p + 1)).map (startAt n p) := by
  unfold startsOf
  rw [startsOf_go_eq (n / p) (n % p) p 0 0 [] (by simp)]
  simp [startAt]

theorem starts_getD (n p i : Nat) (hi : i ≤ p) : (startsOf n p).getD i 0 = startAt n p i := by
  rw [startsOf_eq]
  simp [List.getD, List.getElem?_map, List.getElem?_range (by omega : i < p + 1)]

theorem startAt_last (n p : Nat) (hp : 1 ≤ p) : startAt n p p = n := by
  unfold startAt
  have h1 : n % p < p := Nat.mod_lt _ (by omega)
  rw [Nat.min_eq_right (Nat.le_of_lt h1)]
  exact Nat.div_add_mod n p

theorem startAt_mono (n p : Nat) {i j : Nat} (h : i ≤ j) : startAt n p i ≤ startAt n p j := by
  unfold startAt
  have := Nat.mul_le_mul_right (n / p) h
  omega

theorem startAt_step (n p : Nat) (hp : 1 ≤ p) (hpn : p ≤ n) (i : Nat) : startAt n p i < startAt n p (i + 1) := by
  unfold startAt
  have hc : 1 ≤ n / p := (Nat.le_div_iff_mul_le (by omega)).mpr (by omega)
  rw [Nat.succ_mul]
  omega

theorem startAt_le (n p : Nat) (hp : 1 ≤ p) {i : Nat} (hi : i ≤ p) : startAt n p i ≤ n := by
  have := startAt_mono n p hi
  rwa [startAt_last n p hp] at this

/-! ### temporaries -/

theorem temps_eq (lt : Int → Int → Bool) (slices : List (List Elem)) :
    slices.map (fun slice => kMerge lt [slice]) = slices.map (sortStable lt) := by
  apply List.map_congr_left
  intro s _
  simp [kMerge, sortStable]

theorem temps_total {lt : Int → Int → Bool} {input : List Elem} {slices : List (List Elem)}
    (hfl : slices.flatten = input) : ((slices.map (sortStable lt)).map List.length).sum = input.length := by
  rw [← List.length_flatten, (map_sortStable_flatten_perm lt slices).length_eq, hfl]

/-! ### one thread of the merge-back -/

theorem mergePart_eq (lt : Int → Int → Bool) {temps : List (List Elem)} {prev o : List Nat}
    (hle : LeAll prev o) (hlen : o.length = temps.length) (hb : Bounded temps o) :
    mergePart lt temps (List.zipWith C07.Chunk.mk prev o) = .ok (prev.sum, kMerge lt (drops (takes temps o) prev)) := by
  have hloc := C07.sum_local_zipWith prev o hle
  have hrow := C07.chunk_row_length hle hlen hb
  unfold mergePart
  rw [C07.slice_row temps prev o hle hlen hb, ok_bind, C07.map_first_zipWith prev o hle.length_eq]
  unfold kMergeTake
  dsimp only
  rw [List.take_of_length_le]
  · rfl
  · rw [C07.kMerge_eq_sortStable, C07.sortStable_length]; omega

theorem mergeRows_mapM (lt : Int → Int → Bool) {temps : List (List Elem)} :
    ∀ (os : List (List Nat)) (prev : List Nat), Chain prev os →
      (∀ o ∈ os, o.length = temps.length ∧ Bounded temps o) →
      (chunkTable prev os).mapM (mergePart lt temps) = .ok (blocksFrom lt temps prev os)
  | [], _, _, _ => rfl
  | o :: os, prev, hch, hall => by
    have ho := hall o List.mem_cons_self
    simp only [chunkTable, List.mapM_cons, mergePart_eq lt hch.1 ho.1 ho.2,
      mergeRows_mapM lt os o hch.2 (fun o' h' => hall o' (List.mem_cons_of_mem _ h')), blocksFrom]
    rfl

/-- what `parallel_mergesort_base` has to deliver -/
structure SortSpec (lt : Int → Int → Bool) (input : List Elem) (r : Result) : Prop where
  out : r.out = sortStable lt input
  windows : TileFrom 0 input.length r.mergeWindows
  ledger : r.constructed = input.length ∧ r.destroyed = input.length

/-- the merge-back and `assemble`, for any chain of piece ends that ends at the ends of the temporaries -/
theorem msRun_ok (lt : Int → Int → Bool) {temps : List (List Elem)} {n : Nat} (starts : List Nat)
    {ends : List (List Nat)} (hch : Chain (List.replicate temps.length 0) ends)
    (hall : ∀ o ∈ ends, o.length = temps.length ∧ Bounded temps o)
    (hlast : (lastOffs (List.replicate temps.length 0) ends).sum = n) :
    ∃ r, msRun lt temps n starts ends = .ok r ∧
      r.out = ((chunkRows temps (List.replicate temps.length 0) ends).map (fun row => kMerge lt row)).flatten ∧
      TileFrom 0 n r.mergeWindows ∧ r.constructed = (ledger starts).1 ∧ r.destroyed = (ledger starts).2 := by
  have hcons := C07.blocksFrom_consec lt ends _ hch hall
  have htot := C07.blocks_total_length lt ends _ hch hall
  have hz : (List.replicate temps.length 0).sum = 0 := by simp
  rw [hz] at hcons htot
  have hrun : msRun lt temps n starts ends = .ok
      { out := ((blocksFrom lt temps (List.replicate temps.length 0) ends).map (·.2)).flatten,
        copyWindows := windowsBy starts,
        mergeWindows := (blocksFrom lt temps (List.replicate temps.length 0) ends).map (fun w => (w.1, w.2.length)),
        constructed := (ledger starts).1, destroyed := (ledger starts).2 } := by
    unfold msRun
    dsimp only
    rw [mergeRows_mapM lt ends _ hch hall, ok_bind, C07.assemble_consec hcons (by omega : _ = n), ok_bind]
    rfl
  refine ⟨_, hrun, by simp only [C07.blocksFrom_snd], ?_, rfl, rfl⟩
  have := C07.tileFrom_of_consec _ 0 hcons
  rw [Nat.zero_add] at this
  have e : ((blocksFrom lt temps (List.replicate temps.length 0) ends).map (·.2.length)).sum = n := by omega
  rw [e] at this
  exact this

/-! ### exact splitting -/

def exactPsS (O : Nat → List Nat) (n p : Nat) (last : List Nat) : List (Nat × List Nat) :=
  (List.range (p - 1)).map (fun iam => (startAt n p (iam + 1), O (startAt n p (iam + 1)))) ++ [(n, last)]

theorem lastRank_append_singleton : ∀ (l : List (Nat × List Nat)) (r0 : Nat) (x : Nat × List Nat),
    lastRank r0 (l ++ [x]) = x.1
  | [], _, _ => rfl
  | a :: l, _, x => lastRank_append_singleton l a.1 x

theorem ms_exact_refines {lt : Int → Int → Bool} (hlt : StrictWeak lt) {input : List Elem}
    (hpos : input.Pairwise posLt) {p : Nat} (hp : 1 ≤ p)
    (hpart : PartSpec lt ((slicesBy input (startsOf input.length p)).map (sortStable lt))) :
    ∃ r, (exactPieceEnds (C07.partOffsets lt ((slicesBy input (startsOf input.length p)).map (sortStable lt)))
            ((slicesBy input (startsOf input.length p)).map (sortStable lt)) (startsOf input.length p) p >>=
          msRun lt ((slicesBy input (startsOf input.length p)).map (sortStable lt)) input.length
            (startsOf input.length p)) = .ok r ∧ SortSpec lt input r := by
  obtain ⟨_, h0, hl, hmono⟩ := startsOf_spec input.length p hp
  have hfl : (slicesBy input (startsOf input.length p)).flatten = input := by
    rw [slicesBy_flatten input _ 0 h0 hmono _ hl]; simp
  generalize hT : (slicesBy input (startsOf input.length p)).map (sortStable lt) = T at hpart ⊢
  have htot : (T.map List.length).sum = input.length := by rw [← hT]; exact temps_total hfl
  obtain ⟨O, hO⟩ := hpart
  have hkl : (keyRuns T).length = T.length := by simp [keyRuns]
  -- the inner partitions
  have hinner : (List.range (p - 1)).mapM (fun iam =>
      C07.partOffsets lt T (((startsOf input.length p).getD (iam + 1) 0 : Nat) : Int)) =
      .ok ((List.range (p - 1)).map (fun iam => O (startAt input.length p (iam + 1)))) := by
    apply mapM_ok
    intro iam hi
    have hip : iam < p - 1 := List.mem_range.mp hi
    rw [starts_getD _ _ _ (by omega)]
    exact (hO _ (by rw [htot]; exact startAt_le _ _ hp (by omega))).1
  have hends : exactPieceEnds (C07.partOffsets lt T) T (startsOf input.length p) p =
      .ok ((exactPsS O input.length p (T.map List.length)).map (·.2)) := by
    unfold exactPieceEnds
    rw [hinner, ok_bind]
    simp only [exactPsS, List.map_append, List.map_map, List.map_cons, List.map_nil]
    rfl
  have hlastP : IsPartition lt (keyRuns T) input.length (T.map List.length) := by
    have := isPartition_lens lt T; rwa [htot] at this
  have hallp : ∀ q ∈ exactPsS O input.length p (T.map List.length), IsPartition lt (keyRuns T) q.1 q.2 := by
    intro q hq
    simp only [exactPsS, List.mem_append, List.mem_map, List.mem_range, List.mem_cons, List.mem_nil_iff,
      or_false] at hq
    rcases hq with ⟨iam, hi, rfl⟩ | rfl
    · exact (hO _ (by rw [htot]; exact startAt_le _ _ hp (by omega))).2
    · exact hlastP
  have hm : (0 :: (exactPsS O input.length p (T.map List.length)).map (·.1)).Pairwise (· ≤ ·) := by
    refine List.pairwise_cons.mpr ⟨fun _ _ => Nat.zero_le _, ?_⟩
    simp only [exactPsS, List.map_append, List.map_map, List.map_cons, List.map_nil]
    rw [List.pairwise_append]
    refine ⟨?_, List.pairwise_singleton _ _, ?_⟩
    · rw [List.pairwise_map]
      refine List.Pairwise.imp_of_mem ?_ (List.pairwise_lt_range (n := p - 1))
      intro s t _ _ hst
      exact startAt_mono _ _ (by omega)
    · intro x hx y hy
      obtain ⟨iam, hi, rfl⟩ := List.mem_map.mp hx
      simp at hy; subst hy
      exact startAt_le _ _ hp (by have := List.mem_range.mp hi; omega)
  have hlr : lastRank 0 (exactPsS O input.length p (T.map List.length)) = input.length :=
    lastRank_append_singleton _ _ _
  have hlo : lastOffs (List.replicate T.length 0) ((exactPsS O input.length p (T.map List.length)).map (·.2)) =
      T.map List.length := by
    simp only [exactPsS, List.map_append, List.map_cons, List.map_nil]
    exact C07.lastOffs_append_singleton _ _ _
  have hz : IsPartition lt (keyRuns T) 0 (List.replicate T.length 0) := by
    have := C07.isPartition_zero lt (keyRuns T); rwa [hkl] at this
  have hch := C07.chain_of_partitions hlt _ 0 _ hz hm hallp
  have hall : ∀ o ∈ (exactPsS O input.length p (T.map List.length)).map (·.2), o.length = T.length ∧ Bounded T o := by
    intro o ho
    obtain ⟨q, hq, rfl⟩ := List.mem_map.mp ho
    exact ⟨by rw [(hallp q hq).len, hkl], C07.bounded_of_partition (hallp q hq)⟩
  obtain ⟨r, hr, hout, hwin, hc, hd⟩ := msRun_ok lt (startsOf input.length p) hch hall (by rw [hlo, htot])
  refine ⟨r, by rw [hends, ok_bind]; exact hr, ?_, hwin, ?_⟩
  · rw [hout]
    have := mergesort_exact_eq_stable_sort hlt hpos h0 hmono hl (exactPsS O input.length p (T.map List.length))
      hm (by rw [hT]; exact hallp) hlr
    rw [hT] at this
    exact this
  · have := ledger_balanced input.length p hp
    rw [hc, hd]; exact this

/-! ### sampling splitting -/

theorem bounded_lb (lt : Int → Int → Bool) (runs : List (List Elem)) (v : Int) : Bounded runs (lbOffs lt runs v) := by
  intro i r x hr hx
  simp only [lbOffs, List.getElem?_map, hr, Option.map_some, Option.some.injEq] at hx
  subst hx; exact lowerBound_le lt v r

theorem sampling_chain_lb {lt : Int → Int → Bool} (hlt : StrictWeak lt) (runs : List (List Elem)) (vs : List Int)
    (hvs : vs.Pairwise (fun a b => lt b a = false)) :
    Chain (List.replicate runs.length 0) (samplingOffsLb lt runs vs) ∧
    ∀ o ∈ samplingOffsLb lt runs vs, o.length = runs.length ∧ Bounded runs o := by
  constructor
  · cases vs with
    | nil =>
      have := C07.leAll_zero (lens runs)
      simp only [lens, List.length_map] at this
      exact ⟨this, trivial⟩
    | cons v vs =>
      have := C07.leAll_zero (lbOffs lt runs v)
      simp only [lbOffs, List.length_map] at this
      exact ⟨this, chain_sampling_lb hlt runs vs v hvs⟩
  · intro o ho
    rcases List.mem_append.mp ho with ho | ho
    · obtain ⟨v, _, rfl⟩ := List.mem_map.mp ho
      exact ⟨by simp [lbOffs], bounded_lb lt runs v⟩
    · simp at ho; subst ho
      exact ⟨by simp [lens], C07.bounded_lens runs⟩

def keyAtI (source : List Elem) (idx : Int) : Int :=
  match source[idx.toNat]? with
  | some e => e.key
  | none => 0

theorem sourceKey_ok {source : List Elem} {idx : Int} (h0 : 0 ≤ idx) (h1 : idx < source.length) :
    sourceKey source idx = .ok (keyAtI source idx) := by
  unfold sourceKey keyAtI
  have hn : ¬ idx < 0 := by omega
  have hlt : idx.toNat < source.length := by omega
  rw [if_neg hn, List.getElem?_eq_getElem hlt]
  rfl

/-- the unsorted samples as a pure function -/
def rawSamplesS (source : List Elem) (starts : List Nat) (p ns : Nat) : List Int :=
  ((List.range p).map (fun iam => (List.range ns).map (fun i =>
    keyAtI source ((starts.getD iam 0 : Nat) +
      (C07.equallySplit ((starts.getD (iam + 1) 0 - starts.getD iam 0 : Nat) : Int) (ns + 1)).getD (i + 1) 0)))).flatten

theorem length_flatten_const {α β : Type} (f : α → List β) (c : Nat) : ∀ (l : List α), (∀ x ∈ l, (f x).length = c) →
    (l.map f).flatten.length = l.length * c
  | [], _ => by simp
  | x :: l, h => by
    simp only [List.map_cons, List.flatten_cons, List.length_append, List.length_cons]
    rw [h x List.mem_cons_self, length_flatten_const f c l (fun y hy => h y (List.mem_cons_of_mem _ hy)), Nat.succ_mul]
    omega

theorem rawSamplesS_length (source : List Elem) (starts : List Nat) (p ns : Nat) :
    (rawSamplesS source starts p ns).length = p * ns := by
  unfold rawSamplesS
  rw [length_flatten_const _ ns _ (by intro x _; simp)]
  simp

theorem sortedSamples_ok (lt : Int → Int → Bool) {source : List Elem} {p ns : Nat} (hp : 1 ≤ p)
    (hpn : p ≤ source.length) :
    sortedSamples lt source (startsOf source.length p) p ns =
      .ok (C07.sortKeys lt (rawSamplesS source (startsOf source.length p) p ns)) := by
  unfold sortedSamples
  have hrows : (List.range p).mapM (fun iam => (List.range ns).mapM (fun i =>
      sourceKey source (((startsOf source.length p).getD iam 0 : Nat) +
        (C07.equallySplit (((startsOf source.length p).getD (iam + 1) 0 - (startsOf source.length p).getD iam 0 : Nat) : Int)
          (ns + 1)).getD (i + 1) 0))) =
      .ok ((List.range p).map (fun iam => (List.range ns).map (fun i =>
        keyAtI source (((startsOf source.length p).getD iam 0 : Nat) +
          (C07.equallySplit (((startsOf source.length p).getD (iam + 1) 0 - (startsOf source.length p).getD iam 0 : Nat) : Int)
            (ns + 1)).getD (i + 1) 0)))) := by
    apply mapM_ok
    intro iam hiam
    apply mapM_ok
    intro i hi
    have hip : iam < p := List.mem_range.mp hiam
    have hin : i < ns := List.mem_range.mp hi
    rw [starts_getD _ _ _ (by omega : iam ≤ p), starts_getD _ _ _ (by omega : iam + 1 ≤ p)]
    have hstep := startAt_step source.length p hp hpn iam
    have hle := startAt_le source.length p hp (by omega : iam + 1 ≤ p)
    obtain ⟨x, hx, hx0, hx1⟩ := C07.equallySplit_inner_lt (startAt source.length p (iam + 1) - startAt source.length p iam)
      (ns + 1) (by omega) (by omega) (i + 1) (by omega)
    have hg : (C07.equallySplit ((startAt source.length p (iam + 1) - startAt source.length p iam : Nat) : Int) (ns + 1)).getD
        (i + 1) 0 = x := by simp [List.getD, hx]
    rw [hg]
    exact sourceKey_ok (by omega) (by omega)
  rw [hrows]
  rfl

def splitValsS (lt : Int → Int → Bool) (raw : List Int) (ns p : Nat) : List Int :=
  (List.range (p - 1)).map (fun iam => (C07.sortKeys lt raw).getD (ns * (iam + 1)) 0)

theorem splitValsS_sorted {lt : Int → Int → Bool} (hlt : StrictWeak lt) (raw : List Int) {ns p : Nat}
    (hlen : raw.length = p * ns) (hns : p - 1 = 0 ∨ 0 < ns) :
    (splitValsS lt raw ns p).Pairwise (fun a b => lt b a = false) := by
  unfold splitValsS
  have h := C07.pairwise_map_getD hlt (C07.sortKeys_sorted hlt raw) ((List.range (p - 1)).map (fun iam => ns * (iam + 1)))
    (by
      rw [List.pairwise_map]
      refine List.Pairwise.imp_of_mem ?_ (List.pairwise_lt_range (n := p - 1))
      intro s t _ _ hst
      exact Nat.mul_le_mul_left _ (by omega))
    (by
      intro i hi
      obtain ⟨s, hs, rfl⟩ := List.mem_map.mp hi
      have hsp : s < p - 1 := List.mem_range.mp hs
      rw [(C07.sortKeys_perm lt raw).length_eq, hlen, Nat.mul_comm p]
      rcases hns with h | h
      · omega
      · exact Nat.mul_lt_mul_of_pos_left (by omega) h)
  simpa [List.map_map, Function.comp_def] using h

theorem ms_sampling_refines (P : Params) (hlt : StrictWeak P.lt) {input : List Elem}
    (hpos : input.Pairwise posLt) {p : Nat} (hp : 1 ≤ p) (hpn : p ≤ input.length) (hosf : 1 ≤ P.osf) :
    ∃ r, (samplingPieceEnds P input ((slicesBy input (startsOf input.length p)).map (sortStable P.lt))
            (startsOf input.length p) p >>=
          msRun P.lt ((slicesBy input (startsOf input.length p)).map (sortStable P.lt)) input.length
            (startsOf input.length p)) = .ok r ∧ SortSpec P.lt input r := by
  obtain ⟨_, h0, hl, hmono⟩ := startsOf_spec input.length p hp
  have hfl : (slicesBy input (startsOf input.length p)).flatten = input := by
    rw [slicesBy_flatten input _ 0 h0 hmono _ hl]; simp
  have hns : p - 1 = 0 ∨ 0 < P.osf * p - 1 := by
    by_cases h : p = 1
    · left; omega
    · right
      have : 2 ≤ P.osf * p := by
        calc 2 ≤ p := by omega
          _ = 1 * p := by simp
          _ ≤ P.osf * p := Nat.mul_le_mul_right _ hosf
      omega
  have hvs := splitValsS_sorted hlt (rawSamplesS input (startsOf input.length p) p (P.osf * p - 1))
    (rawSamplesS_length _ _ _ _) hns
  have hmain := mergesort_sampling_eq_stable_sort hlt hpos h0 hmono hl _ hvs
  have htot := temps_total (lt := P.lt) hfl
  generalize (slicesBy input (startsOf input.length p)).map (sortStable P.lt) = T at hmain htot ⊢
  have hends : samplingPieceEnds P input T (startsOf input.length p) p =
      .ok (samplingOffsLb P.lt T (splitValsS P.lt (rawSamplesS input (startsOf input.length p) p (P.osf * p - 1))
        (P.osf * p - 1) p)) := by
    unfold samplingPieceEnds
    dsimp only
    rw [sortedSamples_ok P.lt hp hpn, ok_bind]
    have hinner : (List.range (p - 1)).mapM (fun iam => do
        let v ← C07.splitterAt (C07.sortKeys P.lt (rawSamplesS input (startsOf input.length p) p (P.osf * p - 1)))
          ((P.osf * p - 1) * (iam + 1))
        (pure (T.map fun run => lowerBound P.lt run v) : R (List Nat))) =
        .ok ((List.range (p - 1)).map (fun iam => lbOffs P.lt T
          ((C07.sortKeys P.lt (rawSamplesS input (startsOf input.length p) p (P.osf * p - 1))).getD
            ((P.osf * p - 1) * (iam + 1)) 0))) := by
      apply mapM_ok
      intro iam hi
      have hip : iam < p - 1 := List.mem_range.mp hi
      have hpos' : 0 < P.osf * p - 1 := by rcases hns with h | h <;> omega
      have hlt' : (P.osf * p - 1) * (iam + 1) <
          (C07.sortKeys P.lt (rawSamplesS input (startsOf input.length p) p (P.osf * p - 1))).length := by
        rw [(C07.sortKeys_perm P.lt _).length_eq, rawSamplesS_length, Nat.mul_comm p]
        exact Nat.mul_lt_mul_of_pos_left (by omega) hpos'
      simp only [C07.splitterAt, List.getElem?_eq_getElem hlt', List.getD, Option.getD_some, lbOffs]
      rfl
    rw [hinner, ok_bind]
    simp only [samplingOffsLb, splitValsS, List.map_map, lens]
    rfl
  obtain ⟨hch, hall⟩ := sampling_chain_lb hlt T _ hvs
  have hlo : lastOffs (List.replicate T.length 0) (samplingOffsLb P.lt T (splitValsS P.lt
      (rawSamplesS input (startsOf input.length p) p (P.osf * p - 1)) (P.osf * p - 1) p)) = lens T := by
    unfold samplingOffsLb; exact C07.lastOffs_append_singleton _ _ _
  have hsum : (lastOffs (List.replicate T.length 0) (samplingOffsLb P.lt T (splitValsS P.lt
      (rawSamplesS input (startsOf input.length p) p (P.osf * p - 1)) (P.osf * p - 1) p))).sum = input.length := by
    rw [hlo]; exact htot
  obtain ⟨r, hr, hout, hwin, hc, hd⟩ := msRun_ok P.lt (startsOf input.length p) hch hall hsum
  refine ⟨r, by rw [hends, ok_bind]; exact hr, by rw [hout]; exact hmain, hwin, ?_⟩
  have := ledger_balanced input.length p hp
  rw [hc, hd]; exact this

/-! ### the whole model -/

theorem pmsort_unfold (P : Params) (input : List Elem) :
    pmsort P input =
      if input.length ≤ 1 then
        .ok { out := input, copyWindows := [], mergeWindows := [], constructed := 0, destroyed := 0 }
      else if (P.threads == 0) = true then throw "zero threads"
      else if P.exact = true then
        exactPieceEnds (C07.partOffsets P.lt (tempsOf P.lt input (startsOf input.length
            (if P.threads > input.length then input.length else P.threads))))
          (tempsOf P.lt input (startsOf input.length (if P.threads > input.length then input.length else P.threads)))
          (startsOf input.length (if P.threads > input.length then input.length else P.threads))
          (if P.threads > input.length then input.length else P.threads) >>=
        msRun P.lt (tempsOf P.lt input (startsOf input.length (if P.threads > input.length then input.length else P.threads)))
          input.length (startsOf input.length (if P.threads > input.length then input.length else P.threads))
      else
        samplingPieceEnds P input
          (tempsOf P.lt input (startsOf input.length (if P.threads > input.length then input.length else P.threads)))
          (startsOf input.length (if P.threads > input.length then input.length else P.threads))
          (if P.threads > input.length then input.length else P.threads) >>=
        msRun P.lt (tempsOf P.lt input (startsOf input.length (if P.threads > input.length then input.length else P.threads)))
          input.length (startsOf input.length (if P.threads > input.length then input.length else P.threads)) := rfl

theorem sortStable_small (lt : Int → Int → Bool) : ∀ (l : List Elem), l.length ≤ 1 → sortStable lt l = l
  | [], _ => rfl
  | [_], _ => rfl
  | _ :: _ :: _, h => by simp at h

/-- the number of threads actually used and the temporaries of the model -/
def usedThreads (P : Params) (n : Nat) : Nat := if P.threads > n then n else P.threads

/-- **The executable model of `parallel_mergesort_base` refines its specification**: for every input whose
elements carry their positions, every thread count ≥ 1, both splitting strategies (oversampling ≥ 1) the
model succeeds and leaves the stable sort of the input in the range; the merge windows of the threads are
adjacent and tile `[0, n)`; for n ≥ 2 the ledger of the temporaries is balanced (n constructed, n destroyed). -/
theorem pmsort_refines_spec (P : Params) (hlt : StrictWeak P.lt) (input : List Elem) (hpos : input.Pairwise posLt)
    (hthr : 1 ≤ P.threads) (hosf : 1 ≤ P.osf)
    (hpart : P.exact = true → PartSpec P.lt
      ((slicesBy input (startsOf input.length (usedThreads P input.length))).map (sortStable P.lt))) :
    ∃ r, pmsort P input = .ok r ∧ r.out = sortStable P.lt input ∧ r.constructed = r.destroyed ∧
      (2 ≤ input.length → TileFrom 0 input.length r.mergeWindows ∧ r.constructed = input.length) := by
  rw [pmsort_unfold]
  by_cases hn : input.length ≤ 1
  · rw [if_pos hn]
    exact ⟨_, rfl, (sortStable_small P.lt input hn).symm, rfl, fun h => by omega⟩
  · rw [if_neg hn]
    have ht0 : ¬ (P.threads == 0) = true := by simp only [beq_iff_eq]; omega
    rw [if_neg ht0]
    have hp1 : 1 ≤ (if P.threads > input.length then input.length else P.threads) := by split <;> omega
    have hpn : (if P.threads > input.length then input.length else P.threads) ≤ input.length := by split <;> omega
    have htemps : ∀ st, tempsOf P.lt input st = (slicesBy input st).map (sortStable P.lt) :=
      fun st => temps_eq P.lt _
    by_cases hex : P.exact = true
    · rw [if_pos hex, htemps]
      obtain ⟨r, hr, hspec⟩ := ms_exact_refines hlt hpos hp1 (hpart hex)
      exact ⟨r, hr, hspec.out, by rw [hspec.ledger.1, hspec.ledger.2], fun _ => ⟨hspec.windows, hspec.ledger.1⟩⟩
    · rw [if_neg hex, htemps]
      obtain ⟨r, hr, hspec⟩ := ms_sampling_refines P hlt hpos hp1 hpn hosf
      exact ⟨r, hr, hspec.out, by rw [hspec.ledger.1, hspec.ledger.2], fun _ => ⟨hspec.windows, hspec.ledger.1⟩⟩

end TlxVerif.C06
