/-
L2 for the guarded loser tree merge `multiway_merge_loser_tree` (k ≥ 1): by the C09 theorems the
tree always reports a minimal head (the lowest index among equivalents for the stable tree), so the
merge is a (stable) run.
-/
import TlxVerif.Proofs.C05Basic
import TlxVerif.Props.C09
namespace TlxVerif.C05
open TlxVerif.C09 (SWO Tree Variant TInv rd invalid)

variable {α : Type}

theorem exists_head_of_pos : ∀ {L : List (List α)}, 0 < L.flatten.length →
    ∃ (j : Nat) (kj : α), (L.map List.head?)[j]? = some (some kj)
  | [], h => by simp at h
  | [] :: rest, h => by
    obtain ⟨j, kj, hj⟩ := exists_head_of_pos (L := rest) (by simpa using h)
    exact ⟨j + 1, kj, by simpa using hj⟩
  | (a :: l) :: rest, _ => ⟨0, a, rfl⟩

/-- what `winner_guarded` means for the sequences themselves -/
theorem guarded_isMinS {lt : α → α → Bool} (hlt : SWO lt) {dflt : α} {t : Tree α} {L : List (List α)}
    (inv : TInv lt dflt dflt t (L.map List.head?)) (hg : t.v.guarded = true) (hpos : 0 < L.flatten.length) :
    ∃ w x q, t.minSource = some w ∧ L[w]? = some (x :: q) ∧ IsMinS t.v.stable lt L w x q := by
  obtain ⟨w, kw, W, hm, _, _, hw, hmin⟩ := C09.winner_guarded hlt inv hg (exists_head_of_pos hpos)
  obtain ⟨q, hq⟩ := C09.head_lookup hw
  refine ⟨w, kw, q, hm, hq, ⟨hq, fun j y q' hj => ?_⟩, fun hst j y q' hji hj => ?_⟩
  · exact (hmin j y (by rw [List.getElem?_map, hj]; rfl)).1
  · have := (hmin j y (by rw [List.getElem?_map, hj]; rfl)).2 hst
    cases c : lt kw y with
    | true => rfl
    | false => exact absurd (this c) (by omega)

theorem ltLoop_run {lt : α → α → Bool} (hlt : SWO lt) (dflt : α) (stable : Bool) :
    ∀ (n : Nat) (t : Tree α) (source : Nat) (seqs : List (Seq α)) (prev : List (List α)) (x0 : α) (q0 : List α),
      t.v.guarded = true → t.v.stable = stable →
      TInv lt dflt dflt t (prev.map List.head?) →
      t.minSource = some source → prev[source]? = some (x0 :: q0) → xsOf seqs = prev.set source q0 →
      prev.length ≤ 2 ^ 31 → n ≤ (xsOf seqs).flatten.length →
      ∃ fin out, ltLoop lt dflt n t source seqs = some (fin, out) ∧
        Run stable lt (xsOf seqs) n out (xsOf fin) ∧ guardsOf fin = guardsOf seqs
  | 0, t, source, seqs, prev, x0, q0, _, _, _, _, _, _, _, _ =>
    ⟨seqs, [], rfl, Run.done stable lt _, rfl⟩
  | n + 1, t, source, seqs, prev, x0, q0, hg, hst, inv, hms, hprev, hxs, hk, hn => by
    have hsl : source < prev.length := by
      by_cases c : source < prev.length
      · exact c
      · rw [List.getElem?_eq_none (by omega)] at hprev; cases hprev
    -- the sequence the last element came from
    have hq0 : (xsOf seqs)[source]? = some q0 := by rw [hxs]; simp [hsl]
    simp only [xsOf, List.getElem?_map] at hq0
    cases hs : seqs[source]? with
    | none => rw [hs] at hq0; cases hq0
    | some s =>
      rw [hs] at hq0
      simp only [Option.map_some, Option.some.injEq] at hq0
      -- feed
      obtain ⟨_, hinvI⟩ := inv.2
      obtain ⟨W, hW, _⟩ := hinvI.valid
      have hsrc := C09.minSource_real hW hms hsl (by unfold invalid; omega)
      obtain ⟨t', hd, hv', inv'⟩ := C09.replace_TInv hlt inv hW (by rw [hsrc]; simpa using hsl) q0.head?
      rw [hsrc, ← List.map_set, ← hxs] at inv'
      -- extract
      obtain ⟨w, x, q, hmw, hLw, hmin⟩ := guarded_isMinS hlt inv' (by rw [hv']; exact hg) (by omega)
      obtain ⟨seqs', htk, hxs', hgd'⟩ := takeFrom_spec hLw
      have hlen := length_flatten_set hLw
      obtain ⟨fin, out, hrec, hrun, hgd⟩ := ltLoop_run hlt dflt stable n t' w seqs' (xsOf seqs) x q
        (by rw [hv']; exact hg) (by rw [hv']; exact hst) inv' hmw hLw hxs'
        (by simp only [xsOf, List.length_map]
            have : (xsOf seqs).length = prev.length := by rw [hxs, List.length_set]
            simp only [xsOf, List.length_map] at this; omega)
        (by rw [hxs']; omega)
      refine ⟨fin, x :: out, ?_, ?_, by rw [hgd, hgd']⟩
      · simp only [ltLoop, hs, hq0, hd, hmw, htk, hrec, Option.bind_eq_bind, Option.bind_some]
        rfl
      · rw [hxs'] at hrun
        rw [hv', hst] at hmin
        exact Run.emit hmin hrun

/-- **multiway_merge_loser_tree** (guarded loser tree, any `k ≥ 1`, copy or pointer tree, any
`size`): the call is defined and performs the run of length `min size total` — a stable run for
the stable tree, a minimal-head run for the unstable one. -/
theorem multiwayMergeLoserTree_run {lt : α → α → Bool} (hlt : SWO lt) (copy stable : Bool) (dflt : α)
    (seqs : List (Seq α)) (size : Nat) (hk1 : 1 ≤ seqs.length) (hk : seqs.length ≤ 2 ^ 31) :
    ∃ fin out, multiwayMergeLoserTree copy stable lt dflt seqs size = some (fin, out) ∧
      Run stable lt (xsOf seqs) (min size (xsOf seqs).flatten.length) out (xsOf fin) ∧
      guardsOf fin = guardsOf seqs := by
  have hheads : seqs.map (·.xs.head?) = (xsOf seqs).map List.head? := by
    simp [xsOf, List.map_map, Function.comp_def]
  obtain ⟨t, hstart, hv, inv⟩ := C09.start_TInv hlt { copy := copy, guarded := true, stable := stable } dflt dflt
    ((xsOf seqs).map List.head?) (by simpa [xsOf] using hk1) (by simpa [xsOf] using hk)
  unfold multiwayMergeLoserTree
  rw [hheads, hstart, totalSize_eq]
  simp only [Option.bind_eq_bind, Option.bind_some]
  by_cases h0 : min size (xsOf seqs).flatten.length = 0
  · rw [h0]
    exact ⟨seqs, [], by simp, Run.done stable lt _, rfl⟩
  · simp only [h0, if_false]
    obtain ⟨w, x, q, hmw, hLw, hmin⟩ := guarded_isMinS hlt inv (by rw [hv]) (by omega)
    obtain ⟨seqs', htk, hxs', hgd'⟩ := takeFrom_spec hLw
    have hlen := length_flatten_set hLw
    obtain ⟨fin, out, hrec, hrun, hgd⟩ := ltLoop_run hlt dflt stable
      (min size (xsOf seqs).flatten.length - 1) t w seqs' (xsOf seqs) x q
      (by rw [hv]) (by rw [hv]) inv hmw hLw hxs' (by simpa [xsOf] using hk) (by rw [hxs']; omega)
    refine ⟨fin, x :: out, by simp only [hmw, htk, hrec, Option.bind_some]; rfl, ?_, by rw [hgd, hgd']⟩
    rw [hxs'] at hrun
    rw [hv] at hmin
    have := Run.emit hmin hrun
    rwa [show min size (xsOf seqs).flatten.length - 1 + 1 = min size (xsOf seqs).flatten.length by omega] at this

end TlxVerif.C05
