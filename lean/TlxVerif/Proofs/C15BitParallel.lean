import TlxVerif.Proofs.C15
/-!
C15: the bit-parallel evaluation (`applyNetBP` on `wiresRec n`) computes `applyNet ltB` on
every zero-one input of length `n`; hence `checkNet n net = true` implies that `net` sorts
all `2^n` zero-one inputs.
-/
namespace TlxVerif.C15

/-- the zero-one input number `m` read off the wire words -/
def bitsAt (ws : List Nat) (m : Nat) : List Bool := ws.map (·.testBit m)

theorem cswapBP_bits (ws : List Nat) (i j m : Nat) :
    bitsAt (cswapBP ws i j) m = cswap ltB (bitsAt ws m) i j := by
  unfold cswapBP cswap bitsAt
  simp only [List.getElem?_map]
  cases hi : ws[i]? with
  | none => simp
  | some X =>
    cases hj : ws[j]? with
    | none => simp
    | some Y =>
      simp only [Option.map_some, List.map_set, Nat.testBit_and, Nat.testBit_or]
      have h1 : (ws.map (·.testBit m))[i]? = some (X.testBit m) := by simp [hi]
      have h2 : (ws.map (·.testBit m))[j]? = some (Y.testBit m) := by simp [hj]
      cases hx : X.testBit m <;> cases hy : Y.testBit m <;> simp only [ltB] <;> simp
      all_goals
        rw [hx] at h1; rw [hy] at h2
        rw [set_self_of_getElem? _ _ _ h1, set_self_of_getElem? _ _ _ h2]

theorem applyNetBP_bits (net : Net) (ws : List Nat) (m : Nat) :
    bitsAt (applyNetBP net ws) m = applyNet ltB net (bitsAt ws m) := by
  unfold applyNetBP applyNet
  induction net generalizing ws with
  | nil => rfl
  | cons c net ih => simp only [List.foldl_cons]; rw [ih, cswapBP_bits]

theorem wiresRec_lt : ∀ (n : Nat) (w : Nat), w ∈ wiresRec n → w < 2 ^ 2 ^ n
  | 0, w, h => by simp [wiresRec] at h
  | n + 1, w, h => by
    have hp : 2 ^ 2 ^ (n + 1) = 2 ^ 2 ^ n * 2 ^ 2 ^ n := by
      rw [← Nat.pow_add]; congr 1; omega
    have hpos : 0 < 2 ^ 2 ^ n := Nat.two_pow_pos _
    simp only [wiresRec, List.mem_cons, List.mem_map] at h
    rcases h with h | ⟨v, hv, h⟩
    · subst h
      rw [Nat.shiftLeft_eq, hp]
      exact Nat.mul_lt_mul_of_pos_right (by omega) hpos
    · subst h
      have hv' := wiresRec_lt n v hv
      apply Nat.or_lt_two_pow
      · exact Nat.lt_of_lt_of_le hv' (Nat.pow_le_pow_right (by omega) (Nat.pow_le_pow_right (by omega) (by omega)))
      · rw [Nat.shiftLeft_eq, hp]
        exact Nat.mul_lt_mul_of_pos_right hv' hpos

/-- every zero-one list of length `n` is one of the inputs encoded by `wiresRec n` -/
theorem wiresRec_complete : ∀ (n : Nat) (l : List Bool), l.length = n →
    ∃ m, m < 2 ^ n ∧ bitsAt (wiresRec n) m = l
  | 0, l, hl => by
    refine ⟨0, by simp, ?_⟩
    cases l with
    | nil => rfl
    | cons _ _ => simp at hl
  | n + 1, l, hl => by
    cases l with
    | nil => simp at hl
    | cons b l' =>
      simp only [List.length_cons, Nat.add_right_cancel_iff] at hl
      obtain ⟨m', hm', hbits⟩ := wiresRec_complete n l' hl
      have hpos : 0 < 2 ^ n := Nat.two_pow_pos _
      cases b with
      | false =>
        refine ⟨m', by rw [Nat.pow_succ]; omega, ?_⟩
        simp only [bitsAt, wiresRec, List.map_cons, List.map_map]
        congr 1
        · simp only [Nat.testBit_shiftLeft]
          have : ¬ m' ≥ 2 ^ n := by omega
          simp [this]
        · rw [← hbits, bitsAt]
          apply List.map_congr_left
          intro w _
          simp only [Function.comp, Nat.testBit_or, Nat.testBit_shiftLeft]
          have : ¬ m' ≥ 2 ^ n := by omega
          simp [this]
      | true =>
        refine ⟨m' + 2 ^ n, by rw [Nat.pow_succ]; omega, ?_⟩
        simp only [bitsAt, wiresRec, List.map_cons, List.map_map]
        congr 1
        · simp only [Nat.testBit_shiftLeft, Nat.testBit_two_pow_sub_one]
          have h1 : m' + 2 ^ n ≥ 2 ^ n := by omega
          simp [h1, hm']
        · rw [← hbits, bitsAt]
          apply List.map_congr_left
          intro w hw
          simp only [Function.comp, Nat.testBit_or, Nat.testBit_shiftLeft]
          have h1 : m' + 2 ^ n ≥ 2 ^ n := by omega
          have h2 : m' + 2 ^ n - 2 ^ n = m' := by omega
          have h3 : w.testBit (m' + 2 ^ n) = false :=
            Nat.testBit_lt_two_pow (Nat.lt_of_lt_of_le (wiresRec_lt n w hw)
              (Nat.pow_le_pow_right (by omega) (by omega)))
          simp [h1, h2, h3]

theorem sortedBP_bits : ∀ (ws : List Nat), sortedBP ws = true → ∀ m, SortedB (bitsAt ws m)
  | [], _, m => by simp [SortedB, bitsAt]
  | [x], _, m => by simp [SortedB, bitsAt]
  | x :: y :: r, h, m => by
    simp only [sortedBP, Bool.and_eq_true, beq_iff_eq] at h
    have ih := sortedBP_bits (y :: r) h.2 m
    have hx : x.testBit m = (x.testBit m && y.testBit m) := by
      conv => lhs; rw [← h.1]
      exact Nat.testBit_and x y m
    unfold SortedB bitsAt at ih ⊢
    simp only [List.map_cons, List.pairwise_cons] at ih ⊢
    refine ⟨?_, ih⟩
    intro b hb
    cases hxb : x.testBit m with
    | false => simp [ltB]
    | true =>
      have hy : y.testBit m = true := by rw [hxb] at hx; simpa using hx.symm
      rcases List.mem_cons.mp hb with hb | hb
      · subst hb; simp [ltB, hy]
      · have := ih.1 b hb
        rw [hy] at this
        simpa [ltB] using this

/-- what the `decide +kernel` of a generated network establishes -/
theorem checkNet_sound {n : Nat} {net : Net} (h : checkNet n net = true) :
    inRange n net = true ∧ ∀ l : List Bool, l.length = n → SortedB (applyNet ltB net l) := by
  simp only [checkNet, Bool.and_eq_true] at h
  refine ⟨h.1, ?_⟩
  intro l hl
  obtain ⟨m, _, hm⟩ := wiresRec_complete n l hl
  rw [← hm, ← applyNetBP_bits]
  exact sortedBP_bits _ h.2 m

end TlxVerif.C15
