/-
C07/C06 — theory of the stable merge on tagged elements.

`sortStable lt l` (stable insertion sort by key, = `kMerge lt runs` on `runs.flatten`) is characterised
as THE list that is a permutation of `l` and sorted by `Tlt` = (key, tag) order, where the tag order `tl`
is any strict order that agrees with the input order on equivalent keys.  From the uniqueness:
splitting the input into a left and a right part that are cross-ordered commutes with the merge
(`sortStable_split`), which is what makes the concatenation of the per-thread merges equal the k-merge.
-/
import TlxVerif.Model.C07Pmm
import TlxVerif.Proofs.C08Spec
namespace TlxVerif.C07
open TlxVerif.C08 (StrictWeak)

/-- strict order on the tags of elements -/
structure TagOrder (tl : Elem → Elem → Prop) : Prop where
  trans : ∀ a b c, tl a b → tl b c → tl a c
  asymm : ∀ a b, tl a b → ¬ tl b a

/-- (key, tag) order: the order of the stable merge -/
def Tlt (lt : Int → Int → Bool) (tl : Elem → Elem → Prop) (a b : Elem) : Prop :=
  lt a.key b.key = true ∨ (lt b.key a.key = false ∧ tl a b)

/-- `a` stands before `b` in the input: if their keys are equivalent the tag order must agree -/
def Cond (lt : Int → Int → Bool) (tl : Elem → Elem → Prop) (a b : Elem) : Prop :=
  lt a.key b.key = false → lt b.key a.key = false → tl a b

theorem Tlt.trans {lt : Int → Int → Bool} {tl : Elem → Elem → Prop} (hlt : StrictWeak lt) (htl : TagOrder tl)
    {a b c : Elem} (h1 : Tlt lt tl a b) (h2 : Tlt lt tl b c) : Tlt lt tl a c := by
  rcases h1 with h1 | ⟨h1, t1⟩
  · rcases h2 with h2 | ⟨h2, _⟩
    · exact Or.inl (hlt.trans h1 h2)
    · exact Or.inl (hlt.lt_of_lt_of_le h1 h2)
  · rcases h2 with h2 | ⟨h2, t2⟩
    · exact Or.inl (hlt.lt_of_le_of_lt h1 h2)
    · exact Or.inr ⟨hlt.le_trans h1 h2, htl.trans _ _ _ t1 t2⟩

theorem Tlt.asymm {lt : Int → Int → Bool} {tl : Elem → Elem → Prop} (hlt : StrictWeak lt) (htl : TagOrder tl)
    {a b : Elem} (h1 : Tlt lt tl a b) (h2 : Tlt lt tl b a) : False := by
  rcases h1 with h1 | ⟨h1, t1⟩
  · rcases h2 with h2 | ⟨h2, _⟩
    · rw [hlt.asymm _ _ h1] at h2; cases h2
    · rw [h1] at h2; cases h2
  · rcases h2 with h2 | ⟨_, t2⟩
    · rw [h1] at h2; cases h2
    · exact htl.asymm _ _ t1 t2

/-- stable insertion sort by key -/
def sortStable (lt : Int → Int → Bool) (l : List Elem) : List Elem := l.foldr (insertStable lt) []

theorem kMerge_eq_sortStable (lt : Int → Int → Bool) (runs : List (List Elem)) :
    kMerge lt runs = sortStable lt runs.flatten := rfl

theorem insertStable_perm (lt : Int → Int → Bool) (x : Elem) : ∀ ys, (insertStable lt x ys).Perm (x :: ys)
  | [] => List.Perm.refl _
  | y :: ys => by
    unfold insertStable
    split
    · exact ((insertStable_perm lt x ys).cons y).trans (List.Perm.swap x y ys)
    · exact List.Perm.refl _

theorem sortStable_perm (lt : Int → Int → Bool) : ∀ l, (sortStable lt l).Perm l
  | [] => List.Perm.refl _
  | x :: l => by
    show (insertStable lt x (sortStable lt l)).Perm (x :: l)
    exact (insertStable_perm lt x _).trans ((sortStable_perm lt l).cons x)

theorem sortStable_length (lt : Int → Int → Bool) (l : List Elem) : (sortStable lt l).length = l.length :=
  (sortStable_perm lt l).length_eq

theorem insertStable_sorted {lt : Int → Int → Bool} {tl : Elem → Elem → Prop} (hlt : StrictWeak lt)
    (htl : TagOrder tl) (x : Elem) :
    ∀ ys, ys.Pairwise (Tlt lt tl) → (∀ y ∈ ys, Cond lt tl x y) → (insertStable lt x ys).Pairwise (Tlt lt tl)
  | [], _, _ => List.pairwise_singleton _ _
  | y :: ys, hs, hx => by
    have hy := List.pairwise_cons.mp hs
    unfold insertStable
    split
    · rename_i hyx
      refine List.pairwise_cons.mpr ⟨?_, insertStable_sorted hlt htl x ys hy.2 (fun z hz => hx z (List.mem_cons_of_mem _ hz))⟩
      intro z hz
      rcases List.mem_cons.mp ((insertStable_perm lt x ys).subset hz) with hz | hz
      · subst hz; exact Or.inl hyx
      · exact hy.1 z hz
    · rename_i hyx
      have hyx' : lt y.key x.key = false := by simpa using hyx
      have hxy : Tlt lt tl x y := by
        cases h : lt x.key y.key with
        | true => exact Or.inl h
        | false => exact Or.inr ⟨hyx', hx y (List.mem_cons_self) h hyx'⟩
      refine List.pairwise_cons.mpr ⟨?_, hs⟩
      intro z hz
      rcases List.mem_cons.mp hz with hz | hz
      · subst hz; exact hxy
      · exact Tlt.trans hlt htl hxy (hy.1 z hz)

theorem sortStable_sorted {lt : Int → Int → Bool} {tl : Elem → Elem → Prop} (hlt : StrictWeak lt)
    (htl : TagOrder tl) : ∀ l, l.Pairwise (Cond lt tl) → (sortStable lt l).Pairwise (Tlt lt tl)
  | [], _ => List.Pairwise.nil
  | x :: l, h => by
    have hc := List.pairwise_cons.mp h
    show (insertStable lt x (sortStable lt l)).Pairwise (Tlt lt tl)
    exact insertStable_sorted hlt htl x _ (sortStable_sorted hlt htl l hc.2)
      (fun y hy => hc.1 y ((sortStable_perm lt l).subset hy))

/-- two (key, tag)-sorted permutations of each other are equal -/
theorem sorted_perm_unique {lt : Int → Int → Bool} {tl : Elem → Elem → Prop} (hlt : StrictWeak lt)
    (htl : TagOrder tl) {l₁ l₂ : List Elem} (h₁ : l₁.Pairwise (Tlt lt tl)) (h₂ : l₂.Pairwise (Tlt lt tl))
    (hp : l₁.Perm l₂) : l₁ = l₂ :=
  List.Perm.eq_of_pairwise (fun _ _ _ _ hab hba => (Tlt.asymm hlt htl hab hba).elim) h₁ h₂ hp

/-- **Characterisation of the stable merge**: any (key, tag)-sorted permutation of the input is it. -/
theorem sortStable_unique {lt : Int → Int → Bool} {tl : Elem → Elem → Prop} (hlt : StrictWeak lt)
    (htl : TagOrder tl) {l out : List Elem} (hl : l.Pairwise (Cond lt tl)) (hs : out.Pairwise (Tlt lt tl))
    (hp : out.Perm l) : sortStable lt l = out :=
  sorted_perm_unique hlt htl (sortStable_sorted hlt htl l hl) hs ((sortStable_perm lt l).trans hp.symm)

/-- **Split lemma**: if the input is, up to permutation, a left part followed by a right part and every
left element is before every right element in (key, tag) order, merging commutes with the split. -/
theorem sortStable_split {lt : Int → Int → Bool} {tl : Elem → Elem → Prop} (hlt : StrictWeak lt)
    (htl : TagOrder tl) {l L R : List Elem} (hl : l.Pairwise (Cond lt tl)) (hL : L.Pairwise (Cond lt tl))
    (hR : R.Pairwise (Cond lt tl)) (hp : (L ++ R).Perm l) (hx : ∀ x ∈ L, ∀ y ∈ R, Tlt lt tl x y) :
    sortStable lt l = sortStable lt L ++ sortStable lt R := by
  apply sortStable_unique hlt htl hl
  · rw [List.pairwise_append]
    refine ⟨sortStable_sorted hlt htl L hL, sortStable_sorted hlt htl R hR, ?_⟩
    intro x hxm y hym
    exact hx x ((sortStable_perm lt L).subset hxm) y ((sortStable_perm lt R).subset hym)
  · exact ((sortStable_perm lt L).append (sortStable_perm lt R)).trans hp

end TlxVerif.C07
