/-
C08 — specification of a multisequence partition and its uniqueness / monotonicity.
Generic in the element type and in the comparator (any strict weak order).
-/
namespace TlxVerif.C08

variable {α : Type}

/-- strict weak order given as a Boolean `less` (the C++ `Comparator`) -/
structure StrictWeak (lt : α → α → Bool) : Prop where
  asymm : ∀ a b, lt a b = true → lt b a = false
  cotrans : ∀ a b c, lt a b = true → lt a c = true ∨ lt c b = true

theorem StrictWeak.irrefl {lt : α → α → Bool} (h : StrictWeak lt) (a : α) : lt a a = false := by
  cases haa : lt a a with
  | false => rfl
  | true => have := h.asymm a a haa; rw [haa] at this; cases this

theorem StrictWeak.trans {lt : α → α → Bool} (h : StrictWeak lt) {a b c : α}
    (hab : lt a b = true) (hbc : lt b c = true) : lt a c = true := by
  rcases h.cotrans a b c hab with h1 | h1
  · exact h1
  · rw [h.asymm _ _ hbc] at h1; cases h1

/-- `¬ b < a` and `¬ c < b` give `¬ c < a` -/
theorem StrictWeak.le_trans {lt : α → α → Bool} (h : StrictWeak lt) {a b c : α}
    (hab : lt b a = false) (hbc : lt c b = false) : lt c a = false := by
  cases hca : lt c a with
  | false => rfl
  | true =>
    rcases h.cotrans c a b hca with h1 | h1
    · rw [hbc] at h1; cases h1
    · rw [hab] at h1; cases h1

theorem StrictWeak.lt_of_lt_of_le {lt : α → α → Bool} (h : StrictWeak lt) {a b c : α}
    (hab : lt a b = true) (hbc : lt c b = false) : lt a c = true := by
  rcases h.cotrans a b c hab with h1 | h1
  · exact h1
  · rw [hbc] at h1; cases h1

theorem StrictWeak.lt_of_le_of_lt {lt : α → α → Bool} (h : StrictWeak lt) {a b c : α}
    (hab : lt b a = false) (hbc : lt b c = true) : lt a c = true := by
  rcases h.cotrans b c a hbc with h1 | h1
  · rw [hab] at h1; cases h1
  · exact h1

/-- element `x` of sequence `i` comes strictly before element `y` of sequence `j`
in the (value, sequence index) order — the order of a stable merge -/
def Before (lt : α → α → Bool) (x : α) (i : Nat) (y : α) (j : Nat) : Prop :=
  lt x y = true ∨ (lt y x = false ∧ i < j)

def beforeB (lt : α → α → Bool) (x : α) (i : Nat) (y : α) (j : Nat) : Bool :=
  lt x y || (!lt y x && decide (i < j))

theorem beforeB_iff (lt : α → α → Bool) (x : α) (i : Nat) (y : α) (j : Nat) :
    beforeB lt x i y j = true ↔ Before lt x i y j := by
  simp [beforeB, Before]

theorem Before.asymm {lt : α → α → Bool} (h : StrictWeak lt) {x y : α} {i j : Nat}
    (h1 : Before lt x i y j) (h2 : Before lt y j x i) : False := by
  rcases h1 with h1 | ⟨h1, hij⟩
  · rcases h2 with h2 | ⟨h2, _⟩
    · rw [h.asymm _ _ h1] at h2; cases h2
    · rw [h1] at h2; cases h2
  · rcases h2 with h2 | ⟨_, hji⟩
    · rw [h1] at h2; cases h2
    · omega

/-- a run is sorted: no later element is less than an earlier one -/
def SortedRun (lt : α → α → Bool) (r : List α) : Prop := r.Pairwise (fun x y => lt y x = false)

/-- `offs` splits `runs` at global rank `rank`:
the left parts `run_i.take offs_i` together hold `rank` elements and every left element
of a sequence comes strictly before every right element of every *other* sequence
in the (value, sequence index) order. -/
structure IsPartition (lt : α → α → Bool) (runs : List (List α)) (rank : Nat) (offs : List Nat) : Prop where
  len : offs.length = runs.length
  bound : ∀ (i : Nat) (r : List α) (o : Nat), runs[i]? = some r → offs[i]? = some o → o ≤ r.length
  sum : offs.sum = rank
  ordered : ∀ (i j : Nat) (ri rj : List α) (oi oj : Nat), i ≠ j → runs[i]? = some ri → runs[j]? = some rj →
      offs[i]? = some oi → offs[j]? = some oj →
      ∀ x ∈ ri.take oi, ∀ y ∈ rj.drop oj, Before lt x i y j

theorem sum_le_of_pointwise : ∀ (a b : List Nat), a.length = b.length →
    (∀ (k x y : Nat), a[k]? = some x → b[k]? = some y → x ≤ y) → a.sum ≤ b.sum
  | [], [], _, _ => by simp
  | [], _ :: _, h, _ => by simp at h
  | _ :: _, [], h, _ => by simp at h
  | x :: a, y :: b, hl, hle => by
    have hxy : x ≤ y := hle 0 x y rfl rfl
    have := sum_le_of_pointwise a b (by simpa using hl)
      (fun k x y h1 h2 => hle (k + 1) x y (by simpa using h1) (by simpa using h2))
    simp only [List.sum_cons]; omega

/-- pointwise `≤` with one strict position gives a strictly smaller sum -/
theorem sum_lt_of_pointwise : ∀ (a b : List Nat), a.length = b.length →
    (∀ (k x y : Nat), a[k]? = some x → b[k]? = some y → x ≤ y) →
    (∃ (k x y : Nat), a[k]? = some x ∧ b[k]? = some y ∧ x < y) → a.sum < b.sum
  | [], [], _, _, ⟨k, x, y, h, _, _⟩ => by simp at h
  | [], _ :: _, h, _, _ => by simp at h
  | _ :: _, [], h, _, _ => by simp at h
  | x :: a, y :: b, hl, hle, ⟨k, u, v, hu, hv, huv⟩ => by
    have hxy : x ≤ y := hle 0 x y rfl rfl
    have hle' : ∀ (k x y : Nat), a[k]? = some x → b[k]? = some y → x ≤ y :=
      fun k x y h1 h2 => hle (k + 1) x y (by simpa using h1) (by simpa using h2)
    have hl' : a.length = b.length := by simpa using hl
    have hsum : a.sum ≤ b.sum := sum_le_of_pointwise a b hl' hle'
    cases k with
    | zero =>
      simp at hu hv; subst hu; subst hv
      simp only [List.sum_cons]; omega
    | succ k =>
      have := sum_lt_of_pointwise a b hl' hle' ⟨k, u, v, by simpa using hu, by simpa using hv, huv⟩
      simp only [List.sum_cons]; omega

/-- **Monotonicity**: partitions of the same runs at ranks `r ≤ r'` are nested. -/
theorem partition_mono {lt : α → α → Bool} (hlt : StrictWeak lt) {runs : List (List α)} {r r' : Nat}
    {offs offs' : List Nat} (h : IsPartition lt runs r offs) (h' : IsPartition lt runs r' offs')
    (hr : r ≤ r') : ∀ (i o o' : Nat), offs[i]? = some o → offs'[i]? = some o' → o ≤ o' := by
  intro i oi oi' hi hi'
  refine Classical.byContradiction fun hcon => ?_
  have hgt : oi' < oi := by omega
  -- some other position must go the other way, otherwise the sums contradict r ≤ r'
  have hex : ∃ (j oj oj' : Nat), offs[j]? = some oj ∧ offs'[j]? = some oj' ∧ oj < oj' := by
    refine Classical.byContradiction fun hno => ?_
    have hall : ∀ (k x y : Nat), offs'[k]? = some x → offs[k]? = some y → x ≤ y := by
      intro k x y hx hy
      refine Classical.byContradiction fun hc => hno ⟨k, y, x, hy, hx, by omega⟩
    have := sum_lt_of_pointwise offs' offs (by rw [h.len, h'.len]) hall ⟨i, oi', oi, hi', hi, hgt⟩
    rw [h.sum, h'.sum] at this
    omega
  obtain ⟨j, oj, oj', hj, hj', hlt2⟩ := hex
  have hij : i ≠ j := by
    intro e; subst e
    rw [hi] at hj; rw [hi'] at hj'
    cases hj; cases hj'; omega
  have hil : i < runs.length := by
    have := (List.getElem?_eq_some_iff.mp hi).1; rw [h.len] at this; exact this
  have hjl : j < runs.length := by
    have := (List.getElem?_eq_some_iff.mp hj).1; rw [h.len] at this; exact this
  have hri : runs[i]? = some runs[i] := List.getElem?_eq_getElem hil
  have hrj : runs[j]? = some runs[j] := List.getElem?_eq_getElem hjl
  have hbi := h.bound i _ _ hri hi
  have hbj' := h'.bound j _ _ hrj hj'
  -- x = run_i[oi'] is left in `offs`, right in `offs'`; y = run_j[oj] is right in `offs`, left in `offs'`
  have hxl : oi' < runs[i].length := by omega
  have hyl : oj < runs[j].length := by omega
  have hx1 : runs[i][oi'] ∈ runs[i].take oi := by
    rw [List.mem_take_iff_getElem]
    exact ⟨oi', by omega, rfl⟩
  have hx2 : runs[i][oi'] ∈ runs[i].drop oi' := by
    rw [List.mem_drop_iff_getElem]
    exact ⟨0, by omega, by simp⟩
  have hy1 : runs[j][oj] ∈ runs[j].drop oj := by
    rw [List.mem_drop_iff_getElem]
    exact ⟨0, by omega, by simp⟩
  have hy2 : runs[j][oj] ∈ runs[j].take oj' := by
    rw [List.mem_take_iff_getElem]
    exact ⟨oj, by omega, rfl⟩
  have b1 := h.ordered i j _ _ _ _ hij hri hrj hi hj _ hx1 _ hy1
  have b2 := h'.ordered j i _ _ _ _ (Ne.symm hij) hrj hri hj' hi' _ hy2 _ hx2
  exact Before.asymm hlt b1 b2

/-- **Uniqueness**: at most one offset vector splits the runs at a given rank. -/
theorem partition_unique {lt : α → α → Bool} (hlt : StrictWeak lt) {runs : List (List α)} {r : Nat}
    {offs offs' : List Nat} (h : IsPartition lt runs r offs) (h' : IsPartition lt runs r offs') :
    offs = offs' := by
  apply List.ext_getElem?
  intro i
  cases hi : offs[i]? with
  | none =>
    have : offs.length ≤ i := List.getElem?_eq_none_iff.mp hi
    have : offs'.length ≤ i := by rw [h'.len, ← h.len]; exact this
    exact (List.getElem?_eq_none_iff.mpr this).symm
  | some o =>
    have hil : i < offs.length := (List.getElem?_eq_some_iff.mp hi).1
    have hil' : i < offs'.length := by rw [h'.len, ← h.len]; exact hil
    have hi' : offs'[i]? = some offs'[i] := List.getElem?_eq_getElem hil'
    have h1 := partition_mono hlt h h' (Nat.le_refl r) i _ _ hi hi'
    have h2 := partition_mono hlt h' h (Nat.le_refl r) i _ _ hi' hi
    rw [hi']; congr 1; omega

end TlxVerif.C08
