/-
The invariant of a whole loser tree object (`Inv`) relative to the ghost leaf
entries `cur` (indexed by array index `k_ + player`), established by `init()`
and preserved by `delete_min_insert` when the reported winner is a real player.
-/
import TlxVerif.Proofs.C09Orders
namespace TlxVerif.C09

variable {α : Type}

/-- function update -/
def upd (f : Nat → Entry α) (i : Nat) (e : Entry α) : Nat → Entry α := fun j => if j = i then e else f j

/-- facts about sizes and about the `source` members of the leaf entries -/
structure Shape (t : Tree α) (cur : Nat → Entry α) : Prop where
  hk : t.k = 2 ^ ceilLog2 t.ik
  hsz : t.losers.size = 2 ^ (ceilLog2 t.ik + 1)
  hik : 1 ≤ t.ik
  /-- `Source` is `uint32_t` -/
  hsmall : 2 ^ (ceilLog2 t.ik + 1) ≤ 4294967296
  real : ∀ i, i < t.ik → (cur (2 ^ ceilLog2 t.ik + i)).source = i
  pad : ∀ i, t.ik ≤ i → i < 2 ^ ceilLog2 t.ik → (cur (2 ^ ceilLog2 t.ik + i)).source = invalid

/-- the tournament invariant of the object: `losers_[0]` is the winner of a valid loser tree -/
structure Inv (lt : α → α → Bool) (t : Tree α) (cur : Nat → Entry α) : Prop extends Shape t cur where
  valid : ∃ W, rd t.losers 0 = some W ∧ Valid (leOf t.v lt) cur t.losers (ceilLog2 t.ik) [] W

/-- state after the constructor and the `insert_start` calls: the leaves hold `cur` -/
structure PreInv (t : Tree α) (cur : Nat → Entry α) : Prop extends Shape t cur where
  leaves : ∀ r : List Bool, r.length = ceilLog2 t.ik → rd t.losers (idx r) = some (cur (idx r))

theorem Shape.ik_le {t : Tree α} {cur : Nat → Entry α} (_ : Shape t cur) : t.ik ≤ 2 ^ ceilLog2 t.ik :=
  le_two_pow_ceilLog2 t.ik

theorem Shape.pow_lt_invalid {t : Tree α} {cur : Nat → Entry α} (s : Shape t cur) :
    2 ^ ceilLog2 t.ik < invalid := by
  have := s.hsmall
  rw [Nat.pow_succ] at this
  unfold invalid; omega

/-- the `source` members are monotone in the leaf position -/
theorem Shape.mono {t : Tree α} {cur : Nat → Entry α} (s : Shape t cur) (r1 r2 : List Bool)
    (h1 : r1.length = ceilLog2 t.ik) (h2 : r2.length = ceilLog2 t.ik) (hlt : idx r1 < idx r2) :
    (cur (idx r1)).source ≤ (cur (idx r2)).source := by
  obtain ⟨s1, hs1, e1⟩ := exists_source r1
  obtain ⟨s2, hs2, e2⟩ := exists_source r2
  rw [h1] at hs1 e1
  rw [h2] at hs2 e2
  have hinv := s.pow_lt_invalid
  rw [e1, e2]
  by_cases c2 : s2 < t.ik
  · rw [s.real s1 (by omega), s.real s2 c2]; omega
  · rw [s.pad s2 (by omega) hs2]
    by_cases c1 : s1 < t.ik
    · rw [s.real s1 c1]; omega
    · rw [s.pad s1 (by omega) hs1]; exact Nat.le_refl _

/-- a leaf entry whose `source` is a real player is that player's leaf -/
theorem Shape.leaf_of_source {t : Tree α} {cur : Nat → Entry α} (s : Shape t cur) (r : List Bool)
    (hr : r.length = ceilLog2 t.ik) (hs : (cur (idx r)).source < t.ik) :
    r = pathOf (ceilLog2 t.ik) (cur (idx r)).source := by
  obtain ⟨s1, hs1, e1⟩ := exists_source r
  rw [hr] at hs1 e1
  have hik := s.ik_le
  have hinv := s.pow_lt_invalid
  apply idx_inj
  rw [idx_pathOf _ _ (by omega), e1]
  by_cases c : s1 < t.ik
  · rw [s.real s1 c]
  · rw [e1, s.pad s1 (by omega) hs1] at hs; omega

theorem init_inv {lt : α → α → Bool} (hlt : SWO lt) {t : Tree α} {cur : Nat → Entry α} (pre : PreInv t cur) :
    ∃ t', t.init lt = some t' ∧ Inv lt t' cur ∧ t'.v = t.v ∧ t'.ik = t.ik ∧ t'.k = t.k := by
  have hk := pre.hk
  have hkpos : t.k ≠ 0 := by rw [hk]; exact Nat.ne_of_gt (Nat.two_pow_pos _)
  obtain ⟨r, a', hi, _, hl, hv, hsz', hfr⟩ :=
    initWinner_correct (initOK hlt t.v) (ceilLog2 t.ik) cur pre.toShape.mono (ceilLog2 t.ik) [] (ceilLog2 t.ik)
      t.losers (by simp) (Nat.le_refl _) pre.hsz pre.leaves
  have hrd : rd a' (idx r) = some (cur (idx r)) := by
    rw [hfr (idx r) (fun r' _ hl' heq => by rw [idx_inj heq] at hl; omega)]
    exact pre.leaves r hl
  have h0 : 0 < a'.size := by rw [hsz', pre.hsz]; exact Nat.two_pow_pos _
  obtain ⟨a'', hw⟩ := wr_ok (cur (idx r)) h0
  refine ⟨{ t with losers := a'' }, ?_, ?_, rfl, rfl, rfl⟩
  · unfold Tree.init
    simp only [hkpos, if_false]
    rw [hk]
    have : idx ([] : List Bool) = 1 := rfl
    rw [this] at hi
    simp [hi, hrd, hw]
  · refine { hk := pre.hk, hsz := by simp only; rw [wr_size hw, hsz', pre.hsz], hik := pre.hik, hsmall := pre.hsmall,
             real := pre.real, pad := pre.pad, valid := ⟨cur (idx r), rd_wr_same hw, ?_⟩ }
    exact Valid_congr (fun r' _ => ⟨rd_wr_ne hw (by have := idx_pos r'; omega), rfl⟩) hv

theorem dmi_inv {lt : α → α → Bool} (hlt : SWO lt) {t : Tree α} {cur : Nat → Entry α} (inv : Inv lt t cur)
    {W : Entry α} (hW : rd t.losers 0 = some W) (hreal : W.source < t.ik) (dflt : α) (key : Option α) :
    ∃ t', t.deleteMinInsert lt dflt key = some t' ∧
      Inv lt t' (upd cur (2 ^ ceilLog2 t.ik + W.source) (mkEntry dflt key W.source)) ∧
      t'.v = t.v ∧ t'.ik = t.ik ∧ t'.k = t.k := by
  obtain ⟨W', hW', hv⟩ := inv.valid
  rw [hW] at hW'; cases hW'
  have hik := inv.toShape.ik_le
  have hsmall := inv.hsmall
  have hpow : 2 ^ (ceilLog2 t.ik + 1) = 2 * 2 ^ ceilLog2 t.ik := by rw [Nat.pow_succ]; omega
  let ℓ := pathOf (ceilLog2 t.ik) W.source
  have hℓlen : ℓ.length = ceilLog2 t.ik := length_pathOf _ _
  have hℓidx : idx ℓ = 2 ^ ceilLog2 t.ik + W.source := idx_pathOf _ _ (by omega)
  let e := mkEntry dflt key W.source
  let cur' := upd cur (idx ℓ) e
  obtain ⟨c, a1, hr, hvc, hsz1, _⟩ := rrec_correct (cur := cur) (cur' := cur') (e := e) (stepOK hlt t.v)
    ℓ.reverse [] W t.losers (by rw [List.length_reverse, hℓlen]; exact hv)
    (fun r hl hw => by
      simp only [List.length_nil, List.length_reverse, Nat.zero_add, List.reverse_reverse, List.append_nil] at hl ⊢
      rw [hℓlen] at hl
      have := inv.toShape.leaf_of_source r hl (by rw [hw]; exact hreal)
      rw [hw] at this; exact this)
    (by simp [cur', upd])
    (fun r hne => by
      simp only [List.reverse_reverse, List.append_nil] at hne
      have : idx r ≠ idx ℓ := fun h => hne (idx_inj h)
      simp [cur', upd, this])
  have h0 : 0 < a1.size := by rw [hsz1, inv.hsz]; exact Nat.two_pow_pos _
  obtain ⟨a2, hw⟩ := wr_ok c h0
  refine ⟨{ t with losers := a2 }, ?_, ?_, rfl, rfl, rfl⟩
  · unfold Tree.deleteMinInsert
    have hpos : (t.k + W.source) % 4294967296 / 2 = idx ℓ / 2 := by
      rw [hℓidx, inv.hk, Nat.mod_eq_of_lt (by omega)]
    have hr' : rrec t.v lt ℓ.reverse [] (mkEntry dflt key W.source) t.losers = some (c, a1) := hr
    simp only [hW, Option.bind_eq_bind, Option.bind_some, hpos, replay_leaf, hr', hw]
    rfl
  · have hcur : upd cur (2 ^ ceilLog2 t.ik + W.source) (mkEntry dflt key W.source) = cur' := by
      simp only [cur', e, hℓidx]
    rw [hcur]
    have hsrc : e.source = W.source := by simp only [e, mkEntry]; cases key <;> rfl
    refine { hk := inv.hk, hsz := by simp only; rw [wr_size hw, hsz1, inv.hsz], hik := inv.hik,
             hsmall := inv.hsmall, real := fun i hi => ?_, pad := fun i hi hi2 => ?_,
             valid := ⟨c, rd_wr_same hw, ?_⟩ }
    · dsimp only at hi ⊢
      simp only [cur', upd, hℓidx]
      by_cases h : i = W.source
      · subst h; simp [hsrc]
      · have : ¬ (2 ^ ceilLog2 t.ik + i = 2 ^ ceilLog2 t.ik + W.source) := by omega
        simp only [this, if_false]; exact inv.real i hi
    · dsimp only at hi hi2 ⊢
      simp only [cur', upd, hℓidx]
      have : ¬ (2 ^ ceilLog2 t.ik + i = 2 ^ ceilLog2 t.ik + W.source) := by
        have : W.source < t.ik := hreal
        omega
      simp only [this, if_false]; exact inv.pad i hi hi2
    · rw [List.length_reverse, hℓlen] at hvc
      exact Valid_congr (fun r' _ => ⟨rd_wr_ne hw (by have := idx_pos r'; omega), rfl⟩) hvc

end TlxVerif.C09
