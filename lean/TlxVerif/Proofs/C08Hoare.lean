/-
C08 — reasoning tools for the executable model: array access lemmas, a total-correctness Hoare rule set
for the monad `M` (state = read trace, failure = exception), and the specification of a read.
-/
import TlxVerif.Proofs.C08Inv
namespace TlxVerif.C08

/-! ### arrays -/

theorem aget_aset_eq {a : Array Int} {i : Nat} (v : Int) (h : i < a.size) : aget (aset a i v) i = v := by
  simp [aget, aset, Array.getD, h]

theorem aget_aset_ne {a : Array Int} {i j : Nat} (v : Int) (h : i ≠ j) : aget (aset a i v) j = aget a j := by
  simp only [aget, aset, Array.getD_eq_getD_getElem?, Array.getElem?_setIfInBounds, if_neg h]

theorem size_aset (a : Array Int) (i : Nat) (v : Int) : (aset a i v).size = a.size := by
  simp [aset]

theorem aget_replicate {m i : Nat} (v : Int) (h : i < m) : aget (Array.replicate m v) i = v := by
  simp [aget, Array.getD, h]

/-! ### sequences -/

theorem aget_seqlenOf (c : Ctx) {i : Nat} (h : i < c.runs.size) : aget (seqlenOf c) i = lenAt c i := by
  simp only [aget, seqlenOf, lenAt, Array.getD_eq_getD_getElem?]
  simp [h]

theorem size_seqlenOf (c : Ctx) : (seqlenOf c).size = c.runs.size := by simp [seqlenOf]

/-! ### Hoare logic (total correctness, any initial trace) -/

/-- `x` succeeds from every trace and its result satisfies `Q` -/
def Spec {α : Type} (x : M α) (Q : α → Prop) : Prop :=
  ∀ t, ∃ a t', x.run t = .ok (a, t') ∧ Q a

theorem Spec.pure {α : Type} {a : α} {Q : α → Prop} (h : Q a) : Spec (pure a : M α) Q :=
  fun t => ⟨a, t, rfl, h⟩

theorem Spec.bind {α β : Type} {x : M α} {f : α → M β} {P : α → Prop} {Q : β → Prop}
    (hx : Spec x P) (hf : ∀ a, P a → Spec (f a) Q) : Spec (x >>= f) Q := by
  intro t
  obtain ⟨a, t', h1, hp⟩ := hx t
  obtain ⟨b, t'', h2, hq⟩ := hf a hp t'
  refine ⟨b, t'', ?_, hq⟩
  simp only [StateT.run_bind, h1]
  exact h2

theorem Spec.mono {α : Type} {x : M α} {P Q : α → Prop} (hx : Spec x P) (h : ∀ a, P a → Q a) : Spec x Q :=
  fun t => by
    obtain ⟨a, t', h1, hp⟩ := hx t
    exact ⟨a, t', h1, h a hp⟩

/-- a read inside the sequence succeeds and returns the element -/
theorem Spec.rd (c : Ctx) {i : Nat} {idx : Int} (hi : i < c.runs.size) (h0 : 0 ≤ idx) (h1 : idx < lenAt c i) :
    Spec (rd c i idx) (fun v => v = valAt c i idx) := by
  intro t
  have hr : c.runs[i]? = some c.runs[i] := Array.getElem?_eq_getElem hi
  have hlen : lenAt c i = (c.runs[i].size : Int) := by
    simp [lenAt, Array.getD_eq_getD_getElem?, hr]
  have hk : idx.toNat < c.runs[i].size := by omega
  refine ⟨c.runs[i][idx.toNat], t.push (i, idx), ?_, ?_⟩
  · unfold TlxVerif.C08.rd
    simp only [StateT.run_bind, hr]
    have hneg : ¬ idx < 0 := by omega
    simp [modify, modifyGet, MonadStateOf.modifyGet, StateT.modifyGet, StateT.run, hneg,
      Array.getElem?_eq_getElem hk]
    rfl
  · simp [valAt, Array.getD_eq_getD_getElem?, hr, Array.getElem?_eq_getElem hk]

end TlxVerif.C08
