/-
C01/C02 — tree-level invariant, part 1 (shape + bookkeeping): balance, fill, levels,
`stats_.leaves/inner_nodes` = recount, allocation ledger = growth; preserved by `insert`.
-/
import TlxVerif.Model.C01Tree
import TlxVerif.Proofs.C01Inv
import TlxVerif.Proofs.C01Count
import TlxVerif.Proofs.C01Flatten
namespace TlxVerif.C01

variable {K V : Type}

/-- the structural part of what `verify()` checks, plus the node bookkeeping:
all leaves at the same depth, `level` fields consistent, every non-root node between half full and
full, root leaf non-empty / root inner node with at least one key, `stats_` equal to a recount -/
def TreeShape (p : Params K) (t : Tree K V) : Prop :=
  match t.root with
  | none => t.stats = {}
  | some r =>
    ShapeTop p 1 1 r.level r ∧ t.stats.leaves = leafCount r.level r ∧ t.stats.inner = innerCount r.level r ∧
      t.stats.size = (flatten r.level r).length

theorem treeShape_empty (p : Params K) : TreeShape p ({} : Tree K V) := by
  simp [TreeShape]

theorem findLower_nil (p : Params K) (k : K) : findLower p [] k = 0 := by
  unfold findLower binIdx linIdx
  split <;> simp

theorem leafInsert_nil (p : Params K) (pv : p.Valid) (k : K) (v : V) :
    leafInsert p ([] : List (K × V)) k v =
      some { node := .leaf [(k, v)], split := none, inserted := true, leafIdx := 0, slot := 0,
             newLeaves := 0, newInner := 0 } := by
  have hv := pv.leaf4
  unfold leafInsert
  have h0 : findLower p (keysOf ([] : List (K × V))) k = 0 := by simp [keysOf, findLower_nil]
  simp only [h0]
  have hp : presentAt p ([] : List (K × V)) 0 k = false := by simp [presentAt]
  rw [hp]
  simp only [Bool.and_false, Bool.false_eq_true, if_false, List.length_nil]
  rw [if_neg (by omega)]
  simp [insertAt]

/-- `insert` never leaves defined behaviour on a well-shaped tree -/
theorem insert_total (p : Params K) (pv : p.Valid) (t : Tree K V) (ht : TreeShape p t) (k : K) (v : V) :
    ∃ r, insert p t k v = some r := by
  unfold insert
  cases hroot : t.root with
  | none =>
    simp only [BNode.level]
    unfold insertDescend
    rw [leafInsert_nil p pv]
    exact ⟨_, rfl⟩
  | some r0 =>
    simp only
    unfold TreeShape at ht
    rw [hroot] at ht
    obtain ⟨r, hr⟩ := insertDescend_total p pv k v r0.level r0 1 1 ht.1
    rw [hr]
    exact ⟨_, rfl⟩

/-- `insert` keeps the shape invariant and the node bookkeeping; its ledger is the growth -/
theorem insert_treeShape (p : Params K) (pv : p.Valid) (t : Tree K V) (ht : TreeShape p t) (k : K) (v : V)
    (res : InsResult K V) (hres : insert p t k v = some res) :
    TreeShape p res.tree ∧
    res.tree.nLeaves = t.nLeaves + res.ledger.leafAlloc ∧ res.tree.nInner = t.nInner + res.ledger.innerAlloc ∧
    res.ledger.leafFree = 0 ∧ res.ledger.innerFree = 0 := by
  have hl4 := pv.leaf4
  have hi4 := pv.inner4
  unfold insert at hres
  cases hroot : t.root with
  | none =>
    rw [hroot] at hres
    simp only [BNode.level] at hres
    unfold insertDescend at hres
    rw [leafInsert_nil p pv] at hres
    simp only at hres
    cases hres
    unfold TreeShape at ht
    rw [hroot] at ht
    simp [TreeShape, ShapeTop, BNode.level, leafCount, innerCount, flatten, ht, Tree.nLeaves, Tree.nInner, hroot]
    omega
  | some r0 =>
    rw [hroot] at hres
    simp only at hres
    unfold TreeShape at ht
    rw [hroot] at ht
    obtain ⟨hs, hlv, hin, hsz⟩ := ht
    have hnl : t.nLeaves = leafCount r0.level r0 := by simp [Tree.nLeaves, hroot]
    have hni : t.nInner = innerCount r0.level r0 := by simp [Tree.nInner, hroot]
    generalize r0.level = h0 at *
    cases hr : insertDescend p k v h0 r0 with
    | none => rw [hr] at hres; cases hres
    | some r =>
      rw [hr] at hres
      simp only at hres
      have hshape := insertDescend_shape p pv k v h0 r0 1 1 (by simp [Params.leafMin, Gen.leafSlotmin]; omega)
        (by simp [Params.innerMin, Gen.innerSlotmin]; omega) hs r hr
      have hcount := insertDescend_count p k v h0 r0 r hr
      have hflat := insertDescend_flatten p pv k v h0 r0 1 1 hs r hr
      have hlen := congrArg List.length hflat
      have hlen' : (flatten h0 r.node ++ optFlat h0 r.split).length =
          if r.inserted then (flatten h0 r0).length + 1 else (flatten h0 r0).length := by
        rw [hlen]; split <;> simp [length_insertAt]
      cases hsp : r.split with
      | none =>
        rw [hsp] at hres hcount hlen'
        cases hres
        have hs' := hshape.1 hsp
        have hlev : r.node.level = h0 := hs'.level
        simp only [optCnt, optFlat, Nat.add_zero, List.append_nil] at hcount hlen'
        rw [hnl, hni]
        simp only [TreeShape, Tree.nLeaves, Tree.nInner, hlev]
        refine ⟨⟨hs', ?_, ?_, ?_⟩, ?_, ?_, ?_, ?_⟩
        · simp only [Nat.zero_add]; omega
        · simp only [Nat.add_zero]; omega
        · rw [hlen', hsz]
        · simp only [Nat.zero_add]; omega
        · simp only [Nat.add_zero]; omega
        · trivial
        · trivial
      | some kv =>
        obtain ⟨nk, nc⟩ := kv
        rw [hsp] at hres hcount hlen'
        cases hres
        obtain ⟨hs1, hs2⟩ := hshape.2 nk nc hsp
        simp only [optCnt, optFlat] at hcount hlen'
        rw [hnl, hni]
        simp only [TreeShape, Tree.nLeaves, Tree.nInner, BNode.level, leafCount, innerCount, flatten,
          List.map_cons, List.map_nil, List.sum_cons, List.sum_nil, List.flatMap_cons, List.flatMap_nil,
          List.append_nil, Nat.add_zero]
        refine ⟨⟨?_, ?_, ?_, ?_⟩, ?_, ?_, ?_, ?_⟩
        · simp only [ShapeTop, List.length_cons, List.length_nil]
          refine ⟨by first | rfl | trivial, by first | rfl | trivial, by omega, by omega, ?_⟩
          intro c hc
          simp only [List.mem_cons, List.not_mem_nil, or_false] at hc
          rcases hc with hc | hc <;> (subst hc; assumption)
        · omega
        · omega
        · rw [hlen', hsz]
        · omega
        · omega
        · trivial
        · trivial

end TlxVerif.C01
