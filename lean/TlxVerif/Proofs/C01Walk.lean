/-
C01 — positions and the iteration loops of the harness: uniqueness of `begin()` / `end()` among
well-formed positions, `reverse_iterator::operator--`, `iterator(rit)` (= `rit.base()`), and the
`walk_fwd` / `walk_bwd` / step-counting loops for all four iterator classes.
-/
import TlxVerif.Model.C01Machine
import TlxVerif.Proofs.C01RIter
namespace TlxVerif.C01

variable {K V : Type}

theorem iterN_succ_inner {α : Type} (f : α → α) : ∀ (n : Nat) (a : α), iterN f (n + 1) a = iterN f n (f a) := by
  intro n
  induction n with
  | zero => intro a; rfl
  | succ n ih => intro a; simp only [iterN] at ih ⊢; rw [ih]

theorem iterN_add {α : Type} (f : α → α) (m n : Nat) (a : α) : iterN f (m + n) a = iterN f m (iterN f n a) := by
  induction m with
  | zero => simp [iterN]
  | succ m ih => rw [Nat.succ_add]; simp only [iterN, ih]

/-! ### uniqueness of the border positions -/

theorem take_flatten_length_pos (ch : List (List (K × V))) (hne : ∀ l ∈ ch, l ≠ []) (li : Nat) (h0 : 0 < li)
    (hl : li ≤ ch.length) : 0 < ((ch.take li).flatten).length := by
  cases ch with
  | nil => simp at hl; omega
  | cons a rest =>
    obtain ⟨m, rfl⟩ : ∃ m, li = m + 1 := ⟨li - 1, by omega⟩
    have := List.length_pos_iff.mpr (hne a List.mem_cons_self)
    simp only [List.take_succ_cons, List.flatten_cons, List.length_append]
    omega

/-- the only well-formed position of rank 0 is `(0, 0)` -/
theorem form_rank_zero (ch : List (List (K × V))) (hne : ∀ l ∈ ch, l ≠ []) (pos : Nat × Nat) (hf : FwdForm ch pos)
    (hr : rankOf ch (some pos) = 0) : pos = (0, 0) := by
  obtain ⟨li, s⟩ := pos
  obtain ⟨leaf, hl, _⟩ := hf
  simp only at hl
  rw [rankOf_eq] at hr
  have hlt := (List.getElem?_eq_some_iff.mp hl).1
  rcases Nat.eq_zero_or_pos li with h0 | h0
  · subst h0; simp at hr; simp [hr]
  · have := take_flatten_length_pos ch hne li h0 (by omega); omega

/-- the only well-formed position of full rank is `end()` -/
theorem form_rank_total (ch : List (List (K × V))) (hne : ∀ l ∈ ch, l ≠ []) (pos e : Nat × Nat) (hf : FwdForm ch pos)
    (he : IsEnd ch e) (hr : rankOf ch (some pos) = ch.flatten.length) : pos = e := by
  obtain ⟨li, s⟩ := pos
  obtain ⟨ei, es⟩ := e
  obtain ⟨leaf, hl, hs⟩ := hf
  obtain ⟨eleaf, hel, hes, hei⟩ := he
  simp only at hl hs hel hes hei
  rw [rankOf_eq, flatten_split ch li leaf hl] at hr
  simp only [List.length_append] at hr
  have hlt := (List.getElem?_eq_some_iff.mp hl).1
  -- nothing behind leaf li
  have hrest : ((ch.drop (li + 1)).flatten).length = 0 := by omega
  have hli : li + 1 = ch.length := by
    rcases Nat.lt_or_ge (li + 1) ch.length with h | h
    · exfalso
      have hx : (ch.drop (li + 1)) = ch[li + 1] :: ch.drop (li + 2) := List.drop_eq_getElem_cons h
      rw [hx] at hrest
      have := List.length_pos_iff.mpr (hne _ (List.getElem_mem h))
      simp only [List.flatten_cons, List.length_append] at hrest
      omega
    · omega
  have : li = ei := by omega
  subst this
  rw [hl] at hel
  cases hel
  have : s = leaf.length := by omega
  simp [this, hes]

theorem valid_ne_end (ch : List (List (K × V))) (pos e : Nat × Nat) (hv : ValidPos ch pos) (he : IsEnd ch e) :
    pos ≠ e := by
  intro h
  subst h
  obtain ⟨leaf, hl, hs⟩ := hv
  obtain ⟨leaf', hl', hs', _⟩ := he
  rw [hl] at hl'; cases hl'; omega

theorem rvalid_ne_rend (ch : List (List (K × V))) (pos : Nat × Nat) (hv : RValidPos ch pos) : pos ≠ (0, 0) := by
  intro h
  subst h
  obtain ⟨_, _, h1, _⟩ := hv
  simp at h1

theorem valid_form {ch : List (List (K × V))} {pos : Nat × Nat} (hv : ValidPos ch pos) : FwdForm ch pos := by
  obtain ⟨leaf, hl, hs⟩ := hv; exact ⟨leaf, hl, by omega⟩
theorem rvalid_form {ch : List (List (K × V))} {pos : Nat × Nat} (hv : RValidPos ch pos) : FwdForm ch pos := by
  obtain ⟨leaf, hl, _, hs⟩ := hv; exact ⟨leaf, hl, hs⟩
theorem end_form {ch : List (List (K × V))} {pos : Nat × Nat} (hv : IsEnd ch pos) : FwdForm ch pos := by
  obtain ⟨leaf, hl, hs, _⟩ := hv; exact ⟨leaf, hl, by omega⟩

/-- a well-formed position below full rank that is one past a leaf's last slot or on an entry -/
theorem valid_rank_lt (ch : List (List (K × V))) (pos : Nat × Nat) (hv : ValidPos ch pos) :
    rankOf ch (some pos) < ch.flatten.length := by
  obtain ⟨li, s⟩ := pos
  obtain ⟨leaf, hl, hs⟩ := hv
  simp only at hl hs
  rw [rankOf_eq, flatten_split ch li leaf hl]
  simp only [List.length_append]; omega

theorem rvalid_rank_pos (ch : List (List (K × V))) (pos : Nat × Nat) (hv : RValidPos ch pos) :
    0 < rankOf ch (some pos) := by
  obtain ⟨li, s⟩ := pos
  obtain ⟨leaf, hl, h1, _⟩ := hv
  simp only at h1
  rw [rankOf_eq]; omega

theorem form_rank_le (ch : List (List (K × V))) (pos : Nat × Nat) (hf : FwdForm ch pos) :
    rankOf ch (some pos) ≤ ch.flatten.length := by
  obtain ⟨li, s⟩ := pos
  obtain ⟨leaf, hl, hs⟩ := hf
  simp only at hl hs
  rw [rankOf_eq, flatten_split ch li leaf hl]
  simp only [List.length_append]; omega

/-- `++it` on an entry lands on an entry or exactly on `end()` -/
theorem itInc_valid_or_end (ch : List (List (K × V))) (hne : ∀ l ∈ ch, l ≠ []) (pos : Nat × Nat) (hv : ValidPos ch pos) :
    ValidPos ch (itInc ch pos) ∨ IsEnd ch (itInc ch pos) := by
  obtain ⟨li, s⟩ := pos
  obtain ⟨leaf, hl, hs⟩ := hv
  simp only at hl hs
  have hlt := (List.getElem?_eq_some_iff.mp hl).1
  simp only [itInc, hl, Option.map_some, Option.getD_some]
  by_cases h1 : s + 1 < leaf.length
  · rw [if_pos h1]; exact Or.inl ⟨leaf, hl, h1⟩
  · rw [if_neg h1]
    by_cases h2 : li + 1 < ch.length
    · rw [if_pos h2]
      exact Or.inl ⟨ch[li + 1], List.getElem?_eq_getElem h2, List.length_pos_iff.mpr (hne _ (List.getElem_mem h2))⟩
    · rw [if_neg h2]; exact Or.inr ⟨leaf, hl, rfl, by simp only; omega⟩

/-! ### `reverse_iterator::operator--` and `iterator(reverse_iterator)` -/

/-- `--rit` moves one rank up and refers to an entry -/
theorem ritDec_spec (ch : List (List (K × V))) (hne : ∀ l ∈ ch, l ≠ []) (pos : Nat × Nat) (hf : FwdForm ch pos)
    (hr : rankOf ch (some pos) < ch.flatten.length) :
    rankOf ch (some (ritDec ch pos)) = rankOf ch (some pos) + 1 ∧ RValidPos ch (ritDec ch pos) := by
  obtain ⟨li, s⟩ := pos
  obtain ⟨leaf, hl, hs⟩ := hf
  simp only at hl hs
  have hlt := (List.getElem?_eq_some_iff.mp hl).1
  simp only [ritDec, hl, Option.map_some, Option.getD_some]
  by_cases h1 : s < leaf.length
  · rw [if_pos h1]
    exact ⟨by simp only [rankOf_eq]; omega, ⟨leaf, hl, by simp only; omega, by simp only; omega⟩⟩
  · rw [if_neg h1]
    have hsl : s = leaf.length := by omega
    by_cases h2 : li + 1 < ch.length
    · rw [if_pos h2]
      have hnext : ch[li + 1]? = some ch[li + 1] := List.getElem?_eq_getElem h2
      have hpos := List.length_pos_iff.mpr (hne _ (List.getElem_mem h2))
      have hsum : ((ch.take (li + 1)).flatten).length = ((ch.take li).flatten).length + leaf.length := by
        rw [List.take_add_one, hl]
        simp only [Option.toList, List.flatten_append, List.length_append, List.flatten_cons, List.flatten_nil,
          List.append_nil]
      exact ⟨by simp only [rankOf_eq, hsum]; omega, ⟨ch[li + 1], hnext, by simp only; omega, by simp only; omega⟩⟩
    · exfalso
      have := rankOf_endPos' ch li leaf hl (by omega)
      rw [hsl] at hr
      omega

/-- `iterator(rit)`: same rank, on an entry (std: `rit.base()`) -/
theorem toForward_spec (ch : List (List (K × V))) (hne : ∀ l ∈ ch, l ≠ []) (pos : Nat × Nat) (hf : FwdForm ch pos)
    (hr : rankOf ch (some pos) < ch.flatten.length) :
    ValidPos ch (toForward ch pos) ∧ rankOf ch (some (toForward ch pos)) = rankOf ch (some pos) := by
  obtain ⟨li, s⟩ := pos
  obtain ⟨leaf, hl, hs⟩ := hf
  simp only at hl hs
  have hlt := (List.getElem?_eq_some_iff.mp hl).1
  simp only [toForward, hl, Option.map_some, Option.getD_some]
  by_cases h0 : s = leaf.length ∧ li + 1 < ch.length
  · rw [if_pos h0]
    obtain ⟨hsl, h2⟩ := h0
    have hnext : ch[li + 1]? = some ch[li + 1] := List.getElem?_eq_getElem h2
    have hpos := List.length_pos_iff.mpr (hne _ (List.getElem_mem h2))
    have hsum : ((ch.take (li + 1)).flatten).length = ((ch.take li).flatten).length + leaf.length := by
      rw [List.take_add_one, hl]
      simp only [Option.toList, List.flatten_append, List.length_append, List.flatten_cons, List.flatten_nil,
        List.append_nil]
    exact ⟨⟨ch[li + 1], hnext, hpos⟩, by simp only [rankOf_eq, hsum]; omega⟩
  · rw [if_neg h0]
    refine ⟨⟨leaf, hl, ?_⟩, rfl⟩
    simp only
    rcases Nat.lt_or_ge s leaf.length with h | h
    · exact h
    · exfalso
      have hsl : s = leaf.length := by omega
      have : li + 1 = ch.length := by
        rcases Nat.lt_or_ge (li + 1) ch.length with h' | h'
        · exact absurd ⟨hsl, h'⟩ h0
        · omega
      have := rankOf_endPos' ch li leaf hl this
      rw [hsl] at hr
      omega

theorem ritInc_form (ch : List (List (K × V))) (pos : Nat × Nat) (hv : RValidPos ch pos) : FwdForm ch (ritInc ch pos) := by
  obtain ⟨li, s⟩ := pos
  obtain ⟨leaf, hl, h1, h2⟩ := hv
  simp only at hl h1 h2
  have hlt := (List.getElem?_eq_some_iff.mp hl).1
  simp only [ritInc]
  by_cases hs : s > 1
  · rw [if_pos hs]; exact ⟨leaf, hl, by simp only; omega⟩
  · rw [if_neg hs]
    by_cases hli : li > 0
    · rw [if_pos hli]
      have hp : li - 1 < ch.length := by omega
      exact ⟨ch[li - 1], List.getElem?_eq_getElem hp, by simp [List.getElem?_eq_getElem hp]⟩
    · rw [if_neg hli]; exact ⟨leaf, hl, by simp⟩

/-- `r` applications of `reverse_iterator::operator--` to `rend()` -/
theorem iterate_rdec (ch : List (List (K × V))) (hne : ∀ l ∈ ch, l ≠ []) (htot : 0 < ch.flatten.length) :
    ∀ r, r ≤ ch.flatten.length →
      FwdForm ch (iterN (ritDec ch) r (0, 0)) ∧ rankOf ch (some (iterN (ritDec ch) r (0, 0))) = r ∧
        (0 < r → RValidPos ch (iterN (ritDec ch) r (0, 0))) := by
  intro r
  induction r with
  | zero =>
    intro _
    cases ch with
    | nil => simp at htot
    | cons a rest => exact ⟨⟨a, rfl, Nat.zero_le _⟩, by simp [iterN, rankOf], fun h => absurd h (Nat.lt_irrefl 0)⟩
  | succ r ih =>
    intro h
    obtain ⟨i1, i2, _⟩ := ih (by omega)
    obtain ⟨j1, j2⟩ := ritDec_spec ch hne _ i1 (by omega)
    exact ⟨rvalid_form j2, by simp only [iterN]; omega, fun _ => j2⟩

end TlxVerif.C01

namespace TlxVerif.C01
variable {K V : Type}

/-! ### the loops, generically: a distance measure `D x d` to the stop position -/

/-- the list emitted by a walk of `d` steps when `g j` is emitted at remaining distance `j + 1` -/
def emit (g : Nat → Option Ent) : Nat → List (Option Ent)
  | 0 => []
  | d + 1 => g d :: emit g d

theorem walkFwd_gen (inc : Nat × Nat → Nat × Nat) (der : Nat × Nat → Option Ent) (e : Nat × Nat) (cap : Nat)
    (g : Nat → Option Ent) (D : Nat × Nat → Nat → Prop)
    (h0 : ∀ x, D x 0 → x = e)
    (hs : ∀ x d, D x (d + 1) → x ≠ e ∧ der x = g d ∧ D (inc x) d) :
    ∀ (d : Nat) (x : Nat × Nat) (out : List (Option Ent)) (fuel : Nat), D x d → d < fuel → out.length + d ≤ cap + 1 →
      walkFwd inc der e cap fuel x out = out.reverse ++ emit g d := by
  intro d
  induction d with
  | zero =>
    intro x out fuel hd hf _
    obtain ⟨f, rfl⟩ : ∃ f, fuel = f + 1 := ⟨fuel - 1, by omega⟩
    simp [walkFwd, h0 x hd, emit]
  | succ d ih =>
    intro x out fuel hd hf hc
    obtain ⟨f, rfl⟩ : ∃ f, fuel = f + 1 := ⟨fuel - 1, by omega⟩
    obtain ⟨hne, hder, hnext⟩ := hs x d hd
    simp only [walkFwd]
    rw [if_neg hne, if_neg (by omega), ih (inc x) (der x :: out) f hnext (by omega) (by simp only [List.length_cons]; omega)]
    simp [emit, hder]

theorem walkBwd_gen (dec : Nat × Nat → Nat × Nat) (der : Nat × Nat → Option Ent) (b : Nat × Nat) (cap : Nat)
    (g : Nat → Option Ent) (D : Nat × Nat → Nat → Prop)
    (h0 : ∀ x, D x 0 → x = b)
    (hs : ∀ x d, D x (d + 1) → x ≠ b ∧ der (dec x) = g d ∧ D (dec x) d) :
    ∀ (d : Nat) (x : Nat × Nat) (out : List (Option Ent)) (fuel : Nat), D x d → d < fuel → out.length + d ≤ cap + 1 →
      walkBwd dec der b cap fuel x out = out.reverse ++ emit g d := by
  intro d
  induction d with
  | zero =>
    intro x out fuel hd hf _
    obtain ⟨f, rfl⟩ : ∃ f, fuel = f + 1 := ⟨fuel - 1, by omega⟩
    simp [walkBwd, h0 x hd, emit]
  | succ d ih =>
    intro x out fuel hd hf hc
    obtain ⟨f, rfl⟩ : ∃ f, fuel = f + 1 := ⟨fuel - 1, by omega⟩
    obtain ⟨hne, hder, hnext⟩ := hs x d hd
    simp only [walkBwd]
    rw [if_neg hne, if_neg (by omega), ih (dec x) (der (dec x) :: out) f hnext (by omega) (by simp only [List.length_cons]; omega)]
    simp [emit, hder]

theorem stepsTo_gen (inc : Nat × Nat → Nat × Nat) (tgt : Nat × Nat) (lim : Nat) (D : Nat × Nat → Nat → Prop)
    (h0 : ∀ x, D x 0 → x = tgt)
    (hs : ∀ x d, D x (d + 1) → x ≠ tgt ∧ D (inc x) d) :
    ∀ (d : Nat) (x : Nat × Nat) (n fuel : Nat), D x d → d ≤ fuel → n + d ≤ lim + 1 →
      stepsTo inc tgt lim fuel x n = n + d := by
  intro d
  induction d with
  | zero =>
    intro x n fuel hd _ _
    cases fuel with
    | zero => rfl
    | succ f => simp [stepsTo, h0 x hd]
  | succ d ih =>
    intro x n fuel hd hf hc
    obtain ⟨f, rfl⟩ : ∃ f, fuel = f + 1 := ⟨fuel - 1, by omega⟩
    obtain ⟨hne, hnext⟩ := hs x d hd
    simp only [stepsTo]
    rw [if_pos ⟨hne, by omega⟩, ih (inc x) (n + 1) f hnext (by omega) (by omega)]
    omega

theorem emit_up (l : List Ent) : ∀ d, d ≤ l.length →
    emit (fun j => l[j]?) d = ((l.take d).reverse).map some := by
  intro d
  induction d with
  | zero => intro _; simp [emit]
  | succ d ih =>
    intro h
    have hd : d < l.length := by omega
    have ht : l.take (d + 1) = l.take d ++ [l[d]] := by
      rw [List.take_add_one, List.getElem?_eq_getElem hd]; rfl
    rw [emit, ih (by omega), ht, List.getElem?_eq_getElem hd]
    simp only [List.reverse_append, List.reverse_cons, List.reverse_nil, List.nil_append, List.cons_append,
      List.map_cons]

theorem emit_down (l : List Ent) : ∀ d, d ≤ l.length →
    emit (fun j => l[l.length - 1 - j]?) d = (l.drop (l.length - d)).map some := by
  intro d
  induction d with
  | zero => intro _; simp [emit]
  | succ d ih =>
    intro h
    have hd : l.length - 1 - d < l.length := by omega
    rw [emit, ih (by omega), List.drop_eq_getElem_cons (by omega : l.length - (d + 1) < l.length)]
    have e1 : l.length - 1 - d = l.length - (d + 1) := by omega
    have e2 : l.length - (d + 1) + 1 = l.length - d := by omega
    simp [e1, e2]

/-! ### the four distance measures -/

section dist
variable (ch : List (List Ent))

/-- `++it` towards `end()` -/
def DF (x : Nat × Nat) (d : Nat) : Prop := (ValidPos ch x ∨ IsEnd ch x) ∧ rankOf ch (some x) + d = ch.flatten.length
/-- `--it` towards `begin()` -/
def DB (x : Nat × Nat) (d : Nat) : Prop := (ValidPos ch x ∨ IsEnd ch x) ∧ rankOf ch (some x) = d
/-- `++rit` towards `rend()` -/
def DR (x : Nat × Nat) (d : Nat) : Prop := FwdForm ch x ∧ rankOf ch (some x) = d ∧ (0 < d → RValidPos ch x)
/-- `--rit` towards `rbegin()` -/
def DRB (x : Nat × Nat) (d : Nat) : Prop := FwdForm ch x ∧ rankOf ch (some x) + d = ch.flatten.length

variable (hne : ∀ l ∈ ch, l ≠ []) (e : Nat × Nat) (he : IsEnd ch e)
include hne he

theorem DF_zero (x : Nat × Nat) (h : DF ch x 0) : x = e := by
  obtain ⟨hv, hr⟩ := h
  rcases hv with hv | hv
  · have := valid_rank_lt ch x hv; omega
  · exact form_rank_total ch hne x e (end_form hv) he (by omega)

theorem DF_succ (x : Nat × Nat) (d : Nat) (h : DF ch x (d + 1)) :
    x ≠ e ∧ deref ch x = (fun j => ch.flatten[ch.flatten.length - 1 - j]?) d ∧ DF ch (itInc ch x) d := by
  obtain ⟨hv, hr⟩ := h
  have hv : ValidPos ch x := by
    rcases hv with hv | hv
    · exact hv
    · have := rankOf_isEnd ch x hv; omega
  obtain ⟨i1, _⟩ := itInc_spec ch hne x hv
  refine ⟨valid_ne_end ch x e hv he, ?_, itInc_valid_or_end ch hne x hv, by omega⟩
  rw [deref_valid ch x hv]
  have : rankOf ch (some x) = ch.flatten.length - 1 - d := by omega
  simp only [this]

omit he in
theorem DB_zero (x : Nat × Nat) (h : DB ch x 0) : x = (0, 0) := by
  obtain ⟨hv, hr⟩ := h
  exact form_rank_zero ch hne x (hv.elim valid_form end_form) hr

omit he in
theorem DB_succ (x : Nat × Nat) (d : Nat) (h : DB ch x (d + 1)) :
    x ≠ (0, 0) ∧ deref ch (itDec ch x) = (fun j => ch.flatten[j]?) d ∧ DB ch (itDec ch x) d := by
  obtain ⟨hv, hr⟩ := h
  obtain ⟨i1, i2⟩ := itDec_spec ch hne x hv (by omega)
  refine ⟨?_, ?_, Or.inl i2, by omega⟩
  · intro hx; subst hx; simp [rankOf] at hr
  · rw [deref_valid ch _ i2]
    have : rankOf ch (some (itDec ch x)) = d := by omega
    simp only [this]

omit he in
theorem DR_zero (x : Nat × Nat) (h : DR ch x 0) : x = (0, 0) := form_rank_zero ch hne x h.1 h.2.1

omit he in
theorem DR_succ (x : Nat × Nat) (d : Nat) (h : DR ch x (d + 1)) :
    x ≠ (0, 0) ∧ rderef ch x = (fun j => ch.flatten[j]?) d ∧ DR ch (ritInc ch x) d := by
  obtain ⟨_, hr, hv⟩ := h
  have hv := hv (by omega)
  obtain ⟨i1, i2⟩ := ritInc_spec ch hne x hv
  refine ⟨rvalid_ne_rend ch x hv, ?_, ritInc_form ch x hv, by omega, fun hd => ?_⟩
  · rw [rderef_valid ch x hv, hr]; simp
  · have := i2 (by omega); exact this

theorem DRB_zero (x : Nat × Nat) (h : DRB ch x 0) : x = e := form_rank_total ch hne x e h.1 he (by have := h.2; omega)

theorem DRB_succ (x : Nat × Nat) (d : Nat) (h : DRB ch x (d + 1)) :
    x ≠ e ∧ rderef ch (ritDec ch x) = (fun j => ch.flatten[ch.flatten.length - 1 - j]?) d ∧ DRB ch (ritDec ch x) d := by
  obtain ⟨hf, hr⟩ := h
  obtain ⟨i1, i2⟩ := ritDec_spec ch hne x hf (by omega)
  refine ⟨?_, ?_, rvalid_form i2, by omega⟩
  · intro hx; subst hx; have := rankOf_isEnd ch x he; omega
  · rw [rderef_valid ch _ i2]
    have : rankOf ch (some (ritDec ch x)) - 1 = ch.flatten.length - 1 - d := by omega
    simp only [this]

end dist
end TlxVerif.C01

namespace TlxVerif.C01

theorem size_eq_length (p : Params Nat) (t : T) (ht : TreeInv p t) : t.stats.size = t.toList.length := by
  obtain ⟨hs, _, _⟩ := ht
  unfold TreeShape at hs
  cases hroot : t.root with
  | none => rw [hroot] at hs; simp [hs, Tree.toList, hroot]
  | some r => rw [hroot] at hs; simp only [Tree.toList, hroot]; exact hs.2.2.2

theorem isEnd_of_endPos {K V : Type} (ch : List (List (K × V))) (e : Nat × Nat) (he : endPos ch = some e) : IsEnd ch e := by
  unfold endPos at he
  cases hl : ch.getLast? with
  | none => rw [hl] at he; cases he
  | some l =>
    rw [hl] at he
    cases he
    have hne : ch ≠ [] := by intro h; subst h; simp at hl
    have hlen := List.length_pos_iff.mpr hne
    refine ⟨l, ?_, rfl, by simp only; omega⟩
    rw [List.getLast?_eq_getElem?] at hl
    exact hl

/-- the 16 iteration modes of the harness: the entry sequence, forward or reversed -/
theorem iterOut_spec (p : Params Nat) (pv : p.Valid) (t : T) (ht : TreeInv p t) (m : Nat) :
    iterOut t m =
      if m % 8 = 0 ∨ m % 8 = 2 ∨ m % 8 = 5 ∨ m % 8 = 7 then t.toList.map some else t.toList.reverse.map some := by
  have hne := tree_chain_ne_nil p pv t ht
  have hcf := tree_chain_flatten t
  have hsz := size_eq_length p t ht
  unfold iterOut
  cases hb : beginPos t.leafChain with
  | none =>
    have : t.leafChain = [] := by
      unfold beginPos at hb
      split at hb
      · simpa using ‹t.leafChain.isEmpty = true›
      · cases hb
    have : t.toList = [] := by rw [← hcf, this]; rfl
    simp [hb, this]
  | some b =>
    have hb0 : b = (0, 0) := by unfold beginPos at hb; split at hb <;> simp_all
    subst hb0
    have hch : t.leafChain ≠ [] := by
      intro h; rw [h] at hb; simp [beginPos] at hb
    cases he : endPos t.leafChain with
    | none =>
      exfalso
      unfold endPos at he
      cases hl : t.leafChain.getLast? with
      | none => exact hch (List.getLast?_eq_none_iff.mp hl)
      | some l => rw [hl] at he; cases he
    | some e =>
      have hend := isEnd_of_endPos _ e he
      have hre := rankOf_isEnd _ e hend
      have hrb : toReverse t.leafChain e = e := toReverse_end _ hne e hend
      have hrend : toReverse t.leafChain (0, 0) = (0, 0) := by simp [toReverse]
      have hfirst : ∃ l0, t.leafChain[0]? = some l0 ∧ 0 < l0.length := by
        cases hc : t.leafChain with
        | nil => exact absurd hc hch
        | cons a rest =>
          exact ⟨a, rfl, List.length_pos_iff.mpr (hne a (by rw [hc]; exact List.mem_cons_self))⟩
      obtain ⟨l0, hl0, hl0p⟩ := hfirst
      have hbv : ValidPos t.leafChain (0, 0) := ⟨l0, hl0, hl0p⟩
      have hb_rank : rankOf t.leafChain (some (0, 0)) = 0 := by simp [rankOf]
      have hlen : t.leafChain.flatten.length = t.toList.length := by rw [hcf]
      simp only [hb, he, hrb, hrend]
      by_cases c1 : m % 8 = 0 ∨ m % 8 = 2
      · rw [if_pos c1, if_pos (by omega)]
        rw [walkFwd_gen _ _ e _ _ (DF t.leafChain) (DF_zero _ hne e hend) (DF_succ _ hne e hend)
          t.toList.length (0, 0) [] _ ⟨Or.inl hbv, by rw [hb_rank, hlen]; omega⟩ (by omega)
          (by simp only [List.length_nil]; omega)]
        rw [hcf, emit_down _ _ (Nat.le_refl _)]; simp
      · rw [if_neg c1]
        by_cases c2 : m % 8 = 1 ∨ m % 8 = 3
        · rw [if_pos c2, if_neg (by omega)]
          rw [walkBwd_gen _ _ (0, 0) _ _ (DB t.leafChain) (DB_zero _ hne) (DB_succ _ hne)
            t.toList.length e [] _ ⟨Or.inr hend, by rw [hre, hlen]⟩ (by omega)
            (by simp only [List.length_nil]; omega)]
          rw [hcf, emit_up _ _ (Nat.le_refl _)]; simp
        · rw [if_neg c2]
          have hev : 0 < t.toList.length → RValidPos t.leafChain e := by
            intro _
            obtain ⟨li, s⟩ := e
            obtain ⟨leaf, h1, h2, h3⟩ := hend
            simp only at h1 h2 h3
            exact ⟨leaf, h1, by
              have := List.length_pos_iff.mpr (hne leaf (List.mem_of_getElem? h1)); simp only; omega, by simp only; omega⟩
          by_cases c3 : m % 8 = 4 ∨ m % 8 = 6
          · rw [if_pos c3, if_neg (by omega)]
            rw [walkFwd_gen _ _ (0, 0) _ _ (DR t.leafChain) (DR_zero _ hne) (DR_succ _ hne)
              t.toList.length e [] _ ⟨end_form hend, by rw [hre, hlen], hev⟩ (by omega)
              (by simp only [List.length_nil]; omega)]
            rw [hcf, emit_up _ _ (Nat.le_refl _)]; simp
          · rw [if_neg c3, if_pos (by omega)]
            rw [walkBwd_gen _ _ e _ _ (DRB t.leafChain) (DRB_zero _ hne e hend) (DRB_succ _ hne e hend)
              t.toList.length (0, 0) [] _ ⟨valid_form hbv, by rw [hb_rank, hlen]; omega⟩ (by omega)
              (by simp only [List.length_nil]; omega)]
            rw [hcf, emit_down _ _ (Nat.le_refl _)]; simp

end TlxVerif.C01

namespace TlxVerif.C01

theorem chain_border (p : Params Nat) (pv : p.Valid) (t : T) (ht : TreeInv p t) (hpos : 0 < t.toList.length) :
    beginPos t.leafChain = some (0, 0) ∧ ValidPos t.leafChain (0, 0) ∧ ∃ e, endPos t.leafChain = some e ∧ IsEnd t.leafChain e := by
  have hne := tree_chain_ne_nil p pv t ht
  have hcf := tree_chain_flatten t
  cases hc : t.leafChain with
  | nil => rw [hc] at hcf; simp at hcf; rw [hcf] at hpos; simp at hpos
  | cons a rest =>
    have ha : 0 < a.length := List.length_pos_iff.mpr (hne a (by rw [hc]; exact List.mem_cons_self))
    refine ⟨by simp [beginPos], ⟨a, rfl, ha⟩, ?_⟩
    cases he : endPos (a :: rest) with
    | none =>
      exfalso
      unfold endPos at he
      cases hl : (a :: rest).getLast? with
      | none => simp at hl
      | some l => rw [hl] at he; cases he
    | some e => exact ⟨e, rfl, isEnd_of_endPos _ e he⟩

/-- `rconv`: `*reverse_iterator(begin() + k)` is the entry of rank `k − 1`, `k` steps before `rend()` -/
theorem rconvOut_spec (p : Params Nat) (pv : p.Valid) (t : T) (ht : TreeInv p t) (k : Nat) (h1 : 1 ≤ k)
    (h2 : k ≤ t.toList.length) : rconvOut t k = some (.conv (t.toList[k - 1]?) k) := by
  have hne := tree_chain_ne_nil p pv t ht
  have hcf := tree_chain_flatten t
  have hsz := size_eq_length p t ht
  obtain ⟨hb, hbv, e, he, hend⟩ := chain_border p pv t ht (by omega)
  have hlen : t.leafChain.flatten.length = t.toList.length := by rw [hcf]
  obtain ⟨m, rfl⟩ : ∃ m, k = m + 1 := ⟨k - 1, by omega⟩
  obtain ⟨hv, hrk⟩ := iterate_fwd t.leafChain hne m (by omega)
  obtain ⟨i1, _⟩ := itInc_spec t.leafChain hne _ hv
  have hform := itInc_form t.leafChain _ hv
  obtain ⟨r1, r2⟩ := toReverse_spec t.leafChain hne _ hform (by omega)
  have hrend : toReverse t.leafChain (0, 0) = (0, 0) := by simp [toReverse]
  simp only [rconvOut, hb, he, hrend, iterN]
  rw [stepsTo_gen _ (0, 0) _ (DR t.leafChain) (DR_zero _ hne) (fun x d h => ⟨(DR_succ _ hne x d h).1, (DR_succ _ hne x d h).2.2⟩)
    (m + 1) _ 0 _ ⟨rvalid_form r1, by rw [r2, i1, hrk], fun _ => r1⟩ (by omega) (by omega)]
  rw [rderef_valid _ _ r1, r2, i1, hrk, hcf]
  simp

/-- `fconv`: `*iterator(rbegin() + k)` is the entry of rank `size − k` (std: `rit.base()`), `k` steps before `end()` -/
theorem fconvOut_spec (p : Params Nat) (pv : p.Valid) (t : T) (ht : TreeInv p t) (k : Nat) (h1 : 1 ≤ k)
    (h2 : k ≤ t.toList.length) : fconvOut t k = some (.conv (t.toList[t.toList.length - k]?) k) := by
  have hne := tree_chain_ne_nil p pv t ht
  have hcf := tree_chain_flatten t
  have hsz := size_eq_length p t ht
  obtain ⟨hb, hbv, e, he, hend⟩ := chain_border p pv t ht (by omega)
  have hlen : t.leafChain.flatten.length = t.toList.length := by rw [hcf]
  obtain ⟨m, rfl⟩ : ∃ m, k = m + 1 := ⟨k - 1, by omega⟩
  obtain ⟨hv, hrk⟩ := iterate_rev t.leafChain hne e hend (by omega) m (by omega)
  obtain ⟨i1, _⟩ := ritInc_spec t.leafChain hne _ hv
  have hform := ritInc_form t.leafChain _ hv
  obtain ⟨f1, f2⟩ := toForward_spec t.leafChain hne _ hform (by omega)
  have hrb : toReverse t.leafChain e = e := toReverse_end _ hne e hend
  simp only [fconvOut, hb, he, hrb, iterN]
  rw [stepsTo_gen _ e _ (DF t.leafChain) (DF_zero _ hne e hend) (fun x d h => ⟨(DF_succ _ hne e hend x d h).1, (DF_succ _ hne e hend x d h).2.2⟩)
    (m + 1) _ 0 _ ⟨Or.inl f1, by rw [f2]; omega⟩ (by omega) (by omega)]
  rw [deref_valid _ _ f1, f2, hcf]
  have : rankOf t.leafChain (some (ritInc t.leafChain (iterN (ritInc t.leafChain) m e))) = t.toList.length - (m + 1) := by omega
  rw [this]
  simp

end TlxVerif.C01
