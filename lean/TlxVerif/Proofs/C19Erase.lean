/-
C19 — erase_all in place (scanning from the back with find_last_of / find_last_not_of)
removes exactly the bytes of the drop set.
-/
import TlxVerif.Model.C19Helpers
import TlxVerif.Proofs.C18Find
namespace TlxVerif.C19
open TlxVerif.C18 (Bytes npos)
open TlxVerif.C18

/-- the forward scan stops at the first element satisfying `qe`; everything before fails it -/
theorem firstIdx_headPred_decomp (qe : UInt8 → Bool) : ∀ r : Bytes,
    (∀ c ∈ r.take (firstIdx (headPred qe) r), qe c = false) ∧
    (firstIdx (headPred qe) r < r.length →
      ∃ x rest, r.drop (firstIdx (headPred qe) r) = x :: rest ∧ qe x = true)
  | [] => by simp [firstIdx]
  | c :: t => by
    obtain ⟨ih1, ih2⟩ := firstIdx_headPred_decomp qe t
    by_cases hq : qe c = true
    · have hfi : firstIdx (headPred qe) (c :: t) = 0 := by simp [firstIdx, headPred, hq]
      rw [hfi]
      simp only [List.take_zero, List.not_mem_nil, false_imp_iff, implies_true, List.drop_zero, true_and]
      intro _
      exact ⟨c, t, rfl, hq⟩
    · have hq' : qe c = false := by simpa using hq
      have hfi : firstIdx (headPred qe) (c :: t) = firstIdx (headPred qe) t + 1 := by
        simp [firstIdx, headPred, hq']
      rw [hfi]
      simp only [List.take_succ_cons, List.mem_cons, List.length_cons,
        Nat.add_lt_add_iff_right, List.drop_succ_cons]
      refine ⟨?_, ih2⟩
      intro x hx
      cases hx with
      | inl h => rw [h]; exact hq'
      | inr h => exact ih1 x h

/-- the last position `≤ pos` whose byte satisfies `qe`, as a decomposition of the searched prefix -/
theorem lastPos_decomp (qe : UInt8 → Bool) (s : Bytes) (pos : Nat) :
    let v := (Spec.greatest (fun x => decide (x ≤ pos) && posPred qe s x) s.length).getD npos
    (v = npos ∧ ∀ c ∈ s.take (min (pos + 1) s.length), qe c = false) ∨
    (∃ A x B, s.take (min (pos + 1) s.length) = A ++ x :: B ∧ qe x = true ∧ (∀ c ∈ B, qe c = false) ∧
      v = A.length) := by
  intro v
  have hm : min (pos + 1) s.length ≤ s.length := by omega
  have hv : v = (Spec.greatest (posPred qe s) (min (pos + 1) s.length)).getD npos := by
    show (Spec.greatest (fun x => decide (x ≤ pos) && posPred qe s x) s.length).getD npos = _
    rw [greatest_le_pos]
  rw [greatest_scan qe s _ hm, reverse_drop_eq s _ hm] at hv
  simp only [List.length_reverse, List.length_take, Nat.min_eq_left hm] at hv
  obtain ⟨h1, h2⟩ := firstIdx_headPred_decomp qe (s.take (min (pos + 1) s.length)).reverse
  have hlenr : (s.take (min (pos + 1) s.length)).reverse.length = min (pos + 1) s.length := by
    simp [List.length_take, Nat.min_eq_left hm]
  by_cases hlt : firstIdx (headPred qe) (s.take (min (pos + 1) s.length)).reverse < min (pos + 1) s.length
  · right
    rw [hlenr] at h2
    obtain ⟨x, rest, hd, hx⟩ := h2 hlt
    refine ⟨rest.reverse, x,
      ((s.take (min (pos + 1) s.length)).reverse.take
        (firstIdx (headPred qe) (s.take (min (pos + 1) s.length)).reverse)).reverse, ?_, hx, ?_, ?_⟩
    · have := List.take_append_drop (firstIdx (headPred qe) (s.take (min (pos + 1) s.length)).reverse)
        (s.take (min (pos + 1) s.length)).reverse
      rw [hd] at this
      have h3 := congrArg List.reverse this
      simp only [List.reverse_append, List.reverse_cons, List.reverse_reverse, List.append_assoc,
        List.singleton_append] at h3
      exact h3.symm
    · intro c hc
      exact h1 c (List.mem_reverse.mp hc)
    · simp only [hlt, if_true, Option.getD_some] at hv
      rw [hv]
      have := congrArg List.length hd
      simp only [List.length_drop, hlenr, List.length_cons] at this
      simp only [List.length_reverse]
      omega
  · left
    simp only [hlt, if_false, Option.getD_none] at hv
    refine ⟨hv, ?_⟩
    have hge : min (pos + 1) s.length ≤ firstIdx (headPred qe) (s.take (min (pos + 1) s.length)).reverse := by omega
    intro c hc
    apply h1 c
    rw [List.take_of_length_le (by rw [hlenr]; exact hge)]
    exact List.mem_reverse.mpr hc

end TlxVerif.C19

namespace TlxVerif.C19
open TlxVerif.C18 (Bytes npos)
open TlxVerif.C18

theorem drop_len_add (l1 l2 : Bytes) (i : Nat) : (l1 ++ l2).drop (l1.length + i) = l2.drop i := by
  rw [← List.drop_drop, List.drop_left]

theorem snoc_eq_append_cons {A A2 C : Bytes} {x y : UInt8} (h : A ++ [x] = A2 ++ y :: C) (hxy : x ≠ y) :
    ∃ C', A = A2 ++ y :: C' ∧ C = C' ++ [x] := by
  have hr := congrArg List.reverse h
  simp only [List.reverse_append, List.reverse_cons, List.reverse_nil, List.nil_append, List.singleton_append,
    List.append_assoc] at hr
  cases hc : C.reverse with
  | nil =>
    rw [hc] at hr
    simp only [List.nil_append, List.cons.injEq] at hr
    exact absurd hr.1 hxy
  | cons z Cr =>
    rw [hc] at hr
    simp only [List.cons_append, List.cons.injEq] at hr
    obtain ⟨hxz, hA⟩ := hr
    refine ⟨Cr.reverse, ?_, ?_⟩
    · have := congrArg List.reverse hA
      simpa using this
    · have := congrArg List.reverse hc
      simp only [List.reverse_reverse, List.reverse_cons] at this
      rw [this, hxz]

section
variable (drop : Bytes)

theorem filter_keep_of_all (l : Bytes) (h : ∀ c ∈ l, drop.contains c = false) :
    l.filter (fun c => !drop.contains c) = l := by
  apply List.filter_eq_self.mpr
  intro a ha
  show (!drop.contains a) = true
  rw [h a ha]; rfl

theorem filter_keep_of_none (l : Bytes) (h : ∀ c ∈ l, (!drop.contains c) = false) :
    l.filter (fun c => !drop.contains c) = [] := by
  apply List.filter_eq_nil_iff.mpr
  intro a ha
  show ¬ (!drop.contains a) = true
  rw [h a ha]; simp

/-- the loop of the in-place `erase_all`: `s = T ++ U`, `U` is already free of drop bytes and
the scan position `pos1` is the last index of `T` (or beyond the end at the start) -/
theorem eraseLoop_eq : ∀ (fuel : Nat) (T U : Bytes) (pos1 : Nat), T.length < fuel →
    (∀ c ∈ U, drop.contains c = false) → min (pos1 + 1) (T ++ U).length = T.length → (T ++ U).length < npos →
    eraseAllInplaceLoop drop fuel (T ++ U) pos1 = T.filter (fun c => !drop.contains c) ++ U
  | 0, _, _, _, h, _, _, _ => by omega
  | fuel + 1, T, U, pos1, hf, hU, hm, hsz => by
    rw [eraseAllInplaceLoop]
    have hd := lastPos_decomp (fun c => drop.contains c) (T ++ U) pos1
    have htake : (T ++ U).take (min (pos1 + 1) (T ++ U).length) = T := by
      rw [hm]; simp
    rw [htake] at hd
    have hflo : Spec.findLastOf (T ++ U) drop pos1 =
        (Spec.greatest (fun x => decide (x ≤ pos1) && posPred (fun c => drop.contains c) (T ++ U) x)
          (T ++ U).length).getD npos := by
      unfold Spec.findLastOf; rw [isIn_eq_posPred]
    simp only [hflo]
    rcases hd with ⟨hv, hall⟩ | ⟨A, x, B, hT, hx, hB, hv⟩
    · -- no drop byte left in T
      simp only [hv, if_true]
      rw [filter_keep_of_all drop T hall]
    · have hA : A.length < npos := by
        have := congrArg List.length hT
        simp only [List.length_append, List.length_cons] at this hsz
        omega
      have hne : ¬ A.length = npos := by omega
      simp only [hv, hne, if_false]
      -- the bytes before the last drop byte
      have hd2 := lastPos_decomp (fun c => !drop.contains c) (T ++ U) A.length
      have hlen : A.length + 1 ≤ (T ++ U).length := by
        rw [hT]; simp only [List.length_append, List.length_cons]; omega
      have htake2 : (T ++ U).take (min (A.length + 1) (T ++ U).length) = A ++ [x] := by
        rw [Nat.min_eq_left hlen, hT]
        have hh : A ++ x :: B ++ U = (A ++ [x]) ++ (B ++ U) := by simp
        have hl : (A ++ [x]).length = A.length + 1 := by simp
        rw [hh, ← hl, List.take_left]
      rw [htake2] at hd2
      have hflno : Spec.findLastNotOf (T ++ U) drop A.length =
          (Spec.greatest (fun y => decide (y ≤ A.length) && posPred (fun c => !drop.contains c) (T ++ U) y)
            (T ++ U).length).getD npos := by
        unfold Spec.findLastNotOf; rw [notIn_eq_posPred]
      simp only [hflno]
      have hTU : T ++ U = A ++ x :: (B ++ U) := by rw [hT]; simp
      rcases hd2 with ⟨hv2, hall2⟩ | ⟨A2, y, C, hAx, hy, hC, hv2⟩
      · -- everything up to the drop byte is in the drop set
        simp only [hv2, if_true]
        have hw : Model.wsub A.length npos = A.length + 1 := by
          unfold Model.wsub npos at *; omega
        rw [hw]
        unfold strErase
        rw [hTU]
        have hdrop : (A ++ x :: (B ++ U)).drop (0 + (A.length + 1)) = B ++ U := by
          rw [Nat.zero_add, drop_len_add]
          simp
        rw [hdrop, hT, List.take_zero, List.nil_append]
        have hAall : ∀ c ∈ A, (!drop.contains c) = false := fun c hc => hall2 c (by simp [hc])
        rw [List.filter_append, List.filter_cons, filter_keep_of_none drop A hAall,
          filter_keep_of_all drop B hB]
        simp only [hx, Bool.not_true, Bool.false_eq_true, if_false, List.nil_append]
      · have hxy : x ≠ y := by
          intro e
          rw [e] at hx
          rw [hx] at hy
          cases hy
        obtain ⟨C', hA', hC'⟩ := snoc_eq_append_cons hAx hxy
        have hA2 : A2.length < npos := by
          have := congrArg List.length hA'
          simp only [List.length_append, List.length_cons] at this
          omega
        have hne2 : ¬ A2.length = npos := by omega
        simp only [hv2, hne2, if_false]
        -- erase C' ++ [x]
        have hAl : A.length = A2.length + 1 + C'.length := by
          have := congrArg List.length hA'
          simp only [List.length_append, List.length_cons] at this
          omega
        have hs' : strErase (T ++ U) (A2.length + 1) (A.length - A2.length) = (A2 ++ [y]) ++ (B ++ U) := by
          have hcnt : A.length - A2.length = C'.length + 1 := by omega
          have hshape : T ++ U = (A2 ++ [y]) ++ ((C' ++ [x]) ++ (B ++ U)) := by rw [hTU, hA']; simp
          have hl1 : (A2 ++ [y]).length = A2.length + 1 := by simp
          have hl2 : (C' ++ [x]).length = C'.length + 1 := by simp
          rw [hcnt, hshape]
          unfold strErase
          rw [← hl1, List.take_left, drop_len_add, ← hl2, List.drop_left]
        rw [hs']
        have hU' : ∀ c ∈ B ++ U, drop.contains c = false := by
          intro c hc
          rcases List.mem_append.mp hc with h | h
          · exact hB c h
          · exact hU c h
        have hlenT : (A2 ++ [y]).length < fuel := by
          have h1 := congrArg List.length hA'
          have h2 := congrArg List.length hT
          simp only [List.length_append, List.length_cons, List.length_nil] at h1 h2 ⊢
          omega
        have hm' : min (A2.length + 1) ((A2 ++ [y]) ++ (B ++ U)).length = (A2 ++ [y]).length := by
          simp only [List.length_append, List.length_cons, List.length_nil]; omega
        have hsz' : ((A2 ++ [y]) ++ (B ++ U)).length < npos := by
          have h1 := congrArg List.length hA'
          have h2 := congrArg List.length hT
          simp only [List.length_append, List.length_cons, List.length_nil] at h1 h2 hsz ⊢
          omega
        rw [eraseLoop_eq fuel (A2 ++ [y]) (B ++ U) A2.length hlenT hU' hm' hsz']
        rw [hT, hA']
        have hCall : ∀ c ∈ C', (!drop.contains c) = false := fun c hc => hC c (by rw [hC']; simp [hc])
        simp only [List.filter_append, List.filter_cons, List.filter_nil, hy, if_true, hx, Bool.not_true,
          Bool.false_eq_true, if_false, filter_keep_of_none drop C' hCall, filter_keep_of_all drop B hB]
        simp

end

theorem eraseAllInplace_eq (s drop : Bytes) (hsz : s.length < npos) :
    eraseAllInplace s drop = s.filter (fun c => !drop.contains c) := by
  unfold eraseAllInplace
  have := eraseLoop_eq drop (s.length + 1) s [] npos (by omega) (by simp)
    (by simp only [List.append_nil]; unfold npos at *; omega) (by simpa using hsz)
  simpa using this

end TlxVerif.C19
