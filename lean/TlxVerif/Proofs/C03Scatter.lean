/-
C03 — the literal out-of-place distribution (`scatter`: count, exclusive prefix sum,
`*(bkt_index[key]++) = ss[i]`) computes the stable buckets: `scatterBuckets = buckets`.
Also: prefix sums of bucket sizes and small array lemmas shared with the in-place permutation.
-/
import TlxVerif.Proofs.C03Blocks
namespace TlxVerif.C03

variable {α : Type}

/-! ### prefix sums of the bucket sizes -/

/-- start offset of bucket `c` -/
def pfx (sizes : List Nat) (c : Nat) : Nat := (sizes.take c).sum

theorem pfx_zero (sizes : List Nat) : pfx sizes 0 = 0 := by simp [pfx]

theorem pfx_succ (sizes : List Nat) (c : Nat) : pfx sizes (c + 1) = pfx sizes c + sizes.getD c 0 := by
  simp only [pfx, List.take_add_one, List.sum_append]
  cases h : sizes[c]? with
  | none => simp [List.getD, h]
  | some v => simp [List.getD, h]

theorem pfx_mono (sizes : List Nat) (a b : Nat) (h : a ≤ b) : pfx sizes a ≤ pfx sizes b := by
  induction b with
  | zero => have : a = 0 := by omega
            subst this; exact Nat.le_refl _
  | succ b ih =>
    by_cases e : a = b + 1
    · subst e; exact Nat.le_refl _
    · have := ih (by omega)
      rw [pfx_succ]; omega

theorem pfx_all (sizes : List Nat) (c : Nat) (h : sizes.length ≤ c) : pfx sizes c = sizes.sum := by
  simp [pfx, List.take_of_length_le h]

/-- two non-empty buckets with the same start are the same bucket -/
theorem pfx_inj (sizes : List Nat) (a b : Nat) (ha : sizes.getD a 0 ≠ 0) (hb : sizes.getD b 0 ≠ 0)
    (h : pfx sizes a = pfx sizes b) : a = b := by
  apply Classical.byContradiction
  intro hne
  rcases Nat.lt_or_gt_of_ne hne with hlt | hlt
  · have := pfx_mono sizes (a + 1) b (by omega)
    rw [pfx_succ] at this
    omega
  · have := pfx_mono sizes (b + 1) a (by omega)
    rw [pfx_succ] at this
    omega


theorem pfx_le_sum (sizes : List Nat) (c : Nat) : pfx sizes c ≤ sizes.sum := by
  by_cases h : sizes.length ≤ c
  · rw [pfx_all sizes c h]; exact Nat.le_refl _
  · have := pfx_mono sizes c sizes.length (by omega)
    rw [pfx_all sizes sizes.length (Nat.le_refl _)] at this
    exact this

theorem getD_zero_of_ge (sizes : List Nat) (c : Nat) (h : sizes.length ≤ c) : sizes.getD c 0 = 0 := by
  simp [List.getD, List.getElem?_eq_none h]


/-! ### array plumbing -/

theorem getD_setIfInBounds (bkt : Array Nat) (c v c' : Nat) (hc : c < bkt.size) :
    (bkt.setIfInBounds c v).getD c' 0 = if c = c' then v else bkt.getD c' 0 := by
  simp only [Array.getD_eq_getD_getElem?, Array.getElem?_setIfInBounds]
  by_cases e : c = c'
  · subst e; simp [hc]
  · simp [e]

theorem toList_getD (bkt : Array Nat) (c : Nat) : bkt.toList.getD c 0 = bkt.getD c 0 := by
  simp [List.getD_eq_getElem?_getD, Array.getD_eq_getD_getElem?]


/-! ### the counting pass, the inclusive prefix sums -/

theorem count_pass {β : Type} (k : β → Nat) (l : List β) (acc : Array Nat) (c : Nat) (hc : c < acc.size) :
    (l.foldl (fun acc p => acc.modify (k p) (· + 1)) acc).getD c 0
      = acc.getD c 0 + l.countP (fun p => k p == c) ∧
    (l.foldl (fun acc p => acc.modify (k p) (· + 1)) acc).size = acc.size := by
  induction l generalizing acc with
  | nil => simp
  | cons p ps ih =>
    simp only [List.foldl_cons]
    obtain ⟨h1, h2⟩ := ih (acc.modify (k p) (· + 1)) (by rw [Array.size_modify]; exact hc)
    rw [h1, h2, Array.size_modify]
    refine ⟨?_, rfl⟩
    rw [List.countP_cons]
    simp only [Array.getD_eq_getD_getElem?, Array.getElem?_modify]
    have hcs : acc[c]? = some acc[c] := Array.getElem?_eq_getElem hc
    by_cases e : k p = c
    · simp [e, hcs]; omega
    · have e' : ¬ (k p == c) = true := by simpa using e
      simp [e, e']



theorem modify_sum (L : List Nat) (k : Nat) (hk : k < L.length) : (L.modify k (· + 1)).sum = L.sum + 1 := by
  induction L generalizing k with
  | nil => simp at hk
  | cons a L ih =>
    rw [List.modify_cons]
    split
    · simp; omega
    · rename_i h
      simp only [List.sum_cons]
      rw [ih (k - 1) (by simp at hk; omega)]
      omega

theorem count_pass_sum {β : Type} (k : β → Nat) (l : List β) (acc : Array Nat) (hk : ∀ p ∈ l, k p < acc.size) :
    (l.foldl (fun acc p => acc.modify (k p) (· + 1)) acc).toList.sum = acc.toList.sum + l.length := by
  induction l generalizing acc with
  | nil => simp
  | cons p ps ih =>
    simp only [List.foldl_cons, List.length_cons]
    rw [ih (acc.modify (k p) (· + 1)) (by
      intro q hq; rw [Array.size_modify]; exact hk q (by simp [hq]))]
    rw [Array.toList_modify, modify_sum _ _ (by simpa using hk p (by simp))]
    omega

theorem splitBy_getElem? {β : Type} (sizes : List Nat) (L : List β) (j : Nat) (hj : j < sizes.length) :
    (splitBy sizes L)[j]? = some ((L.drop (pfx sizes j)).take (sizes.getD j 0)) := by
  induction sizes generalizing L j with
  | nil => simp at hj
  | cons s rest ih =>
    cases j with
    | zero => simp [splitBy, pfx]
    | succ j =>
      simp only [splitBy, List.getElem?_cons_succ]
      rw [ih (L.drop s) j (by simpa using hj)]
      simp only [pfx, List.take_succ_cons, List.sum_cons, List.getD_cons_succ, List.drop_drop]


/-! ### the stable buckets as filters -/

theorem buckets_filter (R : Nat) (key : α → Nat) (ss : List α) (c : Nat) (hc : c < R) :
    (buckets R key ss).toList[c]? = some (ss.filter (fun x => key x == c)) := by
  induction ss with
  | nil => simp [buckets, List.getElem?_replicate, hc]
  | cons x xs ih =>
    have hb : buckets R key (x :: xs) = (buckets R key xs).modify (key x) (x :: ·) := by simp [buckets]
    rw [hb, Array.toList_modify, List.getElem?_modify, ih]
    by_cases e : key x = c
    · simp [e]
    · have e' : ¬ (key x == c) = true := by simpa using e
      simp [e, e']

theorem buckets_length (R : Nat) (key : α → Nat) (ss : List α) : (buckets R key ss).toList.length = R := by
  induction ss with
  | nil => simp [buckets]
  | cons x xs ih =>
    have hb : buckets R key (x :: xs) = (buckets R key xs).modify (key x) (x :: ·) := by simp [buckets]
    rw [hb, Array.toList_modify, List.length_modify, ih]

/-! ### exclusive prefix sums -/

def estep (st : List Nat × Nat) (s : Nat) : List Nat × Nat := (st.2 :: st.1, st.2 + s)

theorem efold_spec (l rev : List Nat) (run : Nat) :
    (l.foldl estep (rev, run)).1.reverse
      = rev.reverse ++ (List.range l.length).map (fun j => run + (l.take j).sum) := by
  induction l generalizing rev run with
  | nil => simp
  | cons s rest ih =>
    have e0 : List.foldl estep (rev, run) (s :: rest) = List.foldl estep (run :: rev, run + s) rest := by
      simp [List.foldl_cons, estep]
    rw [e0, ih, List.length_cons, List.range_succ_eq_map]
    simp only [List.reverse_cons, List.append_assoc, List.map_cons, List.map_map, List.take_zero,
      List.sum_nil, Nat.add_zero, List.singleton_append]
    congr 2
    apply List.map_congr_left
    intro j _
    simp only [Function.comp, Nat.succ_eq_add_one, List.take_succ_cons, List.sum_cons]
    omega

/-! ### segments of a list under `set` -/

theorem seg_set_end {β : Type} (L : List β) (a m : Nat) (x : β) (h : a + m < L.length) :
    ((L.set (a + m) x).drop a).take (m + 1) = (L.drop a).take m ++ [x] := by
  apply List.ext_getElem?
  intro i
  rw [List.getElem?_take]
  by_cases hi : i < m
  · have h1 : i < m + 1 := by omega
    simp only [h1, if_true]
    rw [List.getElem?_drop, List.getElem?_set]
    have e : ¬ a + m = a + i := by omega
    simp only [e, if_false]
    rw [List.getElem?_append_left (by rw [List.length_take, List.length_drop]; omega)]
    rw [List.getElem?_take, List.getElem?_drop]
    simp [hi]
  · by_cases hi2 : i = m
    · subst hi2
      simp only [Nat.lt_add_one, if_true]
      rw [List.getElem?_drop, List.getElem?_set]
      simp only [if_true, h]
      rw [List.getElem?_append_right (by rw [List.length_take, List.length_drop]; omega)]
      rw [List.length_take, List.length_drop]
      have : i - min i (L.length - a) = 0 := by omega
      rw [this]; rfl
    · have h1 : ¬ i < m + 1 := by omega
      simp only [h1, if_false]
      symm
      apply List.getElem?_eq_none
      simp only [List.length_append, List.length_take, List.length_drop, List.length_cons, List.length_nil]
      omega

theorem seg_set_out {β : Type} (L : List β) (a m w : Nat) (x : β) (h : w < a ∨ a + m ≤ w) :
    ((L.set w x).drop a).take m = (L.drop a).take m := by
  apply List.ext_getElem?
  intro i
  rw [List.getElem?_take, List.getElem?_take]
  by_cases hi : i < m
  · simp only [hi, if_true]
    rw [List.getElem?_drop, List.getElem?_drop, List.getElem?_set]
    have e : ¬ w = a + i := by omega
    simp [e]
  · simp [hi]

/-! ### the scatter loop -/

/-- invariant after the strings `P` have been distributed -/
structure SInv (key : α → Nat) (sizes : List Nat) (n : Nat) (P : List α) (sh : Array α) (idx : Array Nat) : Prop where
  shsize : sh.size = n
  isize : idx.size = sizes.length
  ipos : ∀ c, c < sizes.length → idx.getD c 0 = pfx sizes c + P.countP (fun x => key x == c)
  seg : ∀ c, c < sizes.length →
    (sh.toList.drop (pfx sizes c)).take (P.countP (fun x => key x == c)) = P.filter (fun x => key x == c)

theorem scatter_loop (key : α → Nat) (sizes : List Nat) (ss : List α)
    (hcnt : ∀ c, c < sizes.length → sizes.getD c 0 = ss.countP (fun x => key x == c))
    (hkey : ∀ x ∈ ss, key x < sizes.length) (hsum : sizes.sum = ss.length) :
    ∀ (Q P : List α) (sh : Array α) (idx : Array Nat), P ++ Q = ss → SInv key sizes ss.length P sh idx →
      SInv key sizes ss.length ss
        (Q.foldl (fun (st : Array α × Array Nat) x =>
          (st.1.setIfInBounds (st.2.getD (key x) 0) x, st.2.modify (key x) (· + 1))) (sh, idx)).1
        (Q.foldl (fun (st : Array α × Array Nat) x =>
          (st.1.setIfInBounds (st.2.getD (key x) 0) x, st.2.modify (key x) (· + 1))) (sh, idx)).2 := by
  intro Q
  induction Q with
  | nil =>
    intro P sh idx hPQ hI
    simp only [List.append_nil] at hPQ
    subst hPQ
    exact hI
  | cons x Q ih =>
    intro P sh idx hPQ hI
    simp only [List.foldl_cons]
    have hxs : x ∈ ss := by rw [← hPQ]; simp
    have hk : key x < sizes.length := hkey x hxs
    apply ih (P ++ [x]) _ _ (by rw [← hPQ]; simp)
    -- the write position lies inside bucket `key x`
    have hcntk : P.countP (fun y => key y == key x) + 1 ≤ sizes.getD (key x) 0 := by
      rw [hcnt _ hk, ← hPQ, List.countP_append, List.countP_cons]
      simp
    have hw : idx.getD (key x) 0 = pfx sizes (key x) + P.countP (fun y => key y == key x) := hI.ipos _ hk
    have hwlt : idx.getD (key x) 0 < pfx sizes (key x + 1) := by rw [hw, pfx_succ]; omega
    have hwn : idx.getD (key x) 0 < sh.size := by
      have := pfx_le_sum sizes (key x + 1)
      rw [hI.shsize, ← hsum]; omega
    refine ⟨by rw [Array.size_setIfInBounds]; exact hI.shsize, by rw [Array.size_modify]; exact hI.isize, ?_, ?_⟩
    · intro c hc
      simp only [Array.getD_eq_getD_getElem?, Array.getElem?_modify, List.countP_append, List.countP_cons,
        List.countP_nil]
      have hcb : c < idx.size := by rw [hI.isize]; exact hc
      obtain ⟨v, hci⟩ : ∃ v, idx[c]? = some v := ⟨idx[c]'hcb, Array.getElem?_eq_getElem hcb⟩
      have := hI.ipos c hc
      simp only [Array.getD_eq_getD_getElem?, hci, Option.getD_some] at this
      by_cases e : key x = c
      · simp [e, hci, this]; omega
      · have e' : (key x == c) = false := by simpa using e
        simp [e, e', hci, this]
    · intro c hc
      rw [Array.toList_setIfInBounds, List.countP_append, List.filter_append]
      by_cases e : key x = c
      · subst e
        simp only [List.countP_cons, List.countP_nil, beq_self_eq_true, if_true, Nat.zero_add, List.filter_cons,
          List.filter_nil]
        rw [hw, seg_set_end _ _ _ x (by rw [Array.length_toList, ← hw]; exact hwn), hI.seg _ hk]
      · have e' : (key x == c) = false := by simpa using e
        simp only [List.countP_cons, List.countP_nil, e', Bool.false_eq_true, if_false, Nat.add_zero,
          List.filter_cons, List.filter_nil, List.append_nil]
        rw [seg_set_out, hI.seg c hc]
        -- the write position is outside bucket c's filled prefix
        have hcc : P.countP (fun y => key y == c) ≤ sizes.getD c 0 := by
          rw [hcnt c hc, ← hPQ, List.countP_append]; omega
        rcases Nat.lt_or_gt_of_ne e with hlt | hgt
        · left
          have := pfx_mono sizes (key x + 1) c (by omega)
          omega
        · right
          have h1 := pfx_mono sizes (c + 1) (key x) (by omega)
          rw [pfx_succ] at h1
          omega

/-- **the literal distribution computes the stable buckets** -/
theorem scatterBuckets_eq (R : Nat) (key : α → Nat) (ss : List α) (hkey : ∀ x ∈ ss, key x < R) :
    scatterBuckets R key ss = (buckets R key ss).toList := by
  unfold scatterBuckets scatter
  simp only
  generalize hsA : ss.foldl (fun acc x => acc.modify (key x) (· + 1)) (Array.replicate R 0) = sizesA
  generalize hsz : sizesA.toList = sizes
  have hsizeA : sizesA.size = R := by
    rw [← hsA]
    by_cases hR : 0 < R
    · have := (count_pass key ss (Array.replicate R 0) 0 (by simpa using hR)).2
      simpa using this
    · have hR0 : R = 0 := by omega
      subst hR0
      have hss : ss = [] := by
        cases ss with
        | nil => rfl
        | cons x xs => have := hkey x (by simp); omega
      subst hss; simp
  have hlenS : sizes.length = R := by rw [← hsz]; simpa using hsizeA
  have hcnt : ∀ c, c < sizes.length → sizes.getD c 0 = ss.countP (fun x => key x == c) := by
    intro c hc
    rw [← hsz, toList_getD, ← hsA, (count_pass key ss (Array.replicate R 0) c (by simpa using (hlenS ▸ hc))).1]
    simp [Array.getD_eq_getD_getElem?, hlenS ▸ hc]
  have hsum : sizes.sum = ss.length := by
    rw [← hsz, ← hsA, count_pass_sum key ss _ (by simpa using hkey)]
    simp
  have hestep : (fun (st : List Nat × Nat) s => (st.2 :: st.1, st.2 + s)) = estep := rfl
  rw [hestep]
  have hidx := efold_spec sizes [] 0
  simp only [List.reverse_nil, List.nil_append, Nat.zero_add] at hidx
  generalize hI0 : (sizes.foldl estep ([], 0)).1.reverse.toArray = idx0
  have hI : SInv key sizes ss.length [] ss.toArray idx0 := by
    refine ⟨by simp, by rw [← hI0, hidx]; simp, ?_, by intro c hc; simp⟩
    intro c hc
    rw [← hI0, hidx]
    simp [Array.getD_eq_getD_getElem?, hc, pfx]
  have hfin := scatter_loop key sizes ss hcnt (by rw [hlenS]; exact hkey) hsum ss [] ss.toArray idx0 (by simp) hI
  generalize ss.foldl (fun (st : Array α × Array Nat) x =>
      (st.1.setIfInBounds (st.2.getD (key x) 0) x, st.2.modify (key x) (· + 1))) (ss.toArray, idx0) = fin at hfin
  apply List.ext_getElem?
  intro c
  by_cases hc : c < R
  · rw [buckets_filter R key ss c hc, splitBy_getElem? sizes _ c (by omega), hcnt c (by omega)]
    rw [hfin.seg c (by omega)]
  · rw [List.getElem?_eq_none (by rw [splitBy_length]; omega), List.getElem?_eq_none (by rw [buckets_length]; omega)]

end TlxVerif.C03
