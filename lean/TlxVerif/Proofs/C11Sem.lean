import TlxVerif.Model.C11Sem
/-!
Invariants of the Semaphore transition system over *all* interleavings.
-/
namespace TlxVerif.C11.Sem

/-- states reachable under every schedule, notify choice and spurious wake-up -/
inductive Reachable (v : Nat) (threads : List (List Op)) : State → Prop
  | init : Reachable v threads (Sem.init v threads)
  | step {s t c o} : Reachable v threads s → step s t c = some o → Reachable v threads o.st

/-- pc / operation list of a thread as functions of the thread table only -/
def pcT (thr : List Thread) (t : Nat) : Pc := (thr[t]?.map (·.pc)).getD .finished
def opsT (thr : List Thread) (t : Nat) : List Op := (thr[t]?.map (·.ops)).getD []

theorem pcOf_eq (s : State) (t : Nat) : pcOf s t = pcT s.thr t := rfl

/-- program counters at which the thread owns the mutex -/
def holds : Pc → Bool
  | .notify _ _ | .wait _ | .unlock _ _ => true
  | _ => false

@[simp] theorem holds_notify (k r : Nat) : holds (.notify k r) = true := rfl
@[simp] theorem holds_wait (k : Nat) : holds (.wait k) = true := rfl
@[simp] theorem holds_unlock (k r : Nat) : holds (.unlock k r) = true := rfl
@[simp] theorem holds_start : holds .start = false := rfl
@[simp] theorem holds_finished : holds .finished = false := rfl
@[simp] theorem holds_mSpawn (i : Nat) : holds (.mSpawn i) = false := rfl
@[simp] theorem holds_mJoin (i : Nat) : holds (.mJoin i) = false := rfl
@[simp] theorem holds_lock (k : Nat) : holds (.lock k) = false := rfl
@[simp] theorem holds_waiting (k : Nat) : holds (.waiting k) = false := rfl

theorem pcT_setPc (s : State) (t u : Nat) (pc : Pc) :
    pcT (setPc s t pc).thr u = if t = u ∧ u < s.thr.length then pc else pcT s.thr u := by
  unfold pcT setPc
  simp only [List.getElem?_modify]
  by_cases h : t = u
  · subst h
    by_cases hl : t < s.thr.length <;> simp [hl]
  · simp [h]

theorem opsT_setPc (s : State) (t u : Nat) (pc : Pc) : opsT (setPc s t pc).thr u = opsT s.thr u := by
  unfold opsT setPc
  simp only [List.getElem?_modify]
  by_cases h : t = u
  · subst h
    cases s.thr[t]? <;> simp
  · simp [h]

@[simp] theorem setPc_value (s : State) (t : Nat) (pc : Pc) : (setPc s t pc).value = s.value := rfl
@[simp] theorem setPc_owner (s : State) (t : Nat) (pc : Pc) : (setPc s t pc).owner = s.owner := rfl
@[simp] theorem setPc_ws (s : State) (t : Nat) (pc : Pc) : (setPc s t pc).ws = s.ws := rfl
@[simp] theorem setPc_init (s : State) (t : Nat) (pc : Pc) : (setPc s t pc).init = s.init := rfl
@[simp] theorem setPc_acquired (s : State) (t : Nat) (pc : Pc) : (setPc s t pc).acquired = s.acquired := rfl
@[simp] theorem setPc_signalled (s : State) (t : Nat) (pc : Pc) : (setPc s t pc).signalled = s.signalled := rfl
@[simp] theorem setPc_spawned (s : State) (t : Nat) (pc : Pc) : (setPc s t pc).spawned = s.spawned := rfl
@[simp] theorem setPc_length (s : State) (t : Nat) (pc : Pc) : (setPc s t pc).thr.length = s.thr.length := by
  simp [setPc]

theorem pcT_of_getElem? {thr : List Thread} {t : Nat} {th : Thread} (h : thr[t]? = some th) : pcT thr t = th.pc := by
  simp [pcT, h]

theorem opsT_of_getElem? {thr : List Thread} {t : Nat} {th : Thread} (h : thr[t]? = some th) : opsT thr t = th.ops := by
  simp [opsT, h]

theorem lt_of_getElem? {thr : List Thread} {t : Nat} {th : Thread} (h : thr[t]? = some th) : t < thr.length :=
  (List.getElem?_eq_some_iff.mp h).1

/-- unfold `step`, split all its branches, normalise the result state -/
syntax "sem_step_cases " ident : tactic
macro_rules
  | `(tactic| sem_step_cases $h) => `(tactic|
      (unfold step at $h:ident
       repeat' split at $h:ident
       all_goals (first | (simp [out, afterAcquireWait] at $h:ident) | skip)
       all_goals (try (repeat' split at $h:ident))
       all_goals (try subst $h:ident)))

/-! ### the invariants -/

/-- mutual exclusion, both directions: exactly the owner is at a pc inside a critical section -/
def MutexInv (s : State) : Prop :=
  ∀ t, (holds (pcT s.thr t) = true ↔ s.owner = some t)

/-- a thread about to enter the condition wait has seen `value < delta + slack` (and still holds the mutex) -/
def WaitPcInv (s : State) : Prop :=
  ∀ t k d sl, pcT s.thr t = .wait k → (opsT s.thr t)[k]? = some (.wait d sl) → s.value < d + sl

/-- no lost wake-up: either a notification is pending (a thread sits between its change of `value_`
    and its `notify_all`), or no thread in the wait set has its request covered -/
def WsInv (s : State) : Prop :=
  (∃ u k r, pcT s.thr u = .notify k r) ∨
  (∀ t k d sl, t ∈ s.ws → pcT s.thr t = .waiting k → (opsT s.thr t)[k]? = some (.wait d sl) → s.value < d + sl)

structure Inv (s : State) : Prop where
  cons : s.value + s.acquired = s.init + s.signalled
  mutex : MutexInv s
  waitPc : WaitPcInv s
  ws : WsInv s

theorem cons_step {s : State} {t c : Nat} {o} (h : step s t c = some o)
    (hi : s.value + s.acquired = s.init + s.signalled) :
    o.st.value + o.st.acquired = o.st.init + o.st.signalled := by
  sem_step_cases h
  all_goals (simp; try omega)

theorem mutex_step {s : State} {t c : Nat} {o} (h : step s t c = some o) (hi : MutexInv s) : MutexInv o.st := by
  sem_step_cases h
  all_goals (
    have hlt := lt_of_getElem? ‹s.thr[t]? = some _›
    have hpc := pcT_of_getElem? ‹s.thr[t]? = some _›
    intro u
    have hu := hi u
    have ht := hi t
    simp only [pcT_setPc]
    by_cases hut : t = u <;> simp_all )

theorem waitpc_step {s : State} {t c : Nat} {o} (h : step s t c = some o) (hm : MutexInv s) (hi : WaitPcInv s) :
    WaitPcInv o.st := by
  sem_step_cases h
  all_goals (
    have hlt := lt_of_getElem? ‹s.thr[t]? = some _›
    have hpc := pcT_of_getElem? ‹s.thr[t]? = some _›
    have hops := opsT_of_getElem? ‹s.thr[t]? = some _›
    intro u k d sl
    have hu := hi u k d sl
    have hmu := hm u
    have hmt := hm t
    simp only [pcT_setPc, opsT_setPc]
    by_cases hut : t = u <;> simp_all )
  all_goals (intros; simp_all; try omega)

theorem ws_step {s : State} {t c : Nat} {o} (h : step s t c = some o) (hm : MutexInv s) (hw : WaitPcInv s)
    (hi : WsInv s) : WsInv o.st := by
  sem_step_cases h
  all_goals (
    have hlt := lt_of_getElem? ‹s.thr[t]? = some _›
    have hpc := pcT_of_getElem? ‹s.thr[t]? = some _›
    have hops := opsT_of_getElem? ‹s.thr[t]? = some _›
    have hmt := hm t
    have hwt := hw t)
  all_goals first
    | (left; exact ⟨t, _, _, by rw [pcT_setPc, if_pos ⟨rfl, hlt⟩]⟩)
    | (right; intro u k d sl hmem; simp at hmem; done)
    | (rcases hi with ⟨u, k, r, hu⟩ | hi
       · left; refine ⟨u, k, r, ?_⟩; simp only [pcT_setPc]; by_cases hut : t = u <;> simp_all
       · right; intro u k d sl; have hiu := hi u k d sl; have hwu := hw u k d sl
         simp only [pcT_setPc, opsT_setPc]
         by_cases hut : t = u
         · simp_all <;> (intros; simp_all; try omega)
         · have hut' : ¬ u = t := fun h => hut h.symm
           simp_all [List.mem_erase_of_ne hut'] <;> (intros; simp_all; try omega))

theorem pcT_init_cons (ths : List (List Op)) (t : Nat) :
    pcT (({ ops := [], pc := .start } : Thread) :: ths.map fun ops => { ops := ops, pc := .start }) t = .start
      ∨ pcT (({ ops := [], pc := .start } : Thread) :: ths.map fun ops => { ops := ops, pc := .start }) t = .finished := by
  unfold pcT
  cases t with
  | zero => simp
  | succ n =>
    simp only [List.getElem?_cons_succ, List.getElem?_map]
    cases ths[n]? <;> simp

theorem inv_init (v : Nat) (ths : List (List Op)) : Inv (Sem.init v ths) := by
  refine ⟨by simp [Sem.init], ?_, ?_, ?_⟩
  · intro t
    have := pcT_init_cons ths t
    simp only [Sem.init]
    rcases this with h | h <;> simp [h]
  · intro t k d sl hp
    have := pcT_init_cons ths t
    simp only [Sem.init] at hp
    rcases this with h | h <;> simp [h] at hp
  · right
    intro t k d sl hm
    simp [Sem.init] at hm

theorem inv_step {s : State} {t c : Nat} {o} (h : step s t c = some o) (hi : Inv s) : Inv o.st :=
  ⟨cons_step h hi.cons, mutex_step h hi.mutex, waitpc_step h hi.mutex hi.waitPc, ws_step h hi.mutex hi.waitPc hi.ws⟩

theorem reachable_inv {v : Nat} {ths : List (List Op)} {s : State} (h : Reachable v ths s) : Inv s := by
  induction h with
  | init => exact inv_init v ths
  | step _ hs ih => exact inv_step hs ih

end TlxVerif.C11.Sem

namespace TlxVerif.C11.Sem

theorem init_step {s : State} {t c : Nat} {o} (h : step s t c = some o) : o.st.init = s.init := by
  sem_step_cases h
  all_goals simp

theorem reachable_init_eq {v : Nat} {ths : List (List Op)} {s : State} (h : Reachable v ths s) : s.init = v := by
  induction h with
  | init => rfl
  | step _ hs ih => rw [init_step hs, ih]

/-- run a list of (thread, draw) choices; `none` if some chosen thread cannot step -/
def runChoices (s : State) : List (Nat × Nat) → Option State
  | [] => some s
  | (t, c) :: rest =>
    match step s t c with
    | some o => runChoices o.st rest
    | none => none

theorem reachable_runChoices {v : Nat} {ths : List (List Op)} {s s' : State} (l : List (Nat × Nat))
    (h : Reachable v ths s) (hr : runChoices s l = some s') : Reachable v ths s' := by
  induction l generalizing s with
  | nil => simp [runChoices] at hr; subst hr; exact h
  | cons p rest ih =>
    obtain ⟨t, c⟩ := p
    simp only [runChoices] at hr
    split at hr
    · rename_i o ho
      exact ih (Reachable.step h ho) hr
    · simp at hr

/-- the operation index in the pc points at an operation of the matching kind -/
def opsOkP (ops : List Op) : Pc → Prop
  | .lock k => ∃ op, ops[k]? = some op
  | .wait k | .waiting k => ∃ d sl, ops[k]? = some (.wait d sl)
  | _ => True

def OpsOk (s : State) : Prop := ∀ t, opsOkP (opsT s.thr t) (pcT s.thr t)

theorem opsOk_step {s : State} {t c : Nat} {o} (h : step s t c = some o) (hi : OpsOk s) : OpsOk o.st := by
  sem_step_cases h
  all_goals (
    have hlt := lt_of_getElem? ‹s.thr[t]? = some _›
    have hpc := pcT_of_getElem? ‹s.thr[t]? = some _›
    have hops := opsT_of_getElem? ‹s.thr[t]? = some _›
    intro u
    have hu := hi u
    have ht := hi t
    simp only [pcT_setPc, opsT_setPc]
    by_cases hut : t = u
    · subst hut; simp_all [opsOkP]
      all_goals (try (split <;> simp_all [opsOkP]))
      all_goals (try (exact List.getElem?_eq_getElem (by omega) ▸ ⟨_, rfl⟩))
      all_goals (
        have hne : ¬ (opsT s.thr t).isEmpty = true := by rw [hops]; simpa using ‹¬ _›
        rw [← hops]
        cases hq : opsT s.thr t with
        | nil => simp [hq] at hne
        | cons a l => exact ⟨a, rfl⟩)
    · simp_all)

theorem opsOk_init (v : Nat) (ths : List (List Op)) : OpsOk (Sem.init v ths) := by
  intro t
  have := pcT_init_cons ths t
  simp only [Sem.init]
  rcases this with h | h <;> rw [h] <;> simp [opsOkP]

theorem reachable_opsOk {v : Nat} {ths : List (List Op)} {s : State} (h : Reachable v ths s) : OpsOk s := by
  induction h with
  | init => exact opsOk_init v ths
  | step _ hs ih => exact opsOk_step hs ih

theorem enabled_step {v : Nat} {ths : List (List Op)} {s : State} (h : Reachable v ths s) {t : Nat} (c : Nat)
    (he : enabled s t = true) : ∃ o, step s t c = some o := by
  have hok := reachable_opsOk h t
  unfold enabled pcOf at he
  unfold pcT opsT at hok
  unfold step
  cases hth : s.thr[t]? with
  | none => simp [hth] at he
  | some th =>
    simp only [hth, Option.map_some, Option.getD_some] at he hok ⊢
    cases hp : th.pc <;> simp [hp, out, pcOf, opsOkP] at he hok ⊢
    all_goals (try (simp_all; done))
    all_goals (try (repeat' split) <;> simp_all <;> done)


end TlxVerif.C11.Sem
