/-
C18 — the windowed evaluators for huge views are sound w.r.t. the specification applied to
the (never materialised) byte lists the views denote.
-/
import TlxVerif.Model.C18Huge
import TlxVerif.Proofs.C18Basic
namespace TlxVerif.C18
open Spec

/-- equal on the whole common length: `traits::compare` answers 0 -/
theorem cmpBytes_eq_zero_of_agree : ∀ (a b : Bytes),
    (∀ i, i < min a.length b.length → a[i]? = b[i]?) → cmpBytes a b = 0
  | [], _, _ => by simp [cmpBytes]
  | _ :: _, [], _ => by simp [cmpBytes]
  | x :: a, y :: b, h => by
    have h0 : x = y := by simpa using h 0 (by simp)
    subst h0
    simp only [cmpBytes, UInt8.lt_irrefl, if_false]
    apply cmpBytes_eq_zero_of_agree a b
    intro i hi
    have := h (i + 1) (by simp only [List.length_cons]; omega)
    simpa using this

/-- first difference at index `i`: `traits::compare` answers its sign -/
theorem cmpBytes_of_first_diff : ∀ (a b : Bytes) (i : Nat) (x y : UInt8),
    a[i]? = some x → b[i]? = some y → x ≠ y → (∀ j, j < i → a[j]? = b[j]?) →
    cmpBytes a b = if x < y then -1 else 1
  | [], _, i, x, y, ha, _, _, _ => by simp at ha
  | _ :: _, [], i, x, y, _, hb, _, _ => by simp at hb
  | p :: a, q :: b, 0, x, y, ha, hb, hne, _ => by
    simp only [List.getElem?_cons_zero, Option.some.injEq] at ha hb
    subst ha; subst hb
    simp only [cmpBytes]
    by_cases h1 : p < q
    · simp [h1]
    · have h2 : q < p := by
        rcases UInt8.lt_or_lt_of_ne hne with h | h
        · exact absurd h h1
        · exact h
      simp [h1, h2]
  | p :: a, q :: b, i + 1, x, y, ha, hb, hne, hlt => by
    have h0 : p = q := by simpa using hlt 0 (by omega)
    subst h0
    simp only [cmpBytes, UInt8.lt_irrefl, if_false]
    apply cmpBytes_of_first_diff a b i x y (by simpa using ha) (by simpa using hb) hne
    intro j hj
    have := hlt (j + 1) (by omega)
    simpa using this

namespace Huge

theorem den_length (v : View) : (den v).length = v.len := by simp [den]

theorem den_getElem? (v : View) (i : Nat) (h : i < v.len) : (den v)[i]? = some (mem (v.off + i)) := by
  simp [den, List.getElem?_map, List.getElem?_range h]

theorem firstDiff_some (a b : Nat) : ∀ (fuel i r : Nat), firstDiff a b i fuel = some r →
    i ≤ r ∧ r < i + fuel ∧ mem (a + r) ≠ mem (b + r) ∧ ∀ j, i ≤ j → j < r → mem (a + j) = mem (b + j)
  | 0, _, _, h => by simp [firstDiff] at h
  | fuel + 1, i, r, h => by
    simp only [firstDiff] at h
    by_cases hne : (mem (a + i) != mem (b + i)) = true
    · simp only [hne, if_true, Option.some.injEq] at h
      subst h
      refine ⟨Nat.le_refl _, by omega, by simpa using hne, ?_⟩
      intro j h1 h2; omega
    · simp only [hne, if_false] at h
      obtain ⟨h1, h2, h3, h4⟩ := firstDiff_some a b fuel (i + 1) r h
      refine ⟨by omega, by omega, h3, ?_⟩
      intro j hj1 hj2
      by_cases hji : j = i
      · subst hji; simpa using hne
      · exact h4 j (by omega) hj2

theorem firstDiff_none (a b : Nat) : ∀ (fuel i : Nat), firstDiff a b i fuel = none →
    ∀ j, i ≤ j → j < i + fuel → mem (a + j) = mem (b + j)
  | 0, _, _ => by intro j h1 h2; omega
  | fuel + 1, i, h => by
    simp only [firstDiff] at h
    by_cases hne : (mem (a + i) != mem (b + i)) = true
    · simp [hne] at h
    · simp only [hne, if_false] at h
      intro j h1 h2
      by_cases hji : j = i
      · subst hji; simpa using hne
      · exact firstDiff_none a b fuel (i + 1) h j (by omega) (by omega)

/-- whenever the windowed `compare` answers, it is `basic_string_view::compare` of the denoted bytes -/
theorem compare_sound (v w : View) (e : Bool) (r : Int) (h : compare v w e = some r) :
    Spec.compare (den v) (den w) = r := by
  unfold compare at h
  simp only at h
  split at h
  · exact absurd h (by simp)
  · unfold Spec.compare
    simp only [den_length]
    cases hfd : firstDiff v.off w.off 0 (min (min v.len w.len) W) with
    | some i =>
      rw [hfd] at h
      simp only [Option.some.injEq] at h
      obtain ⟨_, hi, hne, heq⟩ := firstDiff_some v.off w.off _ 0 i hfd
      have hiv : i < v.len := by omega
      have hiw : i < w.len := by omega
      have hc := cmpBytes_of_first_diff (den v) (den w) i _ _ (den_getElem? v i hiv) (den_getElem? w i hiw) hne
        (fun j hj => by
          rw [den_getElem? v j (by omega), den_getElem? w j (by omega), heq j (by omega) hj])
      rw [hc, ← h]
      split <;> simp
    | none =>
      rw [hfd] at h
      simp only at h
      split at h
      · exact absurd h (by simp)
      · rename_i hcond
        simp only [Option.some.injEq] at h
        have hall := firstDiff_none v.off w.off _ 0 hfd
        have hz : cmpBytes (den v) (den w) = 0 := by
          apply cmpBytes_eq_zero_of_agree
          intro i hi
          simp only [den_length] at hi
          rw [den_getElem? v i (by omega), den_getElem? w i (by omega)]
          by_cases hw : min v.len w.len ≤ W
          · rw [hall i (by omega) (by omega)]
          · have : v.off = w.off := by
              apply Decidable.byContradiction
              intro hne
              exact hcond ⟨by omega, hne⟩
            rw [this]
        rw [hz, ← h]
        simp

/-- `substr` on a view is `substr` on the denoted bytes -/
theorem substr_sound (v : View) (pos n : Nat) :
    Spec.substr (den v) pos n = (Huge.substr v pos n).map fun r => (pos, den r) := by
  unfold Spec.substr Huge.substr
  simp only [den_length]
  by_cases hp : pos > v.len
  · simp [hp]
  · simp only [hp, if_false, Option.map_some, Option.some.injEq, Prod.mk.injEq, true_and]
    unfold Spec.sub
    apply List.ext_getElem?
    intro i
    by_cases hi : i < min n (v.len - pos)
    · rw [List.getElem?_take_of_lt hi, List.getElem?_drop, den_getElem? v (pos + i) (by omega),
        den_getElem? ⟨v.off + pos, min n (v.len - pos)⟩ i hi]
      simp [Nat.add_assoc]
    · have h1 : ((den v).drop pos |>.take (min n (v.len - pos)))[i]? = none := by
        apply List.getElem?_eq_none
        simp only [List.length_take, List.length_drop, den_length]; omega
      have h2 : (den ⟨v.off + pos, min n (v.len - pos)⟩)[i]? = none := by
        apply List.getElem?_eq_none
        simp only [den_length]; omega
      rw [h1, h2]

end Huge
end TlxVerif.C18
