/-
C07/C06 — output windows: the position of a thread's block inside the concatenation equals the C++
`target_position` (sum of the chunk begins), consecutive windows tile the output, and the merged prefix
consists exactly of the prefixes `[0, o_i)` of the inputs (advanced begins).
-/
import TlxVerif.Proofs.C07Sampling
namespace TlxVerif.C07
open TlxVerif.C08 (StrictWeak IsPartition)

/-- offsets stay inside their runs -/
def Bounded (runs : List (List Elem)) (o : List Nat) : Prop :=
  ∀ (i : Nat) (r : List Elem) (x : Nat), runs[i]? = some r → o[i]? = some x → x ≤ r.length

theorem LeAll.index : ∀ {a b : List Nat}, LeAll a b → ∀ (i x y : Nat), a[i]? = some x → b[i]? = some y → x ≤ y
  | [], [], _, i, x, _, h, _ => by simp at h
  | [], _ :: _, h, _, _, _, _, _ => h.elim
  | _ :: _, [], h, _, _, _, _, _ => h.elim
  | a :: as, b :: bs, h, 0, x, y, hx, hy => by simp at hx hy; subst hx; subst hy; exact h.1
  | a :: as, b :: bs, h, i + 1, x, y, hx, hy => LeAll.index h.2 i x y (by simpa using hx) (by simpa using hy)

theorem Bounded.of_leAll {runs : List (List Elem)} {prev o : List Nat} (hb : Bounded runs o) (hle : LeAll prev o) :
    Bounded runs prev := by
  intro i r x hr hx
  have hlen := hle.length_eq
  have hi : i < o.length := by rw [← hlen]; exact (List.getElem?_eq_some_iff.mp hx).1
  have := hle.index i x o[i] hx (List.getElem?_eq_getElem hi)
  have := hb i r o[i] hr (List.getElem?_eq_getElem hi)
  omega

/-- size of the chunk row between two nested offset vectors = difference of their sums
(the C++ `local_size`, with `prev.sum` = `target_position`) -/
theorem chunk_row_length {runs : List (List Elem)} {prev o : List Nat} (hle : LeAll prev o)
    (hlen : o.length = runs.length) (hb : Bounded runs o) :
    (drops (takes runs o) prev).flatten.length + prev.sum = o.sum := by
  have hplen : prev.length = (takes runs o).length := by rw [takes_length hlen, hle.length_eq, hlen]
  have hperm := (takes_drops_perm (takes runs o) prev hplen).length_eq
  rw [takes_takes runs prev o hle, List.length_append,
    takes_flatten_length runs prev (hb.of_leAll hle) (by rw [hle.length_eq, hlen]),
    takes_flatten_length runs o hb hlen] at hperm
  omega

/-- the offset vector that starts thread `t`'s chunks -/
def offsAt : List Nat → List (List Nat) → Nat → List Nat
  | prev, _, 0 => prev
  | prev, [], _ + 1 => prev
  | _, o :: os, t + 1 => offsAt o os t

/-- **target position**: the total length of the merges of the first `t` chunk rows, i.e. the position of
thread `t`'s block inside the concatenation, equals the sum of the begins of its chunks. -/
theorem target_position (lt : Int → Int → Bool) {runs : List (List Elem)} :
    ∀ (os : List (List Nat)) (prev : List Nat), Chain prev os →
      (∀ o ∈ os, o.length = runs.length ∧ Bounded runs o) → ∀ t, t ≤ os.length →
      (((chunkRows runs prev os).take t).map (fun row => (kMerge lt row).length)).sum + prev.sum =
        (offsAt prev os t).sum
  | _, _, _, _, 0, _ => by simp [offsAt]
  | [], _, _, _, t + 1, ht => by simp at ht
  | o :: os, prev, hch, hall, t + 1, ht => by
    have ho := hall o List.mem_cons_self
    have ih := target_position lt os o hch.2 (fun o' h' => hall o' (List.mem_cons_of_mem _ h')) t (by simpa using ht)
    have hrow := chunk_row_length hch.1 ho.1 ho.2
    simp only [chunkRows, List.take_succ_cons, List.map_cons, List.sum_cons, offsAt]
    rw [kMerge_eq_sortStable, sortStable_length]
    omega

/-- consecutive windows of lengths `ls` tile `[0, ls.sum)`: every position lies in exactly one window -/
theorem windows_tile : ∀ (ls : List Nat) (k : Nat), k < ls.sum →
    ∃ t, t < ls.length ∧ (ls.take t).sum ≤ k ∧ k < (ls.take (t + 1)).sum ∧
      ∀ t', t' < ls.length → (ls.take t').sum ≤ k → k < (ls.take (t' + 1)).sum → t' = t
  | [], k, h => by simp at h
  | l :: ls, k, h => by
    by_cases hk : k < l
    · refine ⟨0, by simp, by simp, by simpa using hk, ?_⟩
      intro t' _ h1 _
      cases t' with
      | zero => rfl
      | succ t' => simp only [List.take_succ_cons, List.sum_cons] at h1; omega
    · obtain ⟨t, ht, h1, h2, hu⟩ := windows_tile ls (k - l) (by simp only [List.sum_cons] at h; omega)
      refine ⟨t + 1, by simpa using ht, by simp only [List.take_succ_cons, List.sum_cons]; omega,
        by simp only [List.take_succ_cons, List.sum_cons]; omega, ?_⟩
      intro t' ht' h1' h2'
      cases t' with
      | zero => simp at h2'; omega
      | succ t' =>
        simp only [List.take_succ_cons, List.sum_cons] at h1' h2'
        have := hu t' (by simpa using ht') (by omega) (by omega)
        omega

/-- **advanced begins**: the first `rank` elements of the k-merge are, up to order, exactly the prefixes
`run_i[0, o_i)` of the partition at that rank — the inputs are advanced past what they contributed. -/
theorem take_kMerge_perm_prefixes {lt : Int → Int → Bool} {tl : Elem → Elem → Prop} (hlt : StrictWeak lt)
    (htl : TagOrder tl) {runs : List (List Elem)} (hg : GoodRuns lt tl runs) {rank : Nat} {o : List Nat}
    (hp : IsPartition lt (keyRuns runs) rank o) :
    ((kMerge lt runs).take rank).Perm (takes runs o).flatten := by
  have hc : runs.flatten.Pairwise (Cond lt tl) := hg.cond
  have hkl : (keyRuns runs).length = runs.length := by simp [keyRuns]
  have hlen : o.length = runs.length := by rw [hp.len, hkl]
  have hsplit := sortStable_split hlt htl hc
    (List.Pairwise.sublist (takes_flatten_sublist runs o) hc)
    (List.Pairwise.sublist (drops_flatten_sublist runs o) hc)
    (takes_drops_perm runs o hlen) (crossOrdered_of_partition hg hp)
  have hcount : (takes runs o).flatten.length = rank := by
    rw [takes_flatten_length runs o ?_ hlen, hp.sum]
    intro i r x hr hx
    have := hp.bound i (r.map (·.key)) x (by simp [keyRuns, hr]) hx
    simpa using this
  rw [kMerge_eq_sortStable, hsplit, ← hcount, ← sortStable_length lt, List.take_left']
  · exact sortStable_perm lt _
  · rfl

end TlxVerif.C07
