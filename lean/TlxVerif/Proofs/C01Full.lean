/-
C01/C02 — one step of the whole operation language: the model machine `stepOp` against the abstract
machine `specStep` (Model/C01Machine.lean) under the refinement relation `Rel`, with the ledger balance
over both registers (`Bal2`).
-/
import TlxVerif.Proofs.C01Ops
namespace TlxVerif.C01
set_option linter.unusedSectionVars false

/-- refinement relation: same comparators, both trees satisfy the invariant for the comparator they
hold, and their entry sequences are the abstract lists -/
structure Rel (c : Cfg) (s : MSt) (ss : SSt) : Prop where
  m0 : s.m0 = ss.m0
  m1 : s.m1 = ss.m1
  inv0 : TreeInv (c.params s.m0) s.t0
  inv1 : TreeInv (c.params s.m1) s.t1
  l0 : s.t0.toList = ss.l0
  l1 : s.t1.toList = ss.l1

def MSt.leaves (s : MSt) : Nat := s.t0.nLeaves + s.t1.nLeaves
def MSt.inners (s : MSt) : Nat := s.t0.nInner + s.t1.nInner

/-- live nodes of both registers before + allocated = live nodes after + freed -/
def Bal2 (s s' : MSt) (lg : Ledger) : Prop :=
  s.leaves + lg.leafAlloc = s'.leaves + lg.leafFree ∧ s.inners + lg.innerAlloc = s'.inners + lg.innerFree

theorem Bal2.refl (s : MSt) : Bal2 s s {} := by simp [Bal2]

namespace Rel
variable {c : Cfg} {s : MSt} {ss : SSt} (h : Rel c s ss)
include h

theorem mode (r : Nat) : s.mode r = ss.mode r := by
  unfold MSt.mode SSt.mode; split
  · exact h.m0
  · exact h.m1
theorem inv (r : Nat) : TreeInv (c.params (s.mode r)) (s.get r) := by
  unfold MSt.mode MSt.get; split
  · exact h.inv0
  · exact h.inv1
theorem list (r : Nat) : (s.get r).toList = ss.get r := by
  unfold MSt.get SSt.get; split
  · exact h.l0
  · exact h.l1
theorem set (r : Nat) (t' : T) (l' : List Ent) (hi : TreeInv (c.params (s.mode r)) t') (hl : t'.toList = l') :
    Rel c (s.set r t') (ss.set r l') := by
  unfold MSt.set SSt.set
  unfold MSt.mode at hi
  split
  · rw [if_pos ‹r = 0›] at hi; exact ⟨h.m0, h.m1, hi, h.inv1, hl, h.l1⟩
  · rw [if_neg ‹¬ r = 0›] at hi; exact ⟨h.m0, h.m1, h.inv0, hi, h.l0, hl⟩
end Rel

theorem MSt.get_set (s : MSt) (r : Nat) (t : T) : (s.set r t).get r = t := by
  unfold MSt.get MSt.set; split <;> simp [*]

theorem Bal2.set (s : MSt) (r : Nat) (t' : T) (lg : Ledger) (hb : Bal (s.get r) t' lg) : Bal2 s (s.set r t') lg := by
  unfold MSt.get at hb
  unfold MSt.set Bal2 MSt.leaves MSt.inners
  unfold Bal at hb
  split
  · rw [if_pos ‹r = 0›] at hb; simp only; omega
  · rw [if_neg ‹¬ r = 0›] at hb; simp only; omega

/-- the two swaps exchange the registers; every other operation leaves the register it is not addressed to alone -/
def Op.exchanges : Op → Bool
  | .swap .. | .tswap .. => true
  | _ => false

/-- per register: the other register's tree is untouched and the ledger balances the addressed one -/
def PerReg (r : Nat) (s s' : MSt) (lg : Ledger) : Prop :=
  (r = 0 → s'.t1 = s.t1) ∧ (r ≠ 0 → s'.t0 = s.t0) ∧ Bal (s.get r) (s'.get r) lg

theorem perReg_refl (s : MSt) (r : Nat) : PerReg r s s {} := ⟨fun _ => rfl, fun _ => rfl, Bal.refl _⟩

theorem perReg_set (s : MSt) (r : Nat) (t' : T) (lg : Ledger) (hb : Bal (s.get r) t' lg) : PerReg r s (s.set r t') lg := by
  refine ⟨?_, ?_, by rw [MSt.get_set]; exact hb⟩
  · intro h; simp [MSt.set, h]
  · intro h; simp [MSt.set, h]

theorem perReg_setMode (s : MSt) (r m : Nat) (t' : T) (lg : Ledger) (hb : Bal (s.get r) t' lg) :
    PerReg r s ((s.set r t').setMode r m) lg := by
  unfold PerReg MSt.setMode MSt.set MSt.get at *
  by_cases h : r = 0 <;> simp_all

/-- the statement about one operation -/
def StepOK (c : Cfg) (s : MSt) (ss : SSt) (op : Op) : Prop :=
  match specCore c ss op with
  | none => stepCore c s op = .bad
  | some (ss', o) =>
    ∃ s' mo lg, stepCore c s op = .ok (s', mo, lg) ∧ mo.abs (s.get op.reg) (s'.get op.reg) = o ∧ Rel c s' ss' ∧
      Bal2 s s' lg ∧ (op.exchanges = false → PerReg op.reg s s' lg)

section single
variable {c : Cfg} (pv : c.p.Valid) {s : MSt} {ss : SSt} (h : Rel c s ss)
include pv h

theorem ins_ok (kind : InsKind) (r k v : Nat) : StepOK c s ss (.ins kind r k v) := by
  have hm := h.mode r
  have hl := h.list r
  simp only [StepOK, specCore, stepCore, doIns, ← hm, ← hl]
  by_cases hb : kind = .two ∧ (!c.isMap) = true
  · simp only [if_pos hb]
  · simp only [if_neg hb]
    obtain ⟨res, h1, h2, h3, h4, h5, _, h7⟩ :=
      ins_step _ (c.params_valid pv _) (c.params_sw _) (s.get r) (h.inv r) k (if c.isMap then v else 0)
    rw [h1]
    refine ⟨_, _, _, rfl, ?_, h.set r _ _ h2 h3, Bal2.set s r _ _ h7, fun _ => perReg_set s r _ _ h7⟩
    simp only [MOut.abs, Op.reg, MSt.get_set, h4, h5]

theorem idx_ok (r k : Nat) : StepOK c s ss (.idx r k) := by
  have hm := h.mode r
  have hl := h.list r
  simp only [StepOK, specCore, stepCore, doIdx, ← hm, ← hl]
  by_cases hb : c.kind ≠ 2
  · simp only [if_pos hb]
  · simp only [if_neg hb]
    obtain ⟨res, h1, h2, h3, h4, h5, h6, h7⟩ :=
      ins_step _ (c.params_valid pv _) (c.params_sw _) (s.get r) (h.inv r) k 0
    rw [h1]
    simp only [liftOpt]
    have hd := deref_valid _ _ h6
    rw [h5, tree_chain_flatten, h3] at hd
    obtain ⟨e, he, hde⟩ := getElem?_of_rank _ _ h6
    rw [hde]
    refine ⟨_, _, _, rfl, ?_, h.set r _ _ h2 h3, Bal2.set s r _ _ h7, fun _ => perReg_set s r _ _ h7⟩
    simp only [MOut.abs]
    rw [← hd, hde]; rfl

theorem insr_ok (r : Nat) (es : List Ent) : StepOK c s ss (.insr r es) := by
  have hm := h.mode r
  have hl := h.list r
  simp only [StepOK, specCore, stepCore, doInsr, ← hm, ← hl]
  obtain ⟨t', d, h1, h2, h3, h4⟩ := insMany_step _ (c.params_valid pv _) (c.params_sw _) es (s.get r) {} (h.inv r)
  rw [h1]
  exact ⟨_, _, _, rfl, rfl, h.set r _ _ h2 h3, Bal2.set s r _ _ (by rw [Ledger.empty_add]; exact h4), fun _ => perReg_set s r _ _ (by rw [Ledger.empty_add]; exact h4)⟩

theorem rctor_ok (r : Nat) (es : List Ent) : StepOK c s ss (.rctor r es) := by
  have hm := h.mode r
  have hl := h.list r
  simp only [StepOK, specCore, stepCore, doRctor, ← hm, ← hl]
  obtain ⟨c1, c2, c3, c4⟩ := clear_step _ (s.get r) (h.inv r)
  obtain ⟨t', d, h1, h2, h3, h4⟩ :=
    insMany_step _ (c.params_valid pv _) (c.params_sw _) es {} (clear (s.get r)).2 (treeInv_empty _)
  rw [h1]
  have hroot := nodes_of_root (clear (s.get r)).1 {} c3
  have hb0 : Bal (s.get r) {} (clear (s.get r)).2 := by
    simp only [Bal] at c4 ⊢; rw [hroot.1, hroot.2] at c4; exact c4
  have hb := hb0.trans h4
  exact ⟨_, _, _, rfl, rfl, h.set r _ _ h2 (by rw [h3]; rfl), Bal2.set s r _ _ hb, fun _ => perReg_set s r _ _ hb⟩

theorem er1_ok (r k : Nat) : StepOK c s ss (.er1 r k) := by
  have hm := h.mode r
  have hl := h.list r
  simp only [StepOK, specCore, stepCore, doEr1, ← hm, ← hl]
  obtain ⟨res, h1, h2, h3, h4⟩ := er1_step _ (c.params_valid pv _) (c.params_sw _) (s.get r) (h.inv r) k
  rw [h1]
  refine ⟨_, _, _, rfl, ?_, h.set r _ _ h2 (by rw [← h3]), Bal2.set s r _ _ h4, fun _ => perReg_set s r _ _ h4⟩
  simp only [MOut.abs]; rw [← h3]

theorem era_ok (r k : Nat) : StepOK c s ss (.era r k) := by
  have hm := h.mode r
  have hl := h.list r
  simp only [StepOK, specCore, stepCore, doEra, ← hm, ← hl]
  have hsz := size_eq_length _ (s.get r) (h.inv r)
  obtain ⟨t', d, h1, h2, h3, h4⟩ := era_step _ (c.params_valid pv _) (c.params_sw _) (s.get r) (h.inv r) k
    ((s.get r).stats.size + 2) (by omega)
  rw [h1]
  exact ⟨_, _, _, rfl, rfl, h.set r _ _ h2 h3, Bal2.set s r _ _ h4, fun _ => perReg_set s r _ _ h4⟩

theorem eri_ok (r k : Nat) : StepOK c s ss (.eri r k) := by
  have hm := h.mode r
  have hl := h.list r
  have hsz := size_eq_length _ (s.get r) (h.inv r)
  simp only [StepOK, specCore, stepCore, doEri, ← hm, ← hl]
  by_cases hk : k ≥ (s.get r).stats.size
  · rw [if_pos hk, List.getElem?_eq_none (by omega)]
  · rw [if_neg hk]
    obtain ⟨e, res, h1, h2, h3, h4, h5, h6, h7, h8⟩ :=
      eri_step _ (c.params_valid pv _) (c.params_sw _) (s.get r) (h.inv r) k (by omega)
    rw [h1, h2]
    simp only [liftOpt, h3, h5]
    refine ⟨_, _, _, rfl, ?_, h.set r _ _ h6 h7, Bal2.set s r _ _ h8, fun _ => perReg_set s r _ _ h8⟩
    simp only [MOut.abs, Op.reg, h4]

theorem find_ok (r k : Nat) : StepOK c s ss (.find r k) := by
  have hm := h.mode r
  have hl := h.list r
  simp only [StepOK, specCore, stepCore, ← hm, ← hl]
  obtain ⟨pos, h1, h2⟩ := find_spec _ (c.params_sw _) (s.get r) (h.inv r) k
  rw [h1]
  refine ⟨_, _, _, rfl, ?_, h, Bal2.refl s, fun _ => perReg_refl s _⟩
  simp only [MOut.abs, Op.reg, h2, hasKey_eq, lbOf_eq]

theorem lb_ok (r k : Nat) : StepOK c s ss (.lb r k) := by
  have hm := h.mode r
  have hl := h.list r
  simp only [StepOK, specCore, stepCore, ← hm, ← hl]
  obtain ⟨pos, h1, h2⟩ := lowerBound_spec _ (c.params_sw _) (s.get r) (h.inv r) k
  rw [h1]
  refine ⟨_, _, _, rfl, ?_, h, Bal2.refl s, fun _ => perReg_refl s _⟩
  simp only [MOut.abs, Op.reg, h2, lbOf_eq]

theorem ub_ok (r k : Nat) : StepOK c s ss (.ub r k) := by
  have hm := h.mode r
  have hl := h.list r
  simp only [StepOK, specCore, stepCore, ← hm, ← hl]
  obtain ⟨pos, h1, h2⟩ := upperBound_spec _ (c.params_sw _) (s.get r) (h.inv r) k
  rw [h1]
  refine ⟨_, _, _, rfl, ?_, h, Bal2.refl s, fun _ => perReg_refl s _⟩
  simp only [MOut.abs, Op.reg, h2, ubOf_eq]

theorem eqr_ok (r k : Nat) : StepOK c s ss (.eqr r k) := by
  have hm := h.mode r
  have hl := h.list r
  simp only [StepOK, specCore, stepCore, ← hm, ← hl]
  obtain ⟨pos, h1, h2⟩ := lowerBound_spec _ (c.params_sw _) (s.get r) (h.inv r) k
  obtain ⟨pos', h3, h4⟩ := upperBound_spec _ (c.params_sw _) (s.get r) (h.inv r) k
  rw [h1, h3]
  refine ⟨_, _, _, rfl, ?_, h, Bal2.refl s, fun _ => perReg_refl s _⟩
  simp only [MOut.abs, Op.reg, h2, h4, lbOf_eq, ubOf_eq]

theorem exists_ok (r k : Nat) : StepOK c s ss (.exists_ r k) := by
  have hm := h.mode r
  have hl := h.list r
  simp only [StepOK, specCore, stepCore, ← hm, ← hl]
  rw [existsKey_spec _ (c.params_sw _) (s.get r) (h.inv r) k]
  refine ⟨_, _, _, rfl, ?_, h, Bal2.refl s, fun _ => perReg_refl s _⟩
  simp only [MOut.abs, hasKey_eq]

theorem count_ok (r k : Nat) : StepOK c s ss (.count r k) := by
  have hm := h.mode r
  have hl := h.list r
  simp only [StepOK, specCore, stepCore, ← hm, ← hl]
  rw [count_spec _ (c.params_valid pv _) (c.params_sw _) (s.get r) (h.inv r) k]
  exact ⟨_, _, _, rfl, rfl, h, Bal2.refl s, fun _ => perReg_refl s _⟩

theorem size_ok (r : Nat) : StepOK c s ss (.size r) := by
  have hl := h.list r
  have hsz := size_eq_length _ (s.get r) (h.inv r)
  simp only [StepOK, specCore, stepCore, ← hl]
  refine ⟨_, _, _, rfl, ?_, h, Bal2.refl s, fun _ => perReg_refl s _⟩
  simp only [MOut.abs, hsz]

theorem iter_ok (r m : Nat) : StepOK c s ss (.iter r m) := by
  have hl := h.list r
  simp only [StepOK, specCore, stepCore, doIter, ← hl]
  by_cases hm : m > 15
  · simp only [if_pos hm]
  · simp only [if_neg hm]
    rw [iterOut_spec _ (c.params_valid pv _) (s.get r) (h.inv r) m]
    by_cases hmm : m % 8 = 0 ∨ m % 8 = 2 ∨ m % 8 = 5 ∨ m % 8 = 7
    · simp only [if_pos hmm]; exact ⟨_, _, _, rfl, rfl, h, Bal2.refl s, fun _ => perReg_refl s _⟩
    · simp only [if_neg hmm]; exact ⟨_, _, _, rfl, rfl, h, Bal2.refl s, fun _ => perReg_refl s _⟩

theorem rconv_ok (r k : Nat) : StepOK c s ss (.rconv r k) := by
  have hl := h.list r
  have hsz := size_eq_length _ (s.get r) (h.inv r)
  simp only [StepOK, specCore, stepCore, doConv, ← hl, hsz]
  by_cases hk : k > (s.get r).toList.length
  · simp only [if_pos hk]
  · simp only [if_neg hk]
    by_cases h0 : k = 0
    · simp only [if_pos h0]; exact ⟨_, _, _, rfl, rfl, h, Bal2.refl s, fun _ => perReg_refl s _⟩
    · simp only [if_neg h0]
      rw [rconvOut_spec _ (c.params_valid pv _) (s.get r) (h.inv r) k (by omega) (by omega)]
      exact ⟨_, _, _, rfl, rfl, h, Bal2.refl s, fun _ => perReg_refl s _⟩

theorem fconv_ok (r k : Nat) : StepOK c s ss (.fconv r k) := by
  have hl := h.list r
  have hsz := size_eq_length _ (s.get r) (h.inv r)
  simp only [StepOK, specCore, stepCore, doConv, ← hl, hsz]
  by_cases hk : k > (s.get r).toList.length
  · simp only [if_pos hk]
  · simp only [if_neg hk]
    by_cases h0 : k = 0
    · simp only [if_pos h0]; exact ⟨_, _, _, rfl, rfl, h, Bal2.refl s, fun _ => perReg_refl s _⟩
    · simp only [if_neg h0]
      rw [fconvOut_spec _ (c.params_valid pv _) (s.get r) (h.inv r) k (by omega) (by omega)]
      exact ⟨_, _, _, rfl, rfl, h, Bal2.refl s, fun _ => perReg_refl s _⟩

theorem clear_ok (r : Nat) : StepOK c s ss (.clear r) := by
  simp only [StepOK, specCore, stepCore]
  obtain ⟨c1, c2, _, c4⟩ := clear_step _ (s.get r) (h.inv r)
  exact ⟨_, _, _, rfl, rfl, h.set r _ _ c1 c2, Bal2.set s r _ _ c4, fun _ => perReg_set s r _ _ c4⟩

theorem bulk_ok (r : Nat) (es : List Ent) : StepOK c s ss (.bulk r es) := by
  have hm := h.mode r
  have hl := h.list r
  have hsz := size_eq_length _ (s.get r) (h.inv r)
  simp only [StepOK, specCore, stepCore, doBulk, ← hm, ← hl, hsz]
  by_cases hb : (s.get r).toList.length ≠ 0 ∨ (!sortedFor (c.params (s.mode r)) es) = true
  · simp only [if_pos hb]
  · simp only [if_neg hb]
    have h0 : (s.get r).stats.size = 0 := by rw [hsz]; by_cases hx : (s.get r).toList.length = 0 <;> simp_all
    have hs : sortedFor (c.params (s.mode r)) es = true := by
      cases hx : sortedFor (c.params (s.mode r)) es <;> simp_all
    obtain ⟨t', l, h1, h2, h3, h4⟩ :=
      bulk_step _ (c.params_valid pv _) (c.params_sw _) (s.get r) (h.inv r) h0 es hs
    rw [h1]
    exact ⟨_, _, _, rfl, rfl, h.set r _ _ h2 h3, Bal2.set s r _ _ h4, fun _ => perReg_set s r _ _ h4⟩

theorem cmp_ok (r q : Nat) : StepOK c s ss (.cmp r q) := by
  have hl := h.list r
  have hq := h.list q
  have hsz := size_eq_length _ (s.get r) (h.inv r)
  have hsq := size_eq_length _ (s.get q) (h.inv q)
  simp only [StepOK, specCore, stepCore, doCmp, ← hl, ← hq, hsz, hsq]
  exact ⟨_, _, _, rfl, rfl, h, Bal2.refl s, fun _ => perReg_refl s _⟩

theorem copy_ok (r q : Nat) (hr : r ≤ 1) (hq : q ≤ 1) : StepOK c s ss (.copy r q) := by
  simp only [StepOK, specCore, stepCore, doCopy]
  by_cases hb : q = r
  · simp only [if_pos hb]
  · simp only [if_neg hb]
    refine ⟨_, _, _, rfl, rfl, ?_⟩
    obtain ⟨e0, g0⟩ := copy_eq _ (c.params_valid pv _) s.t0 h.inv0
    obtain ⟨e1, g1⟩ := copy_eq _ (c.params_valid pv _) s.t1 h.inv1
    obtain ⟨_, _, k0, b0⟩ := clear_step _ s.t0 h.inv0
    obtain ⟨_, _, k1, b1⟩ := clear_step _ s.t1 h.inv1
    have n0 := nodes_of_root _ ({} : T) k0
    have n1 := nodes_of_root _ ({} : T) k1
    simp only [Bal] at b0 b1
    obtain rfl | rfl : r = 0 ∨ r = 1 := by omega
    · obtain rfl : q = 1 := by omega
      simp only [PerReg, Op.reg, MSt.get, MSt.set, MSt.mode, MSt.setMode, SSt.get, SSt.set, SSt.mode, SSt.setMode, if_true,
        Nat.one_ne_zero, if_false, e1, g1]
      refine ⟨⟨h.m1, h.m1, h.inv1, h.inv1, h.l1, h.l1⟩, ?_, fun _ => ⟨by simp, by simp, ?_⟩⟩
      · simp only [Bal2, MSt.leaves, MSt.inners, Ledger.add]
        simp only [Tree.nLeaves, Tree.nInner] at n0 b0 ⊢; omega
      · simp only [Bal, Ledger.add]
        simp only [Tree.nLeaves, Tree.nInner] at n0 b0 ⊢; omega
    · obtain rfl : q = 0 := by omega
      simp only [PerReg, Op.reg, MSt.get, MSt.set, MSt.mode, MSt.setMode, SSt.get, SSt.set, SSt.mode, SSt.setMode, if_true,
        Nat.one_ne_zero, if_false, e0, g0]
      refine ⟨⟨h.m0, h.m0, h.inv0, h.inv0, h.l0, h.l0⟩, ?_, fun _ => ⟨by simp, by simp, ?_⟩⟩
      · simp only [Bal2, MSt.leaves, MSt.inners, Ledger.add]
        simp only [Tree.nLeaves, Tree.nInner] at n1 b1 ⊢; omega
      · simp only [Bal, Ledger.add]
        simp only [Tree.nLeaves, Tree.nInner] at n1 b1 ⊢; omega

theorem assign_ok (r q : Nat) (hr : r ≤ 1) (hq : q ≤ 1) : StepOK c s ss (.assign r q) := by
  simp only [StepOK, specCore, stepCore, doAssign]
  by_cases hb : q = r
  · simp only [if_pos hb]; exact ⟨_, _, _, rfl, rfl, h, Bal2.refl s, fun _ => perReg_refl s _⟩
  · simp only [if_neg hb]
    refine ⟨_, _, _, rfl, rfl, ?_⟩
    obtain ⟨e01, g01⟩ := assign_eq _ _ (c.params_valid pv _) s.t0 s.t1 h.inv0 h.inv1
    obtain ⟨e10, g10⟩ := assign_eq _ _ (c.params_valid pv _) s.t1 s.t0 h.inv1 h.inv0
    obtain rfl | rfl : r = 0 ∨ r = 1 := by omega
    · obtain rfl : q = 1 := by omega
      simp only [PerReg, Op.reg, MSt.get, MSt.set, MSt.mode, MSt.setMode, SSt.get, SSt.set, SSt.mode, SSt.setMode, if_true,
        Nat.one_ne_zero, if_false, e01, g01]
      refine ⟨⟨h.m1, h.m1, h.inv1, h.inv1, h.l1, h.l1⟩, ?_, fun _ => ⟨by simp, by simp, ?_⟩⟩
      · simp only [Bal2, MSt.leaves, MSt.inners]; omega
      · simp only [Bal]; omega
    · obtain rfl : q = 0 := by omega
      simp only [PerReg, Op.reg, MSt.get, MSt.set, MSt.mode, MSt.setMode, SSt.get, SSt.set, SSt.mode, SSt.setMode, if_true,
        Nat.one_ne_zero, if_false, e10, g10]
      refine ⟨⟨h.m0, h.m0, h.inv0, h.inv0, h.l0, h.l0⟩, ?_, fun _ => ⟨by simp, by simp, ?_⟩⟩
      · simp only [Bal2, MSt.leaves, MSt.inners]; omega
      · simp only [Bal]; omega

theorem tswap_ok (r q : Nat) (hr : r ≤ 1) (hq : q ≤ 1) : StepOK c s ss (.tswap r q) := by
  simp only [StepOK, specCore, stepCore, doTswap]
  refine ⟨_, _, _, rfl, rfl, ?_, ?_, fun hx => by simp [Op.exchanges] at hx⟩
  all_goals
    rcases (by omega : r = 0 ∨ r = 1) with rfl | rfl <;> rcases (by omega : q = 0 ∨ q = 1) with rfl | rfl
  all_goals
    simp only [MSt.get, MSt.set, MSt.mode, MSt.setMode, SSt.get, SSt.set, SSt.mode, SSt.setMode, if_true,
      Nat.one_ne_zero, if_false]
  · exact ⟨h.m0, h.m1, h.inv0, h.inv1, h.l0, h.l1⟩
  · exact ⟨h.m1, h.m0, h.inv1, h.inv0, h.l1, h.l0⟩
  · exact ⟨h.m1, h.m0, h.inv1, h.inv0, h.l1, h.l0⟩
  · exact ⟨h.m0, h.m1, h.inv0, h.inv1, h.l0, h.l1⟩
  · simp [Bal2, MSt.leaves, MSt.inners]
  · simp only [Bal2, MSt.leaves, MSt.inners]; omega
  · simp only [Bal2, MSt.leaves, MSt.inners]; omega
  · simp [Bal2, MSt.leaves, MSt.inners]

theorem swap_ok (r q : Nat) (hr : r ≤ 1) (hq : q ≤ 1) : StepOK c s ss (.swap r q) := by
  simp only [StepOK, specCore, stepCore, doSwap]
  obtain ⟨e0, g0⟩ := copy_eq _ (c.params_valid pv _) s.t0 h.inv0
  obtain ⟨e1, g1⟩ := copy_eq _ (c.params_valid pv _) s.t1 h.inv1
  obtain ⟨e00, g00⟩ := assign_eq _ _ (c.params_valid pv _) s.t0 s.t0 h.inv0 h.inv0
  obtain ⟨e11, g11⟩ := assign_eq _ _ (c.params_valid pv _) s.t1 s.t1 h.inv1 h.inv1
  obtain ⟨e01, g01⟩ := assign_eq _ _ (c.params_valid pv _) s.t0 s.t1 h.inv0 h.inv1
  obtain ⟨e10, g10⟩ := assign_eq _ _ (c.params_valid pv _) s.t1 s.t0 h.inv1 h.inv0
  obtain ⟨_, _, k0, b0⟩ := clear_step _ s.t0 h.inv0
  obtain ⟨_, _, k1, b1⟩ := clear_step _ s.t1 h.inv1
  have n0 := nodes_of_root _ ({} : T) k0
  have n1 := nodes_of_root _ ({} : T) k1
  simp only [Bal] at b0 b1
  by_cases hb : q = r
  · simp only [if_pos hb]
    refine ⟨_, _, _, rfl, rfl, ?_⟩
    rcases (by omega : r = 0 ∨ r = 1) with rfl | rfl
    · simp only [MSt.get, MSt.set, if_true, e0, g0, e00, g00]
      refine ⟨⟨h.m0, h.m1, h.inv0, h.inv1, h.l0, h.l1⟩, ?_, fun hx => by simp [Op.exchanges] at hx⟩
      simp only [Bal2, MSt.leaves, MSt.inners, Ledger.add]
      simp only [Tree.nLeaves, Tree.nInner] at n0 b0 ⊢; omega
    · simp only [MSt.get, MSt.set, Nat.one_ne_zero, if_false, e1, g1, e11, g11]
      refine ⟨⟨h.m0, h.m1, h.inv0, h.inv1, h.l0, h.l1⟩, ?_, fun hx => by simp [Op.exchanges] at hx⟩
      simp only [Bal2, MSt.leaves, MSt.inners, Ledger.add]
      simp only [Tree.nLeaves, Tree.nInner] at n1 b1 ⊢; omega
  · simp only [if_neg hb]
    refine ⟨_, _, _, rfl, rfl, ?_⟩
    rcases (by omega : r = 0 ∨ r = 1) with rfl | rfl
    · obtain rfl : q = 1 := by omega
      simp only [MSt.get, MSt.set, MSt.mode, MSt.setMode, SSt.get, SSt.set, SSt.mode, SSt.setMode, if_true,
        Nat.one_ne_zero, if_false, e0, g0, e01, g01, e10, g10]
      refine ⟨⟨h.m1, h.m0, h.inv1, h.inv0, h.l1, h.l0⟩, ?_, fun hx => by simp [Op.exchanges] at hx⟩
      simp only [Bal2, MSt.leaves, MSt.inners, Ledger.add]
      simp only [Tree.nLeaves, Tree.nInner] at n0 b0 ⊢; omega
    · obtain rfl : q = 0 := by omega
      simp only [MSt.get, MSt.set, MSt.mode, MSt.setMode, SSt.get, SSt.set, SSt.mode, SSt.setMode, if_true,
        Nat.one_ne_zero, if_false, e1, g1, e10, g10, e01, g01]
      refine ⟨⟨h.m1, h.m0, h.inv1, h.inv0, h.l1, h.l0⟩, ?_, fun hx => by simp [Op.exchanges] at hx⟩
      simp only [Bal2, MSt.leaves, MSt.inners, Ledger.add]
      simp only [Tree.nLeaves, Tree.nInner] at n1 b1 ⊢; omega

end single

/-- **one step of the whole operation language**: where the abstract machine refuses the operation
(`bad-op`: documented precondition violated, nothing executed) so does the model; otherwise the model
is defined (never `ub`), gives the abstract answer (positions as ranks), re-establishes the refinement
relation, and its ledger balances the change of the number of live nodes of both registers -/
theorem stepOp_refines (c : Cfg) (pv : c.p.Valid) (s : MSt) (ss : SSt) (h : Rel c s ss) (op : Op) :
    match specStep c ss op with
    | none => stepOp c s op = .bad
    | some (ss', o) =>
      ∃ s' mo lg, stepOp c s op = .ok (s', mo, lg) ∧ mo.abs (s.get op.reg) (s'.get op.reg) = o ∧
        Rel c s' ss' ∧ Bal2 s s' lg ∧ (op.exchanges = false → PerReg op.reg s s' lg) := by
  unfold specStep stepOp
  cases hw : op.wf with
  | false => simp
  | true =>
    simp only [if_true]
    have key : StepOK c s ss op := by
      cases op with
      | ins kind r k v => exact ins_ok pv h kind r k v
      | idx r k => exact idx_ok pv h r k
      | insr r es => exact insr_ok pv h r es
      | rctor r es => exact rctor_ok pv h r es
      | er1 r k => exact er1_ok pv h r k
      | era r k => exact era_ok pv h r k
      | eri r k => exact eri_ok pv h r k
      | find r k => exact find_ok pv h r k
      | lb r k => exact lb_ok pv h r k
      | ub r k => exact ub_ok pv h r k
      | eqr r k => exact eqr_ok pv h r k
      | exists_ r k => exact exists_ok pv h r k
      | count r k => exact count_ok pv h r k
      | size r => exact size_ok pv h r
      | iter r m => exact iter_ok pv h r m
      | rconv r k => exact rconv_ok pv h r k
      | fconv r k => exact fconv_ok pv h r k
      | clear r => exact clear_ok pv h r
      | bulk r es => exact bulk_ok pv h r es
      | cmp r q => exact cmp_ok pv h r q
      | copy r q | assign r q | swap r q | tswap r q =>
        simp only [Op.wf, Op.reg, Op.reg2, Bool.and_eq_true] at hw
        have hr : r ≤ 1 := of_decide_eq_true hw.1
        have hq : q ≤ 1 := of_decide_eq_true hw.2
        first
          | exact copy_ok pv h r q hr hq
          | exact assign_ok pv h r q hr hq
          | exact swap_ok pv h r q hr hq
          | exact tswap_ok pv h r q hr hq
    exact key

theorem Bal2.trans {a b d : MSt} {l1 l2 : Ledger} (h1 : Bal2 a b l1) (h2 : Bal2 b d l2) : Bal2 a d (l1.add l2) := by
  simp only [Bal2, Ledger.add] at *; omega

/-- every history of the whole operation language, from any related pair of states -/
theorem run_refines (c : Cfg) (pv : c.p.Valid) :
    ∀ (ops : List Op) (s : MSt) (ss : SSt), Rel c s ss →
      ∃ s' lg, runOps c s ops = some (s', (specRun c ss ops).2, lg) ∧ Rel c s' (specRun c ss ops).1 ∧ Bal2 s s' lg := by
  intro ops
  induction ops with
  | nil => intro s ss h; exact ⟨s, {}, rfl, h, Bal2.refl s⟩
  | cons op ops ih =>
    intro s ss h
    have hstep := stepOp_refines c pv s ss h op
    cases hsp : specStep c ss op with
    | none =>
      rw [hsp] at hstep
      simp only at hstep
      obtain ⟨s', lg, h1, h2, h3⟩ := ih s ss h
      refine ⟨s', lg, ?_, ?_, h3⟩
      · simp only [runOps, hstep, h1, specRun, hsp, Option.map_some]
      · simp only [specRun, hsp]; exact h2
    | some res =>
      obtain ⟨ss1, o⟩ := res
      rw [hsp] at hstep
      simp only at hstep
      obtain ⟨s1, mo, l1, g1, g2, g3, g4, _⟩ := hstep
      obtain ⟨s', lg, h1, h2, h3⟩ := ih s1 ss1 g3
      refine ⟨s', l1.add lg, ?_, ?_, g4.trans h3⟩
      · simp only [runOps, g1, h1, specRun, hsp, Option.map_some, g2]
      · simp only [specRun, hsp]; exact h2

theorem rel_init (c : Cfg) (m0 m1 : Nat) : Rel c { m0 := m0, m1 := m1 } { m0 := m0, m1 := m1 } :=
  ⟨rfl, rfl, treeInv_empty _, treeInv_empty _, rfl, rfl⟩

end TlxVerif.C01
