/-
C03 — multikey quicksort (multikey_quicksort.hpp) is correct for every input, depth and memory
limit, provided the partitioning loop delivers its three ranges (`PartOk`).
-/
import TlxVerif.Proofs.C03Radix
namespace TlxVerif.C03

variable {α : Type} (str : α → Str)

/-- what the recursion needs from pivot selection + partitioning + the two `vec_swap`s:
the array is a permutation of the input laid out as `<pivot | =pivot | >pivot` with the range
sizes given by the four cursors -/
structure PartOk (d : Nat) (ss : List α) (p : Parted α) : Prop where
  perm : p.arr.toList.Perm ss
  hpa : 1 ≤ p.pa
  hab : p.pa ≤ p.pb
  hbc : p.pb = p.pc + 1
  hcd : p.pc ≤ p.pd
  hdn : p.pd < ss.length
  less : ∀ x ∈ p.arr.toList.take (p.pb - p.pa), charAt (str x) d < p.pivot
  eq : ∀ x ∈ (p.arr.toList.drop (p.pb - p.pa)).take (p.pa + (ss.length - p.pd - 1)), charAt (str x) d = p.pivot
  gt : ∀ x ∈ p.arr.toList.drop (ss.length - (p.pd - p.pc)), p.pivot < charAt (str x) d

def PartitionOk : Prop := ∀ (d : Nat) (ss : List α), 32 ≤ ss.length → PartOk str d ss (partition str d ss)

/-! ### the termination measure -/

def mu (d : Nat) (ss : List α) : Nat := (ss.map fun x => (str x).length - d + 1).sum

theorem mu_perm (d : Nat) {a b : List α} (h : a.Perm b) : mu str d a = mu str d b :=
  (h.map _).sum_nat

theorem mu_append (d : Nat) (a b : List α) : mu str d (a ++ b) = mu str d a + mu str d b := by
  simp [mu, List.sum_append]

theorem mu_ge_length (d : Nat) (a : List α) : a.length ≤ mu str d a := by
  induction a with
  | nil => simp [mu]
  | cons x xs ih => simp only [mu, List.map_cons, List.sum_cons, List.length_cons] at ih ⊢; omega

theorem mu_succ (d : Nat) (a : List α) (h : ∀ x ∈ a, d < (str x).length) :
    mu str (d + 1) a + a.length = mu str d a := by
  induction a with
  | nil => simp [mu]
  | cons x xs ih =>
    have hx := h x (by simp)
    have := ih fun y hy => h y (by simp [hy])
    simp only [mu, List.map_cons, List.sum_cons, List.length_cons] at this ⊢
    omega

theorem length_gt_of_charAt_ne (s : Str) (d : Nat) (h : charAt s d ≠ 0) : d < s.length := by
  apply Classical.byContradiction
  intro hn
  apply h
  simp only [charAt]
  rw [List.getD_eq_getElem?_getD, List.getElem?_eq_none (by omega)]
  rfl

theorem mkqsFuel_enough (d : Nat) (ss : List α) : mu str d ss < mkqsFuel str ss := by
  unfold mkqsFuel
  have : mu str d ss ≤ ss.length + (ss.map fun x => (str x).length).sum := by
    induction ss with
    | nil => simp [mu]
    | cons x xs ih =>
      simp only [mu, List.map_cons, List.sum_cons, List.length_cons] at ih ⊢
      omega
  omega

/-! ### list plumbing -/

theorem take_one_eq {a b : List Nat} (h : a[0]? = b[0]?) : a.take 1 = b.take 1 := by
  cases a <;> cases b <;> simp_all

theorem three_split {β : Type} (all : List β) (a b : Nat) :
    all = all.take a ++ (all.drop a).take b ++ all.drop (a + b) := by
  rw [List.append_assoc, ← List.drop_drop, List.take_append_drop, List.take_append_drop]

/-- the LCP array after the stores of one multikey-quicksort call -/
theorem mkqs_lcp_facts (l : List Nat) (n nLess nEq nGt peStart peEnd d : Nat) (pz : Bool)
    (hl : l.length = n) (hn : nLess + nEq + nGt = n) (hEq : 1 ≤ nEq)
    (hz : pz = true → nLess = 0 ∧ peStart = 0 ∧ nEq ≤ peEnd) :
    let L1 := if pz then setRange l (peStart + 1) peEnd d else l
    let L2a := if nLess > 0 then L1.set nLess d else L1
    let L2 := if nGt > 0 then L2a.set (n - nGt) d else L2a
    L2.length = n ∧ L2[0]? = l[0]? ∧ (nLess > 0 → L2[nLess]? = some d) ∧
      (nGt > 0 → L2[n - nGt]? = some d) ∧ (pz = true → ∀ i, 1 ≤ i → i < nEq → L2[i]? = some d) := by
  intro L1 L2a L2
  have h1 : L1.length = n := by simp only [L1]; split <;> simp [setRange_length, hl]
  have h2a : L2a.length = n := by simp only [L2a]; split <;> simp [h1]
  have h2 : L2.length = n := by simp only [L2]; split <;> simp [h2a]
  have g1 : ∀ i, L1[i]? = if pz = true ∧ peStart + 1 ≤ i ∧ i < peEnd then (l[i]?).map (fun _ => d) else l[i]? := by
    intro i
    simp only [L1]
    cases pz with
    | false => simp
    | true => simp [setRange_getElem?]
  have g2a : ∀ i, L2a[i]? = if nLess > 0 ∧ i = nLess then some d else L1[i]? := by
    intro i
    simp only [L2a]
    by_cases h : nLess > 0
    · simp only [h, if_true, true_and, List.getElem?_set]
      by_cases e : nLess = i
      · subst e; simp [h1]; omega
      · have : ¬ i = nLess := fun e' => e e'.symm
        simp [e, this]
    · simp [h]
  have g2 : ∀ i, L2[i]? = if nGt > 0 ∧ i = n - nGt then some d else L2a[i]? := by
    intro i
    simp only [L2]
    by_cases h : nGt > 0
    · simp only [h, if_true, true_and, List.getElem?_set]
      by_cases e : n - nGt = i
      · subst e; simp [h2a]; omega
      · have : ¬ i = n - nGt := fun e' => e e'.symm
        simp [e, this]
    · simp [h]
  refine ⟨h2, ?_, ?_, ?_, ?_⟩
  · rw [g2, g2a, g1]
    have a1 : ¬ (nGt > 0 ∧ 0 = n - nGt) := by omega
    have a2 : ¬ (nLess > 0 ∧ 0 = nLess) := by omega
    simp [a1, a2]
  · intro h
    rw [g2, g2a]
    have a1 : ¬ (nGt > 0 ∧ nLess = n - nGt) := by omega
    simp [a1, h]
  · intro h
    rw [g2]
    simp [h]
  · intro hp i hi1 hi2
    obtain ⟨z1, z2, z3⟩ := hz hp
    rw [g2, g2a, g1]
    have a1 : ¬ (nGt > 0 ∧ i = n - nGt) := by omega
    have a2 : ¬ (nLess > 0 ∧ i = nLess) := by omega
    have a3 : pz = true ∧ peStart + 1 ≤ i ∧ i < peEnd := ⟨hp, by omega, by omega⟩
    have hil : i < l.length := by omega
    simp [a1, a2, a3, List.getElem?_eq_getElem hil]

/-! ### the recursion -/

theorem mkqsGo_spec (hP : PartitionOk str) (c : Consts) (wl : Bool) :
    ∀ fuel ss l d mem, mu str d ss < fuel → Pre str wl d ss l →
      SortSpec str wl ss l (mkqsGo str c wl fuel ss l d mem) := by
  intro fuel
  induction fuel with
  | zero => intro ss l d mem h; omega
  | succ fuel ih =>
    intro ss l d mem hmu hpre
    simp only [mkqsGo]
    split
    · exact insertionSort_spec str wl d ss l hpre
    · rename_i hbig
      have hn32 : 32 ≤ ss.length := by omega
      obtain ⟨hcp, hnf, hll⟩ := hpre
      have hp := hP d ss hn32
      generalize partition str d ss = p at hp
      obtain ⟨pperm, hpa, hab, hbc, hcd, hdn, pless, peq, pgt⟩ := hp
      generalize hall : p.arr.toList = all at pperm pless peq pgt
      generalize hnL : p.pb - p.pa = nLess at pless peq
      generalize hnE : p.pa + (ss.length - p.pd - 1) = nEq at peq
      generalize hnG : p.pd - p.pc = nGt at pgt
      have hsum : nLess + nEq + nGt = ss.length := by omega
      have hEq1 : 1 ≤ nEq := by omega
      have halllen : all.length = ss.length := pperm.length_eq
      have hdropeq : ss.length - nGt = nLess + nEq := by omega
      rw [hdropeq] at pgt ⊢
      -- the three ranges
      generalize hsL : all.take nLess = sLess at pless
      generalize hsE : (all.drop nLess).take nEq = sEq at peq
      generalize hsG : all.drop (nLess + nEq) = sGt at pgt
      have hallsplit : all = sLess ++ sEq ++ sGt := by
        rw [← hsL, ← hsE, ← hsG]; exact three_split all nLess nEq
      have hlenL : sLess.length = nLess := by rw [← hsL, List.length_take]; omega
      have hlenE : sEq.length = nEq := by rw [← hsE, List.length_take, List.length_drop]; omega
      have hlenG : sGt.length = nGt := by rw [← hsG, List.length_drop]; omega
      have hsub : ∀ x, x ∈ sLess ∨ x ∈ sEq ∨ x ∈ sGt → x ∈ ss := by
        intro x hx
        apply pperm.mem_iff.mp
        rw [hallsplit]
        simp only [List.mem_append]
        rcases hx with h | h | h <;> simp [h]
      have hmuall : mu str d ss = mu str d sLess + mu str d sEq + mu str d sGt := by
        rw [← mu_perm str d pperm, hallsplit, mu_append, mu_append]
      -- pivot 0 means nothing is smaller
      have hz : p.pivot = 0 → nLess = 0 := by
        intro h0
        cases hs : sLess with
        | nil => rw [hs] at hlenL; simpa using hlenL.symm
        | cons x xs =>
          have := pless x (by rw [hs]; simp)
          rw [h0] at this
          exact absurd this (by simp [UInt8.lt_iff_toNat_lt])
      -- the LCP array after the stores (only meaningful with LCP output)
      generalize hL2 :
        (if wl = true ∧ nGt > 0 then
          (if wl = true ∧ nLess > 0 then
            (if wl = true ∧ p.pivot = 0 then setRange l (min p.pa nLess + 1) (ss.length - min nGt (ss.length - p.pd - 1)) d else l).set nLess d
           else (if wl = true ∧ p.pivot = 0 then setRange l (min p.pa nLess + 1) (ss.length - min nGt (ss.length - p.pd - 1)) d else l)).set
            (nLess + nEq) d
         else
          (if wl = true ∧ nLess > 0 then
            (if wl = true ∧ p.pivot = 0 then setRange l (min p.pa nLess + 1) (ss.length - min nGt (ss.length - p.pd - 1)) d else l).set nLess d
           else (if wl = true ∧ p.pivot = 0 then setRange l (min p.pa nLess + 1) (ss.length - min nGt (ss.length - p.pd - 1)) d else l))) = L2
      have hfacts : wl = true → L2.length = ss.length ∧ L2[0]? = l[0]? ∧ (nLess > 0 → L2[nLess]? = some d) ∧
          (nGt > 0 → L2[nLess + nEq]? = some d) ∧ (p.pivot = 0 → ∀ i, 1 ≤ i → i < nEq → L2[i]? = some d) := by
        intro hw
        have := mkqs_lcp_facts l ss.length nLess nEq nGt (min p.pa nLess) (ss.length - min nGt (ss.length - p.pd - 1)) d
          (decide (p.pivot = 0)) (hll hw) hsum hEq1 (by
            intro h0
            have h0' : p.pivot = 0 := by simpa using h0
            have := hz h0'
            refine ⟨this, by simp [this], by omega⟩)
        simp only [hdropeq, decide_eq_true_eq] at this
        rw [← hL2]
        simp only [hw, true_and]
        exact this
      -- sub-array views
      generalize hlL : L2.take nLess = lLess
      generalize hlE : (L2.drop nLess).take nEq = lEq
      generalize hlG : L2.drop (nLess + nEq) = lGt
      have hL2split : L2 = lLess ++ lEq ++ lGt := by
        rw [← hlL, ← hlE, ← hlG]; exact three_split L2 nLess nEq
      have hvL : wl = true → lLess.length = sLess.length := by
        intro hw; rw [← hlL, List.length_take, (hfacts hw).1]; omega
      have hvE : wl = true → lEq.length = sEq.length := by
        intro hw; rw [← hlE, List.length_take, List.length_drop, (hfacts hw).1]; omega
      have hvG : wl = true → lGt.length = sGt.length := by
        intro hw; rw [← hlG, List.length_drop, (hfacts hw).1]; omega
      -- preconditions of the sub-calls
      have hcpL : CommonPrefix str d sLess := CommonPrefix.mono str hcp fun x hx => hsub x (Or.inl hx)
      have hcpE : CommonPrefix str d sEq := CommonPrefix.mono str hcp fun x hx => hsub x (Or.inr (Or.inl hx))
      have hcpG : CommonPrefix str d sGt := CommonPrefix.mono str hcp fun x hx => hsub x (Or.inr (Or.inr hx))
      have hnfL : NulFree str sLess := fun x hx => hnf x (hsub x (Or.inl hx))
      have hnfE : NulFree str sEq := fun x hx => hnf x (hsub x (Or.inr (Or.inl hx)))
      have hnfG : NulFree str sGt := fun x hx => hnf x (hsub x (Or.inr (Or.inr hx)))
      have hmuE : nEq ≤ mu str d sEq := by rw [← hlenE]; exact mu_ge_length str d sEq
      -- the three results
      let tL : Blk α := ⟨sLess, lLess,
        if nLess > 1 then mkqsGo str c wl fuel sLess lLess d (wsub mem (2 * 8 + c.szSet + 5 * c.szIter)) else (sLess, lLess)⟩
      let tE : Blk α := ⟨sEq, lEq,
        if headChar str d sEq ≠ 0 then mkqsGo str c wl fuel sEq lEq (d + 1) (wsub mem (2 * 8 + c.szSet + 5 * c.szIter)) else (sEq, lEq)⟩
      let tG : Blk α := ⟨sGt, lGt,
        if nGt > 1 then mkqsGo str c wl fuel sGt lGt d (wsub mem (2 * 8 + c.szSet + 5 * c.szIter)) else (sGt, lGt)⟩
      have okL : BlkOk str wl tL := by
        refine ⟨?_, hvL⟩
        simp only [tL]
        split
        · exact ih sLess lLess d _ (by omega) ⟨hcpL, hnfL, hvL⟩
        · exact sortSpec_id_small str wl sLess lLess (by omega) hvL
      have okG : BlkOk str wl tG := by
        refine ⟨?_, hvG⟩
        simp only [tG]
        split
        · exact ih sGt lGt d _ (by omega) ⟨hcpG, hnfG, hvG⟩
        · exact sortSpec_id_small str wl sGt lGt (by omega) hvG
      have hhead : headChar str d sEq = p.pivot := by
        cases hs : sEq with
        | nil => rw [hs] at hlenE; simp at hlenE; omega
        | cons x xs =>
          simp only [headChar, List.head?_cons]
          exact peq x (by rw [hs]; simp)
      have okE : BlkOk str wl tE := by
        refine ⟨?_, hvE⟩
        simp only [tE, hhead]
        split
        · rename_i hne
          have hdeep : CommonPrefix str (d + 1) sEq := by
            apply bucket_deeper str d p.pivot.toNat sEq _ hcpE hnfE
            · intro y hy; simp [key8, peq y hy]
            · have : p.pivot.toNat ≠ 0 := fun e => hne (UInt8.toNat_inj.mp (by simpa using e))
              omega
          have hlong : ∀ x ∈ sEq, d < (str x).length := fun x hx =>
            length_gt_of_charAt_ne _ _ (by rw [peq x hx]; exact hne)
          have := mu_succ str d sEq hlong
          exact ih sEq lEq (d + 1) _ (by omega) ⟨hdeep, hnfE, hvE⟩
        · rename_i hne
          have h0 : p.pivot = 0 := by
            apply Classical.byContradiction; intro h; exact hne h
          apply sortSpec_id_equal str wl d sEq lEq
          · apply bucket0_eq str d sEq hcpE hnfE
            intro y hy; simp [key8, peq y hy, h0]
          · intro hw
            have hf := hfacts hw
            have hnL0 := hz h0
            subst hnL0
            apply List.ext_getElem?
            intro i
            have hlE' : lEq = L2.take nEq := by rw [← hlE]; simp
            by_cases hi0 : i = 0
            · subst hi0
              cases hq : lEq with
              | nil => rw [hq] at hvE; have := hvE hw; simp at this; omega
              | cons a as => simp
            · by_cases hi : i < nEq
              · have h1 : (lEq.take 1).length = 1 := by
                  rw [List.length_take, hvE hw, hlenE]; omega
                rw [List.getElem?_append_right (by omega), h1, List.getElem?_replicate]
                have : i - 1 < sEq.length - 1 := by omega
                simp only [this, if_true]
                rw [hlE', List.getElem?_take]
                simp only [hi, if_true]
                exact hf.2.2.2.2 h0 i (by omega) hi
              · rw [List.getElem?_eq_none (by rw [hvE hw, hlenE]; omega)]
                symm
                apply List.getElem?_eq_none
                simp only [List.length_append, List.length_take, List.length_replicate]
                rw [hvE hw, hlenE]; omega
      -- assemble
      have hcross : [tL, tE, tG].Pairwise fun t1 t2 =>
          ∀ x ∈ t1.b, ∀ y ∈ t2.b, str x ≤ str y ∧ lcp (str x) (str y) = d := by
        have key : ∀ x y, x ∈ ss → y ∈ ss → charAt (str x) d < charAt (str y) d →
            str x ≤ str y ∧ lcp (str x) (str y) = d := fun x y hx hy h =>
          charAt_lt_imp d _ _ (hnf y hy) (hcp x hx y hy) h
        refine List.Pairwise.cons ?_ (List.Pairwise.cons ?_ (List.Pairwise.cons (by simp) List.Pairwise.nil))
        · intro t ht
          simp only [List.mem_cons, List.mem_nil_iff, or_false] at ht
          rcases ht with e | e
          · subst e
            intro x hx y hy
            exact key x y (hsub x (Or.inl hx)) (hsub y (Or.inr (Or.inl hy))) (by rw [peq y hy]; exact pless x hx)
          · subst e
            intro x hx y hy
            exact key x y (hsub x (Or.inl hx)) (hsub y (Or.inr (Or.inr hy))) (UInt8.lt_trans (pless x hx) (pgt y hy))
        · intro t ht
          simp only [List.mem_cons, List.mem_nil_iff, or_false] at ht
          subst ht
          intro x hx y hy
          exact key x y (hsub x (Or.inr (Or.inl hx))) (hsub y (Or.inr (Or.inr hy))) (by rw [peq x hx]; exact pgt y hy)
      have hm : wl = true → HeadsMarked d false ([tL, tE, tG].map fun t => t.b.length) ([tL, tE, tG].map fun t => t.v) := by
        intro hw
        have hf := hfacts hw
        simp only [List.map_cons, List.map_nil, HeadsMarked, tL, tE, tG, hlenL, hlenE, hlenG]
        refine ⟨by simp, ?_, ?_, trivial⟩
        · intro _ hs
          have hpos : nLess > 0 := by
            simp at hs; omega
          rw [← hlE, List.head?_take]
          have : nEq ≠ 0 := by omega
          simp only [this, if_false, List.head?_drop]
          exact hf.2.2.1 hpos
        · intro hpos _
          rw [← hlG, List.head?_drop]
          exact hf.2.2.2.1 (by omega)
      have hfin := blocks_spec str wl d [tL, tE, tG]
        (by intro t ht; simp only [List.mem_cons, List.mem_nil_iff, or_false] at ht
            rcases ht with e | e | e <;> subst e <;> assumption)
        hcross hm
      simp only [List.flatMap_cons, List.flatMap_nil, List.append_nil, tL, tE, tG] at hfin
      obtain ⟨f1, f2, f3⟩ := hfin
      simp only [← List.append_assoc] at f1 f2 f3
      rw [← hallsplit] at f1
      refine ⟨?_, ?_, ?_⟩
      · exact f1.trans pperm
      · exact f2
      · intro hw
        have := f3 hw
        rw [← hL2split] at this
        dsimp only
        rw [this, take_one_eq (hfacts hw).2.1]

/-- `multikey_quicksort` meets the sorter specification for every input, depth and memory limit
(given the partition property) -/
theorem multikeyQuicksort_spec (hP : PartitionOk str) (c : Consts) (wl : Bool) : MkqsOk str c wl := by
  intro d ss l mem hpre
  exact mkqsGo_spec str hP c wl _ ss l d mem (mkqsFuel_enough str d ss) hpre

end TlxVerif.C03
