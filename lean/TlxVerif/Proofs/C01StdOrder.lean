/-
C01 — "up to the relative order of entries with equivalent keys": tlx inserts a new entry at the lower
bound of its key, libstdc++'s multi-containers at the upper bound.  Driven by the same history both
abstract containers stay ordered and hold the same multiset of entries (a permutation of each other),
and a unique-key container accepts / rejects the same insertions.
-/
import TlxVerif.Model.C01Tree
import TlxVerif.Proofs.C01Order
import TlxVerif.Proofs.C01Query
namespace TlxVerif.C01

variable {K V : Type}

theorem insertAt_perm {α : Type} (l : List α) (i : Nat) (x : α) : (insertAt l i x).Perm (x :: l) := by
  unfold insertAt
  have h1 : (List.take i l ++ x :: List.drop i l).Perm (x :: (List.take i l ++ List.drop i l)) := List.perm_middle
  rw [List.take_append_drop] at h1
  exact h1

/-- inserting at the upper bound keeps the order as well -/
theorem sortedE_insert_ub {lt : K → K → Bool} (sw : StrictWeak lt) (es : List (K × V)) (hs : SortedE lt es)
    (k : K) (v : V) : SortedE lt (insertAt es (ubIdx lt k es) (k, v)) := by
  unfold SortedE insertAt ubIdx
  have hs' := hs
  rw [← List.take_append_drop (es.findIdx fun e => lt k e.1) es] at hs'
  obtain ⟨h1, h2, h3⟩ := List.pairwise_append.mp hs'
  rw [List.pairwise_append]
  refine ⟨h1, ?_, ?_⟩
  · rw [List.pairwise_cons]
    refine ⟨?_, h2⟩
    intro b hb
    obtain ⟨j, hj, rfl⟩ := List.getElem_of_mem hb
    simp only [List.getElem_drop]
    have hidx : es.findIdx (fun e => lt k e.1) < es.length := by
      simp only [List.length_drop] at hj; omega
    have h0 : lt k (es[es.findIdx fun e => lt k e.1]).1 = true := List.findIdx_getElem (w := hidx)
    by_cases hj0 : j = 0
    · subst hj0; exact sw.asymm (by simpa using h0)
    · have hp := List.pairwise_iff_getElem.mp hs (es.findIdx fun e => lt k e.1)
        (es.findIdx (fun e => lt k e.1) + j) hidx (by simp only [List.length_drop] at hj; omega) (by omega)
      exact sw.asymm (sw.lt_of_lt_of_le h0 hp)
  · intro a ha b hb
    rcases List.mem_cons.mp hb with hb | hb
    · subst hb
      obtain ⟨j, hj, hcj⟩ := List.mem_take_iff_getElem.mp ha
      have hj' : j < es.findIdx (fun e => lt k e.1) := by omega
      have : lt k (es[j]'(by omega)).1 = false := List.not_of_lt_findIdx hj'
      rw [← hcj]
      exact this
    · exact h3 a ha b hb

/-- on an ordered sequence "the entry at the lower bound is equivalent" means "some entry is equivalent" -/
theorem present_iff_any (p : Params K) (sw : StrictWeak p.lt) (l : List (K × V)) (hs : SortedE p.lt l) (k : K) :
    presentOpt p k (l[lbIdx p.lt k l]?) = l.any (fun e => p.eqv k e.1) := by
  cases hany : l.any (fun e => p.eqv k e.1) with
  | false =>
    cases hx : l[lbIdx p.lt k l]? with
    | none => rfl
    | some x =>
      simp only [presentOpt]
      rw [List.any_eq_false] at hany
      have := hany x (List.mem_of_getElem? hx)
      simpa using this
  | true =>
    rw [List.any_eq_true] at hany
    obtain ⟨e, he, hq⟩ := hany
    obtain ⟨i, hi, rfl⟩ := List.getElem_of_mem he
    simp only [Params.eqv, Bool.and_eq_true, Bool.not_eq_true'] at hq
    -- the lower bound is at or before i
    have hle : lbIdx p.lt k l ≤ i := by
      unfold lbIdx
      rcases Nat.lt_or_ge i (l.findIdx fun (e : K × V) => !p.lt e.1 k) with h | h
      · have := List.not_of_lt_findIdx (p := fun (e : K × V) => !p.lt e.1 k) h
        simp [hq.2] at this
      · exact h
    have hlt : lbIdx p.lt k l < l.length := by omega
    rw [List.getElem?_eq_getElem hlt]
    simp only [presentOpt, Params.eqv, Bool.and_eq_true, Bool.not_eq_true']
    have h0 : (!p.lt (l[lbIdx p.lt k l]).1 k) = true := List.findIdx_getElem (w := hlt)
    simp only [Bool.not_eq_true'] at h0
    refine ⟨?_, h0⟩
    by_cases heq : lbIdx p.lt k l = i
    · simp only [heq]; exact hq.1
    · have hp := List.pairwise_iff_getElem.mp hs (lbIdx p.lt k l) i hlt hi (by omega)
      -- x ≤ e and e ≤ k  ⇒ ¬ k < x
      exact sw.le_trans _ _ _ hp hq.1

/-- the std-like abstract container: new entries go behind the equivalent ones -/
def Spec.runInsertsStd (p : Params K) : List (K × V) → List (K × V) → List (K × V)
  | l, [] => l
  | l, (k, v) :: ops =>
    if !p.dup && l.any (fun e => p.eqv k e.1) then Spec.runInsertsStd p l ops
    else Spec.runInsertsStd p (insertAt l (ubIdx p.lt k l) (k, v)) ops

/-- the tlx-like abstract container (`Spec.runInserts` of Props/C01.lean, restated here) -/
def Spec.runInsertsLB (p : Params K) : List (K × V) → List (K × V) → List (K × V)
  | l, [] => l
  | l, (k, v) :: ops =>
    if !p.dup && presentOpt p k (l[lbIdx p.lt k l]?) then Spec.runInsertsLB p l ops
    else Spec.runInsertsLB p (insertAt l (lbIdx p.lt k l) (k, v)) ops

theorem any_perm {α : Type} (f : α → Bool) {l₁ l₂ : List α} (h : l₁.Perm l₂) : l₁.any f = l₂.any f := by
  cases h1 : l₁.any f <;> cases h2 : l₂.any f <;> try rfl
  · rw [List.any_eq_true] at h2
    rw [List.any_eq_false] at h1
    obtain ⟨x, hx, hfx⟩ := h2
    exact absurd hfx (h1 x (h.mem_iff.mpr hx))
  · rw [List.any_eq_true] at h1
    rw [List.any_eq_false] at h2
    obtain ⟨x, hx, hfx⟩ := h1
    exact absurd hfx (h2 x (h.mem_iff.mp hx))

/-- **lower-bound insertion vs. std's upper-bound insertion**: for every history the two containers stay
ordered and are permutations of each other, i.e. equal up to the relative order of entries with
equivalent keys; a unique-key container makes the same accept/reject decisions -/
theorem lb_vs_std (p : Params K) (sw : StrictWeak p.lt) :
    ∀ (ops l₁ l₂ : List (K × V)), l₁.Perm l₂ → SortedE p.lt l₁ → SortedE p.lt l₂ →
      (Spec.runInsertsLB p l₁ ops).Perm (Spec.runInsertsStd p l₂ ops) ∧
      SortedE p.lt (Spec.runInsertsLB p l₁ ops) ∧ SortedE p.lt (Spec.runInsertsStd p l₂ ops) := by
  intro ops
  induction ops with
  | nil => intro l₁ l₂ hp h1 h2; exact ⟨hp, h1, h2⟩
  | cons op ops ih =>
    intro l₁ l₂ hp h1 h2
    obtain ⟨k, v⟩ := op
    simp only [Spec.runInsertsLB, Spec.runInsertsStd]
    rw [present_iff_any p sw l₁ h1 k, any_perm _ hp]
    split
    · exact ih l₁ l₂ hp h1 h2
    · apply ih
      · exact (insertAt_perm l₁ _ _).trans ((List.Perm.cons _ hp).trans (insertAt_perm l₂ _ _).symm)
      · exact sortedE_insert_lb sw l₁ h1 k v
      · exact sortedE_insert_ub sw l₂ h2 k v

end TlxVerif.C01
