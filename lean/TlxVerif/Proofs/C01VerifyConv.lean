/-
C02 — the converse of `verify_of_inv`: on a representable state (no array is overfull, an inner node with
`slotuse` keys has `slotuse + 1` children — what the C++ node layout guarantees and `verify()` therefore
does not check) a passing `verify()` establishes the invariant `TreeInv`.
-/
import TlxVerif.Proofs.C01Verify
namespace TlxVerif.C01

variable {K V : Type}

/-- what the node layout guarantees without any check -/
def Rep (p : Params K) : Nat → BNode K V → Prop
  | _, .leaf es => es.length ≤ p.leafMax
  | 0, .inner .. => True
  | h + 1, .inner _ keys kids => keys.length ≤ p.innerMax ∧ kids.length = keys.length + 1 ∧ ∀ c ∈ kids, Rep p h c

/-! ### order facts -/

theorem sortedK_of_adjacentLe (p : Params K) (sw : StrictWeak p.lt) :
    ∀ ks : List K, adjacentLe p ks = true → SortedK p.lt ks := by
  intro ks
  induction ks with
  | nil => intro _; exact List.Pairwise.nil
  | cons a rest ih =>
    intro h
    cases rest with
    | nil => exact List.pairwise_singleton _ _
    | cons b rest' =>
      simp only [adjacentLe, Bool.and_eq_true, Params.le, Bool.not_eq_true'] at h
      obtain ⟨hab, hrest⟩ := h
      have hp := ih hrest
      refine List.Pairwise.cons ?_ hp
      have hb := (List.pairwise_cons.mp hp).1
      intro c hc
      rcases List.mem_cons.mp hc with rfl | hc'
      · exact hab
      · exact sw.le_trans _ _ _ hab (hb c hc')

theorem sortedE_of_keys {lt : K → K → Bool} {es : List (K × V)} (h : SortedK lt (keysOf es)) : SortedE lt es := by
  unfold SortedK keysOf at h
  rw [List.pairwise_map] at h
  exact h

/-- in an ordered sequence the first entry is below and the last entry above every entry -/
theorem sorted_head_le {lt : K → K → Bool} (sw : StrictWeak lt) (l : List (K × V)) (hs : SortedE lt l) (a x : K × V)
    (ha : l.head? = some a) (hx : x ∈ l) : lt x.1 a.1 = false := by
  cases l with
  | nil => cases ha
  | cons b rest =>
    simp only [List.head?_cons, Option.some.injEq] at ha
    subst ha
    rcases List.mem_cons.mp hx with rfl | hx'
    · exact sw.irrefl _
    · exact (List.pairwise_cons.mp hs).1 x hx'

theorem sorted_le_last {lt : K → K → Bool} (sw : StrictWeak lt) (l : List (K × V)) (hs : SortedE lt l) (b x : K × V)
    (hb : l.getLast? = some b) (hx : x ∈ l) : lt b.1 x.1 = false := by
  obtain ⟨ys, rfl⟩ := List.getLast?_eq_some_iff.mp hb
  rcases List.mem_append.mp hx with hx' | hx'
  · exact (List.pairwise_append.mp hs).2.2 x hx' b (List.mem_singleton.mpr rfl)
  · rw [List.mem_singleton.mp hx']; exact sw.irrefl _

/-- consecutive blocks are linked: the last key of a block is not above the first key of the next -/
def Linked (lt : K → K → Bool) : List (List (K × V)) → Prop
  | a :: b :: rest =>
    (∀ x y, a.getLast? = some x → b.head? = some y → lt y.1 x.1 = false) ∧ Linked lt (b :: rest)
  | _ => True

theorem head?_flatten_cons {α : Type} (b : List α) (bs : List (List α)) (hne : b ≠ []) :
    (b :: bs).flatten.head? = b.head? := by
  cases b with
  | nil => exact absurd rfl hne
  | cons x xs => rfl

theorem sorted_flatten (lt : K → K → Bool) (sw : StrictWeak lt) :
    ∀ bs : List (List (K × V)), (∀ b ∈ bs, b ≠ [] ∧ SortedE lt b) → Linked lt bs → SortedE lt bs.flatten := by
  intro bs
  induction bs with
  | nil => intro _ _; exact List.Pairwise.nil
  | cons a rest ih =>
    intro hall hlink
    have ha := hall a List.mem_cons_self
    cases rest with
    | nil => simpa using ha.2
    | cons b rest' =>
      obtain ⟨hl1, hl2⟩ := hlink
      have hrest := ih (fun c hc => hall c (List.mem_cons_of_mem _ hc)) hl2
      have hb := hall b (List.mem_cons_of_mem _ List.mem_cons_self)
      rw [List.flatten_cons]
      unfold SortedE at *
      rw [List.pairwise_append]
      refine ⟨ha.2, hrest, ?_⟩
      intro x hx y hy
      obtain ⟨la, hla⟩ : ∃ la, a.getLast? = some la := by
        cases h : a.getLast? with
        | none => exact absurd (List.getLast?_eq_none_iff.mp h) ha.1
        | some v => exact ⟨v, rfl⟩
      obtain ⟨hb0, hhb0⟩ : ∃ hb0, b.head? = some hb0 := by
        cases h : b.head? with
        | none => exact absurd (List.head?_eq_none_iff.mp h) hb.1
        | some v => exact ⟨v, rfl⟩
      have h1 : lt la.1 x.1 = false := sorted_le_last sw a ha.2 la x hla hx
      have h2 : lt hb0.1 la.1 = false := hl1 la hb0 hla hhb0
      have h3 : lt y.1 hb0.1 = false :=
        sorted_head_le sw (b :: rest').flatten hrest hb0 y (by rw [head?_flatten_cons b rest' hb.1]; exact hhb0) hy
      exact sw.le_trans _ _ _ (sw.le_trans _ _ _ h1 h2) h3

theorem linked_of_index (lt : K → K → Bool) :
    ∀ bs : List (List (K × V)),
      (∀ i a b x y, bs[i]? = some a → bs[i + 1]? = some b → a.getLast? = some x → b.head? = some y → lt y.1 x.1 = false) →
      Linked lt bs := by
  intro bs
  induction bs with
  | nil => intro _; trivial
  | cons a rest ih =>
    intro h
    cases rest with
    | nil => trivial
    | cons b rest' =>
      refine ⟨fun x y hx hy => h 0 a b x y rfl rfl hx hy, ih ?_⟩
      intro i a' b' x y ha hb hx hy
      exact h (i + 1) a' b' x y (by simpa using ha) (by simpa using hb) hx hy

end TlxVerif.C01

namespace TlxVerif.C01
variable {K V : Type}

/-! ### the child loop of `verify_node`, read backwards -/

theorem verifyKids_conv (p : Params K) (rec : BNode K V → Option (K × K)) (l : Nat) (keys : List K) :
    ∀ (cs : List (BNode K V)) (slot : Nat) (mn : Option K) (a b : K),
      verifyKids p rec l keys cs slot mn = some (a, b) → cs.length + slot = keys.length + 1 →
      (∀ j c, cs[j]? = some c → c.level + 1 = l ∧ ∃ smin smax, rec c = some (smin, smax) ∧
          lowOk p keys smin (slot + j) = true ∧ (∀ k, keys[slot + j]? = some k → p.eqv k smax = true) ∧
          (slot + j = keys.length → b = smax) ∧ (slot + j = 0 → a = smin)) ∧
      (0 < slot → mn = some a) := by
  intro cs
  induction cs with
  | nil => intro slot mn a b hv _; simp [verifyKids] at hv
  | cons c cs ih =>
    intro slot mn a b hv hlen
    simp only [verifyKids] at hv
    by_cases hl : c.level + 1 ≠ l
    · rw [if_pos hl] at hv; cases hv
    · rw [if_neg hl] at hv
      have hl' : c.level + 1 = l := by omega
      cases hrec : rec c with
      | none => rw [hrec] at hv; cases hv
      | some mm =>
        obtain ⟨smin, smax⟩ := mm
        rw [hrec] at hv
        simp only at hv
        cases hlow : lowOk p keys smin slot with
        | false => rw [hlow] at hv; simp at hv
        | true =>
          rw [hlow] at hv
          simp only [Bool.not_true, Bool.false_eq_true, if_false] at hv
          by_cases hend : slot = keys.length
          · rw [if_pos hend] at hv
            have hcs : cs = [] := List.eq_nil_of_length_eq_zero (by simp only [List.length_cons] at hlen; omega)
            subst hcs
            have hab : b = smax ∧ (slot = 0 → a = smin) ∧ (0 < slot → mn = some a) := by
              by_cases h0 : slot = 0
              · rw [if_pos h0] at hv
                simp only [Option.map_some, Option.some.injEq, Prod.mk.injEq] at hv
                exact ⟨hv.2.symm, fun _ => hv.1.symm, fun h => by omega⟩
              · rw [if_neg h0] at hv
                cases mn with
                | none => simp at hv
                | some m =>
                  simp only [Option.map_some, Option.some.injEq, Prod.mk.injEq] at hv
                  exact ⟨hv.2.symm, fun h => absurd h h0, fun _ => by rw [hv.1]⟩
            refine ⟨?_, hab.2.2⟩
            intro j c' hj
            cases j with
            | succ j => simp at hj
            | zero =>
              simp only [List.getElem?_cons_zero, Option.some.injEq] at hj
              subst hj
              refine ⟨hl', smin, smax, hrec, hlow, ?_, fun _ => hab.1, fun h => hab.2.1 (by omega)⟩
              intro k hk
              rw [Nat.add_zero, hend, List.getElem?_eq_none (Nat.le_refl _)] at hk
              cases hk
          · rw [if_neg hend] at hv
            cases hk : keys[slot]? with
            | none => rw [hk] at hv; cases hv
            | some k =>
              rw [hk] at hv
              simp only at hv
              cases he : p.eqv k smax with
              | false => rw [he] at hv; simp at hv
              | true =>
                rw [he] at hv
                simp only [if_true] at hv
                obtain ⟨i1, i2⟩ := ih (slot + 1) _ a b hv (by simp only [List.length_cons] at hlen; omega)
                have i2' := i2 (by omega)
                constructor
                · intro j c' hj
                  cases j with
                  | zero =>
                    simp only [List.getElem?_cons_zero, Option.some.injEq] at hj
                    subst hj
                    refine ⟨hl', smin, smax, hrec, hlow, ?_, fun h => absurd h hend, ?_⟩
                    · intro k' hk'; rw [Nat.add_zero, hk] at hk'; cases hk'; exact he
                    · intro h0
                      have h0' : slot = 0 := by omega
                      rw [if_pos h0'] at i2'
                      exact (Option.some.inj i2').symm
                  | succ j =>
                    simp only [List.getElem?_cons_succ] at hj
                    obtain ⟨q1, smin', smax', q2, q3, q4, q5, q6⟩ := i1 j c' hj
                    have e : slot + 1 + j = slot + (j + 1) := by omega
                    rw [e] at q3 q4 q5 q6
                    exact ⟨q1, smin', smax', q2, q3, q4, q5, q6⟩
                · intro hpos
                  rw [if_neg (by omega)] at i2'
                  exact i2'

/-- what a passing `verify_node` establishes about a subtree -/
structure VOk (p : Params K) (isRoot : Bool) (h : Nat) (n : BNode K V) (mn mx : K) : Prop where
  shape : ShapeTop p (if isRoot then 1 else p.leafMin) (if isRoot then 1 else p.innerMin) h n
  sorted : SortedE p.lt (flatten h n)
  sep : SepOk p h n
  hd : ∃ e, (flatten h n).head? = some e ∧ e.1 = mn
  lst : ∃ e, (flatten h n).getLast? = some e ∧ e.1 = mx

end TlxVerif.C01

namespace TlxVerif.C01
variable {K V : Type}

/-- **`verify_node` read backwards**: when it returns `(minkey, maxkey)` on a representable subtree whose
`level` field matches its height, the subtree is well-shaped, ordered, has the right separators, and
`minkey` / `maxkey` are its first / last key -/
theorem verifyNode_conv (p : Params K) (sw : StrictWeak p.lt) :
    ∀ (h : Nat) (n : BNode K V) (isRoot : Bool) (a b : K),
      verifyNode p isRoot h n = some (a, b) → Rep p h n → n.level = h → VOk p isRoot h n a b := by
  intro h
  induction h with
  | zero =>
    intro n isRoot a b hv hrep hlev
    cases n with
    | inner l ks kids => simp [verifyNode] at hv
    | leaf es =>
      simp only [verifyNode] at hv
      split at hv
      · cases hv
      · rename_i c1
        split at hv
        · cases hv
        · rename_i c2
          split at hv
          · cases hv
          · rename_i c3
            simp only [Bool.not_eq_true, Bool.not_eq_false] at c1 c2 c3
            have hpos : 0 < es.length := by simpa using c2
            cases hhd : es.head? with
            | none => rw [hhd] at hv; simp at hv
            | some x =>
              cases hls : es.getLast? with
              | none => rw [hhd, hls] at hv; simp at hv
              | some y =>
                rw [hhd, hls] at hv
                simp only [Option.some.injEq, Prod.mk.injEq] at hv
                refine ⟨?_, sortedE_of_keys (sortedK_of_adjacentLe p sw _ (by simpa [flatten] using c3)), trivial, ⟨x, hhd, hv.1⟩, ⟨y, hls, hv.2⟩⟩
                simp only [ShapeTop]
                refine ⟨?_, hrep⟩
                cases isRoot
                · simpa using c1
                · simp only [if_true]; omega
  | succ h ih =>
    intro n isRoot a b hv hrep hlev
    cases n with
    | leaf es => simp [BNode.level] at hlev
    | inner l keys kids =>
      simp only [BNode.level] at hlev
      subst hlev
      obtain ⟨hmax, hkl, hkrep⟩ := hrep
      simp only [verifyNode] at hv
      split at hv
      · cases hv
      · rename_i c1
        split at hv
        · cases hv
        · rename_i c2
          split at hv
          · cases hv
          · rename_i c3
            simp only [Bool.not_eq_true, Bool.not_eq_false] at c1 c2 c3
            have hpos : 0 < keys.length := by simpa using c2
            obtain ⟨hk, _⟩ := verifyKids_conv p _ _ keys kids 0 none a b hv (by omega)
            -- per child
            have hkid : ∀ j c, kids[j]? = some c → ∃ smin smax, VOk p false h c smin smax ∧
                lowOk p keys smin j = true ∧ (∀ k, keys[j]? = some k → p.eqv k smax = true) ∧
                (j = keys.length → b = smax) ∧ (j = 0 → a = smin) := by
              intro j c hj
              obtain ⟨q1, smin, smax, q2, q3, q4, q5, q6⟩ := hk j c hj
              simp only [Nat.zero_add] at q3 q4 q5 q6
              exact ⟨smin, smax, ih c false smin smax q2 (hkrep c (List.mem_of_getElem? hj)) (by omega), q3, q4, q5, q6⟩
            have hmem : ∀ c ∈ kids, ∃ smin smax, VOk p false h c smin smax := by
              intro c hc
              obtain ⟨j, hj, rfl⟩ := List.mem_iff_getElem.mp hc
              obtain ⟨smin, smax, hv', _⟩ := hkid j _ (List.getElem?_eq_getElem hj)
              exact ⟨smin, smax, hv'⟩
            have hne : ∀ c ∈ kids, flatten h c ≠ [] := by
              intro c hc
              obtain ⟨_, _, hv'⟩ := hmem c hc
              obtain ⟨e, he, _⟩ := hv'.hd
              intro h0; rw [h0] at he; cases he
            refine ⟨?_, ?_, ?_, ?_, ?_⟩
            · -- shape
              simp only [ShapeTop]
              refine ⟨trivial, hkl, ?_, hmax, ?_⟩
              · cases isRoot
                · simpa using c1
                · simp only [if_true]; omega
              · intro c hc
                obtain ⟨_, _, hv'⟩ := hmem c hc
                exact ShapeTop.shape (by simpa using hv'.shape)
            · -- order
              simp only [flatten, List.flatMap_def]
              apply sorted_flatten p.lt sw
              · intro bl hbl
                obtain ⟨c, hc, rfl⟩ := List.mem_map.mp hbl
                obtain ⟨_, _, hv'⟩ := hmem c hc
                exact ⟨hne c hc, hv'.sorted⟩
              · apply linked_of_index
                intro i A B x y hA hB hx hy
                rw [List.getElem?_map] at hA hB
                cases hci : kids[i]? with
                | none => rw [hci] at hA; cases hA
                | some ci =>
                  cases hcj : kids[i + 1]? with
                  | none => rw [hcj] at hB; cases hB
                  | some cj =>
                    rw [hci] at hA; rw [hcj] at hB
                    simp only [Option.map_some, Option.some.injEq] at hA hB
                    subst hA; subst hB
                    obtain ⟨smin1, smax1, v1, _, e1, _, _⟩ := hkid i ci hci
                    obtain ⟨smin2, smax2, v2, l2, _, _, _⟩ := hkid (i + 1) cj hcj
                    have hi : i < keys.length := by
                      have := (List.getElem?_eq_some_iff.mp hcj).1; omega
                    have hki : keys[i]? = some keys[i] := List.getElem?_eq_getElem hi
                    have he := e1 _ hki
                    simp only [lowOk, hki, Bool.not_eq_true'] at l2
                    obtain ⟨ex, hex, hx1⟩ := v1.lst
                    obtain ⟨ey, hey, hy1⟩ := v2.hd
                    rw [hx] at hex; rw [hy] at hey
                    cases hex; cases hey
                    rw [hx1, hy1]
                    simp only [Params.eqv, Bool.and_eq_true, Bool.not_eq_true'] at he
                    exact sw.le_trans _ _ _ he.1 l2
            · -- separators
              refine ⟨?_, ?_⟩
              · intro i k c hki hci
                obtain ⟨smin, smax, v, _, e1, _, _⟩ := hkid i c hci
                obtain ⟨e, he, hx⟩ := v.lst
                exact ⟨e, he, by rw [hx]; exact e1 k hki⟩
              · intro c hc
                obtain ⟨_, _, hv'⟩ := hmem c hc
                exact hv'.sep
            · -- first key
              cases kids with
              | nil => simp at hkl
              | cons c0 rest =>
                obtain ⟨smin, smax, v, _, _, _, e0⟩ := hkid 0 c0 rfl
                obtain ⟨e, he, hx⟩ := v.hd
                refine ⟨e, ?_, by rw [hx, e0 rfl]⟩
                simp only [flatten]
                rw [head?_flatMap_cons _ _ _ (hne c0 List.mem_cons_self)]; exact he
            · -- last key
              rcases List.eq_nil_or_concat kids with h0 | ⟨init, cl, hcat⟩
              · rw [h0] at hkl; simp at hkl
              · rw [List.concat_eq_append] at hcat
                have hlen : init.length = keys.length := by
                  rw [hcat] at hkl; simp only [List.length_append, List.length_cons, List.length_nil] at hkl; omega
                have hget : kids[keys.length]? = some cl := by
                  rw [hcat, ← hlen]; exact List.getElem?_concat_length
                obtain ⟨smin, smax, v, _, _, e1, _⟩ := hkid keys.length cl hget
                obtain ⟨e, he, hx⟩ := v.lst
                refine ⟨e, ?_, by rw [hx, e1 rfl]⟩
                simp only [flatten]
                rw [hcat, getLast?_flatMap_concat _ _ _ (hne cl (by rw [hcat]; simp))]; exact he

end TlxVerif.C01
