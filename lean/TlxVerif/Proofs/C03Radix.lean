/-
C03 — the 8-bit radix step and the out-of-place 8-bit radix sorts.
-/
import TlxVerif.Model.C03Radix
import TlxVerif.Proofs.C03Scatter
namespace TlxVerif.C03

variable {α : Type} (str : α → Str)

/-! ### the distribution pass -/

theorem buckets_cons (R : Nat) (key : α → Nat) (x : α) (xs : List α) :
    buckets R key (x :: xs) = (buckets R key xs).modify (key x) (x :: ·) := by
  simp [buckets]

theorem buckets_size (R : Nat) (key : α → Nat) (ss : List α) : (buckets R key ss).size = R := by
  induction ss with
  | nil => simp [buckets]
  | cons x xs ih => rw [buckets_cons, Array.size_modify, ih]

theorem modify_flatten_perm {β : Type} (L : List (List β)) (i : Nat) (x : β) (h : i < L.length) :
    (L.modify i (x :: ·)).flatten.Perm (x :: L.flatten) := by
  induction L generalizing i with
  | nil => simp at h
  | cons a L ih =>
    rw [List.modify_cons]
    split
    · simp
    · rename_i hi
      simp only [List.flatten_cons]
      have := ih (i - 1) (by simp at h; omega)
      exact (List.Perm.append_left a this).trans List.perm_middle

theorem buckets_perm (R : Nat) (key : α → Nat) (ss : List α) (h : ∀ x ∈ ss, key x < R) :
    (buckets R key ss).toList.flatten.Perm ss := by
  induction ss with
  | nil =>
    simp only [buckets, List.foldr_nil, Array.toList_replicate]
    have : ∀ n, (List.replicate n ([] : List α)).flatten = [] := by
      intro n; induction n <;> simp [List.replicate_succ, *]
    rw [this]
  | cons x xs ih =>
    rw [buckets_cons, Array.toList_modify]
    have hx : key x < (buckets R key xs).toList.length := by
      rw [Array.length_toList, buckets_size]; exact h x (by simp)
    exact (modify_flatten_perm _ _ x hx).trans (List.Perm.cons x (ih fun y hy => h y (by simp [hy])))

theorem buckets_mem (R : Nat) (key : α → Nat) (ss : List α) (j : Nat) (b : List α)
    (h : (buckets R key ss).toList[j]? = some b) : ∀ y ∈ b, y ∈ ss ∧ key y = j := by
  induction ss generalizing b with
  | nil =>
    simp only [buckets, List.foldr_nil, Array.toList_replicate] at h
    rw [List.getElem?_replicate] at h
    split at h
    · simp at h; subst h; simp
    · simp at h
  | cons x xs ih =>
    rw [buckets_cons, Array.toList_modify, List.getElem?_modify] at h
    cases hb : (buckets R key xs).toList[j]? with
    | none => simp [hb] at h
    | some b' =>
      simp only [hb, Option.map_eq_map, Option.map_some, Option.some.injEq] at h
      have := ih b' hb
      intro y hy
      split at h
      · rename_i hk
        subst h
        rcases List.mem_cons.mp hy with e | hy
        · subst e; exact ⟨by simp, hk⟩
        · exact ⟨by simp [(this y hy).1], (this y hy).2⟩
      · subst h
        exact ⟨by simp [(this y hy).1], (this y hy).2⟩

/-! ### blocks of a step -/

def mkBlks (f : Nat → List α → List Nat → List α × List Nat) :
    Nat → List (List α) → List (List Nat) → List (Blk α)
  | k, b :: bs, v :: vs => ⟨b, v, f k b v⟩ :: mkBlks f (k + 1) bs vs
  | _, _, _ => []

theorem mapBuckets_go (f : Nat → List α → List Nat → List α × List Nat) (k : Nat)
    (bs : List (List α)) (vs : List (List Nat)) :
    ((bs.zip vs).zipIdx k).map (fun p => f p.2 p.1.1 p.1.2) = (mkBlks f k bs vs).map (·.r) := by
  induction bs generalizing k vs with
  | nil => simp [mkBlks]
  | cons b bs ih =>
    cases vs with
    | nil => simp [mkBlks]
    | cons v vs => simp [mkBlks, List.zipIdx_cons, ih]

theorem mapBuckets_eq (f : Nat → List α → List Nat → List α × List Nat)
    (bs : List (List α)) (vs : List (List Nat)) :
    mapBuckets bs vs f = ((mkBlks f 0 bs vs).flatMap (fun t => t.r.1), (mkBlks f 0 bs vs).flatMap (fun t => t.r.2)) := by
  unfold mapBuckets
  simp only [mapBuckets_go, List.flatMap_map]

theorem mkBlks_b (f : Nat → List α → List Nat → List α × List Nat) (k : Nat)
    (bs : List (List α)) (vs : List (List Nat)) (h : bs.length = vs.length) :
    (mkBlks f k bs vs).map (·.b) = bs ∧ (mkBlks f k bs vs).map (·.v) = vs := by
  induction bs generalizing k vs with
  | nil => cases vs <;> simp_all [mkBlks]
  | cons b bs ih =>
    cases vs with
    | nil => simp at h
    | cons v vs =>
      have := ih (k + 1) vs (by simpa using h)
      simp [mkBlks, this.1, this.2]

theorem mem_mkBlks (f : Nat → List α → List Nat → List α × List Nat) (k : Nat)
    (bs : List (List α)) (vs : List (List Nat)) (t : Blk α) (h : t ∈ mkBlks f k bs vs) :
    ∃ j, bs[j]? = some t.b ∧ vs[j]? = some t.v ∧ t.r = f (k + j) t.b t.v := by
  induction bs generalizing k vs with
  | nil => simp [mkBlks] at h
  | cons b bs ih =>
    cases vs with
    | nil => simp [mkBlks] at h
    | cons v vs =>
      simp only [mkBlks, List.mem_cons] at h
      rcases h with e | h
      · subst e; exact ⟨0, by simp⟩
      · obtain ⟨j, h1, h2, h3⟩ := ih (k + 1) vs h
        exact ⟨j + 1, by simpa using h1, by simpa using h2, by rw [h3]; congr 1; omega⟩

theorem splitBy_map_length {β : Type} (sizes : List Nat) (l : List β) (h : sizes.sum ≤ l.length) :
    (splitBy sizes l).map List.length = sizes := by
  induction sizes generalizing l with
  | nil => simp [splitBy]
  | cons s rest ih =>
    simp only [List.sum_cons] at h
    simp only [splitBy, List.map_cons, List.length_take]
    rw [ih (l.drop s) (by simp; omega)]
    congr 1
    omega

theorem flatten_length_sum {β : Type} (L : List (List β)) : L.flatten.length = (L.map List.length).sum := by
  induction L with
  | nil => simp
  | cons a L ih => simp [ih]

/-! ### characters at `depth` decide order and LCP between buckets -/

theorem key8_lt (d : Nat) (x y : α) (hy : (0 : UInt8) ∉ str y) (hcp : d ≤ lcp (str x) (str y))
    (h : key8 (str x) d < key8 (str y) d) : str x ≤ str y ∧ lcp (str x) (str y) = d := by
  apply charAt_lt_imp d _ _ hy hcp
  simpa [key8, UInt8.lt_iff_toNat_lt] using h

theorem key8_zero_iff (s : Str) (d : Nat) : key8 s d = 0 ↔ charAt s d = 0 := by
  simp [key8, ← UInt8.toNat_inj]

/-- strings of bucket 0 are all equal and share exactly `d` characters -/
theorem bucket0_eq (d : Nat) (b : List α) (hcp : CommonPrefix str d b) (hn : NulFree str b)
    (hk : ∀ y ∈ b, key8 (str y) d = 0) :
    ∀ x ∈ b, ∀ y ∈ b, str x = str y ∧ lcp (str x) (str y) = d := fun x hx y hy =>
  charAt_zero_imp d _ _ (hcp x hx y hy) ((key8_zero_iff _ _).mp (hk x hx)) ((key8_zero_iff _ _).mp (hk y hy))
    (hn x hx) (hn y hy)

/-- strings of a bucket `j ≥ 1` share `d + 1` characters -/
theorem bucket_deeper (d j : Nat) (b : List α) (hj : 1 ≤ j) (hcp : CommonPrefix str d b) (hn : NulFree str b)
    (hk : ∀ y ∈ b, key8 (str y) d = j) : CommonPrefix str (d + 1) b := fun x hx y hy => by
  apply charAt_eq_imp d _ _ (hcp x hx y hy) _ _ (hn x hx) (hn y hy)
  · have h1 := hk x hx
    have h2 := hk y hy
    simp only [key8] at h1 h2
    exact UInt8.toNat_inj.mp (by omega)
  · intro e
    have := (key8_zero_iff _ _).mpr e
    rw [hk x hx] at this
    omega

/-- a range of at most one string is sorted, and an LCP view of length ≤ 1 is already exact -/
theorem sortSpec_id_small (wl : Bool) (b : List α) (v : List Nat) (hb : b.length ≤ 1)
    (hv : wl = true → v.length = b.length) : SortSpec str wl b v (b, v) := by
  refine ⟨List.Perm.refl _, ?_, ?_⟩
  · unfold Sorted
    match b, hb with
    | [], _ => simp
    | [a], _ => simp
  · intro hw
    have := hv hw
    match b, hb with
    | [], _ => simp at this; simp [this, adjLcps]
    | [a], _ =>
      simp only [List.map_cons, List.map_nil, adjLcps, List.append_nil]
      rw [List.take_of_length_le (by simp at this; omega)]

/-- a range of equal strings with LCP `d`: already sorted; exact when filled with `d` -/
theorem sortSpec_id_equal (wl : Bool) (d : Nat) (b : List α) (v : List Nat)
    (heq : ∀ x ∈ b, ∀ y ∈ b, str x = str y ∧ lcp (str x) (str y) = d)
    (hv : wl = true → v = v.take 1 ++ List.replicate (b.length - 1) d) :
    SortSpec str wl b v (b, v) := by
  refine ⟨List.Perm.refl _, ?_, ?_⟩
  · unfold Sorted
    rw [List.pairwise_iff_forall_sublist]
    intro x y hs
    have hx : x ∈ b := hs.subset (by simp)
    have hy : y ∈ b := hs.subset (by simp)
    rw [(heq x hx y hy).1]
    exact List.le_refl _
  · intro hw
    have := hv hw
    rw [adjLcps_const (b.map str) d]
    · simpa using this
    · intro a ha c hc
      rw [List.mem_map] at ha hc
      obtain ⟨x, hx, e1⟩ := ha
      obtain ⟨y, hy, e2⟩ := hc
      rw [← e1, ← e2]
      exact (heq x hx y hy).2

/-! ### one 8-bit step -/

/-- **8-bit radix step.**  `bsL` are the 256 buckets of `ss` at depth `d` (a permutation of `ss`
cut by key), bucket 0 is final, `f` sorts every other bucket one character deeper. -/
theorem step8_spec (wl : Bool) (d : Nat) (ss : List α) (l : List Nat) (bsL : List (List α))
    (f : Nat → List α → List Nat → List α × List Nat)
    (hperm : bsL.flatten.Perm ss)
    (hne : bsL ≠ [])
    (hkey : ∀ j b, bsL[j]? = some b → ∀ y ∈ b, key8 (str y) d = j)
    (hpre : Pre str wl d ss l)
    (hf0 : ∀ b v, f 0 b v = (b, v))
    (hf : ∀ j b v, 1 ≤ j → bsL[j]? = some b → Pre str wl (d + 1) b v → SortSpec str wl b v (f j b v)) :
    SortSpec str wl ss l
      (mapBuckets bsL (splitBy (bsL.map List.length)
        (if wl then stepLcp8 (bsL.map List.length) ss.length d l else l)) f) := by
  obtain ⟨hcp, hnf, hll⟩ := hpre
  rw [mapBuckets_eq]
  generalize hvs : splitBy (bsL.map List.length) (if wl then stepLcp8 (bsL.map List.length) ss.length d l else l) = vs
  have hvlen : bsL.length = vs.length := by rw [← hvs, splitBy_length]; simp
  obtain ⟨hB, hV⟩ := mkBlks_b f 0 bsL vs hvlen
  generalize htl : mkBlks f 0 bsL vs = tl at hB hV
  have hsum : (bsL.map List.length).sum = ss.length := by
    rw [← flatten_length_sum]; exact hperm.length_eq
  have hmemss : ∀ j b, bsL[j]? = some b → ∀ y ∈ b, y ∈ ss := fun j b hb y hy =>
    hperm.mem_iff.mp (List.mem_flatten.mpr ⟨b, List.mem_of_getElem? hb, hy⟩)
  -- facts about the views in the LCP case
  have hviews : wl = true →
      vs.map List.length = bsL.map List.length ∧ vs.flatten.take 1 = l.take 1 ∧
      HeadsMarked d false (bsL.map List.length) vs ∧
      (∀ v0, vs[0]? = some v0 → ∀ b0, bsL[0]? = some b0 → v0 = v0.take 1 ++ List.replicate (b0.length - 1) d) := by
    intro hw
    have hl := hll hw
    subst hw
    simp only [if_true] at hvs
    cases hbs : bsL with
    | nil => exact absurd hbs hne
    | cons b0 brest =>
      rw [hbs] at hvs hsum
      simp only [List.map_cons] at hvs hsum ⊢
      rw [← hl] at hvs
      obtain ⟨tail, h1, h2, h3, h4⟩ := stepLcp8_chunks b0.length (brest.map List.length) d l (by rw [hl]; exact hsum.symm)
      rw [h1] at hvs
      subst hvs
      refine ⟨?_, ?_, ?_, ?_⟩
      · rw [← h1, splitBy_map_length]
        rw [h3, hl]; exact Nat.le_of_eq hsum
      · rw [← h1, splitBy_flatten _ _ (by rw [h3, hl]; exact Nat.le_of_eq hsum.symm), h4]
      · simp only [HeadsMarked]
        refine ⟨by simp, ?_⟩
        simpa using h2
      · intro v0 hv0 b0' hb0'
        simp only [List.getElem?_cons_zero, Option.some.injEq] at hv0 hb0'
        subst hv0; subst hb0'
        cases hb0 : b0.length with
        | zero => simp
        | succ m =>
          have : ((l.take (m + 1)).take 1).length ≤ 1 := by simp; omega
          cases hq : (l.take (m + 1)).take 1 with
          | nil =>
            exfalso
            have h5 : l = [] := by
              cases l with
              | nil => rfl
              | cons a as => simp at hq
            subst h5
            simp only [List.length_nil] at hl
            simp only [List.sum_cons] at hsum
            omega
          | cons a as =>
            have : as = [] := by
              rw [hq] at this
              simpa using this
            subst this
            simp
  -- every block is handled correctly
  have hok : ∀ t ∈ tl, BlkOk str wl t := by
    intro t ht
    rw [← htl] at ht
    obtain ⟨j, hj1, hj2, hj3⟩ := mem_mkBlks f 0 bsL vs t ht
    have hvl : wl = true → t.v.length = t.b.length := by
      intro hw
      have := (hviews hw).1
      have e1 : (vs.map List.length)[j]? = some t.v.length := by simp [hj2]
      have e2 : (bsL.map List.length)[j]? = some t.b.length := by simp [hj1]
      rw [this, e2] at e1
      simpa using e1.symm
    refine ⟨?_, hvl⟩
    have hbcp : CommonPrefix str d t.b := CommonPrefix.mono str hcp (hmemss j t.b hj1)
    have hbnf : NulFree str t.b := fun y hy => hnf y (hmemss j t.b hj1 y hy)
    rw [hj3]
    by_cases hj0 : j = 0
    · subst hj0
      simp only [Nat.add_zero, hf0]
      apply sortSpec_id_equal str wl d t.b t.v (bucket0_eq str d t.b hbcp hbnf (hkey 0 t.b hj1))
      intro hw
      exact (hviews hw).2.2.2 t.v hj2 t.b hj1
    · simp only [Nat.zero_add]
      apply hf j t.b t.v (by omega) hj1
      exact ⟨bucket_deeper str d j t.b (by omega) hbcp hbnf (hkey j t.b hj1), hbnf, hvl⟩
  -- blocks are in key order
  have hcross : tl.Pairwise fun t1 t2 => ∀ x ∈ t1.b, ∀ y ∈ t2.b, str x ≤ str y ∧ lcp (str x) (str y) = d := by
    have : bsL.Pairwise fun b1 b2 => ∀ x ∈ b1, ∀ y ∈ b2, str x ≤ str y ∧ lcp (str x) (str y) = d := by
      rw [List.pairwise_iff_getElem]
      intro i j hi hj hij x hx y hy
      have hbi : bsL[i]? = some bsL[i] := List.getElem?_eq_getElem hi
      have hbj : bsL[j]? = some bsL[j] := List.getElem?_eq_getElem hj
      apply key8_lt str d x y (hnf y (hmemss j _ hbj y hy)) (hcp x (hmemss i _ hbi x hx) y (hmemss j _ hbj y hy))
      rw [hkey i _ hbi x hx, hkey j _ hbj y hy]
      exact hij
    rw [← hB] at this
    exact List.pairwise_map.mp this
  have hm : wl = true → HeadsMarked d false (tl.map fun t => t.b.length) (tl.map fun t => t.v) := by
    intro hw
    have := (hviews hw).2.2.1
    rw [← hB, ← hV] at this
    simpa [List.map_map, Function.comp_def] using this
  have hfin := blocks_spec str wl d tl hok hcross hm
  have eb : (tl.flatMap fun t => t.b) = bsL.flatten := by
    rw [← hB, List.flatMap_def]
  have ev : (tl.flatMap fun t => t.v) = vs.flatten := by
    rw [← hV, List.flatMap_def]
  obtain ⟨f1, f2, f3⟩ := hfin
  refine ⟨f1.trans (by rw [eb]; exact hperm), f2, ?_⟩
  intro hw
  rw [f3 hw, ev, (hviews hw).2.1]

end TlxVerif.C03

namespace TlxVerif.C03

variable {α : Type} (str : α → Str)

/-- what the radix sorts need from multikey quicksort (proved in `C03Mkqs`) -/
def MkqsOk (c : Consts) (wl : Bool) : Prop :=
  ∀ d ss l mem, Pre str wl d ss l → SortSpec str wl ss l (multikeyQuicksort str c wl d ss l mem)

theorem key8_lt_256 (s : Str) (d : Nat) : key8 s d < 256 := by
  simp only [key8]; exact UInt8.toNat_lt _

theorem empty_of_short (wl : Bool) (d : Nat) (ss : List α) (l : List Nat) (hpre : Pre str wl d ss l)
    (h : ∀ x ∈ ss, (str x).length < d) : ss = [] := by
  cases ss with
  | nil => rfl
  | cons x xs =>
    have h1 := hpre.1 x (by simp) x (by simp)
    rw [lcp_self] at h1
    have := h x (by simp)
    omega

/-- `radixsort_CE0_loop` / `radixsort_CE2_loop`: correct for every input, every memory limit,
every stack level -/
theorem ce8Loop_spec (c : Consts) (wl : Bool) (step : Nat) (hM : MkqsOk str c wl) :
    ∀ fuel ss l d level mem, (∀ x ∈ ss, (str x).length < d + fuel) → Pre str wl d ss l →
      SortSpec str wl ss l (ce8Loop str c wl step fuel ss l d level mem) := by
  intro fuel
  induction fuel with
  | zero =>
    intro ss l d level mem hlen hpre
    have := empty_of_short str wl d ss l hpre (by simpa using hlen)
    subst this
    simp only [ce8Loop]
    exact sortSpec_id_small str wl [] l (by simp) hpre.2.2
  | succ fuel ih =>
    intro ss l d level mem hlen hpre
    simp only [ce8Loop]
    rw [scatterBuckets_eq 256 _ ss (fun x _ => key8_lt_256 _ _)]
    have hmem := buckets_mem 256 (fun x => key8 (str x) d) ss
    apply step8_spec str wl d ss l _ _
      (buckets_perm 256 _ ss (fun x _ => key8_lt_256 _ _))
      (by
        intro e
        have := congrArg List.length e
        rw [Array.length_toList, buckets_size] at this
        simp at this)
      (fun j b hb y hy => (hmem j b hb y hy).2)
      hpre
      (by intro b v; simp)
    intro j b v hj hb hpb
    have hj0 : ¬ j = 0 := by omega
    simp only [hj0, if_false]
    split
    · rename_i h0
      exact sortSpec_id_small str wl b v (by omega) hpb.2.2
    · split
      · exact insertionSort_spec str wl (d + 1) b v hpb
      · split
        · exact hM (d + 1) b v _ hpb
        · apply ih b v (d + 1) (level + 1) mem _ hpb
          intro x hx
          have := hlen x (hmem j b hb x hx).1
          omega

theorem le_foldl_max (l : List Nat) (init x : Nat) (h : x ∈ l ∨ x ≤ init) : x ≤ l.foldl max init := by
  induction l generalizing init with
  | nil =>
    rcases h with h | h
    · simp at h
    · simpa using h
  | cons a as ih =>
    simp only [List.foldl_cons]
    apply ih
    rcases h with h | h
    · rcases List.mem_cons.mp h with e | h
      · right; subst e; exact Nat.le_max_right _ _
      · left; exact h
    · right; exact Nat.le_trans h (Nat.le_max_left _ _)

theorem radixFuel_enough (ss : List α) (d : Nat) : ∀ x ∈ ss, (str x).length < d + radixFuel str ss := by
  intro x hx
  unfold radixFuel
  have := le_foldl_max (ss.map fun x => (str x).length) 0 (str x).length
    (Or.inl (List.mem_map.mpr ⟨x, hx, rfl⟩))
  omega

/-- `radixsort_CE0` (all three branches) -/
theorem radixsortCE0_spec (c : Consts) (wl : Bool) (hM : MkqsOk str c wl)
    (d : Nat) (ss : List α) (l : List Nat) (mem : Nat) (hpre : Pre str wl d ss l) :
    SortSpec str wl ss l (radixsortCE0 str c wl d ss l mem) := by
  unfold radixsortCE0
  split
  · exact insertionSort_spec str wl d ss l hpre
  · simp only
    split
    · exact hM d ss l mem hpre
    · exact ce8Loop_spec str c wl _ hM _ ss l d 1 _ (radixFuel_enough str ss d) hpre

end TlxVerif.C03
