/-
C04 — auxiliary facts for the sample sort step: lower bounds in sorted splitter lists, keys
between two splitters, the LCP walk never fails.
-/
import TlxVerif.Proofs.C04Build2
import TlxVerif.Proofs.C04Ins
namespace TlxVerif.C04
variable {af : Bool}

/-- in a sorted list everything before the lower bound of `k` is below `k` -/
theorem lowerBound_gt : ∀ (S : List Key), S.Pairwise (fun a b => a ≤ b) → ∀ (i : Nat) (k : Key),
    i < lowerBound S k → ∃ x, S[i]? = some x ∧ x < k
  | [], _, i, k, h => by simp [lowerBound] at h
  | s :: S, hs, i, k, h => by
    rw [List.pairwise_cons] at hs
    by_cases hsk : s < k
    · cases i with
      | zero => exact ⟨s, rfl, hsk⟩
      | succ i =>
        simp only [lowerBound, List.countP_cons, hsk, decide_true, if_true] at h
        have := lowerBound_gt S hs.2 i k (by unfold lowerBound; omega)
        simpa using this
    · -- nothing in the list is below k
      exfalso
      have : (s :: S).countP (fun x => decide (x < k)) = 0 := by
        rw [List.countP_eq_zero]
        intro x hx
        simp only [decide_eq_true_eq]
        rcases List.mem_cons.1 hx with rfl | hx'
        · exact hsk
        · have := hs.1 x hx'
          rw [BitVec.le_def] at this; rw [BitVec.lt_def] at hsk ⊢; omega
      unfold lowerBound at h; omega

/-- keys between two others share the common prefix of the two -/
theorem lcpKeyType_between {a k b : Key} (h1 : a ≤ k) (h2 : k ≤ b) : lcpKeyType a b ≤ lcpKeyType a k := by
  have hle := lcpKeyType_le a b
  rw [lcpKeyType_ge_iff a k _ hle]
  have := (lcpKeyType_ge_iff a b _ hle).1 (Nat.le_refl _)
  rw [BitVec.le_def] at h1 h2
  have e1 := Nat.div_le_div_right (c := 2 ^ (64 - 8 * lcpKeyType a b)) h1
  have e2 := Nat.div_le_div_right (c := 2 ^ (64 - 8 * lcpKeyType a b)) h2
  omega

/-- the LCP walk succeeds on well-formed buckets -/
theorem lcpPassGo_ok (c : Classifier) (useCalc : Bool) (p : Str) :
    ∀ (rs : List Res) (b : Nat) (P : List Str) (w : LcpWalk),
      BucketsOk (splOf c useCalc) p b rs →
      ∃ w', lcpPassGo c useCalc (P ++ (rs.map (·.out)).flatten) p.length w b
          (boundsFrom P.length (rs.map (·.out.length))) = .ok w' := by
  intro rs
  induction rs with
  | nil => intro b P w _; exact ⟨w, by simp [boundsFrom, lcpPassGo, pure, Except.pure]⟩
  | cons r rs ih =>
    intro b P w hb
    obtain ⟨hrange, hodd, hrok, _, _, hrest⟩ := hb
    simp only [List.map_cons, List.flatten_cons]
    rw [boundsFrom, boundsFrom_cons]
    simp only [lcpPassGo, bind, Except.bind]
    by_cases hempty : r.out = []
    · simp only [hempty, List.length_nil, Nat.add_zero, List.nil_append]
      have hb0 : lcpPassBucket c useCalc (P ++ (rs.map (·.out)).flatten) p.length w b P.length P.length = .ok w := by
        simp [lcpPassBucket, pure, Except.pure]
      rw [hb0, ← boundsFrom_cons]
      exact ih (b + 1) P w hrest
    · have hpos : 0 < r.out.length := List.length_pos_iff.2 hempty
      obtain ⟨x, hx⟩ : ∃ x, r.out[0]? = some x := ⟨r.out[0], List.getElem?_eq_getElem hpos⟩
      obtain ⟨y, hy⟩ : ∃ y, r.out[r.out.length - 1]? = some y :=
        ⟨r.out[r.out.length - 1], List.getElem?_eq_getElem (by omega)⟩
      obtain ⟨k1, hk1⟩ := getKey_of_inRange (hrange x (List.mem_of_getElem? hx))
      obtain ⟨k2, hk2⟩ := getKey_of_inRange (hrange y (List.mem_of_getElem? hy))
      obtain ⟨ksp, hsp⟩ : ∃ ksp, (b % 2 = 1 → splOf c useCalc (b / 2) = some ksp) := by
        by_cases hbo : b % 2 = 1
        · obtain ⟨k, hk, _⟩ := hodd hbo; exact ⟨k, fun _ => hk⟩
        · exact ⟨0, fun h => absurd h hbo⟩
      have hout1 : (P ++ (r.out ++ (rs.map (·.out)).flatten))[P.length]? = some x := by
        rw [List.getElem?_append_right (Nat.le_refl _), Nat.sub_self, List.getElem?_append_left hpos]; exact hx
      have hout2 : (P ++ (r.out ++ (rs.map (·.out)).flatten))[P.length + r.out.length - 1]? = some y := by
        rw [List.getElem?_append_right (by omega), List.getElem?_append_left (by omega)]
        have : P.length + r.out.length - 1 - P.length = r.out.length - 1 := by omega
        rw [this]; exact hy
      rw [lcpPassBucket_nonempty c useCalc _ p.length w b P.length (P.length + r.out.length) (by omega) hout1 hk1 hout2 hk2 hsp]
      simp only
      rw [← boundsFrom_cons]
      have hassoc : P ++ (r.out ++ (rs.map (·.out)).flatten) = (P ++ r.out) ++ (rs.map (·.out)).flatten := by simp
      have hlen' : P.length + r.out.length = (P ++ r.out).length := by simp
      rw [hassoc, hlen']
      exact ih (b + 1) (P ++ r.out) _ hrest

/-- **Step lemma, total form**: the LCP pass succeeds and leaves the range sorted with exact LCPs -/
theorem lcpPass_safe (c : Classifier) (useCalc : Bool) (p : Str) (rs : List Res)
    (hb : BucketsOk (splOf c useCalc) p 0 rs) :
    Safe af (lcpPass c useCalc (rs.map (·.out)).flatten (rs.map (·.lcp)).flatten p.length
          (boundsOf (rs.map (·.out.length))))
      (fun l => lcpOk (rs.map (·.out)).flatten l ∧ (rs.map (·.out)).flatten.Pairwise (fun a b => strLe a b = true)) := by
  obtain ⟨w', hw⟩ := lcpPassGo_ok c useCalc p rs 0 [] { prev := none, lcp := (rs.map (·.lcp)).flatten } hb
  have hrun : lcpPass c useCalc (rs.map (·.out)).flatten (rs.map (·.lcp)).flatten p.length
      (boundsOf (rs.map (·.out.length))) = .ok w'.lcp := by
    unfold lcpPass
    rw [boundsOf_eq]
    simp only [List.nil_append, List.length_nil] at hw
    simp only [bind, Except.bind, hw, pure, Except.pure]
  rw [hrun]
  exact lcpPass_good c useCalc p rs hb hrun

end TlxVerif.C04
