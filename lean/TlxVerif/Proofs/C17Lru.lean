import TlxVerif.Model.C17Lru
/-! Reference LRU list (oldest entry first) and the lemmas relating the model's `list_`/`map_`
operations to it. -/
namespace TlxVerif.C17

variable {K V : Type} [DecidableEq K]

/-- the reference: entries ordered by their last put/touch, OLDEST FIRST -/
abbrev Ref (K V : Type) := List (K × V)

def Ref.drop (k : K) (r : Ref K V) : Ref K V := r.filter (fun e => e.1 ≠ k)
def Ref.find (k : K) (r : Ref K V) : Option (K × V) := r.find? (fun e => e.1 = k)
def Ref.has (k : K) (r : Ref K V) : Bool := r.any (fun e => e.1 = k)

/-- the model's two components describe one container -/
structure Lru.Consistent (c : Lru K V) : Prop where
  nodupList : (c.list.map (·.1)).Nodup
  nodupKeys : c.keys.Nodup
  sameKeys : ∀ k, k ∈ c.keys ↔ k ∈ c.list.map (·.1)

theorem eraseKey_eq_filter (k : K) (l : List (K × V)) (h : (l.map (·.1)).Nodup) :
    eraseKey k l = l.filter (fun e => e.1 ≠ k) := by
  induction l with
  | nil => rfl
  | cons e rest ih =>
    simp only [List.map_cons, List.nodup_cons] at h
    simp only [eraseKey]
    split
    · rename_i hk
      subst hk
      simp only [ne_eq, not_true_eq_false, decide_false, List.filter_cons_of_neg, Bool.false_eq_true, not_false_eq_true]
      symm
      rw [List.filter_eq_self]
      intro a ha
      have : a.1 ≠ e.1 := by
        intro heq; exact h.1 (by rw [← heq]; exact List.mem_map_of_mem ha)
      simpa using this
    · rename_i hk
      simp [hk, ih h.2]

theorem findKey_eq_find (k : K) (l : List (K × V)) : findKey k l = l.find? (fun e => e.1 = k) := by
  induction l with
  | nil => rfl
  | cons e rest ih =>
    simp only [findKey, List.find?_cons]
    by_cases h : e.1 = k <;> simp [h, ih]

/-- with distinct keys, `find?` by key is characterised by membership -/
theorem find_key_iff (k : K) (l : List (K × V)) (h : (l.map (·.1)).Nodup) (e : K × V) :
    l.find? (fun e => e.1 = k) = some e ↔ e ∈ l ∧ e.1 = k := by
  induction l with
  | nil => simp
  | cons a rest ih =>
    simp only [List.map_cons, List.nodup_cons] at h
    simp only [List.find?_cons]
    by_cases ha : a.1 = k
    · simp only [ha, decide_true, Option.some.injEq, List.mem_cons]
      constructor
      · rintro rfl; exact ⟨Or.inl rfl, ha⟩
      · rintro ⟨h1 | h1, h2⟩
        · exact h1.symm
        · exfalso; apply h.1; rw [ha, ← h2]; exact List.mem_map_of_mem h1
    · simp only [ha, decide_false, List.mem_cons]
      rw [ih h.2]
      constructor
      · rintro ⟨h1, h2⟩; exact ⟨Or.inr h1, h2⟩
      · rintro ⟨h1 | h1, h2⟩
        · subst h1; exact absurd h2 ha
        · exact ⟨h1, h2⟩

theorem find_reverse (k : K) (l : List (K × V)) (h : (l.map (·.1)).Nodup) :
    l.reverse.find? (fun e => e.1 = k) = l.find? (fun e => e.1 = k) := by
  have hr : (l.reverse.map (·.1)).Nodup := by
    rw [List.map_reverse]; exact (List.reverse_perm _).nodup_iff.mpr h
  cases h1 : l.find? (fun e => e.1 = k) with
  | some e =>
    rw [find_key_iff k _ hr]
    have := (find_key_iff k l h e).mp h1
    simpa using this
  | none =>
    rw [List.find?_eq_none] at h1 ⊢
    intro x hx; exact h1 x (by simpa using hx)

theorem mem_keys_iff_find (c : Lru K V) (hc : c.Consistent) (k : K) :
    k ∈ c.keys ↔ ∃ e, c.list.find? (fun e => e.1 = k) = some e := by
  rw [hc.sameKeys]
  constructor
  · intro h
    obtain ⟨e, he, rfl⟩ := List.mem_map.mp h
    exact ⟨e, (find_key_iff _ _ hc.nodupList e).mpr ⟨he, rfl⟩⟩
  · rintro ⟨e, he⟩
    obtain ⟨h1, h2⟩ := (find_key_iff _ _ hc.nodupList e).mp he
    exact List.mem_map.mpr ⟨e, h1, h2⟩

theorem nodup_filter_keys (k : K) (l : List (K × V)) (h : (l.map (·.1)).Nodup) :
    ((l.filter (fun e => e.1 ≠ k)).map (·.1)).Nodup := by
  induction l with
  | nil => simp
  | cons a rest ih =>
    simp only [List.map_cons, List.nodup_cons] at h
    by_cases ha : a.1 = k
    · simpa [ha] using ih h.2
    · simp only [ne_eq, ha, not_false_eq_true, decide_true, List.filter_cons_of_pos, List.map_cons, List.nodup_cons]
      refine ⟨?_, ih h.2⟩
      intro hm
      apply h.1
      obtain ⟨e, he, heq⟩ := List.mem_map.mp hm
      exact List.mem_map.mpr ⟨e, (List.mem_filter.mp he).1, heq⟩

theorem mem_filter_keys (k k' : K) (l : List (K × V)) :
    k' ∈ (l.filter (fun e => e.1 ≠ k)).map (·.1) ↔ k' ∈ l.map (·.1) ∧ k' ≠ k := by
  simp only [List.mem_map, List.mem_filter]
  constructor
  · rintro ⟨e, ⟨h1, h2⟩, rfl⟩; exact ⟨⟨e, h1, rfl⟩, by simpa using h2⟩
  · rintro ⟨⟨e, h1, rfl⟩, h2⟩; exact ⟨e, ⟨h1, by simpa using h2⟩, rfl⟩

end TlxVerif.C17
