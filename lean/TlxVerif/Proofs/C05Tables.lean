/-
Checks on the generated 3- and 4-way merge machines (`Gen/C05MergeTables.lean`).

`tableOK M` is a Boolean function evaluated by `decide` in `Props/C05.lean`.  It says
  * every comparison `seq_l OP seq_r` in the entry tree, in `TLX_DECISION` and in every row
    uses `<=` exactly when `l < r` (and `l ≠ r`): that is what the stable order (key, then
    sequence index) requires, and it makes every test answer "is `l` strictly before `r`";
  * whatever strict total order `b` the heads are in (all of them are enumerated), the entry tree
    jumps to the label listing the sequences in `b`-order, and from a label whose tail is still in
    `b`-order (only the first sequence advanced) the `if … goto` chain jumps to the label in
    `b`-order; every label jumped to is defined.
`Proofs/C05Machine.lean` turns this into: the machines perform stable runs.
-/
import TlxVerif.Model.C05Merge
namespace TlxVerif.C05

/-- `<=` exactly when the left sequence has the smaller index -/
def ruleOK (l : Nat) (o : Op) (r : Nat) : Bool :=
  decide (l ≠ r) && (decide (o = Op.le) == decide (l < r))

def bodyRuleOK (args : List Nat) (ops : List Op) (tests : List Test) : Bool :=
  tests.all fun t =>
    match args[t.lhs]?, args[t.rhs]?, opOf ops t.op with
    | some l, some r, some o => ruleOK l o r
    | _, _, _ => false

def treeRuleOK (M : Machine) : DTree → Bool
  | .goto _ => true
  | .decision args => args.all (· < M.n) && bodyRuleOK args [] M.decision.tests
  | .ite l o r t e => decide (l < M.n) && decide (r < M.n) && ruleOK l o r && treeRuleOK M t && treeRuleOK M e

/-- the `if … goto` chain with every test answered by the oracle `b` -/
def evalBodyO (b : Nat → Nat → Bool) (args : List Nat) : List Test → List Nat → Option (List Nat)
  | [], dflt => dflt.mapM (args[·]?)
  | t :: ts, dflt => do
    let l ← args[t.lhs]?
    let r ← args[t.rhs]?
    if b l r then t.target.mapM (args[·]?) else evalBodyO b args ts dflt

def evalTreeO (b : Nat → Nat → Bool) (M : Machine) : DTree → Option (List Nat)
  | .goto p => some p
  | .decision args => evalBodyO b args M.decision.tests M.decision.dflt
  | .ite l _ r t e => if b l r then evalTreeO b M t else evalTreeO b M e

def sortedO (b : Nat → Nat → Bool) : List Nat → Bool
  | [] => true
  | x :: rest => rest.all (b x ·) && sortedO b rest

def isPerm (n : Nat) (st : List Nat) : Bool :=
  st.length == n && st.all (· < n) && decide st.Nodup && (List.range n).all (st.contains ·)

/-- the index pairs `i < j < n` -/
def pairs (n : Nat) : List (Nat × Nat) :=
  (List.range n).flatMap fun i => ((List.range n).filter (i < ·)).map (i, ·)

/-- the antisymmetric relation given by one bit per pair `i < j` -/
def oracleOf (n : Nat) (bits : List Bool) (i j : Nat) : Bool :=
  if i < j then (bits[(pairs n).idxOf (i, j)]?).getD false
  else if j < i then !((bits[(pairs n).idxOf (j, i)]?).getD false)
  else false

def isTransO (n : Nat) (b : Nat → Nat → Bool) : Bool :=
  (List.range n).all fun i => (List.range n).all fun j => (List.range n).all fun k =>
    !(b i j && b j k) || b i k

def allBits : Nat → List (List Bool)
  | 0 => [[]]
  | k + 1 => (allBits k).flatMap fun l => [false :: l, true :: l]

def goodState (M : Machine) (b : Nat → Nat → Bool) (st : List Nat) : Bool :=
  isPerm M.n st && sortedO b st && M.rows.any (·.perm == st)

def tableOK (M : Machine) : Bool :=
  M.emitOK && M.finishOK && decide (1 ≤ M.n) && treeRuleOK M M.entry &&
  decide (M.rows.map (·.perm)).Nodup &&
  M.rows.all (fun row => isPerm M.n row.perm && bodyRuleOK row.perm row.ops M.body.tests) &&
  (allBits (pairs M.n).length).all fun bits =>
    let b := oracleOf M.n bits
    !isTransO M.n b ||
      ((match evalTreeO b M M.entry with
        | some st => goodState M b st
        | none => false) &&
       M.rows.all fun row =>
         !sortedO b row.perm.tail ||
           (match evalBodyO b row.perm M.body.tests M.body.dflt with
            | some st => goodState M b st
            | none => false))

end TlxVerif.C05
