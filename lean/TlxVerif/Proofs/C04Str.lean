/-
C04 — strings, their 8-byte windows and the order / LCP facts the sample sort relies on.
All strings are NUL-free: a zero byte in a window can only be padding behind the end of
the string.
-/
import TlxVerif.Proofs.C04Key
namespace TlxVerif.C04

theorem nulFree_tail {c : UInt8} {cs : Str} (h : nulFree (c :: cs)) : nulFree cs :=
  fun x hx => h x (List.mem_cons_of_mem _ hx)

theorem nulFree_head {c : UInt8} {cs : Str} (h : nulFree (c :: cs)) : c ≠ 0 := h c (by simp)

theorem zero_lt_of_ne {c : UInt8} (h : c ≠ 0) : (0 : UInt8) < c := by
  rw [UInt8.lt_iff_toNat_lt]
  have : c.toNat ≠ 0 := fun e => h (UInt8.toNat_inj.1 (by simpa using e))
  simp; omega

theorem not_lt_zero (c : UInt8) : ¬ c < 0 := by
  rw [UInt8.lt_iff_toNat_lt]; simp

/-- strict lexicographic order of the windows implies strict order of the strings -/
theorem lexLt_pad : ∀ (k : Nat) (a b : Str), nulFree a → nulFree b → lexLt (pad a k) (pad b k) = true →
    strLe a b = true ∧ a ≠ b
  | 0, a, b, _, _, h => by simp [pad_zero, lexLt] at h
  | k + 1, [], [], _, _, h => by
    simp only [pad_nil, List.replicate_succ, lexLt] at h
    have := lexLt_pad k [] [] (by intro x hx; simp at hx) (by intro x hx; simp at hx)
    simp only [UInt8.lt_irrefl, if_false] at h
    simp [pad_nil] at this
    exact absurd h (by
      intro h'
      have : ∀ n, lexLt (List.replicate n (0 : UInt8)) (List.replicate n 0) = false := by
        intro n; induction n with
        | zero => rfl
        | succ n ih => simp [List.replicate_succ, lexLt, ih]
      rw [this k] at h'; cases h')
  | k + 1, [], b :: bs, _, _, _ => by simp [strLe]
  | k + 1, a :: as, [], ha, _, h => by
    simp only [pad_cons, pad_nil, List.replicate_succ, lexLt] at h
    have h0 := zero_lt_of_ne (nulFree_head ha)
    have h1 := not_lt_zero a
    simp [h1, h0] at h
  | k + 1, a :: as, b :: bs, ha, hb, h => by
    simp only [pad_cons, lexLt] at h
    simp only [strLe]
    by_cases hab : a < b
    · simp only [hab, if_true, true_and]
      intro e; cases e; exact absurd hab (UInt8.lt_irrefl _)
    · by_cases hba : b < a
      · simp [hab, hba] at h
      · simp only [hab, hba, if_false] at h ⊢
        have := lexLt_pad k as bs (nulFree_tail ha) (nulFree_tail hb) h
        refine ⟨this.1, ?_⟩
        intro e; cases e; exact this.2 rfl

/-- windows that differ tell the LCP of the strings -/
theorem lcp_pad : ∀ (k : Nat) (a b : Str), nulFree a → nulFree b → pad a k ≠ pad b k →
    lcp a b = lcp (pad a k) (pad b k)
  | 0, a, b, _, _, h => by simp [pad_zero] at h
  | k + 1, [], [], _, _, h => by simp at h
  | k + 1, [], b :: bs, _, hb, _ => by
    have : (0 : UInt8) ≠ b := fun e => nulFree_head hb e.symm
    simp [pad_nil, pad_cons, List.replicate_succ, lcp, this]
  | k + 1, a :: as, [], ha, _, _ => by
    have : a ≠ 0 := nulFree_head ha
    simp [pad_nil, pad_cons, List.replicate_succ, lcp, this]
  | k + 1, a :: as, b :: bs, ha, hb, h => by
    simp only [pad_cons, lcp]
    by_cases hab : a = b
    · subst hab
      simp only [if_true, Nat.add_right_cancel_iff]
      apply lcp_pad k as bs (nulFree_tail ha) (nulFree_tail hb)
      intro e; apply h; simp [pad_cons, e]
    · simp [hab]

/-- equal windows: the strings agree on the window; a string that ends inside the window is
equal to the other one -/
theorem pad_eq : ∀ (k : Nat) (a b : Str), nulFree a → nulFree b → pad a k = pad b k →
    a.take k = b.take k ∧ (a.length < k → a = b)
  | 0, a, b, _, _, _ => by simp
  | k + 1, [], [], _, _, _ => by simp
  | k + 1, [], b :: bs, _, hb, h => by
    simp only [pad_nil, pad_cons, List.replicate_succ, List.cons.injEq] at h
    exact absurd h.1.symm (nulFree_head hb)
  | k + 1, a :: as, [], ha, _, h => by
    simp only [pad_nil, pad_cons, List.replicate_succ, List.cons.injEq] at h
    exact absurd h.1 (nulFree_head ha)
  | k + 1, a :: as, b :: bs, ha, hb, h => by
    simp only [pad_cons, List.cons.injEq] at h
    have := pad_eq k as bs (nulFree_tail ha) (nulFree_tail hb) h.2
    simp only [List.take_succ_cons, List.cons.injEq, List.length_cons, Nat.add_lt_add_iff_right]
    exact ⟨⟨h.1, this.1⟩, fun hl => ⟨h.1, this.2 hl⟩⟩

/-- the last byte of the window is zero exactly when the string ends inside the window -/
theorem pad_last_zero : ∀ (k : Nat) (a : Str), nulFree a → ((pad a (k + 1)).getD k 0 = 0 ↔ a.length ≤ k)
  | 0, [], _ => by simp [pad_nil]
  | 0, a :: as, ha => by
    simp only [pad_cons, pad_zero, List.getD_cons_zero, List.length_cons]
    constructor
    · intro h; exact absurd h (nulFree_head ha)
    · intro h; omega
  | k + 1, [], _ => by simp [pad_nil]
  | k + 1, a :: as, ha => by
    simp only [pad_cons, List.getD_cons_succ, List.length_cons, Nat.add_le_add_iff_right]
    exact pad_last_zero k as (nulFree_tail ha)

/-! ### prefixes -/

theorem strLe_append (p : Str) (a b : Str) : strLe (p ++ a) (p ++ b) = strLe a b := by
  induction p with
  | nil => rfl
  | cons c cs ih => simp [strLe, UInt8.lt_irrefl, ih]

theorem lcp_append (p : Str) (a b : Str) : lcp (p ++ a) (p ++ b) = p.length + lcp a b := by
  induction p with
  | nil => simp
  | cons c cs ih => simp [lcp, ih]; omega

theorem nulFree_append_right {p a : Str} (h : nulFree (p ++ a)) : nulFree a :=
  fun x hx => h x (List.mem_append_right _ hx)

/-- The facts about two strings of one sort range: they share the first `depth` bytes; `ka`,
`kb` are their keys at `depth`. -/
theorem key_lt_imp {p a b : Str} {ka kb : Key} (ha : nulFree (p ++ a)) (hb : nulFree (p ++ b))
    (hka : getKey? (p ++ a) p.length = some ka) (hkb : getKey? (p ++ b) p.length = some kb) (hlt : ka < kb) :
    strLe (p ++ a) (p ++ b) = true ∧ p ++ a ≠ p ++ b := by
  have e1 := getKey_toNat hka
  have e2 := getKey_toNat hkb
  simp only [List.drop_left] at e1 e2
  have : packNat (pad a 8) < packNat (pad b 8) := by rw [← e1, ← e2]; exact BitVec.lt_def.1 hlt
  have hl := (packNat_lt_iff _ _ (by simp [pad_length])).1 this
  have := lexLt_pad 8 a b (nulFree_append_right ha) (nulFree_append_right hb) hl
  rw [strLe_append]
  exact ⟨this.1, fun e => this.2 (List.append_cancel_left e)⟩

/-- different keys: the LCP of the strings is `depth + lcpKeyType` -/
theorem key_ne_lcp {p a b : Str} {ka kb : Key} (ha : nulFree (p ++ a)) (hb : nulFree (p ++ b))
    (hka : getKey? (p ++ a) p.length = some ka) (hkb : getKey? (p ++ b) p.length = some kb) (hne : ka ≠ kb) :
    lcp (p ++ a) (p ++ b) = p.length + lcpKeyType ka kb := by
  have e1 := getKey_toNat hka
  have e2 := getKey_toNat hkb
  simp only [List.drop_left] at e1 e2
  have hpne : pad a 8 ≠ pad b 8 := by
    intro e; apply hne; apply BitVec.eq_of_toNat_eq; rw [e1, e2, e]
  rw [lcp_append, lcp_pad 8 a b (nulFree_append_right ha) (nulFree_append_right hb) hpne,
    lcpKeyType_eq_lcp e1 e2 (pad_length _ _) (pad_length _ _)]

/-- equal keys whose last byte is a character: the strings share `depth + 8` bytes -/
theorem key_eq_deeper {p a b : Str} {k : Key} (ha : nulFree (p ++ a)) (hb : nulFree (p ++ b))
    (hka : getKey? (p ++ a) p.length = some k) (hkb : getKey? (p ++ b) p.length = some k) (hlow : lowByte k ≠ 0) :
    a.take 8 = b.take 8 ∧ 8 ≤ a.length ∧ 8 ≤ b.length := by
  have e1 := getKey_toNat hka
  have e2 := getKey_toNat hkb
  simp only [List.drop_left] at e1 e2
  have hpe : pad a 8 = pad b 8 := packNat_inj _ _ (by simp [pad_length]) (by rw [← e1, ← e2])
  have h1 := lowByte_eq e1 (pad_length _ _)
  have h2 := lowByte_eq e2 (pad_length _ _)
  have na := nulFree_append_right ha
  have nb := nulFree_append_right hb
  refine ⟨(pad_eq 8 a b na nb hpe).1, ?_, ?_⟩
  · rcases Nat.lt_or_ge a.length 8 with hl | hl
    · exfalso; apply hlow; rw [h1]
      have := (pad_last_zero 7 a na).2 (by omega)
      rw [this]; rfl
    · exact hl
  · rcases Nat.lt_or_ge b.length 8 with hl | hl
    · exfalso; apply hlow; rw [h2]
      have := (pad_last_zero 7 b nb).2 (by omega)
      rw [this]; rfl
    · exact hl

/-- equal keys that contain the terminator: the strings are equal -/
theorem key_eq_done {p a b : Str} {k : Key} (ha : nulFree (p ++ a)) (hb : nulFree (p ++ b))
    (hka : getKey? (p ++ a) p.length = some k) (hkb : getKey? (p ++ b) p.length = some k) (hlow : lowByte k = 0) :
    p ++ a = p ++ b ∧ a.length < 8 := by
  have e1 := getKey_toNat hka
  have e2 := getKey_toNat hkb
  simp only [List.drop_left] at e1 e2
  have hpe : pad a 8 = pad b 8 := packNat_inj _ _ (by simp [pad_length]) (by rw [← e1, ← e2])
  have h1 := lowByte_eq e1 (pad_length _ _)
  have na := nulFree_append_right ha
  have nb := nulFree_append_right hb
  have hlen : a.length ≤ 7 := by
    apply (pad_last_zero 7 a na).1
    rw [hlow] at h1
    exact UInt8.toNat_inj.1 (by simpa using h1.symm)
  exact ⟨by rw [(pad_eq 8 a b na nb hpe).2 (by omega)], by omega⟩

end TlxVerif.C04
