/-
C06 — parallel mergesort: slices tile the input, the local sorts are stable sorts, and the concatenation
of the per-thread merges of nested, specification-conforming pieces is the stable sort of the input.
Tag order = original position (`posLt`).
-/
import TlxVerif.Model.C06Pms
import TlxVerif.Proofs.C07Windows
namespace TlxVerif.C06
open TlxVerif.C08 (StrictWeak IsPartition)
open TlxVerif.C07 (Elem kMerge sortStable Tlt Cond TagOrder GoodRuns keyRuns chunkRows lastRank lens)

/-- original position order -/
def posLt (a b : Elem) : Prop := a.pos < b.pos

theorem tagOrder_posLt : TagOrder posLt :=
  ⟨by intro a b c h1 h2; unfold posLt at *; omega, by intro a b h1 h2; unfold posLt at *; omega⟩

/-! ### starts -/

theorem startsOf_go_spec (chunk split : Nat) :
    ∀ (fuel i start : Nat) (acc : List Nat), start = i * chunk + min i split →
      ∃ l : List Nat, startsOf.go chunk split fuel i start acc = acc ++ l ∧ l.length = fuel + 1 ∧
        l.head? = some start ∧ l.getLast? = some ((i + fuel) * chunk + min (i + fuel) split) ∧
        l.Pairwise (· ≤ ·) ∧ ∀ x ∈ l, start ≤ x
  | 0, i, start, acc, h => ⟨[start], by simp [startsOf.go], rfl, rfl, by simp [h], List.pairwise_singleton _ _, by simp⟩
  | fuel + 1, i, start, acc, h => by
    have hnext : start + (if i < split then chunk + 1 else chunk) = (i + 1) * chunk + min (i + 1) split := by
      rw [Nat.succ_mul, h]
      split <;> omega
    obtain ⟨l, hl, hlen, hhead, hlast, hpw, hge⟩ :=
      startsOf_go_spec chunk split fuel (i + 1) (start + (if i < split then chunk + 1 else chunk)) (acc ++ [start]) hnext
    refine ⟨start :: l, ?_, by simp [hlen], rfl, ?_, ?_, ?_⟩
    · have : startsOf.go chunk split (fuel + 1) i start acc =
          startsOf.go chunk split fuel (i + 1) (start + (if i < split then chunk + 1 else chunk)) (acc ++ [start]) := rfl
      rw [this, hl]; simp
    · cases l with
      | nil => simp at hlen
      | cons a l =>
        have e : i + 1 + fuel = i + (fuel + 1) := by omega
        rw [List.getLast?_cons_cons, hlast, e]
    · refine List.pairwise_cons.mpr ⟨?_, hpw⟩
      intro x hx
      have := hge x hx
      split at this <;> omega
    · intro x hx
      rcases List.mem_cons.mp hx with hx | hx
      · omega
      · have := hge x hx
        split at this <;> omega

/-- **starts**: `p+1` non-decreasing slice boundaries from 0 to n -/
theorem startsOf_spec (n p : Nat) (hp : 1 ≤ p) :
    (startsOf n p).length = p + 1 ∧ (startsOf n p).head? = some 0 ∧ (startsOf n p).getLast? = some n ∧
    (startsOf n p).Pairwise (· ≤ ·) := by
  obtain ⟨l, hl, hlen, hhead, hlast, hpw, _⟩ := startsOf_go_spec (n / p) (n % p) p 0 0 [] (by simp)
  have he : startsOf n p = l := by unfold startsOf; simpa using hl
  rw [he]
  refine ⟨hlen, hhead, ?_, hpw⟩
  rw [hlast]
  congr 1
  have h1 : n % p < p := Nat.mod_lt _ (by omega)
  have h2 := Nat.div_add_mod n p
  rw [Nat.zero_add, Nat.min_eq_right (Nat.le_of_lt h1)]
  exact h2

/-! ### slices -/

theorem slicesBy_flatten (input : List Elem) : ∀ (bs : List Nat) (a : Nat), bs.head? = some a →
    bs.Pairwise (· ≤ ·) → ∀ z, bs.getLast? = some z → (slicesBy input bs).flatten = (input.drop a).take (z - a)
  | [], _, h, _, _, _ => by simp at h
  | [b], a, h, _, z, hz => by
    simp at h hz; subst h; subst hz; simp [slicesBy]
  | b :: c :: rest, a, h, hpw, z, hz => by
    simp at h; subst h
    have hpw' := List.pairwise_cons.mp hpw
    have hbc : b ≤ c := hpw'.1 c List.mem_cons_self
    have hz' : (c :: rest).getLast? = some z := by simpa [List.getLast?_cons_cons] using hz
    have hcz : c ≤ z := by
      have hm := List.mem_of_getLast? hz'
      rcases List.mem_cons.mp hm with hm | hm
      · omega
      · exact (List.pairwise_cons.mp hpw'.2).1 z hm
    have ih := slicesBy_flatten input (c :: rest) c rfl hpw'.2 z hz'
    simp only [slicesBy, List.flatten_cons, ih]
    -- take (c-b) (drop b) ++ take (z-c) (drop c) = take (z-b) (drop b)
    have e1 : input.drop c = (input.drop b).drop (c - b) := by rw [List.drop_drop]; congr 1; omega
    rw [e1]
    have e2 : z - b = (c - b) + (z - c) := by omega
    rw [e2, List.take_add]

theorem slicesBy_sublist (input : List Elem) : ∀ (bs : List Nat), ∀ s ∈ slicesBy input bs, s.Sublist input
  | [], s, h => by simp [slicesBy] at h
  | [_], s, h => by simp [slicesBy] at h
  | b :: c :: rest, s, h => by
    simp only [slicesBy, List.mem_cons] at h
    rcases h with h | h
    · subst h; exact (List.take_sublist _ _).trans (List.drop_sublist _ _)
    · exact slicesBy_sublist input (c :: rest) s h

/-! ### the temporaries are good runs -/

theorem cond_of_posLt {lt : Int → Int → Bool} {l : List Elem} (h : l.Pairwise posLt) : l.Pairwise (Cond lt posLt) :=
  List.Pairwise.imp (fun hab _ _ => hab) h

theorem goodRuns_temps {lt : Int → Int → Bool} (hlt : StrictWeak lt) {input : List Elem} (hpos : input.Pairwise posLt)
    {slices : List (List Elem)} (hfl : slices.flatten = input) :
    GoodRuns lt posLt (slices.map (sortStable lt)) := by
  have hpf := List.pairwise_flatten.mp (hfl ▸ hpos)
  constructor
  · intro r hr
    obtain ⟨s, hs, rfl⟩ := List.mem_map.mp hr
    have hsorted := C07.sortStable_sorted hlt tagOrder_posLt s (cond_of_posLt (hpf.1 s hs))
    refine List.Pairwise.imp ?_ hsorted
    intro a b hab
    rcases hab with hab | ⟨hab, ht⟩
    · exact ⟨hlt.asymm _ _ hab, fun h _ => by rw [hab] at h; cases h⟩
    · exact ⟨hab, fun _ _ => ht⟩
  · rw [List.pairwise_map]
    refine List.Pairwise.imp ?_ hpf.2
    intro s₁ s₂ h x hx y hy
    exact h x ((C07.sortStable_perm lt s₁).subset hx) y ((C07.sortStable_perm lt s₂).subset hy)

theorem map_sortStable_flatten_perm (lt : Int → Int → Bool) : ∀ slices : List (List Elem),
    ((slices.map (sortStable lt)).flatten).Perm slices.flatten
  | [] => List.Perm.refl _
  | s :: rest => by
    simp only [List.map_cons, List.flatten_cons]
    exact (C07.sortStable_perm lt s).append (map_sortStable_flatten_perm lt rest)

/-- merging the locally sorted slices of a tiling gives the stable sort of the whole input -/
theorem kMerge_temps_eq_sort {lt : Int → Int → Bool} (hlt : StrictWeak lt) {input : List Elem}
    (hpos : input.Pairwise posLt) {slices : List (List Elem)} (hfl : slices.flatten = input) :
    kMerge lt (slices.map (sortStable lt)) = sortStable lt input := by
  have hg := goodRuns_temps hlt hpos hfl
  have h1 := C07.sortStable_sorted hlt tagOrder_posLt _ hg.cond
  have h2 := C07.sortStable_sorted hlt tagOrder_posLt input (cond_of_posLt hpos)
  refine C07.sorted_perm_unique hlt tagOrder_posLt h1 h2 ?_
  refine (C07.sortStable_perm lt _).trans (((map_sortStable_flatten_perm lt slices).trans ?_).trans
    (C07.sortStable_perm lt input).symm)
  rw [hfl]

theorem isPartition_lens (lt : Int → Int → Bool) (runs : List (List Elem)) :
    IsPartition lt (keyRuns runs) (runs.map List.length).sum (lens runs) := by
  refine ⟨by simp [lens, keyRuns], ?_, rfl, ?_⟩
  · intro i r o hr ho
    simp only [keyRuns, List.getElem?_map, Option.map_eq_some_iff] at hr
    obtain ⟨r', hr', rfl⟩ := hr
    simp only [lens, List.getElem?_map, hr', Option.map_some, Option.some.injEq] at ho
    subst ho; simp
  · intro i j ri rj oi oj _ _ hrj _ hoj x _ y hy
    simp only [keyRuns, List.getElem?_map, Option.map_eq_some_iff] at hrj
    obtain ⟨r', hr', rfl⟩ := hrj
    simp only [lens, List.getElem?_map, hr', Option.map_some, Option.some.injEq] at hoj
    subst hoj
    rw [List.drop_of_length_le (by simp)] at hy
    cases hy

/-- **Exact splitting, mergesort.**  The input's elements carry their positions; `bs` are slice boundaries
tiling it; every thread's pieces end at an offset vector that satisfies the C08 specification for the
locally sorted slices, at non-decreasing ranks, the last rank being n.  Then the concatenation of the
per-thread merges (what is written back into the caller's range, in window order) is the stable sort of
the input. -/
theorem mergesort_exact_eq_stable_sort {lt : Int → Int → Bool} (hlt : StrictWeak lt) {input : List Elem}
    (hpos : input.Pairwise posLt) {bs : List Nat} (hb0 : bs.head? = some 0) (hbm : bs.Pairwise (· ≤ ·))
    (hbl : bs.getLast? = some input.length) (ps : List (Nat × List Nat))
    (hm : (0 :: ps.map (·.1)).Pairwise (· ≤ ·))
    (hall : ∀ p ∈ ps, IsPartition lt (keyRuns ((slicesBy input bs).map (sortStable lt))) p.1 p.2)
    (hlast : lastRank 0 ps = input.length) :
    ((chunkRows ((slicesBy input bs).map (sortStable lt))
        (List.replicate ((slicesBy input bs).map (sortStable lt)).length 0) (ps.map (·.2))).map
      (fun row => kMerge lt row)).flatten = sortStable lt input := by
  have hfl : (slicesBy input bs).flatten = input := by
    rw [slicesBy_flatten input bs 0 hb0 hbm _ hbl]; simp
  have hg := goodRuns_temps hlt hpos hfl
  rw [C07.exact_concat_eq_take_kMerge hlt tagOrder_posLt hg ps hm hall, hlast, kMerge_temps_eq_sort hlt hpos hfl]
  rw [List.take_of_length_le]
  rw [C07.sortStable_length]; exact Nat.le_refl _

/-! ### ledger -/

theorem foldl_add_eq_sum : ∀ (l : List Nat) (a : Nat), l.foldl (· + ·) a = a + l.sum
  | [], a => by simp
  | x :: l, a => by simp only [List.foldl_cons, List.sum_cons, foldl_add_eq_sum l (a + x)]; omega

theorem windowsBy_sum : ∀ (bs : List Nat) (a : Nat), bs.head? = some a → bs.Pairwise (· ≤ ·) →
    ∀ z, bs.getLast? = some z → ((windowsBy bs).map (·.2)).sum = z - a
  | [], _, h, _, _, _ => by simp at h
  | [b], a, h, _, z, hz => by simp at h hz; subst h; subst hz; simp [windowsBy]
  | b :: c :: rest, a, h, hpw, z, hz => by
    simp at h; subst h
    have hpw' := List.pairwise_cons.mp hpw
    have hbc : b ≤ c := hpw'.1 c List.mem_cons_self
    have hz' : (c :: rest).getLast? = some z := by simpa [List.getLast?_cons_cons] using hz
    have hcz : c ≤ z := by
      have hm := List.mem_of_getLast? hz'
      rcases List.mem_cons.mp hm with hm | hm
      · omega
      · exact (List.pairwise_cons.mp hpw'.2).1 z hm
    have ih := windowsBy_sum (c :: rest) c rfl hpw'.2 z hz'
    simp only [windowsBy, List.map_cons, List.sum_cons, ih]
    omega

/-- **Temporaries ledger**: the sort constructs exactly n element objects in raw storage and destroys
exactly n — nothing it created is alive when it returns. -/
theorem ledger_balanced (n p : Nat) (hp : 1 ≤ p) :
    (ledger (startsOf n p)).1 = n ∧ (ledger (startsOf n p)).2 = n := by
  obtain ⟨_, h0, hl, hm⟩ := startsOf_spec n p hp
  have := windowsBy_sum (startsOf n p) 0 h0 hm n hl
  simp only [ledger, foldl_add_eq_sum, this]
  omega

end TlxVerif.C06
