/-
C19 — the trim family against `dropWhile` from both ends.
-/
import TlxVerif.Model.C19Helpers
import TlxVerif.Model.C19Spec
import TlxVerif.Proofs.C18Find
import TlxVerif.Props.C18
namespace TlxVerif.C19
open TlxVerif.C18 (Bytes npos)
open TlxVerif.C18

/-! ### generic: scanning for the first element not satisfying `p`; `dropWhile` from the right -/

section generic
variable (p : UInt8 → Bool)

/-- index of the first byte that does not satisfy `p` -/
def scanNot : Bytes → Nat
  | [] => 0
  | c :: t => if !p c then 0 else scanNot t + 1

theorem scanNot_le : ∀ s : Bytes, scanNot p s ≤ s.length
  | [] => by simp [scanNot]
  | c :: t => by
    simp only [scanNot]
    split
    · omega
    · have := scanNot_le t; simp only [List.length_cons]; omega

theorem drop_scanNot : ∀ s : Bytes, s.drop (scanNot p s) = s.dropWhile p
  | [] => by simp [scanNot]
  | c :: t => by
    simp only [scanNot, List.dropWhile_cons]
    cases h : p c
    · simp
    · simp [drop_scanNot t]

/-- `dropWhile` from the right -/
def rdw (l : Bytes) : Bytes := (l.reverse.dropWhile p).reverse

theorem dropWhile_fixed : ∀ l : Bytes, (l.dropWhile p).dropWhile p = l.dropWhile p
  | [] => by simp
  | x :: t => by
    simp only [List.dropWhile_cons]
    cases h : p x
    · simp [List.dropWhile_cons, h]
    · simpa using dropWhile_fixed t

theorem rdw_fixed (l : Bytes) : (rdw p l).reverse.dropWhile p = (rdw p l).reverse := by
  unfold rdw
  rw [List.reverse_reverse]
  exact dropWhile_fixed p _

theorem dropWhile_eq_nil (l : Bytes) : l.dropWhile p = [] ↔ ∀ a ∈ l, p a = true := by
  induction l with
  | nil => simp
  | cons x t ih =>
    simp only [List.dropWhile_cons]
    cases h : p x
    · simp [h]
    · simp [h, ih]

/-- if every byte of a right-trimmed string satisfies `p`, it is empty -/
theorem rdw_all (l : Bytes) (h : (rdw p l).dropWhile p = []) : rdw p l = [] := by
  have hall := (dropWhile_eq_nil p _).mp h
  have hrev : (rdw p l).reverse.dropWhile p = [] := by
    apply (dropWhile_eq_nil p _).mpr
    intro a ha
    exact hall a (List.mem_reverse.mp ha)
  rw [rdw_fixed] at hrev
  simpa using hrev

theorem rdw_cons (x : UInt8) (t : Bytes) :
    rdw p (x :: t) = if (rdw p t).isEmpty && p x then [] else x :: rdw p t := by
  unfold rdw
  rw [List.reverse_cons, List.dropWhile_append]
  cases he : (List.dropWhile p t.reverse).isEmpty
  · have hr : (List.dropWhile p t.reverse).reverse.isEmpty = false := by
      cases hd : List.dropWhile p t.reverse with
      | nil => rw [hd] at he; simp at he
      | cons _ _ => simp
    simp [hr]
  · have he' : List.dropWhile p t.reverse = [] := List.isEmpty_iff.mp he
    simp only [if_true, he', List.reverse_nil, List.isEmpty_nil, Bool.true_and]
    cases hx : p x <;> simp [List.dropWhile_cons, hx]

/-- trimming left and right commute -/
theorem dw_rdw_comm : ∀ l : Bytes, (rdw p l).dropWhile p = rdw p (l.dropWhile p)
  | [] => by simp [rdw]
  | x :: t => by
    have ih := dw_rdw_comm t
    rw [rdw_cons]
    cases hx : p x
    · simp only [Bool.and_false, Bool.false_eq_true, if_false, List.dropWhile_cons, hx]
      rw [rdw_cons]
      simp [hx]
    · simp only [Bool.and_true, List.dropWhile_cons, hx, if_true]
      cases he : (rdw p t).isEmpty
      · simp only [Bool.false_eq_true, if_false, List.dropWhile_cons, hx, if_true]
        exact ih
      · have he' : rdw p t = [] := List.isEmpty_iff.mp he
        simp only [if_true, List.dropWhile_nil]
        rw [← ih, he']
        simp

theorem take_sub_eq_rdw (s : Bytes) : s.take (s.length - scanNot p s.reverse) = rdw p s := by
  unfold rdw
  rw [← drop_scanNot p s.reverse, List.drop_reverse, List.reverse_reverse]

end generic

/-! ### the private `find_not_of` scan -/

theorem findNotOf_eq_scanNot (drop : Bytes) : ∀ s : Bytes,
    Model.findNotOf s drop = scanNot (fun c => drop.contains c) s
  | [] => rfl
  | c :: t => by
    simp only [Model.findNotOf, Model.traitsFind, scanNot, findNotOf_eq_scanNot drop t]

/-- `find_first_not_of(drop, 0)` of the model in terms of the scan -/
theorem model_firstNot (s drop : Bytes) :
    Model.findFirstNotOf s drop 0 =
      if Model.findNotOf s drop = s.length then npos else Model.findNotOf s drop := by
  unfold Model.findFirstNotOf
  cases s with
  | nil => simp [Model.findNotOf]
  | cons c t =>
    have h0 : ¬ 0 ≥ (c :: t).length := by simp
    simp only [h0, if_false, List.drop_zero, Nat.zero_add]
    by_cases hd : drop.length = 0
    · have : drop = [] := List.length_eq_zero_iff.mp hd
      subst this
      simp [findNotOf_nil_cons]
    · simp [hd]

/-- `find_last_not_of(drop, pos)` with `pos ≥ size()` in terms of the scan of the reversed view -/
theorem model_lastNot (s drop : Bytes) (pos : Nat) (hpos : pos ≥ s.length) (hsz : s.length < 18446744073709551616) :
    Model.findLastNotOf s drop pos =
      if Model.findNotOf s.reverse drop = s.length then npos
      else s.length - 1 - Model.findNotOf s.reverse drop := by
  unfold Model.findLastNotOf
  simp only [hpos, if_true]
  cases hs : s with
  | nil =>
    by_cases hd : drop.length = 0
    · simp [hd, Model.wsub, Model.findNotOf, npos]
    · simp [hd, Model.wsub, Model.wadd, Model.findNotOf]
  | cons c t =>
    rw [← hs]
    have hlen : 0 < s.length := by rw [hs]; simp
    have h1 : Model.wsub s.length 1 = s.length - 1 := by unfold Model.wsub; omega
    have h2 : Model.wsub s.length (Model.wadd (s.length - 1) 1) = 0 := by
      unfold Model.wsub Model.wadd; omega
    rw [h1, h2]
    by_cases hd : drop.length = 0
    · have : drop = [] := List.length_eq_zero_iff.mp hd
      subst this
      have hr : s.reverse ≠ [] := by simp [hs]
      cases hrr : s.reverse with
      | nil => exact absurd hrr hr
      | cons x xs =>
        simp only [List.length_nil, if_true, findNotOf_nil_cons]
        have : ¬ 0 = s.length := by omega
        simp [this]
    · simp only [hd, if_false, List.drop_zero, List.length_reverse, Nat.zero_add, Model.reverseDistance]

end TlxVerif.C19

namespace TlxVerif.C19
open TlxVerif.C18 (Bytes npos)
open TlxVerif.C18

/-! ### the nine trim functions -/

section
variable (s drop : Bytes)

local notation "P" => (fun c : UInt8 => List.contains drop c)

theorem spec_trimRight_eq : Spec.trimRight drop s = rdw P s := rfl
theorem spec_trimLeft_eq : Spec.trimLeft drop s = s.dropWhile P := rfl

theorem drop_npos (hsz : s.length < 18446744073709551616) : s.drop npos = [] := by
  apply List.drop_eq_nil_of_le
  unfold npos; omega

/-- `find_first_not_of(drop)` of std::string (spec) through the scan -/
theorem spec_firstNot : Spec.findFirstNotOf s drop 0 =
    if scanNot P s = s.length then npos else scanNot P s := by
  rw [← findFirstNotOf_eq, model_firstNot, findNotOf_eq_scanNot]

theorem spec_lastNot (hsz : s.length < 18446744073709551616) : Spec.findLastNotOf s drop npos =
    if scanNot P s.reverse = s.length then npos else s.length - 1 - scanNot P s.reverse := by
  rw [← findLastNotOf_eq s drop npos hsz, model_lastNot s drop npos (by unfold npos; omega) hsz,
    findNotOf_eq_scanNot]

theorem model_firstNot' : Model.findFirstNotOf s drop 0 =
    if scanNot P s = s.length then npos else scanNot P s := by
  rw [model_firstNot, findNotOf_eq_scanNot]

theorem model_lastNot' (pos : Nat) (hpos : pos ≥ s.length) (hsz : s.length < 18446744073709551616) :
    Model.findLastNotOf s drop pos =
      if scanNot P s.reverse = s.length then npos else s.length - 1 - scanNot P s.reverse := by
  rw [model_lastNot s drop pos hpos hsz, findNotOf_eq_scanNot]

/-- position arithmetic shared by the right-trimming shapes -/
theorem scan_rev_facts : scanNot P s.reverse ≤ s.length := by
  have := scanNot_le P s.reverse; simpa using this

theorem rdw_of_all (h : scanNot P s.reverse = s.length) : rdw P s = [] := by
  rw [← take_sub_eq_rdw, h]; simp

theorem dropWhile_of_all (h : scanNot P s = s.length) : s.dropWhile P = [] := by
  rw [← drop_scanNot, h]; simp

end

theorem trimLeftString_eq (s drop : Bytes) (hsz : s.length < 18446744073709551616) :
    trimLeftString s drop = Spec.trimLeft drop s := by
  unfold trimLeftString strErase
  rw [spec_firstNot, spec_trimLeft_eq]
  simp only [List.take_zero, List.nil_append, Nat.zero_add]
  split
  · rename_i h
    rw [drop_npos s hsz, dropWhile_of_all s drop h]
  · exact drop_scanNot _ s

theorem trimLeftViewPtr_eq (s drop : Bytes) (hsz : s.length < 18446744073709551616) :
    trimLeftViewPtr s drop = Spec.trimLeft drop s := by
  unfold trimLeftViewPtr
  rw [model_firstNot', spec_trimLeft_eq]
  have hle := scanNot_le (fun c => drop.contains c) s
  split
  · rename_i h
    simp only [ne_eq, not_true_eq_false, if_false]
    rw [dropWhile_of_all s drop h]
  · rename_i h
    have hne : scanNot (fun c => drop.contains c) s ≠ npos := by unfold npos; omega
    simp only [ne_eq, hne, not_false_eq_true, if_true, Model.removePrefix]
    have : ¬ scanNot (fun c => drop.contains c) s > s.length := by omega
    simp only [this, if_false]
    exact drop_scanNot _ s

theorem trimLeftView_eq (s drop : Bytes) (hsz : s.length < 18446744073709551616) :
    trimLeftView s drop = Spec.trimLeft drop s := by
  unfold trimLeftView
  rw [model_firstNot', spec_trimLeft_eq]
  have hle := scanNot_le (fun c => drop.contains c) s
  split
  · rename_i h
    simp only [if_true]
    rw [dropWhile_of_all s drop h]
  · rename_i h
    have hne : scanNot (fun c => drop.contains c) s ≠ npos := by unfold npos; omega
    have hgt : ¬ scanNot (fun c => drop.contains c) s > s.length := by omega
    simp only [hne, if_false, Model.substr, hgt]
    rw [← drop_scanNot]
    apply List.take_of_length_le
    simp only [List.length_drop]
    unfold npos; omega

theorem trimRightString_eq (s drop : Bytes) (hsz : s.length < 18446744073709551616) :
    trimRightString s drop = Spec.trimRight drop s := by
  unfold trimRightString
  rw [spec_lastNot s drop hsz, spec_trimRight_eq]
  have hle := scan_rev_facts s drop
  split
  · rename_i h
    rw [rdw_of_all s drop h]
    simp [Model.wadd, npos]
  · rename_i h
    rw [← take_sub_eq_rdw]
    congr 1
    unfold Model.wadd; omega

theorem trimRightViewPtr_eq (s drop : Bytes) (hsz : s.length < 18446744073709551616) :
    trimRightViewPtr s drop = Spec.trimRight drop s := by
  unfold trimRightViewPtr
  rw [model_lastNot' s drop npos (by unfold npos; omega) hsz, spec_trimRight_eq]
  have hle := scan_rev_facts s drop
  split
  · rename_i h
    simp only [ne_eq, not_true_eq_false, if_false]
    rw [rdw_of_all s drop h]
  · rename_i h
    have hne : s.length - 1 - scanNot (fun c => drop.contains c) s.reverse ≠ npos := by unfold npos; omega
    simp only [ne_eq, hne, not_false_eq_true, if_true, Model.removeSuffix]
    rw [← take_sub_eq_rdw]
    split <;> (congr 1; omega)

theorem trimRightView_eq (s drop : Bytes) (hsz : s.length < 18446744073709551616) :
    trimRightView s drop = Spec.trimRight drop s := by
  unfold trimRightView
  rw [model_lastNot' s drop npos (by unfold npos; omega) hsz, spec_trimRight_eq]
  have hle := scan_rev_facts s drop
  split
  · rename_i h
    simp only [if_true]
    rw [rdw_of_all s drop h]
  · rename_i h
    have hne : s.length - 1 - scanNot (fun c => drop.contains c) s.reverse ≠ npos := by unfold npos; omega
    simp only [hne, if_false, Model.substr, Nat.not_lt_zero, gt_iff_lt, List.drop_zero, Nat.sub_zero]
    rw [← take_sub_eq_rdw]
    congr 1
    omega

end TlxVerif.C19

namespace TlxVerif.C19
open TlxVerif.C18 (Bytes npos)
open TlxVerif.C18

theorem spec_trim_eq (s drop : Bytes) :
    Spec.trim drop s = (rdw (fun c => drop.contains c) s).dropWhile (fun c => drop.contains c) := by
  unfold Spec.trim
  rw [spec_trimRight_eq, spec_trimLeft_eq, dw_rdw_comm]

theorem rdw_length_le (p : UInt8 → Bool) (s : Bytes) : (rdw p s).length ≤ s.length := by
  rw [← take_sub_eq_rdw]; simp [List.length_take]

theorem trimString_eq (s drop : Bytes) (hsz : s.length < 18446744073709551616) :
    trimString s drop = Spec.trim drop s := by
  unfold trimString
  rw [spec_lastNot s drop hsz, spec_trim_eq]
  have hle := scan_rev_facts s drop
  split
  · rename_i h
    simp only [ne_eq, not_true_eq_false, if_false]
    rw [rdw_of_all s drop h]; rfl
  · rename_i h
    have hne : s.length - 1 - scanNot (fun c => drop.contains c) s.reverse ≠ npos := by unfold npos; omega
    simp only [ne_eq, hne, not_false_eq_true, if_true]
    have htake : s.take (s.length - 1 - scanNot (fun c => drop.contains c) s.reverse + 1) =
        rdw (fun c => drop.contains c) s := by
      rw [← take_sub_eq_rdw]; congr 1; omega
    rw [htake, spec_firstNot]
    have hl := rdw_length_le (fun c => drop.contains c) s
    have hle2 := scanNot_le (fun c => drop.contains c) (rdw (fun c => drop.contains c) s)
    split
    · rename_i h2
      simp only [not_true_eq_false, if_false]
      have hd := dropWhile_of_all _ drop h2
      rw [hd]
      exact rdw_all _ s hd
    · rename_i h2
      have hne2 : scanNot (fun c => drop.contains c) (rdw (fun c => drop.contains c) s) ≠ npos := by
        unfold npos; omega
      simp only [hne2, not_false_eq_true, if_true]
      exact drop_scanNot _ _

theorem trimViewPtr_eq (s drop : Bytes) (hsz : s.length < 18446744073709551616) :
    trimViewPtr s drop = Spec.trim drop s := by
  unfold trimViewPtr
  rw [model_lastNot' s drop npos (by unfold npos; omega) hsz, spec_trim_eq]
  have hle := scan_rev_facts s drop
  split
  · rename_i h
    simp only [if_true]
    rw [rdw_of_all s drop h]; rfl
  · rename_i h
    have hne : s.length - 1 - scanNot (fun c => drop.contains c) s.reverse ≠ npos := by unfold npos; omega
    simp only [hne, if_false]
    have htake : (Model.removeSuffix s (s.length - (s.length - 1 - scanNot (fun c => drop.contains c) s.reverse) - 1)).2 =
        rdw (fun c => drop.contains c) s := by
      unfold Model.removeSuffix
      rw [← take_sub_eq_rdw]
      simp only
      split <;> (congr 1; omega)
    rw [htake, model_firstNot']
    have hl := rdw_length_le (fun c => drop.contains c) s
    have hle2 := scanNot_le (fun c => drop.contains c) (rdw (fun c => drop.contains c) s)
    split
    · rename_i h2
      simp only [ne_eq, not_true_eq_false, if_false]
      rw [dropWhile_of_all _ drop h2]
    · rename_i h2
      have hne2 : scanNot (fun c => drop.contains c) (rdw (fun c => drop.contains c) s) ≠ npos := by
        unfold npos; omega
      simp only [ne_eq, hne2, not_false_eq_true, if_true, Model.removePrefix]
      have : ¬ scanNot (fun c => drop.contains c) (rdw (fun c => drop.contains c) s) >
          (rdw (fun c => drop.contains c) s).length := by omega
      simp only [this, if_false]
      exact drop_scanNot _ _

theorem trimView_eq (s drop : Bytes) (hsz : s.length < 18446744073709551616) :
    trimView s drop = Spec.trim drop s := by
  unfold trimView Spec.trim
  rw [model_firstNot', spec_trimLeft_eq, spec_trimRight_eq]
  have hle := scanNot_le (fun c => drop.contains c) s
  split
  · rename_i h
    simp only [if_true]
    rw [dropWhile_of_all s drop h]; rfl
  · rename_i h
    have hne : scanNot (fun c => drop.contains c) s ≠ npos := by unfold npos; omega
    simp only [hne, if_false]
    have hout : (Model.removePrefix s (scanNot (fun c => drop.contains c) s)).2 =
        s.dropWhile (fun c => drop.contains c) := by
      unfold Model.removePrefix
      have : ¬ scanNot (fun c => drop.contains c) s > s.length := by omega
      simp only [this, if_false]
      exact drop_scanNot _ s
    rw [hout]
    have hol : (s.dropWhile fun c => drop.contains c).length ≤ s.length := by
      rw [← drop_scanNot]; simp
    rw [model_lastNot' _ drop _ (Nat.le_refl _) (by omega)]
    have hle2 := scan_rev_facts (s.dropWhile fun c => drop.contains c) drop
    split
    · rename_i h2
      simp only [ne_eq, not_true_eq_false, if_false]
      have hr := rdw_of_all _ drop h2
      rw [hr]
      -- all bytes of `out` are in the drop set, and `out` starts with a byte that is not (or is empty)
      have hall : (s.dropWhile fun c => drop.contains c).dropWhile (fun c => drop.contains c) = [] := by
        apply (dropWhile_eq_nil _ _).mpr
        intro a ha
        have : (rdw (fun c => drop.contains c) (s.dropWhile fun c => drop.contains c)).reverse.dropWhile
            (fun c => drop.contains c) = [] := by rw [hr]; rfl
        unfold rdw at hr
        have hrev : ((s.dropWhile fun c => drop.contains c).reverse.dropWhile fun c => drop.contains c) = [] := by
          simpa using hr
        exact (dropWhile_eq_nil _ _).mp hrev a (List.mem_reverse.mpr ha)
      rw [dropWhile_fixed] at hall
      exact hall
    · rename_i h2
      have hne2 : (s.dropWhile fun c => drop.contains c).length - 1 -
          scanNot (fun c => drop.contains c) (s.dropWhile fun c => drop.contains c).reverse ≠ npos := by
        unfold npos; omega
      simp only [ne_eq, hne2, not_false_eq_true, if_true, Model.removeSuffix]
      rw [← take_sub_eq_rdw]
      split <;> (congr 1; omega)

end TlxVerif.C19
