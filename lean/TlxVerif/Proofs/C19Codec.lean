/-
C19 — helper lemmas for the codecs: finite facts about the generated tables and the
byte/sextet bit manipulation (by `decide +kernel` over one byte or over small domains),
and the per-group decoding lemma.
-/
import TlxVerif.Model.C19Codec
import TlxVerif.Model.C19Spec
namespace TlxVerif.C19
open TlxVerif.C18 (Bytes)

theorem forall_u8 {P : UInt8 → Prop} (h : ∀ n : Fin 256, P (UInt8.ofNat n.val)) : ∀ b, P b := by
  intro b
  have := h ⟨b.toNat, UInt8.toNat_lt b⟩
  simpa using this

theorem forall_u8_lt (n : Nat) {P : UInt8 → Prop} (h : ∀ i : Fin n, P (UInt8.ofNat i.val)) :
    ∀ x : UInt8, x.toNat < n → P x := by
  intro x hx
  have := h ⟨x.toNat, hx⟩
  simpa using this

/-! ### tables -/

/-- `decoding64[encoding64[v]] = v` for the 64 sextet values; such a character is neither
`ex` (invalid) nor `ws` (skipped) -/
theorem dec_enc : ∀ v : UInt8, v.toNat < 64 →
    dec64 (enc64 v) = v ∧ (v == Gen.decEx) = false ∧ ¬ (v ≥ Gen.decWs) :=
  forall_u8_lt 64 (by decide +kernel)

/-- newline and `=` are skipped by the decoder -/
theorem dec_skip : dec64 10 = Gen.decWs ∧ dec64 61 = Gen.decWs ∧ (Gen.decWs == Gen.decEx) = false ∧
    Gen.decWs ≥ Gen.decWs := by decide +kernel

/-! ### sextets of one byte -/

theorem s0_lt : ∀ a : UInt8, ((a &&& 0xFC) >>> 2).toNat < 64 := forall_u8 (by decide +kernel)
theorem s3_lt : ∀ c : UInt8, ((c &&& 0x3F) >>> 0).toNat < 64 := forall_u8 (by decide +kernel)
theorem lo2_rep : ∀ a : UInt8, (a &&& 0x03).toNat < 4 := forall_u8 (by decide +kernel)
theorem hi4_lt : ∀ b : UInt8, ((b &&& 0xF0) >>> 4).toNat < 16 := forall_u8 (by decide +kernel)
theorem lo4_rep : ∀ b : UInt8, (b &&& 0x0F).toNat < 16 := forall_u8 (by decide +kernel)
theorem hi2_lt : ∀ c : UInt8, ((c &&& 0xC0) >>> 6).toNat < 4 := forall_u8 (by decide +kernel)

/-- second sextet: two low bits of `a` above the high nibble of `b` -/
theorem s1_facts : ∀ k : UInt8, k.toNat < 4 → ∀ y : UInt8, y.toNat < 16 →
    ((k <<< 4) ||| y).toNat < 64 ∧ (((k <<< 4) ||| y) &&& 0x30) >>> 4 = k ∧
    (((k <<< 4) ||| y) &&& 0x0F) <<< 4 = y <<< 4 :=
  forall_u8_lt 4 (fun i => forall_u8_lt 16 (by revert i; decide +kernel))

/-- third sextet: low nibble of `b` above the two high bits of `c` -/
theorem s2_facts : ∀ m : UInt8, m.toNat < 16 → ∀ y : UInt8, y.toNat < 4 →
    ((m <<< 2) ||| y).toNat < 64 ∧ (((m <<< 2) ||| y) &&& 0x3C) >>> 2 = m ∧
    (((m <<< 2) ||| y) &&& 0x03) <<< 6 = y <<< 6 :=
  forall_u8_lt 16 (fun i => forall_u8_lt 4 (by revert i; decide +kernel))

theorem byte_a : ∀ a : UInt8, ((((a &&& 0xFC) >>> 2) &&& 0x3F) <<< 2) ||| (a &&& 0x03) = a :=
  forall_u8 (by decide +kernel)
theorem byte_b : ∀ b : UInt8, (((b &&& 0xF0) >>> 4) <<< 4) ||| (b &&& 0x0F) = b :=
  forall_u8 (by decide +kernel)
theorem byte_c : ∀ c : UInt8, (((c &&& 0xC0) >>> 6) <<< 6) ||| ((((c &&& 0x3F) >>> 0) &&& 0x3F) >>> 0) = c :=
  forall_u8 (by decide +kernel)

/-- partial groups: the padding sextets carry zero low bits -/
theorem pad1_facts : ∀ a : UInt8, ((a &&& 0x03) <<< 4).toNat < 64 ∧ (((a &&& 0x03) <<< 4) &&& 0x30) >>> 4 = a &&& 0x03 :=
  forall_u8 (by decide +kernel)
theorem pad2_facts : ∀ b : UInt8, ((b &&& 0x0F) <<< 2).toNat < 64 ∧ (((b &&& 0x0F) <<< 2) &&& 0x3C) >>> 2 = b &&& 0x0F :=
  forall_u8 (by decide +kernel)

/-! ### decoder steps -/

/-- the decoder on an encoded sextet: the branch of the current phase is taken -/
theorem decode_sextet0 (strict : Bool) (v : UInt8) (hv : v.toNat < 64) (rest : Bytes) (oc : UInt8) :
    decodeLoop strict (enc64 v :: rest) 0 oc = decodeLoop strict rest 1 ((v &&& 0x3F) <<< 2) := by
  obtain ⟨h1, h2, h3⟩ := dec_enc v hv
  conv => lhs; unfold decodeLoop
  simp only [h1, h2, Bool.false_and, Bool.false_eq_true, if_false, h3]

theorem decode_sextet1 (strict : Bool) (v : UInt8) (hv : v.toNat < 64) (rest : Bytes) (oc : UInt8) :
    decodeLoop strict (enc64 v :: rest) 1 oc =
      (decodeLoop strict rest 2 ((v &&& 0x0F) <<< 4)).map ((oc ||| ((v &&& 0x30) >>> 4)) :: ·) := by
  obtain ⟨h1, h2, h3⟩ := dec_enc v hv
  conv => lhs; unfold decodeLoop
  simp only [h1, h2, Bool.false_and, Bool.false_eq_true, if_false, h3]

theorem decode_sextet2 (strict : Bool) (v : UInt8) (hv : v.toNat < 64) (rest : Bytes) (oc : UInt8) :
    decodeLoop strict (enc64 v :: rest) 2 oc =
      (decodeLoop strict rest 3 ((v &&& 0x03) <<< 6)).map ((oc ||| ((v &&& 0x3C) >>> 2)) :: ·) := by
  obtain ⟨h1, h2, h3⟩ := dec_enc v hv
  conv => lhs; unfold decodeLoop
  simp only [h1, h2, Bool.false_and, Bool.false_eq_true, if_false, h3]

theorem decode_sextet3 (strict : Bool) (v : UInt8) (hv : v.toNat < 64) (rest : Bytes) (oc : UInt8) :
    decodeLoop strict (enc64 v :: rest) 3 oc =
      (decodeLoop strict rest 0 0).map ((oc ||| ((v &&& 0x3F) >>> 0)) :: ·) := by
  obtain ⟨h1, h2, h3⟩ := dec_enc v hv
  conv => lhs; unfold decodeLoop
  simp only [h1, h2, Bool.false_and, Bool.false_eq_true, if_false, h3]

theorem decode_skip_nl (strict : Bool) (rest : Bytes) (phase : Nat) (oc : UInt8) :
    decodeLoop strict (10 :: rest) phase oc = decodeLoop strict rest phase oc := by
  obtain ⟨h1, _, h3, h4⟩ := dec_skip
  conv => lhs; unfold decodeLoop
  simp only [h1, h3, Bool.false_and, Bool.false_eq_true, if_false, h4, if_true]

theorem decode_skip_eq (strict : Bool) (rest : Bytes) (phase : Nat) (oc : UInt8) :
    decodeLoop strict (61 :: rest) phase oc = decodeLoop strict rest phase oc := by
  obtain ⟨_, h2, h3, h4⟩ := dec_skip
  conv => lhs; unfold decodeLoop
  simp only [h2, h3, Bool.false_and, Bool.false_eq_true, if_false, h4, if_true]

end TlxVerif.C19

namespace TlxVerif.C19
open TlxVerif.C18 (Bytes)

/-- a full group of four encoded sextets decodes to its three bytes -/
theorem decode_group (strict : Bool) (a b c : UInt8) (rest : Bytes) (oc : UInt8) :
    decodeLoop strict
      (enc64 ((a &&& 0xFC) >>> 2) :: enc64 (((a &&& 0x03) <<< 4) ||| ((b &&& 0xF0) >>> 4)) ::
       enc64 (((b &&& 0x0F) <<< 2) ||| ((c &&& 0xC0) >>> 6)) :: enc64 ((c &&& 0x3F) >>> 0) :: rest) 0 oc =
      (decodeLoop strict rest 0 0).map (fun r => a :: b :: c :: r) := by
  obtain ⟨hlt1, e1a, e1b⟩ := s1_facts (a &&& 0x03) (lo2_rep a) ((b &&& 0xF0) >>> 4) (hi4_lt b)
  obtain ⟨hlt2, e2a, e2b⟩ := s2_facts (b &&& 0x0F) (lo4_rep b) ((c &&& 0xC0) >>> 6) (hi2_lt c)
  rw [decode_sextet0 strict _ (s0_lt a), decode_sextet1 strict _ hlt1, decode_sextet2 strict _ hlt2,
    decode_sextet3 strict _ (s3_lt c)]
  rw [e1a, e1b, e2a, e2b, byte_a, byte_b, byte_c]
  cases decodeLoop strict rest 0 0 <;> rfl

/-- a final group of one byte (two sextets and `==`) -/
theorem decode_tail1 (strict : Bool) (a : UInt8) (oc : UInt8) :
    decodeLoop strict [enc64 ((a &&& 0xFC) >>> 2), enc64 ((a &&& 0x03) <<< 4), 61, 61] 0 oc = some [a] := by
  obtain ⟨hlt, e⟩ := pad1_facts a
  rw [decode_sextet0 strict _ (s0_lt a), decode_sextet1 strict _ hlt, decode_skip_eq, decode_skip_eq, e, byte_a]
  rfl

/-- a final group of two bytes (three sextets and `=`) -/
theorem decode_tail2 (strict : Bool) (a b : UInt8) (oc : UInt8) :
    decodeLoop strict
      [enc64 ((a &&& 0xFC) >>> 2), enc64 (((a &&& 0x03) <<< 4) ||| ((b &&& 0xF0) >>> 4)),
       enc64 ((b &&& 0x0F) <<< 2), 61] 0 oc = some [a, b] := by
  obtain ⟨hlt1, e1a, e1b⟩ := s1_facts (a &&& 0x03) (lo2_rep a) ((b &&& 0xF0) >>> 4) (hi4_lt b)
  obtain ⟨hlt2, e2⟩ := pad2_facts b
  rw [decode_sextet0 strict _ (s0_lt a), decode_sextet1 strict _ hlt1, decode_sextet2 strict _ hlt2,
    decode_skip_eq, e1a, e1b, e2, byte_a, byte_b]
  rfl

/-- the decoder inverts the encoder loop, for every line-break width and column -/
theorem decode_encodeLoop (strict : Bool) (lb : Nat) : ∀ (s : Bytes) (col : Nat) (oc : UInt8),
    decodeLoop strict (encodeLoop lb s col) 0 oc = some s
  | [], _, _ => by simp [encodeLoop, decodeLoop]
  | [a], _, oc => by simp only [encodeLoop]; exact decode_tail1 strict a oc
  | [a, b], _, oc => by simp only [encodeLoop]; exact decode_tail2 strict a b oc
  | a :: b :: c :: rest, col, oc => by
    simp only [encodeLoop]
    split
    · simp only [List.cons_append, List.nil_append]
      rw [decode_group, decode_skip_nl, decode_encodeLoop strict lb rest 0 0]
      rfl
    · simp only [List.cons_append, List.nil_append]
      rw [decode_group, decode_encodeLoop strict lb rest (col + 4) 0]
      rfl

end TlxVerif.C19

namespace TlxVerif.C19
open TlxVerif.C18 (Bytes)

/-! ### the encoder against RFC 4648 -/

theorem enc_ne_nl : ∀ v : UInt8, (enc64 v != 10) = true := forall_u8 (by decide +kernel)

theorem rfc_s0 : ∀ a : UInt8, enc64 ((a &&& 0xFC) >>> 2) = Spec.b64char (a.toNat / 4) := forall_u8 (by decide +kernel)
theorem rfc_s3 : ∀ c : UInt8, enc64 ((c &&& 0x3F) >>> 0) = Spec.b64char (c.toNat % 64) := forall_u8 (by decide +kernel)
theorem rfc_p1 : ∀ a : UInt8, enc64 ((a &&& 0x03) <<< 4) = Spec.b64char (a.toNat % 4 * 16) := forall_u8 (by decide +kernel)
theorem rfc_p2 : ∀ b : UInt8, enc64 ((b &&& 0x0F) <<< 2) = Spec.b64char (b.toNat % 16 * 4) := forall_u8 (by decide +kernel)

theorem lo2_val : ∀ a : UInt8, (a &&& 0x03).toNat = a.toNat % 4 := forall_u8 (by decide +kernel)
theorem hi4_val : ∀ b : UInt8, ((b &&& 0xF0) >>> 4).toNat = b.toNat / 16 := forall_u8 (by decide +kernel)
theorem lo4_val : ∀ b : UInt8, (b &&& 0x0F).toNat = b.toNat % 16 := forall_u8 (by decide +kernel)
theorem hi2_val : ∀ c : UInt8, ((c &&& 0xC0) >>> 6).toNat = c.toNat / 64 := forall_u8 (by decide +kernel)

theorem rfc_s1' : ∀ k : UInt8, k.toNat < 4 → ∀ y : UInt8, y.toNat < 16 →
    enc64 ((k <<< 4) ||| y) = Spec.b64char (k.toNat * 16 + y.toNat) :=
  forall_u8_lt 4 (fun i => forall_u8_lt 16 (by revert i; decide +kernel))

theorem rfc_s2' : ∀ m : UInt8, m.toNat < 16 → ∀ y : UInt8, y.toNat < 4 →
    enc64 ((m <<< 2) ||| y) = Spec.b64char (m.toNat * 4 + y.toNat) :=
  forall_u8_lt 16 (fun i => forall_u8_lt 4 (by revert i; decide +kernel))

theorem rfc_s1 (a b : UInt8) :
    enc64 (((a &&& 0x03) <<< 4) ||| ((b &&& 0xF0) >>> 4)) = Spec.b64char (a.toNat % 4 * 16 + b.toNat / 16) := by
  rw [rfc_s1' _ (lo2_rep a) _ (hi4_lt b), lo2_val, hi4_val]

theorem rfc_s2 (b c : UInt8) :
    enc64 (((b &&& 0x0F) <<< 2) ||| ((c &&& 0xC0) >>> 6)) = Spec.b64char (b.toNat % 16 * 4 + c.toNat / 64) := by
  rw [rfc_s2' _ (lo4_rep b) _ (hi2_lt c), lo4_val, hi2_val]

theorem pad_ne_nl : ((61 : UInt8) != 10) = true := by decide
theorem nl_eq_nl : ((10 : UInt8) != 10) = false := by decide

/-- without its line breaks the encoder's output is the RFC 4648 encoding -/
theorem encodeLoop_filter (lb : Nat) : ∀ (s : Bytes) (col : Nat),
    (encodeLoop lb s col).filter (· != 10) = Spec.base64 s
  | [], _ => by simp [encodeLoop, Spec.base64]
  | [a], _ => by
    simp only [encodeLoop, List.filter_cons, enc_ne_nl, pad_ne_nl, if_true, List.filter_nil]
    simp only [Spec.base64, rfc_s0, rfc_p1]
  | [a, b], _ => by
    simp only [encodeLoop, List.filter_cons, enc_ne_nl, pad_ne_nl, if_true, List.filter_nil]
    simp only [Spec.base64, rfc_s0, rfc_s1, rfc_p2]
  | a :: b :: c :: rest, col => by
    simp only [encodeLoop]
    split
    · simp only [List.cons_append, List.nil_append, List.filter_cons, enc_ne_nl, nl_eq_nl, if_true,
        Bool.false_eq_true, if_false, encodeLoop_filter lb rest 0]
      simp only [Spec.base64, rfc_s0, rfc_s1, rfc_s2, rfc_s3]
    · simp only [List.cons_append, List.nil_append, List.filter_cons, enc_ne_nl, if_true,
        encodeLoop_filter lb rest (col + 4)]
      simp only [Spec.base64, rfc_s0, rfc_s1, rfc_s2, rfc_s3]

/-- with `line_break = 0` no line break is produced -/
theorem encodeLoop_zero : ∀ (s : Bytes) (col : Nat), encodeLoop 0 s col = Spec.base64 s
  | [], _ => by simp [encodeLoop, Spec.base64]
  | [a], _ => by simp only [encodeLoop, Spec.base64, rfc_s0, rfc_p1]
  | [a, b], _ => by simp only [encodeLoop, Spec.base64, rfc_s0, rfc_s1, rfc_p2]
  | a :: b :: c :: rest, col => by
    simp only [encodeLoop, Spec.base64, Nat.lt_irrefl, false_and, if_false, List.cons_append, List.nil_append,
      rfc_s0, rfc_s1, rfc_s2, rfc_s3, encodeLoop_zero rest (col + 4)]

/-! ### hexdump -/

theorem hex_byte_uc : ∀ b : UInt8,
    switchLookup Gen.parseHi (Gen.xdigitsUC.getD ((b &&& 0xF0) >>> 4).toNat 0) = some (b &&& 0xF0) ∧
    switchLookup Gen.parseLo (Gen.xdigitsUC.getD (b &&& 0x0F).toNat 0) = some (b &&& 0x0F) ∧
    (0 ||| (b &&& 0xF0) ||| (b &&& 0x0F)) = b ∧
    Gen.xdigitsUC.getD ((b &&& 0xF0) >>> 4).toNat 0 = Spec.hexDigitUC (b.toNat / 16) ∧
    Gen.xdigitsUC.getD (b &&& 0x0F).toNat 0 = Spec.hexDigitUC (b.toNat % 16) := forall_u8 (by decide +kernel)

theorem hex_byte_lc : ∀ b : UInt8,
    switchLookup Gen.parseHi (Gen.xdigitsLC.getD ((b &&& 0xF0) >>> 4).toNat 0) = some (b &&& 0xF0) ∧
    switchLookup Gen.parseLo (Gen.xdigitsLC.getD (b &&& 0x0F).toNat 0) = some (b &&& 0x0F) ∧
    Gen.xdigitsLC.getD ((b &&& 0xF0) >>> 4).toNat 0 = Spec.hexDigitLC (b.toNat / 16) ∧
    Gen.xdigitsLC.getD (b &&& 0x0F).toNat 0 = Spec.hexDigitLC (b.toNat % 16) := forall_u8 (by decide +kernel)

end TlxVerif.C19
