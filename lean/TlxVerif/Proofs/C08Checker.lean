/-
C08 — the decidable partition checker (the harness' direct oracle, and the certificate
check of individual runs) and its soundness / completeness w.r.t. `IsPartition`.
-/
import TlxVerif.Proofs.C08Spec
namespace TlxVerif.C08

variable {α : Type}

/-- edge test between the last left element of sequence `i` and the first right element of sequence `j` -/
def edgeOk (lt : α → α → Bool) (runs : List (List α)) (offs : List Nat) (i j : Nat) : Bool :=
  match runs[i]?, runs[j]?, offs[i]?, offs[j]? with
  | some ri, some rj, some oi, some oj =>
    match (ri.take oi).getLast?, (rj.drop oj).head? with
    | some x, some y => beforeB lt x i y j
    | _, _ => true
  | _, _, _, _ => true

def boundOk (runs : List (List α)) (offs : List Nat) (i : Nat) : Bool :=
  match runs[i]?, offs[i]? with
  | some r, some o => decide (o ≤ r.length)
  | _, _ => false

/-- O(m²) checker: lengths, bounds, sum and all boundary pairs -/
def checkPartition (lt : α → α → Bool) (runs : List (List α)) (rank : Nat) (offs : List Nat) : Bool :=
  decide (offs.length = runs.length) &&
  (List.range runs.length).all (boundOk runs offs) &&
  decide (offs.sum = rank) &&
  (List.range runs.length).all (fun i => (List.range runs.length).all (fun j => i == j || edgeOk lt runs offs i j))

theorem sorted_le_getLast {lt : α → α → Bool} (hlt : StrictWeak lt) :
    ∀ {l : List α} {x z : α}, SortedRun lt l → x ∈ l → l.getLast? = some z → lt z x = false
  | [], _, _, _, hx, _ => by cases hx
  | [a], x, z, _, hx, hz => by
    simp at hx hz; subst hx; subst hz; exact hlt.irrefl _
  | a :: b :: l, x, z, hs, hx, hz => by
    have hs' : SortedRun lt (b :: l) := (List.pairwise_cons.mp hs).2
    have hz' : (b :: l).getLast? = some z := by simpa [List.getLast?_cons_cons] using hz
    rcases List.mem_cons.mp hx with hx | hx
    · subst hx
      have hzm : z ∈ b :: l := List.mem_of_getLast? hz'
      exact (List.pairwise_cons.mp hs).1 z hzm
    · exact sorted_le_getLast hlt hs' hx hz'

theorem sorted_head_le {lt : α → α → Bool} (hlt : StrictWeak lt) {l : List α} {y h : α}
    (hs : SortedRun lt l) (hy : y ∈ l) (hh : l.head? = some h) : lt y h = false := by
  cases l with
  | nil => cases hy
  | cons a l =>
    simp at hh; subst hh
    rcases List.mem_cons.mp hy with hy | hy
    · subst hy; exact hlt.irrefl _
    · exact (List.pairwise_cons.mp hs).1 y hy

theorem before_of_edges {lt : α → α → Bool} (hlt : StrictWeak lt) {x xl yh y : α} {i j : Nat}
    (h1 : lt xl x = false) (h2 : lt y yh = false) (hb : Before lt xl i yh j) : Before lt x i y j := by
  rcases hb with hb | ⟨hb, hij⟩
  · left
    exact hlt.lt_of_lt_of_le (hlt.lt_of_le_of_lt h1 hb) h2
  · right
    exact ⟨hlt.le_trans (hlt.le_trans h1 hb) h2, hij⟩

/-- **Soundness** of the checker (needs sorted runs and a strict weak order). -/
theorem checkPartition_sound {lt : α → α → Bool} (hlt : StrictWeak lt) {runs : List (List α)}
    (hs : ∀ r ∈ runs, SortedRun lt r) {rank : Nat} {offs : List Nat}
    (h : checkPartition lt runs rank offs = true) : IsPartition lt runs rank offs := by
  simp only [checkPartition, Bool.and_eq_true, decide_eq_true_eq, List.all_eq_true, List.mem_range,
    Bool.or_eq_true, beq_iff_eq] at h
  obtain ⟨⟨⟨hlen, hb⟩, hsum⟩, hedge⟩ := h
  refine ⟨hlen, ?_, hsum, ?_⟩
  · intro i r o hr ho
    have hil : i < runs.length := (List.getElem?_eq_some_iff.mp hr).1
    have := hb i hil
    simp only [boundOk, hr, ho, decide_eq_true_eq] at this
    exact this
  · intro i j ri rj oi oj hij hri hrj hoi hoj x hx y hy
    have hil : i < runs.length := (List.getElem?_eq_some_iff.mp hri).1
    have hjl : j < runs.length := (List.getElem?_eq_some_iff.mp hrj).1
    have he := (hedge i hil j hjl).resolve_left hij
    have hsi : SortedRun lt ri := hs ri (List.mem_of_getElem? hri)
    have hsj : SortedRun lt rj := hs rj (List.mem_of_getElem? hrj)
    have hst : SortedRun lt (ri.take oi) := List.Pairwise.sublist (List.take_sublist _ _) hsi
    have hsd : SortedRun lt (rj.drop oj) := List.Pairwise.sublist (List.drop_sublist _ _) hsj
    simp only [edgeOk, hri, hrj, hoi, hoj] at he
    cases hl : (ri.take oi).getLast? with
    | none =>
      rw [List.getLast?_eq_none_iff] at hl
      rw [hl] at hx; cases hx
    | some xl =>
      cases hh : (rj.drop oj).head? with
      | none =>
        rw [List.head?_eq_none_iff] at hh
        rw [hh] at hy; cases hy
      | some yh =>
        rw [hl, hh] at he
        exact before_of_edges hlt (sorted_le_getLast hlt hst hx hl) (sorted_head_le hlt hsd hy hh)
          ((beforeB_iff ..).mp he)

/-- **Completeness** of the checker: it accepts every partition (no hypothesis on the runs). -/
theorem checkPartition_complete {lt : α → α → Bool} {runs : List (List α)} {rank : Nat} {offs : List Nat}
    (h : IsPartition lt runs rank offs) : checkPartition lt runs rank offs = true := by
  simp only [checkPartition, Bool.and_eq_true, decide_eq_true_eq, List.all_eq_true, List.mem_range,
    Bool.or_eq_true, beq_iff_eq]
  refine ⟨⟨⟨h.len, ?_⟩, h.sum⟩, ?_⟩
  · intro i hil
    have hio : i < offs.length := by rw [h.len]; exact hil
    have hr : runs[i]? = some runs[i] := List.getElem?_eq_getElem hil
    have ho : offs[i]? = some offs[i] := List.getElem?_eq_getElem hio
    simp only [boundOk, hr, ho, decide_eq_true_eq]
    exact h.bound i _ _ hr ho
  · intro i hil j hjl
    by_cases hij : i = j
    · left; exact hij
    · right
      have hio : i < offs.length := by rw [h.len]; exact hil
      have hjo : j < offs.length := by rw [h.len]; exact hjl
      have hri : runs[i]? = some runs[i] := List.getElem?_eq_getElem hil
      have hrj : runs[j]? = some runs[j] := List.getElem?_eq_getElem hjl
      have hoi : offs[i]? = some offs[i] := List.getElem?_eq_getElem hio
      have hoj : offs[j]? = some offs[j] := List.getElem?_eq_getElem hjo
      simp only [edgeOk, hri, hrj, hoi, hoj]
      cases hl : (runs[i].take offs[i]).getLast? with
      | none => rfl
      | some xl =>
        cases hh : (runs[j].drop offs[j]).head? with
        | none => rfl
        | some yh =>
          exact (beforeB_iff ..).mpr
            (h.ordered i j _ _ _ _ hij hri hrj hoi hoj xl (List.mem_of_getLast? hl) yh (List.mem_of_head? hh))

/-- Boolean sortedness test of one run (adjacent pairs) -/
def sortedB (lt : α → α → Bool) : List α → Bool
  | [] => true
  | [_] => true
  | x :: y :: r => !lt y x && sortedB lt (y :: r)

theorem sortedB_sound {lt : α → α → Bool} (hlt : StrictWeak lt) : ∀ {l : List α}, sortedB lt l = true → SortedRun lt l
  | [], _ => List.Pairwise.nil
  | [_], _ => List.pairwise_singleton _ _
  | x :: y :: r, h => by
    simp only [sortedB, Bool.and_eq_true, Bool.not_eq_true'] at h
    have ih : SortedRun lt (y :: r) := sortedB_sound hlt h.2
    refine List.pairwise_cons.mpr ⟨?_, ih⟩
    intro z hz
    rcases List.mem_cons.mp hz with hz | hz
    · subst hz; exact h.1
    · exact hlt.le_trans h.1 ((List.pairwise_cons.mp ih).1 z hz)

theorem allSorted_sound {lt : α → α → Bool} (hlt : StrictWeak lt) {runs : List (List α)}
    (h : runs.all (sortedB lt) = true) : ∀ r ∈ runs, SortedRun lt r := by
  intro r hr
  exact sortedB_sound hlt (List.all_eq_true.mp h r hr)

end TlxVerif.C08
