/-
C06 — sampling splitting of the mergesort: piece boundaries are `lower_bound`s of a non-decreasing
sequence of splitter values in the locally sorted slices; the last boundary is the end of every slice.
-/
import TlxVerif.Proofs.C06Sort
namespace TlxVerif.C06
open TlxVerif.C08 (StrictWeak)
open TlxVerif.C07 (Elem kMerge sortStable Tlt Cond TagOrder GoodRuns KeySorted chunkRows lens takes drops
  CrossOrdered LeAll Chain lastOffs mem_takes_flatten mem_drops_flatten)

theorem lowerBound_cons (lt : Int → Int → Bool) (v : Int) (a : Elem) (r : List Elem) :
    lowerBound lt (a :: r) v = if lt a.key v then lowerBound lt r v + 1 else 0 := by
  unfold lowerBound
  simp only [List.takeWhile_cons]
  cases lt a.key v <;> simp

theorem lowerBound_le (lt : Int → Int → Bool) (v : Int) : ∀ r : List Elem, lowerBound lt r v ≤ r.length
  | [] => by simp [lowerBound]
  | a :: r => by
    rw [lowerBound_cons]
    have := lowerBound_le lt v r
    split <;> simp <;> omega

theorem mem_take_lowerBound {lt : Int → Int → Bool} {v : Int} : ∀ {r : List Elem} {x : Elem},
    x ∈ r.take (lowerBound lt r v) → lt x.key v = true
  | [], _, h => by simp at h
  | a :: r, x, h => by
    rw [lowerBound_cons] at h
    cases hav : lt a.key v with
    | false => simp [hav] at h
    | true =>
      simp only [hav, if_true, List.take_succ_cons, List.mem_cons] at h
      rcases h with h | h
      · subst h; exact hav
      · exact mem_take_lowerBound h

theorem mem_drop_lowerBound {lt : Int → Int → Bool} (hlt : StrictWeak lt) {v : Int} : ∀ {r : List Elem} {y : Elem},
    r.Pairwise (fun a b => lt b.key a.key = false) → y ∈ r.drop (lowerBound lt r v) → lt y.key v = false
  | [], _, _, h => by simp at h
  | a :: r, y, hs, h => by
    have hs' := List.pairwise_cons.mp hs
    rw [lowerBound_cons] at h
    cases hav : lt a.key v with
    | false =>
      simp only [hav, Bool.false_eq_true, if_false, List.drop_zero, List.mem_cons] at h
      rcases h with h | h
      · subst h; exact hav
      · -- v ≤ a ≤ y
        exact hlt.le_trans hav (hs'.1 y h)
    | true =>
      simp only [hav, if_true, List.drop_succ_cons] at h
      exact mem_drop_lowerBound hlt hs'.2 h

theorem lowerBound_mono {lt : Int → Int → Bool} (hlt : StrictWeak lt) {v v' : Int} (hv : lt v' v = false) :
    ∀ r : List Elem, lowerBound lt r v ≤ lowerBound lt r v'
  | [] => by simp [lowerBound]
  | a :: r => by
    rw [lowerBound_cons, lowerBound_cons]
    cases hav : lt a.key v with
    | false => simp
    | true =>
      have : lt a.key v' = true := hlt.lt_of_lt_of_le hav hv
      simp [this, lowerBound_mono hlt hv r]

def lbOffs (lt : Int → Int → Bool) (runs : List (List Elem)) (v : Int) : List Nat :=
  runs.map (fun r => lowerBound lt r v)

theorem crossOrdered_lb {lt : Int → Int → Bool} (hlt : StrictWeak lt) (tl : Elem → Elem → Prop)
    {runs : List (List Elem)} (hk : KeySorted lt runs) (v : Int) : CrossOrdered lt tl runs (lbOffs lt runs v) := by
  intro x hx y hy
  obtain ⟨i, ri, oi, hri, hoi, hxi⟩ := mem_takes_flatten hx
  obtain ⟨j, rj, oj, hrj, hoj, hyj⟩ := mem_drops_flatten hy
  have e1 : oi = lowerBound lt ri v := by
    simp [lbOffs, hri] at hoi; exact hoi.symm
  have e2 : oj = lowerBound lt rj v := by
    simp [lbOffs, hrj] at hoj; exact hoj.symm
  subst e1; subst e2
  have h1 := mem_take_lowerBound hxi
  have h2 := mem_drop_lowerBound hlt (hk rj (List.mem_of_getElem? hrj)) hyj
  exact Or.inl (hlt.lt_of_lt_of_le h1 h2)

theorem leAll_lb_lb {lt : Int → Int → Bool} (hlt : StrictWeak lt) {v v' : Int} (hv : lt v' v = false) :
    ∀ runs : List (List Elem), LeAll (lbOffs lt runs v) (lbOffs lt runs v')
  | [] => trivial
  | r :: rs => ⟨lowerBound_mono hlt hv r, leAll_lb_lb hlt hv rs⟩

theorem leAll_lb_lens (lt : Int → Int → Bool) (v : Int) : ∀ runs : List (List Elem), LeAll (lbOffs lt runs v) (lens runs)
  | [] => trivial
  | r :: rs => ⟨lowerBound_le lt v r, leAll_lb_lens lt v rs⟩

/-- offset vectors of the mergesort's sampling splitter -/
def samplingOffsLb (lt : Int → Int → Bool) (runs : List (List Elem)) (vs : List Int) : List (List Nat) :=
  vs.map (lbOffs lt runs) ++ [lens runs]

theorem chain_sampling_lb {lt : Int → Int → Bool} (hlt : StrictWeak lt) (runs : List (List Elem)) :
    ∀ (vs : List Int) (v0 : Int), (v0 :: vs).Pairwise (fun a b => lt b a = false) →
      Chain (lbOffs lt runs v0) (samplingOffsLb lt runs vs)
  | [], v0, _ => ⟨leAll_lb_lens lt v0 runs, trivial⟩
  | v :: vs, v0, h => by
    have h' := List.pairwise_cons.mp h
    exact ⟨leAll_lb_lb hlt (h'.1 v List.mem_cons_self) runs, chain_sampling_lb hlt runs vs v h'.2⟩

/-- **Sampling splitting, mergesort**: for any non-decreasing splitter values the concatenation of the
per-thread merges is the stable sort of the input. -/
theorem mergesort_sampling_eq_stable_sort {lt : Int → Int → Bool} (hlt : StrictWeak lt) {input : List Elem}
    (hpos : input.Pairwise posLt) {bs : List Nat} (hb0 : bs.head? = some 0) (hbm : bs.Pairwise (· ≤ ·))
    (hbl : bs.getLast? = some input.length) (vs : List Int) (hvs : vs.Pairwise (fun a b => lt b a = false)) :
    ((chunkRows ((slicesBy input bs).map (sortStable lt))
        (List.replicate ((slicesBy input bs).map (sortStable lt)).length 0)
        (samplingOffsLb lt ((slicesBy input bs).map (sortStable lt)) vs)).map
      (fun row => kMerge lt row)).flatten = sortStable lt input := by
  have hfl : (slicesBy input bs).flatten = input := by
    rw [slicesBy_flatten input bs 0 hb0 hbm _ hbl]; simp
  have hg := goodRuns_temps hlt hpos hfl
  have hkm := kMerge_temps_eq_sort hlt hpos hfl
  generalize (slicesBy input bs).map (sortStable lt) = runs at hg hkm ⊢
  have hk : KeySorted lt runs := fun r hr => List.Pairwise.imp (fun hab => hab.1) (hg.inner r hr)
  have hchain : Chain (List.replicate runs.length 0) (samplingOffsLb lt runs vs) := by
    cases vs with
    | nil =>
      have := C07.leAll_zero (lens runs)
      simp only [lens, List.length_map] at this
      exact ⟨this, trivial⟩
    | cons v vs =>
      have := C07.leAll_zero (lbOffs lt runs v)
      simp only [lbOffs, List.length_map] at this
      exact ⟨this, chain_sampling_lb hlt runs vs v hvs⟩
  have hcc := C07.concat_chunks hlt tagOrder_posLt hg.cond (samplingOffsLb lt runs vs) (List.replicate runs.length 0)
    hchain (C07.crossOrdered_zero lt posLt runs _)
    (by
      intro o ho
      rcases List.mem_append.mp ho with ho | ho
      · obtain ⟨v, _, rfl⟩ := List.mem_map.mp ho
        exact ⟨by simp [lbOffs], crossOrdered_lb hlt posLt hk v⟩
      · simp at ho; subst ho
        exact ⟨by simp [lens], C07.crossOrdered_lens lt posLt runs⟩)
  rw [C07.takes_zero_flatten] at hcc
  simp only [sortStable, List.foldr_nil, List.nil_append] at hcc
  unfold samplingOffsLb at hcc
  rw [C07.lastOffs_append_singleton, C07.takes_lens] at hcc
  rw [← hkm]
  exact hcc.symm

end TlxVerif.C06
