/-
C08 — Hoare specifications of the read loops of a round: `scanLmax`, `classify`.
-/
import TlxVerif.Proofs.C08Loops
namespace TlxVerif.C08

/-- `lm` is a (value, sequence)-maximal left edge among the sequences `S` -/
def LmaxOn (c : Ctx) (r : Routine) (ab : AB) (S : List Nat) : Option Sample → Prop
  | none => ∀ i ∈ S, A ab i ≤ 0
  | some (v, s) => s ∈ S ∧ 0 < A ab s ∧ v = valAt c s (A ab s - 1) ∧
      ∀ i ∈ S, 0 < A ab i → LeR c.lt r (valAt c i (A ab i - 1)) i v s

theorem scanLmax_spec {c : Ctx} (hg : Good c) (r : Routine) {ab : AB}
    (hb : ∀ i, i < c.runs.size → A ab i ≤ lenAt c i) :
    ∀ (is done : List Nat) (acc : Option Sample), (∀ i ∈ is, i < c.runs.size) →
      (∀ d ∈ done, ∀ i ∈ is, d < i) → is.Pairwise (· < ·) → LmaxOn c r ab done acc →
      Spec (scanLmax c r ab.a is acc) (LmaxOn c r ab (done ++ is))
  | [], done, acc, _, _, _, hacc => by
    rw [scanLmax]
    exact Spec.pure (by simpa using hacc)
  | i :: is, done, acc, hlt_m, hdone, hpw, hacc => by
    have hi : i < c.runs.size := hlt_m i List.mem_cons_self
    have hpw' := List.pairwise_cons.mp hpw
    have hrec : ∀ acc', LmaxOn c r ab (done ++ [i]) acc' →
        Spec (scanLmax c r ab.a is acc') (LmaxOn c r ab (done ++ i :: is)) := by
      intro acc' h'
      have := scanLmax_spec hg r hb is (done ++ [i]) acc' (fun j hj => hlt_m j (List.mem_cons_of_mem _ hj))
        (by
          intro d hd j hj
          rcases List.mem_append.mp hd with hd | hd
          · exact hdone d hd j (List.mem_cons_of_mem _ hj)
          · simp at hd; subst hd; exact hpw'.1 j hj)
        hpw'.2 h'
      simpa using this
    rw [scanLmax]
    by_cases hpos : aget ab.a i > 0
    · rw [if_pos hpos]
      have hrd := Spec.rd c hi (by omega : (0 : Int) ≤ aget ab.a i - 1) (by have := hb i hi; simp only [A] at this; omega)
      refine Spec.bind hrd ?_
      intro x hx
      subst hx
      cases acc with
      | none =>
        apply hrec
        refine ⟨by simp, hpos, rfl, ?_⟩
        intro k hk hkp
        rcases List.mem_append.mp hk with hk | hk
        · have := hacc k hk; omega
        · simp at hk; subst hk; exact LeR.refl hg.hlt r _ _
      | some p =>
        obtain ⟨v, s⟩ := p
        obtain ⟨hs, hsp, hv, hmax⟩ := hacc
        have hsi : s < i := hdone s hs i List.mem_cons_self
        simp only []
        have hts := takesMax_spec hg.hlt r (x := valAt c i (aget ab.a i - 1)) (v := v) hsi
        by_cases htake : takesMax c.lt r (valAt c i (aget ab.a i - 1)) v = true
        · rw [if_pos htake]
          refine Spec.bind hrd ?_
          intro x' hx'
          subst hx'
          apply hrec
          have hle := hts.1 htake
          refine ⟨by simp, hpos, rfl, ?_⟩
          intro k hk hkp
          rcases List.mem_append.mp hk with hk | hk
          · exact LeR.trans hg.hlt (hmax k hk hkp) hle
          · simp at hk; subst hk; exact LeR.refl hg.hlt r _ _
        · rw [if_neg htake]
          apply hrec
          have hle := hts.2 (by simpa using htake)
          refine ⟨List.mem_append_left _ hs, hsp, hv, ?_⟩
          intro k hk hkp
          rcases List.mem_append.mp hk with hk | hk
          · exact hmax k hk hkp
          · simp at hk; subst hk; exact hle
    · rw [if_neg hpos]
      apply hrec
      cases acc with
      | none =>
        intro k hk
        rcases List.mem_append.mp hk with hk | hk
        · exact hacc k hk
        · simp at hk; subst hk; show aget ab.a k ≤ 0; omega
      | some p =>
        obtain ⟨v, s⟩ := p
        obtain ⟨hs, hsp, hv, hmax⟩ := hacc
        refine ⟨List.mem_append_left _ hs, hsp, hv, ?_⟩
        intro k hk hkp
        rcases List.mem_append.mp hk with hk | hk
        · exact hmax k hk hkp
        · simp at hk; subst hk; exact (hpos hkp).elim

/-! ### classify -/

theorem lmaxSpec_of_on {c : Ctx} {r : Routine} {ab : AB} {lm : Option Sample}
    (h : LmaxOn c r ab (List.range c.runs.size) lm) : LmaxSpec c r ab lm := by
  cases lm with
  | none => intro i hi; exact h i (List.mem_range.mpr hi)
  | some p =>
    obtain ⟨v, s⟩ := p
    obtain ⟨hs, h1, h2, h3⟩ := h
    exact ⟨List.mem_range.mp hs, h1, h2, fun i hi hp => h3 i (List.mem_range.mpr hi) hp⟩

open Classical in
/-- the target value of `a[i]` / `b[i]` after the classification loop -/
noncomputable def clsA (c : Ctx) (r : Routine) (n' : Nat) (ab0 : AB) (lm : Option Sample) (i : Nat) : Int :=
  if LeftCond c r n' ab0 lm i then A ab0 i + n' + 1 else A ab0 i

open Classical in
noncomputable def clsB (c : Ctx) (r : Routine) (n' : Nat) (ab0 : AB) (lm : Option Sample) (i : Nat) : Int :=
  if LeftCond c r n' ab0 lm i then B ab0 i else B ab0 i - (n' + 1)

/-- result of the classification loop over `is`: the entries of `is` are classified, all others untouched -/
def ClsPost (c : Ctx) (r : Routine) (n' : Nat) (ab0 : AB) (lm : Option Sample) (is : List Nat) (ab ab' : AB) : Prop :=
  ab'.a.size = c.runs.size ∧ ab'.b.size = c.runs.size ∧
  ∀ i, i < c.runs.size →
    (i ∈ is → A ab' i = clsA c r n' ab0 lm i ∧ B ab' i = clsB c r n' ab0 lm i) ∧
    (i ∉ is → A ab' i = A ab i ∧ B ab' i = B ab i)

theorem classify_spec {c : Ctx} (hg : Good c) {r : Routine} {n n' : Nat} (hn : n = 2 * n' + 1) {ab0 : AB}
    (hinv : Inv c r n ab0) (lm : Option Sample) :
    ∀ (is : List Nat) (ab : AB), is.Nodup → (∀ i ∈ is, i < c.runs.size) →
      ab.a.size = c.runs.size → ab.b.size = c.runs.size →
      (∀ i ∈ is, A ab i = A ab0 i ∧ B ab i = B ab0 i) →
      Spec (classify c r (seqlenOf c) lm n' is ab) (ClsPost c r n' ab0 lm is ab)
  | [], ab, _, _, hsa, hsb, _ => by
    rw [classify]
    exact Spec.pure ⟨hsa, hsb, fun i _ => ⟨fun h => (List.not_mem_nil h).elim, fun _ => ⟨rfl, rfl⟩⟩⟩
  | i :: is, ab, hnd, hlt_m, hsa, hsb, hsame => by
    have hi : i < c.runs.size := hlt_m i List.mem_cons_self
    have hnd' := List.nodup_cons.mp hnd
    obtain ⟨h0, h1, _, h3⟩ := hinv.str i hi
    obtain ⟨hAi, hBi⟩ := hsame i List.mem_cons_self
    simp only [A, B] at hAi hBi h0 h1 h3
    have hmid : (aget ab.b i + aget ab.a i).tdiv 2 = aget ab0.a i + n' := by
      rw [Int.tdiv_eq_ediv_of_nonneg (by omega), hAi, hBi, h3]; omega
    have hsl : aget (seqlenOf c) i = lenAt c i := aget_seqlenOf c hi
    -- common continuation: after updating entry i (to the classified values) recurse on `is`
    have hrec : ∀ ab1 : AB, ab1.a.size = c.runs.size → ab1.b.size = c.runs.size →
        A ab1 i = clsA c r n' ab0 lm i → B ab1 i = clsB c r n' ab0 lm i →
        (∀ j, j ≠ i → A ab1 j = A ab j ∧ B ab1 j = B ab j) →
        Spec (classify c r (seqlenOf c) lm n' is ab1) (ClsPost c r n' ab0 lm (i :: is) ab) := by
      intro ab1 hs1 hs2 ha1 hb1 hoth
      have := classify_spec hg hn hinv lm is ab1 hnd'.2 (fun j hj => hlt_m j (List.mem_cons_of_mem _ hj)) hs1 hs2
        (by
          intro j hj
          have hji : j ≠ i := fun e => hnd'.1 (e ▸ hj)
          have := hoth j hji
          have h2 := hsame j (List.mem_cons_of_mem _ hj)
          exact ⟨this.1.trans h2.1, this.2.trans h2.2⟩)
      refine Spec.mono this ?_
      intro ab' ⟨hpa, hpb, hp⟩
      refine ⟨hpa, hpb, ?_⟩
      intro j hj
      obtain ⟨hin, hout⟩ := hp j hj
      constructor
      · intro hmem
        rcases List.mem_cons.mp hmem with hmem | hmem
        · subst hmem
          have := hout hnd'.1
          exact ⟨this.1.trans ha1, this.2.trans hb1⟩
        · exact hin hmem
      · intro hnm
        have hji : j ≠ i := fun e => hnm (e ▸ List.mem_cons_self)
        have hnis : j ∉ is := fun e => hnm (List.mem_cons_of_mem _ e)
        have := hout hnis
        have h2 := hoth j hji
        exact ⟨this.1.trans h2.1, this.2.trans h2.2⟩
    -- the two possible updates of entry i
    have hright : ¬ LeftCond c r n' ab0 lm i →
        Spec (classify c r (seqlenOf c) lm n' is ⟨ab.a, aset ab.b i (aget ab.b i - (n' + 1))⟩)
          (ClsPost c r n' ab0 lm (i :: is) ab) := by
      intro hc
      apply hrec
      · exact hsa
      · rw [size_aset]; exact hsb
      · show aget ab.a i = _
        rw [clsA, if_neg hc, hAi]
      · show aget (aset ab.b i _) i = _
        rw [aget_aset_eq _ (by rw [hsb]; exact hi), clsB, if_neg hc, hBi]
      · intro j hji
        exact ⟨rfl, aget_aset_ne _ (Ne.symm hji)⟩
    cases lm with
    | none =>
      rw [classify]
      exact hright (fun h => h)
    | some p =>
      obtain ⟨lv, ls⟩ := p
      rw [classify]
      simp only [hmid, hsl]
      by_cases hlen : aget ab0.a i + ↑n' < lenAt c i
      · rw [if_pos hlen]
        refine Spec.bind (Spec.rd c hi (by omega) hlen) ?_
        intro x hx
        subst hx
        by_cases hl : leftTest c.lt r (valAt c i (aget ab0.a i + ↑n')) i lv ls = true
        · rw [if_pos hl]
          have hc : LeftCond c r n' ab0 (some (lv, ls)) i := ⟨hlen, (leftTest_iff _ _ _ _ _ _).mp hl⟩
          apply hrec
          · rw [size_aset]; exact hsa
          · exact hsb
          · show aget (aset ab.a i _) i = _
            rw [aget_aset_eq _ (by rw [hsa]; exact hi), clsA, if_pos hc]
            simp only [A]; omega
          · show aget ab.b i = _
            rw [clsB, if_pos hc, hBi]
          · intro j hji
            exact ⟨aget_aset_ne _ (Ne.symm hji), rfl⟩
        · rw [if_neg hl]
          exact hright (fun hc => hl ((leftTest_iff _ _ _ _ _ _).mpr hc.2))
      · rw [if_neg hlen]
        exact hright (fun hc => hlen hc.1)

end TlxVerif.C08
