/-
C04 — the splitter tree as a search tree.  `IsBST tree f idx S`: the `f` levels below (and
including) level-order index `idx` hold the splitters `S` in order.  On such a tree the
descent of `find_bkt` ends in the leaf numbered by the lower bound of the key in `S`, hence
the bucket id `2·i (+1 if the key equals splitter i)` is monotone in the key.
-/
import TlxVerif.Proofs.C04Classify
namespace TlxVerif.C04

inductive IsBST (tree : Array Key) : Nat → Nat → List Key → Prop
  | leaf (idx : Nat) : IsBST tree 0 idx []
  | node (f idx : Nat) (m : Key) (SL SR : List Key) :
      tree[idx]? = some m → IsBST tree f (2 * idx) SL → IsBST tree f (2 * idx + 1) SR →
      (∀ s ∈ SL, s ≤ m) → (∀ s ∈ SR, m ≤ s) → IsBST tree (f + 1) idx (SL ++ m :: SR)

theorem IsBST.length {tree : Array Key} {f idx : Nat} {S : List Key} (h : IsBST tree f idx S) :
    S.length = 2 ^ f - 1 := by
  induction h with
  | leaf idx => simp
  | node f idx m SL SR _ _ _ _ _ ihL ihR =>
    simp only [List.length_append, List.length_cons, ihL, ihR, Nat.pow_succ]
    have : 0 < 2 ^ f := Nat.pow_pos (by omega)
    omega

/-- lower bound: the number of splitters strictly below the key -/
def lowerBound (S : List Key) (k : Key) : Nat := S.countP (fun s => s < k)

theorem descend_bst (c : Classifier) (k : Key) :
    ∀ (f idx : Nat) (S : List Key), IsBST c.tree f idx S → f ≤ c.treebits →
      2 ^ (c.treebits - f) ≤ idx → idx < 2 ^ (c.treebits - f + 1) →
      descend c k f idx = some (idx * 2 ^ f + lowerBound S k) := by
  intro f idx S h
  induction h with
  | leaf idx =>
    intro _ hlo _
    simp only [descend, numSplitters, Nat.sub_zero, lowerBound, List.countP_nil, Nat.pow_zero, Nat.mul_one,
      Nat.add_zero] at hlo ⊢
    have : 0 < 2 ^ c.treebits := Nat.pow_pos (by omega)
    have : ¬ idx ≤ 2 ^ c.treebits - 1 := by omega
    simp [this]
  | node f idx m SL SR hm _ _ hL hR ihL ihR =>
    intro hf hlo hhi
    have hpos : 0 < 2 ^ c.treebits := Nat.pow_pos (by omega)
    -- the node is inside the tree
    have hpow : 2 ^ (c.treebits - (f + 1) + 1) = 2 ^ (c.treebits - f) := by
      congr 1; omega
    have hle : 2 ^ (c.treebits - f) ≤ 2 ^ c.treebits := Nat.pow_le_pow_right (by omega) (by omega)
    have hin : idx ≤ numSplitters c.treebits := by
      unfold numSplitters; rw [hpow] at hhi; omega
    have hpow2 : 2 ^ (c.treebits - f) = 2 * 2 ^ (c.treebits - (f + 1)) := by
      have : c.treebits - f = (c.treebits - (f + 1)) + 1 := by omega
      rw [this, Nat.pow_succ]; omega
    have hlen : SL.length = 2 ^ f - 1 := by
      rename_i hbl _; exact hbl.length
    have hposf : 0 < 2 ^ f := Nat.pow_pos (by omega)
    simp only [descend, hin, if_true, hm, Option.bind_eq_bind, Option.bind_some]
    by_cases hk : k ≤ m
    · simp only [hk, if_true, Nat.add_zero]
      have hup : 2 ^ (c.treebits - f + 1) = 2 * 2 ^ (c.treebits - f) := by rw [Nat.pow_succ]; omega
      rw [ihL (by omega) (by rw [hpow2]; omega) (by rw [hpow] at hhi; rw [hup]; omega)]
      congr 1
      simp only [lowerBound, List.countP_append, List.countP_cons]
      have h1 : ¬ m < k := by simpa [BitVec.not_lt] using hk
      have h2 : SR.countP (fun s => s < k) = 0 := by
        rw [List.countP_eq_zero]
        intro s hs
        have := hR s hs
        simp only [decide_eq_true_eq, BitVec.not_lt]
        rw [BitVec.le_def] at hk this ⊢; omega
      simp only [h1, decide_false, Bool.false_eq_true, if_false, h2, Nat.pow_succ]
      rw [Nat.mul_comm 2 idx, Nat.mul_assoc, Nat.mul_comm 2 (2 ^ f)]
      omega
    · simp only [hk, if_false]
      have hup : 2 ^ (c.treebits - f + 1) = 2 * 2 ^ (c.treebits - f) := by rw [Nat.pow_succ]; omega
      rw [ihR (by omega) (by rw [hpow2]; omega) (by rw [hpow] at hhi; rw [hup]; omega)]
      congr 1
      simp only [lowerBound, List.countP_append, List.countP_cons]
      have hmk : m < k := by simpa [BitVec.not_le] using hk
      have h2 : SL.countP (fun s => s < k) = SL.length := by
        rw [List.countP_eq_length]
        intro s hs
        simp only [decide_eq_true_eq]
        have h1 := hL s hs
        rw [BitVec.le_def] at h1; rw [BitVec.lt_def] at hmk ⊢; omega
      simp only [hmk, decide_true, if_true, h2, hlen, Nat.pow_succ]
      rw [Nat.add_mul, Nat.mul_comm 2 idx, Nat.mul_assoc, Nat.mul_comm 2 (2 ^ f)]
      omega

theorem lowerBound_mono (S : List Key) {k k' : Key} (h : k ≤ k') : lowerBound S k ≤ lowerBound S k' := by
  unfold lowerBound
  apply List.countP_mono_left
  intro s _ hs
  simp only [decide_eq_true_eq] at hs ⊢
  rw [BitVec.le_def] at h; rw [BitVec.lt_def] at hs ⊢; omega

theorem lowerBound_le (S : List Key) (k : Key) : lowerBound S k ≤ S.length := List.countP_le_length

/-- in a sorted list an element below the key sits before the key's lower bound -/
theorem lt_lowerBound_of_sorted : ∀ (S : List Key), S.Pairwise (fun a b => a ≤ b) → ∀ (j : Nat) (x k : Key),
    S[j]? = some x → x < k → j < lowerBound S k
  | [], _, j, x, k, h, _ => by simp at h
  | s :: S, hs, 0, x, k, h, hx => by
    simp only [List.getElem?_cons_zero, Option.some.injEq] at h
    subst h
    simp [lowerBound, List.countP_cons, hx]
  | s :: S, hs, j + 1, x, k, h, hx => by
    simp only [List.getElem?_cons_succ] at h
    rw [List.pairwise_cons] at hs
    have := lt_lowerBound_of_sorted S hs.2 j x k h hx
    have hsx : s ≤ x := hs.1 x (List.mem_of_getElem? h)
    have hsk : s < k := by
      rw [BitVec.le_def] at hsx; rw [BitVec.lt_def] at hx ⊢; omega
    simp only [lowerBound, List.countP_cons, hsk, decide_true, if_true] at this ⊢
    omega

/-- `find_bkt` on a search tree: lower bound of the key among the splitters, plus one for an
exact hit -/
theorem findBkt_bst {c : Classifier} {useCalc : Bool} {S : List Key} (hbst : IsBST c.tree c.treebits 1 S)
    (hspl : ∀ i, i < numSplitters c.treebits → splOf c useCalc i = S[i]?) (k : Key) :
    c.findBkt useCalc k = some (2 * lowerBound S k + (if S[lowerBound S k]? = some k then 1 else 0)) := by
  have hd := descend_bst c k c.treebits 1 S hbst (Nat.le_refl _) (by simp) (by simp)
  have hlen := hbst.length
  have hpos : 0 < 2 ^ c.treebits := Nat.pow_pos (by omega)
  have hlb := lowerBound_le S k
  unfold Classifier.findBkt
  have hi : 1 * 2 ^ c.treebits + lowerBound S k - (numSplitters c.treebits + 1) = lowerBound S k := by
    unfold numSplitters; omega
  simp only [hd, Option.bind_eq_bind, Option.bind_some, hi]
  unfold numSplitters
  by_cases hlt : lowerBound S k < 2 ^ c.treebits - 1
  · simp only [hlt, if_true]
    have := hspl (lowerBound S k) (by unfold numSplitters; exact hlt)
    unfold splOf at this
    have hget : S[lowerBound S k]? = some (S[lowerBound S k]'(by omega)) := List.getElem?_eq_getElem (by omega)
    cases useCalc with
    | true =>
      simp only [if_true] at this ⊢
      rw [this, hget]
      simp only [Option.bind_some, Option.pure_def, Option.some.injEq]
      by_cases he : S[lowerBound S k]'(by omega) = k <;> simp [he]
    | false =>
      simp only [Bool.false_eq_true, if_false] at this ⊢
      rw [this, hget]
      simp only [Option.bind_some, Option.pure_def, Option.some.injEq]
      by_cases he : S[lowerBound S k]'(by omega) = k <;> simp [he]
  · simp only [hlt, if_false, Option.pure_def, Option.some.injEq]
    have : S[lowerBound S k]? = none := List.getElem?_eq_none (by omega)
    simp [this]

/-- **Classification is monotone**: a smaller bucket id means a strictly smaller key. -/
theorem findBkt_lt {c : Classifier} {useCalc : Bool} {S : List Key} (hbst : IsBST c.tree c.treebits 1 S)
    (hsorted : S.Pairwise (fun a b => a ≤ b)) (hspl : ∀ i, i < numSplitters c.treebits → splOf c useCalc i = S[i]?)
    {k k' : Key} {b b' : Nat} (h : c.findBkt useCalc k = some b) (h' : c.findBkt useCalc k' = some b')
    (hlt : b < b') : k < k' := by
  rw [findBkt_bst hbst hspl k] at h
  rw [findBkt_bst hbst hspl k'] at h'
  simp only [Option.some.injEq] at h h'
  rcases Nat.lt_or_ge k.toNat k'.toNat with hk | hk
  · exact BitVec.lt_def.2 hk
  · exfalso
    have hle : k' ≤ k := BitVec.le_def.2 hk
    have hm := lowerBound_mono S hle
    by_cases he' : S[lowerBound S k']? = some k'
    · simp only [he', if_true] at h'
      by_cases hkk : k' = k
      · subst hkk; simp only [he', if_true] at h; omega
      · have hklt : k' < k := by
          rw [BitVec.lt_def]
          have : k'.toNat ≠ k.toNat := fun e => hkk (BitVec.eq_of_toNat_eq e)
          omega
        have := lt_lowerBound_of_sorted S hsorted _ _ _ he' hklt
        split at h <;> omega
    · simp only [he', if_false] at h'
      split at h <;> omega

end TlxVerif.C04
