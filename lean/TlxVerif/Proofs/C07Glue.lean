/-
C07/C06 — glue between the executable models and the `chunkRows`-based theorems:
`mapM` in `Except`, the chunk table, one thread's part, and `assemble`.
-/
import TlxVerif.Proofs.C07Windows
namespace TlxVerif.C07
open TlxVerif.C08 (StrictWeak)

theorem mapM_ok {α β ε : Type} {f : α → Except ε β} {g : α → β} :
    ∀ (l : List α), (∀ x ∈ l, f x = .ok (g x)) → l.mapM f = .ok (l.map g)
  | [], _ => rfl
  | x :: l, h => by
    rw [List.mapM_cons, h x List.mem_cons_self, mapM_ok l (fun y hy => h y (List.mem_cons_of_mem _ hy))]
    rfl

theorem ok_bind {α β ε : Type} (x : α) (f : α → Except ε β) : (Except.ok x >>= f) = f x := rfl

/-! ### one thread -/

/-- slicing a row of the chunk table gives the chunk row of the theorems -/
theorem slice_row : ∀ (seqs : List (List Elem)) (prev o : List Nat), LeAll prev o → o.length = seqs.length →
    Bounded seqs o →
    (List.zip seqs (List.zipWith Chunk.mk prev o)).mapM (fun rc => sliceChunk rc.1 rc.2) =
      .ok (drops (takes seqs o) prev)
  | [], [], [], _, _, _ => rfl
  | [], _ :: _, _ :: _, _, h, _ => by simp at h
  | _ :: _, [], [], _, h, _ => by simp at h
  | _, [], _ :: _, h, _, _ => h.elim
  | _, _ :: _, [], h, _, _ => h.elim
  | r :: rs, a :: prev, b :: o, hle, hlen, hb => by
    have hb0 : b ≤ r.length := hb 0 r b rfl rfl
    have ih := slice_row rs prev o hle.2 (by simpa using hlen)
      (fun i r' x h1 h2 => hb (i + 1) r' x (by simpa using h1) (by simpa using h2))
    have hs : sliceChunk r ⟨a, b⟩ = .ok ((r.take b).drop a) := by
      unfold sliceChunk
      have : ¬ ((decide (b < a) || decide (b > r.length)) = true) := by
        have := hle.1; simp; omega
      rw [if_neg this]; rfl
    simp only [List.zipWith_cons_cons, List.zip_cons_cons, List.mapM_cons, hs, ih, takes, drops]
    rfl

theorem map_first_zipWith : ∀ (prev o : List Nat), prev.length = o.length →
    (List.zipWith Chunk.mk prev o).map (·.first) = prev
  | [], [], _ => rfl
  | [], _ :: _, h => by simp at h
  | _ :: _, [], h => by simp at h
  | a :: prev, b :: o, h => by
    simp only [List.zipWith_cons_cons, List.map_cons]
    rw [map_first_zipWith prev o (by simpa using h)]

theorem sum_local_zipWith : ∀ (prev o : List Nat), LeAll prev o →
    ((List.zipWith Chunk.mk prev o).map (fun c => c.second - c.first)).sum + prev.sum = o.sum
  | [], [], _ => rfl
  | [], _ :: _, h => h.elim
  | _ :: _, [], h => h.elim
  | a :: prev, b :: o, h => by
    have ih := sum_local_zipWith prev o h.2
    have := h.1
    simp only [List.zipWith_cons_cons, List.map_cons, List.sum_cons]
    omega

/-- **one thread of the model = one chunk row of the theorems** (when the slab ends inside `size`) -/
theorem threadPart_eq (lt : Int → Int → Bool) {seqs : List (List Elem)} {size : Nat} {prev o : List Nat}
    (hle : LeAll prev o) (hlen : o.length = seqs.length) (hb : Bounded seqs o) (hs : o.sum ≤ size) :
    threadPart lt seqs size (List.zipWith Chunk.mk prev o) =
      .ok (prev.sum, kMerge lt (drops (takes seqs o) prev)) := by
  have hloc := sum_local_zipWith prev o hle
  have hrow := chunk_row_length hle hlen hb
  unfold threadPart
  simp only [slice_row seqs prev o hle hlen hb, map_first_zipWith prev o hle.length_eq, bind, Except.bind]
  have : ¬ prev.sum > size := by omega
  rw [if_neg this]
  unfold kMergeTake
  rw [List.take_of_length_le]
  · rfl
  · rw [kMerge_eq_sortStable, sortStable_length]; omega

/-- the per-thread results computed by the model for a chain of slab ends -/
def blocksFrom (lt : Int → Int → Bool) (seqs : List (List Elem)) : List Nat → List (List Nat) → List (Nat × List Elem)
  | _, [] => []
  | prev, o :: os => (prev.sum, kMerge lt (drops (takes seqs o) prev)) :: blocksFrom lt seqs o os

theorem rows_mapM (lt : Int → Int → Bool) {seqs : List (List Elem)} {size : Nat} :
    ∀ (os : List (List Nat)) (prev : List Nat), Chain prev os →
      (∀ o ∈ os, o.length = seqs.length ∧ Bounded seqs o ∧ o.sum ≤ size) →
      (chunkTable prev os).mapM (threadPart lt seqs size) = .ok (blocksFrom lt seqs prev os)
  | [], _, _, _ => rfl
  | o :: os, prev, hch, hall => by
    have ho := hall o List.mem_cons_self
    simp only [chunkTable, List.mapM_cons, threadPart_eq lt hch.1 ho.1 ho.2.1 ho.2.2,
      rows_mapM lt os o hch.2 (fun o' h' => hall o' (List.mem_cons_of_mem _ h')), blocksFrom]
    rfl

theorem blocksFrom_snd (lt : Int → Int → Bool) (seqs : List (List Elem)) :
    ∀ (os : List (List Nat)) (prev : List Nat),
      (blocksFrom lt seqs prev os).map (·.2) = (chunkRows seqs prev os).map (fun row => kMerge lt row)
  | [], _ => rfl
  | o :: os, prev => by simp [blocksFrom, chunkRows, blocksFrom_snd lt seqs os o]

/-! ### assemble -/

/-- windows are adjacent, starting at position `k` -/
def Consec : Nat → List (Nat × List Elem) → Prop
  | _, [] => True
  | k, (tp, es) :: rest => tp = k ∧ Consec (k + es.length) rest

theorem blocksFrom_consec (lt : Int → Int → Bool) {seqs : List (List Elem)} :
    ∀ (os : List (List Nat)) (prev : List Nat), Chain prev os →
      (∀ o ∈ os, o.length = seqs.length ∧ Bounded seqs o) → Consec prev.sum (blocksFrom lt seqs prev os)
  | [], _, _, _ => trivial
  | o :: os, prev, hch, hall => by
    have ho := hall o List.mem_cons_self
    refine ⟨rfl, ?_⟩
    have hrow := chunk_row_length hch.1 ho.1 ho.2
    rw [kMerge_eq_sortStable, sortStable_length]
    have : prev.sum + (drops (takes seqs o) prev).flatten.length = o.sum := by omega
    rw [this]
    exact blocksFrom_consec lt os o hch.2 (fun o' h' => hall o' (List.mem_cons_of_mem _ h'))

theorem place_spec : ∀ (es : List Elem) (A : List Elem) (n : Nat), es.length ≤ n →
    place (A.map some ++ List.replicate n none) A.length es =
      .ok ((A ++ es).map some ++ List.replicate (n - es.length) none)
  | [], A, n, _ => by simp [place]; rfl
  | e :: es, A, n, h => by
    have hn : 0 < n := by simp at h; omega
    unfold place
    have hget : (A.map some ++ List.replicate n none)[A.length]? = some none := by
      rw [List.getElem?_append_right (by simp)]
      simp [hn]
    rw [hget]
    have hset : (A.map some ++ List.replicate n none).set A.length (some e) =
        (A ++ [e]).map some ++ List.replicate (n - 1) none := by
      obtain ⟨m, rfl⟩ : ∃ m, n = m + 1 := ⟨n - 1, by omega⟩
      rw [List.set_append_right _ _ (by simp)]
      simp [List.replicate_succ]
    simp only [hset]
    have ih := place_spec es (A ++ [e]) (n - 1) (by simp at h; omega)
    rw [show (A ++ [e]).length = A.length + 1 by simp] at ih
    rw [ih]
    simp only [List.append_assoc, List.singleton_append, List.length_cons]
    congr 3
    omega

theorem placeAll_spec : ∀ (wins : List (Nat × List Elem)) (A : List Elem) (n : Nat), Consec A.length wins →
    ((wins.map (·.2.length)).sum ≤ n) →
    placeAll (A.map some ++ List.replicate n none) wins =
      .ok ((A ++ (wins.map (·.2)).flatten).map some ++ List.replicate (n - (wins.map (·.2.length)).sum) none)
  | [], A, n, _, _ => by simp [placeAll]; rfl
  | (tp, es) :: rest, A, n, hc, hn => by
    obtain ⟨rfl, hc'⟩ := hc
    simp only [List.map_cons, List.sum_cons] at hn
    unfold placeAll
    rw [place_spec es A n (by omega)]
    have ih := placeAll_spec rest (A ++ es) (n - es.length) (by simpa using hc') (by omega)
    simp only [bind, Except.bind]
    rw [ih]
    simp only [List.map_cons, List.flatten_cons, List.sum_cons, List.append_assoc]
    congr 3
    omega

theorem mapM_some : ∀ (l : List Elem),
    (l.map some).mapM (fun o => match o with
      | some e => (pure e : Except String Elem)
      | none => throw "output position never written") = .ok l
  | [] => rfl
  | x :: l => by
    rw [List.map_cons, List.mapM_cons, mapM_some l]
    rfl

/-- **assemble**: adjacent windows that fill the output exactly are simply concatenated -/
theorem assemble_consec {size : Nat} {wins : List (Nat × List Elem)} (hc : Consec 0 wins)
    (hs : (wins.map (·.2.length)).sum = size) : assemble size wins = .ok (wins.map (·.2)).flatten := by
  unfold assemble
  have := placeAll_spec wins [] size (by simpa using hc) (by omega)
  simp only [List.map_nil, List.nil_append] at this
  rw [this]
  simp only [bind, Except.bind, hs, Nat.sub_self, List.replicate_zero, List.append_nil]
  exact mapM_some _

theorem blocks_total_length (lt : Int → Int → Bool) {seqs : List (List Elem)} :
    ∀ (os : List (List Nat)) (prev : List Nat), Chain prev os →
      (∀ o ∈ os, o.length = seqs.length ∧ Bounded seqs o) →
      ((blocksFrom lt seqs prev os).map (·.2.length)).sum + prev.sum = (lastOffs prev os).sum
  | [], _, _, _ => by simp [blocksFrom, lastOffs]
  | o :: os, prev, hch, hall => by
    have ho := hall o List.mem_cons_self
    have hrow := chunk_row_length hch.1 ho.1 ho.2
    have ih := blocks_total_length lt os o hch.2 (fun o' h' => hall o' (List.mem_cons_of_mem _ h'))
    simp only [blocksFrom, List.map_cons, List.sum_cons, lastOffs]
    rw [kMerge_eq_sortStable, sortStable_length]
    omega

end TlxVerif.C07
