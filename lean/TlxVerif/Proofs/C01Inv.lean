/-
C01/C02 — the shape invariant (balance, level fields, fill bounds, child counts) and its
preservation by `insert_descend` / `insert_start`.
-/
import TlxVerif.Model.C01Tree
import TlxVerif.Proofs.C01Basic
namespace TlxVerif.C01

variable {K V : Type}

/-- a non-root subtree of height `h`: every leaf at depth `h`, `level` fields consistent,
`slotuse + 1` children, every node between half full and full -/
def Shape (p : Params K) : Nat → BNode K V → Prop
  | 0, .leaf es => p.leafMin ≤ es.length ∧ es.length ≤ p.leafMax
  | _ + 1, .leaf _ => False
  | 0, .inner .. => False
  | h + 1, .inner l keys kids =>
    l = h + 1 ∧ kids.length = keys.length + 1 ∧ p.innerMin ≤ keys.length ∧ keys.length ≤ p.innerMax ∧
      ∀ c ∈ kids, Shape p h c

/-- the same with explicit lower fill bounds `ml`/`mi` for the top node (the root may hold fewer) -/
def ShapeTop (p : Params K) (ml mi : Nat) : Nat → BNode K V → Prop
  | 0, .leaf es => ml ≤ es.length ∧ es.length ≤ p.leafMax
  | _ + 1, .leaf _ => False
  | 0, .inner .. => False
  | h + 1, .inner l keys kids =>
    l = h + 1 ∧ kids.length = keys.length + 1 ∧ mi ≤ keys.length ∧ keys.length ≤ p.innerMax ∧
      ∀ c ∈ kids, Shape p h c

theorem Shape.top {p : Params K} {h : Nat} {n : BNode K V} (hs : Shape p h n) :
    ShapeTop p p.leafMin p.innerMin h n := by
  cases h <;> cases n <;> simpa [Shape, ShapeTop] using hs

theorem ShapeTop.shape {p : Params K} {h : Nat} {n : BNode K V}
    (hs : ShapeTop p p.leafMin p.innerMin h n) : Shape p h n := by
  cases h <;> cases n <;> simpa [Shape, ShapeTop] using hs

theorem ShapeTop.level {p : Params K} {ml mi h : Nat} {n : BNode K V} (hs : ShapeTop p ml mi h n) :
    n.level = h := by
  cases h <;> cases n <;> simp [ShapeTop, BNode.level] at hs ⊢
  exact hs.1

theorem ShapeTop.mono {p : Params K} {ml mi ml' mi' h : Nat} {n : BNode K V} (hs : ShapeTop p ml mi h n)
    (h1 : ml' ≤ ml) (h2 : mi' ≤ mi) : ShapeTop p ml' mi' h n := by
  cases h <;> cases n <;> simp [ShapeTop] at hs ⊢
  · omega
  · obtain ⟨a, b, c, d, e⟩ := hs
    exact ⟨a, b, by omega, d, e⟩

theorem ShapeTop.ml_irrel {p : Params K} {ml ml' mi h : Nat} {n : BNode K V} (hs : ShapeTop p ml mi (h + 1) n) :
    ShapeTop p ml' mi (h + 1) n := by
  cases n <;> simpa [ShapeTop] using hs

/-- the capacities the property quantifies over -/
structure Params.Valid (p : Params K) : Prop where
  leaf4 : 4 ≤ p.leafMax
  inner4 : 4 ≤ p.innerMax

/-! ### list membership helpers -/

theorem mem_insertAt {α : Type} {l : List α} {i : Nat} {x c : α} (h : c ∈ insertAt l i x) : c = x ∨ c ∈ l := by
  unfold insertAt at h
  rcases List.mem_append.mp h with h | h
  · exact Or.inr (List.mem_of_mem_take h)
  · rcases List.mem_cons.mp h with h | h
    · exact Or.inl h
    · exact Or.inr (List.mem_of_mem_drop h)

theorem length_insertAt {α : Type} (l : List α) (i : Nat) (x : α) : (insertAt l i x).length = l.length + 1 := by
  simp [insertAt]; omega

/-! ### the leaf step -/

theorem splitLeafInsert_shape (p : Params K) (pv : p.Valid)
    (es : List (K × V)) (slot : Nat) (k : K) (v : V) (hfull : es.length = p.leafMax) (r : InsOut K V)
    (hr : splitLeafInsert es slot k v = some r) :
    ∃ sk sn, r.split = some (sk, sn) ∧ Shape p 0 r.node ∧ Shape p 0 sn := by
  have hv := pv.leaf4
  unfold splitLeafInsert at hr
  simp only at hr
  split at hr
  · cases hr
  · by_cases hge : slot ≥ es.length / 2
    · rw [if_pos hge] at hr
      cases hr
      refine ⟨_, _, rfl, ?_, ?_⟩ <;>
        simp only [Shape, Params.leafMin, Gen.leafSlotmin, length_insertAt, List.length_take, List.length_drop] <;> omega
    · rw [if_neg hge] at hr
      cases hr
      refine ⟨_, _, rfl, ?_, ?_⟩ <;>
        simp only [Shape, Params.leafMin, Gen.leafSlotmin, length_insertAt, List.length_take, List.length_drop] <;> omega

theorem leafInsert_shape (p : Params K) (pv : p.Valid) (ml : Nat) (_hml : ml ≤ p.leafMin)
    (mi : Nat) (es : List (K × V)) (k : K) (v : V) (hs : ShapeTop (V := V) p ml mi 0 (.leaf es)) (r : InsOut K V)
    (hr : leafInsert p es k v = some r) :
    (r.split = none → ShapeTop p ml mi 0 r.node) ∧
    (∀ sk sn, r.split = some (sk, sn) → Shape p 0 r.node ∧ Shape p 0 sn) := by
  simp only [ShapeTop] at hs
  unfold leafInsert at hr
  simp only at hr
  by_cases h1 : (!p.dup && presentAt p es (findLower p (keysOf es) k) k) = true
  · rw [if_pos h1] at hr
    cases hr
    simp [ShapeTop, hs]
  · rw [if_neg h1] at hr
    by_cases hfull : es.length = p.leafMax
    · rw [if_pos hfull] at hr
      obtain ⟨sk, sn, hsp, h2, h3⟩ := splitLeafInsert_shape p pv es _ k v hfull r hr
      refine ⟨(by intro h; rw [hsp] at h; cases h), ?_⟩
      intro sk' sn' h
      rw [hsp] at h
      cases h
      exact ⟨h2, h3⟩
    · rw [if_neg hfull] at hr
      cases hr
      refine ⟨?_, by intro sk sn h; cases h⟩
      intro _
      simp only [ShapeTop, length_insertAt]
      omega

/-! ### the inner step -/

theorem splitMid_cases (n slot : Nat) :
    (slot ≤ n / 2 ∧ n / 2 > n - (n / 2 + 1) ∧ splitMid n slot = n / 2 - 1) ∨
    (¬(slot ≤ n / 2 ∧ n / 2 > n - (n / 2 + 1)) ∧ splitMid n slot = n / 2) := by
  unfold splitMid
  by_cases h : slot ≤ n / 2 ∧ n / 2 > n - (n / 2 + 1)
  · left; rw [if_pos h]; exact ⟨h.1, h.2, rfl⟩
  · right; rw [if_neg h]; exact ⟨h, rfl⟩

theorem splitInnerAbsorb_shape (p : Params K) (pv : p.Valid) (h l : Nat) (keys : List K) (kids : List (BNode K V))
    (slot : Nat) (nk : K) (nc : BNode K V)
    (hl : l = h + 1) (hk : kids.length = keys.length + 1) (hfull : keys.length = p.innerMax)
    (hslot : slot ≤ keys.length) (hkids : ∀ c ∈ kids, Shape p h c) (hnc : Shape p h nc)
    (node : BNode K V) (split : Option (K × BNode K V)) (ni : Nat)
    (hr : splitInnerAbsorb l keys kids slot nk nc (splitMid keys.length slot) = some (node, split, ni)) :
    ∃ sk sn, split = some (sk, sn) ∧ Shape p (h + 1) node ∧ Shape p (h + 1) sn ∧ ni = 1 := by
  have hv := pv.inner4
  generalize hmid : splitMid keys.length slot = mid at hr
  have hm := splitMid_cases keys.length slot
  rw [hmid] at hm
  unfold splitInnerAbsorb at hr
  split at hr
  · cases hr
  · simp only at hr
    by_cases hsp : slot = mid + 1 ∧ mid < (List.drop (mid + 1) keys).length
    · rw [if_pos hsp] at hr
      split at hr
      · cases hr
      · rename_i c0 rest hrk
        cases hr
        have hlen : (List.drop (mid + 1) kids).length = (c0 :: rest).length := by rw [hrk]
        simp only [List.length_drop, List.length_cons] at hlen hsp
        have hc0 : c0 ∈ kids := List.mem_of_mem_drop (by rw [hrk]; exact List.mem_cons_self)
        have hrest : ∀ c ∈ rest, c ∈ kids := fun c hc =>
          List.mem_of_mem_drop (by rw [hrk]; exact List.mem_cons_of_mem _ hc)
        refine ⟨_, _, rfl, ?_, ?_, rfl⟩
        · simp only [Shape, Params.innerMin, Gen.innerSlotmin, List.length_append, List.length_take, List.length_cons, List.length_nil]
          refine ⟨hl, by omega, by omega, by omega, ?_⟩
          intro c hc
          rcases List.mem_append.mp hc with hc | hc
          · exact hkids c (List.mem_of_mem_take hc)
          · simp only [List.mem_singleton] at hc; subst hc; exact hkids _ hc0
        · simp only [Shape, Params.innerMin, Gen.innerSlotmin, List.length_drop, List.length_cons]
          refine ⟨hl, by omega, by omega, by omega, ?_⟩
          intro c hc
          rcases List.mem_cons.mp hc with hc | hc
          · subst hc; exact hnc
          · exact hkids c (hrest c hc)
    · rw [if_neg hsp] at hr
      simp only [List.length_drop] at hsp
      by_cases hge : slot ≥ mid + 1
      · rw [if_pos hge] at hr
        cases hr
        refine ⟨_, _, rfl, ?_, ?_, rfl⟩
        · simp only [Shape, Params.innerMin, Gen.innerSlotmin, List.length_take]
          refine ⟨hl, by omega, by omega, by omega, ?_⟩
          intro c hc
          exact hkids c (List.mem_of_mem_take hc)
        · simp only [Shape, Params.innerMin, Gen.innerSlotmin, length_insertAt, List.length_drop]
          refine ⟨hl, by omega, by omega, by omega, ?_⟩
          intro c hc
          rcases mem_insertAt hc with hc | hc
          · subst hc; exact hnc
          · exact hkids c (List.mem_of_mem_drop hc)
      · rw [if_neg hge] at hr
        cases hr
        refine ⟨_, _, rfl, ?_, ?_, rfl⟩
        · simp only [Shape, Params.innerMin, Gen.innerSlotmin, length_insertAt, List.length_take]
          refine ⟨hl, by omega, by omega, by omega, ?_⟩
          intro c hc
          rcases mem_insertAt hc with hc | hc
          · subst hc; exact hnc
          · exact hkids c (List.mem_of_mem_take hc)
        · simp only [Shape, Params.innerMin, Gen.innerSlotmin, List.length_drop]
          refine ⟨hl, by omega, by omega, by omega, ?_⟩
          intro c hc
          exact hkids c (List.mem_of_mem_drop hc)

theorem innerAbsorb_shape (p : Params K) (pv : p.Valid) (mi : Nat) (h l : Nat) (keys : List K)
    (kids : List (BNode K V)) (slot : Nat) (nk : K) (nc : BNode K V)
    (hl : l = h + 1) (hk : kids.length = keys.length + 1) (hmin : mi ≤ keys.length) (hmax : keys.length ≤ p.innerMax)
    (hslot : slot ≤ keys.length) (hkids : ∀ c ∈ kids, Shape p h c) (hnc : Shape p h nc)
    (node : BNode K V) (split : Option (K × BNode K V)) (ni : Nat)
    (hr : innerAbsorb p l keys kids slot nk nc = some (node, split, ni)) :
    (split = none → ShapeTop p 0 mi (h + 1) node ∧ ni = 0) ∧
    (∀ sk sn, split = some (sk, sn) → Shape p (h + 1) node ∧ Shape p (h + 1) sn ∧ ni = 1) := by
  unfold innerAbsorb at hr
  by_cases hfull : keys.length = p.innerMax
  · rw [if_pos hfull] at hr
    obtain ⟨sk, sn, hsp, h1, h2, h3⟩ :=
      splitInnerAbsorb_shape p pv h l keys kids slot nk nc hl hk hfull hslot hkids hnc node split ni hr
    refine ⟨(by intro hh; rw [hsp] at hh; cases hh), ?_⟩
    intro sk' sn' hh
    rw [hsp] at hh
    cases hh
    exact ⟨h1, h2, h3⟩
  · rw [if_neg hfull] at hr
    cases hr
    refine ⟨?_, (by intro sk sn hh; cases hh)⟩
    intro _
    refine ⟨?_, rfl⟩
    simp only [ShapeTop, length_insertAt]
    refine ⟨hl, by omega, by omega, by omega, ?_⟩
    intro c hc
    rcases mem_insertAt hc with hc | hc
    · subst hc; exact hnc
    · exact hkids c hc

/-! ### slots returned by the searches are in range -/

theorem binLoop_bounds (stop : K → Bool) (keys : List K) :
    ∀ (fuel lo hi : Nat), lo ≤ hi → lo ≤ binLoop stop keys fuel lo hi ∧ binLoop stop keys fuel lo hi ≤ hi := by
  intro fuel
  induction fuel with
  | zero => intro lo hi h; unfold binLoop; omega
  | succ fuel ih =>
    intro lo hi h
    unfold binLoop
    by_cases hlt : lo < hi
    · simp only [hlt, if_true]
      split
      · split
        · have := ih lo ((lo + hi) / 2) (by omega); omega
        · have := ih ((lo + hi) / 2 + 1) hi (by omega); omega
      · omega
    · simp only [hlt, if_false]; omega

theorem findLower_le (p : Params K) (ks : List K) (k : K) : findLower p ks k ≤ ks.length := by
  unfold findLower
  split
  · unfold binIdx
    split
    · omega
    · exact (binLoop_bounds _ ks _ 0 ks.length (by omega)).2
  · exact List.findIdx_le_length

theorem findUpper_le (p : Params K) (ks : List K) (k : K) : findUpper p ks k ≤ ks.length := by
  unfold findUpper
  split
  · unfold binIdx
    split
    · omega
    · exact (binLoop_bounds _ ks _ 0 ks.length (by omega)).2
  · exact List.findIdx_le_length

/-! ### `insert_descend` keeps the shape -/

theorem insertDescend_shape (p : Params K) (pv : p.Valid) (k : K) (v : V) :
    ∀ (h : Nat) (n : BNode K V) (ml mi : Nat), ml ≤ p.leafMin → mi ≤ p.innerMin → ShapeTop p ml mi h n →
      ∀ r, insertDescend p k v h n = some r →
        (r.split = none → ShapeTop p ml mi h r.node) ∧
        (∀ sk sn, r.split = some (sk, sn) → Shape p h r.node ∧ Shape p h sn) := by
  intro h
  induction h with
  | zero =>
    intro n ml mi hml hmi hs r hr
    cases n with
    | inner l keys kids => simp [ShapeTop] at hs
    | leaf es =>
      unfold insertDescend at hr
      exact leafInsert_shape p pv ml hml mi es k v hs r hr
  | succ h ih =>
    intro n ml mi hml hmi hs r hr
    cases n with
    | leaf es => simp [ShapeTop] at hs
    | inner l keys kids =>
      simp only [ShapeTop] at hs
      obtain ⟨hl, hk, hmin, hmax, hkids⟩ := hs
      unfold insertDescend at hr
      simp only at hr
      have hslot := findLower_le p keys k
      generalize findLower p keys k = slot at hr hslot
      have hlt : slot < kids.length := by omega
      rw [List.getElem?_eq_getElem hlt] at hr
      simp only at hr
      have hchild : Shape p h kids[slot] := hkids _ (List.getElem_mem hlt)
      cases hrec : insertDescend p k v h kids[slot] with
      | none => rw [hrec] at hr; cases hr
      | some r' =>
        rw [hrec] at hr
        simp only at hr
        have ihr := ih kids[slot] p.leafMin p.innerMin (Nat.le_refl _) (Nat.le_refl _) hchild.top r' hrec
        have hkids1 : r'.split = none → ∀ c ∈ kids.set slot r'.node, Shape p h c := by
          intro hn c hc
          rcases List.mem_or_eq_of_mem_set hc with hc | hc
          · exact hkids c hc
          · subst hc; exact (ihr.1 hn).shape
        cases hsp : r'.split with
        | none =>
          rw [hsp] at hr
          cases hr
          refine ⟨?_, (by intro sk sn hh; cases hh)⟩
          intro _
          simp only [ShapeTop, List.length_set]
          exact ⟨hl, hk, hmin, hmax, hkids1 hsp⟩
        | some kv =>
          obtain ⟨nk, nc⟩ := kv
          rw [hsp] at hr
          simp only at hr
          obtain ⟨hs1, hs2⟩ := ihr.2 nk nc hsp
          have hkids2 : ∀ c ∈ kids.set slot r'.node, Shape p h c := by
            intro c hc
            rcases List.mem_or_eq_of_mem_set hc with hc | hc
            · exact hkids c hc
            · subst hc; exact hs1
          cases hab : innerAbsorb p l keys (kids.set slot r'.node) slot nk nc with
          | none => rw [hab] at hr; cases hr
          | some res =>
            obtain ⟨node, split, ni⟩ := res
            rw [hab] at hr
            cases hr
            have := innerAbsorb_shape p pv mi h l keys (kids.set slot r'.node) slot nk nc hl
              (by rw [List.length_set]; exact hk) hmin hmax hslot hkids2 hs2 node split ni hab
            refine ⟨?_, ?_⟩
            · intro hn
              exact ((this.1 hn).1).ml_irrel
            · intro sk sn hh
              obtain ⟨a, b, _⟩ := this.2 sk sn hh
              exact ⟨a, b⟩

/-! ### `insert_descend` never leaves defined behaviour on a well-shaped tree -/

theorem splitLeafInsert_total (p : Params K) (pv : p.Valid) (es : List (K × V)) (slot : Nat) (k : K) (v : V)
    (hfull : es.length = p.leafMax) : ∃ r, splitLeafInsert es slot k v = some r := by
  have hv := pv.leaf4
  unfold splitLeafInsert
  simp only
  cases hl : (List.take (es.length / 2) es).getLast? with
  | none =>
    exfalso
    rw [List.getLast?_eq_none_iff] at hl
    have := congrArg List.length hl
    simp only [List.length_take, List.length_nil] at this
    omega
  | some lastL =>
    simp only
    split <;> exact ⟨_, rfl⟩

theorem leafInsert_total (p : Params K) (pv : p.Valid) (es : List (K × V)) (k : K) (v : V) :
    ∃ r, leafInsert p es k v = some r := by
  unfold leafInsert
  simp only
  split
  · exact ⟨_, rfl⟩
  · split
    · rename_i hfull
      exact splitLeafInsert_total p pv es _ k v hfull
    · exact ⟨_, rfl⟩

theorem innerAbsorb_total (p : Params K) (pv : p.Valid) (l : Nat) (keys : List K) (kids : List (BNode K V))
    (slot : Nat) (nk : K) (nc : BNode K V) (hk : kids.length = keys.length + 1) :
    ∃ r, innerAbsorb p l keys kids slot nk nc = some r := by
  have hv := pv.inner4
  unfold innerAbsorb
  split
  · rename_i hfull
    have hm := splitMid_cases keys.length slot
    generalize splitMid keys.length slot = mid at hm
    unfold splitInnerAbsorb
    have hmid : mid < keys.length := by omega
    rw [List.getElem?_eq_getElem hmid]
    simp only
    split
    · rename_i hsp
      cases hrk : List.drop (mid + 1) kids with
      | nil =>
        exfalso
        have := congrArg List.length hrk
        simp only [List.length_drop, List.length_nil] at this
        omega
      | cons c0 rest => exact ⟨_, rfl⟩
    · split <;> exact ⟨_, rfl⟩
  · exact ⟨_, rfl⟩

theorem insertDescend_total (p : Params K) (pv : p.Valid) (k : K) (v : V) :
    ∀ (h : Nat) (n : BNode K V) (ml mi : Nat), ShapeTop p ml mi h n → ∃ r, insertDescend p k v h n = some r := by
  intro h
  induction h with
  | zero =>
    intro n ml mi hs
    cases n with
    | inner l keys kids => simp [ShapeTop] at hs
    | leaf es => unfold insertDescend; exact leafInsert_total p pv es k v
  | succ h ih =>
    intro n ml mi hs
    cases n with
    | leaf es => simp [ShapeTop] at hs
    | inner l keys kids =>
      simp only [ShapeTop] at hs
      obtain ⟨hl, hk, hmin, hmax, hkids⟩ := hs
      unfold insertDescend
      simp only
      have hslot := findLower_le p keys k
      generalize findLower p keys k = slot at hslot
      have hlt : slot < kids.length := by omega
      rw [List.getElem?_eq_getElem hlt]
      simp only
      obtain ⟨r', hrec⟩ := ih kids[slot] _ _ (hkids _ (List.getElem_mem hlt)).top
      rw [hrec]
      simp only
      cases hsp : r'.split with
      | none => exact ⟨_, rfl⟩
      | some kv =>
        obtain ⟨nk, nc⟩ := kv
        simp only
        obtain ⟨res, hab⟩ := innerAbsorb_total p pv l keys (kids.set slot r'.node) slot nk nc
          (by rw [List.length_set]; exact hk)
        rw [hab]
        exact ⟨_, rfl⟩

end TlxVerif.C01
