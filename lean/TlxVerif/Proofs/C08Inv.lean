/-
C08 — the loop invariant of the halving refinement, as an executable (decidable) predicate.

State of the refinement at stride `d = n + 1` (a power of two): for every sequence `i`
  * `0 ≤ a[i] ≤ len_i`, `d ∣ a[i]`, `b[i] = a[i] + n`       (the undetermined zone `[a[i], b[i])` has d-1 elements;
                                                               the samples at stride d are the positions ≡ d-1 mod d,
                                                               `a[i]-1` is the last left one, `b[i]` the first right one)
  * validity: every left edge sample `(S_i[a[i]-1], i)` is strictly before every right edge sample
    `(S_j[b[j]], j)`, `j ≠ i`, in (value, sequence) order; right samples beyond the end count as +∞.
`checkRun` replays the model round by round and evaluates the invariant after the initial partition, after
every classification loop and after every priority-queue correction (+ the rank bookkeeping).
-/
import TlxVerif.Model.C08Msp
import TlxVerif.Proofs.C08Spec
namespace TlxVerif.C08

/-- value at position `p` of sequence `i` (0 outside: only used under the bounds of the invariant) -/
def valAt (c : Ctx) (i : Nat) (p : Int) : Int := (c.runs.getD i #[]).getD p.toNat 0

def lenAt (c : Ctx) (i : Nat) : Int := ((c.runs.getD i #[]).size : Int)

def isPow2 (x : Nat) : Bool := (List.range (x + 1)).any (fun j => 2 ^ j == x)

/-- structure part of the invariant for one sequence -/
def structB (c : Ctx) (n : Nat) (ab : AB) (i : Nat) : Bool :=
  decide (0 ≤ aget ab.a i) && decide (aget ab.a i ≤ lenAt c i) &&
  decide ((aget ab.a i) % ((n : Int) + 1) = 0) && decide (aget ab.b i = aget ab.a i + n)

/-- validity between the left edge of `i` and the right edge of `j`; `strict` = (value, sequence) order,
otherwise only "not greater" (what `multisequence_selection`, which compares values only, maintains) -/
def validB (c : Ctx) (strict : Bool) (ab : AB) (i j : Nat) : Bool :=
  i == j || !(decide (aget ab.a i > 0)) || !(decide (aget ab.b j < lenAt c j)) ||
  (if strict then beforeB c.lt (valAt c i (aget ab.a i - 1)) i (valAt c j (aget ab.b j)) j
   else !c.lt (valAt c j (aget ab.b j)) (valAt c i (aget ab.a i - 1)))

def invB (c : Ctx) (strict : Bool) (n : Nat) (ab : AB) : Bool :=
  let m := c.runs.size
  decide (ab.a.size = m) && decide (ab.b.size = m) && isPow2 (n + 1) &&
  (List.range m).all (structB c n ab) &&
  (List.range m).all (fun i => (List.range m).all (fun j => validB c strict ab i j))

def evalM {α : Type} (x : M α) : Option α :=
  match x.run #[] with
  | .ok (a, _) => some a
  | .error _ => none

/-- after a round: the left parts hold ⌊rank/d⌋ samples, or fewer and every right sample is +∞ -/
def rankB (c : Ctx) (rank n : Nat) (ab : AB) : Bool :=
  let m := c.runs.size
  let ls := leftsizeOf ab.a n (List.range m)
  decide (ls = ((rank / (n + 1) : Nat) : Int)) ||
  (decide (ls < ((rank / (n + 1) : Nat) : Int)) && (List.range m).all (fun j => decide (aget ab.b j ≥ lenAt c j)))

/-- replay of `rounds` with the invariant evaluated at every intermediate state -/
def checkRounds (c : Ctx) (r : Routine) (strict : Bool) (seqlen : Array Int) (rank : Nat) : Nat → Nat → AB → Bool
  | 0, n, _ => n == 0
  | fuel + 1, n, ab =>
    if n = 0 then true else
    let n' := n / 2
    let idx := List.range c.runs.size
    match evalM (scanLmax c r ab.a idx none) with
    | none => false
    | some lmax =>
      match evalM (classify c r seqlen lmax n' idx ab) with
      | none => false
      | some ab1 =>
        invB c strict n' ab1 &&
        (match evalM (round c r seqlen rank n' ab) with
         | none => false
         | some ab2 => invB c strict n' ab2 && rankB c rank n' ab2 && checkRounds c r strict seqlen rank fuel n' ab2)

def checkRun (c : Ctx) (r : Routine) (rank : Nat) : Bool :=
  let strict := r == .partition
  let m := c.runs.size
  let seqlen := seqlenOf c
  let l : Nat := roundUpPow2 (nmaxOf c + 1) - 1
  let n : Nat := l / 2
  match evalM (initSample c seqlen n) with
  | none => false
  | some sample =>
    let ab := initAB m seqlen sample n l (rank / l)
    invB c strict n ab && checkRounds c r strict seqlen rank l n ab &&
    (match evalM (refine c r rank) with
     | none => false
     | some o => decide (leftsizeOf o.a 0 (List.range m) = (rank : Int)) && invB c strict 0 ⟨o.a, o.b⟩)

end TlxVerif.C08
