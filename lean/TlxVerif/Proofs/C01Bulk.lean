/-
C01/C02 — bulk_load: the level-by-level construction with the `n / (parts − i)` distribution yields, for
every ordered range, a tree that satisfies the whole invariant, holds exactly the range, and whose
allocation ledger equals its node counts.
-/
import TlxVerif.Model.C01Tree
import TlxVerif.Proofs.C01Main
import TlxVerif.Proofs.C01EraseG
namespace TlxVerif.C01

variable {K V : Type}

/-- one step of the distribution loop keeps "`lo` ≤ average ≤ `hi`" -/
theorem distribute_step (lo hi r q : Nat) (h1 : lo * (q + 1) ≤ r) (h2 : r ≤ hi * (q + 1)) :
    lo ≤ r / (q + 1) ∧ r / (q + 1) ≤ hi ∧ lo * q ≤ r - r / (q + 1) ∧ r - r / (q + 1) ≤ hi * q := by
  have hq : 0 < q + 1 := Nat.succ_pos q
  have hg1 : lo ≤ r / (q + 1) := (Nat.le_div_iff_mul_le hq).mpr h1
  have hg2 : r / (q + 1) ≤ hi := by
    apply Nat.div_le_of_le_mul
    rw [Nat.mul_comm]; exact h2
  have hmul : r / (q + 1) * (q + 1) ≤ r := Nat.div_mul_le_self r (q + 1)
  have hlt : r < (q + 1) * (r / (q + 1) + 1) := Nat.lt_mul_div_succ r hq
  generalize r / (q + 1) = g at hg1 hg2 hmul hlt
  rw [Nat.mul_succ] at hmul h2
  have e1 : (q + 1) * (g + 1) = g * q + q + g + 1 := by
    rw [Nat.mul_succ, Nat.succ_mul, Nat.mul_comm q g]; omega
  rw [e1] at hlt
  have hloq : lo * q ≤ g * q := Nat.mul_le_mul_right q hg1
  refine ⟨hg1, hg2, by omega, ?_⟩
  rcases Nat.lt_or_ge g hi with hlt2 | hge
  · have : (g + 1) * q ≤ hi * q := Nat.mul_le_mul_right q hlt2
    rw [Nat.succ_mul] at this
    omega
  · have : g = hi := by omega
    subst this
    omega

/-- every group of `distribute` has between `lo` and `hi` items when the average is in that range;
the groups concatenate to the input and there are `parts` of them -/
theorem distribute_spec {α : Type} (lo hi : Nat) :
    ∀ (parts : Nat) (items : List α), lo * parts ≤ items.length → items.length ≤ hi * parts →
      (distribute parts items).length = parts ∧
      (∀ g ∈ distribute parts items, lo ≤ g.length ∧ g.length ≤ hi) ∧
      (1 ≤ parts → (distribute parts items).flatten = items) := by
  intro parts
  induction parts with
  | zero => intro items _ _; simp [distribute]
  | succ q ih =>
    intro items h1 h2
    obtain ⟨s1, s2, s3, s4⟩ := distribute_step lo hi items.length q h1 h2
    simp only [distribute]
    have hlen : (items.drop (items.length / (q + 1))).length = items.length - items.length / (q + 1) := by simp
    obtain ⟨i1, i2, i3⟩ := ih (items.drop (items.length / (q + 1))) (by rw [hlen]; exact s3) (by rw [hlen]; exact s4)
    refine ⟨by simp [i1], ?_, ?_⟩
    · intro g hg
      rcases List.mem_cons.mp hg with hg | hg
      · subst hg
        have hle : items.length / (q + 1) ≤ items.length := Nat.div_le_self _ _
        simp only [List.length_take]
        omega
      · exact i2 g hg
    · intro _
      simp only [List.flatten_cons]
      by_cases hq0 : q = 0
      · subst hq0
        simp [distribute]
      · rw [i3 (by omega), List.take_append_drop]

/-- a level of `bulk_load`: subtrees of height `h` with the largest key of each -/
structure LevelOk (p : Params K) (h : Nat) (es : List (K × V)) (nodes : List (BNode K V × K)) : Prop where
  flat : nodes.flatMap (fun nk => flatten h nk.1) = es
  shape : ∀ nk ∈ nodes, Shape p h nk.1
  sep : ∀ nk ∈ nodes, SepOk p h nk.1
  maxk : ∀ nk ∈ nodes, ∃ e, (flatten h nk.1).getLast? = some e ∧ e.1 = nk.2

theorem flatMap_map_fst {α : Type} (_h : Nat) (f : BNode K V → List α) (grp : List (BNode K V × K)) :
    (grp.map Prod.fst).flatMap f = grp.flatMap (fun nk => f nk.1) := by
  induction grp with
  | nil => rfl
  | cons a g ih => simp [List.flatMap_cons, ih]

/-- one inner node over a group of at least two subtrees -/
theorem mkInner_ok (p : Params K) (_pv : p.Valid) (sw : StrictWeak p.lt) (h : Nat) (grp : List (BNode K V × K)) (mi : Nat)
    (hshape : ∀ nk ∈ grp, Shape p h nk.1) (hsep : ∀ nk ∈ grp, SepOk p h nk.1)
    (hmax : ∀ nk ∈ grp, ∃ e, (flatten h nk.1).getLast? = some e ∧ e.1 = nk.2)
    (hlo : mi + 1 ≤ grp.length) (hhi : grp.length ≤ p.innerMax + 1) :
    ∃ n mk, mkInner (h + 1) grp = some (n, mk) ∧ ShapeTop p 0 mi (h + 1) n ∧ SepOk p (h + 1) n ∧
      flatten (h + 1) n = grp.flatMap (fun nk => flatten h nk.1) ∧
      (∃ e, (flatten (h + 1) n).getLast? = some e ∧ e.1 = mk) ∧
      leafCount (h + 1) n = sumMap (fun nk => leafCount h nk.1) grp ∧
      innerCount (h + 1) n = 1 + sumMap (fun nk => innerCount h nk.1) grp := by
  have hne : grp ≠ [] := by intro hh; subst hh; simp at hlo
  obtain ⟨g', lastC, hg, hgl⟩ := list_concat_of_length grp (grp.length - 1) (by
    have := List.length_pos_iff.mpr hne; omega)
  have hlast : grp.getLast? = some lastC := by rw [hg]; simp
  unfold mkInner
  rw [hlast]
  refine ⟨_, _, rfl, ?_, ?_, ?_, ?_, ?_, ?_⟩
  · simp only [ShapeTop, List.length_map, List.length_dropLast]
    refine ⟨trivial, by omega, by omega, by omega, ?_⟩
    intro c hc
    obtain ⟨nk, hnk, rfl⟩ := List.mem_map.mp hc
    exact hshape nk hnk
  · simp only [SepOk]
    refine ⟨?_, ?_⟩
    · intro i k c hk hc
      rw [List.getElem?_map] at hk hc
      cases hgi : grp[i]? with
      | none => rw [hgi] at hc; cases hc
      | some nk =>
        rw [hgi] at hc
        simp only [Option.map_some, Option.some.injEq] at hc
        subst hc
        have hdl : grp.dropLast[i]? = some nk := by
          cases hx : grp.dropLast[i]? with
          | none => rw [hx] at hk; cases hk
          | some y =>
            have : grp.dropLast[i]? = grp[i]? := by
              rw [List.getElem?_dropLast]
              have hi : i < grp.dropLast.length := (List.getElem?_eq_some_iff.mp hx).1
              simp only [List.length_dropLast] at hi
              rw [if_pos hi]
            rw [this, hgi] at hx
            cases hx; rfl
        rw [hdl] at hk
        simp only [Option.map_some, Option.some.injEq] at hk
        subst hk
        obtain ⟨e, he, hek⟩ := hmax nk (List.mem_of_getElem? hgi)
        exact ⟨e, he, by rw [← hek]; exact eqv_refl sw _⟩
    · intro c hc
      obtain ⟨nk, hnk, rfl⟩ := List.mem_map.mp hc
      exact hsep nk hnk
  · simp only [flatten]
    exact flatMap_map_fst h (flatten h) grp
  · simp only [flatten]
    rw [flatMap_map_fst h (flatten h) grp, hg, List.flatMap_append, List.flatMap_cons, List.flatMap_nil, List.append_nil]
    obtain ⟨e, he, hek⟩ := hmax lastC (by rw [hg]; simp)
    refine ⟨e, ?_, hek⟩
    rw [List.getLast?_append, he]; rfl
  · simp only [leafCount, sumMap, List.map_map]; rfl
  · simp only [innerCount, sumMap, List.map_map]; rfl

/-- pointwise relation between two lists -/
inductive AllRel {α β : Type} (R : α → β → Prop) : List α → List β → Prop
  | nil : AllRel R [] []
  | cons {a b l₁ l₂} : R a b → AllRel R l₁ l₂ → AllRel R (a :: l₁) (b :: l₂)

theorem mapM_option_forall₂ {α β : Type} (f : α → Option β) :
    ∀ (l : List α), (∀ a ∈ l, ∃ b, f a = some b) → ∃ bs, l.mapM f = some bs ∧ AllRel (fun a b => f a = some b) l bs := by
  intro l
  induction l with
  | nil => intro _; exact ⟨[], rfl, AllRel.nil⟩
  | cons a l ih =>
    intro h
    obtain ⟨b, hb⟩ := h a List.mem_cons_self
    obtain ⟨bs, h1, h2⟩ := ih (fun x hx => h x (List.mem_cons_of_mem _ hx))
    refine ⟨b :: bs, ?_, AllRel.cons hb h2⟩
    simp [List.mapM_cons, hb, h1]

/-- building one level of inner nodes over `groups` -/
theorem level_of_groups (p : Params K) (pv : p.Valid) (sw : StrictWeak p.lt) (h mi : Nat) :
    ∀ (groups : List (List (BNode K V × K))) (ps : List (BNode K V × K)),
      AllRel (fun g r => mkInner (h + 1) g = some r) groups ps →
      (∀ g ∈ groups, (∀ nk ∈ g, Shape p h nk.1) ∧ (∀ nk ∈ g, SepOk p h nk.1) ∧
        (∀ nk ∈ g, ∃ e, (flatten h nk.1).getLast? = some e ∧ e.1 = nk.2) ∧
        mi + 1 ≤ g.length ∧ g.length ≤ p.innerMax + 1) →
      (∀ nk ∈ ps, ShapeTop p 0 mi (h + 1) nk.1 ∧ SepOk p (h + 1) nk.1 ∧
        ∃ e, (flatten (h + 1) nk.1).getLast? = some e ∧ e.1 = nk.2) ∧
      ps.flatMap (fun nk => flatten (h + 1) nk.1) = groups.flatten.flatMap (fun nk => flatten h nk.1) ∧
      sumMap (fun nk => leafCount (h + 1) nk.1) ps = sumMap (fun nk => leafCount h nk.1) groups.flatten ∧
      sumMap (fun nk => innerCount (h + 1) nk.1) ps = ps.length + sumMap (fun nk => innerCount h nk.1) groups.flatten ∧
      ps.length = groups.length := by
  intro groups ps hf
  induction hf with
  | nil => intro _; simp [sumMap]
  | @cons g r gs rs hgr _ ih =>
    intro hall
    obtain ⟨h1, h2, h3, h4, h5⟩ := hall g List.mem_cons_self
    obtain ⟨n, mk, hmk, a1, a2, a3, a4, a5, a6⟩ := mkInner_ok p pv sw h g mi h1 h2 h3 h4 h5
    rw [hmk] at hgr
    cases hgr
    obtain ⟨i1, i2, i3, i4, i5⟩ := ih (fun x hx => hall x (List.mem_cons_of_mem _ hx))
    refine ⟨?_, ?_, ?_, ?_, ?_⟩
    · intro nk hnk
      rcases List.mem_cons.mp hnk with hnk | hnk
      · subst hnk; exact ⟨a1, a2, a4⟩
      · exact i1 nk hnk
    · simp only [List.flatMap_cons, List.flatten_cons, List.flatMap_append, a3, i2]
    · simp only [sumMap_cons, List.flatten_cons, sumMap_append, a5, i3]
    · simp only [sumMap_cons, List.flatten_cons, sumMap_append, a6, i4, List.length_cons]; omega
    · simp only [List.length_cons, i5]

/-- `parts = ⌈c / m⌉` groups of at most `m`: the average is at most `m`, and with at least two groups
at least `lo` for every `lo` with `2·lo ≤ m + 1` -/
theorem ceil_parts (m c lo : Nat) (hm : 1 ≤ m) (hlo : 2 * lo ≤ m + 1) :
    c ≤ m * ((c + m - 1) / m) ∧ (2 ≤ (c + m - 1) / m → lo * ((c + m - 1) / m) ≤ c) ∧
    (1 ≤ c → 1 ≤ (c + m - 1) / m) ∧ (c ≤ m → (c + m - 1) / m ≤ 1) := by
  have hpos : 0 < m := hm
  have h1 : (c + m - 1) / m * m ≤ c + m - 1 := Nat.div_mul_le_self _ _
  have h2 : c + m - 1 < m * ((c + m - 1) / m + 1) := Nat.lt_mul_div_succ _ hpos
  generalize (c + m - 1) / m = P at h1 h2
  rw [Nat.mul_succ] at h2
  rw [Nat.mul_comm P m] at h1
  refine ⟨by omega, ?_, ?_, ?_⟩
  · intro hP
    -- (P-1)·m ≥ (P-1) + (m-1)
    obtain ⟨Q, rfl⟩ : ∃ Q, P = Q + 2 := ⟨P - 2, by omega⟩
    obtain ⟨n, rfl⟩ : ∃ n, m = n + 1 := ⟨m - 1, by omega⟩
    have e1 : (n + 1) * (Q + 2) = n * Q + 2 * n + Q + 2 := by
      rw [Nat.mul_add, Nat.add_mul, Nat.add_mul]; omega
    have e2 : lo * (Q + 2) = lo * Q + 2 * lo := by rw [Nat.mul_add]; omega
    have e3 : 2 * (lo * Q) ≤ (n + 2) * Q := by
      rw [← Nat.mul_assoc]
      exact Nat.mul_le_mul_right Q (by omega)
    have e4 : (n + 2) * Q = n * Q + 2 * Q := by rw [Nat.add_mul]
    rw [e1] at h1
    rw [e2]
    have e5 : Q ≤ n * Q + Q := Nat.le_add_left _ _
    omega
  · intro hc
    rcases Nat.eq_zero_or_pos P with h0 | h0
    · subst h0; omega
    · exact h0
  · intro hc
    rcases Nat.lt_or_ge P 2 with h0 | h0
    · omega
    · exfalso
      obtain ⟨Q, rfl⟩ : ∃ Q, P = Q + 2 := ⟨P - 2, by omega⟩
      have : m * (Q + 2) = m * Q + 2 * m := by rw [Nat.mul_add]; omega
      rw [this] at h1
      omega

/-- a level whose nodes all satisfy the non-root bounds -/
def LevelFull (p : Params K) (h : Nat) (es : List (K × V)) (nodes : List (BNode K V × K)) : Prop :=
  LevelOk p h es nodes ∧ 2 ≤ nodes.length

theorem distribute_one {α : Type} (items : List α) : distribute 1 items = [items] := by
  simp [distribute]

/-- `buildLevel` over a full level: either again a full level (≥ 2 parents) or the root -/
theorem buildLevel_ok (p : Params K) (pv : p.Valid) (sw : StrictWeak p.lt) (h : Nat) (es : List (K × V))
    (nodes : List (BNode K V × K)) (hl : LevelFull p h es nodes) :
    ∃ ps, buildLevel p (h + 1) nodes = some ps ∧ ps.length < nodes.length ∧
      ps.flatMap (fun nk => flatten (h + 1) nk.1) = es ∧
      (∀ nk ∈ ps, SepOk p (h + 1) nk.1 ∧ ∃ e, (flatten (h + 1) nk.1).getLast? = some e ∧ e.1 = nk.2) ∧
      sumMap (fun nk => leafCount (h + 1) nk.1) ps = sumMap (fun nk => leafCount h nk.1) nodes ∧
      sumMap (fun nk => innerCount (h + 1) nk.1) ps = ps.length + sumMap (fun nk => innerCount h nk.1) nodes ∧
      ((2 ≤ ps.length ∧ ∀ nk ∈ ps, Shape p (h + 1) nk.1) ∨
       (ps.length = 1 ∧ ∀ nk ∈ ps, ShapeTop p 1 1 (h + 1) nk.1)) := by
  have hi4 := pv.inner4
  obtain ⟨hok, hc2⟩ := hl
  have hcp := ceil_parts (p.innerMax + 1) nodes.length (p.innerMin + 1) (by omega)
    (by simp [Params.innerMin, Gen.innerSlotmin]; omega)
  unfold buildLevel
  simp only
  generalize hP : (nodes.length + (p.innerMax + 1) - 1) / (p.innerMax + 1) = P at hcp
  obtain ⟨c1, c2, c3, c4⟩ := hcp
  have hP1 : 1 ≤ P := c3 (by omega)
  by_cases hP2 : 2 ≤ P
  · -- several parents: all of them satisfy the non-root bounds
    have hd := distribute_spec (α := BNode K V × K) (p.innerMin + 1) (p.innerMax + 1) P nodes (c2 hP2) c1
    obtain ⟨d1, d2, d3⟩ := hd
    have hgroups : ∀ g ∈ distribute P nodes, (∀ nk ∈ g, Shape p h nk.1) ∧ (∀ nk ∈ g, SepOk p h nk.1) ∧
        (∀ nk ∈ g, ∃ e, (flatten h nk.1).getLast? = some e ∧ e.1 = nk.2) ∧
        p.innerMin + 1 ≤ g.length ∧ g.length ≤ p.innerMax + 1 := by
      intro g hg
      have hsub : ∀ nk ∈ g, nk ∈ nodes := by
        intro nk hnk
        rw [← d3 hP1]
        exact List.mem_flatten.mpr ⟨g, hg, hnk⟩
      exact ⟨fun nk hnk => hok.shape nk (hsub nk hnk), fun nk hnk => hok.sep nk (hsub nk hnk),
        fun nk hnk => hok.maxk nk (hsub nk hnk), (d2 g hg).1, (d2 g hg).2⟩
    obtain ⟨ps, hps, hrel⟩ := mapM_option_forall₂ (mkInner (h + 1)) (distribute P nodes) (by
      intro g hg
      obtain ⟨g1, g2, g3, g4, g5⟩ := hgroups g hg
      obtain ⟨n, mk, hmk, _⟩ := mkInner_ok p pv sw h g p.innerMin g1 g2 g3 g4 g5
      exact ⟨_, hmk⟩)
    obtain ⟨l1, l2, l3, l4, l5⟩ := level_of_groups p pv sw h p.innerMin (distribute P nodes) ps hrel hgroups
    rw [d3 hP1] at l2 l3 l4
    rw [d1] at l5
    refine ⟨ps, hps, ?_, by rw [l2]; exact hok.flat, fun nk hnk => ⟨(l1 nk hnk).2.1, (l1 nk hnk).2.2⟩, l3, l4, ?_⟩
    · -- fewer parents than children
      rw [l5]
      have h1 : (p.innerMin + 1) * P ≤ nodes.length := c2 hP2
      have hmin : 1 ≤ p.innerMin := by simp [Params.innerMin, Gen.innerSlotmin]; omega
      have h2 : 2 * P ≤ (p.innerMin + 1) * P := Nat.mul_le_mul_right P (by omega)
      omega
    · left
      exact ⟨by omega, fun nk hnk => (l1 nk hnk).1.ml_irrel.shape⟩
  · -- a single parent: the root
    have hPe : P = 1 := by omega
    subst hPe
    rw [distribute_one]
    have hlen : nodes.length ≤ p.innerMax + 1 := by
      rcases Nat.lt_or_ge (p.innerMax + 1) nodes.length with hgt | hle
      · exfalso
        -- then two parents would be needed
        have := c1
        omega
      · exact hle
    obtain ⟨n, mk, hmk, a1, a2, a3, a4, a5, a6⟩ := mkInner_ok p pv sw h nodes 1 hok.shape hok.sep hok.maxk (by omega) hlen
    refine ⟨[(n, mk)], by simp [hmk], by simp; omega, ?_, ?_, ?_, ?_, ?_⟩
    · simp only [List.flatMap_cons, List.flatMap_nil, List.append_nil, a3]; exact hok.flat
    · intro nk hnk
      simp only [List.mem_singleton] at hnk
      subst hnk
      exact ⟨a2, a4⟩
    · simp [sumMap_cons, sumMap_nil, a5]
    · simp [sumMap_cons, sumMap_nil, a6]
    · right
      refine ⟨rfl, ?_⟩
      intro nk hnk
      simp only [List.mem_singleton] at hnk
      subst hnk
      exact a1.ml_irrel

/-- `buildUp`: levels are stacked until a single node, the root, is left -/
theorem buildUp_ok (p : Params K) (pv : p.Valid) (sw : StrictWeak p.lt) (es : List (K × V)) :
    ∀ (fuel h : Nat) (nodes : List (BNode K V × K)), nodes.length < fuel →
      nodes.flatMap (fun nk => flatten h nk.1) = es →
      (∀ nk ∈ nodes, SepOk p h nk.1 ∧ ∃ e, (flatten h nk.1).getLast? = some e ∧ e.1 = nk.2) →
      ((2 ≤ nodes.length ∧ ∀ nk ∈ nodes, Shape p h nk.1) ∨ (nodes.length = 1 ∧ ∀ nk ∈ nodes, ShapeTop p 1 1 h nk.1)) →
      ∃ r cnt H, buildUp p fuel (h + 1) nodes = some (r, cnt) ∧ ShapeTop p 1 1 H r ∧ flatten H r = es ∧ SepOk p H r ∧
        leafCount H r = sumMap (fun nk => leafCount h nk.1) nodes ∧
        innerCount H r = cnt + sumMap (fun nk => innerCount h nk.1) nodes := by
  intro fuel
  induction fuel with
  | zero => intro h nodes hf; omega
  | succ fuel ih =>
    intro h nodes hf hflat hsep hshape
    unfold buildUp
    rcases hshape with ⟨h2, hsh⟩ | ⟨h1, hsh⟩
    · -- at least two nodes: one more level
      have hlf : LevelFull p h es nodes :=
        ⟨⟨hflat, hsh, fun nk hnk => (hsep nk hnk).1, fun nk hnk => (hsep nk hnk).2⟩, h2⟩
      obtain ⟨ps, hps, hlt, b1, b2, b3, b4, b5⟩ := buildLevel_ok p pv sw h es nodes hlf
      obtain ⟨r, cnt, H, hr, r1, r2, r3, r4, r5⟩ := ih (h + 1) ps (by omega) b1 b2 b5
      have hnot : ∀ n k, nodes ≠ [(n, k)] := by
        intro n k hh; rw [hh] at h2; simp at h2
      cases nodes with
      | nil => simp at h2
      | cons a rest =>
        cases rest with
        | nil => simp at h2
        | cons b rest' =>
          simp only [hps, hr]
          exact ⟨r, cnt + ps.length, H, rfl, r1, r2, r3, by rw [r4, b3], by rw [r5, b4]; omega⟩
    · -- a single node: it is the root
      cases nodes with
      | nil => simp at h1
      | cons a rest =>
        cases rest with
        | cons b rest' => simp at h1
        | nil =>
          obtain ⟨n, k⟩ := a
          simp only
          refine ⟨n, 0, h, rfl, hsh (n, k) (by simp), ?_, (hsep (n, k) (by simp)).1, ?_, ?_⟩
          · simpa using hflat
          · simp [sumMap_cons, sumMap_nil]
          · simp [sumMap_cons, sumMap_nil]

/-- the leaf level of `bulk_load` -/
theorem leaf_level (p : Params K) (groups : List (List (K × V))) (lv0 : List (BNode K V × K))
    (hrel : AllRel (fun g r => (g.getLast?).map (fun e => (BNode.leaf g, e.1)) = some r) groups lv0)
    (hsz : ∀ g ∈ groups, p.leafMin ≤ g.length ∧ g.length ≤ p.leafMax) :
    lv0.flatMap (fun nk => flatten 0 nk.1) = groups.flatten ∧
    (∀ nk ∈ lv0, Shape p 0 nk.1 ∧ SepOk p 0 nk.1 ∧ ∃ e, (flatten 0 nk.1).getLast? = some e ∧ e.1 = nk.2) ∧
    sumMap (fun nk => leafCount 0 nk.1) lv0 = groups.length ∧
    sumMap (fun nk => innerCount 0 nk.1) lv0 = 0 ∧ lv0.length = groups.length := by
  induction hrel with
  | nil => simp [sumMap]
  | @cons g r gs rs hgr _ ih =>
    obtain ⟨i1, i2, i3, i4, i5⟩ := ih (fun x hx => hsz x (List.mem_cons_of_mem _ hx))
    cases hl : g.getLast? with
    | none => rw [hl] at hgr; cases hgr
    | some e =>
      rw [hl] at hgr
      simp only [Option.map_some, Option.some.injEq] at hgr
      subst hgr
      refine ⟨by simp [List.flatMap_cons, flatten, i1], ?_, ?_, ?_, by simp [i5]⟩
      · intro nk hnk
        rcases List.mem_cons.mp hnk with hnk | hnk
        · subst hnk
          exact ⟨by simp only [Shape]; exact hsz g List.mem_cons_self, by simp [SepOk], ⟨e, by simpa [flatten] using hl, rfl⟩⟩
        · exact i2 nk hnk
      · simp [sumMap_cons, leafCount, i3]; omega
      · simp [sumMap_cons, innerCount, i4]

/-- **`bulk_load`** of an ordered range: defined, yields a tree that satisfies the invariant and holds
exactly the range; it allocates exactly the nodes of that tree -/
theorem bulkLoad_ok (p : Params K) (pv : p.Valid) (sw : StrictWeak p.lt) (es : List (K × V)) (hs : SortedE p.lt es) :
    ∃ t l, bulkLoad p es = some (t, l) ∧ TreeInv p t ∧ t.toList = es ∧
      l.leafAlloc = t.nLeaves ∧ l.innerAlloc = t.nInner ∧ l.leafFree = 0 ∧ l.innerFree = 0 := by
  have hl4 := pv.leaf4
  have hlmin : 2 ≤ p.leafMin := by simp [Params.leafMin, Gen.leafSlotmin]; omega
  have hcp := ceil_parts p.leafMax es.length p.leafMin (by omega) (by simp [Params.leafMin, Gen.leafSlotmin]; omega)
  unfold bulkLoad
  simp only
  generalize hP : (es.length + p.leafMax - 1) / p.leafMax = P at hcp
  obtain ⟨c1, c2, c3, c4⟩ := hcp
  rcases Nat.eq_zero_or_pos es.length with h0 | hpos
  · -- empty range
    have hes : es = [] := List.eq_nil_of_length_eq_zero h0
    subst hes
    have hP0 : P = 0 := by
      rw [← hP]
      simp only [List.length_nil, Nat.zero_add]
      exact Nat.div_eq_of_lt (by omega)
    subst hP0
    simp only [distribute]
    refine ⟨_, _, rfl, ⟨by simp [TreeShape], by simp [Tree.toList, SortedE], by simp⟩, by simp [Tree.toList],
      by simp [Tree.nLeaves], by simp [Tree.nInner], rfl, rfl⟩
  · have hP1 : 1 ≤ P := c3 hpos
    by_cases hP2 : 2 ≤ P
    · -- several leaves
      obtain ⟨d1, d2, d3⟩ := distribute_spec (α := K × V) p.leafMin p.leafMax P es (c2 hP2) c1
      generalize hg : distribute P es = groups at d1 d2 d3
      have hne : ∀ g ∈ groups, ∃ r, (g.getLast?).map (fun e => (BNode.leaf g, e.1)) = some (r : BNode K V × K) := by
        intro g hgm
        obtain ⟨e, he⟩ := getLast?_isSome_of_length_pos g (by have := (d2 g hgm).1; omega)
        exact ⟨_, by rw [he]; rfl⟩
      obtain ⟨lv0, hlv0, hrel⟩ := mapM_option_forall₂ _ groups hne
      obtain ⟨l1, l2, l3, l4, l5⟩ := leaf_level p groups lv0 hrel d2
      rw [d3 hP1] at l1
      have hfull : LevelFull p 0 es lv0 :=
        ⟨⟨l1, fun nk hnk => (l2 nk hnk).1, fun nk hnk => (l2 nk hnk).2.1, fun nk hnk => (l2 nk hnk).2.2⟩, by omega⟩
      obtain ⟨lv1, hlv1, hlt, b1, b2, b3, b4, b5⟩ := buildLevel_ok p pv sw 0 es lv0 hfull
      obtain ⟨r, cnt, H, hr, r1, r2, r3, r4, r5⟩ := buildUp_ok p pv sw es (lv1.length + 1) 1 lv1 (by omega) b1 b2 b5
      -- the `match groups` takes the third branch
      have hbranch : ∃ g1 g2 rest, groups = g1 :: g2 :: rest := by
        cases groups with
        | nil => simp at d1; omega
        | cons g1 rest =>
          cases rest with
          | nil => simp at d1; omega
          | cons g2 rest' => exact ⟨g1, g2, rest', rfl⟩
      obtain ⟨g1, g2, rest, hgr⟩ := hbranch
      subst hgr
      simp only [hlv0, hlv1, hr]
      have hlev : r.level = H := r1.level
      refine ⟨_, _, rfl, ⟨?_, ?_, ?_⟩, ?_, ?_, ?_, rfl, rfl⟩
      · simp only [TreeShape, hlev]
        refine ⟨r1, ?_, ?_, by rw [r2]⟩
        · rw [r4, b3, l3, d1]
        · rw [r5, b4, l4]; omega
      · simp only [Tree.toList, hlev, r2]; exact hs
      · simp only [hlev]; exact r3
      · simp only [Tree.toList, hlev, r2]
      · simp only [Tree.nLeaves, hlev, r4, b3, l3, d1]
      · simp only [Tree.nInner, hlev, r5, b4, l4]; omega
    · -- one leaf
      have hPe : P = 1 := by omega
      subst hPe
      rw [distribute_one]
      have hlen : es.length ≤ p.leafMax := by have := c1; omega
      refine ⟨_, _, rfl, ⟨?_, ?_, by simp [SepOk]⟩, by simp [Tree.toList, BNode.level, flatten],
        by simp [Tree.nLeaves, BNode.level, leafCount], by simp [Tree.nInner, BNode.level, innerCount], rfl, rfl⟩
      · simp only [TreeShape, BNode.level, ShapeTop, leafCount, innerCount, flatten]
        exact ⟨⟨hpos, hlen⟩, trivial, trivial, trivial⟩
      · simpa [Tree.toList, BNode.level, flatten] using hs

end TlxVerif.C01
