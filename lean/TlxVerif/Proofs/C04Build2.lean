/-
C04 — more about the tree builder: it never reads outside the sample array / the tree (it
succeeds), its splitters are samples, and the individual `splitter_lcp` entries.
-/
import TlxVerif.Proofs.C04Slcp
import TlxVerif.Proofs.C04Index
namespace TlxVerif.C04

theorem buildRec_isSome (samples : Array Key) (tb : Nat)
    (hsorted : ∀ (i j : Nat) (x y : Key), i ≤ j → samples[i]? = some x → samples[j]? = some y → x ≤ y) :
    ∀ (L lo hi idx : Nat) (recPrev : Key) (st : BuildSt),
      1 ≤ L → L ≤ tb → 2 ^ (tb - L) ≤ idx → idx < 2 ^ (tb - L + 1) →
      lo ≤ hi → hi ≤ samples.size → lo < samples.size → st.tree.size = numSplitters tb + 1 →
      (buildRec samples (numSplitters tb) L lo hi idx recPrev st).isSome = true := by
  intro L
  induction L with
  | zero => intro lo hi idx recPrev st h1; omega
  | succ f ih =>
    intro lo hi idx recPrev st _ hL hlo hhi hlh hhs hls hsz
    have hpos : 0 < 2 ^ tb := Nat.pow_pos (by omega)
    have hns : numSplitters tb = 2 ^ tb - 1 := rfl
    have hle : 2 ^ (tb - (f + 1) + 1) ≤ 2 ^ tb := Nat.pow_le_pow_right (by omega) (by omega)
    have hidxsz : idx < st.tree.size := by rw [hsz, hns]; omega
    simp only [buildRec]
    have hmidlt : lo + (hi - lo) / 2 < samples.size := by omega
    obtain ⟨mykey, hmk⟩ : ∃ mykey, samples[lo + (hi - lo) / 2]? = some mykey :=
      ⟨samples[lo + (hi - lo) / 2], Array.getElem?_eq_getElem hmidlt⟩
    simp only [hmk, Option.bind_eq_bind, Option.bind_some, Nat.not_le.2 hidxsz, ge_iff_le, if_false]
    have hml1 := midLo_le samples lo mykey (lo + (hi - lo) / 2)
    have hml2 := midLo_ge samples lo mykey (lo + (hi - lo) / 2) (by omega)
    by_cases hint : 2 * idx < numSplitters tb
    · simp only [hint, if_true]
      have hf1 : 1 ≤ f := by
        rcases Nat.eq_zero_or_pos f with h0 | h0
        · subst h0
          simp only [Nat.zero_add] at hlo hhi
          have : 2 ^ (tb - 1 + 1) = 2 ^ tb := by congr 1; omega
          rw [pow_level (by omega) hL] at hhi
          rw [hns] at hint
          have : 2 * 2 ^ (tb - 1) = 2 ^ tb := by rw [← pow_level (by omega) hL]; exact this
          omega
        · exact h0
      have hpl := pow_level (tb := tb) (L := f + 1) (by omega) hL
      have hpl' := pow_level (tb := tb) (L := f) hf1 (by omega)
      have hsub : tb - f = tb - (f + 1) + 1 := by omega
      have e1 : 2 ^ (tb - f) = 2 * 2 ^ (tb - (f + 1)) := by rw [hsub]; exact hpl
      have hhi' : idx < 2 * 2 ^ (tb - (f + 1)) := by rw [← hpl]; exact hhi
      have hleft := ih lo (midLo samples lo mykey (lo + (hi - lo) / 2)) (2 * idx) recPrev
        { st with tree := st.tree.setIfInBounds idx mykey } hf1 (by omega) (by rw [e1]; omega) (by rw [hpl', e1]; omega)
        hml2 (by omega) hls (by simpa using hsz)
      cases hl : buildRec samples (numSplitters tb) f lo (midLo samples lo mykey (lo + (hi - lo) / 2)) (2 * idx) recPrev
          { st with tree := st.tree.setIfInBounds idx mykey } with
      | none => rw [hl] at hleft; cases hleft
      | some resl =>
        obtain ⟨st2, prevkey⟩ := resl
        simp only [Option.bind_some]
        obtain ⟨SL, _, _, _, _, hSL5, _⟩ := buildRec_spec samples tb hsorted f lo _ (2 * idx) recPrev _ st2 prevkey hf1
          (by omega) (by rw [e1]; omega) (by rw [hpl', e1]; omega) hml2 (by omega) hls (by simpa using hsz) hl
        have hmhlt : midHi samples hi mykey (hi - (lo + (hi - lo) / 2)) (lo + (hi - lo) / 2) < samples.size := by
          rcases Nat.lt_or_ge (lo + (hi - lo) / 2) hi with hlt | hge
          · have := midHi_lt samples hi mykey (hi - (lo + (hi - lo) / 2)) _ hlt; omega
          · rw [midHi_eq_of_ge _ _ _ _ _ (by omega)]; omega
        have hmhle : midHi samples hi mykey (hi - (lo + (hi - lo) / 2)) (lo + (hi - lo) / 2) ≤ hi := by
          rcases Nat.lt_or_ge (lo + (hi - lo) / 2) hi with hlt | hge
          · have := midHi_lt samples hi mykey (hi - (lo + (hi - lo) / 2)) _ hlt; omega
          · rw [midHi_eq_of_ge _ _ _ _ _ (by omega)]; omega
        exact ih _ hi (2 * idx + 1) mykey _ hf1 (by omega) (by rw [e1]; omega) (by rw [hpl', e1]; omega)
          hmhle hhs hmhlt (by simpa [hSL5] using hsz)
    · simp [hint]

/-- **`build` succeeds** on a non-empty sorted sample array and yields a search tree whose splitters
are samples -/
theorem build_ok {tb : Nat} {samples : Array Key} (htb : 1 ≤ tb) (hsz : 1 ≤ samples.size)
    (hsorted : ∀ (i j : Nat) (x y : Key), i ≤ j → samples[i]? = some x → samples[j]? = some y → x ≤ y) :
    ∃ c, build tb samples = some c ∧ c.treebits = tb ∧ IsBST c.tree tb 1 c.splitters ∧
      c.splitters.Pairwise (fun a b => a ≤ b) ∧ (∀ s ∈ c.splitters, s ∈ samples.toList) := by
  have hsome := buildRec_isSome samples tb hsorted tb 0 samples.size 1 0
    { tree := Array.replicate (numSplitters tb + 1) 0, splRev := [], lcpRev := [] } htb (Nat.le_refl _) (by simp)
    (by simp) (by omega) (Nat.le_refl _) (by omega) (by simp)
  cases hb : buildRec samples (numSplitters tb) tb 0 samples.size 1 0
      { tree := Array.replicate (numSplitters tb + 1) 0, splRev := [], lcpRev := [] } with
  | none => rw [hb] at hsome; cases hsome
  | some res =>
    obtain ⟨st, last⟩ := res
    obtain ⟨S, hS1, hS2, hS3, hS4, _, _⟩ := buildRec_spec samples tb hsorted tb 0 samples.size 1 0 _ st last htb
      (Nat.le_refl _) (by simp) (by simp) (by omega) (Nat.le_refl _) (by omega) (by simp) hb
    simp only [List.append_nil] at hS1
    refine ⟨_, by unfold build; simp only [Option.bind_eq_bind]; rw [hb]; rfl, rfl, ?_, ?_, ?_⟩
    · simp only [hS1, List.reverse_reverse]; exact hS2
    · simp only [hS1, List.reverse_reverse]; exact hS3
    · simp only [hS1, List.reverse_reverse]
      intro s hs
      obtain ⟨j, _, _, hj⟩ := hS4 s hs
      exact Array.mem_toList_iff.2 (Array.mem_of_getElem? hj)

/-! ### individual `splitter_lcp` entries -/

/-- the `unsigned char` entry holds flag and value without loss -/
theorem lcpEntry_def (a b : Key) : lcpEntry a b = lcpKeyType a b + (if lowByte b = 0 then 128 else 0) := by
  unfold lcpEntry
  have := lcpKeyType_le a b
  exact u8_of_lt (by split <;> omega)

theorem lcpEntry_mod (a b : Key) : lcpEntry a b % 128 = lcpKeyType a b := by
  rw [lcpEntry_def]
  have := lcpKeyType_le a b
  split <;> omega

theorem lcpEntry_flag (a b : Key) : lcpEntry a b ≥ 128 ↔ lowByte b = 0 := by
  rw [lcpEntry_def]
  have := lcpKeyType_le a b
  split <;> rename_i h <;> simp [h] <;> omega

/-- the entries of `splitter_lcp` one by one -/
theorem slcp_get {tb : Nat} {samples : Array Key} {c : Classifier} (h : build tb samples = some c)
    (hlen : c.splitters.length = numSplitters tb) (hns : 1 ≤ numSplitters tb) :
    (∀ j, j < numSplitters tb → ∃ v sj, c.slcp[j]? = some v ∧ c.splitters[j]? = some sj ∧
        (v ≥ 128 ↔ lowByte sj = 0) ∧
        (j = 0 → v % 128 = 0) ∧
        (0 < j → ∃ sp, c.splitters[j - 1]? = some sp ∧ v % 128 = lcpKeyType sp sj)) ∧
    c.slcp[numSplitters tb]? = some 0 := by
  have hs := build_slcp h
  have hel := slcpEntries_length 0 c.splitters
  cases hent : slcpEntries 0 c.splitters with
  | nil => rw [hent] at hel; simp at hel; omega
  | cons x xs =>
    rw [hent] at hs hel
    simp only [List.length_cons] at hel
    constructor
    · intro j hj
      have hsj : c.splitters[j]? = some c.splitters[j] := List.getElem?_eq_getElem (by omega)
      have hget := slcpEntries_get 0 c.splitters j (by omega)
      rw [hent] at hget
      cases j with
      | zero =>
        refine ⟨if x ≥ 128 then 128 else 0, c.splitters[0], by rw [hs]; simp, hsj, ?_, ?_, ?_⟩
        · simp only [List.getElem?_cons_zero, if_true, hsj, Option.getD_some, Option.some.injEq] at hget
          rw [hget]
          have := lcpEntry_flag 0 c.splitters[0]
          by_cases hx : lcpEntry 0 c.splitters[0] ≥ 128
          · simp only [hx, if_true]
            exact ⟨fun _ => this.1 hx, fun _ => Nat.le_refl _⟩
          · simp only [hx, if_false]
            exact ⟨fun h' => by omega, fun h' => absurd (this.2 h') hx⟩
        · intro _; split <;> rfl
        · intro h0; omega
      | succ j =>
        have hsp : c.splitters[j]? = some c.splitters[j] := List.getElem?_eq_getElem (by omega)
        simp only [List.getElem?_cons_succ, Nat.add_sub_cancel, hsp, hsj, Option.getD_some] at hget
        have hne : ¬ (j + 1 = 0) := by omega
        simp only [hne, if_false] at hget
        refine ⟨lcpEntry c.splitters[j] c.splitters[j + 1], c.splitters[j + 1], ?_, hsj, lcpEntry_flag _ _, by omega, ?_⟩
        · rw [hs]
          rw [List.getElem?_append_left (by simp; omega)]
          simpa using hget
        · intro _; exact ⟨c.splitters[j], by simpa using hsp, lcpEntry_mod _ _⟩
    · rw [hs, List.getElem?_append_right (by simp; omega)]
      simp only [List.length_cons]
      have : numSplitters tb - (xs.length + 1) = 0 := by omega
      rw [this]; rfl

end TlxVerif.C04
