/-
L2 for the combined variants with k = 3 and k = 4 (`multiway_merge_3_combined`,
`multiway_merge_4_combined`): unguarded phase of `min(size, total − overhang)` elements
(never exhausts a sequence before its last step, by `C05Prepare.lean`), then the rest with
end-guards on the sequences other than `min_seq`, which is used up by then.
-/
import TlxVerif.Proofs.C05Machine
import TlxVerif.Proofs.C05Prepare
import TlxVerif.Proofs.C05Lift
import TlxVerif.Proofs.C05MergeAdvance
namespace TlxVerif.C05
open TlxVerif.C09 (SWO)

variable {α : Type}

theorem Rsum_le {stb : Bool} {lt : α → α → Bool} {mn : α} {ms : Nat} : ∀ (k : Nat) (L : List (List α)),
    Rsum stb lt mn ms k L ≤ L.flatten.length
  | _, [] => by simp [Rsum]
  | k, l :: rest => by
    have := Rsum_le (stb := stb) (lt := lt) (mn := mn) (ms := ms) (k + 1) rest
    have := cnt_le (stb := stb) (lt := lt) (mn := mn) (ms := ms) k l
    simp only [Rsum, List.flatten_cons, List.length_append]; omega

/-- the unguarded phase on a 3- or 4-way machine -/
theorem unguardedPhase_machine {lt : α → α → Bool} (hlt : SWO lt) {M : Machine} (hM : tableOK M = true)
    (seqs : List (Seq α)) (hn : seqs.length = M.n) (mn : α) (ms ug : Nat)
    (hS : Shape true lt mn ms (xsOf seqs)) (hug : ug ≤ R true lt mn ms (xsOf seqs)) :
    ∃ fin out, machineMerge false lt M seqs ug = some (fin, out) ∧
      StableRun lt (xsOf seqs) ug out (xsOf fin) ∧ guardsOf fin = guardsOf seqs ∧
      Shape true lt mn ms (xsOf fin) ∧ R true lt mn ms (xsOf fin) + ug = R true lt mn ms (xsOf seqs) := by
  let c := R true lt mn ms (xsOf seqs) - ug
  obtain ⟨fin, out, h1, h2, h3, h4⟩ := machineMerge_run hlt false hM
    (fun s n => Shape true lt mn ms (xsOf s) ∧ R true lt mn ms (xsOf s) = n + c)
    (fun s n hP hg t ht => by
      left
      have hp : P true lt mn ms (xsOf s) (n + 1) := ⟨by rw [hP.2]; omega, hP.1⟩
      exact hp.nonempty t.xs (List.mem_map_of_mem ht))
    (fun s n a sa x q hP hsa hxa hmin => by
      have hp : P true lt mn ms (xsOf s) (n + 1) := ⟨by rw [hP.2]; omega, hP.1⟩
      have hm : IsMinS true lt (xsOf s) a x q := ⟨hmin.1, fun _ => hmin.2⟩
      rw [xsOf_set]
      exact ⟨(hp.step hlt hm).2, by have := hp.step_R hlt hm; omega⟩)
    seqs ug hn ⟨hS, by simp only [c]; omega⟩
    (Nat.le_trans hug (Rsum_le 0 _))
  exact ⟨fin, out, h1, h2, h3, h4.1, by rw [h4.2]; simp only [c]; omega⟩

theorem mergeAdvance_zero (lt : α → α → Bool) (a b : List α) : mergeAdvance lt a b 0 = some (a, b, []) := by
  cases a <;> cases b <;> simp [mergeAdvance, mergeLoop, copyN]

theorem list3 {β : Type} {L : List β} (h : L.length = 3) : ∃ a b c, L = [a, b, c] := by
  match L, h with
  | [a, b, c], _ => exact ⟨a, b, c, rfl⟩

theorem list4 {β : Type} {L : List β} (h : L.length = 4) : ∃ a b c d, L = [a, b, c, d] := by
  match L, h with
  | [a, b, c, d], _ => exact ⟨a, b, c, d, rfl⟩

/-- second phase of the 3-way combined merge: `merge_advance` on the two sequences other than
`m`, when sequence `m` is used up (or nothing is left to do) -/
theorem finish3 {lt : α → α → Bool} (hlt : SWO lt) (s0 s1 s2 : Seq α) (m n : Nat) (hm : m < 3)
    (hn : n ≤ (xsOf [s0, s1, s2]).flatten.length)
    (hemp : (xsOf [s0, s1, s2])[m]? = some [] ∨ n = 0) :
    ∃ fin o, mergeOthers3 lt [s0, s1, s2] m n = some (fin, o) ∧
      StableRun lt (xsOf [s0, s1, s2]) n o (xsOf fin) ∧ guardsOf fin = guardsOf [s0, s1, s2] := by
  rcases hemp with hemp | h0
  · have key : ∀ (x y : List α), n ≤ x.length + y.length →
        ∃ a b o, mergeAdvance lt x y n = some (a, b, o) ∧ StableRun lt [x, y] n o [a, b] :=
      fun x y h => mergeAdvance_run hlt x y n h
    match m, hm, hemp with
    | 0, _, he =>
      have e0 : s0.xs = [] := by simpa [xsOf] using he
      obtain ⟨a, b, o, h1, h2⟩ := key s1.xs s2.xs (by simpa [xsOf, e0] using hn)
      refine ⟨[s0, { s1 with xs := a }, { s2 with xs := b }], o, by simp [mergeOthers3, h1], ?_, rfl⟩
      have := stableRun_insEmpty 0 (by simp) h2
      simpa [insEmpty, xsOf, e0] using this
    | 1, _, he =>
      have e0 : s1.xs = [] := by simpa [xsOf] using he
      obtain ⟨a, b, o, h1, h2⟩ := key s0.xs s2.xs (by simpa [xsOf, e0] using hn)
      refine ⟨[{ s0 with xs := a }, s1, { s2 with xs := b }], o, by simp [mergeOthers3, h1], ?_, rfl⟩
      have := stableRun_insEmpty 1 (by simp) h2
      simpa [insEmpty, xsOf, e0] using this
    | 2, _, he =>
      have e0 : s2.xs = [] := by simpa [xsOf] using he
      obtain ⟨a, b, o, h1, h2⟩ := key s0.xs s1.xs (by simpa [xsOf, e0] using hn)
      refine ⟨[{ s0 with xs := a }, { s1 with xs := b }, s2], o, by simp [mergeOthers3, h1], ?_, rfl⟩
      have := stableRun_insEmpty 2 (by simp) h2
      simpa [insEmpty, xsOf, e0] using this
  · subst h0
    match m, hm with
    | 0, _ => exact ⟨[s0, s1, s2], [], by simp [mergeOthers3, mergeAdvance_zero], StableRun.done _, rfl⟩
    | 1, _ => exact ⟨[s0, s1, s2], [], by simp [mergeOthers3, mergeAdvance_zero], StableRun.done _, rfl⟩
    | 2, _ => exact ⟨[s0, s1, s2], [], by simp [mergeOthers3, mergeAdvance_zero], StableRun.done _, rfl⟩

/-- **multiway_merge_3_combined** (the default algorithm for k = 3): defined for every
`size ≤ total` on sorted inputs and performs the stable run -/
theorem multiwayMerge3Combined_run {lt : α → α → Bool} (hlt : SWO lt) {M3 : Machine} (hM : tableOK M3 = true)
    (h3 : M3.n = 3) (seqs : List (Seq α)) (size : Nat) (hn : seqs.length = 3)
    (hsorted : ∀ l ∈ xsOf seqs, Sorted lt l) (hsize : size ≤ (xsOf seqs).flatten.length) :
    ∃ fin out, multiwayMerge3Combined lt M3 seqs size = some (fin, out) ∧
      StableRun lt (xsOf seqs) size out (xsOf fin) ∧ guardsOf fin = guardsOf seqs := by
  have hne : seqs ≠ [] := by intro e; rw [e] at hn; cases hn
  unfold multiwayMerge3Combined
  have hn' : ¬ seqs.length ≠ 3 := by simp [hn]
  simp only [hn', if_false, Option.bind_eq_bind, Option.pure_def, Option.bind_some]
  rcases prepareUnguarded_spec hlt true seqs hsorted hne with ⟨m, hp, hm⟩ | ⟨o, mn, ms, hp, hS, hR, _⟩
  · -- an empty sequence: everything is merged with end-guards from the two others
    obtain ⟨s0, s1, s2, rfl⟩ := list3 hn
    have hm3 : m < 3 := by
      by_cases c : m < 3
      · exact c
      · rw [List.getElem?_eq_none (by simp [xsOf]; omega)] at hm; cases hm
    obtain ⟨fin, o2, hmo, hrun, hg⟩ := finish3 hlt s0 s1 s2 m size hm3 hsize (Or.inl hm)
    refine ⟨fin, o2, ?_, hrun, hg⟩
    simp only [hp, Option.bind_some, hmo, List.nil_append]
  · -- unguarded phase, then the rest
    have hug : min size (totalSize seqs - o) ≤ R true lt mn ms (xsOf seqs) := by omega
    obtain ⟨fin1, out1, hm1, hrun1, hg1, hS1, hR1⟩ :=
      unguardedPhase_machine hlt hM seqs (by rw [hn, h3]) mn ms (min size (totalSize seqs - o)) hS hug
    have hlen1 : fin1.length = 3 := by
      have := hrun1.minRun.length.2
      simp only [xsOf, List.length_map] at this; omega
    obtain ⟨t0, t1, t2, rfl⟩ := list3 hlen1
    have hms3 : ms < 3 := by have := hS.msIn rfl; simpa [xsOf, hn] using this
    have htot1 : (xsOf [t0, t1, t2]).flatten.length + min size (totalSize seqs - o) = (xsOf seqs).flatten.length := by
      have h1 := hrun1.minRun.perm.length_eq
      simp only [List.length_append] at h1
      have h2 := hrun1.minRun.length.1
      omega
    have hemp : (xsOf [t0, t1, t2])[ms]? = some [] ∨ size - min size (totalSize seqs - o) = 0 := by
      by_cases c : size - min size (totalSize seqs - o) = 0
      · exact Or.inr c
      · left
        exact hS1.ms_exhausted rfl (by omega)
    obtain ⟨fin, o2, hmo, hrun2, hg2⟩ :=
      finish3 hlt t0 t1 t2 ms (size - min size (totalSize seqs - o)) hms3 (by rw [totalSize_eq] at *; omega) hemp
    refine ⟨fin, out1 ++ o2, ?_, ?_, by rw [hg2, hg1]⟩
    · simp only [hp, Option.bind_some, hm1, hmo]
    · have := hrun1.append hrun2
      rwa [show min size (totalSize seqs - o) + (size - min size (totalSize seqs - o)) = size by omega] at this

/-! ### k = 4 -/

theorem machineMerge_zero {lt : α → α → Bool} {M : Machine} (hM : tableOK M = true) (g : Bool)
    (seqs : List (Seq α)) (hn : seqs.length = M.n) : machineMerge g lt M seqs 0 = some (seqs, []) := by
  obtain ⟨he, hf, _⟩ := tableOK_parts hM
  simp [machineMerge, hn, he, hf]

/-- second phase of the 4-way combined merge: the guarded 3-way merge on the sequences other than
`m`, when sequence `m` is used up (or nothing is left to do) -/
theorem finish4 {lt : α → α → Bool} (hlt : SWO lt) {M3 : Machine} (hM3 : tableOK M3 = true) (h3 : M3.n = 3)
    (t0 t1 t2 t3 : Seq α) (m n : Nat) (hm : m < 4)
    (hn : n ≤ (xsOf [t0, t1, t2, t3]).flatten.length)
    (hemp : (xsOf [t0, t1, t2, t3])[m]? = some [] ∨ n = 0) :
    ∃ fin o, mergeOneMissing lt M3 [t0, t1, t2, t3] m n = some (fin, o) ∧
      StableRun lt (xsOf [t0, t1, t2, t3]) n o (xsOf fin) ∧ guardsOf fin = guardsOf [t0, t1, t2, t3] := by
  have guarded : ∀ (om0 : List (Seq α)), om0.length = 3 → n ≤ (xsOf om0).flatten.length →
      ∃ u0 u1 u2 o, machineMerge true lt M3 om0 n = some ([u0, u1, u2], o) ∧
        StableRun lt (xsOf om0) n o (xsOf [u0, u1, u2]) ∧ guardsOf [u0, u1, u2] = guardsOf om0 := by
    intro om0 hl hsz
    obtain ⟨fin, out, h1, h2, h3', _⟩ := machineMerge_run hlt true hM3 (fun _ _ => True)
      (fun _ _ _ h => by cases h) (fun _ _ _ _ _ _ _ _ _ _ => trivial) om0 n (by rw [hl, h3]) trivial hsz
    have hlen : fin.length = 3 := by
      have := h2.minRun.length.2
      simp only [xsOf, List.length_map] at this; omega
    obtain ⟨u0, u1, u2, rfl⟩ := list3 hlen
    exact ⟨u0, u1, u2, out, h1, h2, h3'⟩
  rcases hemp with hemp | h0
  · match m, hm, hemp with
    | 0, _, he =>
      have e0 : t0.xs = [] := by simpa [xsOf] using he
      obtain ⟨u0, u1, u2, o, h1, h2, hg⟩ := guarded [t1, t2, t3] rfl (by simpa [xsOf, e0] using hn)
      refine ⟨[t0, u0, u1, u2], o, by simp [mergeOneMissing, h1], ?_, by simp [guardsOf] at hg ⊢; exact hg⟩
      have := stableRun_insEmpty 0 (by simp) h2
      simpa [insEmpty, xsOf, e0] using this
    | 1, _, he =>
      have e0 : t1.xs = [] := by simpa [xsOf] using he
      obtain ⟨u0, u1, u2, o, h1, h2, hg⟩ := guarded [t0, t2, t3] rfl (by simpa [xsOf, e0] using hn)
      refine ⟨[u0, t1, u1, u2], o, by simp [mergeOneMissing, h1], ?_, by simp [guardsOf] at hg ⊢; exact ⟨hg.1, hg.2⟩⟩
      have := stableRun_insEmpty 1 (by simp [xsOf]) h2
      simpa [insEmpty, xsOf, e0] using this
    | 2, _, he =>
      have e0 : t2.xs = [] := by simpa [xsOf] using he
      obtain ⟨u0, u1, u2, o, h1, h2, hg⟩ := guarded [t0, t1, t3] rfl (by simpa [xsOf, e0] using hn)
      refine ⟨[u0, u1, t2, u2], o, by simp [mergeOneMissing, h1], ?_, by simp [guardsOf] at hg ⊢; exact ⟨hg.1, hg.2.1, hg.2.2⟩⟩
      have := stableRun_insEmpty 2 (by simp [xsOf]) h2
      simpa [insEmpty, xsOf, e0] using this
    | 3, _, he =>
      have e0 : t3.xs = [] := by simpa [xsOf] using he
      obtain ⟨u0, u1, u2, o, h1, h2, hg⟩ := guarded [t0, t1, t2] rfl (by simpa [xsOf, e0] using hn)
      refine ⟨[u0, u1, u2, t3], o, by simp [mergeOneMissing, h1], ?_, by simp [guardsOf] at hg ⊢; exact hg⟩
      have := stableRun_insEmpty 3 (by simp [xsOf]) h2
      simpa [insEmpty, xsOf, e0] using this
  · subst h0
    match m, hm with
    | 0, _ => exact ⟨[t0, t1, t2, t3], [], by simp [mergeOneMissing, machineMerge_zero hM3 true [t1, t2, t3] (by simp [h3])], StableRun.done _, rfl⟩
    | 1, _ => exact ⟨[t0, t1, t2, t3], [], by simp [mergeOneMissing, machineMerge_zero hM3 true [t0, t2, t3] (by simp [h3])], StableRun.done _, rfl⟩
    | 2, _ => exact ⟨[t0, t1, t2, t3], [], by simp [mergeOneMissing, machineMerge_zero hM3 true [t0, t1, t3] (by simp [h3])], StableRun.done _, rfl⟩
    | 3, _ => exact ⟨[t0, t1, t2, t3], [], by simp [mergeOneMissing, machineMerge_zero hM3 true [t0, t1, t2] (by simp [h3])], StableRun.done _, rfl⟩

/-- **multiway_merge_4_combined** (the default algorithm for k = 4) -/
theorem multiwayMerge4Combined_run {lt : α → α → Bool} (hlt : SWO lt) {M3 M4 : Machine}
    (hM3 : tableOK M3 = true) (h3 : M3.n = 3) (hM4 : tableOK M4 = true) (h4 : M4.n = 4)
    (seqs : List (Seq α)) (size : Nat) (hn : seqs.length = 4)
    (hsorted : ∀ l ∈ xsOf seqs, Sorted lt l) (hsize : size ≤ (xsOf seqs).flatten.length) :
    ∃ fin out, multiwayMerge4Combined lt M3 M4 seqs size = some (fin, out) ∧
      StableRun lt (xsOf seqs) size out (xsOf fin) ∧ guardsOf fin = guardsOf seqs := by
  have hne : seqs ≠ [] := by intro e; rw [e] at hn; cases hn
  unfold multiwayMerge4Combined
  have hn' : ¬ seqs.length ≠ 4 := by simp [hn]
  simp only [hn', if_false, Option.bind_eq_bind, Option.pure_def, Option.bind_some]
  rcases prepareUnguarded_spec hlt true seqs hsorted hne with ⟨m, hp, hm⟩ | ⟨o, mn, ms, hp, hS, hR, _⟩
  · obtain ⟨s0, s1, s2, s3, rfl⟩ := list4 hn
    have hm4 : m < 4 := by
      by_cases c : m < 4
      · exact c
      · rw [List.getElem?_eq_none (by simp [xsOf]; omega)] at hm; cases hm
    obtain ⟨fin, o2, hmo, hrun, hg⟩ := finish4 hlt hM3 h3 s0 s1 s2 s3 m size hm4 hsize (Or.inl hm)
    refine ⟨fin, o2, ?_, hrun, hg⟩
    simp only [hp, Option.bind_some, hmo, List.nil_append]
  · have hug : min size (totalSize seqs - o) ≤ R true lt mn ms (xsOf seqs) := by omega
    obtain ⟨fin1, out1, hm1, hrun1, hg1, hS1, hR1⟩ :=
      unguardedPhase_machine hlt hM4 seqs (by rw [hn, h4]) mn ms (min size (totalSize seqs - o)) hS hug
    have hlen1 : fin1.length = 4 := by
      have := hrun1.minRun.length.2
      simp only [xsOf, List.length_map] at this; omega
    obtain ⟨t0, t1, t2, t3, rfl⟩ := list4 hlen1
    have hms4 : ms < 4 := by have := hS.msIn rfl; simpa [xsOf, hn] using this
    have htot1 : (xsOf [t0, t1, t2, t3]).flatten.length + min size (totalSize seqs - o) = (xsOf seqs).flatten.length := by
      have h1 := hrun1.minRun.perm.length_eq
      simp only [List.length_append] at h1
      have h2 := hrun1.minRun.length.1
      omega
    have hemp : (xsOf [t0, t1, t2, t3])[ms]? = some [] ∨ size - min size (totalSize seqs - o) = 0 := by
      by_cases c : size - min size (totalSize seqs - o) = 0
      · exact Or.inr c
      · left
        exact hS1.ms_exhausted rfl (by omega)
    obtain ⟨fin, o2, hmo, hrun2, hg2⟩ :=
      finish4 hlt hM3 h3 t0 t1 t2 t3 ms (size - min size (totalSize seqs - o)) hms4 (by rw [totalSize_eq] at *; omega) hemp
    refine ⟨fin, out1 ++ o2, ?_, ?_, by rw [hg2, hg1]⟩
    · simp only [hp, Option.bind_some, hm1, hmo]
    · have := hrun1.append hrun2
      rwa [show min size (totalSize seqs - o) + (size - min size (totalSize seqs - o)) = size by omega] at this

end TlxVerif.C05
