/-
C01/C02 — erase, part C: descent frames.  Contexts handed to the children are well formed, the
search loop is defined, and every frame (leaf or inner) of a well-shaped tree returns a node that
is at most one entry below its minimum together with a rebalancing request its parent can execute.
-/
import TlxVerif.Model.C01Erase
import TlxVerif.Proofs.C01Main
import TlxVerif.Proofs.C01Query
import TlxVerif.Proofs.C01EraseA
import TlxVerif.Proofs.C01EraseB
namespace TlxVerif.C01

variable {K V : Type}

/-- minimal fill of a non-root node of height `h` -/
def minOf (p : Params K) (h : Nat) : Nat := if h = 0 then p.leafMin else p.innerMin

/-- what every context satisfies (also the root's): parent identities are ancestors,
the neighbours on the same level are well-shaped subtrees -/
structure CtxBase (p : Params K) (h : Nat) (ctx : Ctx K V) : Prop where
  lp_lt : ∀ d, ctx.lp = some d → d < ctx.depth
  rp_lt : ∀ d, ctx.rp = some d → d < ctx.depth
  par_lt : ∀ d, ctx.par = some d → d < ctx.depth
  left_shape : ∀ L, ctx.left = some L → Shape p h L
  right_shape : ∀ R, ctx.right = some R → Shape p h R

/-- the context of a non-root node -/
structure CtxOk (p : Params K) (h : Nat) (ctx : Ctx K V) : Prop extends CtxBase p h ctx where
  par_some : ctx.par.isSome = true
  left_same : ctx.lp = ctx.par → ctx.left.isSome = true
  right_same : ctx.rp = ctx.par → ctx.right.isSome = true
  one_same : ctx.lp = ctx.par ∨ ctx.rp = ctx.par
  eq_same : ctx.lp = ctx.rp → ctx.lp = ctx.par
  sep : ctx.sepAbove = decide (ctx.rp = ctx.par)

theorem ctxBase_root (p : Params K) (h : Nat) : CtxBase p h ({} : Ctx K V) := by
  refine ⟨?_, ?_, ?_, ?_, ?_⟩ <;> intro x hx <;> simp at hx

/-- the context built for child `slot` -/
theorem childCtx_ok (p : Params K) (pv : p.Valid) (h : Nat) (keys : List K) (kids : List (BNode K V)) (ctx : Ctx K V)
    (hk : kids.length = keys.length + 1) (hkeys : 1 ≤ keys.length) (hkids : ∀ c ∈ kids, Shape p h c)
    (hb : CtxBase p (h + 1) ctx) (slot : Nat) (hslot : slot ≤ keys.length) :
    ∃ cctx, childCtx h keys kids ctx slot = some cctx ∧ CtxOk p h cctx ∧
      (cctx.lp = cctx.par ↔ 0 < slot) ∧ (cctx.rp = cctx.par ↔ slot < keys.length) ∧
      (0 < slot → cctx.left = kids[slot - 1]?) ∧ (slot < keys.length → cctx.right = kids[slot + 1]?) ∧
      cctx.off = ctx.off + ((kids.take slot).map (leafCount h)).sum := by
  have hi4 := pv.inner4
  have hmin : 2 ≤ p.innerMin := by simp [Params.innerMin, Gen.innerSlotmin]; omega
  -- the border children of the neighbours
  have hleft : ∃ ml : Option (BNode K V),
      myLeft kids ctx slot = some ml ∧ (∀ L, ml = some L → Shape p h L) ∧
        (0 < slot → ml = kids[slot - 1]? ∧ ml.isSome = true) := by
    unfold myLeft
    by_cases hs : slot = 0
    · rw [if_pos hs]
      cases hl : ctx.left with
      | none =>
        refine ⟨none, rfl, ?_, ?_⟩
        · intro L hL; cases hL
        · omega
      | some L =>
        obtain ⟨lv, lk, lc, rfl, _, hla, hl1, _, hlc⟩ := shapeS_inner (hb.left_shape L hl)
        simp only
        rw [if_neg (by omega)]
        refine ⟨_, rfl, ?_, by omega⟩
        intro X hX
        exact hlc X (List.mem_of_getElem? hX)
    · rw [if_neg hs]
      refine ⟨_, rfl, ?_, ?_⟩
      · intro X hX; exact hkids X (List.mem_of_getElem? hX)
      · intro _; refine ⟨rfl, ?_⟩
        rw [List.getElem?_eq_getElem (by omega)]; rfl
  have hright : ∃ mr : Option (BNode K V),
      myRight keys kids ctx slot = some mr ∧ (∀ R, mr = some R → Shape p h R) ∧
        (slot < keys.length → mr = kids[slot + 1]? ∧ mr.isSome = true) := by
    unfold myRight
    by_cases hs : slot = keys.length
    · rw [if_pos hs]
      cases hr : ctx.right with
      | none =>
        refine ⟨none, rfl, ?_, ?_⟩
        · intro R hR; cases hR
        · omega
      | some R =>
        obtain ⟨rv, rk, rc, rfl, _, hra, hr1, _, hrc⟩ := shapeS_inner (hb.right_shape R hr)
        simp only
        refine ⟨_, rfl, ?_, by omega⟩
        intro X hX
        exact hrc X (List.mem_of_getElem? hX)
    · rw [if_neg hs]
      refine ⟨_, rfl, ?_, ?_⟩
      · intro X hX; exact hkids X (List.mem_of_getElem? hX)
      · intro _; refine ⟨rfl, ?_⟩
        rw [List.getElem?_eq_getElem (by omega)]; rfl
  obtain ⟨ml, hml, hmls, hmlk⟩ := hleft
  obtain ⟨mr, hmr, hmrs, hmrk⟩ := hright
  simp only [childCtx]
  rw [hml, hmr]
  simp only
  have hlpne : ctx.lp ≠ some ctx.depth := fun h' => Nat.lt_irrefl _ (hb.lp_lt _ h')
  have hrpne : ctx.rp ≠ some ctx.depth := fun h' => Nat.lt_irrefl _ (hb.rp_lt _ h')
  have hlp : ((if slot = 0 then ctx.lp else some ctx.depth) = some ctx.depth) ↔ 0 < slot := by
    by_cases hs : slot = 0
    · simp [hs, hlpne]
    · simp [hs]; omega
  have hrp : ((if slot = keys.length then ctx.rp else some ctx.depth) = some ctx.depth) ↔ slot < keys.length := by
    by_cases hs : slot = keys.length
    · simp [hs, hrpne]
    · simp [hs]; omega
  refine ⟨_, rfl, ?_, hlp, hrp, fun h0 => (hmlk h0).1, fun h0 => (hmrk h0).1, rfl⟩
  refine { lp_lt := ?_, rp_lt := ?_, par_lt := ?_, left_shape := hmls, right_shape := hmrs, par_some := rfl,
           left_same := ?_, right_same := ?_, one_same := ?_, eq_same := ?_, sep := ?_ }
  · intro d hd
    simp only at hd ⊢
    by_cases hs : slot = 0
    · rw [if_pos hs] at hd; have := hb.lp_lt d hd; omega
    · rw [if_neg hs] at hd; cases hd; omega
  · intro d hd
    simp only at hd ⊢
    by_cases hs : slot = keys.length
    · rw [if_pos hs] at hd; have := hb.rp_lt d hd; omega
    · rw [if_neg hs] at hd; cases hd; omega
  · intro d hd; simp only at hd ⊢; cases hd; omega
  · intro h'; exact (hmlk (hlp.mp h')).2
  · intro h'; exact (hmrk (hrp.mp h')).2
  · simp only
    by_cases hs : 0 < slot
    · exact Or.inl (hlp.mpr hs)
    · exact Or.inr (hrp.mpr (by omega))
  · simp only
    intro heq
    by_cases hs : slot = 0
    · rw [if_pos hs] at heq ⊢
      by_cases hs2 : slot = keys.length
      · omega
      · rw [if_neg hs2] at heq; exact absurd heq hlpne
    · rw [if_neg hs]
  · simp only
    by_cases hs : slot < keys.length
    · simp [hs, hrp.mpr hs]
    · have : ¬ ((if slot = keys.length then ctx.rp else some ctx.depth) = some ctx.depth) := fun h' => hs (hrp.mp h')
      simp [hs, this]

/-- the search loop returns as soon as a visit finds the entry; it is defined when every visit is -/
theorem scanLoop_spec {α : Type} (visit : Nat → Option (Option α)) (stop : Nat → Bool) :
    ∀ (n s0 : Nat), (∀ s, s0 ≤ s → s < s0 + n → ∃ r, visit s = some r) →
      ∃ res, scanLoop visit stop n s0 = some res ∧
        ∀ s a, res = some (s, a) → s0 ≤ s ∧ s < s0 + n ∧ visit s = some (some a) := by
  intro n
  induction n with
  | zero => intro s0 _; exact ⟨none, rfl, by intro s a h; cases h⟩
  | succ n ih =>
    intro s0 hv
    obtain ⟨r, hr⟩ := hv s0 (Nat.le_refl _) (by omega)
    unfold scanLoop
    rw [hr]
    cases r with
    | some a =>
      refine ⟨some (s0, a), rfl, ?_⟩
      intro s a' h
      cases h
      exact ⟨Nat.le_refl _, by omega, hr⟩
    | none =>
      simp only
      by_cases hst : stop s0 = true
      · rw [if_pos hst]; exact ⟨none, rfl, by intro s a h; cases h⟩
      · rw [if_neg hst]
        obtain ⟨res, h1, h2⟩ := ih (s0 + 1) (fun s h1 h2 => hv s (by omega) (by omega))
        refine ⟨res, h1, ?_⟩
        intro s a h
        obtain ⟨a1, a2, a3⟩ := h2 s a h
        exact ⟨by omega, by omega, a3⟩

/-! ### the contract of a non-root frame -/

/-- which entry (by rank in the subtree's entry sequence) the target designates -/
def HitAt (p : Params K) (tg : Target K) (h : Nat) (n : BNode K V) (off : Nat) (i : Nat) : Prop :=
  match tg with
  | .key k => i = insRank p k h n ∧ ∃ e, probe p k h n = some e ∧ p.eqv k e.1 = true
  | .iter li s _ =>
    off ≤ li ∧ ∃ leaf, (chain h n)[li - off]? = some leaf ∧ s < leaf.length ∧
      i = rankOf (chain h n) (some (li - off, s))

structure EraseOK (p : Params K) (tg : Target K) (h : Nat) (n : BNode K V) (ctx : Ctx K V) (out : EraseOut K V) :
    Prop where
  noDrop : out.rootDrop = false
  shape : ShapeTop p (p.leafMin - 1) (p.innerMin - 1) h out.node
  full : minOf p h ≤ out.node.slotuse → out.fix = .none
  under : out.node.slotuse < minOf p h →
    Applicable (minOf p h) (ctx.left.map BNode.slotuse) (ctx.right.map BNode.slotuse)
      (ctx.lp = ctx.par) (ctx.rp = ctx.par) out.fix
  flat : ∃ i, i < (flatten h n).length ∧ flatten h out.node = (flatten h n).eraseIdx i ∧ HitAt p tg h n ctx.off i
  lcnt : leafCount h out.node + out.leafFree = leafCount h n
  icnt : innerCount h out.node + out.innerFree = innerCount h n

theorem ctxOk_decide (p : Params K) (h : Nat) (ctx : Ctx K V) (hc : CtxOk p h ctx) (m : Nat) :
    ∃ f, decideFix m (ctx.left.map BNode.slotuse) (ctx.right.map BNode.slotuse) ctx.lp ctx.rp ctx.par = some f ∧
      Applicable m (ctx.left.map BNode.slotuse) (ctx.right.map BNode.slotuse) (ctx.lp = ctx.par) (ctx.rp = ctx.par) f := by
  apply decideFix_applicable
  · intro h'; have := hc.left_same h'; simpa using this
  · intro h'; have := hc.right_same h'; simpa using this
  · exact hc.one_same
  · exact hc.eq_same

theorem ctxOk_not_alone (p : Params K) (h : Nat) (ctx : Ctx K V) (hc : CtxOk p h ctx) :
    (ctx.left.isNone && ctx.right.isNone) = false := by
  rcases hc.one_same with h' | h'
  · have := hc.left_same h'
    cases hl : ctx.left <;> simp_all
  · have := hc.right_same h'
    cases hr : ctx.right <;> simp_all

theorem leafReport_some (sepAbove erasedLast : Bool) (k : K) :
    ∃ u, leafReport sepAbove erasedLast (some k) = some u := by
  unfold leafReport
  cases erasedLast <;> cases sepAbove <;> exact ⟨_, rfl⟩

/-- the leaf's underflow decision (non-root) -/
theorem finishLeaf_nonroot (p : Params K) (es' : List (K × V)) (ctx : Ctx K V) (hc : CtxOk p 0 ctx)
    (setSep lastUp : Option K) :
    ∃ out, finishLeaf p es' ctx setSep lastUp = some out ∧ out.rootDrop = false ∧ out.node = .leaf es' ∧
      out.setSep = setSep ∧ out.lastUp = lastUp ∧ out.leafFree = 0 ∧ out.innerFree = 0 ∧
      (p.leafMin ≤ es'.length → out.fix = .none) ∧
      (es'.length < p.leafMin →
        Applicable p.leafMin (ctx.left.map BNode.slotuse) (ctx.right.map BNode.slotuse)
          (ctx.lp = ctx.par) (ctx.rp = ctx.par) out.fix) := by
  have hpar : ctx.par.isNone = false := by
    have := hc.par_some
    cases hp : ctx.par <;> simp_all
  unfold finishLeaf
  simp only [hpar, Bool.false_and, Bool.not_false, Bool.and_true]
  by_cases hu : es'.length < p.leafMin
  · simp only [hu, decide_true, ctxOk_not_alone p 0 ctx hc, if_true]
    obtain ⟨f, hf, hap⟩ := ctxOk_decide p 0 ctx hc p.leafMin
    rw [hf]
    exact ⟨_, rfl, rfl, rfl, rfl, rfl, rfl, rfl, by intro h'; omega, fun _ => hap⟩
  · simp only [hu, decide_false]
    exact ⟨_, rfl, rfl, rfl, rfl, rfl, rfl, rfl, fun _ => rfl, fun h' => h'.elim⟩

/-- the leaf part of a frame -/
theorem eraseInLeaf_ok (p : Params K) (pv : p.Valid) (tg : Target K) (es : List (K × V)) (slot : Nat)
    (ctx : Ctx K V) (hs : Shape p 0 (BNode.leaf es)) (hc : CtxOk p 0 ctx) (hslot : slot < es.length)
    (hhit : HitAt p tg 0 (.leaf es) ctx.off slot) :
    ∃ out, eraseInLeaf p es slot ctx = some out ∧ EraseOK p tg 0 (.leaf es) ctx out := by
  have hl4 := pv.leaf4
  have hmin : 2 ≤ p.leafMin := by simp [Params.leafMin, Gen.leafSlotmin]; omega
  simp only [Shape] at hs
  have hlen : (es.eraseIdx slot).length = es.length - 1 := List.length_eraseIdx_of_lt hslot
  obtain ⟨e, he⟩ := getLast?_isSome_of_length_pos (es.eraseIdx slot) (by omega)
  unfold eraseInLeaf
  simp only [he, Option.map_some]
  obtain ⟨⟨u1, u2⟩, hu⟩ := leafReport_some ctx.sepAbove (slot == (es.eraseIdx slot).length) e.1
  rw [hu]
  simp only
  obtain ⟨out, ho, h1, h2, _, _, h5, h6, h7, h8⟩ := finishLeaf_nonroot p (es.eraseIdx slot) ctx hc u1 u2
  refine ⟨out, ho, ⟨h1, ?_, ?_, ?_, ⟨slot, by simpa [flatten] using hslot, by rw [h2]; simp [flatten], hhit⟩, ?_, ?_⟩⟩
  · rw [h2]; simp only [ShapeTop]; omega
  · intro h'; rw [h2] at h'; simp only [minOf, BNode.slotuse, if_true] at h'; exact h7 h'
  · intro h'; rw [h2] at h'; simp only [minOf, BNode.slotuse, if_true] at h' ⊢; exact h8 h'
  · rw [h2, h5]; simp [leafCount]
  · rw [h2, h6]; simp [innerCount]

/-! ### what the parent does with the child's result -/

theorem ShapeTop.mi_irrel0 {p : Params K} {ml mi mi' : Nat} {n : BNode K V} (hs : ShapeTop p ml mi 0 n) :
    ShapeTop p ml mi' 0 n := by
  cases n <;> simpa [ShapeTop] using hs

theorem applicable_fixOk (m : Nat) (kids : List (BNode K V)) (slot : Nat) (nlen : Nat) (x : BNode K V) (cctx : Ctx K V)
    (f : Fix)
    (hc1 : cctx.lp = cctx.par ↔ 0 < slot) (hc2 : cctx.rp = cctx.par ↔ slot < nlen)
    (hc3 : 0 < slot → cctx.left = kids[slot - 1]?) (hc4 : slot < nlen → cctx.right = kids[slot + 1]?)
    (hap : Applicable m (cctx.left.map BNode.slotuse) (cctx.right.map BNode.slotuse)
      (cctx.lp = cctx.par) (cctx.rp = cctx.par) f) :
    FixOk m (kids.set slot x) slot f := by
  cases hap with
  | mergeL u h1 h2 h3 =>
    have h0 := hc1.mp h1
    rw [hc3 h0] at h2
    cases hL : kids[slot - 1]? with
    | none => rw [hL] at h2; cases h2
    | some L =>
      rw [hL] at h2
      simp only [Option.map_some, Option.some.injEq] at h2
      exact ⟨h0, L, by rw [List.getElem?_set_ne (by omega)]; exact hL, by omega⟩
  | mergeR u h1 h2 h3 =>
    have h0 := hc2.mp h1
    rw [hc4 h0] at h2
    cases hR : kids[slot + 1]? with
    | none => rw [hR] at h2; cases h2
    | some R =>
      rw [hR] at h2
      simp only [Option.map_some, Option.some.injEq] at h2
      exact ⟨R, by rw [List.getElem?_set_ne (by omega)]; exact hR, by omega⟩
  | shiftL u h1 h2 h3 =>
    have h0 := hc2.mp h1
    rw [hc4 h0] at h2
    cases hR : kids[slot + 1]? with
    | none => rw [hR] at h2; cases h2
    | some R =>
      rw [hR] at h2
      simp only [Option.map_some, Option.some.injEq] at h2
      exact ⟨R, by rw [List.getElem?_set_ne (by omega)]; exact hR, by omega⟩
  | shiftR u h1 h2 h3 =>
    have h0 := hc1.mp h1
    rw [hc3 h0] at h2
    cases hL : kids[slot - 1]? with
    | none => rw [hL] at h2; cases h2
    | some L =>
      rw [hL] at h2
      simp only [Option.map_some, Option.some.injEq] at h2
      exact ⟨h0, L, by rw [List.getElem?_set_ne (by omega)]; exact hL, by omega⟩

theorem length_setSepKey (keys : List K) (slot : Nat) (o : Option K) : (setSepKey keys slot o).length = keys.length := by
  cases o <;> simp [setSepKey]

/-- the part of `afterChild` before this node's own underflow decision -/
theorem afterChild_pre (p : Params K) (pv : p.Valid) (tg : Target K) (h l : Nat) (keys : List K)
    (kids : List (BNode K V)) (ctx cctx : Ctx K V) (slot : Nat) (r : EraseOut K V)
    (hl : l = h + 1) (hk : kids.length = keys.length + 1) (hslot : slot ≤ keys.length)
    (hkids : ∀ c ∈ kids, Shape p h c) (child : BNode K V) (hchild : kids[slot]? = some child)
    (hc1 : cctx.lp = cctx.par ↔ 0 < slot) (hc2 : cctx.rp = cctx.par ↔ slot < keys.length)
    (hc3 : 0 < slot → cctx.left = kids[slot - 1]?) (hc4 : slot < keys.length → cctx.right = kids[slot + 1]?)
    (hr : EraseOK p tg h child cctx r) :
    ∃ keys3 kids3 lf inf,
      afterChild p l keys kids ctx slot r =
        finishInner p l keys3 kids3 ctx (reportSep ctx.sepAbove r.lastUp) (reportUp ctx.sepAbove r.lastUp)
          (r.leafFree + lf) (r.innerFree + inf) ∧
      RebalanceOut p h keys (kids.set slot r.node) keys3 kids3 lf inf ∧
      SepPart p h (setSepKey keys slot r.setSep) (kids.set slot r.node) keys3 kids3 := by
  have hlt : slot < kids.length := by omega
  unfold afterChild
  rw [hr.noDrop]
  simp only [Bool.false_eq_true, if_false]
  generalize hk1 : setSepKey keys slot r.setSep = keys1
  have hlen1 : keys1.length = keys.length := by rw [← hk1]; exact length_setSepKey keys slot r.setSep
  have hka : (kids.set slot r.node).length = keys1.length + 1 := by rw [List.length_set, hlen1]; exact hk
  have hsh : ∀ i c, (kids.set slot r.node)[i]? = some c → i ≠ slot → Shape p h c := by
    intro i c hc hne
    rw [List.getElem?_set_ne (by omega)] at hc
    exact hkids c (List.mem_of_getElem? hc)
  have hC : (kids.set slot r.node)[slot]? = some r.node := by
    rw [List.getElem?_set_self hlt]
  cases h with
  | zero =>
    have hfull : p.leafMin ≤ r.node.slotuse → r.fix = .none := by
      intro h'; exact hr.full (by simpa [minOf] using h')
    have hunder : r.node.slotuse < p.leafMin → FixOk p.leafMin (kids.set slot r.node) slot r.fix := by
      intro h'
      have := hr.under (by simpa [minOf] using h')
      simp only [minOf, if_true] at this
      exact applicable_fixOk p.leafMin kids slot keys.length r.node cctx r.fix hc1 hc2 hc3 hc4 this
    obtain ⟨fx, keys3, kids3, lf, inf, h1, h2, h3, h4, h5⟩ := rebalance_leaf p pv keys1 (kids.set slot r.node) slot r.fix
      hka (by omega) hsh r.node hC hr.shape.mi_irrel0 hfull hunder
    subst hl
    rw [h1]
    simp only [h2, h3, Option.none_or]
    exact ⟨keys3, kids3, lf, inf, rfl, ⟨h4.arity, h4.shape, h4.flat, by rw [← hlen1]; exact h4.klen, h4.free_le, h4.lcnt, h4.icnt⟩, h5⟩
  | succ h =>
    have hfull : p.innerMin ≤ r.node.slotuse → r.fix = .none := by
      intro h'; exact hr.full (by simpa [minOf] using h')
    have hunder : r.node.slotuse < p.innerMin → FixOk p.innerMin (kids.set slot r.node) slot r.fix := by
      intro h'
      have := hr.under (by simpa [minOf] using h')
      simp only [minOf, Nat.add_one_ne_zero, if_false] at this
      exact applicable_fixOk p.innerMin kids slot keys.length r.node cctx r.fix hc1 hc2 hc3 hc4 this
    obtain ⟨fx, keys3, kids3, lf, inf, h1, h2, h3, h4, h5⟩ := rebalance_inner p pv h l (by omega) keys1
      (kids.set slot r.node) slot r.fix hka (by omega) hsh r.node hC hr.shape.ml_irrel hfull hunder
    rw [h1]
    simp only [h2, h3, Option.none_or]
    exact ⟨keys3, kids3, lf, inf, rfl, ⟨h4.arity, h4.shape, h4.flat, by rw [← hlen1]; exact h4.klen, h4.free_le, h4.lcnt, h4.icnt⟩, h5⟩

end TlxVerif.C01
