import TlxVerif.Proofs.C13Radix
import TlxVerif.Proofs.C13BitArr
/-! The radix heap as a state machine: invariant `RInv` and its preservation. -/
namespace TlxVerif.C13

/-! ### total accessors and `set!` -/

theorem getD_set! {α : Type} (a : Array α) (i j : Nat) (v d : α) :
    (a.set! i v).getD j d = if i = j ∧ i < a.size then v else a.getD j d := by
  simp only [Array.set!_eq_setIfInBounds, Array.getD_eq_getD_getElem?, Array.getElem?_setIfInBounds]
  by_cases e : i = j
  · subst e
    by_cases h : i < a.size
    · simp [h]
    · simp [h, Array.getElem?_eq_none (Nat.le_of_not_lt h)]
  · simp [e]

theorem size_set! {α : Type} (a : Array α) (i : Nat) (v : α) : (a.set! i v).size = a.size := by
  simp [Array.set!_eq_setIfInBounds]

theorem getElem?_eq_some_getD {α : Type} (a : Array α) (i : Nat) (d : α) (h : i < a.size) :
    a[i]? = some (a.getD i d) := by
  simp [Array.getD_eq_getD_getElem?, Array.getElem?_eq_getElem h]

/-! ### the stored multiset -/

/-- all stored elements, bucket by bucket -/
def RH.contents {c : RCfg} (h : RH c) : List (RVal c.w) := (h.buckets.toList.map (·.toList)).flatten

theorem flatten_set_perm {α : Type} (L : List (List α)) (i : Nat) (hi : i < L.length) (l' : List α) :
    ((L.set i l').flatten ++ L[i]).Perm (L.flatten ++ l') := by
  induction L generalizing i with
  | nil => simp at hi
  | cons x rest ih =>
    cases i with
    | zero =>
      simp only [List.set_cons_zero, List.flatten_cons, List.getElem_cons_zero]
      -- l' ++ rest.flatten ++ x ~ x ++ rest.flatten ++ l'
      have h1 : (l' ++ rest.flatten ++ x).Perm (x ++ (l' ++ rest.flatten)) := List.perm_append_comm
      have h2 : (x ++ (l' ++ rest.flatten)).Perm (x ++ (rest.flatten ++ l')) :=
        List.Perm.append_left x List.perm_append_comm
      rw [List.append_assoc x]
      exact h1.trans h2
    | succ i =>
      simp only [List.set_cons_succ, List.flatten_cons, List.getElem_cons_succ, List.append_assoc]
      exact List.Perm.append_left x (ih i (by simpa using hi))

theorem mem_contents {c : RCfg} (h : RH c) (v : RVal c.w) :
    v ∈ h.contents ↔ ∃ i, i < h.buckets.size ∧ v ∈ h.buckets.getD i #[] := by
  unfold RH.contents
  simp only [List.mem_flatten, List.mem_map, Array.mem_toList_iff]
  constructor
  · rintro ⟨l, ⟨b, hb, rfl⟩, hv⟩
    obtain ⟨i, hi, rfl⟩ := Array.mem_iff_getElem.mp hb
    exact ⟨i, hi, by simpa [Array.getD_eq_getD_getElem?, Array.getElem?_eq_getElem hi] using hv⟩
  · rintro ⟨i, hi, hv⟩
    refine ⟨_, ⟨h.buckets[i], Array.getElem_mem hi, rfl⟩, ?_⟩
    simpa [Array.getD_eq_getD_getElem?, Array.getElem?_eq_getElem hi] using hv


/-! ### the invariant -/

def RH.bk {c : RCfg} (h : RH c) (i : Nat) : Array (RVal c.w) := h.buckets.getD i #[]
def RH.mn {c : RCfg} (h : RH c) (i : Nat) : BitVec c.w := h.mins.getD i (maxRank c.w)
abbrev rk (c : RCfg) (v : RVal c.w) : BitVec c.w := rankOfInt c v.1

/-- the part of the invariant that also holds inside `reorganize_()`, where the bucket `ex` being
redistributed still holds elements placed for the old limit -/
structure RCore (c : RCfg) (h : RH c) (ex : Option Nat) : Prop where
  nbB : h.buckets.size = numBuckets c
  nbM : h.mins.size = numBuckets c
  nbF : h.filled.nb = numBuckets c
  wfF : h.filled.WF
  curR : h.cur < c.radix
  el : ∀ i, i < numBuckets c → some i ≠ ex → ∀ v ∈ h.bk i,
    h.limit.toNat ≤ (rk c v).toNat ∧ bucketOf c (rk c v) h.limit = i
  fl : ∀ i, i < numBuckets c → h.filled.isSet i = !(h.bk i).isEmpty
  mnLe : ∀ i, i < numBuckets c → ∀ v ∈ h.bk i, (h.mn i).toNat ≤ (rk c v).toNat
  mnIn : ∀ i, i < numBuckets c → h.bk i ≠ #[] → ∃ v ∈ h.bk i, rk c v = h.mn i
  mnEmpty : ∀ i, i < numBuckets c → h.bk i = #[] →
    h.mn i = maxRank c.w ∨ (i = h.cur ∧ h.limit.toNat ≤ (h.mn i).toNat ∧ bucketOf c (h.mn i) h.limit = i)

theorem maxRank_toNat_ge (w : Nat) (x : BitVec w) : x.toNat ≤ (maxRank w).toNat := by
  have := x.isLt
  simp only [maxRank, BitVec.toNat_allOnes]; omega

/-- the state after inserting `x` into bucket `idx` with the new bit array `f` -/
def insState {c : RCfg} (h : RH c) (idx : Nat) (x : RVal c.w) (f : BitArr) : RH c :=
  { h with buckets := h.buckets.set! idx ((h.bk idx).push x), filled := f,
           mins := if (h.mn idx).toNat > (rk c x).toNat then h.mins.set! idx (rk c x) else h.mins }

theorem insState_bk {c : RCfg} (h : RH c) (idx : Nat) (x : RVal c.w) (f : BitArr) (hB : idx < h.buckets.size)
    (i : Nat) : (insState h idx x f).bk i = if i = idx then (h.bk idx).push x else h.bk i := by
  show (h.buckets.set! idx ((h.bk idx).push x)).getD i #[] = _
  rw [getD_set!]
  by_cases e : idx = i
  · subst e; rw [if_pos ⟨rfl, hB⟩, if_pos rfl]
  · have : ¬ i = idx := fun e' => e e'.symm
    rw [if_neg (fun hh => e hh.1), if_neg this]; rfl

theorem insState_mn {c : RCfg} (h : RH c) (idx : Nat) (x : RVal c.w) (f : BitArr) (hM : idx < h.mins.size)
    (i : Nat) : (insState h idx x f).mn i =
      if i = idx ∧ (h.mn idx).toNat > (rk c x).toNat then rk c x else h.mn i := by
  show (if (h.mn idx).toNat > (rk c x).toNat then h.mins.set! idx (rk c x) else h.mins).getD i (maxRank c.w) = _
  by_cases hgt : (h.mn idx).toNat > (rk c x).toNat
  · rw [if_pos hgt, getD_set!]
    by_cases e : idx = i
    · subst e; rw [if_pos ⟨rfl, hM⟩, if_pos ⟨rfl, hgt⟩]
    · have : ¬ i = idx := fun e' => e e'.symm
      rw [if_neg (fun hh => e hh.1), if_neg (fun hh => this hh.1)]; rfl
  · rw [if_neg hgt, if_neg (fun hh => hgt hh.2)]; rfl

theorem insert_spec {c : RCfg} (hrb : 0 < c.rb) (h : RH c) (ex : Option Nat) (hc : RCore c h ex) (x : RVal c.w)
    (hx : h.limit.toNat ≤ (rk c x).toNat) (hex : some (bucketOf c (rk c x) h.limit) ≠ ex) :
    ∃ h', h.insert (bucketOf c (rk c x) h.limit) x = some h' ∧ RCore c h' ex ∧
      h'.limit = h.limit ∧ h'.cur = h.cur ∧ h'.size = h.size ∧
      (∀ i, i ≠ bucketOf c (rk c x) h.limit → h'.bk i = h.bk i) ∧
      h'.bk (bucketOf c (rk c x) h.limit) = (h.bk (bucketOf c (rk c x) h.limit)).push x ∧
      h'.contents.Perm (x :: h.contents) := by
  generalize hidx : bucketOf c (rk c x) h.limit = idx at *
  have hlt : idx < numBuckets c := by rw [← hidx]; exact bucketOf_lt c hrb _ _ hx
  have hB : idx < h.buckets.size := by rw [hc.nbB]; exact hlt
  have hM : idx < h.mins.size := by rw [hc.nbM]; exact hlt
  have hF : idx < h.filled.nb := by rw [hc.nbF]; exact hlt
  -- the bit array
  have hfill : ∃ f, (if (h.bk idx).isEmpty then h.filled.setBit idx else some h.filled) = some f ∧ f.WF ∧
      f.nb = h.filled.nb ∧ ∀ j, f.isSet j = (h.filled.isSet j || decide (j = idx)) := by
    by_cases he : (h.bk idx).isEmpty = true
    · simp only [he, if_true]
      exact h.filled.setBit_spec hc.wfF idx hF
    · simp only [he, Bool.false_eq_true, if_false]
      refine ⟨_, rfl, hc.wfF, rfl, ?_⟩
      intro j
      by_cases e : j = idx
      · subst e
        have := hc.fl j hlt
        have he' : (h.bk j).isEmpty = false := by simpa using he
        rw [this, he']; simp
      · simp [e]
  obtain ⟨f, hf1, hf2, hf3, hf4⟩ := hfill
  have hbk := insState_bk h idx x f hB
  have hmn := insState_mn h idx x f hM
  refine ⟨insState h idx x f, ?_, ?_, rfl, rfl, rfl, ?_, ?_, ?_⟩
  · unfold RH.insert
    rw [getElem?_eq_some_getD h.buckets idx #[] hB, getElem?_eq_some_getD h.mins idx (maxRank c.w) hM]
    have hf1' : (if (h.buckets.getD idx #[]).isEmpty = true then h.filled.setBit idx else some h.filled) = some f := hf1
    simp only [Option.bind_eq_bind, Option.bind_some, Option.pure_def]
    by_cases he : (h.buckets.getD idx #[]).isEmpty = true
    · simp only [he, if_true] at hf1' ⊢
      rw [hf1']; rfl
    · simp only [he, Bool.false_eq_true, if_false] at hf1' ⊢
      cases hf1'; rfl
  · -- the invariant
    constructor
    · simp [insState, size_set!, hc.nbB]
    · show (if (h.mn idx).toNat > (rk c x).toNat then h.mins.set! idx (rk c x) else h.mins).size = _
      by_cases hgt : (h.mn idx).toNat > (rk c x).toNat
      · rw [if_pos hgt, size_set!, hc.nbM]
      · rw [if_neg hgt, hc.nbM]
    · show f.nb = _; rw [hf3, hc.nbF]
    · exact hf2
    · exact hc.curR
    · intro i hi hiex v hv
      rw [hbk] at hv
      by_cases e : i = idx
      · subst e
        simp only [if_true, Array.mem_push] at hv
        rcases hv with hv | rfl
        · exact hc.el i hi hiex v hv
        · exact ⟨hx, hidx⟩
      · simp only [e, if_false] at hv
        exact hc.el i hi hiex v hv
    · intro i hi
      show f.isSet i = _
      rw [hf4, hbk, hc.fl i hi]
      by_cases e : i = idx
      · subst e; simp
      · simp [e]
    · intro i hi v hv
      rw [hbk] at hv
      rw [hmn]
      by_cases e : i = idx
      · subst e
        simp only [if_true, Array.mem_push, true_and] at hv ⊢
        rcases hv with hv | rfl
        · have := hc.mnLe i hi v hv
          split <;> omega
        · split <;> omega
      · simp only [e, if_false, false_and] at hv ⊢
        exact hc.mnLe i hi v hv
    · intro i hi hne
      rw [hbk] at hne ⊢
      rw [hmn]
      by_cases e : i = idx
      · subst e
        simp only [if_true, true_and, Array.mem_push]
        by_cases hgt : (h.mn i).toNat > (rk c x).toNat
        · simp only [hgt, if_true]; exact ⟨x, Or.inr rfl, rfl⟩
        · simp only [hgt, if_false]
          by_cases hemp : h.bk i = #[]
          · -- the bucket was empty: its stale minimum is the key itself
            rcases hc.mnEmpty i hi hemp with hmax | ⟨hcur, hl, hb⟩
            · refine ⟨x, Or.inr rfl, ?_⟩
              have := maxRank_toNat_ge c.w (rk c x)
              rw [hmax] at hgt ⊢
              exact BitVec.eq_of_toNat_eq (by omega)
            · refine ⟨x, Or.inr rfl, ?_⟩
              have hrad : bucketOf c (rk c x) h.limit < c.radix := by
                rw [hidx]; have := hc.curR; omega
              exact bucketOf_row0 c hrb h.limit (rk c x) (h.mn i) hx hl (by rw [hidx, hb]) hrad
          · obtain ⟨v, hv, hvm⟩ := hc.mnIn i hi hemp
            exact ⟨v, Or.inl hv, hvm⟩
      · simp only [e, if_false, false_and] at hne ⊢
        exact hc.mnIn i hi hne
    · intro i hi hemp
      rw [hbk] at hemp
      rw [hmn]
      by_cases e : i = idx
      · subst e; simp at hemp
      · simp only [e, if_false, false_and] at hemp ⊢
        exact hc.mnEmpty i hi hemp
  · intro i hi
    rw [hbk]; simp [hi]
  · rw [hbk]; simp
  · -- the stored multiset
    unfold RH.contents insState
    simp only [Array.set!_eq_setIfInBounds, Array.toList_setIfInBounds, List.map_set, Array.toList_push]
    have hL : idx < (h.buckets.toList.map (·.toList)).length := by simpa using hB
    have hget : (h.buckets.toList.map (·.toList))[idx] = (h.bk idx).toList := by
      simp [RH.bk, Array.getD_eq_getD_getElem?, Array.getElem?_eq_getElem hB]
    have := flatten_set_perm (h.buckets.toList.map (·.toList)) idx hL ((h.bk idx).toList ++ [x])
    rw [hget] at this
    have h2 : ((h.buckets.toList.map (·.toList)).flatten ++ ((h.bk idx).toList ++ [x])).Perm
        ((x :: (h.buckets.toList.map (·.toList)).flatten) ++ (h.bk idx).toList) := by
      have a1 : ((h.bk idx).toList ++ [x]).Perm (x :: (h.bk idx).toList) := List.perm_append_singleton _ _
      have a2 := List.Perm.append_left (h.buckets.toList.map (·.toList)).flatten a1
      refine a2.trans ?_
      simp only [List.cons_append]
      exact List.perm_middle
    exact (List.perm_append_right_iff _).mp (this.trans h2)

end TlxVerif.C13
