import TlxVerif.Proofs.C13Radix
import TlxVerif.Proofs.C13BitArr
/-! The radix heap as a state machine: invariant `RInv` and its preservation. -/
namespace TlxVerif.C13

/-! ### total accessors and `set!` -/

theorem getD_set! {α : Type} (a : Array α) (i j : Nat) (v d : α) :
    (a.set! i v).getD j d = if i = j ∧ i < a.size then v else a.getD j d := by
  simp only [Array.set!_eq_setIfInBounds, Array.getD_eq_getD_getElem?, Array.getElem?_setIfInBounds]
  by_cases e : i = j
  · subst e
    by_cases h : i < a.size
    · simp [h]
    · simp [h, Array.getElem?_eq_none (Nat.le_of_not_lt h)]
  · simp [e]

theorem size_set! {α : Type} (a : Array α) (i : Nat) (v : α) : (a.set! i v).size = a.size := by
  simp [Array.set!_eq_setIfInBounds]

theorem getElem?_eq_some_getD {α : Type} (a : Array α) (i : Nat) (d : α) (h : i < a.size) :
    a[i]? = some (a.getD i d) := by
  simp [Array.getD_eq_getD_getElem?, Array.getElem?_eq_getElem h]

/-! ### the stored multiset -/

/-- all stored elements, bucket by bucket -/
def RH.contents {c : RCfg} (h : RH c) : List (RVal c.w) := (h.buckets.toList.map (·.toList)).flatten

theorem flatten_set_perm {α : Type} (L : List (List α)) (i : Nat) (hi : i < L.length) (l' : List α) :
    ((L.set i l').flatten ++ L[i]).Perm (L.flatten ++ l') := by
  induction L generalizing i with
  | nil => simp at hi
  | cons x rest ih =>
    cases i with
    | zero =>
      simp only [List.set_cons_zero, List.flatten_cons, List.getElem_cons_zero]
      -- l' ++ rest.flatten ++ x ~ x ++ rest.flatten ++ l'
      have h1 : (l' ++ rest.flatten ++ x).Perm (x ++ (l' ++ rest.flatten)) := List.perm_append_comm
      have h2 : (x ++ (l' ++ rest.flatten)).Perm (x ++ (rest.flatten ++ l')) :=
        List.Perm.append_left x List.perm_append_comm
      rw [List.append_assoc x]
      exact h1.trans h2
    | succ i =>
      simp only [List.set_cons_succ, List.flatten_cons, List.getElem_cons_succ, List.append_assoc]
      exact List.Perm.append_left x (ih i (by simpa using hi))

theorem mem_contents {c : RCfg} (h : RH c) (v : RVal c.w) :
    v ∈ h.contents ↔ ∃ i, i < h.buckets.size ∧ v ∈ h.buckets.getD i #[] := by
  unfold RH.contents
  simp only [List.mem_flatten, List.mem_map, Array.mem_toList_iff]
  constructor
  · rintro ⟨l, ⟨b, hb, rfl⟩, hv⟩
    obtain ⟨i, hi, rfl⟩ := Array.mem_iff_getElem.mp hb
    exact ⟨i, hi, by simpa [Array.getD_eq_getD_getElem?, Array.getElem?_eq_getElem hi] using hv⟩
  · rintro ⟨i, hi, hv⟩
    refine ⟨_, ⟨h.buckets[i], Array.getElem_mem hi, rfl⟩, ?_⟩
    simpa [Array.getD_eq_getD_getElem?, Array.getElem?_eq_getElem hi] using hv


/-! ### the invariant -/

def RH.bk {c : RCfg} (h : RH c) (i : Nat) : Array (RVal c.w) := h.buckets.getD i #[]
def RH.mn {c : RCfg} (h : RH c) (i : Nat) : BitVec c.w := h.mins.getD i (maxRank c.w)
abbrev rk (c : RCfg) (v : RVal c.w) : BitVec c.w := rankOfInt c v.1

/-- the part of the invariant that also holds inside `reorganize_()`, where the bucket `ex` being
redistributed still holds elements placed for the old limit; `st` = the only bucket that may be empty
with a stale minimum (the current bucket after `pop`) -/
structure RCore (c : RCfg) (h : RH c) (ex : Option Nat) (st : Option Nat) : Prop where
  nbB : h.buckets.size = numBuckets c
  nbM : h.mins.size = numBuckets c
  nbF : h.filled.nb = numBuckets c
  wfF : h.filled.WF
  curR : h.cur < c.radix
  stR : ∀ s, st = some s → s < c.radix
  flHi : ∀ i, numBuckets c ≤ i → h.filled.isSet i = false
  el : ∀ i, i < numBuckets c → some i ≠ ex → ∀ v ∈ h.bk i,
    h.limit.toNat ≤ (rk c v).toNat ∧ bucketOf c (rk c v) h.limit = i
  fl : ∀ i, i < numBuckets c → h.filled.isSet i = !(h.bk i).isEmpty
  mnLe : ∀ i, i < numBuckets c → ∀ v ∈ h.bk i, (h.mn i).toNat ≤ (rk c v).toNat
  mnIn : ∀ i, i < numBuckets c → h.bk i ≠ #[] → ∃ v ∈ h.bk i, rk c v = h.mn i
  mnEmpty : ∀ i, i < numBuckets c → h.bk i = #[] →
    h.mn i = maxRank c.w ∨ (some i = st ∧ h.limit.toNat ≤ (h.mn i).toNat ∧ bucketOf c (h.mn i) h.limit = i)

theorem maxRank_toNat_ge (w : Nat) (x : BitVec w) : x.toNat ≤ (maxRank w).toNat := by
  have := x.isLt
  simp only [maxRank, BitVec.toNat_allOnes]; omega

/-- the state after inserting `x` into bucket `idx` with the new bit array `f` -/
def insState {c : RCfg} (h : RH c) (idx : Nat) (x : RVal c.w) (f : BitArr) : RH c :=
  { h with buckets := h.buckets.set! idx ((h.bk idx).push x), filled := f,
           mins := if (h.mn idx).toNat > (rk c x).toNat then h.mins.set! idx (rk c x) else h.mins }

theorem insState_bk {c : RCfg} (h : RH c) (idx : Nat) (x : RVal c.w) (f : BitArr) (hB : idx < h.buckets.size)
    (i : Nat) : (insState h idx x f).bk i = if i = idx then (h.bk idx).push x else h.bk i := by
  show (h.buckets.set! idx ((h.bk idx).push x)).getD i #[] = _
  rw [getD_set!]
  by_cases e : idx = i
  · subst e; rw [if_pos ⟨rfl, hB⟩, if_pos rfl]
  · have : ¬ i = idx := fun e' => e e'.symm
    rw [if_neg (fun hh => e hh.1), if_neg this]; rfl

theorem insState_mn {c : RCfg} (h : RH c) (idx : Nat) (x : RVal c.w) (f : BitArr) (hM : idx < h.mins.size)
    (i : Nat) : (insState h idx x f).mn i =
      if i = idx ∧ (h.mn idx).toNat > (rk c x).toNat then rk c x else h.mn i := by
  show (if (h.mn idx).toNat > (rk c x).toNat then h.mins.set! idx (rk c x) else h.mins).getD i (maxRank c.w) = _
  by_cases hgt : (h.mn idx).toNat > (rk c x).toNat
  · rw [if_pos hgt, getD_set!]
    by_cases e : idx = i
    · subst e; rw [if_pos ⟨rfl, hM⟩, if_pos ⟨rfl, hgt⟩]
    · have : ¬ i = idx := fun e' => e e'.symm
      rw [if_neg (fun hh => e hh.1), if_neg (fun hh => this hh.1)]; rfl
  · rw [if_neg hgt, if_neg (fun hh => hgt hh.2)]; rfl

theorem insert_spec {c : RCfg} (hrb : 0 < c.rb) (h : RH c) (ex st : Option Nat) (hc : RCore c h ex st) (x : RVal c.w)
    (hx : h.limit.toNat ≤ (rk c x).toNat) (hex : some (bucketOf c (rk c x) h.limit) ≠ ex) :
    ∃ h', h.insert (bucketOf c (rk c x) h.limit) x = some h' ∧ RCore c h' ex st ∧
      h'.limit = h.limit ∧ h'.cur = h.cur ∧ h'.size = h.size ∧
      (∀ i, i ≠ bucketOf c (rk c x) h.limit → h'.bk i = h.bk i) ∧
      h'.bk (bucketOf c (rk c x) h.limit) = (h.bk (bucketOf c (rk c x) h.limit)).push x ∧
      h'.contents.Perm (x :: h.contents) := by
  generalize hidx : bucketOf c (rk c x) h.limit = idx at *
  have hlt : idx < numBuckets c := by rw [← hidx]; exact bucketOf_lt c hrb _ _ hx
  have hB : idx < h.buckets.size := by rw [hc.nbB]; exact hlt
  have hM : idx < h.mins.size := by rw [hc.nbM]; exact hlt
  have hF : idx < h.filled.nb := by rw [hc.nbF]; exact hlt
  -- the bit array
  have hfill : ∃ f, (if (h.bk idx).isEmpty then h.filled.setBit idx else some h.filled) = some f ∧ f.WF ∧
      f.nb = h.filled.nb ∧ ∀ j, f.isSet j = (h.filled.isSet j || decide (j = idx)) := by
    by_cases he : (h.bk idx).isEmpty = true
    · simp only [he, if_true]
      exact h.filled.setBit_spec hc.wfF idx hF
    · simp only [he, Bool.false_eq_true, if_false]
      refine ⟨_, rfl, hc.wfF, rfl, ?_⟩
      intro j
      by_cases e : j = idx
      · subst e
        have := hc.fl j hlt
        have he' : (h.bk j).isEmpty = false := by simpa using he
        rw [this, he']; simp
      · simp [e]
  obtain ⟨f, hf1, hf2, hf3, hf4⟩ := hfill
  have hbk := insState_bk h idx x f hB
  have hmn := insState_mn h idx x f hM
  refine ⟨insState h idx x f, ?_, ?_, rfl, rfl, rfl, ?_, ?_, ?_⟩
  · unfold RH.insert
    rw [getElem?_eq_some_getD h.buckets idx #[] hB, getElem?_eq_some_getD h.mins idx (maxRank c.w) hM]
    have hf1' : (if (h.buckets.getD idx #[]).isEmpty = true then h.filled.setBit idx else some h.filled) = some f := hf1
    simp only [Option.bind_eq_bind, Option.bind_some, Option.pure_def]
    by_cases he : (h.buckets.getD idx #[]).isEmpty = true
    · simp only [he, if_true] at hf1' ⊢
      rw [hf1']; rfl
    · simp only [he, Bool.false_eq_true, if_false] at hf1' ⊢
      cases hf1'; rfl
  · -- the invariant
    constructor
    · simp [insState, size_set!, hc.nbB]
    · show (if (h.mn idx).toNat > (rk c x).toNat then h.mins.set! idx (rk c x) else h.mins).size = _
      by_cases hgt : (h.mn idx).toNat > (rk c x).toNat
      · rw [if_pos hgt, size_set!, hc.nbM]
      · rw [if_neg hgt, hc.nbM]
    · show f.nb = _; rw [hf3, hc.nbF]
    · exact hf2
    · exact hc.curR
    · exact hc.stR
    · intro i hi
      show f.isSet i = false
      rw [hf4, hc.flHi i hi]
      have : ¬ i = idx := by omega
      simp [this]
    · intro i hi hiex v hv
      rw [hbk] at hv
      by_cases e : i = idx
      · subst e
        simp only [if_true, Array.mem_push] at hv
        rcases hv with hv | rfl
        · exact hc.el i hi hiex v hv
        · exact ⟨hx, hidx⟩
      · simp only [e, if_false] at hv
        exact hc.el i hi hiex v hv
    · intro i hi
      show f.isSet i = _
      rw [hf4, hbk, hc.fl i hi]
      by_cases e : i = idx
      · subst e; simp
      · simp [e]
    · intro i hi v hv
      rw [hbk] at hv
      rw [hmn]
      by_cases e : i = idx
      · subst e
        simp only [if_true, Array.mem_push, true_and] at hv ⊢
        rcases hv with hv | rfl
        · have := hc.mnLe i hi v hv
          split <;> omega
        · split <;> omega
      · simp only [e, if_false, false_and] at hv ⊢
        exact hc.mnLe i hi v hv
    · intro i hi hne
      rw [hbk] at hne ⊢
      rw [hmn]
      by_cases e : i = idx
      · subst e
        simp only [if_true, true_and, Array.mem_push]
        by_cases hgt : (h.mn i).toNat > (rk c x).toNat
        · simp only [hgt, if_true]; exact ⟨x, Or.inr rfl, rfl⟩
        · simp only [hgt, if_false]
          by_cases hemp : h.bk i = #[]
          · -- the bucket was empty: its stale minimum is the key itself
            rcases hc.mnEmpty i hi hemp with hmax | ⟨hcur, hl, hb⟩
            · refine ⟨x, Or.inr rfl, ?_⟩
              have := maxRank_toNat_ge c.w (rk c x)
              rw [hmax] at hgt ⊢
              exact BitVec.eq_of_toNat_eq (by omega)
            · refine ⟨x, Or.inr rfl, ?_⟩
              have hrad : bucketOf c (rk c x) h.limit < c.radix := by
                rw [hidx]; exact hc.stR i hcur.symm
              exact bucketOf_row0 c hrb h.limit (rk c x) (h.mn i) hx hl (by rw [hidx, hb]) hrad
          · obtain ⟨v, hv, hvm⟩ := hc.mnIn i hi hemp
            exact ⟨v, Or.inl hv, hvm⟩
      · simp only [e, if_false, false_and] at hne ⊢
        exact hc.mnIn i hi hne
    · intro i hi hemp
      rw [hbk] at hemp
      rw [hmn]
      by_cases e : i = idx
      · subst e; simp at hemp
      · simp only [e, if_false, false_and] at hemp ⊢
        exact hc.mnEmpty i hi hemp
  · intro i hi
    rw [hbk]; simp [hi]
  · rw [hbk]; simp
  · -- the stored multiset
    unfold RH.contents insState
    simp only [Array.set!_eq_setIfInBounds, Array.toList_setIfInBounds, List.map_set, Array.toList_push]
    have hL : idx < (h.buckets.toList.map (·.toList)).length := by simpa using hB
    have hget : (h.buckets.toList.map (·.toList))[idx] = (h.bk idx).toList := by
      simp [RH.bk, Array.getD_eq_getD_getElem?, Array.getElem?_eq_getElem hB]
    have := flatten_set_perm (h.buckets.toList.map (·.toList)) idx hL ((h.bk idx).toList ++ [x])
    rw [hget] at this
    have h2 : ((h.buckets.toList.map (·.toList)).flatten ++ ((h.bk idx).toList ++ [x])).Perm
        ((x :: (h.buckets.toList.map (·.toList)).flatten) ++ (h.bk idx).toList) := by
      have a1 : ((h.bk idx).toList ++ [x]).Perm (x :: (h.bk idx).toList) := List.perm_append_singleton _ _
      have a2 := List.Perm.append_left (h.buckets.toList.map (·.toList)).flatten a1
      refine a2.trans ?_
      simp only [List.cons_append]
      exact List.perm_middle
    exact (List.perm_append_right_iff _).mp (this.trans h2)


/-! ### the full invariant -/

/-- `fr` = rank of the key most recently reported by top/pop/swap_top_bucket since the last clear -/
structure RInv (c : RCfg) (h : RH c) (fr : Option (BitVec c.w)) : Prop where
  core : RCore c h none (some h.cur)
  cnt : h.size = h.contents.length
  frI : match fr with
    | none => h.limit = 0 ∧ h.cur = 0
    | some f => h.limit.toNat ≤ f.toNat ∧ bucketOf c f h.limit = h.cur ∧
        ∀ v ∈ h.contents, f.toNat ≤ (rk c v).toNat

theorem numBuckets_pos (c : RCfg) : 0 < numBuckets c := by unfold numBuckets; omega

theorem mem_contents_bk {c : RCfg} (h : RH c) {ex st : Option Nat} (hc : RCore c h ex st) (v : RVal c.w) :
    v ∈ h.contents ↔ ∃ i, i < numBuckets c ∧ v ∈ h.bk i := by
  rw [mem_contents, hc.nbB]; rfl

/-- nothing is stored before the current bucket -/
theorem empty_before_cur {c : RCfg} (hrb : 0 < c.rb) (h : RH c) (fr : Option (BitVec c.w)) (hi : RInv c h fr)
    (i : Nat) (hlt : i < h.cur) : h.bk i = #[] := by
  have hcr := hi.core.curR
  apply Array.eq_empty_of_size_eq_zero
  apply Classical.byContradiction
  intro hne
  have hpos : 0 < (h.bk i).size := by omega
  have hv : (h.bk i)[0] ∈ h.bk i := Array.getElem_mem hpos
  have hin : i < numBuckets c := by
    apply Classical.byContradiction
    intro hge
    have : h.bk i = #[] := by
      unfold RH.bk
      rw [Array.getD_eq_getD_getElem?, Array.getElem?_eq_none (by rw [hi.core.nbB]; omega)]
      rfl
    rw [this] at hpos; simp at hpos
  obtain ⟨h1, h2⟩ := hi.core.el i hin (by simp) _ hv
  have hfr := hi.frI
  cases fr with
  | none => simp only at hfr; omega
  | some f =>
    simp only at hfr
    obtain ⟨f1, f2, f3⟩ := hfr
    have hm : (h.bk i)[0] ∈ h.contents := (mem_contents_bk h hi.core _).mpr ⟨i, hin, hv⟩
    have := bucketOf_mono c hrb h.limit f (rk c (h.bk i)[0]) f1 (f3 _ hm)
    omega

/-- **push**: succeeds, keeps the invariant, adds exactly the new element -/
theorem push_spec {c : RCfg} (hrb : 0 < c.rb) (h : RH c) (fr : Option (BitVec c.w)) (hi : RInv c h fr)
    (x : RVal c.w) (hx : ∀ f, fr = some f → f.toNat ≤ (rk c x).toNat) :
    ∃ h' idx, h.push x = some (h', idx) ∧ RInv c h' fr ∧ h'.contents.Perm (x :: h.contents) := by
  have hlim : h.limit.toNat ≤ (rk c x).toNat := by
    have hfr := hi.frI
    cases fr with
    | none => simp only at hfr; rw [hfr.1]; simp
    | some f => simp only at hfr; have := hx f rfl; omega
  obtain ⟨h1, e1, e2, e3, e4, e5, e6, e7, e8⟩ := insert_spec hrb h none (some h.cur) hi.core x hlim (by simp)
  refine ⟨{ h1 with size := h1.size + 1 }, bucketOf c (rk c x) h.limit, ?_, ⟨?_, ?_, ?_⟩, e8⟩
  · unfold RH.push RH.pushToBucket
    simp only [Option.bind_eq_bind, Option.pure_def]
    show ((h.insert (bucketOf c (rk c x) h.limit) x).map _).bind _ = _
    rw [e1]; rfl
  · have e2' : RCore c h1 none (some h1.cur) := by rw [e4]; exact e2
    exact ⟨e2'.nbB, e2'.nbM, e2'.nbF, e2'.wfF, e2'.curR, e2'.stR, e2'.flHi, e2'.el, e2'.fl, e2'.mnLe, e2'.mnIn, e2'.mnEmpty⟩
  · show h1.size + 1 = (RH.contents h1).length
    rw [e5, hi.cnt, e8.length_eq]; simp
  · have hfr := hi.frI
    cases fr with
    | none => simp only at hfr ⊢; exact ⟨by rw [← hfr.1]; exact e3, by rw [← hfr.2]; exact e4⟩
    | some f =>
      simp only at hfr ⊢
      refine ⟨by rw [show (RH.limit { h1 with size := h1.size + 1 }) = h1.limit from rfl, e3]; exact hfr.1,
        by rw [show (RH.limit { h1 with size := h1.size + 1 }) = h1.limit from rfl,
               show (RH.cur { h1 with size := h1.size + 1 }) = h1.cur from rfl, e3, e4]; exact hfr.2.1, ?_⟩
      intro v hv
      have : v ∈ x :: h.contents := e8.subset hv
      simp only [List.mem_cons] at this
      rcases this with rfl | hv'
      · exact hx f rfl
      · exact hfr.2.2 v hv'

/-- in a state whose first non-empty bucket `k` lies in the first row, the elements of bucket `k`
are minima -/
theorem first_bucket_min {c : RCfg} (hrb : 0 < c.rb) (h : RH c) {st : Option Nat} (hc : RCore c h none st) (k : Nat) (hk : k < c.radix)
    (hkn : k < numBuckets c) (hbefore : ∀ i, i < k → h.bk i = #[]) (v : RVal c.w) (hv : v ∈ h.bk k) :
    ∀ u ∈ h.contents, (rk c v).toNat ≤ (rk c u).toNat := by
  intro u hu
  obtain ⟨j, hj, huj⟩ := (mem_contents_bk h hc u).mp hu
  obtain ⟨v1, v2⟩ := hc.el k hkn (by simp) v hv
  obtain ⟨u1, u2⟩ := hc.el j hj (by simp) u huj
  by_cases hjk : j = k
  · subst hjk
    have := bucketOf_row0 c hrb h.limit (rk c v) (rk c u) v1 u1 (by rw [v2, u2]) (by rw [v2]; exact hk)
    rw [this]; exact Nat.le_refl _
  · have hgt : k < j := by
      apply Classical.byContradiction
      intro hle
      have : j < k := by omega
      rw [hbefore j this] at huj; simp at huj
    apply Classical.byContradiction
    intro hlt
    have := bucketOf_mono c hrb h.limit (rk c u) (rk c v) u1 (by omega)
    omega


/-! ### `reorganize_()` -/

/-- the redistribution loop: every element of `src` (all placed in bucket `first` for the old limit
and not below the new one) goes to a bucket before `first` -/
theorem redistribute_spec {c : RCfg} (hrb : 0 < c.rb) (first : Nat) (st : Option Nat) (src : List (RVal c.w)) (h : RH c)
    (hc : RCore c h (some first) st)
    (hsrc : ∀ x ∈ src, h.limit.toNat ≤ (rk c x).toNat ∧ bucketOf c (rk c x) h.limit < first) :
    ∃ h', h.redistribute src = some h' ∧ RCore c h' (some first) st ∧ h'.limit = h.limit ∧ h'.cur = h.cur ∧
      h'.size = h.size ∧ h'.bk first = h.bk first ∧
      (∀ i v, v ∈ h.bk i → v ∈ h'.bk i) ∧
      (∀ x ∈ src, x ∈ h'.bk (bucketOf c (rk c x) h.limit)) ∧
      h'.contents.Perm (src ++ h.contents) := by
  induction src generalizing h with
  | nil => exact ⟨h, rfl, hc, rfl, rfl, rfl, rfl, fun _ _ hv => hv, fun x hx => by simp at hx, by simp⟩
  | cons x rest ih =>
    obtain ⟨hx1, hx2⟩ := hsrc x (by simp)
    obtain ⟨h1, e1, e2, e3, e4, e5, e6, e7, e8⟩ :=
      insert_spec hrb h (some first) st hc x hx1 (by intro e; cases e; omega)
    obtain ⟨h2, f1, f2, f3, f4, f5, f6, f7, f8, f9⟩ := ih h1 e2 (by
      intro y hy; rw [e3]; exact hsrc y (by simp [hy]))
    refine ⟨h2, ?_, f2, by rw [f3, e3], by rw [f4, e4], by rw [f5, e5], ?_, ?_, ?_, ?_⟩
    · show (match h.insert (bucketOf c (rankOfInt c x.1) h.limit) x with
        | none => none | some h' => RH.redistribute h' rest) = some h2
      have : h.insert (bucketOf c (rankOfInt c x.1) h.limit) x = some h1 := e1
      rw [this]; exact f1
    · rw [f6, e6 first (by omega)]
    · intro i v hv
      apply f7
      by_cases e : i = bucketOf c (rk c x) h.limit
      · subst e; rw [e7]; exact Array.mem_push.mpr (Or.inl hv)
      · rw [e6 i e]; exact hv
    · intro y hy
      simp only [List.mem_cons] at hy
      rcases hy with rfl | hy
      · apply f7; rw [e7]; exact Array.mem_push.mpr (Or.inr rfl)
      · have := f8 y hy; rw [e3] at this; exact this
    · refine f9.trans ?_
      refine (List.Perm.append_left rest e8).trans ?_
      simp only [List.cons_append]
      exact List.perm_middle


theorem radix_le_numBuckets (c : RCfg) (hrb : 0 < c.rb) (hle : c.rb ≤ c.w) : c.radix ≤ numBuckets c := by
  unfold numBuckets RCfg.radix
  rw [numBucketsAux_eq c.rb hrb]
  have h1 : 1 ≤ c.w / c.rb := (Nat.le_div_iff_mul_le hrb).mpr (by omega)
  have h2 : 1 * (2 ^ c.rb - 1) ≤ c.w / c.rb * (2 ^ c.rb - 1) := Nat.mul_le_mul_right _ h1
  have h3 := Nat.two_pow_pos c.rb
  have h4 := Nat.two_pow_pos (c.w % c.rb)
  omega

theorem bk_eq_empty_of_ge {c : RCfg} (h : RH c) (i : Nat) (hi : h.buckets.size ≤ i) : h.bk i = #[] := by
  unfold RH.bk
  rw [Array.getD_eq_getD_getElem?, Array.getElem?_eq_none hi]; rfl

theorem RCore.weaken {c : RCfg} {h : RH c} {ex : Option Nat} (hc : RCore c h ex none) (st : Option Nat)
    (hst : ∀ s, st = some s → s < c.radix) : RCore c h ex st :=
  ⟨hc.nbB, hc.nbM, hc.nbF, hc.wfF, hc.curR, hst, hc.flHi, hc.el, hc.fl, hc.mnLe, hc.mnIn, fun i hi he => by
    rcases hc.mnEmpty i hi he with h1 | ⟨h2, _⟩
    · exact Or.inl h1
    · cases h2⟩

/-- what `reorganize_()` guarantees -/
structure ReorgPost (c : RCfg) (h h' : RH c) : Prop where
  core : RCore c h' none (some h'.cur)
  size_eq : h'.size = h.size
  perm : h'.contents.Perm h.contents
  ne : h'.bk h'.cur ≠ #[]
  before : ∀ i, i < h'.cur → h'.bk i = #[]

/-- intermediate states of `reorganize_()` -/
def reorgA {c : RCfg} (h : RH c) (fl1 : BitArr) : RH c :=
  { h with mins := h.mins.set! h.cur (maxRank c.w), filled := fl1 }
def reorgB {c : RCfg} (h : RH c) (fl1 : BitArr) (k : Nat) : RH c :=
  { h with mins := h.mins.set! h.cur (maxRank c.w), filled := fl1, cur := k }
def reorgC {c : RCfg} (h : RH c) (fl1 : BitArr) (m : BitVec c.w) : RH c :=
  { h with mins := h.mins.set! h.cur (maxRank c.w), filled := fl1, limit := m }
def reorgD {c : RCfg} (h2 : RH c) (k : Nat) (fl2 : BitArr) : RH c :=
  { h2 with buckets := h2.buckets.set! k #[], mins := h2.mins.set! k (maxRank c.w), filled := fl2 }
def reorgE {c : RCfg} (h2 : RH c) (k : Nat) (fl2 : BitArr) (cur : Nat) : RH c :=
  { h2 with buckets := h2.buckets.set! k #[], mins := h2.mins.set! k (maxRank c.w), filled := fl2, cur := cur }


theorem isSet_iff_ne {c : RCfg} (h : RH c) {ex st : Option Nat} (hc : RCore c h ex st) (i : Nat) :
    h.filled.isSet i = true ↔ h.bk i ≠ #[] := by
  by_cases hi : i < numBuckets c
  · rw [hc.fl i hi]
    cases hb : h.bk i with
    | mk l => cases l <;> simp
  · rw [hc.flHi i (by omega), bk_eq_empty_of_ge h i (by rw [hc.nbB]; omega)]; simp

theorem reorganize_spec {c : RCfg} (hrb : 0 < c.rb) (hle : c.rb ≤ c.w) (h : RH c) (fr : Option (BitVec c.w))
    (hi : RInv c h fr) (hne : h.contents ≠ []) : ∃ h', h.reorganize = some h' ∧ ReorgPost c h h' := by
  have hc := hi.core
  have hsz : ¬ h.size = 0 := by
    rw [hi.cnt]; intro e; exact hne (List.eq_nil_of_length_eq_zero e)
  have hcurN : h.cur < numBuckets c := Nat.lt_of_lt_of_le hc.curR (radix_le_numBuckets c hrb hle)
  have hcurB : h.cur < h.buckets.size := by rw [hc.nbB]; exact hcurN
  have hcurM : h.cur < h.mins.size := by rw [hc.nbM]; exact hcurN
  unfold RH.reorganize
  rw [if_neg hsz, getElem?_eq_some_getD h.buckets h.cur #[] hcurB]
  simp only
  by_cases hemp : (h.bk h.cur).isEmpty = true
  · -- the current bucket is empty: look for the first non-empty one
    have hemp' : (h.buckets.getD h.cur #[]).isEmpty = true := hemp
    have hbe : h.bk h.cur = #[] := by
      cases hb : h.bk h.cur with
      | mk l => rw [hb] at hemp; cases l <;> simp_all
    simp only [hemp', Bool.not_true, Bool.false_eq_true, if_false]
    rw [if_neg (by omega)]
    obtain ⟨fl1, g1, g2, g3, g4⟩ := h.filled.clearBit_spec hc.wfF h.cur (by rw [hc.nbF]; exact hcurN)
    rw [g1]
    simp only
    have hset1 : ∀ j, fl1.isSet j = h.filled.isSet j := by
      intro j
      rw [g4]
      by_cases e : j = h.cur
      · subst e
        have : h.filled.isSet h.cur = false := by
          cases hs : h.filled.isSet h.cur with
          | false => rfl
          | true => exact absurd hbe ((isSet_iff_ne h hc h.cur).mp hs)
        simp [this]
      · simp [e]
    -- the state with the reset minimum and the cleared bit
    have hcore0 : RCore c (reorgA h fl1) none none := by
      refine ⟨hc.nbB, by show (h.mins.set! h.cur (maxRank c.w)).size = _; rw [size_set!, hc.nbM],
        by show fl1.nb = _; rw [g3, hc.nbF], g2, hc.curR, by simp, ?_, hc.el, ?_, ?_, ?_, ?_⟩
      · intro i hi'; show fl1.isSet i = false; rw [hset1]; exact hc.flHi i hi'
      · intro i hi'; show fl1.isSet i = _; rw [hset1]; exact hc.fl i hi'
      · intro i hi' v hv
        have hv : v ∈ h.bk i := hv
        have hne' : i ≠ h.cur := by intro e; subst e; rw [hbe] at hv; simp at hv
        show ((h.mins.set! h.cur (maxRank c.w)).getD i (maxRank c.w)).toNat ≤ _
        rw [getD_set!, if_neg (fun hh => hne' hh.1.symm)]
        exact hc.mnLe i hi' v hv
      · intro i hi' hne'
        have hne' : h.bk i ≠ #[] := hne'
        have hne'' : i ≠ h.cur := by intro e; subst e; exact hne' hbe
        show ∃ v ∈ h.bk i, rk c v = (h.mins.set! h.cur (maxRank c.w)).getD i (maxRank c.w)
        rw [getD_set!, if_neg (fun hh => hne'' hh.1.symm)]
        exact hc.mnIn i hi' hne'
      · intro i hi' hem
        have hem : h.bk i = #[] := hem
        left
        show (h.mins.set! h.cur (maxRank c.w)).getD i (maxRank c.w) = _
        rw [getD_set!]
        by_cases e : h.cur = i
        · rw [if_pos ⟨e, hcurM⟩]
        · rw [if_neg (fun hh => e hh.1)]
          rcases hc.mnEmpty i hi' hem with h1 | ⟨h2, _⟩
          · exact h1
          · exact absurd (Option.some.inj h2).symm e
    -- some bucket is non-empty
    have hex : ∃ j, fl1.isSet j = true := by
      cases hcs : h.contents with
      | nil => exact absurd hcs hne
      | cons v rest =>
        have hv : v ∈ h.contents := by rw [hcs]; simp
        obtain ⟨j, hj, hvj⟩ := (mem_contents_bk h hc v).mp hv
        refine ⟨j, ?_⟩
        rw [hset1, isSet_iff_ne h hc j]
        intro e; rw [e] at hvj; simp at hvj
    cases hfind : fl1.findLsb with
    | none =>
      obtain ⟨j, hj⟩ := hex
      have := BitArr.findLsb_none fl1 g2 hfind j
      rw [this] at hj; cases hj
    | some first =>
      simp only
      obtain ⟨hf1, hf2⟩ := (BitArr.findLsb_spec fl1 g2 first).mp hfind
      have hfne : h.bk first ≠ #[] := (isSet_iff_ne h hc first).mp (by rw [← hset1]; exact hf1)
      have hfirstN : first < numBuckets c := by
        apply Classical.byContradiction
        intro hge
        exact hfne (bk_eq_empty_of_ge h first (by rw [hc.nbB]; omega))
      have hbefore : ∀ i, i < first → h.bk i = #[] := by
        intro i hlt
        apply Classical.byContradiction
        intro hne'
        have := (isSet_iff_ne h hc i).mpr hne'
        rw [← hset1, hf2 i hlt] at this; cases this
      have hfc : first ≠ h.cur := by intro e; rw [e] at hfne; exact hfne hbe
      by_cases hrow : first < c.radix
      · -- the first non-empty bucket belongs to the first row
        rw [if_pos hrow]
        refine ⟨reorgB h fl1 first, rfl, ⟨?_, rfl, by exact List.Perm.refl _, hfne, hbefore⟩⟩
        exact (show RCore c (reorgB h fl1 first) none none from ⟨hcore0.nbB, hcore0.nbM, hcore0.nbF, hcore0.wfF, hrow, by simp, hcore0.flHi, hcore0.el,
            hcore0.fl, hcore0.mnLe, hcore0.mnIn, hcore0.mnEmpty⟩).weaken _ (by
              intro s hs; cases hs; exact hrow)
      · -- redistribute the first non-empty bucket
        rw [if_neg hrow]
        have hfM : first < (h.mins.set! h.cur (maxRank c.w)).size := by rw [size_set!, hc.nbM]; exact hfirstN
        have hfB : first < h.buckets.size := by rw [hc.nbB]; exact hfirstN
        rw [getElem?_eq_some_getD _ first (maxRank c.w) hfM, getElem?_eq_some_getD h.buckets first #[] hfB]
        simp only
        have hM : (h.mins.set! h.cur (maxRank c.w)).getD first (maxRank c.w) = h.mn first := by
          rw [getD_set!, if_neg (fun hh => hfc hh.1.symm)]; rfl
        rw [hM]
        -- the new limit is the rank of an element of the bucket
        obtain ⟨v0, hv0, hv0m⟩ := hc.mnIn first hfirstN hfne
        obtain ⟨l0, b0⟩ := hc.el first hfirstN (by simp) v0 hv0
        rw [hv0m] at l0 b0
        have hradle : c.radix ≤ bucketOf c (h.mn first) h.limit := by rw [b0]; omega
        have hcore1 : RCore c (reorgC h fl1 (h.mn first)) (some first) none := by
          refine ⟨hcore0.nbB, hcore0.nbM, hcore0.nbF, hcore0.wfF, hcore0.curR, by simp, hcore0.flHi, ?_,
            hcore0.fl, hcore0.mnLe, hcore0.mnIn, ?_⟩
          · intro i hi' hiex v hv
            have hne' : i ≠ first := fun e => hiex (by rw [e])
            obtain ⟨lv, bv⟩ := hc.el i hi' (by simp) v hv
            have hgt : first < i := by
              apply Classical.byContradiction
              intro hle'
              have : i < first := by omega
              have hvv : v ∈ h.bk i := hv
              rw [hbefore i this] at hvv; simp at hvv
            have hMv : (h.mn first).toNat ≤ (rk c v).toNat := by
              apply Classical.byContradiction
              intro hlt
              have := bucketOf_mono c hrb h.limit (rk c v) (h.mn first) lv (by omega)
              omega
            refine ⟨hMv, ?_⟩
            show bucketOf c (rk c v) (h.mn first) = i
            rw [bucketOf_stable c hrb h.limit (h.mn first) (rk c v) l0 hMv (by rw [b0, bv]; exact hgt)]
            exact bv
          · intro i hi' hem
            left
            rcases hcore0.mnEmpty i hi' hem with h1 | ⟨h2, _⟩
            · exact h1
            · cases h2
        obtain ⟨h2, r1, r2, r3, r4, r5, r6, r7, r8, r9⟩ := redistribute_spec hrb first none (h.bk first).toList
          (reorgC h fl1 (h.mn first)) hcore1 (by
            intro x hx
            have hx' : x ∈ h.bk first := by simpa using hx
            obtain ⟨lx, bx⟩ := hc.el first hfirstN (by simp) x hx'
            have hMx := hc.mnLe first hfirstN x hx'
            refine ⟨hMx, ?_⟩
            have := bucketOf_redistribute c hrb h.limit (h.mn first) (rk c x) l0 hMx (by rw [bx, b0]) hradle
            rw [b0] at this; exact this)
        have hsrc : (h.buckets.getD first #[]).toList = (h.bk first).toList := rfl
        have r1' := r1
        simp only [reorgC] at r1'
        rw [hsrc, r1']
        simp only
        obtain ⟨fl2, q1, q2, q3, q4⟩ := h2.filled.clearBit_spec r2.wfF first (by rw [r2.nbF]; exact hfirstN)
        rw [q1]
        simp only
        -- the state after clearing the consumed bucket
        have hbk3 : ∀ i, (reorgD h2 first fl2).bk i = if i = first then #[] else h2.bk i := by
          intro i
          show (h2.buckets.set! first #[]).getD i #[] = _
          rw [getD_set!]
          by_cases e : first = i
          · subst e; rw [if_pos ⟨rfl, by rw [r2.nbB]; exact hfirstN⟩, if_pos rfl]
          · rw [if_neg (fun hh => e hh.1), if_neg (fun e' => e e'.symm)]; rfl
        have hcore3 : RCore c (reorgD h2 first fl2) none none := by
          refine ⟨by show (h2.buckets.set! first #[]).size = _; rw [size_set!, r2.nbB],
            by show (h2.mins.set! first (maxRank c.w)).size = _; rw [size_set!, r2.nbM],
            by show fl2.nb = _; rw [q3, r2.nbF], q2, r2.curR, by simp, ?_, ?_, ?_, ?_, ?_, ?_⟩
          · intro i hi'; show fl2.isSet i = false; rw [q4, r2.flHi i hi']; simp
          · intro i hi' _ v hv
            rw [hbk3] at hv
            by_cases e : i = first
            · rw [if_pos e] at hv; simp at hv
            · rw [if_neg e] at hv
              exact r2.el i hi' (by intro e'; exact e (Option.some.inj e')) v hv
          · intro i hi'
            show fl2.isSet i = _
            rw [q4, hbk3, r2.fl i hi']
            by_cases e : i = first
            · simp [e]
            · simp [e]
          · intro i hi' v hv
            rw [hbk3] at hv
            by_cases e : i = first
            · rw [if_pos e] at hv; simp at hv
            · rw [if_neg e] at hv
              show ((h2.mins.set! first (maxRank c.w)).getD i (maxRank c.w)).toNat ≤ _
              rw [getD_set!, if_neg (fun hh => e hh.1.symm)]
              exact r2.mnLe i hi' v hv
          · intro i hi' hne'
            rw [hbk3] at hne' ⊢
            by_cases e : i = first
            · rw [if_pos e] at hne'; exact absurd rfl hne'
            · rw [if_neg e] at hne' ⊢
              show ∃ v ∈ h2.bk i, rk c v = (h2.mins.set! first (maxRank c.w)).getD i (maxRank c.w)
              rw [getD_set!, if_neg (fun hh => e hh.1.symm)]
              exact r2.mnIn i hi' hne'
          · intro i hi' hem
            left
            show (h2.mins.set! first (maxRank c.w)).getD i (maxRank c.w) = _
            rw [getD_set!]
            by_cases e : first = i
            · rw [if_pos ⟨e, by rw [r2.nbM]; exact hfirstN⟩]
            · rw [if_neg (fun hh => e hh.1)]
              rw [hbk3, if_neg (fun e' => e e'.symm)] at hem
              rcases r2.mnEmpty i hi' hem with h1 | ⟨h2', _⟩
              · exact h1
              · cases h2'
        -- the minimum went to bucket 0
        have h0first : 0 ≠ first := by
          have := Nat.two_pow_pos c.rb
          unfold RCfg.radix at hrow; omega
        have hv0in : v0 ∈ h2.bk 0 := by
          have := r8 v0 (by simpa using hv0)
          rw [hv0m] at this
          have hl : (reorgC h fl1 (h.mn first)).limit = h.mn first := rfl
          rw [hl, bucketOf_self] at this
          exact this
        have hset0 : fl2.isSet 0 = true := by
          have h0n : 0 < numBuckets c := numBuckets_pos c
          rw [q4, r2.fl 0 h0n]
          have : (h2.bk 0).isEmpty = false := by
            cases hb : h2.bk 0 with
            | mk l => rw [hb] at hv0in; cases l <;> simp_all
          simp [this, h0first]
        have hfind3 : fl2.findLsb = some 0 := (BitArr.findLsb_spec fl2 q2 0).mpr ⟨hset0, fun j hj => by omega⟩
        rw [hfind3]
        simp only
        refine ⟨reorgE h2 first fl2 0, rfl, ⟨?_, ?_, ?_, ?_, ?_⟩⟩
        · have hpos : 0 < c.radix := Nat.two_pow_pos c.rb
          exact (show RCore c (reorgE h2 first fl2 0) none none from
            ⟨hcore3.nbB, hcore3.nbM, hcore3.nbF, hcore3.wfF, hpos, by simp, hcore3.flHi, hcore3.el, hcore3.fl,
              hcore3.mnLe, hcore3.mnIn, hcore3.mnEmpty⟩).weaken _ (by intro s hs; cases hs; exact hpos)
        · exact r5
        · -- the stored multiset
          have hL : first < (h2.buckets.toList.map (·.toList)).length := by
            simp [r2.nbB]; exact hfirstN
          have hget : (h2.buckets.toList.map (·.toList))[first] = (h.bk first).toList := by
            have : h2.bk first = h.bk first := r6
            simp only [List.getElem_map, Array.getElem_toList]
            have e1 : h2.buckets[first]'(by rw [r2.nbB]; exact hfirstN) = h2.bk first := by
              simp [RH.bk, Array.getD_eq_getD_getElem?, Array.getElem?_eq_getElem (show first < h2.buckets.size by rw [r2.nbB]; exact hfirstN)]
            rw [e1, this]
          have hp := flatten_set_perm (h2.buckets.toList.map (·.toList)) first hL []
          rw [hget] at hp
          have hc3 : (reorgE h2 first fl2 0).contents =
              ((h2.buckets.toList.map (·.toList)).set first []).flatten := by
            simp [reorgE, RH.contents, Array.set!_eq_setIfInBounds, Array.toList_setIfInBounds, List.map_set]
          rw [hc3]
          have hh : (reorgC h fl1 (h.mn first)).contents = h.contents := rfl
          rw [hh] at r9
          have : (((h2.buckets.toList.map (·.toList)).set first []).flatten ++ (h.bk first).toList).Perm
              (h.contents ++ (h.bk first).toList) := by
            refine hp.trans ?_
            simp only [List.append_nil]
            exact r9.trans List.perm_append_comm
          exact (List.perm_append_right_iff _).mp this
        · show (reorgD h2 first fl2).bk 0 ≠ #[]
          rw [hbk3, if_neg h0first]
          intro e; rw [e] at hv0in; simp at hv0in
        · intro i hlt; exact absurd hlt (Nat.not_lt_zero i)
  · -- nothing to do
    have hemp' : (h.buckets.getD h.cur #[]).isEmpty = false := by
      have : (h.bk h.cur).isEmpty = false := by simpa using hemp
      exact this
    rw [if_pos (by rw [hemp']; rfl)]
    refine ⟨h, rfl, ⟨hc, rfl, List.Perm.refl _, ?_, fun i hlt => empty_before_cur hrb h fr hi i hlt⟩⟩
    intro e
    have : (h.bk h.cur).isEmpty = true := by rw [e]; rfl
    exact hemp this


/-! ### the public operations -/

theorem back?_mem {α : Type} (b : Array α) (hne : b ≠ #[]) : ∃ v, b.back? = some v ∧ v ∈ b ∧ b.toList = b.pop.toList ++ [v] := by
  have hpos : 0 < b.size := by
    cases b with
    | mk l => cases l with
      | nil => exact absurd rfl hne
      | cons x xs => simp
  refine ⟨b[b.size - 1], ?_, Array.getElem_mem _, ?_⟩
  · simp [Array.back?, Array.getElem?_eq_getElem (show b.size - 1 < b.size by omega)]
  · have := array_eq_pop_push' b hpos
    conv => lhs; rw [this]
    simp
where
  array_eq_pop_push' {α : Type} (a : Array α) (h : 0 < a.size) : a = a.pop.push (a[a.size - 1]'(by omega)) := by
    apply Array.ext
    · simp; omega
    · intro i h1 h2
      by_cases hi : i < a.size - 1
      · rw [Array.getElem_push_lt (by simpa using hi)]; simp
      · have : i = a.size - 1 := by omega
        subst this
        simp [Array.getElem_push]

/-- the state after `reorganize_()` satisfies the full invariant for the rank of any element of the
current bucket -/
theorem rinv_after_reorg {c : RCfg} (hrb : 0 < c.rb) (h h' : RH c) (fr : Option (BitVec c.w)) (hi : RInv c h fr)
    (hp : ReorgPost c h h') (v : RVal c.w) (hv : v ∈ h'.bk h'.cur) (hN : h'.cur < numBuckets c) :
    RInv c h' (some (rk c v)) ∧ ∀ u ∈ h'.contents, (rk c v).toNat ≤ (rk c u).toNat := by
  have hmin := first_bucket_min hrb h' hp.core h'.cur hp.core.curR hN hp.before v hv
  obtain ⟨l, b⟩ := hp.core.el h'.cur hN (by simp) v hv
  refine ⟨⟨hp.core, by rw [hp.size_eq, hi.cnt, hp.perm.length_eq], ?_⟩, hmin⟩
  exact ⟨l, b, hmin⟩

theorem top_spec {c : RCfg} (hrb : 0 < c.rb) (hle : c.rb ≤ c.w) (h : RH c) (fr : Option (BitVec c.w))
    (hi : RInv c h fr) (hne : h.contents ≠ []) :
    ∃ h' v, h.top = some (h', v) ∧ RInv c h' (some (rk c v)) ∧ h'.contents.Perm h.contents ∧
      v ∈ h'.contents ∧ ∀ u ∈ h'.contents, (rk c v).toNat ≤ (rk c u).toNat := by
  obtain ⟨h', e1, hp⟩ := reorganize_spec hrb hle h fr hi hne
  have hN : h'.cur < numBuckets c := Nat.lt_of_lt_of_le hp.core.curR (radix_le_numBuckets c hrb hle)
  have hB : h'.cur < h'.buckets.size := by rw [hp.core.nbB]; exact hN
  obtain ⟨v, b1, b2, _⟩ := back?_mem (h'.bk h'.cur) hp.ne
  obtain ⟨r1, r2⟩ := rinv_after_reorg hrb h h' fr hi hp v b2 hN
  refine ⟨h', v, ?_, r1, hp.perm, (mem_contents_bk h' hp.core v).mpr ⟨_, hN, b2⟩, r2⟩
  unfold RH.top
  simp only [Option.bind_eq_bind, e1, Option.bind_some, getElem?_eq_some_getD h'.buckets h'.cur #[] hB, Option.pure_def]
  have : (h'.buckets.getD h'.cur #[]).back? = some v := b1
  rw [this]; rfl

theorem contents_set_bucket {c : RCfg} (h : RH c) (k : Nat) (hk : k < h.buckets.size) (b' : Array (RVal c.w))
    (h2 : RH c) (hb : h2.buckets = h.buckets.set! k b') :
    (h2.contents ++ (h.bk k).toList).Perm (h.contents ++ b'.toList) := by
  unfold RH.contents
  rw [hb]
  simp only [Array.set!_eq_setIfInBounds, Array.toList_setIfInBounds, List.map_set]
  have hL : k < (h.buckets.toList.map (·.toList)).length := by simpa using hk
  have hget : (h.buckets.toList.map (·.toList))[k] = (h.bk k).toList := by
    simp [RH.bk, Array.getD_eq_getD_getElem?, Array.getElem?_eq_getElem hk]
  have := flatten_set_perm (h.buckets.toList.map (·.toList)) k hL b'.toList
  rw [hget] at this
  exact this

/-- the state after removing elements from the current (first-row) bucket, leaving `b'` -/
def afterTake {c : RCfg} (h : RH c) (b' : Array (RVal c.w)) (fl : BitArr) (n : Nat) : RH c :=
  { h with buckets := h.buckets.set! h.cur b', filled := fl, size := n }

theorem take_spec {c : RCfg} (hrb : 0 < c.rb) (h' : RH c) (hcore : RCore c h' none (some h'.cur))
    (hN : h'.cur < numBuckets c) (hne : h'.bk h'.cur ≠ #[]) (b' : Array (RVal c.w))
    (hsub : ∀ u ∈ b', u ∈ h'.bk h'.cur) (fl : BitArr) (hfl : fl.WF) (hflnb : fl.nb = h'.filled.nb)
    (hset : ∀ j, fl.isSet j = if j = h'.cur then !b'.isEmpty else h'.filled.isSet j) (n : Nat) :
    RCore c (afterTake h' b' fl n) none (some (afterTake h' b' fl n).cur) := by
  have hB : h'.cur < h'.buckets.size := by rw [hcore.nbB]; exact hN
  have hbk : ∀ i, (afterTake h' b' fl n).bk i = if i = h'.cur then b' else h'.bk i := by
    intro i
    show (h'.buckets.set! h'.cur b').getD i #[] = _
    rw [getD_set!]
    by_cases e : h'.cur = i
    · rw [if_pos ⟨e, hB⟩, if_pos e.symm]
    · rw [if_neg (fun hh => e hh.1), if_neg (fun e' => e e'.symm)]; rfl
  -- every element of the current bucket has the same rank
  have hsame : ∀ u ∈ h'.bk h'.cur, ∀ w ∈ h'.bk h'.cur, rk c u = rk c w := by
    intro u hu w hw
    obtain ⟨u1, u2⟩ := hcore.el h'.cur hN (by simp) u hu
    obtain ⟨w1, w2⟩ := hcore.el h'.cur hN (by simp) w hw
    exact bucketOf_row0 c hrb h'.limit _ _ u1 w1 (by rw [u2, w2]) (by rw [u2]; exact hcore.curR)
  obtain ⟨v0, hv0, hv0m⟩ := hcore.mnIn h'.cur hN hne
  refine ⟨by show (h'.buckets.set! h'.cur b').size = _; rw [size_set!, hcore.nbB], hcore.nbM,
    by show fl.nb = _; rw [hflnb, hcore.nbF], hfl, hcore.curR, by intro s hs; cases hs; exact hcore.curR,
    ?_, ?_, ?_, ?_, ?_, ?_⟩
  · intro i hi'
    show fl.isSet i = false
    rw [hset, if_neg (by omega)]; exact hcore.flHi i hi'
  · intro i hi' _ u hu
    rw [hbk] at hu
    by_cases e : i = h'.cur
    · rw [if_pos e] at hu; subst e; exact hcore.el _ hi' (by simp) u (hsub u hu)
    · rw [if_neg e] at hu; exact hcore.el i hi' (by simp) u hu
  · intro i hi'
    show fl.isSet i = _
    rw [hset, hbk]
    by_cases e : i = h'.cur
    · rw [if_pos e, if_pos e]
    · rw [if_neg e, if_neg e]; exact hcore.fl i hi'
  · intro i hi' u hu
    rw [hbk] at hu
    show (h'.mn i).toNat ≤ _
    by_cases e : i = h'.cur
    · rw [if_pos e] at hu; subst e; exact hcore.mnLe _ hi' u (hsub u hu)
    · rw [if_neg e] at hu; exact hcore.mnLe i hi' u hu
  · intro i hi' hne'
    rw [hbk] at hne' ⊢
    show ∃ u ∈ _, rk c u = h'.mn i
    by_cases e : i = h'.cur
    · rw [if_pos e] at hne' ⊢
      have hpos : 0 < b'.size := by
        cases hb : b' with
        | mk l => cases l with
          | nil => rw [hb] at hne'; exact absurd rfl hne'
          | cons x xs => simp
      refine ⟨b'[0], Array.getElem_mem hpos, ?_⟩
      rw [e, ← hv0m]
      exact hsame _ (hsub _ (Array.getElem_mem hpos)) _ hv0
    · rw [if_neg e] at hne' ⊢; exact hcore.mnIn i hi' hne'
  · intro i hi' hem
    rw [hbk] at hem
    show h'.mn i = _ ∨ _
    by_cases e : i = h'.cur
    · right
      obtain ⟨l, b⟩ := hcore.el h'.cur hN (by simp) v0 hv0
      subst e
      refine ⟨rfl, ?_, ?_⟩
      · show h'.limit.toNat ≤ (h'.mn h'.cur).toNat; rw [← hv0m]; exact l
      · show bucketOf c (h'.mn h'.cur) h'.limit = h'.cur; rw [← hv0m]; exact b
    · rw [if_neg e] at hem
      rcases hcore.mnEmpty i hi' hem with h1 | ⟨h2, h3⟩
      · exact Or.inl h1
      · exact Or.inr ⟨h2, h3⟩


theorem isEmpty_eq_false_of_ne {α : Type} (b : Array α) (h : b ≠ #[]) : b.isEmpty = false := by
  cases b with
  | mk l => cases l with
    | nil => exact absurd rfl h
    | cons x xs => rfl

theorem pop_spec {c : RCfg} (hrb : 0 < c.rb) (hle : c.rb ≤ c.w) (h : RH c) (fr : Option (BitVec c.w))
    (hi : RInv c h fr) (hne : h.contents ≠ []) :
    ∃ h' v, h.pop = some (h', v) ∧ RInv c h' (some (rk c v)) ∧ h.contents.Perm (v :: h'.contents) ∧
      ∀ u ∈ h.contents, (rk c v).toNat ≤ (rk c u).toNat := by
  obtain ⟨h1, e1, hp⟩ := reorganize_spec hrb hle h fr hi hne
  have hN : h1.cur < numBuckets c := Nat.lt_of_lt_of_le hp.core.curR (radix_le_numBuckets c hrb hle)
  have hB : h1.cur < h1.buckets.size := by rw [hp.core.nbB]; exact hN
  obtain ⟨v, b1, b2, b3⟩ := back?_mem (h1.bk h1.cur) hp.ne
  obtain ⟨r1, r2⟩ := rinv_after_reorg hrb h h1 fr hi hp v b2 hN
  -- the bit array after the pop
  have hfill : ∃ fl, (if (h1.bk h1.cur).pop.isEmpty then h1.filled.clearBit h1.cur else some h1.filled) = some fl ∧
      fl.WF ∧ fl.nb = h1.filled.nb ∧
      ∀ j, fl.isSet j = if j = h1.cur then !(h1.bk h1.cur).pop.isEmpty else h1.filled.isSet j := by
    by_cases he : (h1.bk h1.cur).pop.isEmpty = true
    · rw [if_pos he]
      obtain ⟨fl, q1, q2, q3, q4⟩ := h1.filled.clearBit_spec hp.core.wfF h1.cur (by rw [hp.core.nbF]; exact hN)
      refine ⟨fl, q1, q2, q3, ?_⟩
      intro j; rw [q4]
      by_cases e : j = h1.cur
      · simp [e, he]
      · simp [e]
    · rw [if_neg he]
      refine ⟨_, rfl, hp.core.wfF, rfl, ?_⟩
      intro j
      by_cases e : j = h1.cur
      · rw [if_pos e, e, hp.core.fl h1.cur hN, isEmpty_eq_false_of_ne _ hp.ne]
        simp at he; simp [he]
      · rw [if_neg e]
  obtain ⟨fl, f1, f2, f3, f4⟩ := hfill
  have hcore2 := take_spec hrb h1 hp.core hN hp.ne (h1.bk h1.cur).pop (by
    intro u hu
    have h0 : u ∈ (h1.bk h1.cur).pop.toList := Array.mem_toList_iff.mpr hu
    have : u ∈ (h1.bk h1.cur).toList := by rw [b3]; exact List.mem_append_left _ h0
    exact Array.mem_toList_iff.mp this) fl f2 f3 f4 (h1.size - 1)
  have hperm2 := contents_set_bucket h1 h1.cur hB (h1.bk h1.cur).pop (afterTake h1 (h1.bk h1.cur).pop fl (h1.size - 1)) rfl
  -- contents h1 ~ v :: contents h2
  have hperm3 : h1.contents.Perm (v :: (afterTake h1 (h1.bk h1.cur).pop fl (h1.size - 1)).contents) := by
    rw [b3] at hperm2
    have : ((afterTake h1 (h1.bk h1.cur).pop fl (h1.size - 1)).contents ++ ((h1.bk h1.cur).pop.toList ++ [v])).Perm
        ((v :: (afterTake h1 (h1.bk h1.cur).pop fl (h1.size - 1)).contents) ++ (h1.bk h1.cur).pop.toList) := by
      rw [← List.append_assoc]
      refine (List.perm_append_singleton _ _).trans ?_
      simp only [List.cons_append]
      exact List.Perm.refl _
    exact ((List.perm_append_right_iff _).mp (this.symm.trans hperm2)).symm
  refine ⟨afterTake h1 (h1.bk h1.cur).pop fl (h1.size - 1), v, ?_, ⟨hcore2, ?_, ?_⟩, hp.perm.symm.trans hperm3, ?_⟩
  · unfold RH.pop
    simp only [Option.bind_eq_bind, e1, Option.bind_some, getElem?_eq_some_getD h1.buckets h1.cur #[] hB, Option.pure_def]
    have hb : (h1.buckets.getD h1.cur #[]).back? = some v := b1
    have hf : (if (h1.buckets.getD h1.cur #[]).pop.isEmpty = true then h1.filled.clearBit h1.cur else some h1.filled) =
        some fl := f1
    rw [hb]
    simp only [Option.bind_some]
    by_cases he : (h1.buckets.getD h1.cur #[]).pop.isEmpty = true
    · simp only [he, if_true] at hf ⊢
      rw [hf]; rfl
    · simp only [he, Bool.false_eq_true, if_false] at hf ⊢
      cases hf; rfl
  · show h1.size - 1 = _
    have := hperm3.length_eq
    simp only [List.length_cons] at this
    have hc1 := r1.cnt
    omega
  · have hl : (afterTake h1 (h1.bk h1.cur).pop fl (h1.size - 1)).limit = h1.limit := rfl
    have hcu : (afterTake h1 (h1.bk h1.cur).pop fl (h1.size - 1)).cur = h1.cur := rfl
    have := r1.frI
    simp only at this ⊢
    refine ⟨by rw [hl]; exact this.1, by rw [hl, hcu]; exact this.2.1, ?_⟩
    intro u hu
    exact r2 u (hperm3.symm.subset (List.mem_cons_of_mem _ hu))
  · intro u hu
    exact r2 u (hp.perm.symm.subset hu)

theorem swap_spec {c : RCfg} (hrb : 0 < c.rb) (hle : c.rb ≤ c.w) (h : RH c) (fr : Option (BitVec c.w))
    (hi : RInv c h fr) (hne : h.contents ≠ []) :
    ∃ h' b v, h.swapTopBucket = some (h', b) ∧ v ∈ b ∧ RInv c h' (some (rk c v)) ∧
      h.contents.Perm (b.toList ++ h'.contents) ∧
      ∀ w ∈ b, ∀ u ∈ h.contents, (rk c w).toNat ≤ (rk c u).toNat := by
  obtain ⟨h1, e1, hp⟩ := reorganize_spec hrb hle h fr hi hne
  have hN : h1.cur < numBuckets c := Nat.lt_of_lt_of_le hp.core.curR (radix_le_numBuckets c hrb hle)
  have hB : h1.cur < h1.buckets.size := by rw [hp.core.nbB]; exact hN
  obtain ⟨v, _, b2, _⟩ := back?_mem (h1.bk h1.cur) hp.ne
  obtain ⟨r1, r2⟩ := rinv_after_reorg hrb h h1 fr hi hp v b2 hN
  obtain ⟨fl, q1, q2, q3, q4⟩ := h1.filled.clearBit_spec hp.core.wfF h1.cur (by rw [hp.core.nbF]; exact hN)
  have hcore2 := take_spec hrb h1 hp.core hN hp.ne #[] (by intro u hu; simp at hu) fl q2 q3 (by
    intro j; rw [q4]
    by_cases e : j = h1.cur
    · simp [e]
    · simp [e]) (h1.size - (h1.bk h1.cur).size)
  have hperm2 := contents_set_bucket h1 h1.cur hB #[] (afterTake h1 #[] fl (h1.size - (h1.bk h1.cur).size)) rfl
  simp only [Array.toList_empty, List.append_nil] at hperm2
  have hperm3 : h1.contents.Perm ((h1.bk h1.cur).toList ++ (afterTake h1 #[] fl (h1.size - (h1.bk h1.cur).size)).contents) :=
    hperm2.symm.trans List.perm_append_comm
  refine ⟨afterTake h1 #[] fl (h1.size - (h1.bk h1.cur).size), h1.bk h1.cur, v, ?_, b2, ⟨hcore2, ?_, ?_⟩,
    hp.perm.symm.trans hperm3, ?_⟩
  · unfold RH.swapTopBucket
    simp only [Option.bind_eq_bind, e1, Option.bind_some, getElem?_eq_some_getD h1.buckets h1.cur #[] hB, q1,
      Option.pure_def]
    rfl
  · show h1.size - (h1.bk h1.cur).size = _
    have := hperm3.length_eq
    simp only [List.length_append, Array.length_toList] at this
    have hc1 := r1.cnt
    omega
  · have := r1.frI
    simp only at this ⊢
    refine ⟨this.1, this.2.1, ?_⟩
    intro u hu
    exact r2 u (hperm3.symm.subset (List.mem_append_right _ hu))
  · intro w hw u hu
    have := first_bucket_min hrb h1 hp.core h1.cur hp.core.curR hN hp.before w hw
    exact this u (hp.perm.symm.subset hu)

theorem peak_spec {c : RCfg} (hrb : 0 < c.rb) (h : RH c) (fr : Option (BitVec c.w))
    (hi : RInv c h fr) (hne : h.contents ≠ []) :
    ∃ k v, h.peakTopKey = some k ∧ v ∈ h.contents ∧ v.1 = k ∧
      ∀ u ∈ h.contents, (rk c v).toNat ≤ (rk c u).toNat := by
  have hc := hi.core
  have hsz : ¬ h.size = 0 := by
    rw [hi.cnt]; intro e; exact hne (List.eq_nil_of_length_eq_zero e)
  -- some bucket is non-empty
  have hex : ∃ j, h.filled.isSet j = true := by
    cases hcs : h.contents with
    | nil => exact absurd hcs hne
    | cons v rest =>
      have hv : v ∈ h.contents := by rw [hcs]; simp
      obtain ⟨j, hj, hvj⟩ := (mem_contents_bk h hc v).mp hv
      refine ⟨j, ?_⟩
      rw [isSet_iff_ne h hc j]
      intro e; rw [e] at hvj; simp at hvj
  cases hfind : h.filled.findLsb with
  | none =>
    obtain ⟨j, hj⟩ := hex
    have := BitArr.findLsb_none h.filled hc.wfF hfind j
    rw [this] at hj; cases hj
  | some first =>
    obtain ⟨hf1, hf2⟩ := (BitArr.findLsb_spec h.filled hc.wfF first).mp hfind
    have hfne : h.bk first ≠ #[] := (isSet_iff_ne h hc first).mp hf1
    have hfirstN : first < numBuckets c := by
      apply Classical.byContradiction
      intro hge
      exact hfne (bk_eq_empty_of_ge h first (by rw [hc.nbB]; omega))
    have hbefore : ∀ i, i < first → h.bk i = #[] := by
      intro i hlt
      apply Classical.byContradiction
      intro hne'
      have := (isSet_iff_ne h hc i).mpr hne'
      rw [hf2 i hlt] at this; cases this
    obtain ⟨v0, hv0, hv0m⟩ := hc.mnIn first hfirstN hfne
    refine ⟨intAtRank c (h.mn first), v0, ?_, (mem_contents_bk h hc v0).mpr ⟨first, hfirstN, hv0⟩, ?_, ?_⟩
    · unfold RH.peakTopKey
      have hM : first < h.mins.size := by rw [hc.nbM]; exact hfirstN
      simp only [Option.bind_eq_bind, hfind, Option.bind_some, getElem?_eq_some_getD h.mins first (maxRank c.w) hM,
        Option.pure_def]
      rw [if_neg hsz]; rfl
    · rw [← hv0m]; exact (intAtRank_rankOfInt c v0.1).symm
    · intro u hu
      obtain ⟨j, hj, huj⟩ := (mem_contents_bk h hc u).mp hu
      obtain ⟨u1, u2⟩ := hc.el j hj (by simp) u huj
      obtain ⟨v1, v2⟩ := hc.el first hfirstN (by simp) v0 hv0
      by_cases hjf : j = first
      · subst hjf; rw [hv0m]; exact hc.mnLe j hj u huj
      · have hgt : first < j := by
          apply Classical.byContradiction
          intro hle'
          have : j < first := by omega
          rw [hbefore j this] at huj; simp at huj
        apply Classical.byContradiction
        intro hlt
        have := bucketOf_mono c hrb h.limit (rk c u) (rk c v0) u1 (by omega)
        omega

theorem init_rinv (c : RCfg) (hrb : 0 < c.rb) (hrb6 : c.rb ≤ 6) (hw : c.w ≤ 64) :
    RInv c (RH.init c) none ∧ (RH.init c).contents = [] := by
  have hbk : ∀ i, (RH.init c).bk i = #[] := by
    intro i
    show (Array.replicate (numBuckets c) (#[] : Array (RVal c.w))).getD i #[] = #[]
    rw [Array.getD_eq_getD_getElem?, Array.getElem?_replicate]
    split <;> rfl
  have hcont : (RH.init c).contents = [] := by
    show ((Array.replicate (numBuckets c) (#[] : Array (RVal c.w))).toList.map (·.toList)).flatten = []
    simp
  refine ⟨⟨⟨by simp [RH.init], by simp [RH.init], rfl, BitArr.mk'_wf _ (numBuckets_le c hrb hrb6 hw),
    Nat.two_pow_pos c.rb, by intro s hs; cases hs; exact Nat.two_pow_pos c.rb,
    fun i _ => BitArr.mk'_isSet _ i, ?_, ?_, ?_, ?_, ?_⟩, by rw [hcont]; rfl, ⟨rfl, rfl⟩⟩, hcont⟩
  · intro i _ _ v hv; rw [hbk] at hv; simp at hv
  · intro i _; show (BitArr.mk' _).isSet i = _; rw [BitArr.mk'_isSet, hbk]; rfl
  · intro i _ v hv; rw [hbk] at hv; simp at hv
  · intro i _ hne; exact absurd (hbk i) hne
  · intro i hi _
    left
    show (Array.replicate (numBuckets c) (maxRank c.w)).getD i (maxRank c.w) = _
    rw [Array.getD_eq_getD_getElem?, Array.getElem?_replicate]
    split <;> rfl


/-- **the hint overloads** `push_to_bucket(idx, v)` / `emplace_in_bucket(idx, …)` called with the bucket
index that `get_bucket` / `get_bucket_key` report: succeed, keep the invariant (in particular the
bucket minimum `mins_[idx]`), add exactly the new element -/
theorem pushHint_spec {c : RCfg} (hrb : 0 < c.rb) (h : RH c) (fr : Option (BitVec c.w)) (hi : RInv c h fr)
    (x : RVal c.w) (hx : ∀ f, fr = some f → f.toNat ≤ (rk c x).toNat) :
    ∃ h', h.pushToBucket (h.getBucketKey x.1) x = some h' ∧ RInv c h' fr ∧ h'.contents.Perm (x :: h.contents) := by
  obtain ⟨h', idx, e1, e2, e3⟩ := push_spec hrb h fr hi x hx
  refine ⟨h', ?_, e2, e3⟩
  unfold RH.push at e1
  simp only [Option.bind_eq_bind, Option.pure_def] at e1
  show h.pushToBucket (bucketOf c (rankOfInt c x.1) h.limit) x = some h'
  cases hp : h.pushToBucket (bucketOf c (rankOfInt c x.1) h.limit) x with
  | none => rw [hp] at e1; cases e1
  | some h2 =>
    rw [hp] at e1
    simp only [Option.bind_some, Option.some.injEq, Prod.mk.injEq] at e1
    rw [e1.1]

end TlxVerif.C13
