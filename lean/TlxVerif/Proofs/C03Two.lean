/-
C03 — the two-array model (`Model/C03Two.lean`: active/shadow arrays, `flipped`, `flip`,
`copy_back`) refines the list model: on every range it leaves in the original array exactly the
strings, and in the LCP array exactly the values, that the list model computes.
-/
import TlxVerif.Model.C03Two
import TlxVerif.Proofs.C03Partition
import TlxVerif.Proofs.C03Permute
namespace TlxVerif.C03

variable {α : Type} (str : α → Str)

/-! ### slices and block stores -/

theorem slice_getElem? (a : Array α) (off n i : Nat) :
    (slice a off n)[i]? = if i < n then a[off + i]? else none := by
  simp only [slice, List.getElem?_take, List.getElem?_drop, Array.getElem?_toList]

theorem slice_length (a : Array α) (off n : Nat) (h : off + n ≤ a.size) : (slice a off n).length = n := by
  simp only [slice, List.length_take, List.length_drop, Array.length_toList]
  omega

theorem slice_ext (a b : Array α) (off n : Nat) (h : ∀ p, off ≤ p → p < off + n → a[p]? = b[p]?) :
    slice a off n = slice b off n := by
  apply List.ext_getElem?
  intro i
  rw [slice_getElem?, slice_getElem?]
  split
  · exact h (off + i) (by omega) (by omega)
  · rfl

theorem slice_append (a : Array α) (off n m : Nat) :
    slice a off (n + m) = slice a off n ++ slice a (off + n) m := by
  simp only [slice]
  rw [List.take_add, List.drop_drop]

theorem blit_size (a : Array α) (off : Nat) (vals : List α) : (blit a off vals).size = a.size := by
  induction vals generalizing a off with
  | nil => rfl
  | cons x rest ih => simp [blit, ih, Array.size_setIfInBounds]

theorem blit_get_out (a : Array α) (off : Nat) (vals : List α) (p : Nat) (h : p < off ∨ off + vals.length ≤ p) :
    (blit a off vals)[p]? = a[p]? := by
  induction vals generalizing a off with
  | nil => rfl
  | cons x rest ih =>
    simp only [blit]
    simp only [List.length_cons] at h
    rw [ih _ _ (by omega), Array.getElem?_setIfInBounds]
    have : ¬ off = p := by omega
    simp [this]

theorem blit_get_in (a : Array α) (off : Nat) (vals : List α) (p : Nat) (hb : off + vals.length ≤ a.size)
    (h1 : off ≤ p) (h2 : p < off + vals.length) : (blit a off vals)[p]? = vals[p - off]? := by
  induction vals generalizing a off with
  | nil => simp at h2; omega
  | cons x rest ih =>
    simp only [blit]
    simp only [List.length_cons] at h2 hb
    by_cases e : p = off
    · subst e
      rw [blit_get_out _ _ _ _ (by omega), Array.getElem?_setIfInBounds]
      have : p < a.size := by omega
      simp [this]
    · rw [ih _ _ (by rw [Array.size_setIfInBounds]; omega) (by omega) (by omega)]
      have e2 : p - off = (p - (off + 1)) + 1 := by omega
      rw [e2, List.getElem?_cons_succ]

theorem slice_blit (a : Array α) (off : Nat) (vals : List α) (h : off + vals.length ≤ a.size) :
    slice (blit a off vals) off vals.length = vals := by
  apply List.ext_getElem?
  intro i
  rw [slice_getElem?]
  by_cases hi : i < vals.length
  · simp only [hi, if_true]
    rw [blit_get_in _ _ _ _ h (by omega) (by omega)]
    congr 1; omega
  · simp only [hi, if_false]
    symm; exact List.getElem?_eq_none (by omega)

/-! ### frames -/

/-- `t'` differs from `t` only inside `[lo, hi)` -/
def Same (t t' : Two α) (lo hi : Nat) : Prop :=
  t'.orig.size = t.orig.size ∧ t'.shad.size = t.shad.size ∧
  ∀ p, (p < lo ∨ hi ≤ p) → t'.orig[p]? = t.orig[p]? ∧ t'.shad[p]? = t.shad[p]?

theorem Same.refl (t : Two α) (lo hi : Nat) : Same t t lo hi := ⟨rfl, rfl, fun _ _ => ⟨rfl, rfl⟩⟩

theorem Same.trans {t1 t2 t3 : Two α} {lo hi lo2 hi2 lo3 hi3 : Nat} (h1 : Same t1 t2 lo hi) (h2 : Same t2 t3 lo2 hi2)
    (a1 : lo3 ≤ lo) (a2 : hi ≤ hi3) (a3 : lo3 ≤ lo2) (a4 : hi2 ≤ hi3) : Same t1 t3 lo3 hi3 := by
  refine ⟨h2.1.trans h1.1, h2.2.1.trans h1.2.1, ?_⟩
  intro p hp
  have u := h1.2.2 p (by omega)
  have w := h2.2.2 p (by omega)
  exact ⟨w.1.trans u.1, w.2.trans u.2⟩

theorem active_not (t : Two α) (fl : Bool) : t.active (!fl) = t.shadow fl := by
  cases fl <;> rfl

theorem copyBack_ok (t : Two α) (pos s : Nat) (fl : Bool) (hsz : t.orig.size = t.shad.size)
    (hb : pos + s ≤ t.orig.size) :
    slice (copyBack t pos s fl).orig pos s = slice (t.active fl) pos s ∧ Same t (copyBack t pos s fl) pos (pos + s) := by
  cases fl with
  | false => exact ⟨rfl, Same.refl _ _ _⟩
  | true =>
    simp only [copyBack, if_true, Two.active, Two.blitOrig_eq]
    have hl : (slice t.shad pos s).length = s := slice_length _ _ _ (by omega)
    refine ⟨?_, ⟨by simp [blit_size], rfl, ?_⟩⟩
    · have := slice_blit t.orig pos (slice t.shad pos s) (by omega)
      rw [hl] at this
      exact this
    · intro p hp
      refine ⟨?_, rfl⟩
      exact blit_get_out _ _ _ _ (by omega)

/-- a handler stores in the original array what the list-model handler returns -/
def HOk (fl : Bool) (P : List α → List Nat → Prop) (f : List α → List Nat → List α × List Nat)
    (h : Two α → Nat → Nat → List Nat → Two α × List Nat) : Prop :=
  ∀ t pos s v, t.orig.size = t.shad.size → pos + s ≤ t.orig.size → P (slice (t.active fl) pos s) v →
    slice (h t pos s v).1.orig pos s = (f (slice (t.active fl) pos s) v).1 ∧
    (h t pos s v).2 = (f (slice (t.active fl) pos s) v).2 ∧ Same t (h t pos s v).1 pos (pos + s)

theorem sortInOrig_ok (srt : List α → List Nat → List α × List Nat) (t : Two α) (pos s : Nat) (fl : Bool)
    (v : List Nat) (hsz : t.orig.size = t.shad.size) (hb : pos + s ≤ t.orig.size)
    (hlen : (srt (slice (t.active fl) pos s) v).1.length = s) :
    slice (sortInOrig srt (copyBack t pos s fl) pos s v).1.orig pos s = (srt (slice (t.active fl) pos s) v).1 ∧
    (sortInOrig srt (copyBack t pos s fl) pos s v).2 = (srt (slice (t.active fl) pos s) v).2 ∧
    Same t (sortInOrig srt (copyBack t pos s fl) pos s v).1 pos (pos + s) := by
  obtain ⟨c1, c2⟩ := copyBack_ok t pos s fl hsz hb
  simp only [sortInOrig, c1, Two.blitOrig_eq]
  refine ⟨?_, trivial, ?_⟩
  · have := slice_blit (copyBack t pos s fl).orig pos (srt (slice (t.active fl) pos s) v).1
      (by rw [hlen, c2.1]; exact hb)
    rw [hlen] at this
    exact this
  · refine ⟨by simp [blit_size, c2.1], c2.2.1, ?_⟩
    intro p hp
    refine ⟨?_, (c2.2.2 p hp).2⟩
    rw [blit_get_out _ _ _ _ (by omega)]
    exact (c2.2.2 p hp).1

/-! ### the loop over the buckets -/

theorem walk_ref (fl : Bool) (handler : Nat → Two α → Nat → Nat → List Nat → Two α × List Nat)
    (f : Nat → List α → List Nat → List α × List Nat) (P : Nat → List α → List Nat → Prop) :
    ∀ (sizes : List Nat) (idx pos : Nat) (views : List (List Nat)) (t : Two α),
      views.length = sizes.length → t.orig.size = t.shad.size → pos + sizes.sum ≤ t.orig.size →
      (∀ j, j < sizes.length → HOk fl (P (idx + j)) (f (idx + j)) (handler (idx + j))) →
      (∀ j b v, (splitBy sizes (slice (t.active fl) pos sizes.sum))[j]? = some b → views[j]? = some v → P (idx + j) b v) →
      slice (walk handler idx pos sizes views t).1.orig pos sizes.sum
        = (mkBlks f idx (splitBy sizes (slice (t.active fl) pos sizes.sum)) views).flatMap (fun b => b.r.1) ∧
      (walk handler idx pos sizes views t).2
        = (mkBlks f idx (splitBy sizes (slice (t.active fl) pos sizes.sum)) views).flatMap (fun b => b.r.2) ∧
      Same t (walk handler idx pos sizes views t).1 pos (pos + sizes.sum) := by
  intro sizes
  induction sizes with
  | nil =>
    intro idx pos views t hv hsz hb hH hP
    have : views = [] := List.eq_nil_of_length_eq_zero (by simpa using hv)
    subst this
    simp [walk, splitBy, mkBlks, slice, Same.refl]
  | cons s sizes ih =>
    intro idx pos views t hv hsz hb hH hP
    cases views with
    | nil => simp at hv
    | cons v views =>
      simp only [List.sum_cons] at hb ⊢
      simp only [walk]
      -- the first bucket
      have hfirst : (slice (t.active fl) pos (s + sizes.sum)).take s = slice (t.active fl) pos s := by
        rw [slice_append]
        exact List.take_left' (slice_length _ _ _ (by cases fl <;> simp [Two.active] <;> omega))
      have hrest : (slice (t.active fl) pos (s + sizes.sum)).drop s = slice (t.active fl) (pos + s) sizes.sum := by
        rw [slice_append]
        exact List.drop_left' (slice_length _ _ _ (by cases fl <;> simp [Two.active] <;> omega))
      simp only [splitBy, hfirst, hrest, mkBlks, List.flatMap_cons]
      have hP0 : P idx (slice (t.active fl) pos s) v := by
        have := hP 0 (slice (t.active fl) pos s) v (by simp [splitBy, hfirst]) (by simp)
        simpa using this
      have hH0 : HOk fl (P idx) (f idx) (handler idx) := by simpa using hH 0 (by simp)
      obtain ⟨r1, r2, r3⟩ := hH0 t pos s v hsz (by omega) hP0
      generalize hr : handler idx t pos s v = r at r1 r2 r3
      -- the remaining buckets are untouched
      have hsz' : r.1.orig.size = r.1.shad.size := by rw [r3.1, r3.2.1]; exact hsz
      have hact : slice (r.1.active fl) (pos + s) sizes.sum = slice (t.active fl) (pos + s) sizes.sum := by
        apply slice_ext
        intro p h1 h2
        cases fl with
        | false => exact (r3.2.2 p (by omega)).1
        | true => exact (r3.2.2 p (by omega)).2
      have hrec := ih (idx + 1) (pos + s) views r.1 (by simpa using hv) hsz'
        (by rw [r3.1]; omega)
        (by
          intro j hj
          have := hH (j + 1) (by simp; omega)
          have e : idx + (j + 1) = idx + 1 + j := by omega
          rw [e] at this; exact this)
        (by
          intro j b v' hb' hv'
          rw [hact] at hb'
          have := hP (j + 1) b v' (by simp [splitBy, hrest, hb']) (by simpa using hv')
          have e : idx + (j + 1) = idx + 1 + j := by omega
          rw [e] at this; exact this)
      rw [hact] at hrec
      obtain ⟨q1, q2, q3⟩ := hrec
      refine ⟨?_, by rw [q2, r2], ?_⟩
      · rw [slice_append, q1]
        congr 1
        rw [← r1]
        apply slice_ext
        intro p h1 h2
        exact (q3.2.2 p (by omega)).1
      · exact Same.trans r3 q3 (by omega) (by omega) (by omega) (by omega)


/-! ### one step -/

theorem scatter_loop_size (key : α → Nat) (Q : List α) (st : Array α × Array Nat) :
    (Q.foldl (fun (st : Array α × Array Nat) x =>
      (st.1.setIfInBounds (st.2.getD (key x) 0) x, st.2.modify (key x) (· + 1))) st).1.size = st.1.size := by
  induction Q generalizing st with
  | nil => rfl
  | cons x Q ih => simp only [List.foldl_cons]; rw [ih]; simp

theorem scatter_facts (R : Nat) (key : α → Nat) (ss : List α) (hR : 0 < R) (hkey : ∀ x ∈ ss, key x < R) :
    (scatter R key ss).1.size = ss.length ∧ (scatter R key ss).2.toList.sum = ss.length ∧
    (scatter R key ss).2.toList.length = R := by
  unfold scatter
  simp only
  refine ⟨by rw [scatter_loop_size]; simp, ?_, ?_⟩
  · rw [count_pass_sum key ss _ (by simpa using hkey)]; simp
  · have := (count_pass key ss (Array.replicate R 0) 0 (by simpa using hR)).2
    simpa using this

theorem stepTwo_ref (R : Nat) (key : α → Nat) (hR : 0 < R) (hkeyAll : ∀ x, key x < R)
    (lcpStore : List Nat → List Nat → List Nat)
    (handler : Nat → Two α → Nat → Nat → List Nat → Two α × List Nat)
    (f : Nat → List α → List Nat → List α × List Nat) (P : Nat → List α → List Nat → Prop)
    (t : Two α) (off size : Nat) (fl : Bool) (l : List Nat)
    (hsz : t.orig.size = t.shad.size) (hb : off + size ≤ t.orig.size)
    (hH : ∀ j, j < R → HOk (!fl) (P j) (f j) (handler j))
    (hP : ∀ j b v, (scatterBuckets R key (slice (t.active fl) off size))[j]? = some b →
      (splitBy (scatter R key (slice (t.active fl) off size)).2.toList
        (lcpStore (scatter R key (slice (t.active fl) off size)).2.toList l))[j]? = some v → P j b v) :
    slice (stepTwo R key lcpStore handler t off size fl l).1.orig off size
      = (mapBuckets (scatterBuckets R key (slice (t.active fl) off size))
          (splitBy (scatter R key (slice (t.active fl) off size)).2.toList
            (lcpStore (scatter R key (slice (t.active fl) off size)).2.toList l)) f).1 ∧
    (stepTwo R key lcpStore handler t off size fl l).2
      = (mapBuckets (scatterBuckets R key (slice (t.active fl) off size))
          (splitBy (scatter R key (slice (t.active fl) off size)).2.toList
            (lcpStore (scatter R key (slice (t.active fl) off size)).2.toList l)) f).2 ∧
    Same t (stepTwo R key lcpStore handler t off size fl l).1 off (off + size) := by
  have hsl : (slice (t.active fl) off size).length = size :=
    slice_length _ _ _ (by cases fl <;> simp [Two.active] <;> omega)
  generalize hss : slice (t.active fl) off size = ss at hP hsl ⊢
  obtain ⟨sf1, sf2, sf3⟩ := scatter_facts R key ss hR (fun x _ => hkeyAll x)
  unfold stepTwo
  simp only [hss, Two.blitShadow_eq]
  generalize hsc : scatter R key ss = sc at sf1 sf2 sf3 hP ⊢
  generalize ht1 : t.setShadow fl (blit (t.shadow fl) off sc.1.toList) = t1
  have hlen1 : sc.1.toList.length = size := by rw [Array.length_toList, sf1, hsl]
  have hsum : sc.2.toList.sum = size := by rw [sf2, hsl]
  have hshsz : (t.shadow fl).size = t.orig.size := by cases fl <;> simp [Two.shadow, hsz]
  -- after the distribution the buckets sit in the (former) shadow array
  have hsame1 : Same t t1 off (off + size) := by
    rw [← ht1]
    cases fl with
    | false =>
      simp only [Two.setShadow, Two.shadow]
      refine ⟨rfl, by simp [blit_size], ?_⟩
      intro p hp
      exact ⟨rfl, blit_get_out _ _ _ _ (by omega)⟩
    | true =>
      simp only [Two.setShadow, Two.shadow]
      refine ⟨by simp [blit_size], rfl, ?_⟩
      intro p hp
      exact ⟨blit_get_out _ _ _ _ (by omega), rfl⟩
  have hact1 : slice (t1.active (!fl)) off sc.2.toList.sum = sc.1.toList := by
    rw [hsum, ← ht1, active_not]
    have : (t.setShadow fl (blit (t.shadow fl) off sc.1.toList)).shadow fl = blit (t.shadow fl) off sc.1.toList := by
      cases fl <;> rfl
    rw [this]
    have := slice_blit (t.shadow fl) off sc.1.toList (by rw [hlen1, hshsz]; exact hb)
    rw [hlen1] at this
    exact this
  have hsz1 : t1.orig.size = t1.shad.size := by rw [hsame1.1, hsame1.2.1]; exact hsz
  have hw := walk_ref (!fl) handler f P sc.2.toList 0 off (splitBy sc.2.toList (lcpStore sc.2.toList l)) t1
    (by rw [splitBy_length]) hsz1 (by rw [hsum, hsame1.1]; exact hb)
    (by intro j hj; rw [sf3] at hj; simpa using hH j hj)
    (by
      intro j b v hb' hv'
      rw [hact1] at hb'
      have := hP j b v (by rw [scatterBuckets, hsc]; exact hb') hv'
      simpa using this)
  rw [hact1, hsum] at hw
  obtain ⟨w1, w2, w3⟩ := hw
  rw [mapBuckets_eq]
  have hsb : scatterBuckets R key ss = splitBy sc.2.toList sc.1.toList := by rw [scatterBuckets, hsc]
  rw [hsb]
  exact ⟨w1, w2, Same.trans hsame1 w3 (Nat.le_refl _) (Nat.le_refl _) (Nat.le_refl _) (Nat.le_refl _)⟩


/-! ### lengths of the per-bucket LCP views -/

theorem views8_length (sizes : List Nat) (l : List Nat) (n d : Nat) (hn : l.length = n) (hl : l.length = sizes.sum)
    (hne : sizes ≠ []) : (splitBy sizes (stepLcp8 sizes n d l)).map List.length = sizes := by
  subst hn
  cases sizes with
  | nil => exact absurd rfl hne
  | cons s0 rest =>
    obtain ⟨_, _, _, h3, _⟩ := stepLcp8_chunks s0 rest d l hl
    exact splitBy_map_length _ _ (by rw [h3, hl]; exact Nat.le_refl _)

theorem views16_length (sizes : List Nat) (l : List Nat) (d : Nat) (hl : l.length = sizes.sum)
    (hne : sizes ≠ []) : (splitBy sizes (stepLcp16 sizes d l)).map List.length = sizes := by
  cases sizes with
  | nil => exact absurd rfl hne
  | cons s0 rest =>
    obtain ⟨_, _, _, h3, _⟩ := stepLcp16_chunks s0 rest d l hl
    exact splitBy_map_length _ _ (by rw [h3, hl]; exact Nat.le_refl _)

theorem map_length_getElem? {β : Type} (L : List (List β)) (sizes : List Nat) (h : L.map List.length = sizes)
    (j : Nat) (b : List β) (hb : L[j]? = some b) : sizes[j]? = some b.length := by
  rw [← h]; simp [hb]

/-- facts about bucket `j` of a step that every handler may use -/
def BktP (key : α → Nat) (wl : Bool) (ss : List α) (j : Nat) (b : List α) (v : List Nat) : Prop :=
  (∀ y ∈ b, y ∈ ss ∧ key y = j) ∧ (wl = true → v.length = b.length)

theorem bktP_of_scatter (R : Nat) (key : α → Nat) (hR : 0 < R) (hkeyAll : ∀ x, key x < R) (wl : Bool)
    (ss : List α) (l1 : List Nat)
    (hviews : wl = true → (splitBy (scatter R key ss).2.toList l1).map List.length = (scatter R key ss).2.toList)
    (j : Nat) (b : List α) (v : List Nat)
    (hb : (scatterBuckets R key ss)[j]? = some b)
    (hv : (splitBy (scatter R key ss).2.toList l1)[j]? = some v) : BktP key wl ss j b v := by
  obtain ⟨sf1, sf2, sf3⟩ := scatter_facts R key ss hR (fun x _ => hkeyAll x)
  constructor
  · rw [scatterBuckets_eq R key ss (fun x _ => hkeyAll x)] at hb
    exact buckets_mem R key ss j b hb
  · intro hw
    have h1 := map_length_getElem? _ _ (hviews hw) j v hv
    have h2 : ((scatterBuckets R key ss).map List.length) = (scatter R key ss).2.toList := by
      unfold scatterBuckets
      exact splitBy_map_length _ _ (by rw [Array.length_toList, sf1, sf2]; exact Nat.le_refl _)
    have h3 := map_length_getElem? _ _ h2 j b hb
    rw [h1] at h3
    exact Option.some.inj h3

/-! ### the 8-bit loop -/

theorem ce8Two_ref (c : Consts) (wl : Bool) (step : Nat) :
    ∀ fuel (t : Two α) off size fl l depth level memory,
      t.orig.size = t.shad.size → off + size ≤ t.orig.size →
      (∀ x ∈ slice (t.active fl) off size, (str x).length < depth + fuel) →
      Pre str wl depth (slice (t.active fl) off size) l →
      slice (ce8Two str c wl step fuel t off size fl l depth level memory).1.orig off size
        = (ce8Loop str c wl step fuel (slice (t.active fl) off size) l depth level memory).1 ∧
      (ce8Two str c wl step fuel t off size fl l depth level memory).2
        = (ce8Loop str c wl step fuel (slice (t.active fl) off size) l depth level memory).2 ∧
      Same t (ce8Two str c wl step fuel t off size fl l depth level memory).1 off (off + size) := by
  intro fuel
  induction fuel with
  | zero =>
    intro t off size fl l depth level memory hsz hb hlen hpre
    have hsl : (slice (t.active fl) off size).length = size :=
      slice_length _ _ _ (by cases fl <;> simp [Two.active] <;> omega)
    have he := empty_of_short str wl depth _ l hpre (by simpa using hlen)
    have hs0 : size = 0 := by rw [he] at hsl; simpa using hsl.symm
    subst hs0
    simp only [ce8Two, ce8Loop]
    exact ⟨by rw [he]; simp [slice], trivial, Same.refl _ _ _⟩
  | succ fuel ih =>
    intro t off size fl l depth level memory hsz hb hlen hpre
    have hsl : (slice (t.active fl) off size).length = size :=
      slice_length _ _ _ (by cases fl <;> simp [Two.active] <;> omega)
    simp only [ce8Two, ce8Loop]
    generalize hss : slice (t.active fl) off size = ss at hlen hpre hsl ⊢
    obtain ⟨hcp, hnf, hll⟩ := hpre
    obtain ⟨sf1, sf2, sf3⟩ := scatter_facts 256 (fun x => key8 (str x) depth) ss (by omega)
      (fun x _ => key8_lt_256 _ _)
    -- the list model's bucket sizes are `bkt_size`
    have hsizes : (scatterBuckets 256 (fun x => key8 (str x) depth) ss).map List.length
        = (scatter 256 (fun x => key8 (str x) depth) ss).2.toList := by
      unfold scatterBuckets
      exact splitBy_map_length _ _ (by rw [Array.length_toList, sf1, sf2]; exact Nat.le_refl _)
    rw [hsizes, hsl]
    have hne : (scatter 256 (fun x => key8 (str x) depth) ss).2.toList ≠ [] := by
      intro e; rw [e] at sf3; simp at sf3
    have hviews : wl = true →
        (splitBy (scatter 256 (fun x => key8 (str x) depth) ss).2.toList
          (if wl = true then stepLcp8 (scatter 256 (fun x => key8 (str x) depth) ss).2.toList size depth l else l)).map
          List.length = (scatter 256 (fun x => key8 (str x) depth) ss).2.toList := by
      intro hw
      simp only [hw, if_true]
      exact views8_length _ l size depth (by rw [hll hw, hsl]) (by rw [hll hw, sf2]) hne
    have := stepTwo_ref 256 (fun x => key8 (str x) depth) (by omega) (fun x => key8_lt_256 _ _)
      (fun sizes l => if wl = true then stepLcp8 sizes size depth l else l)
      (fun idx t pos s v =>
        if idx = 0 then (copyBack t pos s (!fl), v)
        else if s = 0 then (t, v)
        else if s < inssortThreshold then
          sortInOrig (insertionSort str wl (depth + 1)) (copyBack t pos s (!fl)) pos s v
        else if memory ≠ 0 ∧ memory < step * (level + 1) then
          sortInOrig (fun b v => multikeyQuicksort str c wl (depth + 1) b v (wsub memory (step * level)))
            (copyBack t pos s (!fl)) pos s v
        else ce8Two str c wl step fuel t pos s (!fl) v (depth + 1) (level + 1) memory)
      (fun idx b v =>
        if idx = 0 then (b, v)
        else if b.length = 0 then (b, v)
        else if b.length < inssortThreshold then insertionSort str wl (depth + 1) b v
        else if memory ≠ 0 ∧ memory < step * (level + 1) then
          multikeyQuicksort str c wl (depth + 1) b v (wsub memory (step * level))
        else ce8Loop str c wl step fuel b v (depth + 1) (level + 1) memory)
      (BktP (fun x => key8 (str x) depth) wl ss)
      t off size fl l hsz hb
      (by
        intro j hj t' pos s v hsz' hb' hPj
        have hbl : (slice (t'.active (!fl)) pos s).length = s :=
          slice_length _ _ _ (by cases fl <;> simp [Two.active] <;> omega)
        generalize hbb : slice (t'.active (!fl)) pos s = b at hPj hbl
        obtain ⟨hmemk, hvl⟩ := hPj
        have hbcp : CommonPrefix str depth b := CommonPrefix.mono str hcp (fun y hy => (hmemk y hy).1)
        have hbnf : NulFree str b := fun y hy => hnf y (hmemk y hy).1
        by_cases hj0 : j = 0
        · subst hj0
          simp only [if_true]
          have := copyBack_ok t' pos s (!fl) hsz' hb'
          rw [hbb] at this
          exact ⟨this.1, trivial, this.2⟩
        · simp only [hj0, if_false, hbl]
          have hpb : Pre str wl (depth + 1) b v :=
            ⟨bucket_deeper str depth j b (by omega) hbcp hbnf (fun y hy => (hmemk y hy).2), hbnf, hvl⟩
          split
          · rename_i hs0
            subst hs0
            have : b = [] := List.eq_nil_of_length_eq_zero hbl
            exact ⟨by rw [this]; simp [slice], rfl, Same.refl _ _ _⟩
          · split
            · have hlen' := (insertionSort_spec str wl (depth + 1) b v hpb).1.length_eq
              have := sortInOrig_ok (insertionSort str wl (depth + 1)) t' pos s (!fl) v hsz' hb'
                (by rw [hbb, hlen', hbl])
              rw [hbb] at this
              exact this
            · split
              · have hlen' := (multikeyQuicksort_spec str (partitionOk str) c wl (depth + 1) b v
                  (wsub memory (step * level)) hpb).1.length_eq
                have := sortInOrig_ok
                  (fun b v => multikeyQuicksort str c wl (depth + 1) b v (wsub memory (step * level)))
                  t' pos s (!fl) v hsz' hb' (by rw [hbb]; exact hlen'.trans hbl)
                rw [hbb] at this
                exact this
              · have := ih t' pos s (!fl) v (depth + 1) (level + 1) memory hsz' hb'
                  (by
                    rw [hbb]
                    intro x hx
                    have := hlen x (hmemk x hx).1
                    omega)
                  (by rw [hbb]; exact hpb)
                rw [hbb] at this
                exact this)
      (by
        intro j b v hb' hv'
        rw [hss] at hb' hv'
        exact bktP_of_scatter 256 _ (by omega) (fun x => key8_lt_256 _ _) wl ss _ hviews j b v hb' hv')
    rw [hss] at this
    exact this


/-! ### the 16-bit loop -/

theorem ce3Two_ref (c : Consts) (wl : Bool) :
    ∀ fuel (t : Two α) off size fl l depth level memory,
      t.orig.size = t.shad.size → off + size ≤ t.orig.size →
      (∀ x ∈ slice (t.active fl) off size, (str x).length < depth + fuel) →
      Pre str wl depth (slice (t.active fl) off size) l →
      slice (ce3Two str c wl fuel t off size fl l depth level memory).1.orig off size
        = (ce3Loop str c wl fuel (slice (t.active fl) off size) l depth level memory).1 ∧
      (ce3Two str c wl fuel t off size fl l depth level memory).2
        = (ce3Loop str c wl fuel (slice (t.active fl) off size) l depth level memory).2 ∧
      Same t (ce3Two str c wl fuel t off size fl l depth level memory).1 off (off + size) := by
  intro fuel
  induction fuel with
  | zero =>
    intro t off size fl l depth level memory hsz hb hlen hpre
    have hsl : (slice (t.active fl) off size).length = size :=
      slice_length _ _ _ (by cases fl <;> simp [Two.active] <;> omega)
    have he := empty_of_short str wl depth _ l hpre (by simpa using hlen)
    have hs0 : size = 0 := by rw [he] at hsl; simpa using hsl.symm
    subst hs0
    simp only [ce3Two, ce3Loop]
    exact ⟨by rw [he]; simp [slice], trivial, Same.refl _ _ _⟩
  | succ fuel ih =>
    intro t off size fl l depth level memory hsz hb hlen hpre
    have hsl : (slice (t.active fl) off size).length = size :=
      slice_length _ _ _ (by cases fl <;> simp [Two.active] <;> omega)
    simp only [ce3Two, ce3Loop]
    generalize hss : slice (t.active fl) off size = ss at hlen hpre hsl ⊢
    obtain ⟨hcp, hnf, hll⟩ := hpre
    obtain ⟨sf1, sf2, sf3⟩ := scatter_facts 65536 (fun x => key16 (str x) depth) ss (by omega)
      (fun x _ => key16_lt _ _)
    have hsizes : (scatterBuckets 65536 (fun x => key16 (str x) depth) ss).map List.length
        = (scatter 65536 (fun x => key16 (str x) depth) ss).2.toList := by
      unfold scatterBuckets
      exact splitBy_map_length _ _ (by rw [Array.length_toList, sf1, sf2]; exact Nat.le_refl _)
    rw [hsizes]
    have hne : (scatter 65536 (fun x => key16 (str x) depth) ss).2.toList ≠ [] := by
      intro e; rw [e] at sf3; simp at sf3
    have hviews : wl = true →
        (splitBy (scatter 65536 (fun x => key16 (str x) depth) ss).2.toList
          (if wl = true then stepLcp16 (scatter 65536 (fun x => key16 (str x) depth) ss).2.toList depth l else l)).map
          List.length = (scatter 65536 (fun x => key16 (str x) depth) ss).2.toList := by
      intro hw
      simp only [hw, if_true]
      exact views16_length _ l depth (by rw [hll hw, sf2]) hne
    have := stepTwo_ref 65536 (fun x => key16 (str x) depth) (by omega) (fun x => key16_lt _ _)
      (fun sizes l => if wl = true then stepLcp16 sizes depth l else l)
      (fun idx t pos s v =>
        if idx = 0 then (copyBack t pos s (!fl), v)
        else if s = 0 then (t, v)
        else if idx &&& 0xFF = 0 then
          (copyBack t pos s (!fl), if wl = true then setRange v 1 s (depth + 1) else v)
        else if s < inssortThreshold then
          sortInOrig (insertionSort str wl (depth + 2)) (copyBack t pos s (!fl)) pos s v
        else if s < 65536 then
          ce8Two str c wl c.stepCE2 (radixFuel str (slice (t.active (!fl)) pos s)) t pos s (!fl) v
            (depth + 2) 1 (wsub memory (c.stepCE3 * level))
        else if memory ≠ 0 ∧ memory < c.stepCE3 * (level + 1) then
          sortInOrig (fun b v => multikeyQuicksort str c wl (depth + 2) b v (wsub memory (c.stepCE3 * level)))
            (copyBack t pos s (!fl)) pos s v
        else ce3Two str c wl fuel t pos s (!fl) v (depth + 2) (level + 1) memory)
      (fun idx b v =>
        if idx = 0 then (b, v)
        else if b.length = 0 then (b, v)
        else if idx &&& 0xFF = 0 then (b, if wl = true then setRange v 1 b.length (depth + 1) else v)
        else if b.length < inssortThreshold then insertionSort str wl (depth + 2) b v
        else if b.length < 65536 then
          ce8Loop str c wl c.stepCE2 (radixFuel str b) b v (depth + 2) 1 (wsub memory (c.stepCE3 * level))
        else if memory ≠ 0 ∧ memory < c.stepCE3 * (level + 1) then
          multikeyQuicksort str c wl (depth + 2) b v (wsub memory (c.stepCE3 * level))
        else ce3Loop str c wl fuel b v (depth + 2) (level + 1) memory)
      (BktP (fun x => key16 (str x) depth) wl ss)
      t off size fl l hsz hb
      (by
        intro j hj t' pos s v hsz' hb' hPj
        have hbl : (slice (t'.active (!fl)) pos s).length = s :=
          slice_length _ _ _ (by cases fl <;> simp [Two.active] <;> omega)
        generalize hbb : slice (t'.active (!fl)) pos s = b at hPj hbl ⊢
        obtain ⟨hmemk, hvl⟩ := hPj
        have hbcp : CommonPrefix str depth b := CommonPrefix.mono str hcp (fun y hy => (hmemk y hy).1)
        have hbnf : NulFree str b := fun y hy => hnf y (hmemk y hy).1
        have hcb := copyBack_ok t' pos s (!fl) hsz' hb'
        rw [hbb] at hcb
        by_cases hj0 : j = 0
        · subst hj0
          simp only [if_true]
          exact ⟨hcb.1, trivial, hcb.2⟩
        · simp only [hj0, if_false, hbl]
          split
          · rename_i hs0
            subst hs0
            have : b = [] := List.eq_nil_of_length_eq_zero hbl
            exact ⟨by rw [this]; simp [slice], rfl, Same.refl _ _ _⟩
          · split
            · exact ⟨hcb.1, rfl, hcb.2⟩
            · rename_i hz
              have hz' : j % 256 ≠ 0 := by rw [← and255]; exact hz
              have hpb : Pre str wl (depth + 2) b v :=
                ⟨bucket16_deeper str depth j b hz' hbcp hbnf (fun y hy => (hmemk y hy).2), hbnf, hvl⟩
              split
              · have hlen' := (insertionSort_spec str wl (depth + 2) b v hpb).1.length_eq
                have := sortInOrig_ok (insertionSort str wl (depth + 2)) t' pos s (!fl) v hsz' hb'
                  (by rw [hbb, hlen', hbl])
                rw [hbb] at this
                exact this
              · split
                · have := ce8Two_ref str c wl c.stepCE2 (radixFuel str b) t' pos s (!fl) v (depth + 2) 1
                    (wsub memory (c.stepCE3 * level)) hsz' hb'
                    (by rw [hbb]; exact radixFuel_enough str b (depth + 2))
                    (by rw [hbb]; exact hpb)
                  rw [hbb] at this
                  rw [hbb]
                  exact this
                · split
                  · have hlen' := (multikeyQuicksort_spec str (partitionOk str) c wl (depth + 2) b v
                      (wsub memory (c.stepCE3 * level)) hpb).1.length_eq
                    have := sortInOrig_ok
                      (fun b v => multikeyQuicksort str c wl (depth + 2) b v (wsub memory (c.stepCE3 * level)))
                      t' pos s (!fl) v hsz' hb' (by rw [hbb]; exact hlen'.trans hbl)
                    rw [hbb] at this
                    exact this
                  · have := ih t' pos s (!fl) v (depth + 2) (level + 1) memory hsz' hb'
                      (by
                        rw [hbb]
                        intro x hx
                        have := hlen x (hmemk x hx).1
                        omega)
                      (by rw [hbb]; exact hpb)
                    rw [hbb] at this
                    exact this)
      (by
        intro j b v hb' hv'
        rw [hss] at hb' hv'
        exact bktP_of_scatter 65536 _ (by omega) (fun x => key16_lt _ _) wl ss _ hviews j b v hb' hv')
    rw [hss] at this
    exact this


/-! ### the adapters -/

theorem slice_whole (ss : List α) : slice ss.toArray 0 ss.length = ss := by
  simp [slice]

theorem ce8TwoTop_eq (c : Consts) (wl : Bool) (step : Nat) (d : Nat) (ss : List α) (l : List Nat) (mem : Nat)
    (hpre : Pre str wl d ss l) :
    ce8TwoTop str c wl step d ss l mem = ce8Loop str c wl step (radixFuel str ss) ss l d 1 mem := by
  have h := ce8Two_ref str c wl step (radixFuel str ss) ⟨ss.toArray, ss.toArray⟩ 0 ss.length false l d 1 mem
    rfl (by simp)
    (by simp only [Two.active, Bool.false_eq_true, if_false, slice_whole]; exact radixFuel_enough str ss d)
    (by simp only [Two.active, Bool.false_eq_true, if_false, slice_whole]; exact hpre)
  simp only [Two.active, Bool.false_eq_true, if_false, slice_whole] at h
  obtain ⟨h1, h2, h3⟩ := h
  unfold ce8TwoTop
  apply Prod.ext
  · simp only
    rw [← h1]
    simp only [slice, List.drop_zero]
    rw [List.take_of_length_le]
    rw [Array.length_toList, h3.1]
    simp
  · exact h2

theorem ce3TwoTop_eq (c : Consts) (wl : Bool) (d : Nat) (ss : List α) (l : List Nat) (mem : Nat)
    (hpre : Pre str wl d ss l) :
    ce3TwoTop str c wl d ss l mem = ce3Loop str c wl (radixFuel str ss) ss l d 1 mem := by
  have h := ce3Two_ref str c wl (radixFuel str ss) ⟨ss.toArray, ss.toArray⟩ 0 ss.length false l d 1 mem
    rfl (by simp)
    (by simp only [Two.active, Bool.false_eq_true, if_false, slice_whole]; exact radixFuel_enough str ss d)
    (by simp only [Two.active, Bool.false_eq_true, if_false, slice_whole]; exact hpre)
  simp only [Two.active, Bool.false_eq_true, if_false, slice_whole] at h
  obtain ⟨h1, h2, h3⟩ := h
  unfold ce3TwoTop
  apply Prod.ext
  · simp only
    rw [← h1]
    simp only [slice, List.drop_zero]
    rw [List.take_of_length_le]
    rw [Array.length_toList, h3.1]
    simp
  · exact h2

theorem radixsortCE0Two_eq (c : Consts) (wl : Bool) (d : Nat) (ss : List α) (l : List Nat) (mem : Nat)
    (hpre : Pre str wl d ss l) : radixsortCE0Two str c wl d ss l mem = radixsortCE0 str c wl d ss l mem := by
  unfold radixsortCE0Two radixsortCE0
  simp only [ce8TwoTop_eq str c wl _ d ss l _ hpre]

theorem radixsortCE2Two_eq (c : Consts) (wl : Bool) (d : Nat) (ss : List α) (l : List Nat) (mem : Nat)
    (hpre : Pre str wl d ss l) : radixsortCE2Two str c wl d ss l mem = radixsortCE2 str c wl d ss l mem := by
  unfold radixsortCE2Two radixsortCE2
  simp only [ce8TwoTop_eq str c wl _ d ss l _ hpre]

theorem radixsortCE3Two_eq (c : Consts) (wl : Bool) (d : Nat) (ss : List α) (l : List Nat) (mem : Nat)
    (hpre : Pre str wl d ss l) : radixsortCE3Two str c wl d ss l mem = radixsortCE3 str c wl d ss l mem := by
  unfold radixsortCE3Two radixsortCE3
  simp only [ce3TwoTop_eq str c wl d ss l _ hpre, radixsortCE2Two_eq str c wl d ss l mem hpre]

end TlxVerif.C03
