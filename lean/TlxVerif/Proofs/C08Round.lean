/-
C08 — one round of the refinement preserves the invariant (at the halved stride) and establishes the rank
bookkeeping; the whole loop `rounds`.
-/
import TlxVerif.Proofs.C08Move
namespace TlxVerif.C08

/-- after a round: the left parts hold ⌊rank/(n+1)⌋ samples — or fewer, and then every first right sample
lies beyond the end of its sequence (is +∞) -/
def RankOK (c : Ctx) (rank n : Nat) (ab : AB) : Prop :=
  Lsz c n ab = ((rank / (n + 1) : Nat) : Int) ∨
  (Lsz c n ab < ((rank / (n + 1) : Nat) : Int) ∧ ∀ j, j < c.runs.size → lenAt c j ≤ B ab j)

theorem round_spec {c : Ctx} (hg : Good c) {r : Routine} {n n' : Nat} (hn : n = 2 * n' + 1) (rank : Nat) {ab : AB}
    (hinv : Inv c r n ab) :
    Spec (round c r (seqlenOf c) rank n' ab) (fun ab' => Inv c r n' ab' ∧ RankOK c rank n' ab') := by
  unfold round
  dsimp only
  have hrange : ∀ i ∈ List.range c.runs.size, i < c.runs.size := fun i hi => List.mem_range.mp hi
  -- lmax
  have hscan := scanLmax_spec hg r (ab := ab) (fun i hi => (hinv.str i hi).2.1) (List.range c.runs.size) [] none hrange
    (by intro d hd; cases hd) List.pairwise_lt_range (by intro i hi; cases hi)
  refine Spec.bind hscan ?_
  intro lm hlm
  rw [List.nil_append] at hlm
  have hlmS := lmaxSpec_of_on hlm
  -- classification
  have hcls := classify_spec hg hn hinv lm (List.range c.runs.size) ab List.nodup_range hrange hinv.sa hinv.sb
    (fun i _ => ⟨rfl, rfl⟩)
  refine Spec.bind hcls ?_
  intro ab1 ⟨hsa1, hsb1, hpt⟩
  have hinv1 : Inv c r n' ab1 := by
    refine classify_inv hg hn hinv hlmS hsa1 hsb1 ?_ ?_
    · intro i hi
      have := ((hpt i hi).1 (List.mem_range.mpr hi)).1
      rw [this, clsA]
    · intro i hi
      have := ((hpt i hi).1 (List.mem_range.mpr hi)).2
      rw [this, clsB]
  -- skew
  show Spec (if ((rank / (n' + 1) : Nat) : Int) - Lsz c n' ab1 > 0 then
      (pqRight c (seqlenOf c) ab1.b (List.range c.runs.size) >>= fun pq =>
        moveLeftLoop c (seqlenOf c) n' (((rank / (n' + 1) : Nat) : Int) - Lsz c n' ab1).toNat pq ab1) else
    if ((rank / (n' + 1) : Nat) : Int) - Lsz c n' ab1 < 0 then
      (pqLeft c ab1.a (List.range c.runs.size) >>= fun pq =>
        moveRightLoop c n' (-(((rank / (n' + 1) : Nat) : Int) - Lsz c n' ab1)).toNat pq ab1) else pure ab1)
    (fun ab' => Inv c r n' ab' ∧ (Lsz c n' ab' = ((rank / (n' + 1) : Nat) : Int) ∨
      (Lsz c n' ab' < ((rank / (n' + 1) : Nat) : Int) ∧ ∀ j, j < c.runs.size → lenAt c j ≤ B ab' j)))
  generalize hT : ((rank / (n' + 1) : Nat) : Int) = T
  generalize hL1 : Lsz c n' ab1 = L1
  by_cases hpos : T - L1 > 0
  · rw [if_pos hpos]
    have hpq := pqRight_spec (ab := ab1) (fun i hi => by
      obtain ⟨h0, _, _, h3⟩ := hinv1.str i hi
      simp only [A, B] at h0 h3 ⊢; omega) (List.range c.runs.size) hrange
    refine Spec.bind hpq ?_
    intro pq hpqR
    refine Spec.mono (moveLeftLoop_spec hg r n' _ pq ab1 hinv1 hpqR.toLoop) ?_
    intro ab' ⟨hinv', k, hk, hl, hor⟩
    refine ⟨hinv', ?_⟩
    rw [hL1] at hl
    rcases hor with h | h
    · left
      rw [hl, h]
      omega
    · by_cases hke : k = (T - L1).toNat
      · left; rw [hl, hke]; omega
      · right
        refine ⟨by rw [hl]; omega, h⟩
  · rw [if_neg hpos]
    by_cases hneg : T - L1 < 0
    · rw [if_pos hneg]
      have hpq := pqLeft_spec (ab := ab1) (fun i hi => (hinv1.str i hi).2.1) (List.range c.runs.size) hrange
      refine Spec.bind hpq ?_
      intro pq hpqL
      have hT0 : 0 ≤ T := by rw [← hT]; exact Int.natCast_nonneg _
      refine Spec.mono (moveRightLoop_spec hg r n' _ pq ab1 hinv1 hpqL.toLoop (by rw [hL1]; omega)) ?_
      intro ab' ⟨hinv', hl⟩
      rw [hL1] at hl
      exact ⟨hinv', Or.inl (by rw [hl]; omega)⟩
    · rw [if_neg hneg]
      exact Spec.pure ⟨hinv1, Or.inl (by rw [hL1]; omega)⟩

theorem odd_of_pow {n : Nat} (hn : 0 < n) (h : ∃ j, n + 1 = 2 ^ j) : n = 2 * (n / 2) + 1 := by
  obtain ⟨j, hj⟩ := h
  cases j with
  | zero => simp at hj; omega
  | succ j => rw [Nat.pow_succ] at hj; omega

/-- **the whole refinement loop**: from the invariant at the initial stride to the invariant at stride 1,
with the exact rank when at least one round ran -/
theorem rounds_spec {c : Ctx} (hg : Good c) (r : Routine) (rank : Nat) :
    ∀ (fuel n : Nat) (ab : AB), n ≤ fuel → Inv c r n ab →
      Spec (rounds c r (seqlenOf c) rank fuel n ab)
        (fun ab' => Inv c r 0 ab' ∧ (n = 0 → ab' = ab) ∧ (0 < n → RankOK c rank 0 ab'))
  | 0, n, ab, hle, hinv => by
    have : n = 0 := by omega
    subst this
    rw [rounds]
    exact Spec.pure ⟨hinv, fun _ => rfl, fun h => by omega⟩
  | fuel + 1, n, ab, hle, hinv => by
    rw [rounds]
    by_cases hn0 : n = 0
    · subst hn0
      rw [if_pos rfl]
      exact Spec.pure ⟨hinv, fun _ => rfl, fun h => by omega⟩
    · rw [if_neg hn0]
      have hodd := odd_of_pow (by omega) hinv.pow
      refine Spec.bind (round_spec hg hodd rank hinv) ?_
      intro ab1 ⟨hinv1, hrank1⟩
      refine Spec.mono (rounds_spec hg r rank fuel (n / 2) ab1 (by omega) hinv1) ?_
      intro ab2 ⟨hinv2, hsame, hrank2⟩
      refine ⟨hinv2, fun h => (hn0 h).elim, fun _ => ?_⟩
      by_cases hh : n / 2 = 0
      · rw [hsame hh]
        rw [hh] at hrank1
        exact hrank1
      · exact hrank2 (by omega)

end TlxVerif.C08
