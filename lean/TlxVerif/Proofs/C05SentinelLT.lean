/-
L2 for `multiway_merge_loser_tree_sentinel`: every sequence is extended by its sentinel, the
unguarded loser tree merge runs on the extended sequences and never emits a sentinel while real
elements are requested; stripping the sentinels gives a run on the real sequences.
-/
import TlxVerif.Proofs.C05LoserTreeU
import TlxVerif.Proofs.C05Machine
namespace TlxVerif.C05
open TlxVerif.C09 (SWO Tree ceilLog2)

variable {α : Type}

/-- the extended sequences `L` end with the guards `gs`, which are greater than every real element,
and `n` real elements are still available -/
structure GInv (lt : α → α → Bool) (gs : List α) (L : List (List α)) (n : Nat) : Prop where
  len : L.length = gs.length
  ends : ∀ (i : Nat) (l : List α) (g : α), L[i]? = some l → gs[i]? = some g → ∃ r, l = r ++ [g]
  dom : ∀ g ∈ gs, ∀ l ∈ L, ∀ y ∈ l.dropLast, lt y g = true
  avail : n ≤ (L.map List.dropLast).flatten.length

theorem GInv.nonempty {lt : α → α → Bool} {gs : List α} {L : List (List α)} {n : Nat} (h : GInv lt gs L n) :
    ∀ l ∈ L, l ≠ [] := by
  intro l hl he
  obtain ⟨i, hil, hi⟩ := List.getElem_of_mem hl
  have hg : i < gs.length := by rw [← h.len]; exact hil
  obtain ⟨r, hr⟩ := h.ends i l gs[i] (by rw [List.getElem?_eq_getElem hil, hi]) (List.getElem?_eq_getElem hg)
  rw [he] at hr
  cases r <;> simp at hr

/-- a real head exists while real elements are available -/
theorem GInv.real_head {lt : α → α → Bool} {gs : List α} {L : List (List α)} {n : Nat} (h : GInv lt gs L (n + 1)) :
    ∃ (j : Nat) (y : α) (q : List α), L[j]? = some (y :: q) ∧ y ∈ (y :: q).dropLast := by
  obtain ⟨j, y, r, hj⟩ := exists_nonempty (L := L.map List.dropLast) (by have := h.avail; omega)
  rw [List.getElem?_map] at hj
  cases hl : L[j]? with
  | none => rw [hl] at hj; cases hj
  | some l =>
    rw [hl] at hj
    simp only [Option.map_some, Option.some.injEq] at hj
    cases l with
    | nil => simp at hj
    | cons a q =>
      cases q with
      | nil => simp at hj
      | cons b q2 =>
        simp only [List.dropLast_cons_cons, List.cons.injEq] at hj
        exact ⟨j, a, b :: q2, hl, by simp⟩

/-- a minimal head of the extended sequences is a real element -/
theorem GInv.min_real {lt : α → α → Bool} {gs : List α} {L : List (List α)} {n : Nat} (h : GInv lt gs L (n + 1))
    {i : Nat} {x : α} {q : List α} (hm : IsMin lt L i x q) : q ≠ [] := by
  intro hq
  subst hq
  obtain ⟨j, y, q', hj, hy⟩ := h.real_head
  have hil : i < L.length := by
    by_cases c : i < L.length
    · exact c
    · have := hm.1; rw [List.getElem?_eq_none (by omega)] at this; cases this
  have hg : i < gs.length := by rw [← h.len]; exact hil
  obtain ⟨r, hr⟩ := h.ends i [x] gs[i] hm.1 (List.getElem?_eq_getElem hg)
  have hx : x = gs[i] := by
    cases r with
    | nil => simpa using hr
    | cons a r' => have := congrArg List.length hr; simp at this
  have := h.dom gs[i] (List.getElem_mem hg) (y :: q') (List.mem_of_getElem? hj) y hy
  rw [← hx, hm.2 j y q' hj] at this
  cases this

theorem dropLast_flatten_set {L : List (List α)} {i : Nat} {x : α} {q : List α}
    (hi : L[i]? = some (x :: q)) (hq : q ≠ []) :
    (L.map List.dropLast).flatten.length = ((L.set i q).map List.dropLast).flatten.length + 1 := by
  have h1 : (L.map List.dropLast)[i]? = some (x :: q.dropLast) := by
    rw [List.getElem?_map, hi]
    cases q with
    | nil => exact absurd rfl hq
    | cons b q2 => simp
  have := length_flatten_set h1
  rw [List.map_set]
  exact this

theorem GInv.step {lt : α → α → Bool} {gs : List α} {L : List (List α)} {n : Nat} (h : GInv lt gs L (n + 1))
    {i : Nat} {x : α} {q : List α} (hm : IsMin lt L i x q) : GInv lt gs (L.set i q) n := by
  have hq := h.min_real hm
  have hil : i < L.length := by
    by_cases c : i < L.length
    · exact c
    · have := hm.1; rw [List.getElem?_eq_none (by omega)] at this; cases this
  have hsub : ∀ l ∈ L.set i q, ∃ l0 ∈ L, ∀ y ∈ l.dropLast, y ∈ l0.dropLast := by
    intro l hl
    rcases List.mem_or_eq_of_mem_set hl with h1 | h1
    · exact ⟨l, h1, fun y hy => hy⟩
    · refine ⟨x :: q, List.mem_of_getElem? hm.1, fun y hy => ?_⟩
      rw [h1] at hy
      cases hq' : q with
      | nil => exact absurd hq' hq
      | cons b q2 => rw [hq'] at hy; simp only [List.dropLast_cons_cons]; exact List.mem_cons_of_mem _ hy
  refine ⟨by rw [List.length_set]; exact h.len, fun j l g hl hg => ?_, fun g hg l hl y hy => ?_, ?_⟩
  · by_cases c : i = j
    · subst c
      simp only [List.getElem?_set_self hil, Option.some.injEq] at hl
      subst hl
      obtain ⟨r, hr⟩ := h.ends i (x :: q) g hm.1 hg
      cases r with
      | nil => simp at hr; exact absurd hr.2 hq
      | cons a r' => simp at hr; exact ⟨r', hr.2⟩
    · rw [List.getElem?_set_ne c] at hl
      exact h.ends j l g hl hg
  · obtain ⟨l0, hl0, hs⟩ := hsub l hl
    exact h.dom g hg l0 hl0 y (hs y hy)
  · have := dropLast_flatten_set hm.1 hq
    have := h.avail
    omega

theorem uinv_guards {lt : α → α → Bool} (hlt : SWO lt) (stable : Bool) (gs : List α) (g0 : α) (hg0 : g0 ∈ gs) :
    UInv stable lt g0 (GInv lt gs) := by
  refine ⟨fun L n hP => hP.nonempty, fun L n i x q hP hm => hP.step hm.1, fun L n hP => ?_⟩
  right
  obtain ⟨j, y, q, hj, hy⟩ := hP.real_head
  have hlt' : lt y g0 = true := hP.dom g0 hg0 (y :: q) (List.mem_of_getElem? hj) y hy
  cases stable with
  | true => left; exact ⟨rfl, j, y, q, hj, hlt.asymm y g0 hlt'⟩
  | false => right; exact ⟨rfl, j, y, q, hj, hlt'⟩

/-- a run on the extended sequences is a run on the real sequences -/
theorem isMinS_strip {lt : α → α → Bool} {stable : Bool} {L : List (List α)} {i : Nat} {x : α} {q : List α}
    (hm : IsMinS stable lt L i x q) (hq : q ≠ []) :
    IsMinS stable lt (L.map List.dropLast) i x q.dropLast := by
  have head : ∀ (j : Nat) (y : α) (q' : List α), (L.map List.dropLast)[j]? = some (y :: q') →
      ∃ q'', L[j]? = some (y :: q'') := by
    intro j y q' hj
    rw [List.getElem?_map] at hj
    cases hl : L[j]? with
    | none => rw [hl] at hj; cases hj
    | some l =>
      rw [hl] at hj
      simp only [Option.map_some, Option.some.injEq] at hj
      cases l with
      | nil => simp at hj
      | cons a l' =>
        cases l' with
        | nil => simp at hj
        | cons b l2 =>
          simp only [List.dropLast_cons_cons, List.cons.injEq] at hj
          exact ⟨b :: l2, by rw [hj.1]⟩
  refine ⟨⟨?_, fun j y q' hj => ?_⟩, fun hs j y q' hji hj => ?_⟩
  · rw [List.getElem?_map, hm.1.1]
    cases q with
    | nil => exact absurd rfl hq
    | cons b q2 => simp
  · obtain ⟨q'', h⟩ := head j y q' hj
    exact hm.1.2 j y q'' h
  · obtain ⟨q'', h⟩ := head j y q' hj
    exact hm.2 hs j y q'' hji h

theorem stableRun_strip {lt : α → α → Bool} {gs : List α} {L F : List (List α)} {n : Nat} {o : List α}
    (h : StableRun lt L n o F) (hG : GInv lt gs L n) :
    StableRun lt (L.map List.dropLast) n o (F.map List.dropLast) := by
  induction h with
  | done s => exact StableRun.done _
  | @emit seqs fin i n x q out hm _ ih =>
    have hq := hG.min_real hm.1
    have := isMinS_strip (stable := true) ⟨hm.1, fun _ => hm.2⟩ hq
    have ih' := ih (hG.step hm.1)
    rw [List.map_set] at ih'
    exact StableRun.emit ⟨this.1, this.2 rfl⟩ ih'

theorem minRun_strip {lt : α → α → Bool} {gs : List α} {L F : List (List α)} {n : Nat} {o : List α}
    (h : MinRun lt L n o F) (hG : GInv lt gs L n) :
    MinRun lt (L.map List.dropLast) n o (F.map List.dropLast) := by
  induction h with
  | done s => exact MinRun.done _
  | @emit seqs fin i n x q out hm _ ih =>
    have hq := hG.min_real hm
    have := isMinS_strip (stable := false) ⟨hm, fun h => by cases h⟩ hq
    have ih' := ih (hG.step hm)
    rw [List.map_set] at ih'
    exact MinRun.emit this.1 ih'

theorem run_strip {lt : α → α → Bool} {stable : Bool} {gs : List α} {L F : List (List α)} {n : Nat} {o : List α}
    (h : Run stable lt L n o F) (hG : GInv lt gs L n) :
    Run stable lt (L.map List.dropLast) n o (F.map List.dropLast) := by
  unfold Run at *
  cases stable with
  | true => exact stableRun_strip h hG
  | false => exact minRun_strip h hG

/-- the `*_sentinels` hypothesis with the guards made explicit -/
theorem sentinels_ext {lt : α → α → Bool} {seqs : List (Seq α)}
    (hsen : ∀ s ∈ seqs, ∃ gd, s.guard = some gd ∧ ∀ s' ∈ seqs, ∀ y ∈ s'.xs, lt y gd = true) :
    ∃ (gs : List α) (ext : List (Seq α)),
      seqs.mapM (fun s => s.guard.map fun g => ({ xs := s.xs ++ [g], guard := none } : Seq α)) = some ext ∧
      guardsOf seqs = gs.map some ∧ xsOf ext = (seqs.zip gs).map (fun p => p.1.xs ++ [p.2]) ∧
      (xsOf ext).map List.dropLast = xsOf seqs ∧ gs.length = seqs.length := by
  induction seqs with
  | nil => exact ⟨[], [], rfl, rfl, rfl, rfl, rfl⟩
  | cons s rest ih =>
    obtain ⟨gs, ext, h1, h2, h3, h4, h5⟩ := ih (fun s' hs' => by
      obtain ⟨gd, hgd, hall⟩ := hsen s' (List.mem_cons_of_mem _ hs')
      exact ⟨gd, hgd, fun s'' hs'' => hall s'' (List.mem_cons_of_mem _ hs'')⟩)
    obtain ⟨g, hg, _⟩ := hsen s List.mem_cons_self
    refine ⟨g :: gs, { xs := s.xs ++ [g], guard := none } :: ext, by simp [List.mapM_cons, hg, h1], ?_, ?_, ?_, by simp [h5]⟩
    · simp [guardsOf, hg] at h2 ⊢; exact h2
    · simp [xsOf] at h3 ⊢; exact h3
    · simp [xsOf] at h4 ⊢; exact h4

/-- **multiway_merge_loser_tree_sentinel** (k ≥ 1, copy and pointer trees, stable and unstable):
when every sequence is followed by an element greater than all real ones, the call is defined for
`size ≤ total` (it reads nothing behind a sentinel, never emits one) and performs a run -/
theorem multiwayMergeLoserTreeSentinel_run {lt : α → α → Bool} (hlt : SWO lt) (copy stable : Bool) (dflt : α)
    (seqs : List (Seq α)) (size : Nat) (hk1 : 1 ≤ seqs.length) (hk : seqs.length ≤ 2 ^ 31)
    (hsen : ∀ s ∈ seqs, ∃ gd, s.guard = some gd ∧ ∀ s' ∈ seqs, ∀ y ∈ s'.xs, lt y gd = true)
    (hsize : size ≤ (xsOf seqs).flatten.length) :
    ∃ fin out, multiwayMergeLoserTreeSentinel copy stable lt dflt seqs size = some (fin, out) ∧
      Run stable lt (xsOf seqs) size out (xsOf fin) ∧ guardsOf fin = guardsOf seqs := by
  obtain ⟨gs, ext, hext, hguards, hxs, hstrip, hlen⟩ := sentinels_ext hsen
  have hextlen : ext.length = seqs.length := by
    have := congrArg List.length hxs
    simp only [xsOf, List.length_map, List.length_zip, hlen] at this
    omega
  -- facts about the guards
  have hgs_get : ∀ (i : Nat) (g : α), gs[i]? = some g → ∃ s, seqs[i]? = some s ∧ s.guard = some g := by
    intro i g hg
    have hil : i < seqs.length := by
      by_cases c : i < seqs.length
      · exact c
      · rw [List.getElem?_eq_none (by omega)] at hg; cases hg
    refine ⟨seqs[i], List.getElem?_eq_getElem hil, ?_⟩
    have := congrArg (fun l => l[i]?) hguards
    simp only [guardsOf, List.getElem?_map, List.getElem?_eq_getElem hil, hg, Option.map_some] at this
    exact Option.some.inj this
  have hdomg : ∀ g ∈ gs, ∀ s' ∈ seqs, ∀ y ∈ s'.xs, lt y g = true := by
    intro g hg s' hs' y hy
    obtain ⟨i, hil, hi⟩ := List.getElem_of_mem hg
    obtain ⟨s, hs, hsg⟩ := hgs_get i g (by rw [List.getElem?_eq_getElem hil, hi])
    obtain ⟨gd, hgd, hall⟩ := hsen s (List.mem_of_getElem? hs)
    rw [hsg] at hgd; cases hgd
    exact hall s' hs' y hy
  have hLget : ∀ (i : Nat) (l : List α), (xsOf ext)[i]? = some l →
      ∃ s g, seqs[i]? = some s ∧ gs[i]? = some g ∧ l = s.xs ++ [g] := by
    intro i l hl
    rw [hxs, List.getElem?_map] at hl
    cases hz : (seqs.zip gs)[i]? with
    | none => rw [hz] at hl; cases hl
    | some p =>
      rw [hz] at hl
      simp only [Option.map_some, Option.some.injEq] at hl
      rw [List.getElem?_zip_eq_some] at hz
      exact ⟨p.1, p.2, hz.1, hz.2, hl.symm⟩
  have hG : GInv lt gs (xsOf ext) size := by
    refine ⟨by simp only [xsOf, List.length_map]; omega, fun i l g hl hg => ?_, fun g hg l hl y hy => ?_, by rw [hstrip]; exact hsize⟩
    · obtain ⟨s, g', _, hg', hl'⟩ := hLget i l hl
      rw [hg] at hg'; cases hg'
      exact ⟨s.xs, hl'⟩
    · obtain ⟨i, hil, hi⟩ := List.getElem_of_mem hl
      obtain ⟨s, g', hs, _, hl'⟩ := hLget i l (by rw [List.getElem?_eq_getElem hil, hi])
      rw [hl'] at hy
      simp at hy
      exact hdomg g hg s (List.mem_of_getElem? hs) y hy
  -- the sentinel handed to the tree is the guard of the first sequence
  have h0 : 0 < ext.length := by omega
  have h0x : 0 < (xsOf ext).length := by simp only [xsOf, List.length_map]; exact h0
  obtain ⟨s0, g0, hs0, hg0, hl0⟩ := hLget 0 (xsOf ext)[0] (List.getElem?_eq_getElem h0x)
  have hs0' : ∃ e0, ext[0]? = some e0 ∧ e0.xs.getLast? = some g0 := by
    refine ⟨ext[0], List.getElem?_eq_getElem h0, ?_⟩
    have : ext[0].xs = (xsOf ext)[0] := by simp [xsOf]
    rw [this, hl0]; simp
  have htot : min (totalSize ext) size = size := by
    have h1 : totalSize ext = (xsOf ext).flatten.length := totalSize_eq ext
    have h2 : (xsOf seqs).flatten.length ≤ (xsOf ext).flatten.length := by
      rw [← hstrip]
      clear hG h0x hl0 hLget hstrip hxs h1
      induction (xsOf ext) with
      | nil => simp
      | cons l rest ih =>
        simp only [List.map_cons, List.flatten_cons, List.length_append, List.length_dropLast]
        omega
    omega
  obtain ⟨fin, out, hm, hrun, hgd, hPf⟩ := multiwayMergeLoserTreeUnguarded_run hlt copy stable dflt ext size
    (by omega) g0 hs0' (uinv_guards hlt stable gs g0 (List.mem_of_getElem? hg0)) hG.nonempty (by rw [htot]; exact hG)
  rw [htot] at hrun
  have hrun' := run_strip hrun hG
  rw [hstrip] at hrun'
  have hfinlen : fin.length = seqs.length := by
    have := hrun.minRun.length.2
    simp only [xsOf, List.length_map] at this; omega
  -- strip the sentinels again
  have hback : ∀ (fl : List (Seq α)) (sl : List (Seq α)), fl.length = sl.length → (∀ f ∈ fl, f.xs ≠ []) →
      ∃ back, (fl.zip sl).mapM (fun (p : Seq α × Seq α) =>
          if p.1.xs.isEmpty then none else some ({ xs := p.1.xs.dropLast, guard := p.2.guard } : Seq α)) = some back ∧
        xsOf back = (xsOf fl).map List.dropLast ∧ guardsOf back = guardsOf sl := by
    intro fl
    induction fl with
    | nil => intro sl hl _; cases sl with
      | nil => exact ⟨[], rfl, rfl, rfl⟩
      | cons a b => simp at hl
    | cons f frest ih =>
      intro sl hl hne
      cases sl with
      | nil => simp at hl
      | cons s srest =>
        obtain ⟨back, h1, h2, h3⟩ := ih srest (by simpa using hl) (fun f' hf' => hne f' (List.mem_cons_of_mem _ hf'))
        have hf : f.xs.isEmpty = false := by
          have := hne f List.mem_cons_self
          cases hx : f.xs with
          | nil => exact absurd hx this
          | cons a b => rfl
        refine ⟨{ xs := f.xs.dropLast, guard := s.guard } :: back, ?_, ?_, ?_⟩
        · simp only [List.zip_cons_cons, List.mapM_cons, hf, Bool.false_eq_true, if_false, h1,
            Option.bind_eq_bind, Option.bind_some, Option.pure_def]
        · simp [xsOf] at h2 ⊢; exact h2
        · simp [guardsOf] at h3 ⊢; exact h3
  obtain ⟨back, hb1, hb2, hb3⟩ := hback fin seqs hfinlen (fun f hf => hPf.nonempty f.xs (List.mem_map_of_mem hf))
  refine ⟨back, out, ?_, by rw [hb2]; exact hrun', hb3⟩
  unfold multiwayMergeLoserTreeSentinel
  simp only [hext, hm, hb1, Option.bind_eq_bind, Option.bind_some, Option.pure_def]

end TlxVerif.C05
