/-
The tournament invariant of a loser tree and its establishment / preservation
by `init_winner` and by the leaf-to-root loop of `delete_min_insert`, for an
arbitrary "beats-or-ties" relation `le` on entries.  The four concrete
relations (guarded/unguarded × stable/unstable) are in `C09Orders.lean`.
-/
import TlxVerif.Proofs.C09Path
namespace TlxVerif.C09

variable {α : Type}

/-- `Valid le cur a d p w`: the subtree of height `d` rooted at node `p` is a
correct loser tree over the leaf entries `cur` whose overall winner is `w`:
every inner node stores the loser of the match between the winners of its two
subtrees, and the winner beats-or-ties (`le`) that loser. -/
def Valid (le : Entry α → Entry α → Prop) (cur : Nat → Entry α) (a : Array (Entry α)) :
    Nat → List Bool → Entry α → Prop
  | 0, p, w => w = cur (idx p)
  | d + 1, p, w => ∃ (L : Entry α) (b : Bool), rd a (idx p) = some L ∧ le w L ∧
      Valid le cur a d (b :: p) w ∧ Valid le cur a d ((!b) :: p) L

variable {le : Entry α → Entry α → Prop}

/-- `Valid` only looks at the array and the leaves inside the subtree -/
theorem Valid_congr {cur cur' : Nat → Entry α} {a a' : Array (Entry α)} :
    ∀ {d : Nat} {p : List Bool} {w : Entry α},
      (∀ r, p <:+ r → rd a' (idx r) = rd a (idx r) ∧ cur' (idx r) = cur (idx r)) →
      Valid le cur a d p w → Valid le cur' a' d p w
  | 0, p, w, h, hv => by
    simp only [Valid] at hv ⊢
    rw [(h p (List.suffix_refl p)).2]; exact hv
  | d + 1, p, w, h, hv => by
    simp only [Valid] at hv ⊢
    obtain ⟨L, b, hr, hle, h1, h2⟩ := hv
    refine ⟨L, b, ?_, hle, ?_, ?_⟩
    · rw [(h p (List.suffix_refl p)).1]; exact hr
    · exact Valid_congr (fun r hr => h r (suffix_of_child hr)) h1
    · exact Valid_congr (fun r hr => h r (suffix_of_child hr)) h2

/-- the winner of a subtree is the entry of one of its leaves -/
theorem Valid_leaf {cur : Nat → Entry α} {a : Array (Entry α)} :
    ∀ {d : Nat} {p : List Bool} {w : Entry α}, Valid le cur a d p w →
      ∃ r, p <:+ r ∧ r.length = p.length + d ∧ w = cur (idx r)
  | 0, p, w, hv => ⟨p, List.suffix_refl p, by simp, hv⟩
  | d + 1, p, w, hv => by
    simp only [Valid] at hv
    obtain ⟨L, b, _, _, h1, _⟩ := hv
    obtain ⟨r, hs, hl, hw⟩ := Valid_leaf h1
    exact ⟨r, suffix_of_child hs, by simp at hl; omega, hw⟩

/-- the winner beats-or-ties every leaf of the subtree -/
theorem Valid_min (hrefl : ∀ x, le x x) (htrans : ∀ x y z, le x y → le y z → le x z)
    {cur : Nat → Entry α} {a : Array (Entry α)} :
    ∀ {d : Nat} {p : List Bool} {w : Entry α}, Valid le cur a d p w →
      ∀ r, p <:+ r → r.length = p.length + d → le w (cur (idx r))
  | 0, p, w, hv, r, hs, hl => by
    simp only [Valid] at hv
    have : p = r := hs.eq_of_length (by omega)
    subst this; rw [hv]; exact hrefl _
  | d + 1, p, w, hv, r, hs, hl => by
    simp only [Valid] at hv
    obtain ⟨L, b, _, hle, h1, h2⟩ := hv
    obtain ⟨c, hc⟩ := child_of_suffix hs (by omega)
    by_cases hcb : c = b
    · subst hcb
      exact Valid_min hrefl htrans h1 r hc (by simp; omega)
    · have : c = !b := by cases c <;> cases b <;> simp_all
      subst this
      exact htrans _ _ _ hle (Valid_min hrefl htrans h2 r hc (by simp; omega))

/-! ### `delete_min_insert` -/

/-- what the proofs need to know about one loop iteration: it keeps the
candidate when the candidate beats-or-ties the stored loser, and otherwise
swaps the two, the stored one then beating-or-tying the old candidate -/
def StepOK (le : Entry α → Entry α → Prop) (v : Variant) (lt : α → α → Bool) : Prop :=
  ∀ L c : Entry α, match step v lt L c with
    | none => le c L
    | some (s, c') => s = c ∧ c' = L ∧ le L c

/-- the loop of `delete_min_insert`, written as a recursion from node `p` down
to the leaf `y.reverse ++ p` and back up (proof device; `replay_eq_rrec`) -/
def rrec (v : Variant) (lt : α → α → Bool) :
    List Bool → List Bool → Entry α → Array (Entry α) → Option (Entry α × Array (Entry α))
  | [], _, e, a => some (e, a)
  | b :: y, p, e, a =>
    match rrec v lt y (b :: p) e a with
    | none => none
    | some (c, a1) =>
      match rd a1 (idx p) with
      | none => none
      | some L =>
        match step v lt L c with
        | none => some (c, a1)
        | some (s, c') =>
          match wr a1 (idx p) s with
          | none => none
          | some a2 => some (c', a2)

theorem replay_idx (v : Variant) (lt : α → α → Bool) (p : List Bool) (c : Entry α) (a : Array (Entry α)) :
    replay v lt (idx p) c a =
      match rd a (idx p) with
      | none => none
      | some L =>
        match step v lt L c with
        | none => replay v lt (idx p / 2) c a
        | some (s, c') =>
          match wr a (idx p) s with
          | none => none
          | some a' => replay v lt (idx p / 2) c' a' := by
  have hp := idx_pos p
  rw [replay]
  have : ¬ idx p = 0 := by omega
  simp only [this, if_false]
  cases rd a (idx p) with
  | none => rfl
  | some L =>
    simp only [Option.bind_eq_bind, Option.bind_some]
    cases step v lt L c with
    | none => rfl
    | some sc =>
      obtain ⟨s, c'⟩ := sc
      simp only
      cases wr a (idx p) s <;> rfl

theorem replay_eq_rrec (v : Variant) (lt : α → α → Bool) :
    ∀ (y p : List Bool) (e : Entry α) (a : Array (Entry α)),
      replay v lt (idx (y.reverse ++ p) / 2) e a =
        match rrec v lt y p e a with
        | none => none
        | some (c, a1) => replay v lt (idx p / 2) c a1
  | [], p, e, a => by simp [rrec]
  | b :: y, p, e, a => by
    have ih := replay_eq_rrec v lt y (b :: p) e a
    have e1 : (b :: y).reverse ++ p = y.reverse ++ (b :: p) := by simp
    rw [e1, ih, idx_cons_div]
    simp only [rrec]
    cases rrec v lt y (b :: p) e a with
    | none => rfl
    | some ca =>
      obtain ⟨c, a1⟩ := ca
      simp only
      rw [replay_idx]
      cases rd a1 (idx p) with
      | none => rfl
      | some L =>
        simp only
        cases step v lt L c with
        | none => rfl
        | some sc =>
          obtain ⟨s, c'⟩ := sc
          simp only
          cases wr a1 (idx p) s <;> rfl

theorem replay_zero (v : Variant) (lt : α → α → Bool) (c : Entry α) (a : Array (Entry α)) :
    replay v lt 0 c a = some (c, a) := by
  rw [replay]; simp

/-- the whole loop, started at the parent of leaf `ℓ` -/
theorem replay_leaf (v : Variant) (lt : α → α → Bool) (ℓ : List Bool) (e : Entry α) (a : Array (Entry α)) :
    replay v lt (idx ℓ / 2) e a = rrec v lt ℓ.reverse [] e a := by
  have := replay_eq_rrec v lt ℓ.reverse [] e a
  simp only [List.reverse_reverse, List.append_nil] at this
  rw [this]
  cases rrec v lt ℓ.reverse [] e a with
  | none => rfl
  | some ca =>
    obtain ⟨c, a1⟩ := ca
    have : idx ([] : List Bool) / 2 = 0 := by simp [idx]
    simp only [this, replay_zero]

/-- Replaying the path of the winner's leaf re-establishes the invariant for the
leaf entries `cur'` that differ from `cur` exactly at that leaf. -/
theorem rrec_correct {v : Variant} {lt : α → α → Bool} (hstep : StepOK le v lt)
    {cur cur' : Nat → Entry α} {e : Entry α} :
    ∀ (y p : List Bool) (w : Entry α) (a : Array (Entry α)),
      Valid le cur a y.length p w →
      (∀ r, r.length = p.length + y.length → cur (idx r) = w → r = y.reverse ++ p) →
      cur' (idx (y.reverse ++ p)) = e →
      (∀ r, r ≠ y.reverse ++ p → cur' (idx r) = cur (idx r)) →
      ∃ c a1, rrec v lt y p e a = some (c, a1) ∧ Valid le cur' a1 y.length p c ∧ a1.size = a.size ∧
        (∀ j, (∀ r, p <:+ r → j ≠ idx r) → rd a1 j = rd a j)
  | [], p, w, a, hv, _, he, _ => by
    refine ⟨e, a, rfl, ?_, rfl, fun _ _ => rfl⟩
    simp only [Valid, List.length_nil]
    simpa using he.symm
  | b :: y, p, w, a, hv, huniq, he, hcur => by
    simp only [List.length_cons, Valid] at hv
    obtain ⟨L, b0, hrd, _, hv1, hv2⟩ := hv
    have eℓ : (b :: y).reverse ++ p = y.reverse ++ (b :: p) := by simp
    -- the winner sits below child `b`
    have hb : b0 = b := by
      obtain ⟨r, hs, hl, hw⟩ := Valid_leaf hv1
      have := huniq r (by simp at hl ⊢; omega) hw.symm
      rw [eℓ] at this
      have hs2 : (b :: p) <:+ r := ⟨y.reverse, this.symm⟩
      have := suffix_same_length hs hs2 rfl
      simpa using this
    subst hb
    have he' : cur' (idx (y.reverse ++ b0 :: p)) = e := by rw [← eℓ]; exact he
    obtain ⟨c, a1, hr1, hvc, hsz, hfr⟩ := rrec_correct (cur := cur) (cur' := cur') (e := e) hstep y (b0 :: p) w a hv1
      (fun r hl hw => by rw [← eℓ]; exact huniq r (by simp at hl ⊢; omega) hw)
      he' (fun r hr => hcur r (by rw [eℓ]; exact hr))
    have hrd1 : rd a1 (idx p) = some L := by
      rw [hfr (idx p) (fun r hs heq => not_child_suffix_self b0 p (by
        have := idx_inj heq; subst this; exact hs))]
      exact hrd
    -- the sibling subtree is untouched
    have hsib : Valid le cur' a1 y.length ((!b0) :: p) L := by
      refine Valid_congr (fun r hs => ⟨?_, ?_⟩) hv2
      · exact hfr (idx r) (fun r' hs' heq => by
          rw [idx_inj heq] at hs; exact sibling_disjoint hs' hs)
      · refine hcur r (fun heq => ?_)
        rw [eℓ] at heq
        exact sibling_disjoint (⟨y.reverse, heq.symm⟩ : (b0 :: p) <:+ r) hs
    have hlt : idx p < a1.size := rd_some_lt hrd1
    have hs := hstep L c
    have hR : rrec v lt (b0 :: y) p e a =
        match step v lt L c with
        | none => some (c, a1)
        | some (s, c') =>
          match wr a1 (idx p) s with
          | none => none
          | some a2 => some (c', a2) := by
      simp only [rrec, hr1, hrd1]
    cases hst : step v lt L c with
    | none =>
      rw [hst] at hs hR
      refine ⟨c, a1, hR, ?_, hsz, fun j hj => hfr j (fun r hr => hj r (suffix_of_child hr))⟩
      simp only [List.length_cons, Valid]
      exact ⟨L, b0, hrd1, hs, hvc, hsib⟩
    | some sc =>
      obtain ⟨s, c'⟩ := sc
      rw [hst] at hs hR
      obtain ⟨rfl, rfl, hle⟩ := hs
      obtain ⟨a2, hw2⟩ := wr_ok s hlt
      simp only [hw2] at hR
      have hne : ∀ (b' : Bool) r, (b' :: p) <:+ r → rd a2 (idx r) = rd a1 (idx r) ∧ cur' (idx r) = cur' (idx r) :=
        fun b' r hs => ⟨rd_wr_ne hw2 (fun heq => not_child_suffix_self b' p (by
          have := idx_inj heq; subst this; exact hs)), rfl⟩
      refine ⟨c', a2, hR, ?_, by rw [wr_size hw2, hsz], fun j hj => ?_⟩
      · simp only [List.length_cons, Valid]
        refine ⟨s, !b0, rd_wr_same hw2, hle, Valid_congr (hne _) hsib, ?_⟩
        rw [Bool.not_not]
        exact Valid_congr (hne _) hvc
      · rw [rd_wr_ne hw2 (hj p (List.suffix_refl p))]
        exact hfr j (fun r hr => hj r (suffix_of_child hr))

/-! ### `init_winner` -/

/-- what the proofs need to know about the test of `init_winner`: the left
entry may be declared winner only if it beats-or-ties the right one, given that
its source index is not larger (left leaves come first) -/
def InitOK (le : Entry α → Entry α → Prop) (g : Bool) (lt : α → α → Bool) : Prop :=
  ∀ L R : Entry α, L.source ≤ R.source →
    if leftWins g lt L R then le L R else le R L

theorem initWinner_correct {g : Bool} {lt : α → α → Bool} (hinit : InitOK le g lt) (h : Nat)
    (cur : Nat → Entry α)
    (hmono : ∀ r1 r2 : List Bool, r1.length = h → r2.length = h → idx r1 < idx r2 →
      (cur (idx r1)).source ≤ (cur (idx r2)).source) :
    ∀ (d : Nat) (p : List Bool) (fuel : Nat) (a : Array (Entry α)),
      p.length + d = h → d ≤ fuel → a.size = 2 ^ (h + 1) →
      (∀ r, r.length = h → rd a (idx r) = some (cur (idx r))) →
      ∃ r a', initWinner g lt (2 ^ h) fuel (idx p) a = some (idx r, a') ∧ p <:+ r ∧ r.length = h ∧
        Valid le cur a' d p (cur (idx r)) ∧ a'.size = a.size ∧
        (∀ j, (∀ r', p <:+ r' → r'.length < h → j ≠ idx r') → rd a' j = rd a j)
  | 0, p, fuel, a, hp, _, _, _ => by
    have hge : idx p ≥ 2 ^ h := by have := (idx_range p).1; simp at hp; rw [hp] at this; exact this
    refine ⟨p, a, ?_, List.suffix_refl p, by omega, by simp [Valid], rfl, fun _ _ => rfl⟩
    unfold initWinner; simp [hge]
  | d + 1, p, fuel, a, hp, hf, hsz, hleaf => by
    have hlt : idx p < 2 ^ h := by
      have := (idx_range p).2
      have : 2 ^ (p.length + 1) ≤ 2 ^ h := Nat.pow_le_pow_right (by omega) (by omega)
      omega
    obtain ⟨f, rfl⟩ : ∃ f, fuel = f + 1 := ⟨fuel - 1, by omega⟩
    have leafne : ∀ (q r r' : List Bool), r.length = h → q <:+ r' → r'.length < h → idx r ≠ idx r' :=
      fun q r r' hl _ hl' heq => by rw [idx_inj heq] at hl; omega
    obtain ⟨r1, a1, hi1, hs1, hl1, hv1, hsz1, hfr1⟩ :=
      initWinner_correct hinit h cur hmono d (false :: p) f a (by simp; omega) (by omega) hsz hleaf
    have hleaf1 : ∀ r, r.length = h → rd a1 (idx r) = some (cur (idx r)) := fun r hl => by
      rw [hfr1 (idx r) (fun r' hs hl' => leafne _ r r' hl hs hl')]; exact hleaf r hl
    obtain ⟨r2, a2, hi2, hs2, hl2, hv2, hsz2, hfr2⟩ :=
      initWinner_correct hinit h cur hmono d (true :: p) f a1 (by simp; omega) (by omega) (by rw [hsz1, hsz]) hleaf1
    have hleaf2 : ∀ r, r.length = h → rd a2 (idx r) = some (cur (idx r)) := fun r hl => by
      rw [hfr2 (idx r) (fun r' hs hl' => leafne _ r r' hl hs hl')]; exact hleaf1 r hl
    have hsrc : (cur (idx r1)).source ≤ (cur (idx r2)).source :=
      hmono r1 r2 hl1 hl2 (idx_lt_of_sibling' hs1 hs2 (by omega))
    have hpsz : idx p < a2.size := by
      rw [hsz2, hsz1, hsz, Nat.pow_succ]; omega
    have hio := hinit (cur (idx r1)) (cur (idx r2)) hsrc
    -- subtree validity survives the later writes
    have keep1 : ∀ a3 : Array (Entry α), (∀ j, j ≠ idx p → rd a3 j = rd a2 j) →
        Valid le cur a3 d (false :: p) (cur (idx r1)) := fun a3 h3 =>
      Valid_congr (fun r hs => ⟨by
        rw [h3 (idx r) (fun heq => not_child_suffix_self false p (by
          have := idx_inj heq; subst this; exact hs))]
        exact hfr2 (idx r) (fun r' hs' _ heq => by
          rw [idx_inj heq] at hs; exact sibling_disjoint (b := false) hs hs'), rfl⟩) hv1
    have keep2 : ∀ a3 : Array (Entry α), (∀ j, j ≠ idx p → rd a3 j = rd a2 j) →
        Valid le cur a3 d (true :: p) (cur (idx r2)) := fun a3 h3 =>
      Valid_congr (fun r hs => ⟨
        h3 (idx r) (fun heq => not_child_suffix_self true p (by
          have := idx_inj heq; subst this; exact hs)), rfl⟩) hv2
    have frame : ∀ a3 : Array (Entry α), (∀ j, j ≠ idx p → rd a3 j = rd a2 j) →
        ∀ j, (∀ r', p <:+ r' → r'.length < h → j ≠ idx r') → rd a3 j = rd a j := fun a3 h3 j hj => by
      rw [h3 j (hj p (List.suffix_refl p) (by omega)),
        hfr2 j (fun r' hs hl' => hj r' (suffix_of_child hs) hl'),
        hfr1 j (fun r' hs hl' => hj r' (suffix_of_child hs) hl')]
    unfold initWinner
    have hnge : ¬ idx p ≥ 2 ^ h := by omega
    simp only [hnge, if_false]
    rw [← idx_true, ← idx_false]
    simp only [hi1, hi2, Option.bind_eq_bind, Option.bind_some, hleaf2 r1 hl1, hleaf2 r2 hl2]
    by_cases hw : leftWins g lt (cur (idx r1)) (cur (idx r2)) = true
    · simp only [hw, if_true] at hio ⊢
      obtain ⟨a3, hw3⟩ := wr_ok (cur (idx r2)) hpsz
      have h3 : ∀ j, j ≠ idx p → rd a3 j = rd a2 j := fun j hj => rd_wr_ne hw3 hj
      refine ⟨r1, a3, by simp [hw3], suffix_of_child hs1, hl1, ?_, by rw [wr_size hw3, hsz2, hsz1], frame a3 h3⟩
      simp only [Valid]
      exact ⟨cur (idx r2), false, rd_wr_same hw3, hio, keep1 a3 h3, keep2 a3 h3⟩
    · have hw' : leftWins g lt (cur (idx r1)) (cur (idx r2)) = false := by simpa using hw
      simp only [hw', Bool.false_eq_true, if_false] at hio ⊢
      obtain ⟨a3, hw3⟩ := wr_ok (cur (idx r1)) hpsz
      have h3 : ∀ j, j ≠ idx p → rd a3 j = rd a2 j := fun j hj => rd_wr_ne hw3 hj
      refine ⟨r2, a3, by simp [hw3], suffix_of_child hs2, hl2, ?_, by rw [wr_size hw3, hsz2, hsz1], frame a3 h3⟩
      simp only [Valid]
      exact ⟨cur (idx r1), true, rd_wr_same hw3, hio, keep2 a3 h3, keep1 a3 h3⟩

end TlxVerif.C09
