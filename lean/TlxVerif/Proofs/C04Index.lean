/-
C04 — `pre_to_levelorder` finds the in-order splitters in the level-order array: checked by
evaluation for the tree depths 1..10 (the default parameter set has TreeBits = 10).
-/
import TlxVerif.Proofs.C04Build
namespace TlxVerif.C04

theorem indexOk_1 : IndexOk 1 := by decide +kernel
theorem indexOk_2 : IndexOk 2 := by decide +kernel
theorem indexOk_3 : IndexOk 3 := by decide +kernel
theorem indexOk_4 : IndexOk 4 := by decide +kernel
theorem indexOk_5 : IndexOk 5 := by decide +kernel
theorem indexOk_6 : IndexOk 6 := by decide +kernel
theorem indexOk_7 : IndexOk 7 := by decide +kernel
theorem indexOk_8 : IndexOk 8 := by decide +kernel
theorem indexOk_9 : IndexOk 9 := by decide +kernel
theorem indexOk_10 : IndexOk 10 := by decide +kernel

theorem indexOk_upto_10 (tb : Nat) (h1 : 1 ≤ tb) (h2 : tb ≤ 10) : IndexOk tb := by
  match tb, h1, h2 with
  | 1, _, _ => exact indexOk_1
  | 2, _, _ => exact indexOk_2
  | 3, _, _ => exact indexOk_3
  | 4, _, _ => exact indexOk_4
  | 5, _, _ => exact indexOk_5
  | 6, _, _ => exact indexOk_6
  | 7, _, _ => exact indexOk_7
  | 8, _, _ => exact indexOk_8
  | 9, _, _ => exact indexOk_9
  | 10, _, _ => exact indexOk_10

/-- **Classification with the real builder is monotone**: for sorted samples, the tree written by
`build` classifies keys monotonically — with the explicit splitter array for every tree depth,
with the index calculation (`SSClassifyTreeCalcUnrollInterleave`, the default) for depths up to 10. -/
theorem build_findBkt_lt {tb : Nat} {samples : Array Key} {c : Classifier} {useCalc : Bool} (htb : 1 ≤ tb)
    (hsz : 1 ≤ samples.size)
    (hsorted : ∀ (i j : Nat) (x y : Key), i ≤ j → samples[i]? = some x → samples[j]? = some y → x ≤ y)
    (hb : build tb samples = some c) (hcalc : useCalc = true → tb ≤ 10)
    {k k' : Key} {b b' : Nat} (h : c.findBkt useCalc k = some b) (h' : c.findBkt useCalc k' = some b')
    (hlt : b < b') : k < k' := by
  obtain ⟨htbc, hbst, hsort⟩ := build_isBST htb hsz hsorted hb
  rw [← htbc] at hbst
  refine findBkt_lt hbst hsort ?_ h h' hlt
  intro i hi
  unfold splOf
  cases useCalc with
  | true =>
    simp only [if_true]
    exact getSplitterCalc_eq hbst (by rw [htbc]; exact indexOk_upto_10 tb htb (hcalc rfl)) i hi
  | false => simp [Classifier.getSplitterArr]

end TlxVerif.C04
