/-
C04 — `pre_to_levelorder` finds the in-order splitters in the level-order array, for every
tree depth (uniform proof: the `r`-th node in order, `r = 2^t · odd`, sits `t` levels above the
leaves at position `r / 2^(t+1)` of its level).
-/
import TlxVerif.Proofs.C04Build
namespace TlxVerif.C04

/-- `ctz<uint32_t>(r)` -/
def tzn (r : Nat) : Nat := (BitVec.ofNat 32 r).ctz.toNat

theorem tzn_ge_iff {r : Nat} (h0 : 0 < r) (h32 : r < 2 ^ 32) (m : Nat) : m ≤ tzn r ↔ r % 2 ^ m = 0 := by
  unfold tzn
  have hx : BitVec.ofNat 32 r ≠ 0#32 := by
    intro e
    have := congrArg BitVec.toNat e
    simp only [BitVec.toNat_ofNat, BitVec.toNat_zero] at this
    rw [Nat.mod_eq_of_lt h32] at this; omega
  have htn : (BitVec.ofNat 32 r).toNat = r := by simp [Nat.mod_eq_of_lt h32]
  constructor
  · intro h
    apply Nat.eq_of_testBit_eq
    intro i
    rw [Nat.testBit_mod_two_pow, Nat.zero_testBit]
    by_cases hi : i < m
    · have : (BitVec.ofNat 32 r).getLsbD i = false := BitVec.getLsbD_false_of_lt_ctz (by omega)
      rw [← htn, BitVec.testBit_toNat, this]; simp
    · simp [hi]
  · intro h
    rcases Nat.lt_or_ge (BitVec.ofNat 32 r).ctz.toNat m with hlt | hge
    · exfalso
      have hb := BitVec.getLsbD_true_ctz_of_ne_zero hx
      have : (r % 2 ^ m).testBit (BitVec.ofNat 32 r).ctz.toNat = true := by
        rw [Nat.testBit_mod_two_pow]
        have e : r.testBit (BitVec.ofNat 32 r).ctz.toNat = (BitVec.ofNat 32 r).getLsbD (BitVec.ofNat 32 r).ctz.toNat := by
          rw [← BitVec.testBit_toNat, htn]
        rw [e, hb]; simp [hlt]
      rw [h, Nat.zero_testBit] at this; cases this
    · exact hge

theorem eq_of_le_iff {a b : Nat} (h : ∀ m, m ≤ a ↔ m ≤ b) : a = b := by
  have h1 := (h a).1 (Nat.le_refl _)
  have h2 := (h b).2 (Nat.le_refl _)
  omega

theorem pow_mod_pow_eq_zero_iff (F m : Nat) : 2 ^ F % 2 ^ m = 0 ↔ m ≤ F := by
  constructor
  · intro h
    rcases Nat.lt_or_ge F m with hlt | hge
    · exfalso
      have : 2 ^ F < 2 ^ m := Nat.pow_lt_pow_right (by omega) hlt
      rw [Nat.mod_eq_of_lt this] at h
      have : 0 < 2 ^ F := Nat.pow_pos (by omega)
      omega
    · exact hge
  · intro h
    obtain ⟨k, rfl⟩ := Nat.exists_eq_add_of_le h
    rw [Nat.pow_add]; exact Nat.mul_mod_right _ _

theorem tzn_pow (F : Nat) (hF : F < 32) : tzn (2 ^ F) = F := by
  apply eq_of_le_iff
  intro m
  rw [tzn_ge_iff (Nat.pow_pos (by omega)) (Nat.pow_lt_pow_right (by omega) hF), pow_mod_pow_eq_zero_iff]

theorem tzn_lt {r F : Nat} (h0 : 0 < r) (hr : r < 2 ^ F) (hF : F ≤ 32) : tzn r < F := by
  have h32 : r < 2 ^ 32 := Nat.lt_of_lt_of_le hr (Nat.pow_le_pow_right (by omega) hF)
  rcases Nat.lt_or_ge (tzn r) F with h | h
  · exact h
  · exfalso
    have := (tzn_ge_iff h0 h32 F).1 h
    rw [Nat.mod_eq_of_lt hr] at this; omega

theorem tzn_add_pow {r F : Nat} (h0 : 0 < r) (hr : r < 2 ^ F) (hF : F < 32) : tzn (r + 2 ^ F) = tzn r := by
  have hlt := tzn_lt h0 hr (by omega)
  have h32 : r < 2 ^ 32 := Nat.lt_of_lt_of_le hr (Nat.pow_le_pow_right (by omega) (by omega))
  have h32' : r + 2 ^ F < 2 ^ 32 := by
    have : 2 ^ (F + 1) ≤ 2 ^ 32 := Nat.pow_le_pow_right (by omega) (by omega)
    rw [Nat.pow_succ] at this; omega
  have hpos : 0 < r + 2 ^ F := by omega
  have hlt' : tzn (r + 2 ^ F) < F + 1 := tzn_lt hpos (by rw [Nat.pow_succ]; omega) (by omega)
  apply eq_of_le_iff
  intro m
  rw [tzn_ge_iff hpos h32', tzn_ge_iff h0 h32]
  rcases Nat.lt_or_ge F m with hm | hm
  · -- neither number is divisible by 2^m (m > F)
    constructor
    · intro h
      have := (tzn_ge_iff hpos h32' m).2 h; omega
    · intro h
      have := (tzn_ge_iff h0 h32 m).2 h; omega
  · obtain ⟨k, rfl⟩ := Nat.exists_eq_add_of_le hm
    rw [Nat.pow_add, Nat.add_mul_mod_self_left]

/-- the level-order index of the `r`-th node in order (`1 ≤ r < 2^F`) of a subtree with `F`
levels rooted at `idx` -/
theorem levelIdx_formula : ∀ (F idx r : Nat), F ≤ 32 → 0 < r → r < 2 ^ F →
    levelIdx F idx (r - 1) = idx * 2 ^ (F - 1 - tzn r) + r / 2 ^ (tzn r + 1)
  | 0, _, r, _, h0, hr => by simp at hr; omega
  | F + 1, idx, r, hF, h0, hr => by
    have hposF : 0 < 2 ^ F := Nat.pow_pos (by omega)
    simp only [levelIdx]
    rcases Nat.lt_trichotomy r (2 ^ F) with hlt | heq | hgt
    · have h1 : r - 1 < 2 ^ F - 1 := by omega
      simp only [h1, if_true]
      rw [levelIdx_formula F (2 * idx) r (by omega) h0 hlt]
      have ht := tzn_lt h0 hlt (by omega)
      have e : 2 ^ (F + 1 - 1 - tzn r) = 2 ^ (F - 1 - tzn r) * 2 := by
        have : F + 1 - 1 - tzn r = (F - 1 - tzn r) + 1 := by omega
        rw [this, Nat.pow_succ]
      have : 2 * idx * 2 ^ (F - 1 - tzn r) = idx * (2 ^ (F - 1 - tzn r) * 2) := by
        rw [Nat.mul_comm 2 idx, Nat.mul_assoc, Nat.mul_comm 2]
      rw [e, this]
    · subst heq
      have h1 : ¬ (2 ^ F - 1 < 2 ^ F - 1) := by omega
      simp only [h1, if_false, if_true]
      rw [tzn_pow F (by omega)]
      have : 2 ^ F / 2 ^ (F + 1) = 0 := Nat.div_eq_of_lt (Nat.pow_lt_pow_right (by omega) (by omega))
      rw [this]; simp
    · have h1 : ¬ (r - 1 < 2 ^ F - 1) := by omega
      have h2 : ¬ (r - 1 = 2 ^ F - 1) := by omega
      simp only [h1, h2, if_false]
      rw [Nat.pow_succ] at hr
      have hr' : r - 2 ^ F < 2 ^ F := by omega
      have h0' : 0 < r - 2 ^ F := by omega
      have e1 : r - 1 - 2 ^ F = (r - 2 ^ F) - 1 := by omega
      rw [e1, levelIdx_formula F (2 * idx + 1) (r - 2 ^ F) (by omega) h0' hr']
      have ht : tzn r = tzn (r - 2 ^ F) := by
        have := tzn_add_pow h0' hr' (by omega)
        rw [← this]; congr 1; omega
      rw [← ht]
      have htl : tzn r < F := by rw [ht]; exact tzn_lt h0' hr' (by omega)
      -- r / 2^(t+1) = (r - 2^F) / 2^(t+1) + 2^(F-t-1)
      have e2 : r / 2 ^ (tzn r + 1) = (r - 2 ^ F) / 2 ^ (tzn r + 1) + 2 ^ (F - 1 - tzn r) := by
        have hsplit : 2 ^ F = 2 ^ (tzn r + 1) * 2 ^ (F - 1 - tzn r) := by
          rw [← Nat.pow_add]; congr 1; omega
        have hd := Nat.add_mul_div_left (r - 2 ^ F) (2 ^ (F - 1 - tzn r)) (Nat.pow_pos (by omega : 0 < 2) (n := tzn r + 1))
        have : r = (r - 2 ^ F) + 2 ^ (tzn r + 1) * 2 ^ (F - 1 - tzn r) := by rw [← hsplit]; omega
        rw [← this] at hd
        exact hd
      rw [e2]
      have e3 : 2 ^ (F + 1 - 1 - tzn r) = 2 ^ (F - 1 - tzn r) * 2 := by
        have : F + 1 - 1 - tzn r = (F - 1 - tzn r) + 1 := by omega
        rw [this, Nat.pow_succ]
      rw [e3, Nat.add_mul, Nat.one_mul]
      have : 2 * idx * 2 ^ (F - 1 - tzn r) = idx * (2 ^ (F - 1 - tzn r) * 2) := by
        rw [Nat.mul_comm 2 idx, Nat.mul_assoc, Nat.mul_comm 2]
      rw [this]; omega

/-- **`pre_to_levelorder(i + 1)` is the level-order index of the `i`-th in-order splitter**, for
every tree depth up to 31 (the classifier supports 1..15). -/
theorem indexOk (tb : Nat) (htb : tb ≤ 31) : IndexOk tb := by
  intro i hi
  unfold numSplitters at hi
  have hpos : 0 < 2 ^ tb := Nat.pow_pos (by omega)
  have hr : i + 1 < 2 ^ tb := by omega
  have := levelIdx_formula tb 1 (i + 1) (by omega) (by omega) hr
  simp only [Nat.add_sub_cancel, Nat.one_mul] at this
  rw [this]
  have ht := tzn_lt (by omega : 0 < i + 1) hr (by omega)
  unfold preToLevel
  show ((i + 1) >>> (tzn (i + 1) + 1) &&& numSplitters tb) ||| 1 <<< (tb - (tzn (i + 1) + 1)) = _
  rw [Nat.shiftRight_eq_div_pow]
  -- the quotient fits below the level bit
  have hq : (i + 1) / 2 ^ (tzn (i + 1) + 1) < 2 ^ (tb - (tzn (i + 1) + 1)) := by
    rw [Nat.div_lt_iff_lt_mul (Nat.pow_pos (by omega)), ← Nat.pow_add]
    have : tb - (tzn (i + 1) + 1) + (tzn (i + 1) + 1) = tb := by omega
    rw [this]; exact hr
  have hmask : (i + 1) / 2 ^ (tzn (i + 1) + 1) &&& numSplitters tb = (i + 1) / 2 ^ (tzn (i + 1) + 1) := by
    unfold numSplitters
    rw [Nat.and_two_pow_sub_one_eq_mod]
    apply Nat.mod_eq_of_lt
    exact Nat.lt_of_lt_of_le hq (Nat.pow_le_pow_right (by omega) (by omega))
  rw [hmask, Nat.or_comm, ← Nat.shiftLeft_add_eq_or_of_lt hq, Nat.shiftLeft_eq, Nat.one_mul]
  congr 2
  omega

/-- **Classification with the real builder is monotone**: for sorted samples, the tree written by
`build` classifies keys monotonically, with the explicit splitter array as well as with the index
calculation of `SSClassifyTreeCalcUnrollInterleave` (the default). -/
theorem build_findBkt_lt {tb : Nat} {samples : Array Key} {c : Classifier} {useCalc : Bool} (htb : 1 ≤ tb)
    (htb' : tb ≤ 31) (hsz : 1 ≤ samples.size)
    (hsorted : ∀ (i j : Nat) (x y : Key), i ≤ j → samples[i]? = some x → samples[j]? = some y → x ≤ y)
    (hb : build tb samples = some c)
    {k k' : Key} {b b' : Nat} (h : c.findBkt useCalc k = some b) (h' : c.findBkt useCalc k' = some b')
    (hlt : b < b') : k < k' := by
  obtain ⟨htbc, hbst, hsort⟩ := build_isBST htb hsz hsorted hb
  rw [← htbc] at hbst
  refine findBkt_lt hbst hsort ?_ h h' hlt
  intro i hi
  unfold splOf
  cases useCalc with
  | true =>
    simp only [if_true]
    exact getSplitterCalc_eq hbst (by rw [htbc]; exact indexOk tb htb') i hi
  | false => simp [Classifier.getSplitterArr]

end TlxVerif.C04
