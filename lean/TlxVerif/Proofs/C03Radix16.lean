/-
C03 — the 16-bit radix step, the in-place radix sorts (relative to the cycle-leader permutation)
and the adapters radixsort_CE2 / CE3 / CI2 / CI3 / sort_strings.
-/
import TlxVerif.Proofs.C03Border16
import TlxVerif.Proofs.C03Mkqs
namespace TlxVerif.C03

variable {α : Type} (str : α → Str)

/-! ### 16-bit keys -/

theorem key16_eq (s : Str) (d : Nat) :
    key16 s d = (charAt s d).toNat * 256 + (charAt s (d + 1)).toNat := by
  rw [charAt_eq_head_drop, charAt_eq_head_drop, ← List.drop_drop]
  unfold key16
  cases hs : s.drop d with
  | nil => simp
  | cons c rest =>
    cases rest with
    | nil => simp [Nat.shiftLeft_eq]
    | cons c2 rest2 =>
      simp only [List.headD_cons, List.drop_succ_cons, List.drop_zero]
      have h2 : c2.toNat < 2 ^ 8 := UInt8.toNat_lt c2
      rw [← Nat.shiftLeft_add_eq_or_of_lt h2, Nat.shiftLeft_eq]

theorem key16_lt (s : Str) (d : Nat) : key16 s d < 65536 := by
  rw [key16_eq]
  have := UInt8.toNat_lt (charAt s d)
  have := UInt8.toNat_lt (charAt s (d + 1))
  omega

theorem key16_parts (s : Str) (d k : Nat) (h : key16 s d = k) :
    (charAt s d).toNat = k / 256 ∧ (charAt s (d + 1)).toNat = k % 256 := by
  rw [key16_eq] at h
  have := UInt8.toNat_lt (charAt s (d + 1))
  omega

theorem charAt_succ_zero (s : Str) (hs : (0 : UInt8) ∉ s) (d : Nat) (h : charAt s d = 0) :
    charAt s (d + 1) = 0 := by
  rw [charAt_eq_zero_iff s hs] at h ⊢
  omega

theorem shr8 (k : Nat) : k >>> 8 = k / 256 := by
  rw [Nat.shiftRight_eq_div_pow]

theorem and255 (k : Nat) : k &&& 0xFF = k % 256 := by
  have : (0xFF : Nat) = 2 ^ 8 - 1 := by decide
  rw [this, Nat.and_two_pow_sub_one_eq_mod]

/-- order and LCP between two different 16-bit buckets -/
theorem key16_cross (d : Nat) (x y : α) (i j : Nat) (hx : (0 : UInt8) ∉ str x) (hy : (0 : UInt8) ∉ str y)
    (hcp : d ≤ lcp (str x) (str y)) (hi : key16 (str x) d = i) (hj : key16 (str y) d = j) (hij : i < j) :
    str x ≤ str y ∧ lcp (str x) (str y) = d + flag16 i j := by
  obtain ⟨xi, xl⟩ := key16_parts _ _ _ hi
  obtain ⟨yi, yl⟩ := key16_parts _ _ _ hj
  by_cases hh : i / 256 = j / 256
  · -- same first byte
    have hflag : flag16 i j = 1 := by simp [flag16, shr8, hh]
    have heq : charAt (str x) d = charAt (str y) d := UInt8.toNat_inj.mp (by omega)
    have hne : charAt (str x) d ≠ 0 := by
      intro e
      have e2 : charAt (str y) d = 0 := by rw [← heq]; exact e
      have e3 := charAt_succ_zero _ hx d e
      have e4 := charAt_succ_zero _ hy d e2
      have z : (0 : UInt8).toNat = 0 := rfl
      rw [e, z] at xi
      rw [e3, z] at xl
      rw [e2, z] at yi
      rw [e4, z] at yl
      omega
    have h1 := charAt_eq_imp d _ _ hcp heq hne hx hy
    have := charAt_lt_imp (d + 1) _ _ hy h1 (by rw [UInt8.lt_iff_toNat_lt]; omega)
    rw [hflag]; exact this
  · have hflag : flag16 i j = 0 := by simp [flag16, shr8, hh]
    have := charAt_lt_imp d _ _ hy hcp (by rw [UInt8.lt_iff_toNat_lt]; omega)
    rw [hflag]; exact this

/-- strings of a bucket `(c, 0)`, `c ≠ 0`, are equal with LCP `d + 1` -/
theorem bucket16_term (d j : Nat) (b : List α) (hj : 1 ≤ j) (hj0 : j % 256 = 0)
    (hcp : CommonPrefix str d b) (hn : NulFree str b) (hk : ∀ y ∈ b, key16 (str y) d = j) :
    ∀ x ∈ b, ∀ y ∈ b, str x = str y ∧ lcp (str x) (str y) = d + 1 := by
  intro x hx y hy
  obtain ⟨xi, xl⟩ := key16_parts _ _ _ (hk x hx)
  obtain ⟨yi, yl⟩ := key16_parts _ _ _ (hk y hy)
  have heq : charAt (str x) d = charAt (str y) d := UInt8.toNat_inj.mp (by omega)
  have hne : charAt (str x) d ≠ 0 := by
    intro e
    have : (charAt (str x) d).toNat = 0 := by rw [e]; rfl
    omega
  have h1 := charAt_eq_imp d _ _ (hcp x hx y hy) heq hne (hn x hx) (hn y hy)
  exact charAt_zero_imp (d + 1) _ _ h1 (UInt8.toNat_inj.mp (by simpa using (by omega : (charAt (str x) (d + 1)).toNat = 0)))
    (UInt8.toNat_inj.mp (by simpa using (by omega : (charAt (str y) (d + 1)).toNat = 0))) (hn x hx) (hn y hy)

/-- strings of any other bucket share `d + 2` characters -/
theorem bucket16_deeper (d j : Nat) (b : List α) (hj0 : j % 256 ≠ 0)
    (hcp : CommonPrefix str d b) (hn : NulFree str b) (hk : ∀ y ∈ b, key16 (str y) d = j) :
    CommonPrefix str (d + 2) b := by
  intro x hx y hy
  obtain ⟨xi, xl⟩ := key16_parts _ _ _ (hk x hx)
  obtain ⟨yi, yl⟩ := key16_parts _ _ _ (hk y hy)
  have heq : charAt (str x) d = charAt (str y) d := UInt8.toNat_inj.mp (by omega)
  have hne : charAt (str x) d ≠ 0 := by
    intro e
    have := charAt_succ_zero _ (hn x hx) d e
    have : (charAt (str x) (d + 1)).toNat = 0 := by rw [this]; rfl
    omega
  have h1 := charAt_eq_imp d _ _ (hcp x hx y hy) heq hne (hn x hx) (hn y hy)
  have heq2 : charAt (str x) (d + 1) = charAt (str y) (d + 1) := UInt8.toNat_inj.mp (by omega)
  have hne2 : charAt (str x) (d + 1) ≠ 0 := by
    intro e
    have : (charAt (str x) (d + 1)).toNat = 0 := by rw [e]; rfl
    omega
  exact charAt_eq_imp (d + 1) _ _ h1 heq2 hne2 (hn x hx) (hn y hy)

theorem key16_zero_iff (s : Str) (hs : (0 : UInt8) ∉ s) (d : Nat) : key16 s d = 0 ↔ charAt s d = 0 := by
  constructor
  · intro h
    obtain ⟨h1, _⟩ := key16_parts s d 0 h
    exact UInt8.toNat_inj.mp (by simpa using h1)
  · intro h
    rw [key16_eq, h, charAt_succ_zero s hs d h]
    rfl

/-! ### indexed blocks -/

def mkBlksI (f : Nat → List α → List Nat → List α × List Nat) :
    Nat → List (List α) → List (List Nat) → List (Nat × Blk α)
  | k, b :: bs, v :: vs => (k, ⟨b, v, f k b v⟩) :: mkBlksI f (k + 1) bs vs
  | _, _, _ => []

theorem mkBlksI_snd (f : Nat → List α → List Nat → List α × List Nat) (k : Nat)
    (bs : List (List α)) (vs : List (List Nat)) :
    (mkBlksI f k bs vs).map Prod.snd = mkBlks f k bs vs := by
  induction bs generalizing k vs with
  | nil => simp [mkBlksI, mkBlks]
  | cons b bs ih =>
    cases vs with
    | nil => simp [mkBlksI, mkBlks]
    | cons v vs => simp [mkBlksI, mkBlks, ih]

theorem mem_mkBlksI (f : Nat → List α → List Nat → List α × List Nat) (k : Nat)
    (bs : List (List α)) (vs : List (List Nat)) (kt : Nat × Blk α) (h : kt ∈ mkBlksI f k bs vs) :
    ∃ j, kt.1 = k + j ∧ bs[j]? = some kt.2.b ∧ vs[j]? = some kt.2.v ∧ kt.2.r = f (k + j) kt.2.b kt.2.v := by
  induction bs generalizing k vs with
  | nil => simp [mkBlksI] at h
  | cons b bs ih =>
    cases vs with
    | nil => simp [mkBlksI] at h
    | cons v vs =>
      simp only [mkBlksI, List.mem_cons] at h
      rcases h with e | h
      · subst e; exact ⟨0, by simp⟩
      · obtain ⟨j, h0, h1, h2, h3⟩ := ih (k + 1) vs h
        exact ⟨j + 1, by omega, by simpa using h1, by simpa using h2, by rw [h3]; congr 1; omega⟩

theorem mkBlksI_pairwise (f : Nat → List α → List Nat → List α × List Nat) (k : Nat)
    (bs : List (List α)) (vs : List (List Nat)) (R' : Nat → List α → Nat → List α → Prop)
    (h : ∀ i j bi bj, i < j → bs[i]? = some bi → bs[j]? = some bj → R' (k + i) bi (k + j) bj) :
    (mkBlksI f k bs vs).Pairwise fun t1 t2 => R' t1.1 t1.2.b t2.1 t2.2.b := by
  induction bs generalizing k vs with
  | nil => simp [mkBlksI]
  | cons b bs ih =>
    cases vs with
    | nil => simp [mkBlksI]
    | cons v vs =>
      simp only [mkBlksI, List.pairwise_cons]
      constructor
      · intro kt hkt
        obtain ⟨j, h0, h1, _, _⟩ := mem_mkBlksI f (k + 1) bs vs kt hkt
        have := h 0 (j + 1) b kt.2.b (by omega) (by simp) (by simpa using h1)
        rw [h0]
        have e : k + 1 + j = k + (j + 1) := by omega
        rw [e]
        simpa using this
      · apply ih (k + 1) vs
        intro i j bi bj hij hi hj
        have := h (i + 1) (j + 1) bi bj (by omega) (by simpa using hi) (by simpa using hj)
        have e1 : k + 1 + i = k + (i + 1) := by omega
        have e2 : k + 1 + j = k + (j + 1) := by omega
        rw [e1, e2]; exact this

theorem mkBlksI_marked (f : Nat → List α → List Nat → List α × List Nat) (d : Nat) (prev : Option Nat) (k : Nat)
    (bs : List (List α)) (vs : List (List Nat)) (hm : ChunksMarked d prev k (bs.map List.length) vs) :
    HeadsMarkedF (fun i k => d + flag16 i k) prev (mkBlksI f k bs vs) := by
  induction bs generalizing prev k vs with
  | nil => simp [mkBlksI, HeadsMarkedF]
  | cons b bs ih =>
    cases vs with
    | nil => simp [ChunksMarked] at hm
    | cons v vs =>
      simp only [List.map_cons, ChunksMarked] at hm
      simp only [mkBlksI, HeadsMarkedF]
      exact ⟨hm.1, ih _ (k + 1) vs hm.2⟩

/-! ### one 16-bit step -/

/-- **16-bit radix step.** -/
theorem step16_spec (wl : Bool) (d : Nat) (ss : List α) (l : List Nat) (bsL : List (List α))
    (f : Nat → List α → List Nat → List α × List Nat)
    (hperm : bsL.flatten.Perm ss)
    (hne : bsL ≠ [])
    (hkey : ∀ j b, bsL[j]? = some b → ∀ y ∈ b, key16 (str y) d = j)
    (hpre : Pre str wl d ss l)
    (hf0 : ∀ b v, f 0 b v = (b, v))
    (hfz : ∀ j b v, 1 ≤ j → j % 256 = 0 → bsL[j]? = some b → (wl = true → v.length = b.length) →
      (∀ x ∈ b, ∀ y ∈ b, str x = str y ∧ lcp (str x) (str y) = d + 1) → SortSpec str wl b v (f j b v))
    (hf : ∀ j b v, 1 ≤ j → j % 256 ≠ 0 → bsL[j]? = some b → Pre str wl (d + 2) b v →
      SortSpec str wl b v (f j b v)) :
    SortSpec str wl ss l
      (mapBuckets bsL (splitBy (bsL.map List.length)
        (if wl then stepLcp16 (bsL.map List.length) d l else l)) f) := by
  obtain ⟨hcp, hnf, hll⟩ := hpre
  rw [mapBuckets_eq]
  generalize hvs : splitBy (bsL.map List.length) (if wl then stepLcp16 (bsL.map List.length) d l else l) = vs
  have hvlen : bsL.length = vs.length := by rw [← hvs, splitBy_length]; simp
  obtain ⟨hB, hV⟩ := mkBlks_b f 0 bsL vs hvlen
  rw [← mkBlksI_snd] at hB hV ⊢
  generalize htl : mkBlksI f 0 bsL vs = tl at hB hV
  have hsum : (bsL.map List.length).sum = ss.length := by
    rw [← flatten_length_sum]; exact hperm.length_eq
  have hmemss : ∀ j b, bsL[j]? = some b → ∀ y ∈ b, y ∈ ss := fun j b hb y hy =>
    hperm.mem_iff.mp (List.mem_flatten.mpr ⟨b, List.mem_of_getElem? hb, hy⟩)
  have hviews : wl = true →
      vs.map List.length = bsL.map List.length ∧ vs.flatten.take 1 = l.take 1 ∧
      ChunksMarked d none 0 (bsL.map List.length) vs ∧
      (∀ v0, vs[0]? = some v0 → ∀ b0, bsL[0]? = some b0 → v0 = v0.take 1 ++ List.replicate (b0.length - 1) d) := by
    intro hw
    have hl := hll hw
    subst hw
    simp only [if_true] at hvs
    cases hbs : bsL with
    | nil => exact absurd hbs hne
    | cons b0 brest =>
      rw [hbs] at hvs hsum
      simp only [List.map_cons] at hvs hsum ⊢
      obtain ⟨tail, h1, h2, h3, h4⟩ := stepLcp16_chunks b0.length (brest.map List.length) d l (by rw [hl]; exact hsum.symm)
      rw [h1] at hvs
      subst hvs
      refine ⟨?_, ?_, ?_, ?_⟩
      · rw [← h1, splitBy_map_length]
        rw [h3, hl]; exact Nat.le_of_eq hsum
      · rw [← h1, splitBy_flatten _ _ (by rw [h3, hl]; exact Nat.le_of_eq hsum.symm), h4]
      · simp only [ChunksMarked]
        exact ⟨by simp, by simpa using h2⟩
      · intro v0 hv0 b0' hb0'
        simp only [List.getElem?_cons_zero, Option.some.injEq] at hv0 hb0'
        subst hv0; subst hb0'
        cases hb0 : b0.length with
        | zero => simp
        | succ m =>
          have : ((l.take (m + 1)).take 1).length ≤ 1 := by simp; omega
          cases hq : (l.take (m + 1)).take 1 with
          | nil =>
            exfalso
            have h5 : l = [] := by
              cases l with
              | nil => rfl
              | cons a as => simp at hq
            subst h5
            simp only [List.length_nil] at hl
            simp only [List.sum_cons] at hsum
            omega
          | cons a as =>
            have : as = [] := by
              rw [hq] at this
              simpa using this
            subst this
            simp
  have hok : ∀ kt ∈ tl, BlkOk str wl kt.2 := by
    intro kt hkt
    rw [← htl] at hkt
    obtain ⟨j, hj0', hj1, hj2, hj3⟩ := mem_mkBlksI f 0 bsL vs kt hkt
    obtain ⟨k, t⟩ := kt
    simp only at hj0' hj1 hj2 hj3 ⊢
    have hvl : wl = true → t.v.length = t.b.length := by
      intro hw
      have := (hviews hw).1
      have e1 : (vs.map List.length)[j]? = some t.v.length := by simp [hj2]
      have e2 : (bsL.map List.length)[j]? = some t.b.length := by simp [hj1]
      rw [this, e2] at e1
      simpa using e1.symm
    refine ⟨?_, hvl⟩
    have hbcp : CommonPrefix str d t.b := CommonPrefix.mono str hcp (hmemss j t.b hj1)
    have hbnf : NulFree str t.b := fun y hy => hnf y (hmemss j t.b hj1 y hy)
    rw [hj3]
    by_cases hj0 : j = 0
    · subst hj0
      simp only [Nat.add_zero, hf0]
      apply sortSpec_id_equal str wl d t.b t.v
      · intro x hx y hy
        exact charAt_zero_imp d _ _ (hbcp x hx y hy)
          ((key16_zero_iff _ (hbnf x hx) d).mp (hkey 0 t.b hj1 x hx))
          ((key16_zero_iff _ (hbnf y hy) d).mp (hkey 0 t.b hj1 y hy)) (hbnf x hx) (hbnf y hy)
      · intro hw
        exact (hviews hw).2.2.2 t.v hj2 t.b hj1
    · simp only [Nat.zero_add]
      by_cases hz : j % 256 = 0
      · exact hfz j t.b t.v (by omega) hz hj1 hvl
          (bucket16_term str d j t.b (by omega) hz hbcp hbnf (hkey j t.b hj1))
      · exact hf j t.b t.v (by omega) hz hj1
          ⟨bucket16_deeper str d j t.b hz hbcp hbnf (hkey j t.b hj1), hbnf, hvl⟩
  have hcross : tl.Pairwise fun t1 t2 =>
      ∀ x ∈ t1.2.b, ∀ y ∈ t2.2.b, str x ≤ str y ∧ lcp (str x) (str y) = d + flag16 t1.1 t2.1 := by
    rw [← htl]
    apply mkBlksI_pairwise f 0 bsL vs
      (fun i bi j bj => ∀ x ∈ bi, ∀ y ∈ bj, str x ≤ str y ∧ lcp (str x) (str y) = d + flag16 i j)
    intro i j bi bj hij hi hj x hx y hy
    simp only [Nat.zero_add]
    exact key16_cross str d x y i j (hnf x (hmemss i bi hi x hx)) (hnf y (hmemss j bj hj y hy))
      (hcp x (hmemss i bi hi x hx) y (hmemss j bj hj y hy)) (hkey i bi hi x hx) (hkey j bj hj y hy) hij
  have hm : wl = true → HeadsMarkedF (fun i k => d + flag16 i k) none tl := by
    intro hw
    rw [← htl]
    exact mkBlksI_marked f d none 0 bsL vs (hviews hw).2.2.1
  have hfin := blocks_specF str wl (fun i k => d + flag16 i k) tl hok hcross hm
  have eb : ((tl.map Prod.snd).flatMap fun t => t.b) = bsL.flatten := by
    rw [← hB, List.flatMap_def]
  have ev : ((tl.map Prod.snd).flatMap fun t => t.v) = vs.flatten := by
    rw [← hV, List.flatMap_def]
  obtain ⟨f1, f2, f3⟩ := hfin
  refine ⟨f1.trans (by rw [eb]; exact hperm), f2, ?_⟩
  intro hw
  rw [f3 hw, ev, (hviews hw).2.1]

end TlxVerif.C03
