import TlxVerif.Model.C13Radix
/-! The two-level `BitArray` of the radix heap: `find_lsb` is the least set index. -/
namespace TlxVerif.C13

theorem find_range' (p : Nat → Bool) (s n i : Nat) :
    (List.range' s n).find? p = some i ↔ s ≤ i ∧ i < s + n ∧ p i = true ∧ ∀ j, s ≤ j → j < i → p j = false := by
  induction n generalizing s with
  | zero =>
    simp only [List.range'_zero, List.find?_nil, Nat.add_zero]
    constructor
    · intro h; cases h
    · rintro ⟨h1, h2, _⟩; omega
  | succ n ih =>
    rw [List.range'_succ, List.find?_cons]
    cases hp : p s with
    | true =>
      simp only [Option.some.injEq]
      constructor
      · rintro rfl; exact ⟨Nat.le_refl _, by omega, hp, fun j h1 h2 => by omega⟩
      · rintro ⟨h1, _, _, h4⟩
        by_cases e : s = i
        · exact e
        · have := h4 s (Nat.le_refl _) (by omega); simp [hp] at this
    | false =>
      simp only
      rw [ih (s + 1)]
      constructor
      · rintro ⟨h1, h2, h3, h4⟩
        refine ⟨by omega, by omega, h3, fun j hj1 hj2 => ?_⟩
        by_cases e : j = s
        · subst e; exact hp
        · exact h4 j (by omega) hj2
      · rintro ⟨h1, h2, h3, h4⟩
        have : s ≠ i := by intro e; subst e; simp [hp] at h3
        exact ⟨by omega, by omega, h3, fun j hj1 hj2 => h4 j (by omega) hj2⟩

theorem findLsbWord_some (x : BitVec 64) (i : Nat) :
    findLsbWord x = some i ↔ i < 64 ∧ x.getLsbD i = true ∧ ∀ j, j < i → x.getLsbD j = false := by
  unfold findLsbWord
  rw [List.range_eq_range', find_range']
  simp

theorem findLsbWord_none (x : BitVec 64) : findLsbWord x = none ↔ x = 0 := by
  unfold findLsbWord
  rw [List.find?_eq_none]
  constructor
  · intro h
    apply BitVec.eq_of_getLsbD_eq
    intro i hi
    have := h i (by simpa using hi)
    simpa using this
  · rintro rfl; simp

theorem getLsbD_setBitWord (x : BitVec 64) (i j : Nat) :
    (setBitWord x i).getLsbD j = (x.getLsbD j || (decide (j < 64) && decide (j = i))) := by
  unfold setBitWord
  rw [BitVec.getLsbD_or, ← BitVec.twoPow_eq, BitVec.getLsbD_twoPow]
  by_cases h : i = j
  · subst h; by_cases h2 : i < 64 <;> simp [h2]
  · have : ¬ j = i := fun e => h e.symm
    simp [h, this]

theorem getLsbD_clearBitWord (x : BitVec 64) (i j : Nat) :
    (clearBitWord x i).getLsbD j = (x.getLsbD j && !(decide (j = i))) := by
  unfold clearBitWord
  rw [BitVec.getLsbD_and, BitVec.getLsbD_not, ← BitVec.twoPow_eq, BitVec.getLsbD_twoPow]
  by_cases hj : j < 64
  · by_cases h : i = j
    · subst h; simp [hj]
    · have : ¬ j = i := fun e => h e.symm
      simp [h, this, hj]
  · have : x.getLsbD j = false := BitVec.getLsbD_of_ge x j (by omega)
    simp [this]

theorem word_ne_zero_iff (x : BitVec 64) : x ≠ 0 ↔ ∃ i, i < 64 ∧ x.getLsbD i = true := by
  constructor
  · intro h
    cases hf : findLsbWord x with
    | none => exact absurd ((findLsbWord_none x).mp hf) h
    | some i => obtain ⟨h1, h2, _⟩ := (findLsbWord_some x i).mp hf; exact ⟨i, h1, h2⟩
  · rintro ⟨i, _, hi⟩ rfl; simp at hi

/-- well-formed bit array: the root bit of a child word is set exactly when the word is non-zero -/
structure BitArr.WF (b : BitArr) : Prop where
  small : b.nb ≤ 4096
  kids_size : b.kids.size = (b.nb + 63) / 64
  root_ok : ∀ ci (h : ci < b.kids.size), b.root.getLsbD ci = decide (b.kids[ci] ≠ 0)
  root_hi : ∀ ci, b.kids.size ≤ ci → b.root.getLsbD ci = false

theorem BitArr.mk'_wf (nb : Nat) (h : nb ≤ 4096) : (BitArr.mk' nb).WF := by
  refine ⟨h, by simp [BitArr.mk'], ?_, ?_⟩
  · intro ci hc; simp [BitArr.mk']
  · intro ci _; simp [BitArr.mk']

theorem BitArr.mk'_isSet (nb i : Nat) : (BitArr.mk' nb).isSet i = false := by
  unfold BitArr.isSet BitArr.mk'
  simp only
  cases h : (Array.replicate ((nb + 63) / 64) (0 : BitVec 64))[i / 64]? with
  | none => rfl
  | some k =>
    rw [Array.getElem?_replicate] at h
    split at h
    · cases h; simp
    · cases h

theorem BitArr.kids_lt (b : BitArr) (hwf : b.WF) (i : Nat) (hi : i < b.nb) : i / 64 < b.kids.size := by
  rw [hwf.kids_size]
  omega

theorem kids_setIfInBounds_ne_zero (kids : Array (BitVec 64)) (i : Nat) (w : BitVec 64) (ci : Nat)
    (hc : ci < kids.size) (hne : i ≠ ci) :
    (kids.setIfInBounds i w)[ci]'(by simpa using hc) = kids[ci] := by
  rw [Array.getElem_setIfInBounds]
  · simp [hne]
  · exact hc

theorem BitArr.setBit_spec (b : BitArr) (hwf : b.WF) (i : Nat) (hi : i < b.nb) :
    ∃ b', b.setBit i = some b' ∧ b'.WF ∧ b'.nb = b.nb ∧ ∀ j, b'.isSet j = (b.isSet j || decide (j = i)) := by
  have hk := b.kids_lt hwf i hi
  have hsmall := hwf.small
  have hks : b.kids.size ≤ 64 := by rw [hwf.kids_size]; omega
  have hq : i / 64 < 64 := by omega
  have hr : i % 64 < 64 := Nat.mod_lt _ (by decide)
  have hbit : (setBitWord b.kids[i / 64] (i % 64)).getLsbD (i % 64) = true := by
    rw [getLsbD_setBitWord]; simp [hr]
  have hne : setBitWord b.kids[i / 64] (i % 64) ≠ 0#64 := by
    intro e; rw [e] at hbit; simp at hbit
  refine ⟨⟨b.nb, setBitWord b.root (i / 64), b.kids.setIfInBounds (i / 64) (setBitWord b.kids[i / 64] (i % 64))⟩,
    ?_, ⟨hwf.small, by simp [hwf.kids_size], ?_, ?_⟩, rfl, ?_⟩
  · unfold BitArr.setBit
    simp only [hi, if_true, Array.getElem?_eq_getElem hk, Array.set!_eq_setIfInBounds]
  · intro ci hc
    have hc' : ci < b.kids.size := by simpa using hc
    show (setBitWord b.root (i / 64)).getLsbD ci = decide ((b.kids.setIfInBounds (i / 64) _)[ci] ≠ 0)
    rw [getLsbD_setBitWord]
    by_cases e : i / 64 = ci
    · subst e
      have : (b.kids.setIfInBounds (i / 64) (setBitWord b.kids[i / 64] (i % 64)))[i / 64] =
          setBitWord b.kids[i / 64] (i % 64) := by simp [Array.getElem_setIfInBounds]
      rw [this]
      simp [hne, hq]
    · have hne' : ¬ ci = i / 64 := fun e' => e e'.symm
      rw [kids_setIfInBounds_ne_zero _ _ _ _ hc' e, hwf.root_ok ci hc']
      simp [hne']
  · intro ci hc
    have hc' : b.kids.size ≤ ci := by simpa using hc
    show (setBitWord b.root (i / 64)).getLsbD ci = false
    rw [getLsbD_setBitWord, hwf.root_hi ci hc']
    have : ¬ ci = i / 64 := by omega
    simp [this]
  · intro j
    show (match (b.kids.setIfInBounds (i / 64) (setBitWord b.kids[i / 64] (i % 64)))[j / 64]? with
          | some k => k.getLsbD (j % 64) | none => false) = (b.isSet j || decide (j = i))
    unfold BitArr.isSet
    rw [Array.getElem?_setIfInBounds]
    by_cases e : i / 64 = j / 64
    · have hk' : j / 64 < b.kids.size := by rw [← e]; exact hk
      simp only [e, if_true, hk', Array.getElem?_eq_getElem hk']
      rw [getLsbD_setBitWord]
      have h64 : j % 64 < 64 := Nat.mod_lt _ (by decide)
      have : (decide (j % 64 < 64) && decide (j % 64 = i % 64)) = decide (j = i) := by
        simp only [h64, decide_true, Bool.true_and]
        rw [decide_eq_decide]; omega
      rw [this]
    · have : ¬ j = i := by intro e'; subst e'; exact e rfl
      simp [e, this]
      rfl

theorem BitArr.clearBit_spec (b : BitArr) (hwf : b.WF) (i : Nat) (hi : i < b.nb) :
    ∃ b', b.clearBit i = some b' ∧ b'.WF ∧ b'.nb = b.nb ∧ ∀ j, b'.isSet j = (b.isSet j && !decide (j = i)) := by
  have hk := b.kids_lt hwf i hi
  have hks : b.kids.size ≤ 64 := by rw [hwf.kids_size]; have := hwf.small; omega
  have hq : i / 64 < 64 := by omega
  generalize hk'def : clearBitWord b.kids[i / 64] (i % 64) = k'
  refine ⟨⟨b.nb, if k' = 0 then clearBitWord b.root (i / 64) else b.root, b.kids.setIfInBounds (i / 64) k'⟩,
    ?_, ⟨hwf.small, by simp [hwf.kids_size], ?_, ?_⟩, rfl, ?_⟩
  · unfold BitArr.clearBit
    simp only [hi, if_true, Array.getElem?_eq_getElem hk, Array.set!_eq_setIfInBounds, hk'def]
  · intro ci hc
    have hc' : ci < b.kids.size := by simpa using hc
    show (if k' = 0 then clearBitWord b.root (i / 64) else b.root).getLsbD ci =
      decide ((b.kids.setIfInBounds (i / 64) k')[ci] ≠ 0)
    by_cases e : i / 64 = ci
    · subst e
      have : (b.kids.setIfInBounds (i / 64) k')[i / 64] = k' := by simp [Array.getElem_setIfInBounds]
      rw [this]
      by_cases hz : k' = 0
      · rw [if_pos hz, getLsbD_clearBitWord]; simp [hz]
      · rw [if_neg hz, hwf.root_ok _ hk]
        have hnz : b.kids[i / 64] ≠ 0 := by
          intro e0; apply hz; rw [← hk'def, e0]; simp [clearBitWord]
        have hz' : ¬ k' = 0#64 := hz
        have hnz' : ¬ b.kids[i / 64] = 0#64 := hnz
        simp [hz', hnz']
    · have hne' : ¬ ci = i / 64 := fun e' => e e'.symm
      rw [kids_setIfInBounds_ne_zero _ _ _ _ hc' e]
      by_cases hz : k' = 0
      · rw [if_pos hz, getLsbD_clearBitWord, hwf.root_ok ci hc']; simp [hne']
      · rw [if_neg hz, hwf.root_ok ci hc']
  · intro ci hc
    have hc' : b.kids.size ≤ ci := by simpa using hc
    show (if k' = 0 then clearBitWord b.root (i / 64) else b.root).getLsbD ci = false
    by_cases hz : k' = 0
    · rw [if_pos hz, getLsbD_clearBitWord, hwf.root_hi ci hc']; simp
    · rw [if_neg hz, hwf.root_hi ci hc']
  · intro j
    show (match (b.kids.setIfInBounds (i / 64) k')[j / 64]? with
          | some k => k.getLsbD (j % 64) | none => false) = (b.isSet j && !decide (j = i))
    unfold BitArr.isSet
    rw [Array.getElem?_setIfInBounds]
    by_cases e : i / 64 = j / 64
    · have hkj : j / 64 < b.kids.size := by rw [← e]; exact hk
      simp only [e, if_true, hkj, Array.getElem?_eq_getElem hkj]
      rw [← hk'def, getLsbD_clearBitWord]
      have : decide (j % 64 = i % 64) = decide (j = i) := by rw [decide_eq_decide]; omega
      rw [this]
      first | rfl | (congr 2; simp [e])
    · have : ¬ j = i := by intro e'; subst e'; exact e rfl
      simp [e, this]
      rfl

/-- **`find_lsb()` is the least set index** -/
theorem BitArr.findLsb_spec (b : BitArr) (hwf : b.WF) (i : Nat) :
    b.findLsb = some i ↔ b.isSet i = true ∧ ∀ j, j < i → b.isSet j = false := by
  have hks : b.kids.size ≤ 64 := by rw [hwf.kids_size]; have := hwf.small; omega
  unfold BitArr.findLsb
  constructor
  · intro h
    simp only [Option.bind_eq_bind] at h
    cases hr : findLsbWord b.root with
    | none => simp [hr] at h
    | some ci =>
      obtain ⟨r1, r2, r3⟩ := (findLsbWord_some _ _).mp hr
      have hci : ci < b.kids.size := by
        by_cases hlt : ci < b.kids.size
        · exact hlt
        · rw [hwf.root_hi ci (by omega)] at r2; cases r2
      simp only [hr, Option.bind_some, Array.getElem?_eq_getElem hci] at h
      cases hc : findLsbWord b.kids[ci] with
      | none => simp [hc] at h
      | some cv =>
        obtain ⟨c1, c2, c3⟩ := (findLsbWord_some _ _).mp hc
        simp only [hc, Option.bind_some, Option.pure_def, Option.some.injEq] at h
        subst h
        have e1 : (ci * 64 + cv) / 64 = ci := by omega
        have e2 : (ci * 64 + cv) % 64 = cv := by omega
        refine ⟨by simp [BitArr.isSet, e1, e2, Array.getElem?_eq_getElem hci, c2], ?_⟩
        intro j hj
        unfold BitArr.isSet
        by_cases hjc : j / 64 = ci
        · have : j % 64 < cv := by omega
          simp [hjc, Array.getElem?_eq_getElem hci, c3 _ this]
        · have hlt : j / 64 < ci := by omega
          have hjk : j / 64 < b.kids.size := by omega
          have := r3 _ hlt
          rw [hwf.root_ok _ hjk] at this
          have hz : b.kids[j / 64] = 0 := by simpa using this
          simp [Array.getElem?_eq_getElem hjk, hz]
  · rintro ⟨h1, h2⟩
    unfold BitArr.isSet at h1
    cases hk : b.kids[i / 64]? with
    | none => simp [hk] at h1
    | some k =>
      simp only [hk] at h1
      have hci : i / 64 < b.kids.size := by
        by_cases hlt : i / 64 < b.kids.size
        · exact hlt
        · rw [Array.getElem?_eq_none (by omega)] at hk; cases hk
      have hkk : b.kids[i / 64] = k := by
        rw [Array.getElem?_eq_getElem hci] at hk; exact Option.some.inj hk
      have hnz : k ≠ 0 := (word_ne_zero_iff k).mpr ⟨i % 64, Nat.mod_lt _ (by decide), h1⟩
      have hroot : findLsbWord b.root = some (i / 64) := by
        rw [findLsbWord_some]
        refine ⟨by omega, by rw [hwf.root_ok _ hci, hkk]; exact decide_eq_true hnz, ?_⟩
        intro c hc
        by_cases hck : c < b.kids.size
        · rw [hwf.root_ok _ hck]
          have : b.kids[c] = 0 := by
            apply Classical.byContradiction
            intro hne
            obtain ⟨q, hq1, hq2⟩ := (word_ne_zero_iff _).mp hne
            have := h2 (c * 64 + q) (by omega)
            have e1 : (c * 64 + q) / 64 = c := by omega
            have e2 : (c * 64 + q) % 64 = q := by omega
            simp [BitArr.isSet, e1, e2, Array.getElem?_eq_getElem hck, hq2] at this
          simp [this]
        · exact hwf.root_hi c (by omega)
      have hkid : findLsbWord k = some (i % 64) := by
        rw [findLsbWord_some]
        refine ⟨Nat.mod_lt _ (by decide), h1, ?_⟩
        intro q hq
        have := h2 (i / 64 * 64 + q) (by omega)
        have e1 : (i / 64 * 64 + q) / 64 = i / 64 := by omega
        have e2 : (i / 64 * 64 + q) % 64 = q := by omega
        simpa [BitArr.isSet, e1, e2, hk] using this
      simp only [hroot, Option.bind_eq_bind, Option.bind_some, hk, hkid, Option.pure_def, Option.some.injEq]
      omega

theorem BitArr.findLsb_none (b : BitArr) (hwf : b.WF) : b.findLsb = none → ∀ j, b.isSet j = false := by
  intro h j
  apply Classical.byContradiction
  intro hne
  have hset : b.isSet j = true := by simpa using hne
  -- take the least set index below or at j
  have : ∃ i, b.isSet i = true ∧ ∀ q, q < i → b.isSet q = false := by
    induction j using Nat.strongRecOn with
    | _ j ih =>
      by_cases hall : ∀ q, q < j → b.isSet q = false
      · exact ⟨j, hset, hall⟩
      · have : ∃ q, q < j ∧ b.isSet q = true := by
          apply Classical.byContradiction
          intro hno
          apply hall
          intro q hq
          cases hs : b.isSet q with
          | false => rfl
          | true => exact absurd ⟨q, hq, hs⟩ hno
        obtain ⟨q, hq, hqs⟩ := this
        exact ih q hq (by simp [hqs]) hqs
  obtain ⟨i, hi1, hi2⟩ := this
  have := (b.findLsb_spec hwf i).mpr ⟨hi1, hi2⟩
  rw [h] at this; cases this

end TlxVerif.C13
