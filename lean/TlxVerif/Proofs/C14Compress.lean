import TlxVerif.Proofs.C14Class
import TlxVerif.Model.C14Digests
import TlxVerif.Proofs.C14LoadStore
/-!
C14 — the compress functions of the sources equal the compression functions of the standards.
-/
namespace TlxVerif.C14

/-! ### bitwise identities between the forms used in the sources and in the standards -/

theorem ch_eq {w : Nat} (x y z : BitVec w) :
    z ^^^ (x &&& (y ^^^ z)) = (x &&& y) ^^^ (~~~x &&& z) := by
  ext i hi
  simp
  cases x[i] <;> cases y[i] <;> cases z[i] <;> rfl

theorem maj_eq {w : Nat} (x y z : BitVec w) :
    ((x ||| y) &&& z) ||| (x &&& y) = (x &&& y) ^^^ (x &&& z) ^^^ (y &&& z) := by
  ext i hi
  simp
  cases x[i] <;> cases y[i] <;> cases z[i] <;> rfl

/-! ### list plumbing -/

theorem toBlocks_eq_map_range {α : Type} {k : Nat} (hk : 0 < k) : ∀ (q : Nat) (l : List α), l.length / k = q →
    toBlocks k l = (List.range q).map fun i => (l.drop (k * i)).take k
  | 0, l, h => by
    have : l.length < k := by
      rcases Nat.lt_or_ge l.length k with h' | h'
      · exact h'
      · have := Nat.div_pos h' hk; omega
    simp [toBlocks_of_lt k l this]
  | q + 1, l, h => by
    have hle : k ≤ l.length := by
      rcases Nat.lt_or_ge l.length k with h' | h'
      · rw [Nat.div_eq_of_lt h'] at h; omega
      · exact h'
    rw [toBlocks, if_pos ⟨hk, hle⟩]
    have hq : (l.drop k).length / k = q := by
      rw [List.length_drop]
      have := Nat.sub_mul_div_of_le l.length (n := k) (p := 1) (by simpa using hle)
      simp at this; omega
    rw [toBlocks_eq_map_range hk q (l.drop k) hq, List.range_succ_eq_map]
    simp only [List.map_cons, List.map_map, Nat.mul_zero, List.drop_zero]
    congr 1
    apply List.map_congr_left
    intro i _
    simp only [Function.comp, List.drop_drop]
    congr 2
    rw [Nat.mul_succ]; omega

theorem loadWords_eq_toBlocks {w : Nat} (ld : Bytes → BitVec w) (k n : Nat) (hk : 0 < k) (buf : Bytes)
    (hb : buf.length = k * n) : Model.loadWords ld k n buf = (toBlocks k buf).map ld := by
  have hq : buf.length / k = n := by rw [hb]; exact Nat.mul_div_cancel_left n hk
  rw [toBlocks_eq_map_range hk n buf hq]
  simp [Model.loadWords, Function.comp]

theorem toBlocks_mem_length {α : Type} (B : Nat) : ∀ (n : Nat) (l : List α), l.length ≤ n →
    ∀ b ∈ toBlocks B l, b.length = B
  | 0, l, h, b, hb => by
    have : l = [] := List.length_eq_zero_iff.mp (by omega)
    subst this
    rw [toBlocks, if_neg (by simp; omega)] at hb
    cases hb
  | n + 1, l, h, b, hb => by
    rw [toBlocks] at hb
    split at hb
    · next hc =>
      rcases List.mem_cons.mp hb with hb | hb
      · subst hb; exact List.length_take_of_le hc.2
      · exact toBlocks_mem_length B n (l.drop B) (by rw [List.length_drop]; omega) b hb
    · simp at hb

/-- the words of a block: a load helper that is right on `k`-byte strings is right on every block -/
theorem map_blocks_congr {β : Type} (ld spec : Bytes → β) (k : Nat) (h : ∀ b : Bytes, b.length = k → ld b = spec b)
    (buf : Bytes) : (toBlocks k buf).map ld = (toBlocks k buf).map spec :=
  List.map_congr_left fun b hb => h b (toBlocks_mem_length k buf.length buf (Nat.le_refl _) b hb)

/-- a left fold whose step functions agree on an invariant -/
theorem foldl_congr_inv {α β : Type} (I : β → Prop) (f g : β → α → β) :
    ∀ (l : List α) (b : β), I b → (∀ b a, I b → a ∈ l → f b a = g b a) → (∀ b a, I b → a ∈ l → I (g b a)) →
      l.foldl f b = l.foldl g b ∧ I (l.foldl g b)
  | [], b, hb, _, _ => ⟨rfl, hb⟩
  | a :: l, b, hb, hfg, hI => by
    simp only [List.foldl_cons]
    rw [hfg b a hb (List.mem_cons_self)]
    exact foldl_congr_inv I f g l (g b a) (hI b a hb List.mem_cons_self)
      (fun b a' h hm => hfg b a' h (List.mem_cons_of_mem _ hm))
      (fun b a' h hm => hI b a' h (List.mem_cons_of_mem _ hm))

/-- appending one computed element per index: indexing by the loop counter = by the length -/
theorem foldl_extend_eq {α : Type} (F : List α → Nat → α) : ∀ (n s : Nat) (W : List α), W.length = s →
    (List.range' s n).foldl (fun W i => W ++ [F W i]) W =
    (List.range n).foldl (fun W _ => W ++ [F W W.length]) W
  | 0, s, W, _ => by simp
  | n + 1, s, W, h => by
    rw [List.range'_succ, List.range_succ_eq_map, List.foldl_cons, List.foldl_cons, List.foldl_map]
    rw [foldl_extend_eq F n (s + 1) _ (by simp [h])]
    subst h; rfl

theorem len8 {α : Type} (s : List α) (h : s.length = 8) : ∃ a b c d e f g k, s = [a, b, c, d, e, f, g, k] := by
  match s, h with
  | [a, b, c, d, e, f, g, k], _ => exact ⟨a, b, c, d, e, f, g, k, rfl⟩

/-! ### SHA-256 -/

theorem sha256_tables :
    Gen.sha256K = Spec.SHA256.K ∧ Gen.sha256Init = Spec.SHA256.H0 ∧
    Gen.sha256Rot = [[2, 13, 22], [6, 11, 25], [7, 18, 3], [17, 19, 10]] ∧
    Gen.sha256Class = (64, 56, 64, 56, 32) := ⟨rfl, rfl, rfl, rfl⟩

theorem sha256_round_eq (W : List (BitVec 32)) (S : List (BitVec 32)) (hS : S.length = 8) (i : Nat) :
    Model.SHA256.rotate (Model.SHA2.RND Gen.sha256Rot Gen.sha256K W S [0, 1, 2, 3, 4, 5, 6, 7] i) =
      Spec.SHA256.round W S i := by
  obtain ⟨a, b, c, d, e, f, g, h, rfl⟩ := len8 S hS
  rw [sha256_tables.2.2.1, sha256_tables.1]
  simp [Model.SHA2.RND, Model.SHA256.rotate, Spec.SHA256.round, Model.SHA2.Sigma, Model.SHA2.Ch, Model.SHA2.Maj,
    Spec.SHA256.bigSigma0, Spec.SHA256.bigSigma1, Spec.SHA256.Ch, Spec.SHA256.Maj, ch_eq, maj_eq]

theorem sha256_round_len (W : List (BitVec 32)) (S : List (BitVec 32)) (hS : S.length = 8) (i : Nat) :
    (Spec.SHA256.round W S i).length = 8 := by
  obtain ⟨a, b, c, d, e, f, g, h, rfl⟩ := len8 S hS
  simp [Spec.SHA256.round]

theorem sha256_expand_eq (M : List (BitVec 32)) (hM : M.length = 16) :
    Model.SHA2.expand Gen.sha256Rot 64 M = Spec.SHA256.schedule M := by
  unfold Model.SHA2.expand Spec.SHA256.schedule
  rw [sha256_tables.2.2.1]
  have := foldl_extend_eq (fun (W : List (BitVec 32)) i =>
    Model.SHA2.Gamma [17, 19, 10] (W.getD (i - 2) 0) + W.getD (i - 7) 0 +
      Model.SHA2.Gamma [7, 18, 3] (W.getD (i - 15) 0) + W.getD (i - 16) 0) 48 16 M hM
  simp only [List.getD_cons_succ, List.getD_cons_zero] at this ⊢
  rw [this]
  rfl

theorem sha256_compress_eq (st : List (BitVec 32)) (buf : Bytes) (hs : st.length = 8) (hb : buf.length = 64) :
    Model.SHA256.compress st buf = Spec.SHA256.compress st buf := by
  unfold Model.SHA256.compress Spec.SHA256.compress
  rw [loadWords_eq_toBlocks Model.load32h 4 16 (by omega) buf (by omega), map_blocks_congr _ _ 4 load32h_eq]
  have hM : ((toBlocks 4 buf).map (beWord 32)).length = 16 := by
    rw [toBlocks_eq_map_range (by omega) 16 buf (by omega)]; simp
  rw [sha256_expand_eq _ hM]
  have hfold := (foldl_congr_inv (fun S => S.length = 8) _ _ (List.range 64) st hs
    (fun S i hS _ => sha256_round_eq (Spec.SHA256.schedule ((toBlocks 4 buf).map (beWord 32))) S hS i)
    (fun S i hS _ => sha256_round_len _ S hS i)).1
  simp only [hfold]

/-! ### SHA-512: unrolled rounds with rotated arguments instead of a rotating array -/

theorem sha512_tables :
    Gen.sha512K = Spec.SHA512.K ∧ Gen.sha512Init = Spec.SHA512.H0 ∧
    Gen.sha512Rot = [[28, 34, 39], [14, 18, 41], [1, 8, 7], [19, 61, 6]] ∧
    Gen.sha512Class = (128, 112, 128, 120, 64) ∧ Gen.sha512RoundLoop = (80, 8) ∧
    Gen.sha512RndOrder = [[0, 1, 2, 3, 4, 5, 6, 7], [7, 0, 1, 2, 3, 4, 5, 6], [6, 7, 0, 1, 2, 3, 4, 5],
      [5, 6, 7, 0, 1, 2, 3, 4], [4, 5, 6, 7, 0, 1, 2, 3], [3, 4, 5, 6, 7, 0, 1, 2],
      [2, 3, 4, 5, 6, 7, 0, 1], [1, 2, 3, 4, 5, 6, 7, 0]] := ⟨by decide, by decide, by decide, by decide, by decide, by decide⟩

/-- the argument order of the `r`-th unrolled `RND` call -/
def rndOrder (r : Nat) : List Nat := (List.range 8).map fun k => (k + 8 - r % 8) % 8

/-- the values `(a, …, h)` the call with argument order `idx` sees -/
def view (idx : List Nat) (S : List (BitVec 64)) : List (BitVec 64) := idx.map fun k => S.getD k 0

theorem sha512_RND_len (W S : List (BitVec 64)) (idx : List Nat) (i : Nat) :
    (Model.SHA2.RND Gen.sha512Rot Gen.sha512K W S idx i).length = S.length := by
  simp [Model.SHA2.RND]

/-- one unrolled call = one round of the standard, seen through the rotating argument order -/
theorem sha512_step (W S : List (BitVec 64)) (hS : S.length = 8) (r : Nat) (hr : r < 8) (i : Nat) :
    view (rndOrder (r + 1)) (Model.SHA2.RND Gen.sha512Rot Gen.sha512K W S (rndOrder r) i) =
      Spec.SHA512.round W (view (rndOrder r) S) i := by
  obtain ⟨a, b, c, d, e, f, g, h, rfl⟩ := len8 S hS
  rw [sha512_tables.2.2.1, sha512_tables.1]
  have : r = 0 ∨ r = 1 ∨ r = 2 ∨ r = 3 ∨ r = 4 ∨ r = 5 ∨ r = 6 ∨ r = 7 := by omega
  rcases this with rfl | rfl | rfl | rfl | rfl | rfl | rfl | rfl <;>
    simp [view, rndOrder, List.range, List.range.loop, Model.SHA2.RND, Spec.SHA512.round, Model.SHA2.Sigma,
      Model.SHA2.Ch, Model.SHA2.Maj, Spec.SHA512.bigSigma0, Spec.SHA512.bigSigma1, Spec.SHA512.Ch,
      Spec.SHA512.Maj, ch_eq, maj_eq]

theorem view_id (S : List (BitVec 64)) (hS : S.length = 8) : view (rndOrder 0) S = S := by
  obtain ⟨a, b, c, d, e, f, g, h, rfl⟩ := len8 S hS
  simp [view, rndOrder, List.range, List.range.loop]

theorem sha512_round_len (W : List (BitVec 64)) (S : List (BitVec 64)) (hS : S.length = 8) (i : Nat) :
    (Spec.SHA512.round W S i).length = 8 := by
  obtain ⟨a, b, c, d, e, f, g, h, rfl⟩ := len8 S hS
  simp [Spec.SHA512.round]

/-- the eight unrolled calls of one loop iteration = eight consecutive rounds -/
theorem sha512_inner (W S : List (BitVec 64)) (hS : S.length = 8) (j : Nat) :
    (Gen.sha512RndOrder.zipIdx).foldl (fun S (p : List Nat × Nat) =>
        Model.SHA2.RND Gen.sha512Rot Gen.sha512K W S p.1 (8 * j + p.2)) S =
      (List.range' (8 * j) 8).foldl (Spec.SHA512.round W) S := by
  have hord : Gen.sha512RndOrder = (List.range 8).map rndOrder := by
    rw [sha512_tables.2.2.2.2.2]; decide
  rw [hord]
  -- name the intermediate arrays
  generalize h1 : Model.SHA2.RND Gen.sha512Rot Gen.sha512K W S (rndOrder 0) (8 * j + 0) = S1
  generalize h2 : Model.SHA2.RND Gen.sha512Rot Gen.sha512K W S1 (rndOrder 1) (8 * j + 1) = S2
  generalize h3 : Model.SHA2.RND Gen.sha512Rot Gen.sha512K W S2 (rndOrder 2) (8 * j + 2) = S3
  generalize h4 : Model.SHA2.RND Gen.sha512Rot Gen.sha512K W S3 (rndOrder 3) (8 * j + 3) = S4
  generalize h5 : Model.SHA2.RND Gen.sha512Rot Gen.sha512K W S4 (rndOrder 4) (8 * j + 4) = S5
  generalize h6 : Model.SHA2.RND Gen.sha512Rot Gen.sha512K W S5 (rndOrder 5) (8 * j + 5) = S6
  generalize h7 : Model.SHA2.RND Gen.sha512Rot Gen.sha512K W S6 (rndOrder 6) (8 * j + 6) = S7
  generalize h8 : Model.SHA2.RND Gen.sha512Rot Gen.sha512K W S7 (rndOrder 7) (8 * j + 7) = S8
  have l1 : S1.length = 8 := by rw [← h1, sha512_RND_len, hS]
  have l2 : S2.length = 8 := by rw [← h2, sha512_RND_len, l1]
  have l3 : S3.length = 8 := by rw [← h3, sha512_RND_len, l2]
  have l4 : S4.length = 8 := by rw [← h4, sha512_RND_len, l3]
  have l5 : S5.length = 8 := by rw [← h5, sha512_RND_len, l4]
  have l6 : S6.length = 8 := by rw [← h6, sha512_RND_len, l5]
  have l7 : S7.length = 8 := by rw [← h7, sha512_RND_len, l6]
  have l8 : S8.length = 8 := by rw [← h8, sha512_RND_len, l7]
  have e1 : view (rndOrder 1) S1 = Spec.SHA512.round W S (8 * j + 0) := by
    have := sha512_step W S hS 0 (by omega) (8 * j + 0); rw [h1, view_id S hS] at this; exact this
  have e2 : view (rndOrder 2) S2 = Spec.SHA512.round W (view (rndOrder 1) S1) (8 * j + 1) := by
    have := sha512_step W S1 l1 1 (by omega) (8 * j + 1); rw [h2] at this; exact this
  have e3 : view (rndOrder 3) S3 = Spec.SHA512.round W (view (rndOrder 2) S2) (8 * j + 2) := by
    have := sha512_step W S2 l2 2 (by omega) (8 * j + 2); rw [h3] at this; exact this
  have e4 : view (rndOrder 4) S4 = Spec.SHA512.round W (view (rndOrder 3) S3) (8 * j + 3) := by
    have := sha512_step W S3 l3 3 (by omega) (8 * j + 3); rw [h4] at this; exact this
  have e5 : view (rndOrder 5) S5 = Spec.SHA512.round W (view (rndOrder 4) S4) (8 * j + 4) := by
    have := sha512_step W S4 l4 4 (by omega) (8 * j + 4); rw [h5] at this; exact this
  have e6 : view (rndOrder 6) S6 = Spec.SHA512.round W (view (rndOrder 5) S5) (8 * j + 5) := by
    have := sha512_step W S5 l5 5 (by omega) (8 * j + 5); rw [h6] at this; exact this
  have e7 : view (rndOrder 7) S7 = Spec.SHA512.round W (view (rndOrder 6) S6) (8 * j + 6) := by
    have := sha512_step W S6 l6 6 (by omega) (8 * j + 6); rw [h7] at this; exact this
  have e8 : S8 = Spec.SHA512.round W (view (rndOrder 7) S7) (8 * j + 7) := by
    have := sha512_step W S7 l7 7 (by omega) (8 * j + 7)
    rw [h8] at this
    have hr : rndOrder (7 + 1) = rndOrder 0 := by decide
    rw [hr, view_id S8 l8] at this; exact this
  have hz : ((List.range 8).map rndOrder).zipIdx = [(rndOrder 0, 0), (rndOrder 1, 1), (rndOrder 2, 2),
      (rndOrder 3, 3), (rndOrder 4, 4), (rndOrder 5, 5), (rndOrder 6, 6), (rndOrder 7, 7)] := by rfl
  rw [hz]
  simp only [List.foldl]
  rw [h1, h2, h3, h4, h5, h6, h7, h8, e8, e7, e6, e5, e4, e3, e2, e1]
  simp [List.range']

theorem sha512_rounds_len (W : List (BitVec 64)) : ∀ (l : List Nat) (S : List (BitVec 64)), S.length = 8 →
    (l.foldl (Spec.SHA512.round W) S).length = 8
  | [], S, h => h
  | i :: l, S, h => sha512_rounds_len W l _ (sha512_round_len W S h i)

theorem foldl_range_blocks {β : Type} (f : β → Nat → β) (k : Nat) : ∀ (n : Nat) (b : β),
    (List.range (n * k)).foldl f b = (List.range n).foldl (fun b j => (List.range' (k * j) k).foldl f b) b
  | 0, b => by simp
  | n + 1, b => by
    rw [Nat.succ_mul, List.range_add, List.foldl_append, foldl_range_blocks f k n b, List.range_succ,
      List.foldl_append]
    simp only [List.foldl_cons, List.foldl_nil]
    rw [List.range'_eq_map_range, Nat.mul_comm k n]

theorem sha512_expand_eq (M : List (BitVec 64)) (hM : M.length = 16) :
    Model.SHA2.expand Gen.sha512Rot 80 M = Spec.SHA512.schedule M := by
  unfold Model.SHA2.expand Spec.SHA512.schedule
  rw [sha512_tables.2.2.1]
  have := foldl_extend_eq (fun (W : List (BitVec 64)) i =>
    Model.SHA2.Gamma [19, 61, 6] (W.getD (i - 2) 0) + W.getD (i - 7) 0 +
      Model.SHA2.Gamma [1, 8, 7] (W.getD (i - 15) 0) + W.getD (i - 16) 0) 64 16 M hM
  simp only [List.getD_cons_succ, List.getD_cons_zero] at this ⊢
  rw [this]
  rfl

theorem sha512_compress_eq (st : List (BitVec 64)) (buf : Bytes) (hs : st.length = 8) (hb : buf.length = 128) :
    Model.SHA512.compress st buf = Spec.SHA512.compress st buf := by
  unfold Model.SHA512.compress Spec.SHA512.compress
  rw [loadWords_eq_toBlocks _ 8 16 (by omega) buf (by omega), map_blocks_congr _ _ 8 load64h_eq]
  have hM : ((toBlocks 8 buf).map (beWord 64)).length = 16 := by
    rw [toBlocks_eq_map_range (by omega) 16 buf (by omega)]; simp
  rw [sha512_expand_eq _ hM]
  have hloop : Gen.sha512RoundLoop.1 / Gen.sha512RoundLoop.2 = 10 ∧ Gen.sha512RoundLoop.2 = 8 := by
    rw [sha512_tables.2.2.2.2.1]; decide
  rw [hloop.1, hloop.2]
  have hspec := foldl_range_blocks (Spec.SHA512.round (Spec.SHA512.schedule ((toBlocks 8 buf).map (beWord 64)))) 8 10 st
  have hfold := (foldl_congr_inv (fun S => S.length = 8)
    (fun S j => (Gen.sha512RndOrder.zipIdx).foldl (fun S (p : List Nat × Nat) =>
        Model.SHA2.RND Gen.sha512Rot Gen.sha512K (Spec.SHA512.schedule ((toBlocks 8 buf).map (beWord 64))) S p.1 (8 * j + p.2)) S)
    (fun S j => (List.range' (8 * j) 8).foldl (Spec.SHA512.round (Spec.SHA512.schedule ((toBlocks 8 buf).map (beWord 64)))) S)
    (List.range 10) st hs
    (fun S j hS _ => sha512_inner _ S hS j)
    (fun S j hS _ => sha512_rounds_len _ _ S hS)).1
  simp only [hfold, ← hspec]

/-! ### SHA-1 -/

theorem maj_eq' {w : Nat} (x y z : BitVec w) :
    (x &&& y) ||| (z &&& (x ||| y)) = (x &&& y) ^^^ (x &&& z) ^^^ (y &&& z) := by
  ext i hi
  simp
  cases x[i] <;> cases y[i] <;> cases z[i] <;> rfl

theorem sha1_tables :
    Gen.sha1Init = Spec.SHA1.H0 ∧
    Gen.sha1Loops = [(20, "F0", 0x5a827999#32, 5, 30), (40, "F1", 0x6ed9eba1#32, 5, 30),
                     (60, "F2", 0x8f1bbcdc#32, 5, 30), (80, "F3", 0xca62c1d6#32, 5, 30)] ∧
    Gen.sha1Expand = [80, 3, 8, 14, 16, 1] ∧ Gen.sha1Class = (64, 56, 64, 56, 20) :=
  ⟨by decide, by decide, by decide, by decide⟩

theorem len5 {α : Type} (s : List α) (h : s.length = 5) : ∃ a b c d e, s = [a, b, c, d, e] := by
  match s, h with
  | [a, b, c, d, e], _ => exact ⟨a, b, c, d, e, rfl⟩

theorem sha1_round_len (W S : List (BitVec 32)) (hS : S.length = 5) (t : Nat) :
    (Spec.SHA1.round W S t).length = 5 := by
  obtain ⟨a, b, c, d, e, rfl⟩ := len5 S hS
  simp [Spec.SHA1.round]

theorem sha1_rounds_len (W : List (BitVec 32)) : ∀ (l : List Nat) (S : List (BitVec 32)), S.length = 5 →
    (l.foldl (Spec.SHA1.round W) S).length = 5
  | [], S, h => h
  | i :: l, S, h => sha1_rounds_len W l _ (sha1_round_len W S h i)

theorem sha1_step_eq (W S : List (BitVec 32)) (hS : S.length = 5) (t : Nat) (ht : t < 80) :
    Model.SHA1.step
      (if t < 20 then Model.SHA1.F0 else if t < 40 then Model.SHA1.F1 else if t < 60 then Model.SHA1.F2 else Model.SHA1.F3)
      (Spec.SHA1.K t) 5 30 W S t = Spec.SHA1.round W S t := by
  obtain ⟨a, b, c, d, e, rfl⟩ := len5 S hS
  simp only [Model.SHA1.step, Spec.SHA1.round, Spec.SHA1.f]
  congr 1
  have hf : (if t < 20 then Model.SHA1.F0 else if t < 40 then Model.SHA1.F1 else if t < 60 then Model.SHA1.F2
      else Model.SHA1.F3) b c d =
      (if t < 20 then Spec.SHA1.Ch else if t < 40 then Spec.SHA1.Parity else if t < 60 then Spec.SHA1.Maj
        else Spec.SHA1.Parity) b c d := by
    split
    · simp [Model.SHA1.F0, Spec.SHA1.Ch, ch_eq]
    · split
      · rfl
      · split
        · simp [Model.SHA1.F2, Spec.SHA1.Maj, maj_eq']
        · rfl
  rw [hf]
  ac_rfl

/-- a segment of the round loop: the loop's function and constant are those of the standard
    for every `t` of the segment -/
theorem sha1_segment (W : List (BitVec 32)) (fn : BitVec 32 → BitVec 32 → BitVec 32 → BitVec 32) (k : BitVec 32)
    (lo n : Nat) (hhi : lo + n ≤ 80)
    (hfn : ∀ t, lo ≤ t → t < lo + n →
      fn = (if t < 20 then Model.SHA1.F0 else if t < 40 then Model.SHA1.F1 else if t < 60 then Model.SHA1.F2 else Model.SHA1.F3)
      ∧ k = Spec.SHA1.K t)
    (S : List (BitVec 32)) (hS : S.length = 5) :
    (List.range' lo n).foldl (Model.SHA1.step fn k 5 30 W) S = (List.range' lo n).foldl (Spec.SHA1.round W) S ∧
    ((List.range' lo n).foldl (Spec.SHA1.round W) S).length = 5 :=
  foldl_congr_inv (fun S => S.length = 5) _ _ (List.range' lo n) S hS
    (fun S t hS hm => by
      have hm' := List.mem_range'_1.mp hm
      obtain ⟨h1, h2⟩ := hfn t hm'.1 hm'.2
      rw [h1, h2]
      exact sha1_step_eq W S hS t (by omega))
    (fun S t hS _ => sha1_round_len W S hS t)

theorem sha1_rounds_eq (W S : List (BitVec 32)) (hS : S.length = 5) :
    Model.SHA1.rounds W S = (List.range 80).foldl (Spec.SHA1.round W) S := by
  unfold Model.SHA1.rounds
  rw [sha1_tables.2.1]
  have f0 : Model.SHA1.fnOf "F0" = Model.SHA1.F0 := by rfl
  have f1 : Model.SHA1.fnOf "F1" = Model.SHA1.F1 := by rfl
  have f2 : Model.SHA1.fnOf "F2" = Model.SHA1.F2 := by rfl
  have f3 : Model.SHA1.fnOf "F3" = Model.SHA1.F3 := by rfl
  simp only [List.foldl, f0, f1, f2, f3, Nat.sub_zero]
  have e1 := sha1_segment W Model.SHA1.F0 0x5a827999#32 0 20 (by omega)
    (fun t h1 h2 => by simp [Spec.SHA1.K]; omega) S hS
  have e2 := sha1_segment W Model.SHA1.F1 0x6ed9eba1#32 20 20 (by omega)
    (fun t h1 h2 => by
      have a1 : ¬ t < 20 := by omega
      have a2 : t < 40 := by omega
      simp [Spec.SHA1.K, a1, a2]) _ e1.2
  have e3 := sha1_segment W Model.SHA1.F2 0x8f1bbcdc#32 40 20 (by omega)
    (fun t h1 h2 => by
      have a1 : ¬ t < 20 := by omega
      have a2 : ¬ t < 40 := by omega
      have a3 : t < 60 := by omega
      simp [Spec.SHA1.K, a1, a2, a3]) _ e2.2
  have e4 := sha1_segment W Model.SHA1.F3 0xca62c1d6#32 60 20 (by omega)
    (fun t h1 h2 => by
      have a1 : ¬ t < 20 := by omega
      have a2 : ¬ t < 40 := by omega
      have a3 : ¬ t < 60 := by omega
      simp [Spec.SHA1.K, a1, a2, a3]) _ e3.2
  have hsplit : List.range 80 = List.range' 0 20 ++ List.range' 20 20 ++ List.range' 40 20 ++ List.range' 60 20 := by
    decide
  rw [hsplit, List.foldl_append, List.foldl_append, List.foldl_append]
  show (List.range' 60 (80 - 60)).foldl _ ((List.range' 40 (60 - 40)).foldl _ ((List.range' 20 (40 - 20)).foldl _
    ((List.range' 0 20).foldl _ S))) = _
  rw [e1.1, e2.1, e3.1, e4.1]

theorem sha1_expand_eq (M : List (BitVec 32)) (hM : M.length = 16) :
    (List.range' 16 (Gen.sha1Expand.getD 0 0 - 16)).foldl (fun W i =>
      W ++ [(W.getD (i - Gen.sha1Expand.getD 1 0) 0 ^^^ W.getD (i - Gen.sha1Expand.getD 2 0) 0 ^^^
             W.getD (i - Gen.sha1Expand.getD 3 0) 0 ^^^ W.getD (i - Gen.sha1Expand.getD 4 0) 0).rotateLeft
             (Gen.sha1Expand.getD 5 0)]) M = Spec.SHA1.schedule M := by
  rw [sha1_tables.2.2.1]
  have := foldl_extend_eq (fun (W : List (BitVec 32)) i =>
    (W.getD (i - 3) 0 ^^^ W.getD (i - 8) 0 ^^^ W.getD (i - 14) 0 ^^^ W.getD (i - 16) 0).rotateLeft 1) 64 16 M hM
  simp only [List.getD_cons_succ, List.getD_cons_zero] at this ⊢
  rw [this]
  rfl

theorem sha1_compress_eq (st : List (BitVec 32)) (buf : Bytes) (hs : st.length = 5) (hb : buf.length = 64) :
    Model.SHA1.compress st buf = Spec.SHA1.compress st buf := by
  unfold Model.SHA1.compress Spec.SHA1.compress
  rw [loadWords_eq_toBlocks Model.load32h 4 16 (by omega) buf (by omega), map_blocks_congr _ _ 4 load32h_eq]
  have hM : ((toBlocks 4 buf).map (beWord 32)).length = 16 := by
    rw [toBlocks_eq_map_range (by omega) 16 buf (by omega)]; simp
  simp only [sha1_expand_eq _ hM, sha1_rounds_eq _ st hs]

/-! ### MD5 -/

theorem md5_F_eq {w : Nat} (x y z : BitVec w) : z ^^^ (x &&& (y ^^^ z)) = (x &&& y) ||| (~~~x &&& z) := by
  ext i hi
  simp
  cases x[i] <;> cases y[i] <;> cases z[i] <;> rfl

theorem md5_G_eq {w : Nat} (x y z : BitVec w) : y ^^^ (z &&& (y ^^^ x)) = (x &&& z) ||| (y &&& ~~~z) := by
  ext i hi
  simp
  cases x[i] <;> cases y[i] <;> cases z[i] <;> rfl

theorem md5_tables :
    Gen.md5Korder = Spec.MD5.T ∧ Gen.md5Init = Spec.MD5.A0 ∧
    Gen.md5Loops = Model.MD5.loopsModelled ∧ Gen.md5Class = (64, 56, 64, 56, 16) ∧
    (∀ i, i < 64 → Gen.md5Worder.getD i 0 = Spec.MD5.wordIndex i ∧ Gen.md5Rorder.getD i 0 = Spec.MD5.shift i) :=
  ⟨by decide, by decide, by decide, by decide, by decide⟩

theorem len4 {α : Type} (s : List α) (h : s.length = 4) : ∃ a b c d, s = [a, b, c, d] := by
  match s, h with
  | [a, b, c, d], _ => exact ⟨a, b, c, d, rfl⟩

theorem md5_step_len (X S : List (BitVec 32)) (hS : S.length = 4) (t : Nat) :
    (Spec.MD5.step X S t).length = 4 := by
  obtain ⟨a, b, c, d, rfl⟩ := len4 S hS
  simp [Spec.MD5.step]

theorem md5_step_eq (X S : List (BitVec 32)) (hS : S.length = 4) (t : Nat) (ht : t < 64) :
    Model.MD5.step
      (if t < 16 then Model.MD5.F else if t < 32 then Model.MD5.G else if t < 48 then Model.MD5.H else Model.MD5.I)
      X S t = Spec.MD5.step X S t := by
  obtain ⟨a, b, c, d, rfl⟩ := len4 S hS
  obtain ⟨hw, hr⟩ := md5_tables.2.2.2.2 t ht
  simp only [Model.MD5.step, Spec.MD5.step, Spec.MD5.f, hw, hr, md5_tables.1]
  have hf : (if t < 16 then Model.MD5.F else if t < 32 then Model.MD5.G else if t < 48 then Model.MD5.H
      else Model.MD5.I) b c d =
      (if t < 16 then Spec.MD5.F else if t < 32 then Spec.MD5.G else if t < 48 then Spec.MD5.H else Spec.MD5.I) b c d := by
    split
    · simp [Model.MD5.F, Spec.MD5.F, md5_F_eq]
    · split
      · simp [Model.MD5.G, Spec.MD5.G, md5_G_eq]
      · split <;> rfl
  rw [hf]
  congr 2
  ac_rfl

theorem md5_segment (X : List (BitVec 32)) (fn : BitVec 32 → BitVec 32 → BitVec 32 → BitVec 32)
    (lo n : Nat) (hhi : lo + n ≤ 64)
    (hfn : ∀ t, lo ≤ t → t < lo + n →
      fn = (if t < 16 then Model.MD5.F else if t < 32 then Model.MD5.G else if t < 48 then Model.MD5.H else Model.MD5.I))
    (S : List (BitVec 32)) (hS : S.length = 4) :
    (List.range' lo n).foldl (Model.MD5.step fn X) S = (List.range' lo n).foldl (Spec.MD5.step X) S ∧
    ((List.range' lo n).foldl (Spec.MD5.step X) S).length = 4 :=
  foldl_congr_inv (fun S => S.length = 4) _ _ (List.range' lo n) S hS
    (fun S t hS hm => by
      have hm' := List.mem_range'_1.mp hm
      rw [hfn t hm'.1 hm'.2]
      exact md5_step_eq X S hS t (by omega))
    (fun S t hS _ => md5_step_len X S hS t)

theorem md5_compress_eq (st : List (BitVec 32)) (buf : Bytes) (hs : st.length = 4) (hb : buf.length = 64) :
    Model.MD5.compress st buf = Spec.MD5.compress st buf := by
  unfold Model.MD5.compress Spec.MD5.compress
  rw [loadWords_eq_toBlocks _ 4 16 (by omega) buf (by omega), map_blocks_congr _ _ 4 load32l_eq]
  generalize (toBlocks 4 buf).map (leWord 32) = X
  have e1 := md5_segment X Model.MD5.F 0 16 (by omega) (fun t h1 h2 => by simp; omega) st hs
  have e2 := md5_segment X Model.MD5.G 16 16 (by omega) (fun t h1 h2 => by
    have a1 : ¬ t < 16 := by omega
    have a2 : t < 32 := by omega
    simp [a1, a2]) _ e1.2
  have e3 := md5_segment X Model.MD5.H 32 16 (by omega) (fun t h1 h2 => by
    have a1 : ¬ t < 16 := by omega
    have a2 : ¬ t < 32 := by omega
    have a3 : t < 48 := by omega
    simp [a1, a2, a3]) _ e2.2
  have e4 := md5_segment X Model.MD5.I 48 16 (by omega) (fun t h1 h2 => by
    have a1 : ¬ t < 16 := by omega
    have a2 : ¬ t < 32 := by omega
    have a3 : ¬ t < 48 := by omega
    simp [a1, a2, a3]) _ e3.2
  have hsplit : List.range 64 = List.range' 0 16 ++ List.range' 16 16 ++ List.range' 32 16 ++ List.range' 48 16 := by
    decide
  simp only [hsplit, List.foldl_append, e1.1, e2.1, e3.1, e4.1]

end TlxVerif.C14
