import TlxVerif.Model.C14Class
/-!
C14 helper lemmas: blocks, and the array writes of the class model in `take/drop` form.
-/
namespace TlxVerif.C14

theorem toBlocks_of_lt {α : Type} (B : Nat) (l : List α) (h : l.length < B) : toBlocks B l = [] := by
  rw [toBlocks]; simp; omega

theorem toBlocks_zero {α : Type} (l : List α) : toBlocks 0 l = [] := by
  rw [toBlocks]; simp

theorem toBlocks_cons_block {α : Type} {B : Nat} (hB : 0 < B) (a r : List α) (ha : a.length = B) :
    toBlocks B (a ++ r) = a :: toBlocks B r := by
  rw [toBlocks]
  have : 0 < B ∧ B ≤ (a ++ r).length := ⟨hB, by simp [ha]⟩
  rw [if_pos this, List.take_left' ha, List.drop_left' ha]

/-- `drop (|a| + k)` skips `a` -/
theorem drop_append_add {α : Type} (a d : List α) (k n : Nat) (ha : a.length = n) :
    (a ++ d).drop (n + k) = d.drop k := by
  subst ha
  rw [List.drop_append]
  simp

/-- a prefix whose length is a multiple of the block size splits off -/
theorem toBlocks_append {α : Type} {B : Nat} (hB : 0 < B) :
    ∀ (q : Nat) (full r : List α), full.length = q * B →
      toBlocks B (full ++ r) = toBlocks B full ++ toBlocks B r
  | 0, full, r, h => by
    have : full = [] := List.length_eq_zero_iff.mp (by simpa using h)
    subst this
    simp [toBlocks_of_lt B [] (by simpa using hB)]
  | q + 1, full, r, h => by
    have hlen : B ≤ full.length := by rw [h, Nat.succ_mul]; omega
    have hsplit : full = full.take B ++ full.drop B := (List.take_append_drop B full).symm
    have htake : (full.take B).length = B := by simp [List.length_take]; omega
    have hdrop : (full.drop B).length = q * B := by
      simp [List.length_drop, h, Nat.succ_mul]
    rw [hsplit, List.append_assoc, toBlocks_cons_block hB _ _ htake, toBlocks_cons_block hB _ _ htake,
      toBlocks_append hB q _ r hdrop]
    simp

theorem toBlocks_single {α : Type} {B : Nat} (hB : 0 < B) (a : List α) (ha : a.length = B) :
    toBlocks B a = [a] := by
  have := toBlocks_cons_block hB a [] ha
  simpa [toBlocks_of_lt B [] (by simpa using hB)] using this

theorem set_eq_take_drop {α : Type} : ∀ (l : List α) (i : Nat) (x : α), i < l.length →
    l.set i x = l.take i ++ [x] ++ l.drop (i + 1)
  | [], i, x, h => by simp at h
  | a :: l, 0, x, _ => by simp
  | a :: l, i + 1, x, h => by
    simp at h
    simp [set_eq_take_drop l i x h]

theorem writeAt_eq : ∀ (bs buf : Bytes) (pos : Nat), pos + bs.length ≤ buf.length →
    writeAt buf pos bs = buf.take pos ++ bs ++ buf.drop (pos + bs.length)
  | [], buf, pos, _ => by simp [writeAt]
  | b :: bs, buf, pos, h => by
    simp only [List.length_cons] at h
    have hp : pos < buf.length := by omega
    rw [writeAt, writeAt_eq bs (buf.set pos b) (pos + 1) (by simp; omega)]
    rw [set_eq_take_drop buf pos b hp]
    have hA : (List.take pos buf ++ [b]).length = pos + 1 := by
      simp [List.length_take_of_le (Nat.le_of_lt hp)]
    rw [List.take_left' hA, drop_append_add _ _ bs.length (pos + 1) hA, List.drop_drop]
    have : pos + 1 + bs.length = pos + (b :: bs).length := by simp; omega
    rw [this]; simp

theorem writeAt_length (bs buf : Bytes) (pos : Nat) (h : pos + bs.length ≤ buf.length) :
    (writeAt buf pos bs).length = buf.length := by
  rw [writeAt_eq bs buf pos h]; simp; omega

theorem zeroFill_ge (buf : Bytes) (c t : Nat) (h : t ≤ c) : zeroFill buf c t = (buf, c) := by
  rw [zeroFill]; simp; omega

theorem zeroFill_eq (buf : Bytes) (t : Nat) (ht : t ≤ buf.length) : ∀ (d c : Nat), t - c = d → c ≤ t →
    ∀ buf' : Bytes, buf'.length = buf.length → buf'.drop t = buf.drop t →
    zeroFill buf' c t = (buf'.take c ++ List.replicate (t - c) 0#8 ++ buf.drop t, t)
  | 0, c, hd, hc, buf', hl, hdrop => by
    have : c = t := by omega
    subst this
    rw [zeroFill_ge _ _ _ (Nat.le_refl _)]
    simp [← hdrop]
  | d + 1, c, hd, hc, buf', hl, hdrop => by
    have hct : c < t := by omega
    rw [zeroFill, if_pos hct]
    have hcl : c < buf'.length := by omega
    have hA : (List.take c buf' ++ [0#8]).length = c + 1 := by
      simp [List.length_take_of_le (Nat.le_of_lt hcl)]
    have hset := set_eq_take_drop buf' c 0#8 hcl
    have hdrop' : (buf'.set c 0#8).drop t = buf.drop t := by
      rw [hset]
      have : t = (c + 1) + (t - (c + 1)) := by omega
      rw [this, drop_append_add _ _ _ (c + 1) hA, List.drop_drop, ← this, hdrop]
    rw [zeroFill_eq buf t ht d (c + 1) (by omega) (by omega) (buf'.set c 0#8) (by simp [hl]) hdrop']
    congr 1
    rw [hset, List.take_left' hA]
    have : t - c = (t - (c + 1)) + 1 := by omega
    rw [this, List.replicate_succ]
    simp

end TlxVerif.C14
