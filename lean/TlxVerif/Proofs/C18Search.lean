/-
C18 — helper lemmas about the search primitives of the specification
(`leastFrom` / `least` / `greatest`) and the forward scan shared by the model's
`stdSearch`, `stdFindFirstOf` and `findNotOf`.
-/
import TlxVerif.Model.C18Spec
import TlxVerif.Model.C18StringView
namespace TlxVerif.C18
open Spec

/-! ### leastFrom / least -/

theorem leastFrom_none {p : Nat → Bool} : ∀ (fuel start : Nat),
    (∀ x, start ≤ x → x < start + fuel → p x = false) → leastFrom p start fuel = none
  | 0, _, _ => rfl
  | fuel + 1, start, h => by
    have h0 : p start = false := h start (Nat.le_refl _) (by omega)
    simp only [leastFrom, h0]
    exact leastFrom_none fuel (start + 1) (fun x h1 h2 => h x (by omega) (by omega))

theorem leastFrom_some {p : Nat → Bool} : ∀ (fuel start x : Nat),
    start ≤ x → x < start + fuel → p x = true → (∀ y, start ≤ y → y < x → p y = false) →
    leastFrom p start fuel = some x
  | 0, start, x, h1, h2, _, _ => by omega
  | fuel + 1, start, x, h1, h2, hx, hlt => by
    by_cases hs : start = x
    · subst hs; simp [leastFrom, hx]
    · have h0 : p start = false := hlt start (Nat.le_refl _) (by omega)
      simp only [leastFrom, h0]
      exact leastFrom_some fuel (start + 1) x (by omega) (by omega) hx (fun y h3 h4 => hlt y (by omega) h4)

theorem leastFrom_congr {p q : Nat → Bool} : ∀ (fuel start : Nat),
    (∀ x, start ≤ x → x < start + fuel → p x = q x) → leastFrom p start fuel = leastFrom q start fuel
  | 0, _, _ => rfl
  | fuel + 1, start, h => by
    have h0 : p start = q start := h start (Nat.le_refl _) (by omega)
    simp only [leastFrom, h0]
    rw [leastFrom_congr fuel (start + 1) (fun x h1 h2 => h x (by omega) (by omega))]

/-- skipping a prefix of the range on which the predicate is false -/
theorem leastFrom_skip {p : Nat → Bool} : ∀ (k start fuel : Nat),
    (∀ x, start ≤ x → x < start + k → p x = false) →
    leastFrom p start (k + fuel) = leastFrom p (start + k) fuel
  | 0, start, fuel, _ => by simp
  | k + 1, start, fuel, h => by
    have h0 : p start = false := h start (Nat.le_refl _) (by omega)
    have : k + 1 + fuel = (k + fuel) + 1 := by omega
    rw [this]
    simp only [leastFrom, h0]
    rw [leastFrom_skip k (start + 1) fuel (fun x h1 h2 => h x (by omega) (by omega))]
    have : start + 1 + k = start + (k + 1) := by omega
    rw [this]
    simp

/-- one more candidate at the end of the range -/
theorem leastFrom_succ {p : Nat → Bool} : ∀ (fuel start : Nat),
    leastFrom p start (fuel + 1) =
      match leastFrom p start fuel with
      | some x => some x
      | none => if p (start + fuel) then some (start + fuel) else none
  | 0, start => by simp [leastFrom]
  | fuel + 1, start => by
    rw [leastFrom]
    by_cases h0 : p start
    · simp [leastFrom, h0]
    · simp only [h0]
      rw [leastFrom_succ fuel (start + 1)]
      simp only [leastFrom, h0]
      have : start + 1 + fuel = start + (fuel + 1) := by omega
      rw [this]
      rfl

/-- the position filter `pos ≤ x` of the forward searches -/
theorem least_from_pos (P : Nat → Bool) (pos n : Nat) (h : pos ≤ n) :
    least (fun x => decide (pos ≤ x) && P x) n = leastFrom P pos (n - pos) := by
  unfold least
  have hn : n = pos + (n - pos) := by omega
  conv => lhs; rw [hn]
  rw [leastFrom_skip pos 0 (n - pos)]
  · simp only [Nat.zero_add]
    apply leastFrom_congr
    intro x h1 _
    simp [h1]
  · intro x _ h2
    have : ¬ pos ≤ x := by omega
    simp [this]

theorem least_none_of_pos_gt (P : Nat → Bool) (pos n : Nat) (h : n ≤ pos) :
    least (fun x => decide (pos ≤ x) && P x) n = none := by
  unfold least
  apply leastFrom_none
  intro x _ h2
  have : ¬ pos ≤ x := by omega
  simp [this]

/-! ### the forward scan of the model -/

/-- index of the first suffix satisfying `q` (`r.length` if there is none) -/
def firstIdx (q : Bytes → Bool) : Bytes → Nat
  | [] => 0
  | c :: t => if q (c :: t) then 0 else firstIdx q t + 1

theorem firstIdx_le (q : Bytes → Bool) : ∀ r, firstIdx q r ≤ r.length
  | [] => Nat.le_refl _
  | c :: t => by
    simp only [firstIdx]
    split
    · omega
    · have := firstIdx_le q t; simp only [List.length_cons]; omega

theorem leastFrom_firstIdx (q : Bytes → Bool) : ∀ (r : Bytes) (start : Nat) (p : Nat → Bool),
    (∀ x, x < r.length → p (start + x) = q (r.drop x)) →
    leastFrom p start r.length =
      if firstIdx q r < r.length then some (start + firstIdx q r) else none
  | [], _, _, _ => by simp [leastFrom, firstIdx]
  | c :: t, start, p, hp => by
    have h0 : p start = q (c :: t) := by simpa using hp 0 (by simp)
    simp only [List.length_cons, leastFrom, firstIdx, h0]
    by_cases hq : q (c :: t)
    · simp [hq]
    · simp only [hq]
      rw [leastFrom_firstIdx q t (start + 1) p (fun x hx => by
        have := hp (x + 1) (by simp; omega)
        simpa [Nat.add_assoc, Nat.add_comm 1 x] using this)]
      by_cases hlt : firstIdx q t < t.length
      · simp [hlt]; omega
      · simp [hlt]

theorem stdSearch_eq_firstIdx (s : Bytes) : ∀ r, Model.stdSearch r s = firstIdx (fun r => s.isPrefixOf r) r
  | [] => rfl
  | c :: t => by simp only [Model.stdSearch, firstIdx, stdSearch_eq_firstIdx s t]

theorem stdFindFirstOf_eq_firstIdx (s : Bytes) :
    ∀ r, Model.stdFindFirstOf r s = firstIdx (fun r => match r with | c :: _ => s.contains c | [] => false) r
  | [] => rfl
  | c :: t => by simp only [Model.stdFindFirstOf, firstIdx, stdFindFirstOf_eq_firstIdx s t]

theorem findNotOf_eq_firstIdx (s : Bytes) :
    ∀ r, Model.findNotOf r s = firstIdx (fun r => match r with | c :: _ => !s.contains c | [] => false) r
  | [] => rfl
  | c :: t => by simp only [Model.findNotOf, Model.traitsFind, firstIdx, findNotOf_eq_firstIdx s t]

/-! ### greatest -/

theorem greatest_none {p : Nat → Bool} : ∀ n, (∀ x, x < n → p x = false) → greatest p n = none
  | 0, _ => rfl
  | n + 1, h => by
    simp only [greatest, h n (by omega)]
    exact greatest_none n (fun x hx => h x (by omega))

theorem greatest_some {p : Nat → Bool} : ∀ n x, x < n → p x = true → (∀ y, x < y → y < n → p y = false) →
    greatest p n = some x
  | 0, x, h, _, _ => by omega
  | n + 1, x, h, hx, hgt => by
    by_cases hn : n = x
    · subst hn; simp [greatest, hx]
    · simp only [greatest, hgt n (by omega) (by omega)]
      exact greatest_some n x (by omega) hx (fun y h1 h2 => hgt y h1 (by omega))

theorem greatest_congr {p q : Nat → Bool} : ∀ n, (∀ x, x < n → p x = q x) → greatest p n = greatest q n
  | 0, _ => rfl
  | n + 1, h => by
    simp only [greatest, h n (by omega)]
    rw [greatest_congr n (fun x hx => h x (by omega))]

/-- dropping the top of the range on which the predicate is false -/
theorem greatest_cut {p : Nat → Bool} : ∀ (k m : Nat), (∀ x, m ≤ x → x < m + k → p x = false) →
    greatest p (m + k) = greatest p m
  | 0, _, _ => rfl
  | k + 1, m, h => by
    have : m + (k + 1) = (m + k) + 1 := by omega
    rw [this]
    simp only [greatest, h (m + k) (by omega) (by omega)]
    exact greatest_cut k m (fun x h1 h2 => h x h1 (by omega))

/-- the position filter `x ≤ pos` of the backward searches -/
theorem greatest_le_pos (P : Nat → Bool) (pos n : Nat) :
    greatest (fun x => decide (x ≤ pos) && P x) n = greatest P (min (pos + 1) n) := by
  by_cases h : pos + 1 ≤ n
  · have hn : n = (pos + 1) + (n - (pos + 1)) := by omega
    rw [Nat.min_eq_left h]
    conv => lhs; rw [hn]
    rw [greatest_cut]
    · apply greatest_congr
      intro x hx
      have : x ≤ pos := by omega
      simp [this]
    · intro x h1 _
      have : ¬ x ≤ pos := by omega
      simp [this]
  · rw [Nat.min_eq_right (by omega)]
    apply greatest_congr
    intro x hx
    have : x ≤ pos := by omega
    simp [this]

end TlxVerif.C18
