/-
C02 — the public self-check passes on every state that satisfies the invariant:
`TreeInv p t → verifyB p t = true` (`verifyB` = transliteration of `verify()`, Model/C01Verify.lean).
-/
import TlxVerif.Model.C01Verify
import TlxVerif.Proofs.C01Main
import TlxVerif.Proofs.C01EraseG
namespace TlxVerif.C01

variable {K V : Type}

theorem adjacentLe_of_sorted (p : Params K) (ks : List K) (hs : SortedK p.lt ks) : adjacentLe p ks = true := by
  induction ks with
  | nil => rfl
  | cons a rest ih =>
    cases rest with
    | nil => rfl
    | cons b rest' =>
      have hp := List.pairwise_cons.mp hs
      simp only [adjacentLe, Bool.and_eq_true]
      refine ⟨?_, ih hp.2⟩
      simp only [Params.le, Bool.not_eq_true']
      exact hp.1 b List.mem_cons_self

theorem head?_flatMap_cons {α β : Type} (f : α → List β) (c : α) (cs : List α) (hne : f c ≠ []) :
    ((c :: cs).flatMap f).head? = (f c).head? := by
  rw [List.flatMap_cons]
  cases hfc : f c with
  | nil => exact absurd hfc hne
  | cons x xs => rfl

/-- `verify_node` succeeds on every well-formed subtree and returns its smallest and largest key -/
theorem verifyNode_ok (p : Params K) (pv : p.Valid) (sw : StrictWeak p.lt) :
    ∀ (h : Nat) (n : BNode K V) (isRoot : Bool),
      (if isRoot then ShapeTop p 1 1 h n else Shape p h n) → SortedE p.lt (flatten h n) → SepOk p h n →
      ∃ a b, (flatten h n).head? = some a ∧ (flatten h n).getLast? = some b ∧
        verifyNode p isRoot h n = some (a.1, b.1) := by
  have hl4 := pv.leaf4
  have hi4 := pv.inner4
  have hlmin : 2 ≤ p.leafMin := by simp [Params.leafMin, Gen.leafSlotmin]; omega
  have himin : 2 ≤ p.innerMin := by simp [Params.innerMin, Gen.innerSlotmin]; omega
  intro h
  induction h with
  | zero =>
    intro n isRoot hs hsort _
    cases n with
    | inner l ks kids => cases isRoot <;> simp [Shape, ShapeTop] at hs
    | leaf es =>
      have hlen : 1 ≤ es.length ∧ (isRoot = false → p.leafMin ≤ es.length) := by
        cases isRoot
        · simp only [Bool.false_eq_true, if_false, Shape] at hs; exact ⟨by omega, fun _ => hs.1⟩
        · simp only [if_true, ShapeTop] at hs; exact ⟨hs.1, fun h' => by cases h'⟩
      simp only [flatten] at hsort ⊢
      obtain ⟨b, hb⟩ := getLast?_isSome_of_length_pos es (by omega)
      cases es with
      | nil => simp at hlen
      | cons a rest =>
        refine ⟨a, b, rfl, hb, ?_⟩
        simp only [verifyNode]
        have c1 : (isRoot || !decide ((a :: rest).length < p.leafMin)) = true := by
          cases isRoot
          · have := hlen.2 rfl; simp; omega
          · rfl
        have c3 := adjacentLe_of_sorted p (keysOf (a :: rest)) (sortedE_keys hsort)
        simp [c3, hb]
        intro h'
        have := hlen.2 h'
        simp at this
        omega
  | succ h ih =>
    intro n isRoot hs hsort hsep
    cases n with
    | leaf es => cases isRoot <;> simp [Shape, ShapeTop] at hs
    | inner l keys kids =>
      have hshape : l = h + 1 ∧ kids.length = keys.length + 1 ∧ 1 ≤ keys.length ∧
          (isRoot = false → p.innerMin ≤ keys.length) ∧ ∀ c ∈ kids, Shape p h c := by
        cases isRoot
        · simp only [Bool.false_eq_true, if_false, Shape] at hs
          exact ⟨hs.1, hs.2.1, by omega, fun _ => hs.2.2.1, hs.2.2.2.2⟩
        · simp only [if_true, ShapeTop] at hs
          exact ⟨hs.1, hs.2.1, hs.2.2.1, (fun h' => by cases h'), hs.2.2.2.2⟩
      obtain ⟨hl, hk, hk1, hkmin, hkids⟩ := hshape
      simp only [SepOk] at hsep
      obtain ⟨hseq, hsepk⟩ := hsep
      simp only [flatten] at hsort ⊢
      have hks := keys_sorted_of_sep p sw h keys kids hk hsort hseq
      -- the first and the last entry of the node
      have hfne : kids.flatMap (flatten h) ≠ [] := flatMap_flatten_ne_nil p pv h kids hkids (by
        intro hh; subst hh; simp at hk)
      obtain ⟨b, hb⟩ : ∃ b, (kids.flatMap (flatten h)).getLast? = some b := by
        cases hx : (kids.flatMap (flatten h)).getLast? with
        | none => exact absurd (List.getLast?_eq_none_iff.mp hx) hfne
        | some b => exact ⟨b, rfl⟩
      obtain ⟨a, ha⟩ : ∃ a, (kids.flatMap (flatten h)).head? = some a := by
        cases hx : kids.flatMap (flatten h) with
        | nil => exact absurd hx hfne
        | cons a _ => exact ⟨a, rfl⟩
      refine ⟨a, b, ha, hb, ?_⟩
      simp only [verifyNode]
      have c1 : (isRoot || !decide (keys.length < p.innerMin)) = true := by
        cases isRoot
        · have := hkmin rfl; simp; omega
        · rfl
      have c3 := adjacentLe_of_sorted p keys hks
      have c2 : decide (keys.length > 0) = true := by simp; omega
      simp only [c1, c2, c3, Bool.not_true, Bool.false_eq_true, if_false]
      -- the loop over the children
      have hloop : ∀ (cs : List (BNode K V)) (slot : Nat), kids.drop slot = cs → slot ≤ keys.length →
          verifyKids p (verifyNode p false h) l keys cs slot (if slot = 0 then none else some a.1) = some (a.1, b.1) := by
        intro cs
        induction cs with
        | nil =>
          intro slot hd hsl
          exfalso
          have := congrArg List.length hd
          simp only [List.length_drop, List.length_nil] at this
          omega
        | cons c cs' ihc =>
          intro slot hd hsl
          have hslt : slot < kids.length := by omega
          have hcget : kids[slot] = c := by
            have := List.drop_eq_getElem_cons hslt
            rw [hd] at this
            exact (List.cons.inj this).1.symm
          have hcs' : kids.drop (slot + 1) = cs' := by
            have := List.drop_eq_getElem_cons hslt
            rw [hd] at this
            exact (List.cons.inj this).2.symm
          have hcm : c ∈ kids := by rw [← hcget]; exact List.getElem_mem hslt
          have hcsh := hkids c hcm
          obtain ⟨ca, cb, hca, hcb, hrec⟩ := ih c false (by simpa using hcsh)
            (sortedE_flatMap_child hsort c hcm) (hsepk c hcm)
          have hclev : c.level = h := hcsh.top.level
          simp only [verifyKids, hclev, hl, ne_eq, not_true_eq_false, if_false, hrec]
          -- lower bound check against the previous separator
          have hlow : lowOk p keys ca.1 slot = true := by
            cases slot with
            | zero => rfl
            | succ s =>
              have hsk : s < keys.length := by omega
              simp only [lowOk, List.getElem?_eq_getElem hsk]
              have hprev : kids[s]? = some kids[s] := List.getElem?_eq_getElem (by omega)
              obtain ⟨e, he, hq⟩ := hseq s keys[s] kids[s] (List.getElem?_eq_getElem hsk) hprev
              have hcross := sortedE_flatMap_cross hsort s (s + 1) (by omega) kids[s] c hprev
                (by rw [← hcget]; exact List.getElem?_eq_getElem hslt) e ca (List.mem_of_getLast? he)
                (List.mem_of_mem_head? hca)
              have h2 : p.lt e.1 keys[s] = false := eqv_le_left hq
              simp only [Bool.not_eq_true']
              exact sw.le_trans _ _ _ h2 hcross
          simp only [hlow, Bool.not_true, Bool.false_eq_true, if_false]
          -- the minimum after this slot
          have hmn : (if slot = 0 then some ca.1 else (if slot = 0 then none else some a.1)) = some a.1 := by
            by_cases hs0 : slot = 0
            · subst hs0
              simp only [if_true]
              -- the first child holds the first entry
              have h0 : kids = c :: cs' := by simpa using hd
              rw [h0, head?_flatMap_cons (flatten h) c cs' (flatten_ne_nil p pv h c hcsh), hca] at ha
              cases ha; rfl
            · simp [hs0]
          rw [hmn]
          by_cases hlastc : slot = keys.length
          · rw [if_pos hlastc]
            -- the last child holds the last entry
            have hcs'nil : cs' = [] := by
              rw [← hcs']; exact List.drop_eq_nil_of_le (by omega)
            have hkl : kids = kids.take slot ++ [c] := by
              conv => lhs; rw [← List.take_append_drop slot kids, hd, hcs'nil]
            rw [hkl, getLast?_flatMap_concat (flatten h) _ c (flatten_ne_nil p pv h c hcsh), hcb] at hb
            cases hb
            rfl
          · rw [if_neg hlastc]
            have hsk : slot < keys.length := by omega
            obtain ⟨e, he, hq⟩ := hseq slot keys[slot] c (List.getElem?_eq_getElem hsk)
              (by rw [← hcget]; exact List.getElem?_eq_getElem hslt)
            rw [hcb] at he
            cases he
            simp only [List.getElem?_eq_getElem hsk, hq, if_true]
            have := ihc (slot + 1) hcs' (by omega)
            rw [hl] at this
            simpa using this
      have := hloop kids 0 (by simp) (Nat.zero_le _)
      simpa using this

/-- **`verify()` passes on every state satisfying the invariant** — with `inv_all_histories`: after every
public mutating operation of every history the tree's self-check passes -/
theorem verify_of_inv (p : Params K) (pv : p.Valid) (sw : StrictWeak p.lt) (t : Tree K V) (ht : TreeInv p t) :
    verifyB p t = true := by
  obtain ⟨hshape, hsort, hsep⟩ := ht
  unfold verifyB
  cases hroot : t.root with
  | none => rfl
  | some r =>
    simp only
    unfold TreeShape at hshape
    rw [hroot] at hshape hsep
    simp only at hsep
    obtain ⟨hs, h1, h2, h3⟩ := hshape
    have htl : t.toList = flatten r.level r := by simp [Tree.toList, hroot]
    obtain ⟨a, b, _, _, hv⟩ := verifyNode_ok p pv sw r.level r true (by simpa using hs) (by rw [← htl]; exact hsort) hsep
    simp [hv, htl, h3, Tree.nLeaves, Tree.nInner, hroot, h1, h2]

end TlxVerif.C01
