import TlxVerif.Model.C14Digests
import TlxVerif.Proofs.C14Bytes
/-!
C14 — the load / store helpers of the sources (`load32h`, `loadLoop`, `storeLoop`: shift / or /
mask loops) are the big- / little-endian conversions `beWord`, `leWord`, `beBytes`, `leBytes`
used by the specifications.
-/
namespace TlxVerif.C14

open Model

theorem beWord_init (w : Nat) : ∀ (r : Bytes) (init : BitVec w),
    r.foldl (fun (acc : BitVec w) (b : Byte) => (acc <<< 8) ||| b.setWidth w) init =
      (init <<< (8 * r.length)) ||| r.foldl (fun (acc : BitVec w) (b : Byte) => (acc <<< 8) ||| b.setWidth w) 0
  | [], init => by simp
  | c :: r, init => by
    simp only [List.foldl_cons, List.length_cons]
    rw [beWord_init w r ((init <<< 8) ||| c.setWidth w),
      beWord_init w r (((0 : BitVec w) <<< 8) ||| c.setWidth w)]
    have h8 : 8 * (r.length + 1) = 8 + 8 * r.length := by omega
    rw [h8, BitVec.shiftLeft_add, BitVec.shiftLeft_or_distrib, BitVec.shiftLeft_or_distrib]
    have hz : ((0 : BitVec w) <<< 8) <<< (8 * r.length) = 0 := by simp
    have hzo : ∀ x : BitVec w, (0 : BitVec w) ||| x = x := by intro x; simp
    rw [hz, hzo]
    ac_rfl

theorem beWord_cons (w : Nat) (a : Byte) (r : Bytes) :
    beWord w (a :: r) = (a.setWidth w <<< (8 * r.length)) ||| beWord w r := by
  unfold beWord
  rw [List.foldl_cons, beWord_init]
  have : ((0 : BitVec w) <<< 8) ||| a.setWidth w = a.setWidth w := by simp
  rw [this]

theorem len8ls {α : Type} (s : List α) (h : s.length = 8) : ∃ a b c d e f g k, s = [a, b, c, d, e, f, g, k] := by
  match s, h with
  | [a, b, c, d, e, f, g, k], _ => exact ⟨a, b, c, d, e, f, g, k, rfl⟩

theorem len4ls {α : Type} (s : List α) (h : s.length = 4) : ∃ a b c d, s = [a, b, c, d] := by
  match s, h with
  | [a, b, c, d], _ => exact ⟨a, b, c, d, rfl⟩

theorem load32h_eq (y : Bytes) (h : y.length = 4) : load32h y = beWord 32 y := by
  obtain ⟨a, b, c, d, rfl⟩ := len4ls y h
  simp only [load32h, beWord_cons, List.getD_cons_zero, List.getD_cons_succ, List.length_cons, List.length_nil]
  simp [beWord, BitVec.or_assoc]

theorem zor {w : Nat} (x : BitVec w) : (0 : BitVec w) ||| x = x := by simp
theorem orz {w : Nat} (x : BitVec w) : x ||| (0 : BitVec w) = x := by simp

theorem load32l_eq (y : Bytes) (h : y.length = 4) : loadLoop 32 4 (fun i => i * 8) y = leWord 32 y := by
  obtain ⟨a, b, c, d, rfl⟩ := len4ls y h
  have hr : List.range 4 = [0, 1, 2, 3] := by decide
  have hl : leWord 32 [a, b, c, d] = beWord 32 [d, c, b, a] := rfl
  have hn : beWord 32 [] = 0 := rfl
  rw [hl]
  simp only [loadLoop, hr, List.foldl_cons, List.foldl_nil, beWord_cons, List.getD_cons_zero, List.getD_cons_succ,
    List.length_cons, List.length_nil, Nat.reduceMul, Nat.reduceAdd, hn, zor, orz]
  generalize BitVec.setWidth 32 a <<< 0 = A
  generalize BitVec.setWidth 32 b <<< 8 = B
  generalize BitVec.setWidth 32 c <<< 16 = C
  generalize BitVec.setWidth 32 d <<< 24 = D
  ac_rfl

theorem load64h_eq (y : Bytes) (h : y.length = 8) : loadLoop 64 8 (fun i => (7 - i) * 8) y = beWord 64 y := by
  obtain ⟨a, b, c, d, e, f, g, k, rfl⟩ := len8ls y h
  have hr : List.range 8 = [0, 1, 2, 3, 4, 5, 6, 7] := by decide
  simp only [loadLoop, hr, List.foldl_cons, List.foldl_nil, beWord_cons, List.getD_cons_zero, List.getD_cons_succ,
    List.length_cons, List.length_nil]
  simp [beWord, BitVec.or_assoc]

theorem and255_8 (x : BitVec 8) : x &&& 255#8 = x := by
  have : (255#8 : BitVec 8) = BitVec.allOnes 8 := by decide
  rw [this, BitVec.and_allOnes]

theorem and255_32 (x : BitVec 32) : (x &&& 255).setWidth 8 = x.setWidth 8 := by
  have : BitVec.setWidth 8 (255 : BitVec 32) = 255#8 := by decide
  rw [BitVec.setWidth_and, this, and255_8]

theorem and255_64 (x : BitVec 64) : (x &&& 255).setWidth 8 = x.setWidth 8 := by
  have : BitVec.setWidth 8 (255 : BitVec 64) = 255#8 := by decide
  rw [BitVec.setWidth_and, this, and255_8]

theorem storeH4_eq (x : BitVec 32) : storeLoop 4 (fun i => (3 - i) * 8) x = beBytes 4 x := by
  have hr : List.range 4 = [0, 1, 2, 3] := by decide
  simp only [storeLoop, beBytes, leBytes, hr, and255_32]
  simp
theorem storeH8_eq (x : BitVec 64) : storeLoop 8 (fun i => (7 - i) * 8) x = beBytes 8 x := by
  have hr : List.range 8 = [0, 1, 2, 3, 4, 5, 6, 7] := by decide
  simp only [storeLoop, beBytes, leBytes, hr, and255_64]
  simp
theorem storeL4_eq (x : BitVec 32) : storeLoop 4 (fun i => i * 8) x = leBytes 4 x := by
  have hr : List.range 4 = [0, 1, 2, 3] := by decide
  simp only [storeLoop, leBytes, hr, and255_32]
  simp [Nat.mul_comm]
theorem storeL8_eq (x : BitVec 64) : storeLoop 8 (fun i => i * 8) x = leBytes 8 x := by
  have hr : List.range 8 = [0, 1, 2, 3, 4, 5, 6, 7] := by decide
  simp only [storeLoop, leBytes, hr, and255_64]
  simp [Nat.mul_comm]

end TlxVerif.C14
