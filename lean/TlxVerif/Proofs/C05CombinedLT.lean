/-
L2 for `multiway_merge_loser_tree_combined` (the default algorithm for k ≥ 5): unguarded loser
tree merge of `min(size, total − overhang)` elements, then the guarded loser tree merge of the rest.
-/
import TlxVerif.Proofs.C05LoserTreeU
import TlxVerif.Proofs.C05Combined
namespace TlxVerif.C05
open TlxVerif.C09 (SWO Tree ceilLog2)

variable {α : Type}

/-- the invariant of the unguarded phase satisfies what the unguarded loser tree merge needs, when
the tree's sentinel is not less than `mn` -/
theorem uinv_prepare {lt : α → α → Bool} (hlt : SWO lt) (stb : Bool) (mn : α) (ms c : Nat) (sentinel : α)
    (hsen : lt sentinel mn = false) :
    UInv stb lt sentinel (fun L n => Shape stb lt mn ms L ∧ R stb lt mn ms L = n + c) := by
  refine ⟨fun L n hP => ?_, fun L n i x q hP hm => ?_, fun L n hP => ?_⟩
  · have hp : P stb lt mn ms L (n + 1) := ⟨by rw [hP.2]; omega, hP.1⟩
    exact hp.nonempty
  · have hp : P stb lt mn ms L (n + 1) := ⟨by rw [hP.2]; omega, hP.1⟩
    exact ⟨(hp.step hlt hm).2, by have := hp.step_R hlt hm; omega⟩
  · right
    obtain ⟨t, y, q, ht, hy⟩ := Rsum_pos (by have := hP.2; unfold R at this; omega : 0 < Rsum stb lt mn ms 0 L)
    simp only [Nat.zero_add] at hy
    -- an in-set head is not above `mn`, hence not above the sentinel
    unfold inSet at hy
    cases hs : stb with
    | true =>
      left
      refine ⟨rfl, t, y, q, ht, ?_⟩
      subst hs
      have hmy : lt mn y = false := by
        by_cases ct : t ≤ ms
        · simpa [ct] using hy
        · have : lt y mn = true := by simpa [ct] using hy
          exact hlt.asymm y mn this
      exact hlt.ntrans sentinel mn y hsen hmy
    | false =>
      right
      refine ⟨rfl, t, y, q, ht, ?_⟩
      subst hs
      have hym : lt y mn = true := by simpa using hy
      cases h : lt y sentinel with
      | true => rfl
      | false => have := hlt.ntrans y sentinel mn h hsen; rw [hym] at this; cases this

/-- **multiway_merge_loser_tree_combined** (any `1 ≤ k ≤ 2^31`, copy and pointer trees, stable and
unstable): defined for every `size ≤ total` on sorted inputs; a stable run when `Stable`, a
minimal-head run otherwise -/
theorem multiwayMergeLoserTreeCombined_run {lt : α → α → Bool} (hlt : SWO lt) (copy stable : Bool) (dflt : α)
    (seqs : List (Seq α)) (size : Nat) (hk1 : 1 ≤ seqs.length) (hk : seqs.length ≤ 2 ^ 31)
    (hsorted : ∀ l ∈ xsOf seqs, Sorted lt l) (hsize : size ≤ (xsOf seqs).flatten.length) :
    ∃ fin out, multiwayMergeLoserTreeCombined copy stable lt dflt seqs size = some (fin, out) ∧
      Run stable lt (xsOf seqs) size out (xsOf fin) ∧ guardsOf fin = guardsOf seqs := by
  have hne : seqs ≠ [] := by intro e; rw [e] at hk1; simp at hk1
  unfold multiwayMergeLoserTreeCombined
  simp only [Option.bind_eq_bind, Option.pure_def]
  rcases prepareUnguarded_spec hlt stable seqs hsorted hne with ⟨m, hp, _⟩ | ⟨o, mn, ms, hp, hS, hR, hinv⟩
  · -- an empty sequence: everything with the guarded tree
    obtain ⟨fin, out, h1, h2, h3⟩ := multiwayMergeLoserTree_run hlt copy stable dflt seqs size hk1 hk
    rw [Nat.min_eq_left hsize] at h2
    exact ⟨fin, out, by simp only [hp, Option.bind_some, h1, List.nil_append], h2, h3⟩
  · have hug : min size (totalSize seqs - o) ≤ R stable lt mn ms (xsOf seqs) := by omega
    have hugt : min size (totalSize seqs - o) ≤ totalSize seqs := by omega
    -- the sentinel of the unguarded tree
    have h0 : 0 < (xsOf seqs).length := by simp only [xsOf, List.length_map]; omega
    obtain ⟨z, hz, hzm, _⟩ := hinv.all 0 (xsOf seqs)[0] (List.getElem?_eq_getElem h0)
    have hs0 : ∃ s0, seqs[0]? = some s0 ∧ s0.xs.getLast? = some z := by
      have h0' : 0 < seqs.length := by omega
      refine ⟨seqs[0], List.getElem?_eq_getElem h0', ?_⟩
      simpa [xsOf] using hz
    have hnonempty : ∀ l ∈ xsOf seqs, l ≠ [] := by
      intro l hl he
      obtain ⟨t, htl, ht⟩ := List.getElem_of_mem hl
      obtain ⟨z', hz', _⟩ := hinv.all t l (by rw [List.getElem?_eq_getElem htl, ht])
      rw [he] at hz'; simp at hz'
    let c := R stable lt mn ms (xsOf seqs) - min size (totalSize seqs - o)
    obtain ⟨fin1, out1, hm1, hrun1, hg1, hP1⟩ := multiwayMergeLoserTreeUnguarded_run hlt copy stable dflt seqs
      (min size (totalSize seqs - o)) hk z hs0 (uinv_prepare hlt stable mn ms c z hzm) hnonempty
      (by rw [Nat.min_eq_right hugt]; exact ⟨hS, by simp only [c]; omega⟩)
    rw [Nat.min_eq_right hugt] at hrun1
    have hlen1 : fin1.length = seqs.length := by
      have := hrun1.minRun.length.2
      simpa [xsOf] using this
    have htot1 : (xsOf fin1).flatten.length + min size (totalSize seqs - o) = (xsOf seqs).flatten.length := by
      have h1 := hrun1.minRun.perm.length_eq
      simp only [List.length_append] at h1
      have h2 := hrun1.minRun.length.1
      omega
    obtain ⟨fin, out2, hm2, hrun2, hg2⟩ := multiwayMergeLoserTree_run hlt copy stable dflt fin1
      (size - min size (totalSize seqs - o)) (by omega) (by omega)
    rw [Nat.min_eq_left (by omega)] at hrun2
    refine ⟨fin, out1 ++ out2, by simp only [hp, Option.bind_some, hm1, hm2], ?_, by rw [hg2, hg1]⟩
    have := hrun1.append hrun2
    rwa [show min size (totalSize seqs - o) + (size - min size (totalSize seqs - o)) = size by omega] at this

end TlxVerif.C05
