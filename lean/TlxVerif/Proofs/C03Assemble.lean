/-
C03 — the generic "bucket step" lemma: concatenating independently sorted blocks whose LCP
sub-arrays are exact inside each block and carry the right value at every border between two
non-empty neighbours gives a sorted range with an exact LCP array.  Used for the three ranges of
multikey quicksort and for the 256 / 65536 buckets of the radix steps.
-/
import TlxVerif.Proofs.C03Insertion
namespace TlxVerif.C03

variable {α : Type} (str : α → Str)

/-! ### adjLcps -/

theorem adjLcps_cons_cons (a b : Str) (rest : List Str) :
    adjLcps (a :: b :: rest) = lcp a b :: adjLcps (b :: rest) := by simp [adjLcps]

theorem adjLcps_append (xs : List Str) (y : Str) (zs : List Str) :
    adjLcps (xs ++ y :: zs) = adjLcps (xs ++ [y]) ++ adjLcps (y :: zs) := by
  induction xs with
  | nil => simp [adjLcps]
  | cons a as ih =>
    cases as with
    | nil => simp [adjLcps]
    | cons b bs =>
      simp only [List.cons_append, adjLcps_cons_cons] at ih ⊢
      rw [ih]

theorem adjLcps_length (xs : List Str) : (adjLcps xs).length = xs.length - 1 := by
  induction xs with
  | nil => simp [adjLcps]
  | cons a as ih =>
    cases as with
    | nil => simp [adjLcps]
    | cons b bs => simp only [adjLcps_cons_cons, List.length_cons] at ih ⊢; omega

/-- all strings equal to their neighbour with LCP `d` -/
theorem adjLcps_const (xs : List Str) (d : Nat) (h : ∀ a ∈ xs, ∀ b ∈ xs, lcp a b = d) :
    adjLcps xs = List.replicate (xs.length - 1) d := by
  induction xs with
  | nil => simp [adjLcps]
  | cons a as ih =>
    cases as with
    | nil => simp [adjLcps]
    | cons b bs =>
      rw [adjLcps_cons_cons, ih (fun x hx y hy => h x (by simp [hx]) y (by simp [hy]))]
      rw [h a (by simp) b (by simp)]
      simp [List.replicate_succ]

/-! ### assembling blocks -/

/-- the LCP view of every non-empty block that has a non-empty predecessor starts with the LCP
of the last string before it and its own first string -/
def Borders : Option Str → List (List Str × List Nat) → Prop
  | _, [] => True
  | prev, (o, v) :: rest =>
    (∀ p a, prev = some p → o.head? = some a → v.head? = some (lcp p a)) ∧
    Borders ((o.getLast?).or prev) rest

/-- the LCP values a range of blocks must end up with: behind an earlier string `p` everything
is determined, at the very beginning entry 0 is whatever it was -/
def assembled (prev : Option Str) (bl : List (List Str × List Nat)) : List Nat :=
  match prev with
  | none => (bl.flatMap Prod.snd).take 1 ++ adjLcps (bl.flatMap Prod.fst)
  | some p => adjLcps (p :: bl.flatMap Prod.fst)

theorem assemble (prev : Option Str) (bl : List (List Str × List Nat))
    (hlen : ∀ b ∈ bl, b.2.length = b.1.length) (hb : Borders prev bl) :
    bl.flatMap (fun b => b.2.take 1 ++ adjLcps b.1) = assembled prev bl := by
  induction bl generalizing prev with
  | nil => cases prev <;> simp [assembled, adjLcps]
  | cons b rest ih =>
    obtain ⟨o, v⟩ := b
    have hl : v.length = o.length := hlen (o, v) (by simp)
    have hlen' : ∀ b ∈ rest, b.2.length = b.1.length := fun b hb => hlen b (by simp [hb])
    obtain ⟨hb1, hb2⟩ := hb
    cases o with
    | nil =>
      have hv : v = [] := by simpa using hl
      subst hv
      simp only [List.getLast?_nil, Option.none_or] at hb2
      have := ih prev hlen' hb2
      simp only [List.flatMap_cons, List.take_nil, adjLcps, List.append_nil, List.nil_append]
      rw [this]
      cases prev <;> simp [assembled]
    | cons a o' =>
      cases v with
      | nil => simp at hl
      | cons vh vt =>
        obtain ⟨ini, q, hq⟩ : ∃ ini q, a :: o' = ini ++ [q] :=
          ⟨(a :: o').dropLast, (a :: o').getLast (by simp), (List.dropLast_concat_getLast (by simp)).symm⟩
        have hlast : (a :: o').getLast? = some q := by rw [hq]; simp
        rw [hlast] at hb2
        simp only [Option.some_or] at hb2
        have := ih (some q) hlen' hb2
        simp only [assembled] at this
        simp only [List.flatMap_cons, List.take_succ_cons, List.take_zero]
        rw [this]
        have e : a :: (o' ++ List.flatMap Prod.fst rest) = ini ++ q :: List.flatMap Prod.fst rest := by
          rw [← List.cons_append, hq]; simp
        cases prev with
        | none =>
          simp only [assembled, List.flatMap_cons, List.cons_append, List.take_succ_cons, List.take_zero,
            List.nil_append]
          rw [e, adjLcps_append, hq]
        | some p =>
          have hvh : vh = lcp p a := by
            have := hb1 p a rfl (by simp)
            simpa using this
          subst hvh
          simp only [assembled, List.flatMap_cons, List.cons_append, adjLcps_cons_cons, List.nil_append]
          rw [e, adjLcps_append, hq]

/-! ### the specification every sorter has to meet -/

/-- result of a sorter: a sorted permutation; with LCP output the exact LCP array behind the
untouched entry 0 (without LCP output there is no LCP array, the list carried along by the model
is meaningless) -/
def SortSpec (withLcp : Bool) (ss : List α) (l : List Nat) (r : List α × List Nat) : Prop :=
  r.1.Perm ss ∧ Sorted str r.1 ∧
    (withLcp = true → r.2 = l.take 1 ++ adjLcps (r.1.map str))

/-- what a caller has to guarantee: common prefix of length `depth`, NUL-free strings, an LCP
array of the same length as the string range -/
def Pre (withLcp : Bool) (d : Nat) (ss : List α) (l : List Nat) : Prop :=
  CommonPrefix str d ss ∧ NulFree str ss ∧ (withLcp = true → l.length = ss.length)

theorem SortSpec.length {wl : Bool} {ss : List α} {l : List Nat} {r : List α × List Nat}
    (h : SortSpec str wl ss l r) (hl : wl = true → l.length = ss.length) :
    wl = true → r.2.length = r.1.length := by
  intro hw
  obtain ⟨h1, _, h3⟩ := h
  have h3 := h3 hw
  have := h1.length_eq
  have hl' := hl hw
  rw [h3, List.length_append, adjLcps_length, List.length_map, List.length_take]
  omega

theorem insertionSort_spec (wl : Bool) (d : Nat) (ss : List α) (l : List Nat) (h : Pre str wl d ss l) :
    SortSpec str wl ss l (insertionSort str wl d ss l) := by
  unfold insertionSort SortSpec
  cases wl with
  | true =>
    simp only [if_true]
    have := insertionSortLcp_spec str d ss l h.1 (h.2.2 rfl)
    exact ⟨this.1, this.2.1, fun _ => this.2.2⟩
  | false =>
    have := insertionSortPlain_spec str d ss h.1
    simp [this.1, this.2]

end TlxVerif.C03
