import TlxVerif.Proofs.C16Steps
/-! Whole-buffer operations: clear, element listing, the copy loops, copy/move
construction and assignment, (de)allocation, destruction. -/
namespace TlxVerif.C16
variable {k : Nat} {r : RB} {xs : List Elem}

/-- state of a buffer without storage: default-constructed, moved-from or deallocated -/
structure Shell (r : RB) : Prop where
  data : r.hasData = false
  slots : r.slots = []
  b : r.b = 0
  e : r.e = 0
  cap : r.cap = 0

theorem Rep.b_eq_e_iff (h : Rep k r xs) : r.b = r.e ↔ xs = [] := by
  have hb := h.hb; have hl := h.len_lt; have hp := h.pos
  constructor
  · intro heq
    have h0 : (r.b + 0) % 2 ^ k = r.b := by rw [Nat.add_zero, Nat.mod_eq_of_lt hb]
    rw [h.he] at heq
    have := idx_inj hb hp hl (h0.trans heq)
    exact List.length_eq_zero_iff.mp this.symm
  · intro hx; subst hx
    rw [h.he]; simp [Nat.mod_eq_of_lt hb]

theorem Rep.clearLoop (h : Rep k r xs) : ∀ fuel, xs.length ≤ fuel →
    ∃ r', RB.clearLoop fuel r = some r' ∧ Rep k r' [] ∧ r'.maxSize = r.maxSize := by
  induction xs generalizing r with
  | nil =>
    intro fuel _
    have hbe := h.b_eq_e_iff.mpr rfl
    cases fuel <;> exact ⟨r, by simp [RB.clearLoop, hbe], h, rfl⟩
  | cons x xs ih =>
    intro fuel hf
    have hne : r.b ≠ r.e := fun heq => by simpa using h.b_eq_e_iff.mp heq
    cases fuel with
    | zero => simp at hf
    | succ n =>
      obtain ⟨r1, h1, hr1, hm1⟩ := h.popFront
      obtain ⟨r2, h2, hr2, hm2⟩ := ih hr1 n (by simpa using hf)
      exact ⟨r2, by simp [RB.clearLoop, hne, h1, h2], hr2, hm2.trans hm1⟩

theorem Rep.clear (h : Rep k r xs) : ∃ r', r.clear = some r' ∧ Rep k r' [] ∧ r'.maxSize = r.maxSize := by
  unfold RB.clear
  exact h.clearLoop _ (by rw [h.cap]; have := h.len_lt; omega)

theorem Shell.clear (h : Shell r) : r.clear = some r := by
  unfold RB.clear; rw [h.cap]; simp [RB.clearLoop, h.b, h.e]

theorem Shell.size (h : Shell r) : r.size = 0 := by
  unfold RB.size; rw [h.b, h.e]; simp [W]

theorem mapM_range' {α : Type} (f : Nat → Option α) (l : List α) :
    ∀ off, (∀ i, i < l.length → f (off + i) = l[i]?) → (List.range' off l.length).mapM f = some l := by
  induction l with
  | nil => intro off _; simp
  | cons a l ih =>
    intro off hf
    have h0 := hf 0 (by simp)
    simp only [Nat.add_zero, List.getElem?_cons_zero] at h0
    have hrest := ih (off + 1) (fun i hi => by
      have := hf (i + 1) (by simpa using hi)
      simpa [Nat.add_assoc, Nat.add_comm 1 i] using this)
    simp [List.range'_succ, List.mapM_cons, h0, hrest]

/-- `operator[]` over `0..size()` lists exactly the represented elements -/
theorem Rep.toList (h : Rep k r xs) : r.toList? = some xs := by
  unfold RB.toList?
  rw [h.size, List.range_eq_range']
  exact mapM_range' r.at? xs 0 (fun i hi => by rw [Nat.zero_add]; exact h.at hi)

theorem Shell.toList (h : Shell r) : r.toList? = some [] := by
  unfold RB.toList?; rw [h.size]; simp

theorem Rep.pushAll (h : Rep k r xs) : ∀ vs, xs.length + vs.length ≤ r.maxSize →
    ∃ r', r.pushAll vs = some r' ∧ Rep k r' (xs ++ vs) ∧ r'.maxSize = r.maxSize := by
  intro vs
  induction vs generalizing r xs with
  | nil => intro _; exact ⟨r, rfl, by simpa using h, rfl⟩
  | cons v vs ih =>
    intro hlen
    simp only [List.length_cons] at hlen
    obtain ⟨r1, h1, hr1, hm1⟩ := h.pushBack v (by omega)
    obtain ⟨r2, h2, hr2, hm2⟩ := ih hr1 (by simp; omega)
    exact ⟨r2, by simp [RB.pushAll, h1, h2], by simpa using hr2, hm2.trans hm1⟩

/-- freshly allocated storage of `2^k` raw slots represents the empty deque -/
theorem Rep.fresh (hk : k ≤ 63) {max mask : Nat} (hmask : mask = 2 ^ k - 1) (hmax : max < 2 ^ k) :
    Rep k { maxSize := max, cap := 2 ^ k, mask := mask, hasData := true,
            slots := List.replicate (2 ^ k) none, b := 0, e := 0 } [] := by
  have hp : 0 < 2 ^ k := Nat.pow_pos (by decide)
  constructor <;> (try dsimp only) <;> simp [hmask, hk, hp, hmax]
  intro j _; simp [Nat.mod_lt _ hp]

theorem Rep.copyCtor (h : Rep k r xs) :
    ∃ r', r.copyCtor = some r' ∧ Rep k r' xs ∧ r'.maxSize = r.maxSize := by
  have hf : Rep k { maxSize := r.maxSize, cap := r.cap, mask := r.mask, hasData := true,
                    slots := List.replicate r.cap none, b := 0, e := 0 } [] := by
    rw [h.cap]; exact Rep.fresh h.hk h.mask h.room
  obtain ⟨r', h1, hr', hm⟩ := hf.pushAll xs (by simpa using h.fits)
  exact ⟨r', by simp [RB.copyCtor, h.toList, h1], by simpa using hr', hm⟩

/-- after `clear()` all slots are raw storage, so resetting the cursors keeps the representation -/
theorem Rep.reset_cursors (h : Rep k r []) (max : Nat) (hmax : max < 2 ^ k) :
    Rep k { r with maxSize := max, b := 0, e := 0 } [] := by
  have hp := h.pos; have hb := h.hb
  constructor <;> (try dsimp only)
  · exact h.hk
  · exact h.data
  · exact h.cap
  · exact h.mask
  · exact h.len
  · exact hp
  · simp
  · simp
  · exact hmax
  · intro j hj
    -- slot (0+j) is slot (b + j') for j' = (j + 2^k - b) % 2^k
    have := h.slot ((j + 2 ^ k - r.b) % 2 ^ k) (Nat.mod_lt _ hp)
    have hidx : (r.b + (j + 2 ^ k - r.b) % 2 ^ k) % 2 ^ k = (0 + j) % 2 ^ k := by
      rw [Nat.zero_add, Nat.mod_eq_of_lt hj, mod_wrap (show j + 2 ^ k - r.b < 2 * 2 ^ k by omega)]
      split
      · rw [mod_wrap (by omega)]; split <;> omega
      · rw [mod_wrap (by omega)]; split <;> omega
    rw [hidx] at this
    simpa using this

theorem Rep.copyAssign_same {dst : RB} {ys : List Elem} (hd : Rep k dst ys) (hs : Rep k r xs) :
    ∃ d', dst.copyAssign r = some d' ∧ Rep k d' xs ∧ d'.maxSize = r.maxSize := by
  obtain ⟨d1, h1, hr1, _⟩ := hd.clear
  have hcap : d1.cap = r.cap := by rw [hr1.cap, hs.cap]
  have hr2 := hr1.reset_cursors r.maxSize hs.room
  have hr3 : Rep k { d1 with maxSize := r.maxSize, mask := r.mask, b := 0, e := 0 } [] := by
    have : r.mask = d1.mask := by rw [hs.mask, hr1.mask]
    rw [this]; exact hr2
  obtain ⟨d', h3, hr', hm⟩ := hr3.pushAll xs (by simpa using hs.fits)
  simp only [hcap] at h3
  exact ⟨d', by simp [RB.copyAssign, h1, hcap, hs.toList, h3], by simpa using hr', hm⟩

theorem Rep.copyAssign_realloc {dst d1 : RB} (hclear : dst.clear = some d1) (hne : d1.cap ≠ r.cap)
    (hs : Rep k r xs) :
    ∃ d', dst.copyAssign r = some d' ∧ Rep k d' xs ∧ d'.maxSize = r.maxSize := by
  have hf : Rep k { d1 with cap := r.cap, hasData := true, slots := List.replicate r.cap none,
                            maxSize := r.maxSize, mask := r.mask, b := 0, e := 0 } [] := by
    rw [hs.cap]; exact Rep.fresh hs.hk hs.mask hs.room
  obtain ⟨d', h3, hr', hm⟩ := hf.pushAll xs (by simpa using hs.fits)
  exact ⟨d', by simp [RB.copyAssign, hclear, hne, hs.toList, h3], by simpa using hr', hm⟩

theorem pow2_inj {a b : Nat} (h : 2 ^ a = 2 ^ b) : a = b := by
  rcases Nat.lt_trichotomy a b with hlt | heq | hgt
  · have := Nat.pow_lt_pow_right (a := 2) (by decide) hlt; omega
  · exact heq
  · have := Nat.pow_lt_pow_right (a := 2) (by decide) hgt; omega

/-- copy assignment onto a buffer holding `ys` (any capacity) -/
theorem Rep.copyAssign {k' : Nat} {dst : RB} {ys : List Elem} (hd : Rep k' dst ys) (hs : Rep k r xs) :
    ∃ d', dst.copyAssign r = some d' ∧ Rep k d' xs ∧ d'.maxSize = r.maxSize := by
  by_cases hkk : k' = k
  · subst hkk; exact hd.copyAssign_same hs
  · obtain ⟨d1, h1, hr1, _⟩ := hd.clear
    exact Rep.copyAssign_realloc h1 (by rw [hr1.cap, hs.cap]; exact fun h => hkk (pow2_inj h)) hs

/-- copy assignment onto a buffer without storage -/
theorem Shell.copyAssign {dst : RB} (hd : Shell dst) (hs : Rep k r xs) :
    ∃ d', dst.copyAssign r = some d' ∧ Rep k d' xs ∧ d'.maxSize = r.maxSize :=
  Rep.copyAssign_realloc hd.clear (by rw [hd.cap, hs.cap]; exact (Nat.ne_of_lt hs.pos)) hs

theorem shell_movedFrom (r : RB) : Shell r.movedFrom := by
  constructor <;> rfl

theorem Rep.deallocate (h : Rep k r xs) : ∃ r', r.deallocate = some r' ∧ Shell r' ∧ r'.maxSize = r.maxSize := by
  obtain ⟨r1, h1, _, hm⟩ := h.clear
  exact ⟨{ r1 with hasData := false, slots := [], cap := 0, b := 0, e := 0 },
    by simp [RB.deallocate, h.data, h1], by constructor <;> rfl, hm⟩

theorem Shell.deallocate (h : Shell r) : r.deallocate = some r := by
  simp [RB.deallocate, h.data]

theorem Shell.allocate (h : Shell r) {max : Nat} (hmax : max < 2 ^ 63) : ∃ k, Rep k (r.allocate max) [] := by
  obtain ⟨k, hk⟩ := Rep.new hmax
  refine ⟨k, ?_⟩
  unfold RB.new RB.allocate at hk
  unfold RB.allocate
  exact {
    hk := hk.hk, data := rfl, cap := hk.cap, mask := hk.mask, len := hk.len,
    hb := by rw [h.b]; exact hk.hb, he := by rw [h.e, h.b]; exact hk.he,
    fits := hk.fits, room := hk.room, slot := by rw [h.b]; exact hk.slot }

theorem all_none_of_rep (h : Rep k r []) : r.slots.filter Option.isSome = [] := by
  rw [List.filter_eq_nil_iff]
  intro a ha
  obtain ⟨i, hi, rfl⟩ := List.getElem_of_mem ha
  have hp := h.pos; have hb := h.hb
  rw [h.len] at hi
  have := h.slot ((i + 2 ^ k - r.b) % 2 ^ k) (Nat.mod_lt _ hp)
  have hidx : (r.b + (i + 2 ^ k - r.b) % 2 ^ k) % 2 ^ k = i := by
    rw [mod_wrap (show i + 2 ^ k - r.b < 2 * 2 ^ k by omega)]
    split
    · rw [mod_wrap (by omega)]; split <;> omega
    · rw [mod_wrap (by omega)]; split <;> omega
  rw [hidx, List.getElem?_eq_getElem (by rw [h.len]; exact hi)] at this
  simp at this
  simp [this]

/-- the destructor leaves no live element object behind -/
theorem Rep.dtor (h : Rep k r xs) : r.dtor = some 0 := by
  obtain ⟨r1, h1, hr1, _⟩ := h.clear
  simp [RB.dtor, h1, all_none_of_rep hr1]

theorem Shell.dtor (h : Shell r) : r.dtor = some 0 := by
  simp [RB.dtor, h.clear, h.slots]

theorem filter_set_none {s : List (Option Elem)} {i : Nat} {v : Elem} (hlt : i < s.length)
    (hget : s[i] = some v) :
    (s.filter Option.isSome).length = ((s.set i none).filter Option.isSome).length + 1 := by
  induction s generalizing i with
  | nil => simp at hlt
  | cons a s ihs =>
    cases i with
    | zero => simp at hget; subst hget; simp
    | succ i =>
      simp at hget hlt
      have := ihs hlt hget
      by_cases ha : a.isSome <;> simp [List.filter_cons, ha] <;> omega

/-- number of live element objects = number of stored elements -/
theorem Rep.live_count (h : Rep k r xs) : (r.slots.filter Option.isSome).length = xs.length := by
  induction xs generalizing r with
  | nil => rw [all_none_of_rep h]; rfl
  | cons x xs ih =>
    obtain ⟨r', hpop, hr', _⟩ := h.popFront
    have := ih hr'
    -- popFront turned exactly one live slot into raw storage
    unfold RB.popFront destroy at hpop
    split at hpop
    · rename_i v hv
      simp at hpop
      subst hpop
      simp only at this
      have hlt : r.b < r.slots.length := by
        rcases Nat.lt_or_ge r.b r.slots.length with h' | h'
        · exact h'
        · rw [List.getElem?_eq_none h'] at hv; cases hv
      have hget : r.slots[r.b] = some v := by
        rw [List.getElem?_eq_getElem hlt] at hv; exact Option.some.inj hv
      rw [List.length_cons, ← this]
      exact filter_set_none hlt hget
    · simp at hpop

end TlxVerif.C16
