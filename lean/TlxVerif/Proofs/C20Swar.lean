import TlxVerif.Proofs.C20Nat
/-!
The SWAR popcount (`popcount_generic8/16/32/64`) counts bits — proof for every value.

The word is peeled byte by byte: every stage of the algorithm maps `256·h + b` (b < 256) to
`256·stage(h) + stage₈(b)` because no borrow / carry crosses a byte boundary.  What happens
inside one byte is a finite table (256 entries, `decide +kernel`); the induction over the number
of bytes covers every width.
-/
set_option linter.unusedSimpArgs false
namespace TlxVerif.C20

/-- the byte `c` repeated `nb` times: `0x55…55`, `0x33…33`, `0x0F…0F`, `0x01…01` -/
def rep (c : Nat) : Nat → Nat
  | 0 => 0
  | nb + 1 => 256 * rep c nb + c

def stA (nb x : Nat) : Nat := x - ((x >>> 1) &&& rep 0x55 nb)
def stB (nb y : Nat) : Nat := (y &&& rep 0x33 nb) + ((y >>> 2) &&& rep 0x33 nb)
def stC (nb z : Nat) : Nat := (z + (z >>> 4)) &&& rep 0x0F nb
/-- after the three stages every byte holds the number of one bits of that byte of the input -/
def swar (nb x : Nat) : Nat := stC nb (stB nb (stA nb x))

/-- `Σ_j popc(byte_j x) · 256^j` -/
def bytePop : Nat → Nat → Nat
  | 0, _ => 0
  | nb + 1, x => 256 * bytePop nb (x / 256) + popc 8 (x % 256)

/-! #### splitting off the low byte -/

theorem split_and (h b m c : Nat) (hb : b < 256) (hc : c < 256) :
    (256 * h + b) &&& (256 * m + c) = 256 * (h &&& m) + (b &&& c) := by
  have h1 := @Nat.and_div_two_pow (256 * h + b) (256 * m + c) 8
  have h2 := @Nat.and_mod_two_pow (256 * h + b) (256 * m + c) 8
  have e1 : (256 * h + b) / 2 ^ 8 = h := by omega
  have e2 : (256 * m + c) / 2 ^ 8 = m := by omega
  have e3 : (256 * h + b) % 2 ^ 8 = b := by omega
  have e4 : (256 * m + c) % 2 ^ 8 = c := by omega
  rw [e1, e2] at h1; rw [e3, e4] at h2
  have := Nat.div_add_mod ((256 * h + b) &&& (256 * m + c)) (2 ^ 8)
  rw [h1, h2] at this
  omega

theorem and_low (y c n : Nat) (hc : c < 2 ^ n) : y &&& c = (y % 2 ^ n) &&& c := by
  have h := @Nat.and_mod_two_pow y c n
  have hlt : y &&& c < 2 ^ n := Nat.and_lt_two_pow y hc
  rw [Nat.mod_eq_of_lt hlt, Nat.mod_eq_of_lt hc] at h
  exact h

theorem split_shr_and (k : Nat) (hk : k ≤ 8) (h b m c : Nat) (hb : b < 256) (hc : c < 2 ^ (8 - k)) :
    ((256 * h + b) >>> k) &&& (256 * m + c) = 256 * ((h >>> k) &&& m) + ((b >>> k) &&& c) := by
  have hc256 : c < 256 := Nat.lt_of_lt_of_le hc (Nat.pow_le_pow_right (by omega) (by omega) : 2 ^ (8 - k) ≤ 2 ^ 8)
  have hsplit : (256 * h + b) >>> k = 256 * (h >>> k) + ((256 * h + b) >>> k) % 256 := by
    have e : ((256 * h + b) >>> k) / 256 = h >>> k := by
      rw [Nat.shiftRight_eq_div_pow, Nat.shiftRight_eq_div_pow, Nat.div_div_eq_div_mul,
        Nat.mul_comm (2 ^ k) 256, ← Nat.div_div_eq_div_mul]
      have : (256 * h + b) / 256 = h := by omega
      rw [this]
    have := Nat.div_add_mod ((256 * h + b) >>> k) 256
    rw [e] at this; omega
  have hmod : (((256 * h + b) >>> k) % 256) % 2 ^ (8 - k) = b >>> k := by
    rw [Nat.shiftRight_eq_div_pow, Nat.shiftRight_eq_div_pow]
    have hp : 256 = 2 ^ (8 - k) * 2 ^ k := by
      rw [← Nat.pow_add]; have : 8 - k + k = 8 := by omega
      rw [this]
    have hdvd : 2 ^ (8 - k) ∣ 256 := ⟨2 ^ k, hp⟩
    rw [Nat.mod_mod_of_dvd _ hdvd]
    -- (256h + b) / 2^k = 2^(8-k) * h + b / 2^k
    have hpos : 0 < 2 ^ k := Nat.pow_pos (by omega)
    have e : (256 * h + b) / 2 ^ k = 2 ^ (8 - k) * h + b / 2 ^ k := by
      have : 256 * h + b = 2 ^ k * (2 ^ (8 - k) * h) + b := by
        rw [← Nat.mul_assoc, Nat.mul_comm (2 ^ k), ← hp]
      rw [this, Nat.mul_add_div hpos]
    rw [e, Nat.mul_add_mod]
    apply Nat.mod_eq_of_lt
    apply Nat.div_lt_of_lt_mul
    rw [Nat.mul_comm, ← hp]; exact hb
  rw [hsplit, split_and _ _ _ _ (Nat.mod_lt _ (by omega)) hc256]
  congr 1
  rw [and_low _ c (8 - k) hc, hmod]

/-! #### one byte (finite tables) -/

theorem byte_tables : ∀ b : Fin 256,
    ((b.val >>> 1) &&& 0x55) ≤ b.val ∧
    stB 1 (stA 1 b.val) ≤ 102 ∧
    swar 1 b.val = popc 8 b.val := by decide +kernel

theorem stB1_mod16 : ∀ b : Fin 256, stB 1 b.val % 16 ≤ 6 ∧ stB 1 b.val ≤ 102 := by decide +kernel

theorem rep_one (c : Nat) : rep c 1 = c := by simp [rep]

/-! #### the stages commute with the byte split -/

theorem stA_split (nb h b : Nat) (hb : b < 256) :
    stA (nb + 1) (256 * h + b) = 256 * stA nb h + stA 1 b := by
  unfold stA
  rw [rep_one]
  simp only [rep]
  rw [split_shr_and 1 (by omega) h b _ 0x55 hb (by decide)]
  have h1 : (h >>> 1) &&& rep 85 nb ≤ h := Nat.le_trans Nat.and_le_left (Nat.shiftRight_le _ _)
  have h2 := (byte_tables ⟨b, hb⟩).1
  simp only at h2
  omega

theorem stB_split (nb h b : Nat) (hb : b < 256) :
    stB (nb + 1) (256 * h + b) = 256 * stB nb h + stB 1 b := by
  unfold stB
  rw [rep_one]
  simp only [rep]
  rw [split_shr_and 2 (by omega) h b _ 0x33 hb (by decide), split_and h b _ 0x33 hb (by decide)]
  omega

theorem stB_low (nb y : Nat) : stB (nb + 1) y = 256 * stB nb (y / 256) + stB 1 (y % 256) := by
  have := stB_split nb (y / 256) (y % 256) (Nat.mod_lt _ (by omega))
  rw [← this]; congr 1; omega

theorem stB_mod16 (nb y : Nat) : stB nb y % 16 ≤ 6 := by
  cases nb with
  | zero => simp [stB, rep]
  | succ nb =>
    rw [stB_low]
    have := (stB1_mod16 ⟨y % 256, Nat.mod_lt _ (by omega)⟩).1
    simp only at this
    omega

theorem stC_split (nb zh zl : Nat) (hzl : zl ≤ 102) (hzh : zh % 16 ≤ 6) :
    stC (nb + 1) (256 * zh + zl) = 256 * stC nb zh + stC 1 zl := by
  unfold stC
  rw [rep_one]
  simp only [rep]
  -- z + z>>>4 = 256 * (zh + zh>>>4) + L  with  L = zl + zl/16 + 16 * (zh % 16) < 256
  have hsum : 256 * zh + zl + (256 * zh + zl) >>> 4
      = 256 * (zh + zh >>> 4) + (zl + zl / 16 + 16 * (zh % 16)) := by
    rw [Nat.shiftRight_eq_div_pow, Nat.shiftRight_eq_div_pow]
    have : (256 * zh + zl) / 2 ^ 4 = 16 * zh + zl / 16 := by omega
    rw [this]
    have : zh / 2 ^ 4 = zh / 16 := rfl
    rw [this]; omega
  rw [hsum, split_and _ _ _ 0x0F (by omega) (by decide)]
  congr 1
  -- the junk in the high nibble is masked away
  rw [and_low _ 0x0F 4 (by decide), and_low (zl + zl >>> 4) 0x0F 4 (by decide)]
  congr 1
  rw [Nat.shiftRight_eq_div_pow]
  have : zl / 2 ^ 4 = zl / 16 := rfl
  rw [this]
  omega

/-- **after the three SWAR stages every byte holds the popcount of the corresponding input byte** -/
theorem swar_eq_bytePop (nb x : Nat) : swar nb x = bytePop nb x := by
  induction nb generalizing x with
  | zero => simp [swar, stA, stB, stC, rep, bytePop]
  | succ nb ih =>
    have hx : x = 256 * (x / 256) + x % 256 := by omega
    have hb : x % 256 < 256 := Nat.mod_lt _ (by omega)
    simp only [bytePop]
    rw [← ih (x / 256), ← (byte_tables ⟨x % 256, hb⟩).2.2]
    unfold swar
    conv => lhs; rw [hx]
    have hA1 : stA 1 (x % 256) < 256 := by unfold stA; omega
    rw [stA_split nb _ _ hb, stB_split nb _ _ hA1]
    exact stC_split nb _ _ (byte_tables ⟨x % 256, hb⟩).2.1 (stB_mod16 nb _)

/-! #### bit counts add up over bytes -/

theorem popc_add (a b n : Nat) : popc (a + b) n = popc a n + popc b (n / 2 ^ a) := by
  induction a generalizing n with
  | zero => simp [popc]
  | succ a ih =>
    have : a + 1 + b = (a + b) + 1 := by omega
    rw [this]
    simp only [popc, ih, Nat.div_div_eq_div_mul, Nat.pow_succ]
    rw [Nat.mul_comm 2]; omega

theorem popc_mod (a n : Nat) : popc a n = popc a (n % 2 ^ a) := by
  induction a generalizing n with
  | zero => simp [popc]
  | succ a ih =>
    simp only [popc]
    have e1 : n % 2 ^ (a + 1) % 2 = n % 2 := Nat.mod_mod_of_dvd _ ⟨2 ^ a, by rw [Nat.pow_succ]; omega⟩
    have e2 : n % 2 ^ (a + 1) / 2 = (n / 2) % 2 ^ a := by
      rw [Nat.pow_succ, Nat.mul_comm, Nat.mod_mul_right_div_self]
    rw [e1, e2, ← ih]

theorem popc_le (a n : Nat) : popc a n ≤ a := by
  induction a generalizing n with
  | zero => simp [popc]
  | succ a ih => simp only [popc]; have := ih (n / 2); omega

/-- bit count of a `8·nb`-bit word = sum of the byte counts -/
theorem popc_bytes (nb x : Nat) : popc (8 * (nb + 1)) x = popc 8 (x % 256) + popc (8 * nb) (x / 256) := by
  have : 8 * (nb + 1) = 8 + 8 * nb := by omega
  rw [this, popc_add, popc_mod 8 x]


/-! #### glue to the `BitVec` code -/

theorem stB_le (nb y : Nat) : stB nb y ≤ rep 102 nb := by
  induction nb generalizing y with
  | zero => simp [stB, rep]
  | succ nb ih =>
    rw [stB_low]
    have := (stB1_mod16 ⟨y % 256, Nat.mod_lt _ (by omega)⟩).2
    simp only at this
    have := ih (y / 256)
    simp only [rep]; omega

theorem stA_le (nb x : Nat) : stA nb x ≤ x := by unfold stA; omega

theorem sub_toNat_of_le {w : Nat} (a b : BitVec w) (h : b.toNat ≤ a.toNat) :
    (a - b).toNat = a.toNat - b.toNat := by
  rw [BitVec.toNat_sub]
  have ha := a.isLt
  have : 2 ^ w - b.toNat + a.toNat = 2 ^ w + (a.toNat - b.toNat) := by omega
  rw [this, Nat.add_mod_left, Nat.mod_eq_of_lt (by omega)]

/-- the three stages on a `BitVec w` word are the three stages on its value, for `w = 8·nb` -/
theorem stages_toNat {w : Nat} (nb : Nat) (x m55 m33 m0F : BitVec w)
    (h55 : m55.toNat = rep 0x55 nb) (h33 : m33.toNat = rep 0x33 nb) (h0F : m0F.toNat = rep 0x0F nb)
    (hbound : rep 102 nb < 2 ^ w) :
    let x1 := x - ((x >>> 1) &&& m55)
    let x2 := (x1 &&& m33) + ((x1 >>> 2) &&& m33)
    ((x2 + (x2 >>> 4)) &&& m0F).toNat = swar nb x.toNat := by
  intro x1 x2
  have e1 : x1.toNat = stA nb x.toNat := by
    simp only [x1]
    rw [sub_toNat_of_le]
    · simp only [BitVec.toNat_and, BitVec.toNat_ushiftRight, h55, stA]
    · simp only [BitVec.toNat_and, BitVec.toNat_ushiftRight]
      exact Nat.le_trans Nat.and_le_left (Nat.shiftRight_le _ _)
  have e2 : x2.toNat = stB nb x1.toNat := by
    simp only [x2]
    rw [BitVec.toNat_add]
    simp only [BitVec.toNat_and, BitVec.toNat_ushiftRight, h33]
    apply Nat.mod_eq_of_lt
    have := stB_le nb x1.toNat
    unfold stB at this
    omega
  rw [BitVec.toNat_and, BitVec.toNat_add, BitVec.toNat_ushiftRight, h0F, e2, e1]
  unfold swar stC
  have hlt : rep 0x0F nb < 2 ^ w := by
    have : ∀ nb, rep 0x0F nb ≤ rep 102 nb := by
      intro nb; induction nb with
      | zero => simp [rep]
      | succ nb ih => simp only [rep]; omega
    have := this nb; omega
  exact (and_low _ _ w hlt).symm

/-- the multiplication by `0x0101…01` followed by `>> (w-8)`: the product is
    `2^n·U + 2^k·S + L` with `L < 2^k`, `2^k·S + L < 2^n`, so the top byte is `S` -/
theorem top_byte_sum (n k U S L X : Nat) (hX : X = 2 ^ n * U + 2 ^ k * S + L) (hL : L < 2 ^ k)
    (hS : 2 ^ k * S + L < 2 ^ n) : X % 2 ^ n / 2 ^ k = S := by
  subst hX
  rw [Nat.add_assoc, Nat.mul_add_mod, Nat.mod_eq_of_lt hS, Nat.mul_add_div (Nat.pow_pos (by omega)),
    Nat.div_eq_of_lt hL]; omega

theorem popcountGeneric16_eq (x : BitVec 16) : popcountGeneric16 x = popc 16 x.toNat := by
  unfold popcountGeneric16
  simp only
  have hc : (0x0101#16).toNat = 257 := by decide
  rw [BitVec.toNat_ushiftRight, BitVec.toNat_mul,
    stages_toNat 2 x 0x5555#16 0x3333#16 0x0F0F#16 (by decide) (by decide) (by decide) (by decide),
    swar_eq_bytePop]
  simp only [bytePop]
  have h0 := popc_le 8 (x.toNat % 256)
  have h1 := popc_le 8 (x.toNat / 256 % 256)
  have e : popc 16 x.toNat = popc 8 (x.toNat % 256) + (popc 8 (x.toNat / 256 % 256)) := by
    generalize x.toNat = n
    have : popc 16 n = popc (8 * (1 + 1)) n := rfl
    rw [this, popc_bytes, popc_bytes]; simp [popc]
  rw [e]
  simp only [hc, Nat.shiftRight_eq_div_pow]
  generalize popc 8 (x.toNat % 256) = p0 at *
  generalize popc 8 (x.toNat / 256 % 256) = p1 at *
  exact top_byte_sum 16 8 (1 * p1) (p0 + p1) (1 * p0) _ (by omega) (by omega) (by omega)

theorem popcountGeneric32_eq (x : BitVec 32) : popcountGeneric32 x = popc 32 x.toNat := by
  unfold popcountGeneric32
  simp only
  have hc : (0x01010101#32).toNat = 16843009 := by decide
  rw [BitVec.toNat_ushiftRight, BitVec.toNat_mul,
    stages_toNat 4 x 0x55555555#32 0x33333333#32 0x0F0F0F0F#32 (by decide) (by decide) (by decide) (by decide),
    swar_eq_bytePop]
  simp only [bytePop]
  have h0 := popc_le 8 (x.toNat % 256)
  have h1 := popc_le 8 (x.toNat / 256 % 256)
  have h2 := popc_le 8 (x.toNat / 256 / 256 % 256)
  have h3 := popc_le 8 (x.toNat / 256 / 256 / 256 % 256)
  have e : popc 32 x.toNat = popc 8 (x.toNat % 256) + (popc 8 (x.toNat / 256 % 256) + (popc 8 (x.toNat / 256 / 256 % 256) + (popc 8 (x.toNat / 256 / 256 / 256 % 256)))) := by
    generalize x.toNat = n
    have : popc 32 n = popc (8 * (3 + 1)) n := rfl
    rw [this, popc_bytes, popc_bytes, popc_bytes, popc_bytes]; simp [popc]
  rw [e]
  simp only [hc, Nat.shiftRight_eq_div_pow]
  generalize popc 8 (x.toNat % 256) = p0 at *
  generalize popc 8 (x.toNat / 256 % 256) = p1 at *
  generalize popc 8 (x.toNat / 256 / 256 % 256) = p2 at *
  generalize popc 8 (x.toNat / 256 / 256 / 256 % 256) = p3 at *
  exact top_byte_sum 32 24 (1 * p1 + 257 * p2 + 65793 * p3) (p0 + (p1 + (p2 + p3))) (65793 * p0 + 65792 * p1 + 65536 * p2) _ (by omega) (by omega) (by omega)

theorem popcountGeneric64_eq (x : BitVec 64) : popcountGeneric64 x = popc 64 x.toNat := by
  unfold popcountGeneric64
  simp only
  have hc : (0x0101010101010101#64).toNat = 72340172838076673 := by decide
  rw [BitVec.toNat_ushiftRight, BitVec.toNat_mul,
    stages_toNat 8 x 0x5555555555555555#64 0x3333333333333333#64 0x0F0F0F0F0F0F0F0F#64 (by decide) (by decide) (by decide) (by decide),
    swar_eq_bytePop]
  simp only [bytePop]
  have h0 := popc_le 8 (x.toNat % 256)
  have h1 := popc_le 8 (x.toNat / 256 % 256)
  have h2 := popc_le 8 (x.toNat / 256 / 256 % 256)
  have h3 := popc_le 8 (x.toNat / 256 / 256 / 256 % 256)
  have h4 := popc_le 8 (x.toNat / 256 / 256 / 256 / 256 % 256)
  have h5 := popc_le 8 (x.toNat / 256 / 256 / 256 / 256 / 256 % 256)
  have h6 := popc_le 8 (x.toNat / 256 / 256 / 256 / 256 / 256 / 256 % 256)
  have h7 := popc_le 8 (x.toNat / 256 / 256 / 256 / 256 / 256 / 256 / 256 % 256)
  have e : popc 64 x.toNat = popc 8 (x.toNat % 256) + (popc 8 (x.toNat / 256 % 256) + (popc 8 (x.toNat / 256 / 256 % 256) + (popc 8 (x.toNat / 256 / 256 / 256 % 256) + (popc 8 (x.toNat / 256 / 256 / 256 / 256 % 256) + (popc 8 (x.toNat / 256 / 256 / 256 / 256 / 256 % 256) + (popc 8 (x.toNat / 256 / 256 / 256 / 256 / 256 / 256 % 256) + (popc 8 (x.toNat / 256 / 256 / 256 / 256 / 256 / 256 / 256 % 256)))))))) := by
    generalize x.toNat = n
    have : popc 64 n = popc (8 * (7 + 1)) n := rfl
    rw [this, popc_bytes, popc_bytes, popc_bytes, popc_bytes, popc_bytes, popc_bytes, popc_bytes, popc_bytes]; simp [popc]
  rw [e]
  simp only [hc, Nat.shiftRight_eq_div_pow]
  generalize popc 8 (x.toNat % 256) = p0 at *
  generalize popc 8 (x.toNat / 256 % 256) = p1 at *
  generalize popc 8 (x.toNat / 256 / 256 % 256) = p2 at *
  generalize popc 8 (x.toNat / 256 / 256 / 256 % 256) = p3 at *
  generalize popc 8 (x.toNat / 256 / 256 / 256 / 256 % 256) = p4 at *
  generalize popc 8 (x.toNat / 256 / 256 / 256 / 256 / 256 % 256) = p5 at *
  generalize popc 8 (x.toNat / 256 / 256 / 256 / 256 / 256 / 256 % 256) = p6 at *
  generalize popc 8 (x.toNat / 256 / 256 / 256 / 256 / 256 / 256 / 256 % 256) = p7 at *
  exact top_byte_sum 64 56 (1 * p1 + 257 * p2 + 65793 * p3 + 16843009 * p4 + 4311810305 * p5 + 1103823438081 * p6 + 282578800148737 * p7) (p0 + (p1 + (p2 + (p3 + (p4 + (p5 + (p6 + p7))))))) (282578800148737 * p0 + 282578800148736 * p1 + 282578800148480 * p2 + 282578800082944 * p3 + 282578783305728 * p4 + 282574488338432 * p5 + 281474976710656 * p6) _ (by omega) (by omega) (by omega)


/-! #### popcount(const void*, size_t) -/

theorem loadLE_toNat (w : Nat) (bs : List (BitVec 8)) (h : 8 * bs.length ≤ w) :
    (loadLE w bs).toNat < 2 ^ (8 * bs.length) ∧
    ∀ b : BitVec 8, 8 * (bs.length + 1) ≤ w →
      (loadLE w (b :: bs)).toNat = 256 * (loadLE w bs).toNat + b.toNat := by
  induction bs with
  | nil =>
    refine ⟨by simp [loadLE], fun b hb => ?_⟩
    simp only [loadLE, BitVec.toNat_or, BitVec.toNat_shiftLeft, BitVec.toNat_setWidth]
    have : b.toNat < 2 ^ w := Nat.lt_of_lt_of_le b.isLt (Nat.pow_le_pow_right (by omega) (by simpa using hb))
    simp [Nat.mod_eq_of_lt this]
  | cons a bs ih =>
    have hlen : 8 * bs.length ≤ w := by simp at h; omega
    obtain ⟨h1, h2⟩ := ih hlen
    have ha := h2 a (by simpa using h)
    have step : ∀ (c : BitVec 8) (l : List (BitVec 8)) (k : Nat), (loadLE w l).toNat < 2 ^ (8 * k) →
        8 * (k + 1) ≤ w → (loadLE w (c :: l)).toNat = 256 * (loadLE w l).toNat + c.toNat := by
      intro c l k hl hk
      simp only [loadLE, BitVec.toNat_or, BitVec.toNat_shiftLeft, BitVec.toNat_setWidth, Nat.shiftLeft_eq]
      have hc : c.toNat < 2 ^ w := Nat.lt_of_lt_of_le c.isLt (Nat.pow_le_pow_right (by omega) (by omega))
      have hp : 2 ^ (8 * (k + 1)) = 2 ^ (8 * k) * 256 := by
        rw [show 8 * (k + 1) = 8 * k + 8 by omega, Nat.pow_add]
      have hle : 2 ^ (8 * (k + 1)) ≤ 2 ^ w := Nat.pow_le_pow_right (by omega) hk
      have hlt : (loadLE w l).toNat * 2 ^ 8 < 2 ^ w := by
        have : (loadLE w l).toNat * 256 < 2 ^ (8 * k) * 256 := Nat.mul_lt_mul_of_pos_right hl (by omega)
        have e : (2 : Nat) ^ 8 = 256 := by decide
        rw [e]; omega
      rw [Nat.mod_eq_of_lt hlt, Nat.mod_eq_of_lt hc]
      -- x * 256 ||| c = x * 256 + c  (c < 256)
      have e : (2 : Nat) ^ 8 = 256 := by decide
      rw [e, Nat.mul_comm _ 256]
      have : 256 * (loadLE w l).toNat ||| c.toNat = 256 * (loadLE w l).toNat + c.toNat := by
        have h := split_and (loadLE w l).toNat 0 0 c.toNat (by omega) c.isLt
        have : 256 * (loadLE w l).toNat ||| c.toNat = 2 ^ 8 * (loadLE w l).toNat + c.toNat := by
          rw [Nat.two_pow_add_eq_or_of_lt c.isLt]
        rw [this, e]
      exact this
    constructor
    · rw [ha]
      have : 2 ^ (8 * (a :: bs).length) = 2 ^ (8 * bs.length) * 256 := by
        simp only [List.length_cons]
        rw [show 8 * (bs.length + 1) = 8 * bs.length + 8 by omega, Nat.pow_add]
      rw [this]
      have := a.isLt
      have e : (2 : Nat) ^ 8 = 256 := by decide
      omega
    · intro b hb
      apply step b (a :: bs) (bs.length + 1)
      · rw [ha]
        have : 2 ^ (8 * (bs.length + 1)) = 2 ^ (8 * bs.length) * 256 := by
          rw [show 8 * (bs.length + 1) = 8 * bs.length + 8 by omega, Nat.pow_add]
        rw [this]
        have := a.isLt
        have e : (2 : Nat) ^ 8 = 256 := by decide
        omega
      · simpa using hb

/-- number of one bits of a byte string -/
def bitsOf (bs : List (BitVec 8)) : Nat := (bs.map fun b => popc 8 b.toNat).sum

theorem popc_loadLE (w : Nat) (bs : List (BitVec 8)) (h : 8 * bs.length ≤ w) :
    popc (8 * bs.length) (loadLE w bs).toNat = bitsOf bs := by
  induction bs with
  | nil => simp [popc, bitsOf]
  | cons b bs ih =>
    have hlen : 8 * bs.length ≤ w := by simp at h; omega
    have e := (loadLE_toNat w bs hlen).2 b (by simpa using h)
    simp only [List.length_cons]
    rw [popc_bytes, e]
    have h1 : (256 * (loadLE w bs).toNat + b.toNat) % 256 = b.toNat := by have := b.isLt; omega
    have h2 : (256 * (loadLE w bs).toNat + b.toNat) / 256 = (loadLE w bs).toNat := by have := b.isLt; omega
    rw [h1, h2, ih hlen]
    simp [bitsOf]

theorem popcountBufTail_eq (bs : List (BitVec 8)) : popcountBufTail bs = bitsOf bs := by
  unfold popcountBufTail
  split
  · next b0 b1 b2 b3 rest =>
    have := popc_loadLE 32 [b0, b1, b2, b3] (by simp)
    simp only [popcountOverload, specPopcount]
    simp only [List.length_cons, List.length_nil] at this
    rw [show (32 : Nat) = 8 * (0 + 1 + 1 + 1 + 1) by rfl, this]
    simp [bitsOf]; omega
  · simp [popcountOverload, specPopcount, bitsOf]

/-- **popcount(data, size)** (any alignment): the number of one bits of the bytes -/
theorem popcountBuf_eq (bs : List (BitVec 8)) : popcountBuf bs = bitsOf bs := by
  induction bs using popcountBuf.induct with
  | case1 b0 b1 b2 b3 b4 b5 b6 b7 rest ih =>
    have := popc_loadLE 64 [b0, b1, b2, b3, b4, b5, b6, b7] (by simp)
    simp only [popcountBuf, popcountOverload, specPopcount, ih]
    simp only [List.length_cons, List.length_nil] at this
    rw [show (64 : Nat) = 8 * (0 + 1 + 1 + 1 + 1 + 1 + 1 + 1 + 1) by rfl, this]
    simp [bitsOf]; omega
  | case2 bs h =>
    rw [popcountBuf]
    · exact popcountBufTail_eq bs
    · exact h

end TlxVerif.C20
